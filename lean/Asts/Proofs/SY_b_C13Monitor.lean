import Asts.Proofs.SY_b_C13Pre

/-! The monitor `Spec.C13` on the model: `C13 i plan (syncF h i plan).observe = true` under `InputOk i`. -/
namespace Asts.SYb
open Asts

/-! ## the decisions of `ClaimObject` -/

theorem claimDecision_keep_iff (d : Bool) (c : CPod) :
    claimDecision d c = .keep ↔ c.owner = .self ∧ c.selMatch = true ∧ c.member = true := by
  unfold claimDecision
  cases c.owner <;> cases c.selMatch <;> cases c.member <;> cases d <;> cases c.pod.terminating <;> simp

theorem claimDecision_adopt_iff (d : Bool) (c : CPod) :
    claimDecision d c = .adopt ↔
      c.owner = .none ∧ c.selMatch = true ∧ c.member = true ∧ d = false ∧ c.pod.terminating = false := by
  unfold claimDecision
  cases c.owner <;> cases c.selMatch <;> cases c.member <;> cases d <;> cases c.pod.terminating <;> simp

theorem claimDecision_release_owner (d : Bool) (c : CPod) (h : claimDecision d c = .release) : c.owner = .self := by
  unfold claimDecision at h
  cases ho : c.owner with
  | self => rfl
  | other => rw [ho] at h; simp at h
  | none =>
    rw [ho] at h
    simp only at h
    split at h
    · simp at h
    · split at h <;> simp at h

/-! ## exactly which pods are claimed -/

theorem adoptState_log_no_patchPod (plan : List Fault) (i : SyncIn) :
    ∀ e ∈ (adoptState plan i).tr.log, pre "patch:pod:" e = false := by
  intro e he
  obtain ⟨m, hm, hm'⟩ := adopt_log plan i.view.deleting i.fresh { store := i.store }
  unfold adoptState at he
  rw [hm] at he
  simp only [List.nil_append] at he
  exact (hm' e he).not_patchPod

theorem Reach.claimed_iff {h : Hashing} {i : SyncIn} {plan : List Fault} {o : SyncOut} (R : Reach h i plan o)
    (hp : (i.pods.map (·.name)).Nodup) (c : CPod) :
    c ∈ o.claimed ↔ c ∈ i.pods ∧ (claimDecision i.view.deleting c = .keep ∨
      (claimDecision i.view.deleting c = .adopt ∧ Succ plan o.log (patchPodKey c))) := by
  have J := claim_exact plan i.view.deleting i.fresh i.pods (adoptState plan i).tr hp (adoptState_log_no_patchPod plan i)
  rw [R.hclaim, R.succ_patchPod]
  constructor
  · intro hc; exact J.sub c hc
  · rintro ⟨hc, hk | ⟨ha, hs⟩⟩
    · exact J.keep c hc hk
    · exact J.adopt c hc ha hs

/-- an unfaulted `patch:pod:` call for a cached pod is a release or an adoption of that pod -/
theorem Reach.patchPod_decision {h : Hashing} {i : SyncIn} {plan : List Fault} {o : SyncOut} (R : Reach h i plan o)
    (hp : (i.pods.map (·.name)).Nodup) {c : CPod} (hc : c ∈ i.pods) (hs : Succ plan o.log (patchPodKey c)) :
    claimDecision i.view.deleting c = .release ∨ claimDecision i.view.deleting c = .adopt := by
  have J := claim_exact plan i.view.deleting i.fresh i.pods (adoptState plan i).tr hp (adoptState_log_no_patchPod plan i)
  rw [R.succ_patchPod] at hs
  obtain ⟨pre', post, hlg, _⟩ := hs
  obtain ⟨m, hm, hm'⟩ := J.ext
  have hmem : patchPodKey c ∈ (adoptState plan i).tr.log ++ m := by
    rw [← hm]; unfold claimLog at hlg; rw [hlg]; simp
  rcases List.mem_append.mp hmem with h1 | h1
  · have := adoptState_log_no_patchPod plan i _ h1
    rw [patchPodKey_pre] at this; exact absurd this (by simp)
  · rcases hm' _ h1 with he | ⟨c', hc', hdec, he⟩
    · have := patchPodKey_pre c; rw [he, getset_not_patchPod] at this; exact absurd this (by simp)
    · have : c' = c := List.inj_on_of_nodup_map hp hc' hc (patchPodKey_inj he).symm
      rw [← this]; exact hdec

/-! ## the monitor's reading of the log, in terms of `Succ` -/

theorem spec_any_rev {plan : List Fault} {log : List String} (hlog : ∀ e ∈ log, AnyShape e) {n : String} (hn : NoColon n) :
    (annotate plan log).any (fun (g, _, k) => g.verb == "patch" && g.res == "rev" && g.name == n && k.isNone) = true ↔
      Succ plan log ("patch:rev:" ++ n) := by
  have : (fun (x : Entry × Nat × Option ErrKind) => match x with
      | (g, _, k) => g.verb == "patch" && g.res == "rev" && g.name == n && k.isNone) =
      (fun x => x.1.verb == "patch" && x.1.res == "rev" && x.1.name == n && x.2.2.isNone) := by
    funext ⟨g, idx, k⟩; rfl
  rw [this]
  exact any_succ_iff hlog pre_patch_rev (Or.inl rfl) hn

theorem spec_any_pod {plan : List Fault} {log : List String} (hlog : ∀ e ∈ log, AnyShape e) {n : String} (hn : NoColon n) :
    (annotate plan log).any (fun (g, _, k) => g.verb == "patch" && g.res == "pod" && g.name == n && k.isNone) = true ↔
      Succ plan log ("patch:pod:" ++ n) := by
  have : (fun (x : Entry × Nat × Option ErrKind) => match x with
      | (g, _, k) => g.verb == "patch" && g.res == "pod" && g.name == n && k.isNone) =
      (fun x => x.1.verb == "patch" && x.1.res == "pod" && x.1.name == n && x.2.2.isNone) := by
    funext ⟨g, idx, k⟩; rfl
  rw [this]
  exact any_succ_iff hlog pre_patch_pod (Or.inr rfl) hn

theorem dedupByName_id (l : List Rev) (seen : List String) (hn : (l.map (·.name)).Nodup)
    (hd : ∀ r ∈ l, r.name ∉ seen) : dedupByName l seen = l := by
  induction l generalizing seen with
  | nil => rfl
  | cons r rs ih =>
    rw [List.map_cons, List.nodup_cons] at hn
    unfold dedupByName
    have : seen.contains r.name = false := by simpa using hd r List.mem_cons_self
    rw [this]
    simp only [Bool.false_eq_true, if_false]
    rw [ih (r.name :: seen) hn.2]
    intro x hx hmem
    rcases List.mem_cons.mp hmem with h | h
    · exact hn.1 (h ▸ List.mem_map_of_mem hx)
    · exact hd x (List.mem_cons_of_mem _ hx) h

/-- the monitor's "own listed revisions", under `InputOk` and for a log of known shapes -/
theorem mem_ownListed {i : SyncIn} {plan : List Fault} {o : SyncOut} (hok : InputOk i)
    (hlog : ∀ e ∈ o.log, AnyShape e) {r : Rev} :
    r ∈ ownListed i plan o.observe ↔
      r ∈ i.store ∧ (r.selMatch = true ∨ r.marker = true) ∧
      (r.owner = .self ∨ (r.owner = .none ∧ Succ plan o.log (patchRevKey r))) := by
  unfold ownListed
  have hnd : ((i.store.filter (fun r => r.selMatch || r.marker)).map (·.name)).Nodup :=
    List.Nodup.sublist (List.Sublist.map _ List.filter_sublist) hok.storeNames
  simp only
  rw [dedupByName_id _ [] hnd (by simp), List.mem_filter, List.mem_filter]
  constructor
  · rintro ⟨⟨h1, h2⟩, h3⟩
    refine ⟨h1, by simpa using h2, ?_⟩
    rw [Bool.or_eq_true] at h3
    rcases h3 with h3 | h3
    · exact Or.inl (by simpa using h3)
    · rw [Bool.and_eq_true] at h3
      exact Or.inr ⟨by simpa using h3.1, (spec_any_rev hlog (hok.revNoColon r h1)).mp h3.2⟩
  · rintro ⟨h1, h2, h3⟩
    refine ⟨⟨h1, by simpa using h2⟩, ?_⟩
    rw [Bool.or_eq_true]
    rcases h3 with h3 | ⟨h3, h4⟩
    · exact Or.inl (by simpa using h3)
    · right
      rw [Bool.and_eq_true]
      exact ⟨by simpa using h3, (spec_any_rev hlog (hok.revNoColon r h1)).mpr h4⟩

/-- the current revision the monitor assumes -/
def specCur (i : SyncIn) (o : SyncOut) : String :=
  if ((i.store.filter (fun r => r.selMatch || r.marker)).map (·.name)).contains i.stored.currentRev then i.stored.currentRev
  else reportedUpd i o

/-- the monitor's live names, under `InputOk`, for a sync that reached the truncation -/
theorem mem_liveNames {h : Hashing} {i : SyncIn} {plan : List Fault} {o : SyncOut} (R : Reach h i plan o) (hok : InputOk i)
    (hlog : ∀ e ∈ o.log, AnyShape e) {n : String} :
    n ∈ liveNames i plan o.observe ↔
      n = specCur i o ∨ n = reportedUpd i o ∨ ∃ c ∈ o.claimed, c.pod.rev = n := by
  unfold liveNames
  simp only [List.mem_cons, List.mem_map, List.mem_filter]
  have hpods : (∃ c : CPod, (c ∈ i.pods ∧ (c.selMatch && c.member && (c.owner == .self ||
      (c.owner == .none && (annotate plan o.observe.log).any
        (fun (g, _, k) => g.verb == "patch" && g.res == "pod" && g.name == c.name && k.isNone)))) = true) ∧ c.pod.rev = n) ↔
      ∃ c ∈ o.claimed, c.pod.rev = n := by
    constructor
    · rintro ⟨c, ⟨hc, hcond⟩, hrev⟩
      refine ⟨c, ?_, hrev⟩
      rw [R.claimed_iff hok.podNames]
      refine ⟨hc, ?_⟩
      simp only [Bool.and_eq_true, Bool.or_eq_true, beq_iff_eq] at hcond
      obtain ⟨⟨hs, hm⟩, ho⟩ := hcond
      rcases ho with ho | ⟨ho, hany⟩
      · exact Or.inl ((claimDecision_keep_iff _ c).mpr ⟨ho, hs, hm⟩)
      · have hsucc : Succ plan o.log (patchPodKey c) := (spec_any_pod hlog (hok.podNoColon c hc)).mp hany
        right
        refine ⟨?_, hsucc⟩
        rcases R.patchPod_decision hok.podNames hc hsucc with hd | hd
        · have := claimDecision_release_owner _ c hd
          rw [ho] at this; exact absurd this (by simp)
        · exact hd
    · rintro ⟨c, hc, hrev⟩
      obtain ⟨hcp, hdec⟩ := (R.claimed_iff hok.podNames c).mp hc
      refine ⟨c, ⟨hcp, ?_⟩, hrev⟩
      simp only [Bool.and_eq_true, Bool.or_eq_true, beq_iff_eq]
      rcases hdec with hk | ⟨ha, hs⟩
      · obtain ⟨a, b, c'⟩ := (claimDecision_keep_iff _ c).mp hk
        exact ⟨⟨b, c'⟩, Or.inl a⟩
      · obtain ⟨a, b, c', _, _⟩ := (claimDecision_adopt_iff _ c).mp ha
        exact ⟨⟨b, c'⟩, Or.inr ⟨a, (spec_any_pod hlog (hok.podNoColon c hcp)).mpr hs⟩⟩
  constructor
  · rintro (h1 | h1 | h1)
    · exact Or.inl h1
    · exact Or.inr (Or.inl h1)
    · exact Or.inr (Or.inr (hpods.mp h1))
  · rintro (h1 | h1 | h1)
    · exact Or.inl h1
    · exact Or.inr (Or.inl h1)
    · exact Or.inr (Or.inr (hpods.mpr h1))

/-! ## the monitor's live names against the model's -/

theorem syncLive_eq {h : Hashing} {i : SyncIn} {plan : List Fault} {o : SyncOut} (R : Reach h i plan o) (n : String) :
    n ∈ syncLive o ↔ n = R.cur.name ∨ n = R.upd.name ∨ ∃ c ∈ o.claimed, c.pod.rev = n := by
  unfold syncLive
  rw [R.ocur, R.oupd]
  simp only [List.mem_cons, List.mem_map]

theorem find?_isSome_of_mem {l : List Rev} {n : String} {x : Rev} (hx : x ∈ l) (hn : x.name = n) :
    ∃ q, l.find? (·.name == n) = some q ∧ q.name = n := by
  cases hf : l.find? (·.name == n) with
  | none =>
    rw [List.find?_eq_none] at hf
    exact absurd (by simpa using hn) (hf x hx)
  | some q => exact ⟨q, rfl, by have := List.find?_some hf; simpa using this⟩

/-- the current revision of the model is the monitor's, or the update revision -/
theorem Reach.cur_cases {h : Hashing} {i : SyncIn} {plan : List Fault} {o : SyncOut} (R : Reach h i plan o)
    (hn : (i.store.map (·.name)).Nodup) :
    (R.cur.name = specCur i o ∨ R.cur.name = R.upd.name) ∧
    (specCur i o = R.cur.name ∨ specCur i o = R.upd.name ∨ ∃ x ∈ i.store, x.name = specCur i o ∧ x.owner = .other) := by
  obtain ⟨G, hG, hGp⟩ := R.adopt_image hn
  have hnA : ((adoptedStore plan i).map (·.name)).Nodup := by rw [(adoptedStore_adopted plan i).names]; exact hn
  have hcur := R.hcur
  have hrep := R.orep
  constructor
  · cases hf : (syncListing plan i).find? (·.name == i.stored.currentRev) with
    | none => rw [hf] at hcur; right; rw [hcur]; rfl
    | some q =>
      rw [hf] at hcur
      left
      obtain ⟨hq, hqn⟩ := find?_name hf
      have hqA := mem_listRevisions (mem_sortRevs.mp hq)
      rw [hG] at hqA
      obtain ⟨x, hx, hxq⟩ := List.mem_map.mp hqA.1
      obtain ⟨hc, _, _, hl⟩ := hGp x hx
      have hxn : x.name = i.stored.currentRev := by rw [← hqn, ← hxq]; exact (core_name hc).symm
      have hxl : x.selMatch = true ∨ x.marker = true := hl.mp (hxq ▸ hqA.2.1)
      unfold specCur
      rw [if_pos]
      · rw [hcur]; exact hqn
      · simp only [List.contains_iff_mem, List.mem_map, List.mem_filter]
        exact ⟨x, ⟨hx, by simpa using hxl⟩, hxn⟩
  · unfold specCur
    by_cases hc : ((i.store.filter (fun r => r.selMatch || r.marker)).map (·.name)).contains i.stored.currentRev = true
    · rw [if_pos hc]
      simp only [List.contains_iff_mem, List.mem_map, List.mem_filter] at hc
      obtain ⟨x, ⟨hx, hxl⟩, hxn⟩ := hc
      by_cases hxo : x.owner = .other
      · exact Or.inr (Or.inr ⟨x, hx, hxn, hxo⟩)
      · left
        obtain ⟨hcore, _, hoth, hl⟩ := hGp x hx
        have hGx : G x ∈ listRevisions (adoptedStore plan i) := by
          rw [mem_listRevisions_iff hnA]
          refine ⟨by rw [hG]; exact List.mem_map_of_mem hx, hl.mpr (by simpa using hxl), fun hh => hxo (hoth.mp hh)⟩
        have hGn : (G x).name = i.stored.currentRev := by rw [core_name hcore]; exact hxn
        obtain ⟨q, hq, hqn⟩ := find?_isSome_of_mem (mem_sortRevs.mpr hGx) hGn
        unfold syncListing at hcur
        rw [hq] at hcur
        rw [hcur]; exact hqn.symm
    · rw [if_neg hc]
      right; left; rw [hrep]

theorem live_of_syncLive {h : Hashing} {i : SyncIn} {plan : List Fault} {o : SyncOut} (R : Reach h i plan o) (hok : InputOk i)
    (hlog : ∀ e ∈ o.log, AnyShape e) {n : String} (hn : n ∈ syncLive o) : n ∈ liveNames i plan o.observe := by
  rw [mem_liveNames R hok hlog]
  rw [syncLive_eq R] at hn
  rcases hn with h1 | h1 | h1
  · rcases (R.cur_cases hok.storeNames).1 with h2 | h2
    · exact Or.inl (h1.trans h2)
    · exact Or.inr (Or.inl (by rw [R.orep]; exact h1.trans h2))
  · exact Or.inr (Or.inl (by rw [R.orep]; exact h1))
  · exact Or.inr (Or.inr h1)

theorem syncLive_of_live {h : Hashing} {i : SyncIn} {plan : List Fault} {o : SyncOut} (R : Reach h i plan o) (hok : InputOk i)
    (hlog : ∀ e ∈ o.log, AnyShape e) {n : String} (hn : n ∈ liveNames i plan o.observe) :
    n ∈ syncLive o ∨ ∃ x ∈ i.store, x.name = n ∧ x.owner = .other := by
  rw [mem_liveNames R hok hlog] at hn
  rw [syncLive_eq R]
  rcases hn with h1 | h1 | h1
  · rcases (R.cur_cases hok.storeNames).2 with h2 | h2 | ⟨x, hx, hxn, hxo⟩
    · exact Or.inl (Or.inl (h1.trans h2))
    · exact Or.inl (Or.inr (Or.inl (h1.trans h2)))
    · exact Or.inr ⟨x, hx, by rw [h1]; exact hxn, hxo⟩
  · exact Or.inl (Or.inr (Or.inl (by rw [← R.orep]; exact h1)))
  · exact Or.inl (Or.inr (Or.inr h1))

/-! ## `Spec.C13`, restated -/

/-- the revision Deletes the monitor reads out of the log: (name, not faulted) -/
def specDels (plan : List Fault) (log : List String) : List (String × Bool) :=
  (annotate plan log).filterMap fun (e, _, k) => if e.res == "rev" && e.verb == "delete" then some (e.name, k.isNone) else none

/-- the body of `Spec.C13` for a given limit -/
def C13core (i : SyncIn) (plan : List Fault) (o : SyncObs) (lim : Int) : Bool :=
  let dels := specDels plan o.log
  let live := liveNames i plan o
  let own := ownListed i plan o
  let unused := sortRevs (own.filter (fun r => !live.contains r.name))
  let budget : Int := unused.length - lim
  dels.all (fun (n, _) => unused.any (·.name == n)) &&
  (dels.map (·.1)).eraseDups.length == dels.length &&
  (dels.isEmpty || ((unused.length : Int) > lim && (dels.length : Int) ≤ budget)) &&
  (dels.map (·.1)) == ((unused.take dels.length).map (·.name)) &&
  (if o.out == "ok" && !i.paused && i.selectorOk then
     let left := o.revs.filter (fun d => own.any (·.name == d.name) && !live.contains d.name)
     (left.length : Int) ≤ max lim 0
   else true)

theorem C13_unfold (i : SyncIn) (plan : List Fault) (o : SyncObs) :
    C13 i plan o = match i.historyLimit with | none => true | some lim => C13core i plan o lim := rfl

theorem specDels_fst_from (plan : List Fault) (pre' rest : List String) :
    ((annFrom plan pre' rest).filterMap fun (e, _, k) =>
        if e.res == "rev" && e.verb == "delete" then some (e.name, k.isNone) else none).map (·.1) = delNames rest := by
  induction rest generalizing pre' with
  | nil => rfl
  | cons e rest ih =>
    unfold annFrom delNames
    rw [List.filterMap_cons, List.map_cons, List.filterMap_cons]
    simp only
    by_cases hc : ((parseEntry e).res == "rev" && (parseEntry e).verb == "delete") = true
    · rw [if_pos hc, if_pos hc]
      simp only [List.map_cons]
      rw [ih]; rfl
    · rw [if_neg hc, if_neg hc]
      rw [ih]; rfl

theorem specDels_fst (plan : List Fault) (log : List String) : (specDels plan log).map (·.1) = delNames log := by
  unfold specDels
  rw [annotate_eq]
  exact specDels_fst_from plan [] log

theorem eraseDups_of_nodup {l : List String} (h : l.Nodup) : l.eraseDups = l := by
  induction l with
  | nil => rfl
  | cons a as ih =>
    rw [List.nodup_cons] at h
    rw [List.eraseDups_cons]
    have : as.filter (fun b => !b == a) = as := by
      rw [List.filter_eq_self]
      intro b hb
      have : b ≠ a := fun e => h.1 (e ▸ hb)
      simpa using this
    rw [this, ih h.2]

/-- the five checks of the monitor from their content -/
theorem C13core_intro (i : SyncIn) (plan : List Fault) (o : SyncObs) (lim : Int) (N : List String) (U : List Rev)
    (hN : (specDels plan o.log).map (·.1) = N)
    (hU : sortRevs ((ownListed i plan o).filter (fun r => !(liveNames i plan o).contains r.name)) = U)
    (h1 : ∀ n ∈ N, n ∈ U.map (·.name)) (h2 : N.Nodup)
    (h3 : N = [] ∨ (lim < (U.length : Int) ∧ (N.length : Int) ≤ (U.length : Int) - lim))
    (h4 : N = (U.take N.length).map (·.name))
    (h5 : (o.out == "ok" && !i.paused && i.selectorOk) = true →
      (((o.revs.filter (fun d => (ownListed i plan o).any (·.name == d.name) && !(liveNames i plan o).contains d.name)).length : Int)
        ≤ max lim 0)) :
    C13core i plan o lim = true := by
  unfold C13core
  simp only
  rw [hU]
  have hlen : (specDels plan o.log).length = N.length := by rw [← hN, List.length_map]
  rw [Bool.and_eq_true, Bool.and_eq_true, Bool.and_eq_true, Bool.and_eq_true]
  refine ⟨⟨⟨⟨?_, ?_⟩, ?_⟩, ?_⟩, ?_⟩
  · rw [List.all_eq_true]
    rintro ⟨n, b⟩ hx
    have hn : n ∈ N := by rw [← hN]; exact List.mem_map.mpr ⟨(n, b), hx, rfl⟩
    obtain ⟨r, hr, hrn⟩ := List.mem_map.mp (h1 n hn)
    simp only
    rw [List.any_eq_true]
    exact ⟨r, hr, by simpa using hrn⟩
  · rw [hN, eraseDups_of_nodup h2, hlen]
    simp
  · rw [Bool.or_eq_true]
    rcases h3 with h3 | ⟨h3, h3'⟩
    · left
      have : (specDels plan o.log).length = 0 := by rw [hlen, h3]; rfl
      rw [List.isEmpty_iff]
      exact List.length_eq_zero_iff.mp this
    · right
      rw [Bool.and_eq_true, hlen]
      exact ⟨by simpa using h3, by simpa using h3'⟩
  · rw [hN, hlen]
    simpa using h4
  · split
    · rename_i hr
      simpa using h5 hr
    · rfl

/-! ## sorted lists with the same keys are equal -/

def key3 (r : Rev) : Int × Int × String := (r.number, r.ctime, r.name)

def keyLt (a b : Int × Int × String) : Prop :=
  a.1 < b.1 ∨ (a.1 = b.1 ∧ (a.2.1 < b.2.1 ∨ (a.2.1 = b.2.1 ∧ a.2.2 < b.2.2)))

theorem revLt_key (a b : Rev) : revLt a b = true ↔ keyLt (key3 a) (key3 b) := revLt_iff a b

theorem keyLt_asymm {a b : Int × Int × String} (h1 : keyLt a b) (h2 : keyLt b a) : False := by
  unfold keyLt at h1 h2
  rcases h1 with h1 | ⟨e1, h1 | ⟨f1, h1⟩⟩ <;> rcases h2 with h2 | ⟨e2, h2 | ⟨f2, h2⟩⟩ <;> try omega
  exact lt_asymm h1 h2

theorem key3_of_core {a b : Rev} (h : core a = core b) : key3 a = key3 b := by
  simp only [core, Prod.mk.injEq] at h
  simp only [key3, h.1, h.2.1, h.2.2.1]

theorem key3_name (l : List Rev) : l.map (·.name) = (l.map key3).map (·.2.2) := by
  rw [List.map_map]; rfl

theorem keys_eq_of_sorted {l1 l2 : List Rev} (h1 : l1.Pairwise (fun a b => revLt a b = true))
    (h2 : l2.Pairwise (fun a b => revLt a b = true)) (hmem : ∀ k, k ∈ l1.map key3 ↔ k ∈ l2.map key3) :
    l1.map key3 = l2.map key3 := by
  have p1 : (l1.map key3).Pairwise keyLt := List.pairwise_map.mpr (h1.imp (fun h => (revLt_key _ _).mp h))
  have p2 : (l2.map key3).Pairwise keyLt := List.pairwise_map.mpr (h2.imp (fun h => (revLt_key _ _).mp h))
  have hne : ∀ {a b : Int × Int × String}, keyLt a b → a ≠ b := by
    intro a b hab e; subst e; exact keyLt_asymm hab hab
  have n1 : (l1.map key3).Nodup := List.Pairwise.imp hne p1
  have n2 : (l2.map key3).Nodup := List.Pairwise.imp hne p2
  exact List.Perm.eq_of_pairwise (fun a b _ _ hab hba => (keyLt_asymm hab hba).elim) p1 p2
    ((List.perm_ext_iff_of_nodup n1 n2).mpr hmem)

theorem dedupByName_sublist (l : List Rev) (seen : List String) : (dedupByName l seen).Sublist l := by
  induction l generalizing seen with
  | nil => exact List.Sublist.refl _
  | cons r rs ih =>
    unfold dedupByName
    split
    · exact (ih seen).cons _
    · exact (ih _).cons_cons _

theorem ownListed_sublist (i : SyncIn) (plan : List Fault) (o : SyncObs) : (ownListed i plan o).Sublist i.store := by
  unfold ownListed
  exact (List.filter_sublist.trans (dedupByName_sublist _ _)).trans List.filter_sublist

/-- **the monitor's sorted unused list and the model's history carry the same names in the same order** -/
theorem unused_names_eq {h : Hashing} {i : SyncIn} {plan : List Fault} {o : SyncOut} (R : Reach h i plan o) (hok : InputOk i)
    (hlog : ∀ e ∈ o.log, AnyShape e) :
    (sortRevs ((ownListed i plan o.observe).filter (fun r => !(liveNames i plan o.observe).contains r.name))).map (·.name) =
      (syncHistory plan i o).map (·.name) := by
  obtain ⟨G, hG, hGp⟩ := R.adopt_image hok.storeNames
  have hnA : ((adoptedStore plan i).map (·.name)).Nodup := by
    rw [(adoptedStore_adopted plan i).names]; exact hok.storeNames
  set F := (ownListed i plan o.observe).filter (fun r => !(liveNames i plan o.observe).contains r.name) with hF
  have hFn : (F.map (·.name)).Nodup :=
    List.Nodup.sublist (List.Sublist.map _ (List.filter_sublist.trans (ownListed_sublist i plan o.observe))) hok.storeNames
  have hs1 : (sortRevs F).Pairwise (fun a b => revLt a b = true) := sorted_strict (sortRevs_sorted F) (sortRevs_names_nodup hFn)
  have hs2 := syncHistory_strict plan i o
  rw [key3_name, key3_name, keys_eq_of_sorted hs1 hs2]
  intro k
  simp only [List.mem_map]
  constructor
  · rintro ⟨r, hr, rfl⟩
    rw [mem_sortRevs, hF, List.mem_filter, mem_ownListed hok hlog] at hr
    obtain ⟨⟨hrs, hrl, hro⟩, hrlive⟩ := hr
    have hrlive' : r.name ∉ liveNames i plan o.observe := by simpa using hrlive
    obtain ⟨hc, hown, hoth, hl⟩ := hGp r hrs
    refine ⟨G r, ?_, key3_of_core hc⟩
    unfold syncHistory
    rw [List.mem_filter]
    have hself : (G r).owner = .self := hown.mpr hro
    refine ⟨?_, ?_⟩
    · unfold syncListing
      rw [mem_sortRevs, mem_listRevisions_iff hnA]
      exact ⟨by rw [hG]; exact List.mem_map_of_mem hrs, hl.mpr hrl, by rw [hself]; simp⟩
    · simp only [Bool.and_eq_true, Bool.not_eq_true', ← Bool.not_eq_true, List.contains_iff_mem, beq_iff_eq]
      refine ⟨fun hmem => hrlive' (live_of_syncLive R hok hlog ?_), hself⟩
      rw [core_name hc] at hmem; exact hmem
  · rintro ⟨y, hy, rfl⟩
    obtain ⟨hyA, hyl, hyo, hylive⟩ := mem_syncHistory hy
    rw [hG] at hyA
    obtain ⟨x, hx, rfl⟩ := List.mem_map.mp hyA
    obtain ⟨hc, hown, hoth, hl⟩ := hGp x hx
    refine ⟨x, ?_, (key3_of_core hc).symm⟩
    rw [mem_sortRevs, hF, List.mem_filter, mem_ownListed hok hlog]
    have hxo := hown.mp hyo
    refine ⟨⟨hx, hl.mp hyl, hxo⟩, ?_⟩
    simp only [Bool.not_eq_true', ← Bool.not_eq_true, List.contains_iff_mem]
    intro hmem
    rcases syncLive_of_live R hok hlog hmem with h1 | ⟨x', hx', hxn', hxo'⟩
    · exact hylive (by rw [core_name hc]; exact h1)
    · have : x' = x := List.inj_on_of_nodup_map hok.storeNames hx' hx hxn'
      rw [this] at hxo'
      rcases hxo with h2 | ⟨h2, _⟩ <;> rw [hxo'] at h2 <;> simp at h2

/-! ## the headline -/

theorem delNames_of_no_del {l : List String} (hs : ∀ e ∈ l, AnyShape e) (hf : l.filter (pre "delete:rev:") = []) :
    delNames l = [] := by
  apply delNames_nil_of hs
  intro e he
  rw [List.filter_eq_nil_iff] at hf
  simpa using hf e he

/-- a run that issues no revision Delete and is not a finished success satisfies the monitor trivially -/
theorem C13core_trivial (i : SyncIn) (plan : List Fault) (o : SyncOut) (lim : Int)
    (hd : delNames o.log = []) (hnot : (o.observe.out == "ok" && !i.paused && i.selectorOk) = false) :
    C13core i plan o.observe lim = true := by
  apply C13core_intro i plan o.observe lim [] _ (by rw [specDels_fst]; exact hd) rfl
  · simp
  · exact List.nodup_nil
  · exact Or.inl rfl
  · simp
  · intro h; rw [hnot] at h; exact absurd h (by simp)

theorem filter_map_length {α β} (l : List α) (f : α → β) (p : β → Bool) :
    ((l.map f).filter p).length = (l.filter (fun x => p (f x))).length := by
  rw [List.filter_map, List.length_map]; rfl

/-- the main case: the sync reached the truncation -/
theorem C13core_reach {h : Hashing} {i : SyncIn} {plan : List Fault} (R : Reach h i plan (syncF h i plan)) (hok : InputOk i)
    (lim : Int) (hlim : i.historyLimit = some lim) (hrun : (i.paused || !i.selectorOk) = false)
    (hshape : ∀ e ∈ (syncF h i plan).log, AnyShape e) :
    C13core i plan (syncF h i plan).observe lim = true := by
  set o := syncF h i plan with ho
  set H := syncHistory plan i o with hH
  set D := truncDeletes plan i.historyLimit (o.claimed.map (·.pod.rev)) (syncListing plan i) R.cur R.upd R.sT with hD
  have hUn := unused_names_eq R hok hshape
  have hDH : D <+: H := by rw [hH, ← R.history]; exact truncDeletes_prefix_history _ _ _ _ _ _ _
  have hHcolon : ∀ r ∈ H, NoColon r.name := by
    intro r hr
    have hrA := (mem_syncHistory hr).1
    have : r.name ∈ i.store.map (·.name) := by
      rw [← (adoptedStore_adopted plan i).names]; exact List.mem_map_of_mem hrA
    obtain ⟨x, hx, hxn⟩ := List.mem_map.mp this
    rw [← hxn]; exact hok.revNoColon x hx
  -- the Deletes the monitor reads are the names of `D`
  have hN : (specDels plan o.observe.log).map (·.1) = D.map (·.name) := by
    rw [specDels_fst]
    obtain ⟨hd, tl, hlog, hhd, htl⟩ := R.log_eq
    show delNames o.log = _
    rw [hlog, delNames_append, delNames_append, delNames_append]
    have e1 : delNames hd = [] :=
      delNames_nil_of (fun e he => Or.inl (hhd e he)) (fun e he => (hhd e he).not_del)
    have e2 : delNames ((pickCalls h plan i.template (i.collisionCount.getD 0) (syncListing plan i) R.sL).map RevCall.key) = [] :=
      delNames_nil_of (fun e he => by obtain ⟨c, _, rfl⟩ := List.mem_map.mp he; exact Or.inr (Or.inl ⟨c, rfl⟩))
        (fun e he => by obtain ⟨c, _, rfl⟩ := List.mem_map.mp he; exact c.not_del)
    have e3 : delNames tl = [] :=
      delNames_nil_of (fun e he => Or.inr (Or.inr (Or.inl (htl e he)))) (fun e he => (htl e he).not_del)
    rw [e1, e2, e3, delNames_dels _ (fun r hr => hHcolon r (hDH.subset hr))]
    rfl
  have hlenU : (sortRevs ((ownListed i plan o.observe).filter
      (fun r => !(liveNames i plan o.observe).contains r.name))).length = H.length := by
    have := congrArg List.length hUn
    simpa using this
  apply C13core_intro i plan o.observe lim (D.map (·.name)) _ hN rfl
  · -- targets are unused
    intro n hn
    rw [hUn]
    obtain ⟨r, hr, rfl⟩ := List.mem_map.mp hn
    exact List.mem_map_of_mem (hDH.subset hr)
  · -- each once
    exact List.Nodup.sublist (List.Sublist.map _ hDH.sublist) (syncHistory_names_nodup plan i o)
  · -- only beyond the limit, at most the excess
    by_cases hDe : D = []
    · left; rw [hDe]; rfl
    · right
      obtain ⟨l', hl', hlt⟩ := truncDeletes_ne_nil hDe
      rw [hlim] at hl'
      cases hl'
      rw [R.history] at hlt
      change lim < (H.length : Int) at hlt
      have hle : D.length ≤ H.length - lim.toNat := by
        have := truncDeletes_length_le plan lim (o.claimed.map (·.pod.rev)) (syncListing plan i) R.cur R.upd R.sT
        rw [R.history] at this
        rw [hD, hlim]; exact this
      rw [hlenU, List.length_map]
      constructor
      · exact hlt
      · omega
  · -- oldest first
    rw [List.length_map]
    have hDt : D = H.take D.length := List.prefix_iff_eq_take.mp hDH
    rw [List.map_take, hUn, ← List.map_take, ← hDt]
  · -- what is left
    intro hran
    have hok' : o.outcome = .ok := by
      have : (o.observe.out == "ok") = true := by
        cases hb : (o.observe.out == "ok")
        · rw [hb] at hran; simp at hran
        · rfl
      exact (observe_out_ok o).mp this
    have hmain := sync_ok_history_within_limit h i plan lim hrun hlim hok.storeNames hok'
    rw [observe_revs, filter_map_length]
    refine le_trans ?_ hmain
    have hmono := @filter_length_mono _ o.store
      (fun x => (ownListed i plan o.observe).any (fun r => r.name == (toD x).name) &&
        !(liveNames i plan o.observe).contains (toD x).name)
      (fun x => x.owner == .self && (x.selMatch || x.marker) && !(syncLive o).contains x.name) ?_
    · exact_mod_cast hmono
    · intro x hx hp
      simp only [Bool.and_eq_true, List.any_eq_true, beq_iff_eq, Bool.not_eq_true', ← Bool.not_eq_true,
        List.contains_iff_mem, toD] at hp
      obtain ⟨⟨r, hr, hrn⟩, hxlive⟩ := hp
      obtain ⟨hrs, hrl, hro⟩ := (mem_ownListed hok hshape).mp hr
      obtain ⟨G, hG, hGp⟩ := R.adopt_image hok.storeNames
      obtain ⟨hc, hown, _, hl⟩ := hGp r hrs
      -- where `x` comes from
      have hx' : x ∈ (pickF h plan i.template (i.collisionCount.getD 0) (syncListing plan i) R.sL).1.store := by
        rw [← R.sG_eq, ← R.hT]
        rw [R.ostore] at hx
        exact (truncateF_store plan i.historyLimit _ _ R.cur R.upd R.sT).1.subset hx
      have hxnotlive : x.name ∉ syncLive o := fun hm => hxlive (live_of_syncLive R hok hshape hm)
      rcases pickF_back h plan i.template _ _ R.sL hx' with ⟨x0, hx0, e1, e2, e3, e4, _⟩ | ⟨cc, hcc⟩
      · rw [R.hL, hG] at hx0
        obtain ⟨x1, hx1, rfl⟩ := List.mem_map.mp hx0
        have hx1r : x1 = r := by
          apply List.inj_on_of_nodup_map hok.storeNames hx1 hrs
          rw [hrn, e1]
          exact (core_name (hGp x1 hx1).1).symm
        subst hx1r
        simp only [Bool.and_eq_true, beq_iff_eq, Bool.or_eq_true, Bool.not_eq_true', ← Bool.not_eq_true,
          List.contains_iff_mem]
        refine ⟨⟨by rw [e2]; exact hown.mpr hro, ?_⟩, hxnotlive⟩
        rw [e3, e4]; exact hl.mpr hrl
      · exfalso
        rw [R.pick2] at hcc
        simp only [Option.some.injEq, Prod.mk.injEq] at hcc
        apply hxnotlive
        rw [syncLive_eq R]
        exact Or.inr (Or.inl (by rw [hcc.1]))

/-- **C13, the monitor on the model**, for every hashing, every fault plan, every input with one object per name in the
    store and in the pod cache and no ':' in those names -/
theorem C13_model (h : Hashing) (i : SyncIn) (plan : List Fault) (hok : InputOk i) :
    C13 i plan (syncF h i plan).observe = true := by
  rw [C13_unfold]
  cases hlim : i.historyLimit with
  | none => rfl
  | some lim =>
    simp only
    have hshape := sync_log_shapes h i plan
    by_cases hrun : (i.paused || !i.selectorOk) = true
    · apply C13core_trivial
      · rw [syncF_eq, if_pos hrun]; rfl
      · cases hp : i.paused <;> cases hs : i.selectorOk <;> simp_all
    · have hrun' : (i.paused || !i.selectorOk) = false := by simpa using hrun
      obtain ⟨d, hd1, hd2, hd3, hd4, hd5, _⟩ := sync_delete_entries h i plan
      rcases sync_cases h i plan hrun' with ⟨h1, _, hearly⟩ | ⟨⟨R⟩⟩
      · -- early exit: not a success, and no Delete in the log
        have hnot : ((syncF h i plan).observe.out == "ok" && !i.paused && i.selectorOk) = false := by
          have : ((syncF h i plan).observe.out == "ok") = false := by
            cases hb : ((syncF h i plan).observe.out == "ok")
            · rfl
            · exact absurd ((observe_out_ok _).mp hb) h1
          rw [this]; rfl
        have hnodel : (syncF h i plan).log.filter (pre "delete:rev:") = [] := by
          rcases hearly with ⟨_, h4⟩ | ⟨sL, _, hl, _, h4⟩
          · exact filter_pre_nil_of_ext_nil (fun e he => HeadShape.not_del he) h4
          · rw [h4.filter_pre (fun e he => TailShape.not_del he), pickF_log, List.filter_append, filter_pre_del_calls,
              filter_pre_nil_of_ext_nil (fun e he => HeadShape.not_del he) hl]
            rfl
        exact C13core_trivial i plan _ lim (delNames_of_no_del hshape hnodel) hnot
      · exact C13core_reach R hok lim hlim hrun' hshape

end Asts.SYb
