import Mathlib.Tactic
import Asts.Spec.Glue2
import Asts.Proofs.SY_b_SyncThms
import Asts.Proofs.SY_b_Annotate
import Asts.Proofs.GL_Sync

/-! # GL2 — the call log of a sync, by position

`(syncF h i plan).log = P ++ (the pod-control calls of its actions, in order) ++ Q`, where no entry of `P` (adoption, claim,
listing, resolution of the revisions) and no entry of `Q` (status write, truncation of the history) starts with
`create:pod:` or `delete:pod:`. -/
namespace Asts.GL2
open Asts Asts.SYb

/-- the entry is neither a pod create nor a pod delete -/
def NoPodCD (e : String) : Prop := pre "create:pod:" e = false ∧ pre "delete:pod:" e = false

theorem HeadShape.noPodCD {e : String} (h : HeadShape e) : NoPodCD e := by
  rcases h with h | h
  · rcases h with rfl | rfl | ⟨n, rfl | rfl⟩ <;> constructor <;> shape_simp
  · rcases h with rfl | ⟨n, rfl⟩ <;> constructor <;> shape_simp

theorem RevCall.noPodCD (c : RevCall) : NoPodCD c.key := by
  cases c <;> constructor <;> shape_simp

theorem updatestatus_noPodCD : NoPodCD "updatestatus" := by constructor <;> shape_simp

theorem delKey_noPodCD (r : Rev) : NoPodCD (delKey r) := by constructor <;> shape_simp

theorem pre_self (P n : String) : pre P (P ++ n) = true := by
  unfold pre
  rw [String.toList_append, List.isPrefixOf_iff_prefix]
  exact List.prefix_append _ _

/-! ## `syncHead`, `syncTail` -/

theorem syncHead_inl_acts {h : Hashing} {i : SyncIn} {plan : List Fault} {o : SyncOut} (hh : syncHead h i plan = .inl o) :
    o.acts = [] := by
  unfold syncHead at hh
  generalize adoptOrphanRevisionsF plan i.view.deleting i.fresh { store := i.store } = a at hh
  obtain ⟨s, out⟩ := a
  cases out with
  | err => simp only [Sum.inl.injEq] at hh; subst hh; rfl
  | panic m => simp only [Sum.inl.injEq] at hh; subst hh; rfl
  | ok =>
    simp only at hh
    by_cases hf : (claimPodsF plan i.view.deleting i.fresh i.pods s.tr).failed = true
    · rw [if_pos hf] at hh
      simp only [Sum.inl.injEq] at hh; subst hh; rfl
    · rw [if_neg hf] at hh
      generalize listRevsF plan { store := s.store, tr := (claimPodsF plan i.view.deleting i.fresh i.pods s.tr).tr } = l at hh
      obtain ⟨s1, o1⟩ := l
      cases o1 with
      | none => simp only [Sum.inl.injEq] at hh; subst hh; rfl
      | some listed =>
        simp only at hh
        generalize getRevisionsF h plan i.template i.stored.currentRev (i.collisionCount.getD 0) (sortRevs listed) s1 = g at hh
        obtain ⟨s2, o2⟩ := g
        cases o2 with
        | none => simp only [Sum.inl.injEq] at hh; subst hh; rfl
        | some t => obtain ⟨cur, upd, cc⟩ := t; simp at hh

/-- the log of an early exit holds no pod create and no pod delete -/
theorem syncHead_inl_log {h : Hashing} {i : SyncIn} {plan : List Fault} {o : SyncOut} (hh : syncHead h i plan = .inl o) :
    ∀ e ∈ o.log, NoPodCD e := by
  obtain ⟨_, _, h3⟩ := syncHead_inl hh
  rcases h3 with ⟨_, hext⟩ | ⟨sL, _, hext, _, hlog⟩
  · obtain ⟨m, hm, hm'⟩ := hext
    intro e he
    rw [hm, List.nil_append] at he
    exact HeadShape.noPodCD (hm' e he)
  · obtain ⟨m, hm, hm'⟩ := hext
    intro e he
    rw [hlog, pickF_log, hm, List.nil_append] at he
    rcases List.mem_append.1 he with he | he
    · exact HeadShape.noPodCD (hm' e he)
    · obtain ⟨c, _, rfl⟩ := List.mem_map.mp he
      exact RevCall.noPodCD c

/-- the log of the tail: what was there, the pod-control calls of the recorded actions, then status writes and deletes of
    revisions -/
theorem syncTail_log (i : SyncIn) (plan : List Fault) (claimed : List CPod) (revs : List Rev) (cur upd : Rev) (cc : Int)
    (s : RevSt) :
    (syncTail i plan claimed revs cur upd cc s).claimed = claimed ∧
    ∃ Q, (syncTail i plan claimed revs cur upd cc s).log =
        s.tr.log ++ ((syncTail i plan claimed revs cur upd cc s).acts.map
          (actLog i.setName plan i.pods claimed (maxReplicaAndSlots (i.view.replicas.getD 0) i.view.slots).1
            (maxReplicaAndSlots (i.view.replicas.getD 0) i.view.slots).2)).flatten ++ Q ∧
      ∀ e ∈ Q, NoPodCD e := by
  unfold syncTail
  generalize maxReplicaAndSlots (i.view.replicas.getD 0) i.view.slots = be
  obtain ⟨b, E⟩ := be
  simp only
  generalize updateStatefulSet i.view cur.name upd.name (claimed.map (·.pod)) (podFaults i.setName plan i.pods claimed b E) = u
  obtain ⟨st, out⟩ := u
  cases out with
  | err => exact ⟨rfl, [], by simp, by simp⟩
  | panic m => exact ⟨rfl, [], by simp, by simp⟩
  | ok =>
    simp only
    have hsw : ∀ t : Tr, ∃ ups, (statusWriteF plan i.fresh.gone 5 t).1.log = t.log ++ ups ∧ ∀ e ∈ ups, NoPodCD e := by
      intro t
      obtain ⟨ups, h1, h2⟩ := SYa.statusWriteF_spec plan i.fresh.gone 5 t
      exact ⟨ups, h1, fun e he => by rw [h2 e he]; exact updatestatus_noPodCD⟩
    have htr : ∀ s' : RevSt, ∃ ds, (truncateF plan i.historyLimit (claimed.map (·.pod.rev)) revs cur upd s').1.tr.log =
        s'.tr.log ++ ds ∧ ∀ e ∈ ds, NoPodCD e := by
      intro s'
      refine ⟨_, truncateF_log plan i.historyLimit _ revs cur upd s', ?_⟩
      intro e he
      obtain ⟨r, _, rfl⟩ := List.mem_map.mp he
      exact delKey_noPodCD r
    by_cases hinc : inconsistentStatus i.stored (completeRollingUpdate i.view st.status) = true
    · rw [if_pos hinc]
      obtain ⟨ups, hu1, hu2⟩ := hsw { log := s.tr.log ++ (st.acts.map (actLog i.setName plan i.pods claimed b E)).flatten }
      generalize statusWriteF plan i.fresh.gone 5
        { log := s.tr.log ++ (st.acts.map (actLog i.setName plan i.pods claimed b E)).flatten } = w at hu1 ⊢
      obtain ⟨t, ok⟩ := w
      simp only at hu1
      cases ok with
      | false => exact ⟨rfl, ups, by simpa using hu1, hu2⟩
      | true =>
        simp only [Bool.not_true, Bool.false_eq_true, if_false]
        obtain ⟨ds, hd1, hd2⟩ := htr { store := s.store, tr := t }
        refine ⟨by first | rfl | trivial, ups ++ ds, ?_, ?_⟩
        · simp only at hd1 ⊢
          rw [hd1, hu1]; simp
        · intro e he
          rcases List.mem_append.1 he with he | he
          · exact hu2 e he
          · exact hd2 e he
    · rw [if_neg hinc]
      obtain ⟨ds, hd1, hd2⟩ := htr { store := s.store, tr :=
        { log := s.tr.log ++ (st.acts.map (actLog i.setName plan i.pods claimed b E)).flatten } }
      exact ⟨rfl, ds, by simpa using hd1, hd2⟩

/-- **the log of a sync, by position** -/
theorem sync_log_decomp (h : Hashing) (i : SyncIn) (plan : List Fault) :
    ∃ P Q, (syncF h i plan).log =
        P ++ ((syncF h i plan).acts.map (actLog i.setName plan i.pods (syncF h i plan).claimed (SYa.rangeOf i).1
          (SYa.rangeOf i).2)).flatten ++ Q ∧
      (∀ e ∈ P, NoPodCD e) ∧ (∀ e ∈ Q, NoPodCD e) := by
  rw [SYb.syncF_eq]
  by_cases hrun : (i.paused || !i.selectorOk) = true
  · rw [if_pos hrun]
    exact ⟨[], [], rfl, by simp, by simp⟩
  · rw [if_neg hrun]
    cases hh : syncHead h i plan with
    | inl o =>
      simp only
      refine ⟨o.log, [], ?_, syncHead_inl_log hh, by simp⟩
      rw [syncHead_inl_acts hh]; simp
    | inr t =>
      obtain ⟨claimed, revs, cur, upd, cc, s⟩ := t
      simp only
      obtain ⟨A, sL, _, _, _, _, _, _, hlogL, _, hpick, _⟩ := syncHead_inr hh
      obtain ⟨hcl, Q, hlog, hQ⟩ := syncTail_log i plan claimed revs cur upd cc s
      refine ⟨s.tr.log, Q, ?_, ?_, hQ⟩
      · rw [hcl]; exact hlog
      · have hs : s.tr.log = (pickF h plan i.template (i.collisionCount.getD 0) revs sL).1.tr.log := by rw [hpick]
        obtain ⟨m, hm, hm'⟩ := hlogL
        intro e he
        rw [hs, pickF_log, hm, List.nil_append] at he
        rcases List.mem_append.1 he with he | he
        · exact HeadShape.noPodCD (hm' e he)
        · obtain ⟨c, _, rfl⟩ := List.mem_map.mp he
          exact RevCall.noPodCD c

/-! ## splitting a flattened list at one element -/

theorem flatten_split {α : Type _} : ∀ (L : List (List α)) (a b : List α) (x : α), L.flatten = a ++ x :: b →
    ∃ L1 l L2 u w, L = L1 ++ l :: L2 ∧ l = u ++ x :: w ∧ a = L1.flatten ++ u ∧ b = w ++ L2.flatten
  | [], a, b, x, h => by simp at h
  | l0 :: L, a, b, x, h => by
    rw [List.flatten_cons] at h
    have hrec : ∀ a', a = l0 ++ a' → L.flatten = a' ++ x :: b →
        ∃ L1 l L2 u w, l0 :: L = L1 ++ l :: L2 ∧ l = u ++ x :: w ∧ a = L1.flatten ++ u ∧ b = w ++ L2.flatten := by
      intro a' h1 h2
      obtain ⟨L1, l, L2, u, w, e1, e2, e3, e4⟩ := flatten_split L a' b x h2
      exact ⟨l0 :: L1, l, L2, u, w, by rw [e1]; rfl, e2, by rw [h1, e3]; simp, e4⟩
    rcases List.append_eq_append_iff.1 h with ⟨a', h1, h2⟩ | ⟨c', h1, h2⟩
    · exact hrec a' h1 h2
    · cases c' with
      | nil =>
        simp only [List.nil_append] at h2
        exact hrec [] (by rw [h1]; simp) (by rw [← h2]; rfl)
      | cons y c'' =>
        simp only [List.cons_append, List.cons.injEq] at h2
        obtain ⟨rfl, h2⟩ := h2
        exact ⟨[], l0, L, a, c'', rfl, h1, by simp, h2⟩

theorem map_split {α β : Type _} (f : α → β) {A : List α} {L1 L2 : List β} {l : β} (h : A.map f = L1 ++ l :: L2) :
    ∃ A1 a A2, A = A1 ++ a :: A2 ∧ A1.map f = L1 ∧ f a = l ∧ A2.map f = L2 := by
  obtain ⟨A1, A2', rfl, h1, h2⟩ := List.map_eq_append_iff.1 h
  obtain ⟨a, A2, rfl, h3, h4⟩ := List.map_eq_cons_iff.1 h2
  exact ⟨A1, a, A2, rfl, h1, h3, h4⟩

end Asts.GL2
