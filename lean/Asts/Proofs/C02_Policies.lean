import Asts.Proofs.C02_MonoClass

/-! C02: convergence for both pod management policies, from the decidable readings of the hypotheses. -/
namespace Asts.C02p
open Asts Asts.L1c

theorem normC_of_normCB {h : Hashing} {i : SyncIn} (hb : normCB h i = true) : NormC h i := by
  unfold normCB at hb
  simp only [Bool.and_eq_true, List.all_eq_true, decide_eq_true_eq, beq_iff_eq, Bool.not_eq_true', Bool.or_eq_true] at hb
  obtain ⟨⟨⟨⟨⟨⟨hspec, hpods⟩, hdist⟩, hrev⟩, hsm⟩, hsmR⟩, hgone⟩ := hb
  have hs := (specOk_iff i).1 hspec
  refine ⟨hs, ?_, ?_, ?_, ?_, hsm, hsmR, hgone⟩
  · intro c hc
    obtain ⟨⟨⟨⟨⟨⟨a1, a2⟩, a3⟩, a4⟩, a5⟩, a6⟩, a7⟩ := hpods c hc
    exact ⟨a1, a2, a3, a4, a5, a6, a7⟩
  · unfold distinctOrdsC at hdist
    apply nodup_of_eraseDups_length
    simpa using hdist
  · unfold revsQuiet at hrev
    cases hl : (listedRevs i).getLast? with
    | none => simp [hl] at hrev
    | some l =>
      simp only [hl, Bool.and_eq_true, Bool.not_eq_true'] at hrev
      exact ⟨l, rfl, hrev.1⟩
  · unfold revsQuiet at hrev
    cases hl : (listedRevs i).getLast? with
    | none => simp [hl] at hrev
    | some l =>
      simp only [hl, Bool.and_eq_true, Bool.not_eq_true'] at hrev
      exact hrev.2

theorem partOk_of_partB {v : SetView} (hb : partB v = true) : PartOk v := by
  unfold partB at hb
  simp only [Bool.or_eq_true, beq_iff_eq] at hb
  rcases hb with h1 | h1
  · exact Or.inl h1
  · right
    cases hru : v.ru with
    | none => rw [hru] at h1; cases h1
    | some x =>
      cases x with
      | none => rw [hru] at h1; cases h1
      | some p => rw [hru] at h1; exact ⟨p, rfl, by simpa using h1⟩

theorem parK_of_normB {h : Hashing} {i : SyncIn} (hb : normB h i = true) : ParK h (settle i) := by
  unfold normB at hb
  simp only [Bool.and_eq_true] at hb
  obtain ⟨⟨⟨h1, hp⟩, h2⟩, h3⟩ := hb
  exact ⟨nsc_settle (normC_of_normCB h1) (by simpa [roomB] using h2), h3, partOk_of_partB hp⟩

theorem settleOne_fs (c : CPod) : (settleOne c).pod.fs = c.pod.fs := by
  unfold settleOne
  by_cases hfs : (c.pod.failed || c.pod.succeeded) = true
  · simp [hfs]
  · simp only [hfs, Bool.false_eq_true, if_false]
    have : c.pod.fs = false := by
      unfold Pod.fs
      cases hh : (c.pod.failed || c.pod.succeeded)
      · rfl
      · exact absurd hh hfs
    rw [this]; rfl

theorem monoK0_settle {h : Hashing} {i : SyncIn} (hn : NormC h i) (h2 : roomB i = true) (h3 : i.view.parallel = false)
    (h4 : noFsOutB i = true) : MonoK0 h (settle i) := by
  refine ⟨nsc_settle hn (by simpa [roomB] using h2), h3, ?_⟩
  intro x hx hfs
  rw [settle_pods] at hx
  obtain ⟨y, hy, hk⟩ := mem_reindex_sort hx
  rw [List.mem_map] at hy
  obtain ⟨c0, hc0, rfl⟩ := hy
  have e1 : (settleOne c0).pod.fs = x.pod.fs := key_transfer (·.pod.fs) (fun _ => rfl) hk
  have e2 : (settleOne c0).pod.ord = x.pod.ord := key_transfer (·.pod.ord) (fun _ => rfl) hk
  rw [settleOne_fs] at e1; rw [settleOne_ord] at e2
  unfold noFsOutB at h4
  rw [List.all_eq_true] at h4
  have := h4 c0 (List.mem_of_mem_filter hc0)
  have hc0fs : (c0.pod.failed || c0.pod.succeeded) = true := by rw [← e1] at hfs; exact hfs
  simp only [hc0fs, Bool.not_true, Bool.false_or, List.contains_iff_mem] at this
  rw [← e2]
  exact (mem_desired_iff hn _).1 this

theorem monoK_of_normOB {h : Hashing} {i : SyncIn} (hb : normOB h i = true) : MonoK h (settle i) := by
  unfold normOB at hb
  simp only [Bool.and_eq_true, Bool.not_eq_true'] at hb
  obtain ⟨⟨⟨⟨h1, hp⟩, h2⟩, h3⟩, h4⟩ := hb
  exact ⟨monoK0_settle (normC_of_normCB h1) h2 h3 h4, partOk_of_partB hp⟩

/-- **convergence, Parallel** -/
theorem converge_parallel {h : Hashing} {i : SyncIn} (hb : normB h i = true) :
    ∃ n ≤ muPods (settle i) + 3, Final h (roundsN h n i) :=
  converge_of_class (par_class h) (parK_of_normB hb)

/-- **convergence, OrderedReady** -/
theorem converge_ordered {h : Hashing} {i : SyncIn} (hb : normOB h i = true) :
    ∃ n ≤ muPods (settle i) + 3, Final h (roundsN h n i) :=
  converge_of_class (mono_class h) (monoK_of_normOB hb)

end Asts.C02p

namespace Asts.C02p
open Asts Asts.L1c

theorem wPod_le_four {v : SetView} {upd : String} {o : Int} {c : CPod} (hnt : c.pod.terminating = false) : wPod v upd o c ≤ 4 := by
  unfold wPod
  rw [hnt]
  simp only [Bool.false_eq_true, if_false, Nat.add_zero]
  split_ifs <;> omega

theorem settle_length_le (i : SyncIn) : (settle i).pods.length ≤ i.pods.length := by
  have hkp : KeyPerm (settle i).pods ((i.pods.filter (fun c => !c.pod.terminating)).map settleOne) := by
    rw [settle_pods]; exact keyPerm_reindex_sort _
  rw [hkp.length, List.length_map]
  exact List.length_filter_le _ _

/-- **the measure is within the bound the monitor `C02converges` allows** (`roundBound` of `Spec/World.lean`) -/
theorem mu_le_roundBound (i : SyncIn) : muPods (settle i) + 3 ≤ roundBound i := by
  have hD : (desired (replicasOf i.view) i.view.slots).length = (replicasOf i.view).toNat := (desired_isDesired _ _).len
  have hw : ∀ o, wOf (settle i).view (updName (settle i)) (settle i).pods o ≤ 4 := by
    intro o
    unfold wOf
    cases hf : (settle i).pods.find? (·.pod.ord == o) with
    | none => simp
    | some c => exact wPod_le_four (settle_settled i c (List.mem_of_find?_eq_some hf)).1
  have hsum : ((desired (replicasOf i.view) i.view.slots).map (wOf (settle i).view (updName (settle i)) (settle i).pods)).sum
      ≤ 4 * (replicasOf i.view).toNat := by
    have := List.sum_le_card_nsmul ((desired (replicasOf i.view) i.view.slots).map (wOf (settle i).view (updName (settle i)) (settle i).pods)) 4
      (by intro x hx; rw [List.mem_map] at hx; obtain ⟨o, _, rfl⟩ := hx; exact hw o)
    rw [List.length_map, hD] at this
    simpa [Nat.mul_comm] using this
  have hfilt : ((settle i).pods.filter (fun c => !(desired (replicasOf i.view) i.view.slots).contains c.pod.ord)).length ≤ i.pods.length :=
    le_trans (List.length_filter_le _ _) (settle_length_le i)
  have hmu : muPods (settle i) ≤ 4 * (replicasOf i.view).toNat + 2 * i.pods.length := by
    rw [muPods_eq]
    unfold muOf
    have e1 : replicasOf (settle i).view = replicasOf i.view := rfl
    have e2 : (settle i).view.slots = i.view.slots := rfl
    rw [e1, e2]
    omega
  unfold roundBound
  omega

end Asts.C02p

namespace Asts.C02p
open Asts Asts.L1c

/-- the hypotheses may be checked on the settled world instead (pods created in the last round count as admitted) -/
theorem parK_of_normB_settled {h : Hashing} {i : SyncIn} (hb : normB h (settle i) = true) : ParK h (settle i) := by
  unfold normB at hb
  simp only [Bool.and_eq_true] at hb
  obtain ⟨⟨⟨h1, hp⟩, h2⟩, h3⟩ := hb
  exact ⟨⟨normC_of_normCB h1, idOk_of_idPos (settle_idPos i) (normC_of_normCB h1).small, settle_settled i, by simpa [roomB] using h2⟩, h3, partOk_of_partB hp⟩

theorem monoK0_settled {h : Hashing} {i : SyncIn} (hn : NormC h (settle i)) (h2 : roomB (settle i) = true)
    (h3 : i.view.parallel = false) (h4 : noFsOutB (settle i) = true) : MonoK0 h (settle i) := by
  refine ⟨⟨hn, idOk_of_idPos (settle_idPos i) hn.small, settle_settled i, by simpa [roomB] using h2⟩, h3, ?_⟩
  intro x hx hfs
  unfold noFsOutB at h4
  rw [List.all_eq_true] at h4
  have := h4 x hx
  have hxfs : (x.pod.failed || x.pod.succeeded) = true := hfs
  simp only [hxfs, Bool.not_true, Bool.false_or, List.contains_iff_mem] at this
  exact (mem_desired_iff hn _).1 this

theorem monoK_of_normOB_settled {h : Hashing} {i : SyncIn} (hb : normOB h (settle i) = true) : MonoK h (settle i) := by
  unfold normOB at hb
  simp only [Bool.and_eq_true, Bool.not_eq_true'] at hb
  obtain ⟨⟨⟨⟨h1, hp⟩, h2⟩, h3⟩, h4⟩ := hb
  exact ⟨monoK0_settled (normC_of_normCB h1) h2 h3 h4, partOk_of_partB hp⟩

end Asts.C02p
