import Asts.Proofs.SY_b_Annotate

/-! The adoption stage, exactly, when it succeeds: which revisions end up owned, and which `patch:rev:` calls stand in the
    log. -/
namespace Asts.SYb
open Asts

def patchRevKey (r : Rev) : String := s!"patch:rev:{r.name}"

/-- owner := this set, for every revision whose name is in `N` -/
def ownAll (N : List String) (x : Rev) : Rev := if N.contains x.name then { x with owner := .self } else x
/-- selector labels synced, for every revision whose name is in `N` -/
def selAll (N : List String) (x : Rev) : Rev := if N.contains x.name then { x with selMatch := true } else x

def orphanNames (revs : List Rev) : List String := (revs.filter (·.owner == .none)).map (·.name)
def markerNames (revs : List Rev) : List String := (revs.filter (·.marker)).map (·.name)

theorem foldOk_ok_cons {α β} {x : α} {xs : List α} {b : β} {f : β → α → β × Bool} (h : (foldOk (x :: xs) b f).2 = true) :
    (f b x).2 = true ∧ foldOk (x :: xs) b f = foldOk xs (f b x).1 f := by
  rw [foldOk_cons] at h ⊢
  cases hx : (f b x).2
  · rw [hx] at h; simp at h
  · simp

theorem ownStep_ok {plan : List Fault} {s : RevSt} {r : Rev} (h : (ownStep plan s r).2 = true) :
    (r.owner ≠ .none ∧ ownStep plan s r = (s, true)) ∨
    (r.owner = .none ∧ look plan (patchRevKey r) (cnt (patchRevKey r) s.tr.log) = none ∧
      (ownStep plan s r).1 = { store := s.store.map (setOwn r.name), tr := { log := s.tr.log ++ [patchRevKey r] } }) := by
  unfold ownStep at h ⊢
  by_cases ho : (r.owner != .none) = true
  · left; rw [if_pos ho]; exact ⟨by simpa using ho, rfl⟩
  · right
    rw [if_neg ho] at h ⊢
    have ho' : r.owner = .none := by simpa using ho
    have hc : (s.tr.call plan s!"patch:rev:{r.name}").2 = look plan (patchRevKey r) (cnt (patchRevKey r) s.tr.log) := rfl
    cases he : (s.tr.call plan s!"patch:rev:{r.name}").2 with
    | some k => rw [he] at h; simp at h
    | none => exact ⟨ho', hc ▸ he, rfl⟩

theorem ownAll_cons_of_orphan (n : String) (N : List String) (x : Rev) :
    ownAll N (setOwn n x) = ownAll (n :: N) x := by
  unfold ownAll setOwn
  by_cases h1 : x.name = n
  · simp [h1]
  · have h1' : (x.name == n) = false := by simpa using h1
    simp [h1, h1']

/-- all adoption patches went through: every listed orphan is now owned, exactly one unfaulted `patch:rev:` per orphan -/
theorem foldOk_own_ok (plan : List Fault) (revs : List Rev) (s : RevSt) (hok : (foldOk revs s (ownStep plan)).2 = true) :
    (foldOk revs s (ownStep plan)).1.store = s.store.map (ownAll (orphanNames revs)) ∧
    Ext (fun e => ∃ r ∈ revs, r.owner = .none ∧ e = patchRevKey r) s.tr.log (foldOk revs s (ownStep plan)).1.tr.log ∧
    (∀ r ∈ revs, r.owner = .none → Succ plan (foldOk revs s (ownStep plan)).1.tr.log (patchRevKey r)) := by
  induction revs generalizing s with
  | nil =>
    refine ⟨?_, Ext.refl _ _, by simp⟩
    have : ownAll [] = id := by funext x; simp [ownAll]
    simp [foldOk_nil, orphanNames, this]
  | cons r rs ih =>
    obtain ⟨h1, h2⟩ := foldOk_ok_cons hok
    rw [h2] at hok ⊢
    obtain ⟨i1, i2, i3⟩ := ih _ hok
    rcases ownStep_ok h1 with ⟨hne, hs⟩ | ⟨hno, hl, hs⟩
    · rw [hs] at i1 i2 i3 ⊢
      refine ⟨?_, i2.mono (fun e ⟨r', hr', h'⟩ => ⟨r', List.mem_cons_of_mem _ hr', h'⟩), ?_⟩
      · rw [i1]
        have : orphanNames (r :: rs) = orphanNames rs := by
          unfold orphanNames
          rw [List.filter_cons_of_neg (by simpa using hne)]
        rw [this]
      · intro r' hr' ho
        rcases List.mem_cons.mp hr' with rfl | hr'
        · exact absurd ho hne
        · exact i3 r' hr' ho
    · rw [hs] at i1 i2 i3 ⊢
      refine ⟨?_, ?_, ?_⟩
      · rw [i1, List.map_map]
        have : orphanNames (r :: rs) = r.name :: orphanNames rs := by
          unfold orphanNames
          rw [List.filter_cons_of_pos (by simpa using hno)]
          rfl
        rw [this]
        apply List.map_congr_left
        intro x _
        exact ownAll_cons_of_orphan r.name _ x
      · have e1 : Ext (fun e => ∃ r' ∈ r :: rs, r'.owner = .none ∧ e = patchRevKey r') s.tr.log (s.tr.log ++ [patchRevKey r]) :=
          Ext.one _ ⟨r, List.mem_cons_self, hno, rfl⟩
        exact e1.trans (i2.mono (fun e ⟨r', hr', h'⟩ => ⟨r', List.mem_cons_of_mem _ hr', h'⟩))
      · intro r' hr' ho
        rcases List.mem_cons.mp hr' with rfl | hr'
        · obtain ⟨m, hm, _⟩ := i2
          simp only at hm
          rw [hm]
          exact Succ.mono ⟨s.tr.log, [], rfl, hl⟩ m
        · exact i3 r' hr' ho

theorem labelStep_ok {plan : List Fault} {s : RevSt} {r : Rev} (h : (labelStep plan s r).2 = true) :
    (r.marker = false ∧ labelStep plan s r = (s, true)) ∨
    (r.marker = true ∧ (labelStep plan s r).1 =
      { store := s.store.map (setSel r.name), tr := { log := s.tr.log ++ [s!"update:rev:{r.name}"] } }) := by
  unfold labelStep at h ⊢
  by_cases hm : r.marker = true
  · right
    rw [if_pos hm] at h ⊢
    cases he : (s.tr.call plan s!"update:rev:{r.name}").2 with
    | some k => rw [he] at h; simp at h
    | none => exact ⟨hm, rfl⟩
  · left; rw [if_neg hm]; exact ⟨by simpa using hm, rfl⟩

theorem selAll_cons (n : String) (N : List String) (x : Rev) : selAll N (setSel n x) = selAll (n :: N) x := by
  unfold selAll setSel
  by_cases h1 : x.name = n
  · simp [h1]
  · have h1' : (x.name == n) = false := by simpa using h1
    simp [h1, h1']

theorem foldOk_label_ok (plan : List Fault) (revs : List Rev) (s : RevSt) (hok : (foldOk revs s (labelStep plan)).2 = true) :
    (foldOk revs s (labelStep plan)).1.store = s.store.map (selAll (markerNames revs)) ∧
    Ext (fun e => ∃ n : String, e = s!"update:rev:{n}") s.tr.log (foldOk revs s (labelStep plan)).1.tr.log := by
  induction revs generalizing s with
  | nil =>
    refine ⟨?_, Ext.refl _ _⟩
    have : selAll [] = id := by funext x; simp [selAll]
    simp [foldOk_nil, markerNames, this]
  | cons r rs ih =>
    obtain ⟨h1, h2⟩ := foldOk_ok_cons hok
    rw [h2] at hok ⊢
    obtain ⟨i1, i2⟩ := ih _ hok
    rcases labelStep_ok h1 with ⟨hne, hs⟩ | ⟨hno, hs⟩
    · rw [hs] at i1 i2 ⊢
      refine ⟨?_, i2⟩
      rw [i1]
      have : markerNames (r :: rs) = markerNames rs := by
        unfold markerNames
        rw [List.filter_cons_of_neg (by simpa using hne)]
      rw [this]
    · rw [hs] at i1 i2 ⊢
      refine ⟨?_, (Ext.one _ ⟨r.name, rfl⟩).trans i2⟩
      rw [i1, List.map_map]
      have : markerNames (r :: rs) = r.name :: markerNames rs := by
        unfold markerNames
        rw [List.filter_cons_of_pos hno]
        rfl
      rw [this]
      apply List.map_congr_left
      intro x _
      exact selAll_cons r.name _ x

/-- entries of a successful adoption stage over the listing `L` -/
def AdoptLogShape (L : List Rev) (e : String) : Prop :=
  e = "list:revs" ∨ e = "get:set" ∨ (∃ n : String, e = s!"update:rev:{n}") ∨ ∃ r ∈ L, r.owner = .none ∧ e = patchRevKey r

/-- **the adoption stage when it succeeds**: either nothing is adopted (the set is being deleted, or no listed revision is
    an orphan) — store untouched, only List calls — or every marker-carrying listed revision has its labels synced and
    every listed orphan is owned, with one unfaulted `patch:rev:` each -/
theorem adopt_ok_exact (plan : List Fault) (del : Bool) (fresh : Fresh) (s A : RevSt)
    (hA : adoptOrphanRevisionsF plan del fresh s = (A, .ok)) :
    ((del = true ∨ (listRevisions s.store).any (·.owner == .none) = false) ∧ A.store = s.store ∧
        Ext (· = "list:revs") s.tr.log A.tr.log) ∨
    (del = false ∧ (listRevisions s.store).any (·.owner == .none) = true ∧
      A.store = (s.store.map (selAll (markerNames (listRevisions s.store)))).map (ownAll (orphanNames (listRevisions s.store))) ∧
      Ext (AdoptLogShape (listRevisions s.store)) s.tr.log A.tr.log ∧
      (∀ r ∈ listRevisions s.store, r.owner = .none → Succ plan A.tr.log (patchRevKey r))) := by
  rw [adopt_eq] at hA
  by_cases hd : del = true
  · rw [if_pos hd] at hA
    simp only [Prod.mk.injEq] at hA
    obtain ⟨rfl, _⟩ := hA
    exact Or.inl ⟨Or.inl hd, rfl, Ext.refl _ _⟩
  · rw [if_neg hd] at hA
    have hd' : del = false := by simpa using hd
    have hst := listRevsF_store plan s
    have hlog := listRevsF_log plan s
    have hsome := @listRevsF_some plan s
    cases hl : (listRevsF plan s).2 with
    | none => rw [hl] at hA; simp at hA
    | some revs =>
      have hrevs : revs = listRevisions s.store := hsome hl
      rw [hl] at hA
      simp only at hA
      by_cases ha : (!(revs.any (·.owner == .none))) = true
      · rw [if_pos ha] at hA
        simp only [Prod.mk.injEq] at hA
        obtain ⟨rfl, _⟩ := hA
        exact Or.inl ⟨Or.inr (by rw [← hrevs]; simpa using ha), hst, hlog⟩
      · rw [if_neg ha] at hA
        have ha' : revs.any (·.owner == .none) = true := by simpa using ha
        cases h1 : (foldOk revs (listRevsF plan s).1 (labelStep plan)).2 with
        | false => rw [h1] at hA; simp at hA
        | true =>
          rw [h1] at hA
          simp only [Bool.not_true, Bool.false_eq_true, if_false] at hA
          obtain ⟨l1, l2⟩ := foldOk_label_ok plan revs _ h1
          split at hA
          · simp at hA
          · set s2 : RevSt := ⟨(foldOk revs (listRevsF plan s).1 (labelStep plan)).1.store, ((foldOk revs (listRevsF plan s).1 (labelStep plan)).1.tr.call plan "get:set").1⟩ with hs2
            cases h3 : (foldOk revs s2 (ownStep plan)).2 with
            | false => rw [h3] at hA; simp at hA
            | true =>
              rw [h3] at hA
              simp only [if_true, Prod.mk.injEq, and_true] at hA
              obtain ⟨o1, o2, o3⟩ := foldOk_own_ok plan revs _ h3
              rw [hA] at o1 o2 o3
              refine Or.inr ⟨hd', by rw [← hrevs]; exact ha', ?_, ?_, ?_⟩
              · rw [o1, hs2]; show List.map _ (foldOk revs (listRevsF plan s).1 (labelStep plan)).1.store = _; rw [l1, hst, hrevs]
              · rw [← hrevs]
                have e1 : Ext (AdoptLogShape revs) s.tr.log (listRevsF plan s).1.tr.log := hlog.mono (fun e he => Or.inl he)
                have e2 : Ext (AdoptLogShape revs) (listRevsF plan s).1.tr.log
                    (foldOk revs (listRevsF plan s).1 (labelStep plan)).1.tr.log := l2.mono (fun e he => Or.inr (Or.inr (Or.inl he)))
                have e3 : Ext (AdoptLogShape revs) (foldOk revs (listRevsF plan s).1 (labelStep plan)).1.tr.log
                    ((foldOk revs (listRevsF plan s).1 (labelStep plan)).1.tr.call plan "get:set").1.log :=
                  Ext.call _ plan (Or.inr (Or.inl rfl))
                exact ((e1.trans e2).trans e3).trans (o2.mono (fun e he => Or.inr (Or.inr (Or.inr he))))
              · rw [← hrevs]; exact o3

end Asts.SYb
