import Asts.Model.PatchJson
import Mathlib.Tactic
/-! # The token parser inverts `toks` (for every tree) -/
namespace Asts.Patch

theorem toks_head (t : Json) : ∃ tk tl, toks t = tk :: tl ∧ tk ≠ .rbrack ∧ tk ≠ .rbrace ∧ tk ≠ .comma ∧ tk ≠ .colon := by
  cases t with
  | null => exact ⟨.null, [], by simp [toks], by simp, by simp, by simp, by simp⟩
  | bool b => exact ⟨if b then .tru else .fls, [], by simp [toks], by cases b <;> simp, by cases b <;> simp, by cases b <;> simp, by cases b <;> simp⟩
  | num n => exact ⟨.num n, [], by simp [toks], by simp, by simp, by simp, by simp⟩
  | str s => exact ⟨.str s, [], by simp [toks], by simp, by simp, by simp, by simp⟩
  | arr l => exact ⟨.lbrack, toksList l, by simp [toks], by simp, by simp, by simp, by simp⟩
  | obj kvs => exact ⟨.lbrace, toksKvs kvs, by simp [toks], by simp, by simp, by simp, by simp⟩

theorem toks_length_pos (t : Json) : 0 < (toks t).length := by
  obtain ⟨tk, tl, h, _⟩ := toks_head t
  simp [h]

mutual
theorem pVal_toks : ∀ (t : Json) (f : Nat) (rest : List Tok), (toks t).length ≤ f → pVal f (toks t ++ rest) = some (t, rest)
  | .null, f, rest, h => by
    cases f with
    | zero => simp [toks] at h
    | succ f => simp [toks, pVal]
  | .bool b, f, rest, h => by
    cases f with
    | zero => simp [toks] at h
    | succ f => cases b <;> simp [toks, pVal]
  | .num n, f, rest, h => by
    cases f with
    | zero => simp [toks] at h
    | succ f => simp [toks, pVal]
  | .str s, f, rest, h => by
    cases f with
    | zero => simp [toks] at h
    | succ f => simp [toks, pVal]
  | .arr [], f, rest, h => by
    cases f with
    | zero => simp [toks] at h
    | succ f => simp [toks, toksList, pVal]
  | .arr (x :: r), f, rest, h => by
    cases f with
    | zero => simp [toks] at h
    | succ f =>
      simp only [toks, toksList, List.length_cons, List.length_append] at h
      obtain ⟨tk, tl, hx, h1, _, _, _⟩ := toks_head x
      have e1 := pVal_toks x f (toksTail r ++ rest) (by omega)
      have e2 := pTail_toks r f rest (by omega)
      simp only [toks, toksList, List.cons_append, List.append_assoc]
      rw [hx] at e1 ⊢
      simp only [List.cons_append] at e1 ⊢
      rw [pVal.eq_def]
      cases tk <;> simp_all
  | .obj [], f, rest, h => by
    cases f with
    | zero => simp [toks] at h
    | succ f => simp [toks, toksKvs, pVal]
  | .obj ((k, v) :: r), f, rest, h => by
    cases f with
    | zero => simp [toks] at h
    | succ f =>
      simp only [toks, toksKvs, List.length_cons, List.length_append] at h
      have e1 := pVal_toks v f (toksKvTail r ++ rest) (by omega)
      have e2 := pKvTail_toks r f rest (by omega)
      simp only [toks, toksKvs, List.cons_append, List.append_assoc, pVal, e1, e2]
theorem pTail_toks : ∀ (l : List Json) (f : Nat) (rest : List Tok), (toksTail l).length ≤ f → pTail f (toksTail l ++ rest) = some (l, rest)
  | [], f, rest, h => by
    cases f with
    | zero => simp [toksTail] at h
    | succ f => simp [toksTail, pTail]
  | x :: r, f, rest, h => by
    cases f with
    | zero => simp [toksTail] at h
    | succ f =>
      simp only [toksTail, List.length_cons, List.length_append] at h
      have e1 := pVal_toks x f (toksTail r ++ rest) (by omega)
      have e2 := pTail_toks r f rest (by omega)
      simp only [toksTail, List.cons_append, List.append_assoc, pTail, e1, e2]
theorem pKvTail_toks : ∀ (kvs : List (String × Json)) (f : Nat) (rest : List Tok), (toksKvTail kvs).length ≤ f →
    pKvTail f (toksKvTail kvs ++ rest) = some (kvs, rest)
  | [], f, rest, h => by
    cases f with
    | zero => simp [toksKvTail] at h
    | succ f => simp [toksKvTail, pKvTail]
  | (k, v) :: r, f, rest, h => by
    cases f with
    | zero => simp [toksKvTail] at h
    | succ f =>
      simp only [toksKvTail, List.length_cons, List.length_append] at h
      have e1 := pVal_toks v f (toksKvTail r ++ rest) (by omega)
      have e2 := pKvTail_toks r f rest (by omega)
      simp only [toksKvTail, List.cons_append, List.append_assoc, pKvTail, e1, e2]
end

/-- the token parser inverts `toks` on every tree -/
theorem parseToks_toks (t : Json) : parseToks (toks t) = some t := by
  have := pVal_toks t ((toks t).length + 1) [] (by omega)
  simp only [List.append_nil] at this
  simp [parseToks, this]

theorem toks_injective (a b : Json) (h : toks a = toks b) : a = b := by
  have ha := parseToks_toks a
  rw [h, parseToks_toks b] at ha
  exact (Option.some.inj ha).symm

end Asts.Patch
