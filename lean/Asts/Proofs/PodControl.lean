import Asts.Model.PodControl
import Asts.Spec.PodControl
import Asts.Proofs.JsonInts
import Mathlib.Tactic

/-! Lemmas for C06 (pod control). -/
namespace Asts.PodControl
open Asts.JsonInts

/-! ## names and the name parser -/

theorem isDigit_dash : isDigit '-' = false := by decide

theorem renderInt_nat (n : Nat) : renderInt (n : Int) = digits n := by
  simp [renderInt]

theorem reverse_podName (s : Str) (n : Nat) :
    (podName s (n : Int)).reverse = (digits n).reverse ++ '-' :: s.reverse := by
  simp [podName, renderInt_nat]

theorem parseSplit_cons (d : Char) (r pre : Str) :
    parseSplit (d :: r) ('-' :: pre) = (parentOf pre, ordOfDigits (d :: r).reverse) := rfl

theorem parseName_podName_nat (s : Str) (n : Nat) :
    parseName (podName s (n : Int)) = (parentOf s.reverse, ordOfDigits (digits n)) := by
  unfold parseName
  rw [reverse_podName, takeDigits_append (fun c hc => digits_all_digit n c (List.mem_reverse.1 hc)) isDigit_dash]
  have hne : (digits n).reverse ≠ [] := by simpa using digits_ne_nil n
  obtain ⟨d, r, hdr⟩ := List.exists_cons_of_ne_nil hne
  simp only [hdr, parseSplit_cons]
  rw [← hdr, List.reverse_reverse]

theorem ordOfDigits_digits (n : Nat) (h : n ≤ int32Max) : ordOfDigits (digits n) = (n : Int) := by
  simp [ordOfDigits, digitsToNat_digits, h]

theorem takeWhile_all {α} (p : α → Bool) (l : List α) (h : ∀ x ∈ l, p x = true) : l.takeWhile p = l := by
  induction l with
  | nil => rfl
  | cons a l ih =>
    simp only [List.takeWhile, h a (by simp)]
    rw [ih (fun x hx => h x (by simp [hx]))]

theorem parentOf_reverse (s : Str) (hs : '\n' ∉ s) : parentOf s.reverse = s := by
  unfold parentOf
  rw [takeWhile_all, List.reverse_reverse]
  intro x hx
  have : x ∈ s := List.mem_reverse.1 hx
  simp only [bne_iff_ne, ne_eq]
  rintro rfl
  exact hs this


/-- the ordinals of the property: `0 ≤ i < 2^31` -/
def InDomain (i : Int) : Prop := 0 ≤ i ∧ i < 2147483648

theorem inDomain_iff (i : Int) : Spec.inDomain i = true ↔ InDomain i := by
  simp [Spec.inDomain, InDomain]

theorem InDomain.toNat {i : Int} (h : InDomain i) : ∃ n : Nat, i = (n : Int) ∧ n ≤ int32Max := by
  obtain ⟨h0, h1⟩ := h
  refine ⟨i.toNat, by omega, ?_⟩
  unfold int32Max; omega

/-- the ordinal parses back, for EVERY set name (dashes, trailing `-<digits>`, newlines, arbitrary bytes) -/
theorem parseName_podName_ord (s : Str) (i : Int) (hi : InDomain i) : (parseName (podName s i)).2 = i := by
  obtain ⟨n, rfl, hn⟩ := hi.toNat
  rw [parseName_podName_nat]; exact ordOfDigits_digits n hn

/-- the parent parses back for every set name without a newline -/
theorem parseName_podName (s : Str) (i : Int) (hi : InDomain i) (hs : '\n' ∉ s) : parseName (podName s i) = (s, i) := by
  obtain ⟨n, rfl, hn⟩ := hi.toNat
  rw [parseName_podName_nat, parentOf_reverse s hs, ordOfDigits_digits n hn]

theorem digits_inj {a b : Nat} (h : digits a = digits b) : a = b := by
  have := congrArg digitsToNat h
  simpa [digitsToNat_digits] using this

theorem podName_inj (s : Str) {i j : Int} (hi : 0 ≤ i) (hj : 0 ≤ j) (h : podName s i = podName s j) : i = j := by
  obtain ⟨a, rfl⟩ := Int.eq_ofNat_of_zero_le hi
  obtain ⟨b, rfl⟩ := Int.eq_ofNat_of_zero_le hj
  unfold podName at h
  rw [renderInt_nat, renderInt_nat] at h
  have h2 := List.append_cancel_left h
  simp only [List.cons.injEq, true_and] at h2
  exact_mod_cast digits_inj h2

theorem claimName_inj (t s : Str) {i j : Int} (hi : 0 ≤ i) (hj : 0 ≤ j) (h : claimName t s i = claimName t s j) : i = j := by
  unfold claimName at h
  have h2 := List.append_cancel_left h
  simp only [List.cons.injEq, true_and] at h2
  exact podName_inj s hi hj h2

/-! ## label maps -/

theorem getL_setL_same (m : Labels) (k v : Str) : getL (setL m k v) k = some v := by
  induction m with
  | nil => simp [setL, getL]
  | cons a m ih =>
    obtain ⟨k', v'⟩ := a
    by_cases h : k' = k
    · simp [setL, getL, h]
    · simp [setL, getL, h, ih]

theorem getL_setL_other (m : Labels) (k v k2 : Str) (hk : k ≠ k2) : getL (setL m k v) k2 = getL m k2 := by
  induction m with
  | nil => simp [setL, getL, hk]
  | cons a m ih =>
    obtain ⟨k', v'⟩ := a
    by_cases h : k' = k
    · subst h; simp [setL, getL, hk]
    · by_cases h2 : k' = k2
      · subst h2; simp [setL, getL, h]
      · simp [setL, getL, h, h2, ih]

/-- on the keys of `ml`, merging `ml` over any base gives what `ml` alone gives -/
theorem getL_mergeL (ml : Labels) : ∀ (base base' : Labels) (k : Str), k ∈ ml.map Prod.fst →
    getL (mergeL base ml) k = getL (mergeL base' ml) k := by
  induction ml with
  | nil => intro _ _ k hk; simp at hk
  | cons a ml ih =>
    obtain ⟨k1, v1⟩ := a
    intro base base' k hk
    simp only [mergeL]
    by_cases hmem : k ∈ ml.map Prod.fst
    · exact ih _ _ k hmem
    · have hk1 : k = k1 := by
        simp only [List.map_cons, List.mem_cons] at hk
        rcases hk with h | h
        · exact h
        · exact absurd h hmem
      subst hk1
      have key : ∀ (b : Labels), getL (mergeL b ml) k = getL b k := by
        clear ih hk
        induction ml with
        | nil => intro b; rfl
        | cons c ml ih2 =>
          obtain ⟨k2, v2⟩ := c
          intro b
          simp only [List.map_cons, List.mem_cons, not_or] at hmem
          simp only [mergeL]
          rw [ih2 hmem.2, getL_setL_other _ _ _ _ (Ne.symm hmem.1)]
      rw [key, key, getL_setL_same, getL_setL_same]


/-! ## `getPersistentVolumeClaims` -/

theorem mem_putClaim {acc : List Claim} {c x : Claim} (h : x ∈ putClaim acc c) : x ∈ acc ∨ x = c := by
  induction acc with
  | nil => simp [putClaim] at h; exact Or.inr h
  | cons d r ih =>
    simp only [putClaim] at h
    split_ifs at h
    · rcases List.mem_cons.1 h with h | h
      · exact Or.inr h
      · exact Or.inl (List.mem_cons_of_mem _ h)
    · rcases List.mem_cons.1 h with h | h
      · exact Or.inl (h ▸ List.mem_cons_self)
      · rcases ih h with h | h
        · exact Or.inl (List.mem_cons_of_mem _ h)
        · exact Or.inr h

theorem putClaim_self (acc : List Claim) (c : Claim) : c ∈ putClaim acc c := by
  induction acc with
  | nil => simp [putClaim]
  | cons d r ih =>
    simp only [putClaim]
    split_ifs
    · exact List.mem_cons_self
    · exact List.mem_cons_of_mem _ ih

theorem putClaim_keeps (acc : List Claim) (c : Claim) (n : Str) (h : ∃ x ∈ acc, x.tname = n) :
    ∃ x ∈ putClaim acc c, x.tname = n := by
  induction acc with
  | nil => obtain ⟨x, hx, _⟩ := h; simp at hx
  | cons d r ih =>
    obtain ⟨x, hx, hn⟩ := h
    simp only [putClaim]
    split_ifs with hd
    · rcases List.mem_cons.1 hx with rfl | hx
      · exact ⟨c, List.mem_cons_self, by rw [← hd, hn]⟩
      · exact ⟨x, List.mem_cons_of_mem _ hx, hn⟩
    · rcases List.mem_cons.1 hx with rfl | hx
      · exact ⟨x, List.mem_cons_self, hn⟩
      · obtain ⟨y, hy, hyn⟩ := ih ⟨x, hx, hn⟩
        exact ⟨y, List.mem_cons_of_mem _ hy, hyn⟩

theorem claimsAcc_mem (s ns : Str) (ml : Labels) (ord : Int) : ∀ (ts : List Tmpl) (acc : List Claim) (x : Claim),
    x ∈ claimsAcc s ns ml ord ts acc → x ∈ acc ∨ ∃ t ∈ ts, x = mkClaim s ns ml ord t := by
  intro ts
  induction ts with
  | nil => intro acc x h; exact Or.inl h
  | cons t ts ih =>
    intro acc x h
    simp only [claimsAcc] at h
    rcases ih _ _ h with h | ⟨t', ht', hx⟩
    · rcases mem_putClaim h with h | h
      · exact Or.inl h
      · exact Or.inr ⟨t, List.mem_cons_self, h⟩
    · exact Or.inr ⟨t', List.mem_cons_of_mem _ ht', hx⟩

theorem claimsAcc_keeps (s ns : Str) (ml : Labels) (ord : Int) : ∀ (ts : List Tmpl) (acc : List Claim) (n : Str),
    (∃ x ∈ acc, x.tname = n) → ∃ x ∈ claimsAcc s ns ml ord ts acc, x.tname = n := by
  intro ts
  induction ts with
  | nil => intro acc n h; exact h
  | cons t ts ih =>
    intro acc n h
    simp only [claimsAcc]
    exact ih _ _ (putClaim_keeps acc _ n h)

theorem claimsAcc_cover (s ns : Str) (ml : Labels) (ord : Int) : ∀ (ts : List Tmpl) (acc : List Claim),
    ∀ t ∈ ts, ∃ x ∈ claimsAcc s ns ml ord ts acc, x.tname = t.name := by
  intro ts
  induction ts with
  | nil => intro acc t ht; simp at ht
  | cons t0 ts ih =>
    intro acc t ht
    simp only [claimsAcc]
    rcases List.mem_cons.1 ht with rfl | ht
    · exact claimsAcc_keeps s ns ml ord ts _ _ ⟨mkClaim s ns ml ord t, putClaim_self _ _, rfl⟩
    · exact ih _ t ht

/-- what every claim computed for a pod looks like -/
structure ClaimOk (v : SetV) (ord : Int) (c : Claim) : Prop where
  ns : c.ns = v.ns
  name : c.name = claimName c.tname v.name ord
  tmpl : ∃ t ∈ v.tmpls, t.name = c.tname
  labels : ∃ ml, v.sel = some ml ∧ ∀ k ∈ ml.map Prod.fst, getL c.labels k = getL (mergeL [] ml) k

theorem getClaims_ok {v : SetV} {p : Pod} {cs : List Claim} (h : getClaims v p = some cs) :
    (∀ c ∈ cs, ClaimOk v (parseName p.name).2 c) ∧ (∀ t ∈ v.tmpls, ∃ c ∈ cs, c.tname = t.name) := by
  unfold getClaims at h
  split at h
  · rename_i h0
    simp only [Option.some.injEq] at h; subst h
    exact ⟨fun c hc => by simp at hc, fun t ht => by rw [h0] at ht; simp at ht⟩
  · simp at h
  · rename_i t0 ts ml htm hsel
    simp only [Option.some.injEq] at h; subst h
    refine ⟨fun c hc => ?_, fun t ht => claimsAcc_cover v.name v.ns ml _ v.tmpls [] t ht⟩
    rcases claimsAcc_mem v.name v.ns ml _ _ _ _ hc with h | ⟨t, ht, rfl⟩
    · simp at h
    · exact ⟨rfl, rfl, ⟨t, ht, rfl⟩, ⟨ml, hsel, fun k hk => getL_mergeL ml _ _ k hk⟩⟩

theorem getClaims_isSome_of_sel {v : SetV} (p : Pod) {ml : Labels} (h : v.sel = some ml) : ∃ cs, getClaims v p = some cs := by
  unfold getClaims
  split
  · exact ⟨_, rfl⟩
  · rename_i h2; rw [h] at h2; cases h2
  · exact ⟨_, rfl⟩

/-- `getClaims` reads only the set's name, namespace, selector and claim templates, and the pod's name -/
theorem getClaims_congr {v v' : SetV} {p p' : Pod} (hn : v'.name = v.name) (hns : v'.ns = v.ns) (hs : v'.sel = v.sel)
    (ht : v'.tmpls = v.tmpls) (hp : p'.name = p.name) : getClaims v' p' = getClaims v p := by
  obtain ⟨n, ns, svc, uid, sel, tm, a, b, c, d⟩ := v
  obtain ⟨n', ns', svc', uid', sel', tm', a', b', c', d'⟩ := v'
  simp only at hn hns hs ht
  subst hn hns hs ht
  unfold getClaims
  simp only [hp]


/-! ## `newStatefulSetPod`, `newVersionedStatefulSetPod` -/

theorem newPod_spec {v : SetV} {i : Int} (hi : InDomain i) {p : Pod} (h : newPod v i = some p) :
    p.name = podName v.name i ∧ p.ns = v.ns ∧ p.host = podName v.name i ∧ p.sub = v.svc ∧
    p.labels = setL v.ptLabels podNameLabel (podName v.name i) ∧ p.owners = [ctrlRef v] ∧
    ∃ cs, getClaims v p = some cs ∧
      p.vols = cs.map volOfClaim ++ v.ptVols.filter (fun x => !(cs.any (fun c => c.tname == x.name))) := by
  unfold newPod updateStorage at h
  simp only [Option.map_eq_some_iff] at h
  obtain ⟨cs, hcs, rfl⟩ := h
  have hn : podName v.name (parseName (podName v.name i)).2 = podName v.name i := by
    rw [parseName_podName_ord _ _ hi]
  simp only [initIdentity, updateIdentity, basePod, hn] at hcs ⊢
  refine ⟨trivial, trivial, trivial, trivial, trivial, trivial, cs, ?_, rfl⟩
  rw [← hcs]; exact getClaims_congr rfl rfl rfl rfl rfl


/-- the volume clause of the property, as a `Prop` -/
def VolumesBound (v : SetV) (i : Int) (vols : List Vol) : Prop :=
  ∀ t ∈ v.tmpls, (∃ x ∈ vols, x.name = t.name ∧ x.claim = some (claimName t.name v.name i)) ∧
    (∀ x ∈ vols, x.name = t.name → x.claim = some (claimName t.name v.name i))

theorem newPod_volumes {v : SetV} {i : Int} (hi : InDomain i) {p : Pod} (h : newPod v i = some p) :
    VolumesBound v i p.vols := by
  obtain ⟨hname, -, -, -, -, -, cs, hcs, hvols⟩ := newPod_spec hi h
  obtain ⟨hok, hcover⟩ := getClaims_ok hcs
  have hord : (parseName p.name).2 = i := by rw [hname, parseName_podName_ord _ _ hi]
  rw [hord] at hok
  intro t ht
  obtain ⟨c, hc, hct⟩ := hcover t ht
  constructor
  · refine ⟨volOfClaim c, ?_, hct, ?_⟩
    · rw [hvols]; exact List.mem_append_left _ (List.mem_map_of_mem hc)
    · simp only [volOfClaim]; rw [(hok c hc).name, hct]
  · intro x hx hxn
    rw [hvols] at hx
    rcases List.mem_append.1 hx with hx | hx
    · obtain ⟨c', hc', rfl⟩ := List.mem_map.1 hx
      simp only [volOfClaim] at hxn ⊢
      rw [(hok c' hc').name, hxn]
    · exfalso
      have := (List.mem_filter.1 hx).2
      simp only [Bool.not_eq_eq_eq_not, Bool.not_true, List.any_eq_false, beq_iff_eq] at this
      exact this c hc (by rw [hct, hxn])

theorem volumesOk_of_bound {v : SetV} {i : Int} {vols : List Vol} (h : VolumesBound v i vols) :
    (v.tmpls.all fun t =>
      vols.any (fun x => x.name == t.name && x.claim == some (claimName t.name v.name i)) &&
      vols.all (fun x => !(x.name == t.name) || x.claim == some (claimName t.name v.name i))) = true := by
  simp only [List.all_eq_true, Bool.and_eq_true, List.any_eq_true, beq_iff_eq, Bool.or_eq_true, Bool.not_eq_eq_eq_not, Bool.not_true,
    beq_eq_false_iff_ne, ne_eq]
  intro t ht
  obtain ⟨⟨x, hx, h1, h2⟩, hall⟩ := h t ht
  refine ⟨⟨x, hx, h1, h2⟩, fun y hy => ?_⟩
  by_cases hyn : y.name = t.name
  · exact Or.inr (hall y hy hyn)
  · exact Or.inl hyn

theorem lastVol_of_bound {vols : List Vol} {n c : Str} (hex : ∃ x ∈ vols, x.name = n ∧ x.claim = some c)
    (hall : ∀ x ∈ vols, x.name = n → x.claim = some c) : ∃ x, lastVol vols n = some x ∧ x.claim = some c := by
  unfold lastVol
  cases hf : vols.reverse.find? (fun x => x.name == n) with
  | none =>
    obtain ⟨x, hx, hxn, -⟩ := hex
    have := List.find?_eq_none.1 hf x (List.mem_reverse.2 hx)
    simp [hxn] at this
  | some y =>
    have hy := List.mem_of_find?_eq_some hf
    have hyn := List.find?_some hf
    simp only [beq_iff_eq] at hyn
    exact ⟨y, rfl, hall y (List.mem_reverse.1 hy) hyn⟩

/-- a pod built for an ordinal of the property's domain satisfies `storageMatches` -/
theorem newPod_storageMatches {v : SetV} {i : Int} (hi : InDomain i) {p : Pod} (h : newPod v i = some p) :
    storageMatches v p = true := by
  obtain ⟨hname, -⟩ := newPod_spec hi h
  have hord : (parseName p.name).2 = i := by rw [hname, parseName_podName_ord _ _ hi]
  have hb := newPod_volumes hi h
  unfold storageMatches
  simp only [hord]
  rw [if_neg (by have := hi.1; omega)]
  simp only [List.all_eq_true]
  intro t ht
  obtain ⟨x, hx, hxc⟩ := lastVol_of_bound (hb t ht).1 (hb t ht).2
  simp [hx, hxc]

/-- … and `identityMatches`, when the set name has no newline -/
theorem newPod_identityMatches {v : SetV} {i : Int} (hi : InDomain i) (hs : '\n' ∉ v.name) {p : Pod} (h : newPod v i = some p) :
    identityMatches v p = true := by
  obtain ⟨hname, hns, -, -, hl, -⟩ := newPod_spec hi h
  unfold identityMatches
  simp only [hname, parseName_podName _ _ hi hs, hns, hl, getL_setL_same]
  simp [hi.1]


/-! ## the world: lookups and creates of claims -/

theorem call_claims (w : World) (vb : Verb) (rs : Res) (n : Str) : (call w vb rs n).1.claims = w.claims := rfl
theorem call_cache (w : World) (vb : Verb) (rs : Res) (n : Str) : (call w vb rs n).1.cache = w.cache := rfl

/-- shape of a claim entry made on behalf of claim `c` -/
def EntryFor (c : Claim) (e : Entry) : Prop :=
  e.res = .pvc ∧ e.ns = c.ns ∧ e.name = c.name ∧
    ((e.verb = .get ∧ e.labels = none) ∨ (e.verb = .create ∧ e.labels = some c.labels))

theorem listerGet_spec (w : World) (ns name : Str) :
    (listerGet w ns name).1.claims = w.claims ∧
    (listerGet w ns name).2.verb = .get ∧ (listerGet w ns name).2.res = .pvc ∧ (listerGet w ns name).2.ns = ns ∧
    (listerGet w ns name).2.name = name ∧ (listerGet w ns name).2.labels = none ∧
    ((listerGet w ns name).2.result = .ok → (ns, name) ∈ w.cache) := by
  unfold listerGet
  refine ⟨rfl, rfl, rfl, rfl, rfl, rfl, ?_⟩
  simp only [call_cache]
  intro h
  split at h
  · cases h
  · by_cases hm : (ns, name) ∈ w.cache
    · exact hm
    · simp [hm] at h

theorem apiCreateClaim_spec (w : World) (c : Claim) :
    (∀ x ∈ w.claims, x ∈ (apiCreateClaim w c).1.claims) ∧
    (apiCreateClaim w c).2.verb = .create ∧ (apiCreateClaim w c).2.res = .pvc ∧ (apiCreateClaim w c).2.ns = c.ns ∧
    (apiCreateClaim w c).2.name = c.name ∧ (apiCreateClaim w c).2.labels = some c.labels := by
  unfold apiCreateClaim
  simp only
  split
  · exact ⟨fun x hx => hx, rfl, rfl, rfl, rfl, rfl⟩
  · split
    · exact ⟨fun x hx => hx, rfl, rfl, rfl, rfl, rfl⟩
    · exact ⟨fun x hx => List.mem_cons_of_mem _ hx, rfl, rfl, rfl, rfl, rfl⟩

structure ClaimsRun (w : World) (cs : List Claim) (r : World × List Entry × Bool) : Prop where
  entries : ∀ e ∈ r.2.1, ∃ c ∈ cs, EntryFor c e
  failed : r.2.2 = r.2.1.any Spec.claimFailure
  confirmed : r.2.2 = false → ∀ c ∈ cs, ∃ e ∈ r.2.1, Spec.confirms c.ns c.name e = true
  claims : ∀ x ∈ w.claims, x ∈ r.1.claims

theorem claimStep_run (w : World) (c : Claim) : ClaimsRun w [c] (claimStep w c) := by
  obtain ⟨hg1, hg2, hg3, hg4, hg5, hg6, -⟩ := listerGet_spec w c.ns c.name
  obtain ⟨hc1, hc2, hc3, hc4, hc5, hc6⟩ := apiCreateClaim_spec (listerGet w c.ns c.name).1 c
  have hgE : EntryFor c (listerGet w c.ns c.name).2 := ⟨hg3, hg4, hg5, Or.inl ⟨hg2, hg6⟩⟩
  have hcE : EntryFor c (apiCreateClaim (listerGet w c.ns c.name).1 c).2 := ⟨hc3, hc4, hc5, Or.inr ⟨hc2, hc6⟩⟩
  unfold claimStep
  simp only
  cases hres : (listerGet w c.ns c.name).2.result
  case ok =>
    refine ⟨fun e he => ⟨c, List.mem_singleton.2 rfl, ?_⟩, ?_, fun _ c' hc' => ?_, fun x hx => hg1 ▸ hx⟩
    · simp only [List.mem_singleton] at he; subst he; exact hgE
    · simp [Spec.claimFailure, hg2, hg3, hres]
    · simp only [List.mem_singleton] at hc'; subst hc'
      exact ⟨_, List.mem_singleton.2 rfl, by simp [Spec.confirms, hg2, hg3, hg4, hg5, hres]⟩
  case notfound =>
    refine ⟨fun e he => ⟨c, List.mem_singleton.2 rfl, ?_⟩, ?_, fun hf c' hc' => ?_, fun x hx => hc1 x (hg1 ▸ hx)⟩
    · simp only [List.mem_cons, List.not_mem_nil, or_false] at he
      rcases he with rfl | rfl
      · exact hgE
      · exact hcE
    · simp only [Spec.claimFailure, hg2, hg3, hres, hc2, hc3, List.any_cons, List.any_nil]
      generalize (apiCreateClaim (listerGet w c.ns c.name).1 c).2.result = r
      cases r <;> decide
    · simp only [List.mem_singleton] at hc'; subst hc'
      refine ⟨_, List.mem_cons_of_mem _ (List.mem_singleton.2 rfl), ?_⟩
      simp only [bne_eq_false_iff_eq] at hf
      simp [Spec.confirms, hc2, hc3, hc4, hc5, hf]
  all_goals
    refine ⟨fun e he => ⟨c, List.mem_singleton.2 rfl, ?_⟩, ?_, fun hf => by simp at hf, fun x hx => hg1 ▸ hx⟩
    · simp only [List.mem_singleton] at he; subst he; exact hgE
    · simp [Spec.claimFailure, hg2, hg3, hres]

theorem createClaims_run : ∀ (cs : List Claim) (w : World), ClaimsRun w cs (createClaims w cs) := by
  intro cs
  induction cs with
  | nil =>
    intro w
    exact ⟨fun e he => by simp [createClaims] at he, by simp [createClaims], fun _ c hc => by simp at hc, fun x hx => hx⟩
  | cons c cs ih =>
    intro w
    have h1 := claimStep_run w c
    have h2 := ih (claimStep w c).1
    simp only [createClaims]
    refine ⟨fun e he => ?_, ?_, fun hf c' hc' => ?_, fun x hx => h2.claims x (h1.claims x hx)⟩
    · rcases List.mem_append.1 he with he | he
      · obtain ⟨c', hc', hE⟩ := h1.entries e he
        simp only [List.mem_singleton] at hc'; subst hc'
        exact ⟨c', List.mem_cons_self, hE⟩
      · obtain ⟨c', hc', hE⟩ := h2.entries e he
        exact ⟨c', List.mem_cons_of_mem _ hc', hE⟩
    · simp only [List.any_append, h1.failed, h2.failed]
    · simp only [Bool.or_eq_false_iff] at hf
      rcases List.mem_cons.1 hc' with rfl | hc'
      · obtain ⟨e, he, hc⟩ := h1.confirmed hf.1 c' (List.mem_singleton.2 rfl)
        exact ⟨e, List.mem_append_left _ he, hc⟩
      · obtain ⟨e, he, hc⟩ := h2.confirmed hf.2 c' hc'
        exact ⟨e, List.mem_append_right _ he, hc⟩


/-! ## the claims-first monitor on logs -/

theorem claimsFirst_noPod (v : SetV) (i : Int) : ∀ (log seen : List Entry), (∀ e ∈ log, Spec.isPodCreate e = false) →
    Spec.claimsFirstFrom v i seen log = true := by
  intro log
  induction log with
  | nil => intro _ _; rfl
  | cons e rest ih =>
    intro seen h
    simp only [Spec.claimsFirstFrom, h e List.mem_cons_self, Bool.not_false, Bool.true_or, Bool.true_and]
    exact ih _ (fun x hx => h x (List.mem_cons_of_mem _ hx))

theorem claimsFirst_append (v : SetV) (i : Int) : ∀ (l1 l2 seen : List Entry),
    Spec.claimsFirstFrom v i seen (l1 ++ l2) =
      (Spec.claimsFirstFrom v i seen l1 && Spec.claimsFirstFrom v i (l1.reverse ++ seen) l2) := by
  intro l1
  induction l1 with
  | nil => intro l2 seen; simp [Spec.claimsFirstFrom]
  | cons e rest ih =>
    intro l2 seen
    simp only [List.cons_append, Spec.claimsFirstFrom, ih, List.reverse_cons, List.append_assoc, List.cons_append, List.nil_append, Bool.and_assoc]

theorem claimsFirst_mono (v : SetV) (i : Int) : ∀ (log seen seen' : List Entry), (∀ e ∈ seen, e ∈ seen') →
    Spec.claimsFirstFrom v i seen log = true → Spec.claimsFirstFrom v i seen' log = true := by
  intro log
  induction log with
  | nil => intro _ _ _ _; rfl
  | cons e rest ih =>
    intro seen seen' hsub h
    simp only [Spec.claimsFirstFrom, Bool.and_eq_true, Bool.or_eq_true, Bool.not_eq_eq_eq_not, Bool.not_true, List.all_eq_true,
      List.any_eq_true] at h ⊢
    refine ⟨?_, ih _ _ (fun x hx => ?_) h.2⟩
    · rcases h.1 with h1 | h1
      · exact Or.inl h1
      · exact Or.inr (fun t ht => by obtain ⟨x, hx, hc⟩ := h1 t ht; exact ⟨x, hsub x hx, hc⟩)
    · rcases List.mem_cons.1 hx with rfl | hx
      · exact List.mem_cons_self
      · exact List.mem_cons_of_mem _ (hsub x hx)

theorem entryFor_notPod {c : Claim} {e : Entry} (h : EntryFor c e) : Spec.isPodCreate e = false := by
  simp [Spec.isPodCreate, h.1]

/-! ## `CreateStatefulPod` -/

/-- the pod create entry of `CreateStatefulPod(set, pod)` -/
def IsPodCreateOf (v : SetV) (p : Pod) (e : Entry) : Prop :=
  e.verb = .create ∧ e.res = .pod ∧ e.ns = v.ns ∧ e.name = p.name ∧ e.labels = none

theorem apiCreatePod_spec (w : World) (ns name : Str) :
    (apiCreatePod w ns name).1.claims = w.claims ∧ (apiCreatePod w ns name).2.verb = .create ∧ (apiCreatePod w ns name).2.res = .pod ∧
    (apiCreatePod w ns name).2.ns = ns ∧ (apiCreatePod w ns name).2.name = name ∧ (apiCreatePod w ns name).2.labels = none := by
  unfold apiCreatePod
  simp only
  split
  · exact ⟨rfl, rfl, rfl, rfl, rfl, rfl⟩
  · split <;> exact ⟨rfl, rfl, rfl, rfl, rfl, rfl⟩

structure CreateRun (v : SetV) (p : Pod) (cs : List Claim) (w : World) (r : World × List Entry × Out) : Prop where
  /-- the log is claim lookups / creates for the pod's claims, then at most one pod create at the very end -/
  shape : ∃ l1 l2, r.2.1 = l1 ++ l2 ∧ (∀ e ∈ l1, ∃ c ∈ cs, EntryFor c e) ∧
    ((l2 = [] ∧ l1.any Spec.claimFailure = true ∧ r.2.2 = .err) ∨
     (∃ e, l2 = [e] ∧ IsPodCreateOf v p e ∧ l1.any Spec.claimFailure = false ∧ r.2.2 ≠ .panic ∧
        ∀ c ∈ cs, ∃ x ∈ l1, Spec.confirms c.ns c.name x = true))
  claims : ∀ x ∈ w.claims, x ∈ r.1.claims

theorem createStatefulPod_run {v : SetV} {p : Pod} {cs : List Claim} (hcs : getClaims v p = some cs) (w : World) :
    CreateRun v p cs w (createStatefulPod v p w) := by
  have hr := createClaims_run cs w
  unfold createStatefulPod
  simp only [hcs]
  by_cases hf : (createClaims w cs).2.2 = true
  · simp only [hf, if_true]
    exact ⟨⟨_, [], (List.append_nil _).symm, hr.entries, Or.inl ⟨rfl, by rw [← hr.failed]; exact hf, rfl⟩⟩, hr.claims⟩
  · simp only [Bool.not_eq_true] at hf
    simp only [hf, Bool.false_eq_true, if_false]
    obtain ⟨hp1, hp2, hp3, hp4, hp5, hp6⟩ := apiCreatePod_spec (createClaims w cs).1 v.ns p.name
    refine ⟨⟨_, [_], rfl, hr.entries, Or.inr ⟨_, rfl, ⟨hp2, hp3, hp4, hp5, hp6⟩, by rw [← hr.failed]; exact hf, ?_, hr.confirmed hf⟩⟩,
      fun x hx => hp1 ▸ hr.claims x hx⟩
    split <;> simp


/-! ## the pod built by `newVersionedStatefulSetPod` -/

theorem revLabel_ne_podNameLabel : revLabel ≠ podNameLabel := by decide
theorem podNameLabel_ne_builtLabel : podNameLabel ≠ builtLabel := by decide
theorem revLabel_ne_builtLabel : revLabel ≠ builtLabel := by decide

theorem getClaims_isSome_congr {v v' : SetV} (p p' : Pod) (hs : v'.sel = v.sel) (ht : v'.tmpls = v.tmpls) :
    (getClaims v' p').isSome = (getClaims v p).isSome := by
  unfold getClaims
  rw [hs, ht]
  split <;> rfl

/-- everything C06 says about the pod object itself -/
structure PodOk (base : SetV) (rs : RevSel) (i : Int) (p : Pod) : Prop where
  name : p.name = podName base.name i
  ns : p.ns = base.ns
  host : p.host = podName base.name i
  sub : p.sub = base.svc
  lpod : getL p.labels podNameLabel = some (podName base.name i)
  lrev : (getL p.labels builtLabel = some "cur".toList ∧ getL p.labels revLabel = some rs.curRev) ∨
         (getL p.labels builtLabel = some "upd".toList ∧ getL p.labels revLabel = some rs.updRev)
  owner : p.owners = [ctrlRef base]
  vols : VolumesBound base i p.vols

theorem newPod_marker_ok (base : SetV) (rs : RevSel) (which : String) {i : Int} (hi : InDomain i) {p0 : Pod} (r : Str)
    (h : newPod (withMarker base which) i = some p0)
    (hr : (which.toList = "cur".toList ∧ r = rs.curRev) ∨ (which.toList = "upd".toList ∧ r = rs.updRev)) :
    PodOk base rs i (setRev p0 r) := by
  obtain ⟨h1, h2, h3, h4, h5, h6, -⟩ := newPod_spec hi h
  have hv := newPod_volumes hi h
  have hb : getL (setRev p0 r).labels builtLabel = some which.toList := by
    simp only [setRev, h5]
    rw [getL_setL_other _ _ _ _ revLabel_ne_builtLabel, getL_setL_other _ _ _ _ podNameLabel_ne_builtLabel]
    exact getL_setL_same _ _ _
  refine ⟨h1, h2, h3, h4, ?_, ?_, h6, hv⟩
  · simp only [setRev, h5]
    rw [getL_setL_other _ _ _ _ revLabel_ne_podNameLabel]
    exact getL_setL_same _ _ _
  · have hrv : getL (setRev p0 r).labels revLabel = some r := getL_setL_same _ _ _
    rcases hr with ⟨hw, rfl⟩ | ⟨hw, rfl⟩
    · exact Or.inl ⟨hw ▸ hb, hrv⟩
    · exact Or.inr ⟨hw ▸ hb, hrv⟩

theorem newVersionedPod_ok (base : SetV) (rs : RevSel) {i : Int} (hi : InDomain i) {p : Pod}
    (h : newVersionedPod (withMarker base "cur") (withMarker base "upd") rs i = some p) : PodOk base rs i p := by
  unfold newVersionedPod at h
  split at h
  · obtain ⟨p0, hp0, rfl⟩ := Option.map_eq_some_iff.1 h
    exact newPod_marker_ok base rs "cur" hi _ hp0 (Or.inl ⟨rfl, rfl⟩)
  · obtain ⟨p0, hp0, rfl⟩ := Option.map_eq_some_iff.1 h
    exact newPod_marker_ok base rs "upd" hi _ hp0 (Or.inr ⟨rfl, rfl⟩)

theorem newPod_claims {v : SetV} {i : Int} {p : Pod} (h : newPod v i = some p) : (getClaims v p).isSome = true := by
  unfold newPod updateStorage at h
  obtain ⟨cs, hcs, rfl⟩ := Option.map_eq_some_iff.1 h
  rw [getClaims_isSome_congr (v := v) (v' := v) _ _ rfl rfl, hcs]; rfl

/-- for every ordinal: a pod that could be built has computable claims under the set itself -/
theorem newVersionedPod_claims (base : SetV) (rs : RevSel) {i : Int} {p : Pod}
    (h : newVersionedPod (withMarker base "cur") (withMarker base "upd") rs i = some p) : ∃ cs, getClaims base p = some cs := by
  have : (getClaims base p).isSome = true := by
    unfold newVersionedPod at h
    split at h
    · obtain ⟨p0, hp0, rfl⟩ := Option.map_eq_some_iff.1 h
      rw [getClaims_isSome_congr (v := withMarker base "cur") (v' := base) p0 _ rfl rfl]; exact newPod_claims hp0
    · obtain ⟨p0, hp0, rfl⟩ := Option.map_eq_some_iff.1 h
      rw [getClaims_isSome_congr (v := withMarker base "upd") (v' := base) p0 _ rfl rfl]; exact newPod_claims hp0
  exact Option.isSome_iff_exists.1 this


/-! ## one create step of the engine -/

/-- what the observation of a create step is -/
inductive CreateObs (base : SetV) (rs : RevSel) (i : Int) (o : StepObs) : Prop
  | panic : o = { step := .C, out := .panic, log := [], pod := none } → CreateObs base rs i o
  | ran (p : Pod) (cs : List Claim) (w : World) :
      newVersionedPod (withMarker base "cur") (withMarker base "upd") rs i = some p →
      getClaims base p = some cs →
      o = { step := .C, out := (createStatefulPod base p w).2.2, log := (createStatefulPod base p w).2.1, pod := some p } →
      CreateObs base rs i o

theorem createStep_obs (steps : List Step) (base : SetV) (rs : RevSel) (i : Int) (w0 : World) (pod : Option Pod) (w : World) :
    CreateObs base rs i (createStep (mkCase steps base rs i w0 pod) w).2.1 := by
  unfold createStep
  simp only [mkCase]
  cases h : newVersionedPod (withMarker base "cur") (withMarker base "upd") rs i with
  | none => exact .panic rfl
  | some p =>
    obtain ⟨cs, hcs⟩ := newVersionedPod_claims base rs h
    exact .ran p cs w h hcs rfl

theorem createdPod_some {o : StepObs} {q : Pod} (h : Spec.createdPod o = some q) : Spec.issued o = true ∧ o.pod = some q := by
  unfold Spec.createdPod at h
  split at h
  · rename_i hc
    simp only [Bool.and_eq_true] at hc
    exact ⟨hc.2, h⟩
  · cases h

/-- a created pod of a create step: the pod that was built, its claims, and the run of `CreateStatefulPod` it went through -/
theorem CreateObs.created {base : SetV} {rs : RevSel} {i : Int} {o : StepObs} (h : CreateObs base rs i o) {q : Pod}
    (hq : Spec.createdPod o = some q) :
    ∃ cs w, newVersionedPod (withMarker base "cur") (withMarker base "upd") rs i = some q ∧ getClaims base q = some cs ∧
      o.log = (createStatefulPod base q w).2.1 ∧ o.out = (createStatefulPod base q w).2.2 := by
  obtain ⟨-, hpod⟩ := createdPod_some hq
  cases h with
  | panic ho => subst ho; cases hpod
  | ran p cs w hp hcs ho =>
    subst ho
    simp only [Option.some.injEq] at hpod
    subst hpod
    exact ⟨cs, w, hp, hcs, rfl, rfl⟩

/-- the log of a create step: claim entries for well-formed claims, and pod creates of the built pod -/
theorem CreateObs.log {base : SetV} {rs : RevSel} {i : Int} {o : StepObs} (h : CreateObs base rs i o) :
    o.step = .C ∧ ∀ e ∈ o.log, (∃ ord c, ClaimOk base ord c ∧ EntryFor c e) ∨
      (Spec.isPodCreate e = true ∧ e.ns = base.ns ∧ ∃ p, o.pod = some p ∧ e.name = p.name) := by
  cases h with
  | panic ho => subst ho; exact ⟨rfl, fun e he => by simp at he⟩
  | ran p cs w hp hcs ho =>
    subst ho
    refine ⟨rfl, fun e he => ?_⟩
    obtain ⟨⟨l1, l2, hl, h1, h2⟩, -⟩ := createStatefulPod_run hcs w
    simp only at he
    rw [hl] at he
    rcases List.mem_append.1 he with he | he
    · obtain ⟨c, hc, hE⟩ := h1 e he
      exact Or.inl ⟨_, c, (getClaims_ok hcs).1 c hc, hE⟩
    · rcases h2 with ⟨rfl, -⟩ | ⟨e', rfl, hpc, -⟩
      · simp at he
      · simp only [List.mem_singleton] at he; subst he
        exact Or.inr ⟨by simp [Spec.isPodCreate, hpc.1, hpc.2.1], hpc.2.2.1, p, rfl, hpc.2.2.2.1⟩

theorem nameOk_create {base : SetV} {rs : RevSel} {i : Int} (hi : InDomain i) {o : StepObs} (h : CreateObs base rs i o) :
    Spec.nameOk base i o = true := by
  unfold Spec.nameOk
  split
  · rfl
  · rename_i q hq
    obtain ⟨cs, w, hp, hcs, hlog, -⟩ := h.created hq
    have hok := newVersionedPod_ok base rs hi hp
    have hpod := (createdPod_some hq).2
    simp only [Bool.and_eq_true, beq_iff_eq, List.all_eq_true, Bool.or_eq_true, Bool.not_eq_eq_eq_not, Bool.not_true]
    refine ⟨⟨hok.name, hok.ns⟩, fun e he => ?_⟩
    rcases h.log.2 e he with ⟨_, c, -, hE⟩ | ⟨hpc, hns, p, hp', hn⟩
    · exact Or.inl (entryFor_notPod hE)
    · rw [hpod] at hp'; cases hp'
      exact Or.inr ⟨by rw [hn, hok.name], hns⟩

theorem hostnameOk_create {base : SetV} {rs : RevSel} {i : Int} (hi : InDomain i) {o : StepObs} (h : CreateObs base rs i o) :
    Spec.hostnameOk base i o = true := by
  unfold Spec.hostnameOk
  split
  · rfl
  · rename_i q hq
    obtain ⟨cs, w, hp, -⟩ := h.created hq
    simp [(newVersionedPod_ok base rs hi hp).host]

theorem subdomainOk_create {base : SetV} {rs : RevSel} {i : Int} (hi : InDomain i) {o : StepObs} (h : CreateObs base rs i o) :
    Spec.subdomainOk base o = true := by
  unfold Spec.subdomainOk
  split
  · rfl
  · rename_i q hq
    obtain ⟨cs, w, hp, -⟩ := h.created hq
    simp [(newVersionedPod_ok base rs hi hp).sub]

theorem podLabelOk_create {base : SetV} {rs : RevSel} {i : Int} (hi : InDomain i) {o : StepObs} (h : CreateObs base rs i o) :
    Spec.podLabelOk base i o = true := by
  unfold Spec.podLabelOk
  split
  · rfl
  · rename_i q hq
    obtain ⟨cs, w, hp, -⟩ := h.created hq
    simp [(newVersionedPod_ok base rs hi hp).lpod]

theorem revLabelOk_create {base : SetV} {rs : RevSel} {i : Int} (hi : InDomain i) {o : StepObs} (h : CreateObs base rs i o) :
    Spec.revLabelOk rs o = true := by
  unfold Spec.revLabelOk
  split
  · rfl
  · rename_i q hq
    obtain ⟨cs, w, hp, -⟩ := h.created hq
    have hb : Spec.builtLabel = builtLabel := rfl
    rcases (newVersionedPod_ok base rs hi hp).lrev with ⟨h1, h2⟩ | ⟨h1, h2⟩
    · simp [hb, h1, h2]
    · simp [hb, h1, h2]

theorem ownerOk_create {base : SetV} {rs : RevSel} {i : Int} (hi : InDomain i) {o : StepObs} (h : CreateObs base rs i o) :
    Spec.ownerOk base o = true := by
  unfold Spec.ownerOk
  split
  · rfl
  · rename_i q hq
    obtain ⟨cs, w, hp, -⟩ := h.created hq
    rw [(newVersionedPod_ok base rs hi hp).owner]
    simp only [List.any_cons, List.any_nil, Bool.or_false, Bool.and_eq_true, beq_iff_eq]
    exact ⟨⟨rfl, rfl⟩, rfl⟩

theorem volumesOk_create {base : SetV} {rs : RevSel} {i : Int} (hi : InDomain i) {o : StepObs} (h : CreateObs base rs i o) :
    Spec.volumesOk base i o = true := by
  unfold Spec.volumesOk
  split
  · rfl
  · rename_i q hq
    obtain ⟨cs, w, hp, -⟩ := h.created hq
    exact volumesOk_of_bound (newVersionedPod_ok base rs hi hp).vols


/-! ## per-entry clauses -/

theorem entryFor_ok {v : SetV} {ord : Int} {c : Claim} {e : Entry} (hc : ClaimOk v ord c) (hE : EntryFor c e) :
    Spec.claimLabelOk v e = true ∧ Spec.pvcWriteOk e = true := by
  obtain ⟨hres, hns, -, hv⟩ := hE
  rcases hv with ⟨hverb, -⟩ | ⟨hverb, hl⟩
  · simp [Spec.claimLabelOk, Spec.pvcWriteOk, Spec.isClaimCreate, hverb]
  · obtain ⟨ml, hsel, hml⟩ := hc.labels
    refine ⟨?_, by simp [Spec.pvcWriteOk, hverb]⟩
    unfold Spec.claimLabelOk
    simp only [hsel, hl, hns, hc.ns, beq_self_eq_true, Bool.true_and, Bool.or_eq_true, List.all_eq_true, beq_iff_eq]
    exact Or.inr (fun kv hkv => hml kv.1 (List.mem_map_of_mem hkv))

theorem podEntry_ok (v : SetV) {e : Entry} (h : e.res = .pod) : Spec.claimLabelOk v e = true ∧ Spec.pvcWriteOk e = true := by
  simp [Spec.claimLabelOk, Spec.pvcWriteOk, Spec.isClaimCreate, h]

theorem isPodCreate_res {e : Entry} (h : Spec.isPodCreate e = true) : e.res = .pod := by
  simp only [Spec.isPodCreate, Bool.and_eq_true, beq_iff_eq] at h; exact h.2

theorem claimFailure_res {e : Entry} (h : Spec.claimFailure e = true) : e.res = .pvc := by
  simp only [Spec.claimFailure, Bool.and_eq_true, beq_iff_eq] at h; exact h.1

/-! ## the remaining clauses on one create step -/

theorem claimFailOk_create {base : SetV} {rs : RevSel} {i : Int} {o : StepObs} (h : CreateObs base rs i o) :
    Spec.claimFailOk o = true := by
  cases h with
  | panic ho => subst ho; rfl
  | ran p cs w hp hcs ho =>
    subst ho
    obtain ⟨⟨l1, l2, hl, h1, h2⟩, -⟩ := createStatefulPod_run hcs w
    unfold Spec.claimFailOk Spec.issued
    simp only [hl]
    rcases h2 with ⟨rfl, hf, hout⟩ | ⟨e, rfl, hpc, hf, -, -⟩
    · have hnp : l1.any Spec.isPodCreate = false := by
        simp only [List.any_eq_false]
        intro x hx; obtain ⟨c, -, hE⟩ := h1 x hx; simp [entryFor_notPod hE]
      simp [hnp, hout]
    · have : Spec.claimFailure e = false := by simp [Spec.claimFailure, hpc.2.1]
      simp [List.any_append, hf, this]

theorem claimsFirst_create {base : SetV} {rs : RevSel} {i : Int} (hi : InDomain i) {o : StepObs} (h : CreateObs base rs i o)
    (seen : List Entry) : Spec.claimsFirstFrom base i seen o.log = true := by
  cases h with
  | panic ho => subst ho; rfl
  | ran p cs w hp hcs ho =>
    subst ho
    obtain ⟨⟨l1, l2, hl, h1, h2⟩, -⟩ := createStatefulPod_run hcs w
    simp only [hl]
    rw [claimsFirst_append, Bool.and_eq_true]
    have hl1 : ∀ e ∈ l1, Spec.isPodCreate e = false := fun e he => by obtain ⟨c, -, hE⟩ := h1 e he; exact entryFor_notPod hE
    refine ⟨claimsFirst_noPod base i l1 seen hl1, ?_⟩
    rcases h2 with ⟨rfl, -⟩ | ⟨e, rfl, -, -, -, hconf⟩
    · rfl
    · have hok := newVersionedPod_ok base rs hi hp
      obtain ⟨hck, hcover⟩ := getClaims_ok hcs
      have hord : (parseName p.name).2 = i := by rw [hok.name, parseName_podName_ord _ _ hi]
      simp only [Spec.claimsFirstFrom, Bool.and_true, Bool.or_eq_true, List.all_eq_true, List.any_eq_true]
      refine Or.inr (fun t ht => ?_)
      obtain ⟨c, hc, hct⟩ := hcover t ht
      obtain ⟨x, hx, hcx⟩ := hconf c hc
      refine ⟨x, List.mem_append_left _ (List.mem_reverse.2 hx), ?_⟩
      rw [← hct, ← hord, ← (hck c hc).name, ← (hck c hc).ns]; exact hcx


/-! ## `UpdateStatefulPod`, `DeleteStatefulPod`: what they can put in the log, and what they do to the claims -/

/-- an entry that is not a pod create: a lookup / create of a well-formed claim of the set, or another pod call -/
def OtherEntry (v : SetV) (e : Entry) : Prop :=
  (∃ ord c, ClaimOk v ord c ∧ EntryFor c e) ∨ (e.res = .pod ∧ Spec.isPodCreate e = false)

theorem apiUpdatePod_spec (w : World) (ns name : Str) :
    (apiUpdatePod w ns name).1.claims = w.claims ∧ (apiUpdatePod w ns name).2.verb = .update ∧ (apiUpdatePod w ns name).2.res = .pod := by
  unfold apiUpdatePod
  simp only
  split
  · exact ⟨rfl, rfl, rfl⟩
  · split <;> exact ⟨rfl, rfl, rfl⟩

theorem apiDeletePod_spec (w : World) (ns name : Str) :
    (apiDeletePod w ns name).1.claims = w.claims ∧ (apiDeletePod w ns name).2.verb = .delete ∧ (apiDeletePod w ns name).2.res = .pod := by
  unfold apiDeletePod
  simp only
  split
  · exact ⟨rfl, rfl, rfl⟩
  · split <;> exact ⟨rfl, rfl, rfl⟩

theorem commitUpdate_spec (v : SetV) (w : World) (p : Pod) (log : List Entry) (consistent : Bool)
    (hlog : ∀ e ∈ log, OtherEntry v e) :
    (∀ e ∈ (commitUpdate v w p log consistent).2.1, OtherEntry v e) ∧ (commitUpdate v w p log consistent).1.claims = w.claims := by
  obtain ⟨h1, h2, h3⟩ := apiUpdatePod_spec w v.ns p.name
  have he : OtherEntry v (apiUpdatePod w v.ns p.name).2 := Or.inr ⟨h3, by simp [Spec.isPodCreate, h2]⟩
  have hall : ∀ e ∈ log ++ [(apiUpdatePod w v.ns p.name).2], OtherEntry v e := by
    intro e hm
    rcases List.mem_append.1 hm with hm | hm
    · exact hlog e hm
    · simp only [List.mem_singleton] at hm; subst hm; exact he
  unfold commitUpdate
  split
  · exact ⟨hlog, rfl⟩
  · simp only
    split <;> exact ⟨hall, h1⟩

theorem storeAndCommit_spec (v : SetV) (w : World) (p1 : Pod) (idOk : Bool) :
    (∀ e ∈ (storeAndCommit v w p1 idOk).2.1, OtherEntry v e) ∧ (∀ x ∈ w.claims, x ∈ (storeAndCommit v w p1 idOk).1.claims) := by
  unfold storeAndCommit
  split
  · obtain ⟨h1, h2⟩ := commitUpdate_spec v w p1 [] idOk (fun e he => by simp at he)
    exact ⟨h1, fun x hx => h2 ▸ hx⟩
  · split
    · exact ⟨fun e he => by simp at he, fun x hx => hx⟩
    · rename_i p2 _
      split
      · exact ⟨fun e he => by simp at he, fun x hx => hx⟩
      · rename_i cs hcs
        have hr := createClaims_run cs w
        have hent : ∀ e ∈ (createClaims w cs).2.1, OtherEntry v e := fun e he => by
          obtain ⟨c, hc, hE⟩ := hr.entries e he
          exact Or.inl ⟨_, c, (getClaims_ok hcs).1 c hc, hE⟩
        simp only
        split
        · exact ⟨hent, hr.claims⟩
        · obtain ⟨h1, h2⟩ := commitUpdate_spec v (createClaims w cs).1 p2 (createClaims w cs).2.1 false hent
          exact ⟨h1, fun x hx => h2 ▸ hr.claims x hx⟩

theorem updateAttempt_spec (v : SetV) (w : World) (p : Pod) :
    (∀ e ∈ (updateAttempt v w p).2.1, OtherEntry v e) ∧ (∀ x ∈ w.claims, x ∈ (updateAttempt v w p).1.claims) :=
  storeAndCommit_spec v w _ _

theorem updateLoop_spec (v : SetV) : ∀ (n : Nat) (w : World) (cur : Pod) (caller : Option Pod) (log : List Entry),
    (∀ e ∈ log, OtherEntry v e) →
    (∀ e ∈ (updateLoop v n w cur caller log).2.1, OtherEntry v e) ∧ (∀ x ∈ w.claims, x ∈ (updateLoop v n w cur caller log).1.claims) := by
  intro n
  induction n with
  | zero => intro w cur caller log hlog; exact ⟨hlog, fun x hx => hx⟩
  | succ n ih =>
    intro w cur caller log hlog
    obtain ⟨ha1, ha2⟩ := updateAttempt_spec v w cur
    have hall : ∀ e ∈ log ++ (updateAttempt v w cur).2.1, OtherEntry v e := by
      intro e hm
      rcases List.mem_append.1 hm with hm | hm
      · exact hlog e hm
      · exact ha1 e hm
    unfold updateLoop
    simp only
    split
    · exact ⟨hall, ha2⟩
    · split
      · obtain ⟨h1, h2⟩ := ih (updateAttempt v w cur).1 _ _ _ hall
        exact ⟨h1, fun x hx => h2 x (ha2 x hx)⟩
      · obtain ⟨h1, h2⟩ := ih (updateAttempt v w cur).1 _ _ _ hall
        exact ⟨h1, fun x hx => h2 x (ha2 x hx)⟩

theorem updateStatefulPod_spec (v : SetV) (p : Pod) (w : World) :
    (∀ e ∈ (updateStatefulPod v p w).2.1, OtherEntry v e) ∧ (∀ x ∈ w.claims, x ∈ (updateStatefulPod v p w).1.claims) :=
  updateLoop_spec v 4 w p none [] (fun e he => by simp at he)

theorem deleteStatefulPod_spec (v : SetV) (p : Pod) (w : World) :
    (∀ e ∈ (deleteStatefulPod v p w).2.1, OtherEntry v e) ∧ (deleteStatefulPod v p w).1.claims = w.claims := by
  obtain ⟨h1, h2, h3⟩ := apiDeletePod_spec w v.ns p.name
  unfold deleteStatefulPod
  refine ⟨fun e he => ?_, h1⟩
  simp only [List.mem_singleton] at he; subst he
  exact Or.inr ⟨h3, by simp [Spec.isPodCreate, h2]⟩


/-! ## whole runs of the engine's step machine -/

/-- every step of a run is either a create step (as described by `CreateObs`) or a step that issues no pod create and
    touches claims only through lookups / creates of well-formed claims -/
def StepInv (base : SetV) (rs : RevSel) (i : Int) (o : StepObs) : Prop :=
  CreateObs base rs i o ∨ (o.step ≠ .C ∧ ∀ e ∈ o.log, OtherEntry base e)

theorem runSteps_inv (steps0 : List Step) (base : SetV) (rs : RevSel) (i : Int) (w0 : World) (pod0 : Option Pod) :
    ∀ (steps : List Step) (w : World) (cur : Option Pod) (obs : List StepObs),
      runSteps (mkCase steps0 base rs i w0 pod0) steps w cur = some obs → ∀ o ∈ obs, StepInv base rs i o := by
  intro steps
  induction steps with
  | nil =>
    intro w cur obs h o ho
    simp only [runSteps, Option.some.injEq] at h
    subst h; simp at ho
  | cons st rest ih =>
    intro w cur obs h o ho
    cases st with
    | C =>
      simp only [runSteps] at h
      have hobs := createStep_obs steps0 base rs i w0 pod0 w
      split at h
      · simp only [Option.some.injEq] at h; subst h
        simp only [List.mem_singleton] at ho; subst ho
        exact Or.inl hobs
      · obtain ⟨obs', hobs', rfl⟩ := Option.map_eq_some_iff.1 h
        rcases List.mem_cons.1 ho with rfl | ho
        · exact Or.inl hobs
        · exact ih _ _ _ hobs' o ho
    | S =>
      simp only [runSteps] at h
      obtain ⟨obs', hobs', rfl⟩ := Option.map_eq_some_iff.1 h
      rcases List.mem_cons.1 ho with rfl | ho
      · exact Or.inr ⟨by simp, fun e he => by simp at he⟩
      · exact ih _ _ _ hobs' o ho
    | U =>
      simp only [runSteps] at h
      split at h
      · cases h
      · rename_i p
        have hspec := (updateStatefulPod_spec (mkCase steps0 base rs i w0 pod0).base p w).1
        split at h
        · simp only [Option.some.injEq] at h; subst h
          simp only [List.mem_singleton] at ho; subst ho
          exact Or.inr ⟨by simp, fun e he => by simp at he⟩
        · obtain ⟨obs', hobs', rfl⟩ := Option.map_eq_some_iff.1 h
          rcases List.mem_cons.1 ho with rfl | ho
          · exact Or.inr ⟨by simp, hspec⟩
          · exact ih _ _ _ hobs' o ho
    | D =>
      simp only [runSteps] at h
      split at h
      · cases h
      · rename_i p
        have hspec := (deleteStatefulPod_spec (mkCase steps0 base rs i w0 pod0).base p w).1
        obtain ⟨obs', hobs', rfl⟩ := Option.map_eq_some_iff.1 h
        rcases List.mem_cons.1 ho with rfl | ho
        · exact Or.inr ⟨by simp, hspec⟩
        · exact ih _ _ _ hobs' o ho

theorem createdPod_none_of_step {o : StepObs} (h : o.step ≠ .C) : Spec.createdPod o = none := by
  unfold Spec.createdPod
  have : (o.step == Step.C) = false := by simpa using h
  simp [this]

theorem otherEntry_ok {v : SetV} {e : Entry} (h : OtherEntry v e) :
    Spec.claimLabelOk v e = true ∧ Spec.pvcWriteOk e = true ∧ Spec.isPodCreate e = false := by
  rcases h with ⟨ord, c, hc, hE⟩ | ⟨hres, hnp⟩
  · exact ⟨(entryFor_ok hc hE).1, (entryFor_ok hc hE).2, entryFor_notPod hE⟩
  · exact ⟨(podEntry_ok v hres).1, (podEntry_ok v hres).2, hnp⟩

theorem StepInv.entries {base : SetV} {rs : RevSel} {i : Int} {o : StepObs} (h : StepInv base rs i o) :
    ∀ e ∈ o.log, Spec.claimLabelOk base e = true ∧ Spec.pvcWriteOk e = true := by
  intro e he
  rcases h with h | ⟨-, h⟩
  · rcases h.log.2 e he with ⟨ord, c, hc, hE⟩ | ⟨hpc, -⟩
    · exact entryFor_ok hc hE
    · exact podEntry_ok base (isPodCreate_res hpc)
  · exact ⟨(otherEntry_ok (h e he)).1, (otherEntry_ok (h e he)).2.1⟩

theorem StepInv.claimsFirst {base : SetV} {rs : RevSel} {i : Int} (hi : InDomain i) {o : StepObs} (h : StepInv base rs i o)
    (seen : List Entry) : Spec.claimsFirstFrom base i seen o.log = true := by
  rcases h with h | ⟨-, h⟩
  · exact claimsFirst_create hi h seen
  · exact claimsFirst_noPod base i o.log seen (fun e he => (otherEntry_ok (h e he)).2.2)

theorem claimsFirst_allLog {base : SetV} {rs : RevSel} {i : Int} (hi : InDomain i) :
    ∀ (obs : List StepObs) (seen : List Entry), (∀ o ∈ obs, StepInv base rs i o) →
      Spec.claimsFirstFrom base i seen (Spec.allLog obs) = true := by
  intro obs
  induction obs with
  | nil => intro seen _; rfl
  | cons o rest ih =>
    intro seen h
    have : Spec.allLog (o :: rest) = o.log ++ Spec.allLog rest := by simp [Spec.allLog]
    rw [this, claimsFirst_append, Bool.and_eq_true]
    exact ⟨(h o List.mem_cons_self).claimsFirst hi seen, ih _ (fun x hx => h x (List.mem_cons_of_mem _ hx))⟩

theorem mem_allLog {obs : List StepObs} {e : Entry} (h : e ∈ Spec.allLog obs) : ∃ o ∈ obs, e ∈ o.log := by
  simp only [Spec.allLog, List.mem_flatten, List.mem_map] at h
  obtain ⟨l, ⟨o, ho, rfl⟩, he⟩ := h
  exact ⟨o, ho, he⟩

/-- every pod created in a run is the one pod `newVersionedStatefulSetPod` builds for the ordinal -/
theorem StepInv.createdPod {base : SetV} {rs : RevSel} {i : Int} {o : StepObs} (h : StepInv base rs i o) {q : Pod}
    (hq : Spec.createdPod o = some q) : newVersionedPod (withMarker base "cur") (withMarker base "upd") rs i = some q := by
  rcases h with h | ⟨hs, -⟩
  · obtain ⟨cs, w, hp, -⟩ := h.created hq; exact hp
  · rw [createdPod_none_of_step hs] at hq; cases hq

theorem sameClaims_run {base : SetV} {rs : RevSel} {i : Int} (obs : List StepObs) (h : ∀ o ∈ obs, StepInv base rs i o) :
    Spec.sameClaimsOk base obs = true := by
  unfold Spec.sameClaimsOk
  simp only
  split
  · rfl
  · rename_i p rest hps
    have hmem : ∀ q ∈ obs.filterMap Spec.createdPod, newVersionedPod (withMarker base "cur") (withMarker base "upd") rs i = some q := by
      intro q hq
      obtain ⟨o, ho, hoq⟩ := List.mem_filterMap.1 hq
      exact (h o ho).createdPod hoq
    rw [hps] at hmem
    have hp := hmem p List.mem_cons_self
    simp only [List.all_eq_true, Bool.and_eq_true, decide_eq_true_eq]
    intro q hq
    have hqp : q = p := by
      have := hmem q (List.mem_cons_of_mem _ hq)
      rw [hp] at this; exact (Option.some.inj this).symm
    subst hqp
    exact ⟨fun x hx => hx, fun x hx => hx⟩


/-! ## the monitor on whole runs -/

theorem run_inv {steps : List Step} {base : SetV} {rs : RevSel} {i : Int} {w : World} {pod : Option Pod} {obs : List StepObs}
    (h : run (mkCase steps base rs i w pod) = some obs) : ∀ o ∈ obs, StepInv base rs i o :=
  runSteps_inv steps base rs i w pod steps w pod obs h

theorem all_steps_of_create {base : SetV} {rs : RevSel} {i : Int} {obs : List StepObs} (h : ∀ o ∈ obs, StepInv base rs i o)
    (f : StepObs → Bool) (hc : ∀ o, CreateObs base rs i o → f o = true) (hn : ∀ o, Spec.createdPod o = none → f o = true) :
    obs.all f = true := by
  simp only [List.all_eq_true]
  intro o ho
  rcases h o ho with h | ⟨hs, -⟩
  · exact hc o h
  · exact hn o (createdPod_none_of_step hs)

theorem guard_dom (i : Int) (b : Bool) (h : InDomain i → b = true) : (!Spec.inDomain i || b) = true := by
  by_cases hd : Spec.inDomain i = true
  · simp [hd, h ((inDomain_iff i).1 hd)]
  · simp only [Bool.not_eq_true] at hd; simp [hd]

theorem monitor_on_run {steps : List Step} {base : SetV} {rs : RevSel} {i : Int} {w : World} {pod : Option Pod} {obs : List StepObs}
    (h : run (mkCase steps base rs i w pod) = some obs) : ∀ cl ∈ Spec.clauses base rs i obs, cl.2 = true := by
  have hinv := run_inv h
  intro cl hcl
  simp only [Spec.clauses, List.mem_cons, List.not_mem_nil, or_false] at hcl
  rcases hcl with rfl | rfl | rfl | rfl | rfl | rfl | rfl | rfl | rfl | rfl | rfl | rfl
  · exact guard_dom i _ fun hi => all_steps_of_create hinv _ (fun o ho => nameOk_create hi ho) (fun o ho => by simp [Spec.nameOk, ho])
  · exact guard_dom i _ fun hi => all_steps_of_create hinv _ (fun o ho => hostnameOk_create hi ho) (fun o ho => by simp [Spec.hostnameOk, ho])
  · exact guard_dom i _ fun hi => all_steps_of_create hinv _ (fun o ho => subdomainOk_create hi ho) (fun o ho => by simp [Spec.subdomainOk, ho])
  · exact guard_dom i _ fun hi => all_steps_of_create hinv _ (fun o ho => podLabelOk_create hi ho) (fun o ho => by simp [Spec.podLabelOk, ho])
  · exact guard_dom i _ fun hi => all_steps_of_create hinv _ (fun o ho => revLabelOk_create hi ho) (fun o ho => by simp [Spec.revLabelOk, ho])
  · exact guard_dom i _ fun hi => all_steps_of_create hinv _ (fun o ho => ownerOk_create hi ho) (fun o ho => by simp [Spec.ownerOk, ho])
  · exact guard_dom i _ fun hi => all_steps_of_create hinv _ (fun o ho => volumesOk_create hi ho) (fun o ho => by simp [Spec.volumesOk, ho])
  · exact guard_dom i _ fun hi => claimsFirst_allLog hi obs [] hinv
  · simp only [Spec.claimLabelsOk, List.all_eq_true]
    intro e he
    obtain ⟨o, ho, heo⟩ := mem_allLog he
    exact ((hinv o ho).entries e heo).1
  · simp only [List.all_eq_true]
    intro o ho
    rcases hinv o ho with hc | ⟨hs, -⟩
    · exact claimFailOk_create hc
    · have : (o.step == Step.C) = false := by simpa using hs
      simp [Spec.claimFailOk, this]
  · simp only [Spec.pvcWritesOk, List.all_eq_true]
    intro e he
    obtain ⟨o, ho, heo⟩ := mem_allLog he
    exact ((hinv o ho).entries e heo).2
  · exact guard_dom i _ fun _ => sameClaims_run obs hinv

end Asts.PodControl
