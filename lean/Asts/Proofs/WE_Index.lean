import Mathlib.Tactic
import Asts.Proofs.WE_Traj

/-! # WE — indexing into the observation of a model history

`observeHist (runHistory …)` round `k` is `histRoundAt … k`; what the monitors read at position `k` (the round, the previous
round, the spec state `specAt`) in terms of the worlds of the trajectory. -/
namespace Asts.WE
open Asts

def obs1 (r : HistRound) : HRound :=
  { edits := r.edits, spec := if r.edits.isEmpty then none else some (specOfWorld r.world), obs := r.obs }

theorem observeHist_eq (hs : List HistRound) : observeHist hs = hs.map obs1 := rfl

theorem observeHist_length (hs : List HistRound) : (observeHist hs).length = hs.length := by
  rw [observeHist_eq, List.length_map]

theorem observeHist_get (hs : List HistRound) (k : Nat) : (observeHist hs)[k]? = (hs[k]?).map obs1 := by
  rw [observeHist_eq, List.getElem?_map]

/-! ## `specAt`, step by step -/

theorem specAt_zero (i0 : SyncIn) (rs : List HRound) :
    specAt i0 rs 0 = match rs[0]? with | some r => r.spec.getD (specOfWorld i0) | none => specOfWorld i0 := by
  unfold specAt
  cases rs with
  | nil => rfl
  | cons r rest =>
    simp only [List.take_succ_cons, List.take_zero, List.getElem?_cons_zero]
    cases hs : r.spec <;> simp [List.filterMap_cons, hs]

theorem specAt_succ (i0 : SyncIn) (rs : List HRound) (k : Nat) :
    specAt i0 rs (k + 1) = match rs[k + 1]? with | some r => r.spec.getD (specAt i0 rs k) | none => specAt i0 rs k := by
  unfold specAt
  rw [List.take_succ (i := k + 1)]
  cases hr : rs[k + 1]? with
  | none => simp
  | some r =>
    simp only [Option.toList_some, List.filterMap_append]
    cases hs : r.spec with
    | none => simp [List.filterMap_cons, hs]
    | some s => simp [List.filterMap_cons, hs]

/-- the fields of the spec state no round changes -/
def CoreEq (s : SpecState) (w : SyncIn) : Prop :=
  s.paused = w.paused ∧ s.template = w.template ∧ s.replicas = w.view.replicas ∧ s.slots = w.view.slots ∧ s.ru = w.view.ru

theorem coreEq_specOfWorld (w : SyncIn) : CoreEq (specOfWorld w) w := ⟨rfl, rfl, rfl, rfl, rfl⟩

theorem coreEq_round {s : SpecState} {w : SyncIn} (hc : CoreEq s w) (h : Hashing) (p : List Fault) : CoreEq s (round h w p).1 := hc

/-! ## the rounds of a model history -/

section
variable (h : Hashing) (script : Script) (plan : List Fault) (i : SyncIn)

/-- world of round `k` (after its edits) -/
abbrev wAt (k : Nat) : SyncIn := (histRoundAt h script 1 plan i k).world

theorem wAt_zero : wAt h script plan i 0 = applyEdits (editsAt script 1) i := rfl

theorem wAt_succ (k : Nat) :
    wAt h script plan i (k + 1) =
      applyEdits (editsAt script (1 + (k + 1))) (round h (wAt h script plan i k) (planAt plan k)).1 := rfl

theorem obsAt (k : Nat) : (histRoundAt h script 1 plan i k).obs = (round h (wAt h script plan i k) (planAt plan k)).2 := rfl

theorem editsAt_hist (k : Nat) : (histRoundAt h script 1 plan i k).edits = editsAt script (1 + k) := rfl

/-- every position of the model's observation is the round of the trajectory -/
theorem hist_get (fuel k : Nat) (x : HistRound) (hx : (runHistory h script fuel 1 0 i plan)[k]? = some x) :
    x = histRoundAt h script 1 plan i k := runHistory_get h script fuel 1 0 i plan k x hx

theorem applyEdits_nonempty_spec (es : List Edit) : es.isEmpty = false → es ≠ [] := by
  intro h1 h2; rw [h2] at h1; simp at h1

/-- `specAt` on the model's observation agrees with the world of the round on the fields no round changes, and is exactly
    the spec state of that world in a round with edits -/
theorem specAt_hist (fuel : Nat) : ∀ k, k < (runHistory h script fuel 1 0 i plan).length →
    CoreEq (specAt i (observeHist (runHistory h script fuel 1 0 i plan)) k) (wAt h script plan i k) ∧
    ((histRoundAt h script 1 plan i k).edits.isEmpty = false →
      specAt i (observeHist (runHistory h script fuel 1 0 i plan)) k = specOfWorld (wAt h script plan i k))
  | 0, hk => by
    have hx : (runHistory h script fuel 1 0 i plan)[0]? = some (runHistory h script fuel 1 0 i plan)[0] := List.getElem?_eq_getElem hk
    have hx' := hist_get h script plan i fuel 0 _ hx
    rw [specAt_zero, observeHist_get, hx, hx']
    simp only [Option.map_some, obs1]
    by_cases he : (histRoundAt h script 1 plan i 0).edits.isEmpty = true
    · simp only [he, if_true, Option.getD_none]
      refine ⟨?_, fun hne => absurd hne (by decide)⟩
      have : (histRoundAt h script 1 plan i 0).edits = [] := List.isEmpty_iff.mp he
      have hw : wAt h script plan i 0 = i := by
        show applyEdits (histRoundAt h script 1 plan i 0).edits i = i
        rw [this]; rfl
      rw [hw]; exact coreEq_specOfWorld i
    · simp only [he, Bool.false_eq_true, if_false, Option.getD_some]
      exact ⟨coreEq_specOfWorld _, by simp⟩
  | k + 1, hk => by
    have hx : (runHistory h script fuel 1 0 i plan)[k + 1]? = some (runHistory h script fuel 1 0 i plan)[k + 1] := List.getElem?_eq_getElem hk
    have hx' := hist_get h script plan i fuel (k + 1) _ hx
    obtain ⟨ih, _⟩ := specAt_hist fuel k (by omega)
    rw [specAt_succ, observeHist_get, hx, hx']
    simp only [Option.map_some, obs1]
    by_cases he : (histRoundAt h script 1 plan i (k + 1)).edits.isEmpty = true
    · simp only [he, if_true, Option.getD_none]
      refine ⟨?_, fun hne => absurd hne (by decide)⟩
      have : (histRoundAt h script 1 plan i (k + 1)).edits = [] := List.isEmpty_iff.mp he
      have hw : wAt h script plan i (k + 1) = (round h (wAt h script plan i k) (planAt plan k)).1 := by
        show applyEdits (histRoundAt h script 1 plan i (k + 1)).edits _ = _
        rw [this]; rfl
      rw [hw]; exact coreEq_round ih h _
    · simp only [he, Bool.false_eq_true, if_false, Option.getD_some]
      exact ⟨coreEq_specOfWorld _, by simp⟩

end

end Asts.WE
