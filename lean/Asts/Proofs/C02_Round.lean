import Asts.Proofs.C02_SyncAny
import Asts.Proofs.L1_a_Final

/-! C02 / C09: a round (any fault plan) followed by the fairness step keeps a world inside the premises. -/
namespace Asts.C02p
open Asts Asts.L1c

/-- the per-pod clause of `wfWorld` without "the object carries a phase" (a pod created in this round has none yet) -/
def wfPod0 (i : SyncIn) (c : CPod) : Bool :=
  if c.member then
    c.name == canonicalName i.setName c.pod.ord && 0 ≤ c.pod.ord && c.selMatch && c.owner != .other &&
    (i.view.parallel || !((c.pod.failed || c.pod.succeeded) && !(desired (replicasOf i.view) i.view.slots).contains c.pod.ord))
  else true

theorem wfPod0_of_wfPod {i : SyncIn} {c : CPod} (h : wfPod i c = true) : wfPod0 i c = true := by
  unfold wfPod at h; unfold wfPod0
  split_ifs at h ⊢ with hm
  · simp only [Bool.and_eq_true] at h ⊢
    obtain ⟨⟨⟨⟨⟨a1, a2⟩, a3⟩, a4⟩, -⟩, a6⟩ := h
    exact ⟨⟨⟨⟨a1, a2⟩, a3⟩, a4⟩, a6⟩
  · rfl

theorem wfPod0_key (i : SyncIn) (c : CPod) : wfPod0 i (key c) = wfPod0 i c := rfl

theorem wfPod_settleOne_of_wfPod0 (i : SyncIn) (c : CPod) (hc : wfPod0 i c = true) : wfPod i (settleOne c) = true := by
  unfold settleOne
  by_cases hfs : (c.pod.failed || c.pod.succeeded) = true
  · simp only [hfs, if_true]
    unfold wfPod0 at hc; unfold wfPod
    split_ifs at hc ⊢ with hm
    · simp only [Bool.and_eq_true] at hc ⊢
      obtain ⟨⟨⟨⟨a1, a2⟩, a3⟩, a4⟩, a6⟩ := hc
      refine ⟨⟨⟨⟨⟨a1, a2⟩, a3⟩, a4⟩, ?_⟩, a6⟩
      simp only [Bool.or_eq_true, Pod.failed, Pod.succeeded, beq_iff_eq] at hfs
      rcases hfs with h | h <;> simp [Pod.created, h]
    · simp
  · simp only [hfs, Bool.false_eq_true, if_false]
    unfold wfPod0 at hc; unfold wfPod
    by_cases hm : c.member = true
    · simp only [hm, if_true, Bool.and_eq_true] at hc ⊢
      obtain ⟨⟨⟨⟨a1, a2⟩, a3⟩, a4⟩, -⟩ := hc
      refine ⟨⟨⟨⟨⟨a1, a2⟩, a3⟩, a4⟩, ?_⟩, ?_⟩
      · simp [Pod.created]
      · simp [Pod.failed, Pod.succeeded]
    · simp only [hm, Bool.false_eq_true, if_false]
      simp

/-! ### the pod list through `applyPatches` and `applyActs` -/

theorem setPod_all {P : CPod → Prop} {pods : List CPod} (p : CPod → Bool) (f : CPod → CPod)
    (hP : ∀ c ∈ pods, P c) (hf : ∀ c, P c → P (f c)) : ∀ c ∈ setPod pods p f, P c := by
  intro c hc
  unfold setPod at hc
  rw [List.mem_map] at hc
  obtain ⟨c0, hc0, rfl⟩ := hc
  split_ifs
  · exact hf c0 (hP c0 hc0)
  · exact hP c0 hc0

theorem wfPod0_owner (i : SyncIn) (c : CPod) (o : Owner) (ho : o ≠ .other) (hc : wfPod0 i c = true) :
    wfPod0 i { c with owner := o } = true := by
  unfold wfPod0 at hc ⊢
  split_ifs at hc ⊢ with hm
  · simp only [Bool.and_eq_true] at hc ⊢
    obtain ⟨⟨⟨⟨a1, a2⟩, a3⟩, -⟩, a6⟩ := hc
    exact ⟨⟨⟨⟨a1, a2⟩, a3⟩, by simpa using ho⟩, a6⟩
  · rfl

theorem wfPod0_owner_ne {i : SyncIn} {c : CPod} (hm : c.member = true) (hc : wfPod0 i c = true) : c.owner ≠ .other := by
  unfold wfPod0 at hc
  simp only [hm, if_true, Bool.and_eq_true] at hc
  simpa using hc.1.2

theorem applyPatches_go_wf (i : SyncIn) (plan : List Fault) (seen log : List String) (pods : List CPod)
    (hP : ∀ c ∈ pods, wfPod0 i c = true) : ∀ c ∈ applyPatches.go plan seen log pods, wfPod0 i c = true := by
  induction log generalizing seen pods with
  | nil => exact hP
  | cons e rest ih =>
    unfold applyPatches.go
    apply ih
    split
    · split_ifs
      · exact hP
      · apply setPod_all _ _ hP
        intro c hc
        split
        · exact wfPod0_owner i c .self (by simp) hc
        · exact wfPod0_owner i c .none (by simp) hc
        · exact hc
    · exact hP

theorem wfPod0_term (i : SyncIn) (c : CPod) (hc : wfPod0 i c = true) :
    wfPod0 i { c with pod := { c.pod with terminating := true } } = true := hc

theorem applyActs_wf (i : SyncIn) (orig : List CPod) (acts : List Action) (pods : List CPod)
    (hP : ∀ c ∈ pods, wfPod0 i c = true) (hcreate : ∀ o rev, Action.create o rev ∈ acts → 0 ≤ o) :
    ∀ c ∈ applyActs i.setName orig pods acts, wfPod0 i c = true := by
  induction acts generalizing pods with
  | nil => exact hP
  | cons a rest ih =>
    have hrest : ∀ o rev, Action.create o rev ∈ rest → 0 ≤ o := fun o rev h => hcreate o rev (List.mem_cons_of_mem _ h)
    cases a with
    | create o rev =>
      unfold applyActs
      apply ih _ _ hrest
      intro c hc
      rw [List.mem_append, List.mem_singleton] at hc
      rcases hc with hc | rfl
      · exact hP c hc
      · have := hcreate o rev List.mem_cons_self
        simp [wfPod0, this, Pod.failed, Pod.succeeded]
    | delete o id w =>
      unfold applyActs
      apply ih _ _ hrest
      apply setPod_all
      · intro c hc; exact hP c (List.mem_of_mem_filter hc)
      · intro c hc; exact wfPod0_term i c hc
    | update o =>
      unfold applyActs
      apply ih _ _ hrest
      apply setPod_all _ _ hP
      intro c hc
      by_cases hm : c.member = true
      · have hne := wfPod0_owner_ne hm hc
        have : wfPod0 i { c with owner := (if ((orig.find? (·.name == canonicalName i.setName o)).any (·.owner == .none)) then .none else c.owner) } = true := by
          apply wfPod0_owner _ _ _ _ hc
          split_ifs
          · simp
          · exact hne
        exact this
      · unfold wfPod0; simp [hm]

/-! ### the revision clause, in its inductive form -/

/-- no revision the listing cannot see sits on ANY name the controller may still probe (`wfWorld` asks this of the next
    eight probes only, which is not inductive: the collision count can move) -/
def RevProbeFree (h : Hashing) (i : SyncIn) : Prop :=
  ∀ r ∈ i.store, visB r = true ∨ ∀ k : Nat, h.nameOf i.template (i.collisionCount.getD 0 + k) ≠ r.name

theorem wfRev_of_probeFree {h : Hashing} {i : SyncIn} (hp : RevProbeFree h i) : ∀ r ∈ i.store, wfRev h i r = true := by
  intro r hr
  unfold wfRev
  rcases hp r hr with hv | hk
  · unfold visB at hv; rw [hv]; rfl
  · simp only [Bool.or_eq_true, List.all_eq_true, List.mem_range, bne_iff_ne, ne_eq]
    right
    intro k _
    exact hk k

theorem creates_nonneg (v : SetView) (cur upd : String) (pods : List Pod) (f : Faults) {o : Int} {rev : String}
    (h : Action.create o rev ∈ (updateStatefulSet v cur upd pods f).1.acts) : 0 ≤ o :=
  (desired_isDesired (replicasOf v) v.slots).nonneg o (creates_only_desired_prop v cur upd pods f h)

/-- **a round keeps the world inside the premises** (any fault plan; the state is looked at after the next fairness step,
    when the pods created in the round have been admitted) -/
theorem wf_round (h : Hashing) (i : SyncIn) (plan : List Fault) (hw : wfWorld h i = true) (hp : RevProbeFree h i) :
    wfWorld h (settle (round h i plan).1) = true ∧ RevProbeFree h (settle (round h i plan).1) := by
  have hwj := wfWorld_settle h i hw
  have hok := syncF_ok h (settle i) plan
  rw [round_fst]
  set j := settle i with hj
  set o := syncF h j plan with ho
  have hpj : RevProbeFree h j := hp
  -- the revision clause
  have hprobe : RevProbeFree h (settle (applySync j plan o)) := by
    intro r' hr'
    have hr'' : r' ∈ o.store := hr'
    rcases hok.store r' hr'' with hv | ⟨r, hr, hvr, hn⟩
    · exact Or.inl hv
    · right
      rcases hpj r hr with hv | hk
      · rw [hvr] at hv; cases hv
      · intro k
        rw [← hn]
        show h.nameOf j.template ((if o.status.isSome then o.cc else j.collisionCount).getD 0 + k) ≠ r.name
        split_ifs with hs
        · obtain ⟨c, hc, hle⟩ := hok.cc hs
          rw [hc]
          have : (some c).getD 0 + (k : Int) = j.collisionCount.getD 0 + ((c - j.collisionCount.getD 0).toNat + k : Nat) := by
            simp only [Option.getD_some, Nat.cast_add]
            omega
          rw [this]
          exact hk _
        · exact hk k
  refine ⟨?_, hprobe⟩
  rw [wfWorld_iff] at hwj ⊢
  obtain ⟨h1, -, h3⟩ := hwj
  refine ⟨?_, wfRev_of_probeFree hprobe, ?_⟩
  · unfold wfSpec at h1 ⊢
    simp only [Bool.and_eq_true, Bool.not_eq_true'] at h1 ⊢
    obtain ⟨⟨⟨⟨⟨⟨⟨⟨⟨⟨a1, a2⟩, a3⟩, -⟩, -⟩, -⟩, a7⟩, a8⟩, a9⟩, a10⟩, a11⟩ := h1
    exact ⟨⟨⟨⟨⟨⟨⟨⟨⟨⟨a1, a2⟩, a3⟩, rfl⟩, rfl⟩, a3⟩, a7⟩, a8⟩, a9⟩, a10⟩, a11⟩
  · intro c hc
    change wfPod j c = true
    rw [settle_pods] at hc
    obtain ⟨c1, hc1, hk⟩ := mem_reindex_sort hc
    rw [List.mem_map] at hc1
    obtain ⟨c0, hc0, rfl⟩ := hc1
    rw [List.mem_filter] at hc0
    have hc0' : c0 ∈ reindex (sortPods (applyActs j.setName j.pods (applyPatches plan o.log j.pods) (o.acts.take o.actsDone))) := hc0.1
    obtain ⟨c00, hc00, hk0⟩ := mem_reindex_sort hc0'
    have hwf00 : wfPod0 j c00 = true := by
      apply applyActs_wf j j.pods _ _ _ _ c00 hc00
      · exact applyPatches_go_wf j plan [] o.log j.pods (fun c hc => wfPod0_of_wfPod (h3 c hc))
      · intro ord rev hmem
        obtain ⟨cur, upd, pods, f, hin⟩ := hok.acts _ (List.mem_of_mem_take hmem)
        exact creates_nonneg _ _ _ _ _ hin
    have hwf0 : wfPod0 j c0 = true := by rw [← wfPod0_key, ← hk0, wfPod0_key]; exact hwf00
    have := wfPod_settleOne_of_wfPod0 j c0 hwf0
    rw [← wfPod_key, hk, wfPod_key] at this
    exact this

end Asts.C02p
