import Asts.Model.Patch
import Asts.Spec.Patch
import Mathlib.Tactic
/-! # Proofs about `Model/Patch`: `getPatch` reads only `spec.template`, is injective in it, and the replace patch restores it -/
namespace Asts.Patch

/-! ## association lists -/

theorem lookup_setKey_ne {k k' : String} (v : Json) (o : Obj) (h : k' ≠ k) : lookup k' (setKey k v o) = lookup k' o := by
  induction o with
  | nil => simp [setKey, lookup, Ne.symm h]
  | cons p rest ih =>
    obtain ⟨k0, v0⟩ := p
    by_cases h0 : k0 = k
    · subst h0; simp [setKey, lookup, Ne.symm h]
    · simp only [setKey, h0, if_false, lookup, ih]

theorem lookup_setKey_self (k : String) (v : Json) (o : Obj) : lookup k (setKey k v o) = some v := by
  induction o with
  | nil => simp [setKey, lookup]
  | cons p rest ih =>
    obtain ⟨k0, v0⟩ := p
    by_cases h0 : k0 = k
    · simp [setKey, lookup, h0]
    · simp only [setKey, h0, if_false, lookup, ih]

theorem lookup_eraseKey_ne {k k' : String} (o : Obj) (h : k' ≠ k) : lookup k' (eraseKey k o) = lookup k' o := by
  induction o with
  | nil => simp [eraseKey, lookup]
  | cons p rest ih =>
    obtain ⟨k0, v0⟩ := p
    by_cases h0 : k0 = k
    · subst h0; simp [eraseKey, lookup, ih, Ne.symm h]
    · simp only [eraseKey, h0, if_false, lookup, ih]

theorem lookup_insertKey_self (k : String) (v : Json) (o : Obj) : lookup k (insertKey k v o) = some v := by
  induction o with
  | nil => simp [insertKey, lookup]
  | cons p rest ih =>
    obtain ⟨k0, v0⟩ := p
    unfold insertKey
    by_cases h1 : k < k0
    · simp [h1, lookup]
    · by_cases h2 : k = k0
      · simp [h2, lookup]
      · simp [h1, h2, lookup, Ne.symm h2, ih]

theorem eraseKey_of_not_hasKey (k : String) (o : Obj) (h : hasKey k o = false) : eraseKey k o = o := by
  induction o with
  | nil => rfl
  | cons p rest ih =>
    obtain ⟨k0, v0⟩ := p
    by_cases h0 : k0 = k
    · simp [hasKey, h0] at h
    · simp only [hasKey, h0, if_false] at h
      simp only [eraseKey, h0, if_false, ih h]

/-- adding the directive to a template that has none and removing it again gives the template back -/
theorem eraseKey_insertKey (k : String) (v : Json) (o : Obj) (h : hasKey k o = false) : eraseKey k (insertKey k v o) = o := by
  induction o with
  | nil => simp [insertKey, eraseKey]
  | cons p rest ih =>
    obtain ⟨k0, v0⟩ := p
    have h0 : k0 ≠ k := by intro e; simp [hasKey, e] at h
    have hr : hasKey k rest = false := by simpa [hasKey, h0] using h
    unfold insertKey
    by_cases h1 : k < k0
    · simp [h1, eraseKey, h0, eraseKey_of_not_hasKey k rest hr]
    · have h2 : ¬ k = k0 := fun e => h0 e.symm
      simp [h1, h2, eraseKey, h0, ih hr]

theorem insertKey_injective (k : String) (v : Json) (o₁ o₂ : Obj) (h₁ : hasKey k o₁ = false) (h₂ : hasKey k o₂ = false)
    (h : insertKey k v o₁ = insertKey k v o₂) : o₁ = o₂ := by
  have := congrArg (eraseKey k) h
  rwa [eraseKey_insertKey k v o₁ h₁, eraseKey_insertKey k v o₂ h₂] at this

/-! ## `getPatch` -/

theorem getPatch_congr (s₁ s₂ : Json) (h : template? s₁ = template? s₂) : getPatch s₁ = getPatch s₂ := by
  simp [getPatch, h]

theorem getPatch_eq_some (s : Json) (t : Obj) (h : template? s = some t) : getPatch s = some (patchOf t) := by
  simp [getPatch, h]

theorem getPatch_isSome_iff (s : Json) : (getPatch s).isSome = (template? s).isSome := by
  unfold getPatch; cases template? s <;> rfl

/-- an edit of a top-level member other than `spec` (metadata — labels, annotations incl. delete-slots and pause, generation, resourceVersion,
    finalizers, owners, timestamps —, status, kind, apiVersion) leaves the template the patch reads unchanged -/
theorem template_setTop (k : String) (v : Json) (top : Obj) (hk : k ≠ "spec") :
    template? (.obj (setKey k v top)) = template? (.obj top) := by
  simp only [template?, lookup_setKey_ne v top (Ne.symm hk)]

theorem template_eraseTop (k : String) (top : Obj) (hk : k ≠ "spec") :
    template? (.obj (eraseKey k top)) = template? (.obj top) := by
  simp only [template?, lookup_eraseKey_ne top (Ne.symm hk)]

/-- an edit of a member of `spec` other than `template` (replicas, serviceName, selector, updateStrategy, podManagementPolicy,
    revisionHistoryLimit, volumeClaimTemplates) leaves the template the patch reads unchanged -/
theorem template_setSpec (k : String) (v : Json) (top spec : Obj) (hk : k ≠ "template") (hs : lookup "spec" top = some (.obj spec)) :
    template? (.obj (setKey "spec" (.obj (setKey k v spec)) top)) = template? (.obj top) := by
  simp only [template?, lookup_setKey_self, hs, lookup_setKey_ne v spec (Ne.symm hk)]

theorem template_eraseSpec (k : String) (top spec : Obj) (hk : k ≠ "template") (hs : lookup "spec" top = some (.obj spec)) :
    template? (.obj (setKey "spec" (.obj (eraseKey k spec)) top)) = template? (.obj top) := by
  simp only [template?, lookup_setKey_self, hs, lookup_eraseKey_ne spec (Ne.symm hk)]

theorem patchOf_injective (t₁ t₂ : Obj) (h₁ : hasKey directiveKey t₁ = false) (h₂ : hasKey directiveKey t₂ = false)
    (h : patchOf t₁ = patchOf t₂) : t₁ = t₂ := by
  simp only [patchOf, Json.obj.injEq, List.cons.injEq, Prod.mk.injEq, and_true, true_and] at h
  exact insertKey_injective _ _ _ _ h₁ h₂ h

/-! ## `applyReplacePatch` -/

theorem patchTemplate_patchOf (t : Obj) : patchTemplate? (patchOf t) = some (insertKey directiveKey (.str "replace") t) := by
  simp [patchTemplate?, patchOf]

theorem applyReplacePatch_patchOf (top spec t : Obj) (hs : lookup "spec" top = some (.obj spec)) (ht : hasKey directiveKey t = false) :
    applyReplacePatch (.obj top) (patchOf t) = some (.obj (setKey "spec" (.obj (setKey "template" (.obj t) spec)) top)) := by
  simp only [applyReplacePatch, patchTemplate_patchOf, lookup_insertKey_self, hs, if_true, eraseKey_insertKey _ _ _ ht]

theorem template_after_apply (top spec t : Obj) :
    template? (.obj (setKey "spec" (.obj (setKey "template" (.obj t) spec)) top)) = some t := by
  simp only [template?, lookup_setKey_self]

end Asts.Patch

namespace Asts.Patch

/-- top-level members other than `spec` are untouched by the restore -/
theorem member_after_apply_top (k : String) (top spec t : Obj) (hk : k ≠ "spec") :
    lookup k (setKey "spec" (.obj (setKey "template" (.obj t) spec)) top) = lookup k top :=
  lookup_setKey_ne _ top hk

/-- members of `spec` other than `template` are untouched by the restore -/
theorem member_after_apply_spec (k : String) (spec t : Obj) (hk : k ≠ "template") :
    lookup k (setKey "template" (.obj t) spec) = lookup k spec :=
  lookup_setKey_ne _ spec hk

/-- the C18 reduction at byte level: the patch bytes are a function of the `spec.template` subtree of the unmarshalled encoding alone -/
theorem getPatchBytes_congr (esc : List Char → List Char) (encA encB : List Char) (a b : Json)
    (ha : parse encA = some a) (hb : parse encB = some b) (h : template? (canon a) = template? (canon b)) :
    getPatchBytes esc encA = getPatchBytes esc encB := by
  simp [getPatchBytes, ha, hb, getPatch_congr _ _ h]

end Asts.Patch

/-! ## the monitors of `Spec/Patch` are true on the model -/
namespace Asts.Patch
open Spec

theorem sameTree_refl (a : Json) : sameTree a a = true := by simp [sameTree]

theorem templateOf_of_template (raw : Json) (t : Obj) (h : template? raw = some t) : templateOf raw = some (.obj t) := by
  unfold template? at h
  split at h
  · rename_i top
    split at h
    · rename_i spec hs
      split at h
      · rename_i t' ht
        simp only [Option.some.injEq] at h
        subst h
        simp [templateOf, member, hs, ht]
      · simp at h
    · simp at h
  · simp at h

theorem eraseKey_setKey (k : String) (v : Json) (o : Obj) (h : hasKey k o = true) : eraseKey k (setKey k v o) = eraseKey k o := by
  induction o with
  | nil => simp [hasKey] at h
  | cons p rest ih =>
    obtain ⟨k0, v0⟩ := p
    by_cases h0 : k0 = k
    · simp [setKey, eraseKey, h0]
    · simp only [hasKey, h0, if_false] at h
      simp only [setKey, h0, if_false, eraseKey, ih h]

theorem hasKey_of_lookup (k : String) (o : Obj) (v : Json) (h : lookup k o = some v) : hasKey k o = true := by
  induction o with
  | nil => simp [lookup] at h
  | cons p rest ih =>
    obtain ⟨k0, v0⟩ := p
    by_cases h0 : k0 = k
    · simp [hasKey, h0]
    · simp only [lookup, h0, if_false] at h
      simp only [hasKey, h0, if_false, ih h]

/-- C08.data on the model: the data `getPatch` records for a set passes the monitor, for every set whose template has no `$patch` member -/
theorem recordsTemplate_model (raw : Json) (t : Obj) (h : template? raw = some t) (hd : hasKey directiveKey t = false) :
    recordsTemplate raw (patchOf t) = true := by
  have hl : lookup "$patch" (insertKey "$patch" (.str "replace") t) = some (.str "replace") := lookup_insertKey_self _ _ _
  have he : eraseKey "$patch" (insertKey "$patch" (.str "replace") t) = t := eraseKey_insertKey _ _ _ hd
  simp [recordsTemplate, patchOf, templateOf_of_template raw t h, directiveKey, hl, he, sameTree_refl]

/-- C08.restore on the model: the result of applying the data recorded for `a` to any set `b` passes the monitor -/
theorem restores_model (a : Json) (ta topb specb : Obj) (ha : template? a = some ta) (hd : hasKey directiveKey ta = false)
    (hs : lookup "spec" topb = some (.obj specb)) (ht : hasKey "template" specb = true) :
    ∃ r, applyReplacePatch (.obj topb) (patchOf ta) = some r ∧ restores a (.obj topb) r = true := by
  refine ⟨_, applyReplacePatch_patchOf topb specb ta hs hd, ?_⟩
  have h1 := templateOf_of_template _ ta (template_after_apply topb specb ta)
  have h2 := templateOf_of_template a ta ha
  have e1 : eraseKey "spec" (setKey "spec" (.obj (setKey "template" (.obj ta) specb)) topb) = eraseKey "spec" topb :=
    eraseKey_setKey _ _ _ (hasKey_of_lookup _ _ _ hs)
  have e2 : eraseKey "template" (setKey "template" (.obj ta) specb) = eraseKey "template" specb := eraseKey_setKey _ _ _ ht
  simp [restores, h1, h2, sameTree_refl, dropTemplate, lookup_setKey_self, hs, e1, e2]

end Asts.Patch
