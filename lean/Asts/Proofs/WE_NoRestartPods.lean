import Mathlib.Tactic
import Asts.Proofs.WE_InvPick
import Asts.Proofs.GL_Sync
import Asts.Proofs.GL_World
import Asts.Proofs.C02_BOwn
import Asts.Proofs.C02_Acts
import Asts.Props.C03

/-! # WE — C08.norestart, the pods half, one round at a time

From a pinned world, the round that follows any batch of edits other than a template edit deletes no pod of the desired set
that the set controls, is live and carries the revision `status.updateRevision` names. -/
namespace Asts.WE
open Asts Asts.SYb

/-- a sync recorded no action, or it resolved its revisions (`pickF` on the listing of the adopted store) and reports the
    update revision that resolution returned -/
theorem sync_acts_upd (h : Hashing) (i : SyncIn) (plan : List Fault) :
    (syncF h i plan).acts = [] ∨
    ∃ (s : RevSt) (upd : Rev) (cc : Int) (sG : RevSt), s.store = adoptedStore plan i ∧
      pickF h plan i.template (i.collisionCount.getD 0) (syncListing plan i) s = (sG, some (upd, cc)) ∧
      (syncF h i plan).upd = upd.name := by
  rw [SYa.syncF_eq]
  by_cases hrun : (i.paused || !i.selectorOk) = true
  · rw [if_pos hrun]; exact Or.inl rfl
  · rw [if_neg hrun]
    have hAst : adoptedStore plan i = (adoptOrphanRevisionsF plan i.view.deleting i.fresh { store := i.store }).1.store := rfl
    generalize hA : adoptOrphanRevisionsF plan i.view.deleting i.fresh { store := i.store } = A at hAst
    obtain ⟨s, out⟩ := A
    cases out with
    | ok =>
      simp only
      unfold SYa.afterClaimF
      split_ifs
      · exact Or.inl rfl
      · generalize hsc : ({ s with tr := (claimPodsF plan i.view.deleting i.fresh i.pods s.tr).tr } : RevSt) = sc
        have hscs : sc.store = adoptedStore plan i := by rw [← hsc, hAst]
        cases hL : listRevsF plan sc with
        | mk sL lo =>
          cases lo with
          | none => exact Or.inl rfl
          | some listed =>
            simp only
            have hlisted : listed = listRevisions sc.store := listRevsF_some (by rw [hL])
            have hsLs : sL.store = sc.store := by
              have := listRevsF_store plan sc; rw [hL] at this; exact this
            have hlisting : sortRevs listed = syncListing plan i := by
              unfold syncListing; rw [hlisted, hscs]
            cases hG : getRevisionsF h plan i.template i.stored.currentRev (i.collisionCount.getD 0) (sortRevs listed) sL with
            | mk sG' ro =>
              cases ro with
              | none => exact Or.inl rfl
              | some t =>
                obtain ⟨cur, upd, cc⟩ := t
                simp only
                right
                rw [getRevisionsF_eq] at hG
                simp only [Prod.mk.injEq] at hG
                obtain ⟨hG1, hG2⟩ := hG
                cases hp : (pickF h plan i.template (i.collisionCount.getD 0) (sortRevs listed) sL).2 with
                | none => rw [hp] at hG2; simp at hG2
                | some pr =>
                  rw [hp] at hG2
                  simp only [Option.map_some, Option.some.injEq, Prod.mk.injEq] at hG2
                  refine ⟨sL, upd, cc, sG', by rw [hsLs, hscs], ?_, ?_⟩
                  · rw [← hlisting]
                    apply Prod.ext
                    · exact hG1
                    · rw [hp]
                      obtain ⟨_, h2, h3⟩ := hG2
                      simp only
                      rw [← h2, ← h3]
                  · exact (GL.finishCore_fields i plan _ _ cur upd cc sG' _ _ _).2.1
    | err => exact Or.inl rfl
    | panic m => exact Or.inl rfl

theorem applyEdits_pods (es : List Edit) (i : SyncIn) : (applyEdits es i).pods = i.pods := by
  induction es generalizing i with
  | nil => rfl
  | cons e es ih => rw [applyEdits_cons, ih]; exact (applyEdit_frame e i).2.1

theorem applyEdits_setName (es : List Edit) (i : SyncIn) : (applyEdits es i).setName = i.setName := by
  induction es generalizing i with
  | nil => rfl
  | cons e es ih => rw [applyEdits_cons, ih]; exact (applyEdit_frame e i).2.2.2.2.2.2.1

theorem mem_reindexFrom_of_mem {l : List CPod} {x : CPod} (hx : x ∈ l) : ∀ n, ∃ k, C02p.setId x k ∈ C02p.reindexFrom n l := by
  induction l with
  | nil => simp at hx
  | cons a l ih =>
    intro n
    rw [C02p.reindexFrom_cons]
    rcases List.mem_cons.mp hx with rfl | hx'
    · exact ⟨n, List.mem_cons_self⟩
    · obtain ⟨k, hk⟩ := ih hx' (n + 1)
      exact ⟨k, List.mem_cons_of_mem _ hk⟩

/-- what the calls of a sync do to a pod object that no delete addresses: it stays, under its name, not terminating -/
theorem eff_keeps (setName : String) (orig : List CPod) : ∀ (acts : List Action) (q : CPod),
    q.pod.terminating = false → (∀ o id w, Action.delete o id w ∈ acts → id ≠ q.pod.id) →
    ∃ q', C02p.eff setName orig acts q = some q' ∧ q'.name = q.name ∧ q'.pod.terminating = false
  | [], q, ht, _ => ⟨q, rfl, rfl, ht⟩
  | .create o rev :: rest, q, ht, hno => by
    obtain ⟨q', h1, h2, h3⟩ := eff_keeps setName orig rest q ht (fun o id w hm => hno o id w (List.mem_cons_of_mem _ hm))
    exact ⟨q', by unfold C02p.eff; exact h1, h2, h3⟩
  | .delete o id w :: rest, q, ht, hno => by
    have hne : id ≠ q.pod.id := hno o id w List.mem_cons_self
    have hb : (q.pod.id == id) = false := by simpa using fun e => hne e.symm
    have hd : C02p.delStep id q = q := by unfold C02p.delStep; rw [hb]; rfl
    obtain ⟨q', h1, h2, h3⟩ := eff_keeps setName orig rest q ht (fun o id w hm => hno o id w (List.mem_cons_of_mem _ hm))
    refine ⟨q', ?_, h2, h3⟩
    unfold C02p.eff
    rw [hb, hd]
    simpa using h1
  | .update o :: rest, q, ht, hno => by
    have hk : (C02p.updStep setName orig o q).pod.terminating = false ∧ (C02p.updStep setName orig o q).name = q.name ∧
        (C02p.updStep setName orig o q).pod.id = q.pod.id := by
      unfold C02p.updStep; split_ifs <;> exact ⟨ht, rfl, rfl⟩
    obtain ⟨q', h1, h2, h3⟩ := eff_keeps setName orig rest (C02p.updStep setName orig o q) hk.1
      (fun o' id w hm => by rw [hk.2.2]; exact hno o' id w (List.mem_cons_of_mem _ hm))
    exact ⟨q', by unfold C02p.eff; exact h1, h2.trans hk.2.1, h3⟩

end Asts.WE

namespace Asts.WE
open Asts Asts.SYb

theorem own_eq {a b : CPod} (hab : C02p.own a = C02p.own b) : a.name = b.name ∧ a.pod = b.pod := by
  unfold C02p.own at hab
  have h1 := congrArg CPod.name hab
  have h2 := congrArg CPod.pod hab
  exact ⟨h1, h2⟩

/-- **the pods half of C08.norestart on one round** -/
theorem norestart_pods_step {h : Hashing} (hnum : ∀ d c, h.hashNumOf d c = none) (W : SyncIn) (es : List Edit)
    (p : List Fault) (hes : ∀ e ∈ es, keepsTemplate e = true) (hI : Inv W) (hlen : W.pods.length ≤ freshId)
    (c : CPod) (hc : c ∈ W.pods) (hterm : c.pod.terminating = false) (hf : c.pod.failed = false)
    (hs : c.pod.succeeded = false) (hrev : c.pod.rev = W.stored.updateRev)
    (hD : c.pod.ord ∈ desired ((applyEdits es W).view.replicas.getD 0) (applyEdits es W).view.slots) :
    ∃ q ∈ (round h (applyEdits es W) p).1.pods, q.name = c.name ∧ q.pod.terminating = false := by
  have hpods : (applyEdits es W).pods = W.pods := applyEdits_pods es W
  -- the pod in the settled world
  have hfs : (c.pod.failed || c.pod.succeeded) = false := by rw [hf, hs]; rfl
  have hso : C02p.settleOne c = { c with pod := { c.pod with phase := .running, ready := true } } := by
    unfold C02p.settleOne; rw [hfs]; simp
  have hmemM : C02p.settleOne c ∈ ((applyEdits es W).pods.filter (fun c => !c.pod.terminating)).map C02p.settleOne := by
    apply List.mem_map_of_mem
    rw [List.mem_filter, hpods]
    exact ⟨hc, by rw [hterm]; rfl⟩
  have hmemS := (C02p.sortPods_perm _).mem_iff.mpr hmemM
  obtain ⟨k, hk⟩ := mem_reindexFrom_of_mem hmemS 0
  have hc0 : C02p.setId (C02p.settleOne c) k ∈ (settle (applyEdits es W)).pods := by
    rw [C02p.settle_pods, C02p.reindex_eq]; exact hk
  set c0 := C02p.setId (C02p.settleOne c) k with hc0def
  have hc0name : c0.name = c.name := by rw [hc0def, hso]; rfl
  have hc0pod : c0.pod = { c.pod with phase := .running, ready := true, id := k } := by rw [hc0def, hso]; rfl
  have hids := GL.settle_idsOk (applyEdits es W) (by rw [hpods]; exact hlen)
  -- no delete addresses it
  have hnodel : ∀ o' w, Action.delete o' c0.pod.id w ∉ (syncF h (settle (applyEdits es W)) p).acts := by
    intro o' w hmem
    rcases sync_acts_upd h (settle (applyEdits es W)) p with hnil | ⟨s, upd, cc, sG, _, hpick, hupd⟩
    · rw [hnil] at hmem; simp at hmem
    · obtain ⟨l, hl, heq, hname⟩ := inv_pinned hnum hI p
      have hsame : SameRevisionInputs (settle W) (settle (applyEdits es W)) := settle_sameInputs (applyEdits_sameInputs es W hes)
      rw [syncListing_congr hsame p, hsame.template, hsame.cc] at hpick
      rw [(pickF_unchanged h p (settle W).template ((settle W).collisionCount.getD 0) (syncListing p (settle W)) s hl heq).1] at hpick
      simp only [Prod.mk.injEq, Option.some.injEq] at hpick
      have hupdname : (syncF h (settle (applyEdits es W)) p).upd = W.stored.updateRev := by
        rw [hupd, ← hpick.2.1]; exact hname
      rcases GL.syncF_cases h (settle (applyEdits es W)) p with hr | hi
      · rw [hr.acts] at hmem
        unfold GL.syncReconcile at hmem
        rcases C03.C03_prop _ _ _ _ _ hmem with ⟨pd, hpd, hpid, hpord, hwhy⟩ | ⟨_, hid, _⟩
        · unfold GL.syncPods at hpd
          obtain ⟨c', hc', rfl⟩ := List.mem_map.mp hpd
          have hc'S : c' ∈ (settle (applyEdits es W)).pods := hr.sub.subset hc'
          have hpe : c'.pod = c0.pod :=
            (GL.idsOkB_of_idsOk hids).inj _ (List.mem_map_of_mem hc'S) _ (List.mem_map_of_mem hc0) hpid
          rw [hpe, hc0pod] at hwhy hpord
          simp only at hwhy hpord
          rcases hwhy with ⟨_, hnd⟩ | ⟨_, hfl⟩ | ⟨_, _, _, hrv, _⟩
          · apply hnd; rw [← hpord]; exact hD
          · simp only [Pod.failed, Pod.succeeded] at hfl
            rcases hfl with hfl | hfl <;> simp at hfl
          · apply hrv; rw [hupdname]; exact hrev
        · have := hids.small _ (List.mem_map_of_mem hc0)
          omega
      · rw [hi.1] at hmem; simp at hmem
  -- through the patches, the pod-control calls, the re-sort
  have hown := C02p.own_patchGo p [] (syncF h (settle (applyEdits es W)) p).log (settle (applyEdits es W)).pods
  have : C02p.own c0 ∈ ((settle (applyEdits es W)).pods).map C02p.own := List.mem_map_of_mem hc0
  rw [← hown] at this
  obtain ⟨q1, hq1, hq1o⟩ := List.mem_map.mp this
  obtain ⟨hq1n, hq1p⟩ := own_eq hq1o
  have hq1t : q1.pod.terminating = false := by rw [hq1p, hc0pod]; exact hterm
  obtain ⟨q2, he, hq2n, hq2t⟩ := eff_keeps (settle (applyEdits es W)).setName (settle (applyEdits es W)).pods
    ((syncF h (settle (applyEdits es W)) p).acts.take (syncF h (settle (applyEdits es W)) p).actsDone) q1 hq1t
    (by
      intro o' id w hm hid
      rw [hid, hq1p] at hm
      exact hnodel o' w (List.mem_of_mem_take hm))
  have hq2mem : q2 ∈ applyActs (settle (applyEdits es W)).setName (settle (applyEdits es W)).pods
      (applyPatches p (syncF h (settle (applyEdits es W)) p).log (settle (applyEdits es W)).pods)
      ((syncF h (settle (applyEdits es W)) p).acts.take (syncF h (settle (applyEdits es W)) p).actsDone) := by
    rw [C02p.applyActs_eq]
    exact List.mem_append_left _ (List.mem_filterMap.mpr ⟨q1, hq1, he⟩)
  have hq2s := (C02p.sortPods_perm _).mem_iff.mpr hq2mem
  obtain ⟨k', hk'⟩ := mem_reindexFrom_of_mem hq2s 0
  refine ⟨C02p.setId q2 k', ?_, ?_, ?_⟩
  · show C02p.setId q2 k' ∈ reindex (sortPods _)
    rw [C02p.reindex_eq]; exact hk'
  · show q2.name = c.name
    rw [hq2n, hq1n, hc0name]
  · exact hq2t

end Asts.WE
