import Asts.Proofs.GL_Faults
import Asts.Proofs.GL_Lists
import Asts.Proofs.L1_c_C14

/-! # GL — C14 (Parallel burst) for every reconcile that ended `.ok`, whatever its fault list

`Props/C14.lean` is about the fault-free reconcile on pods numbered by position. Inside a sync the reconcile runs on the
claimed pods (a sublist: ids distinct and below `freshId`, not positions) with the fault list `podFaults` builds, which is
rarely empty. Two observations bridge the gap: the lemmas of `L1_c_C14` on deletes only need ids to identify the pods (`L1c.SnapI`, `snapI_of_wf_ids`), and a
reconcile that ended `.ok` hit no fault, hence ran as the fault-free one (`updateStatefulSet_of_ok`). An `.ok` outcome
also excludes the two panics, so the int32 hypotheses of `C14_holds` are not needed. -/
namespace Asts.GL
open Asts Asts.L1c

/-- `prepare` fails only by panicking -/
theorem prepare_error_panic {v : SetView} {cur upd : String} {pods : List Pod} {st : Status} {o : Outcome}
    (hp : prepare v cur upd pods = .error (st, o)) : ∃ site, o = .panic site := by
  unfold prepare at hp
  cases hr : v.replicas with
  | none => rw [hr] at hp; simp only [Except.error.injEq, Prod.mk.injEq] at hp; exact ⟨_, hp.2.symm⟩
  | some r =>
    rw [hr] at hp; simp only at hp
    split_ifs at hp
    simp only [Except.error.injEq, Prod.mk.injEq] at hp; exact ⟨_, hp.2.symm⟩

/-- **C14 for every Parallel reconcile that ended `.ok`** — any fault list, ids identifying the pods. -/
theorem C14_of_ok (v : SetView) (cur upd : String) (pods : List Pod) (f : Faults) (r : Int)
    (hr : v.replicas = some r) (h0 : 0 ≤ r) (hpar : v.parallel = true) (hdel : v.deleting = false)
    (hwf : wfSnapshot pods = true) (hids : IdsOk pods) (hok : (updateStatefulSet v cur upd pods f).2 = .ok) :
    C14 v pods (observe (updateStatefulSet v cur upd pods f).1.acts) = true := by
  have he := updateStatefulSet_of_ok v cur upd pods f hok
  rw [he] at hok ⊢
  have hs : L1c.SnapI pods := L1c.snapI_of_wf_ids hwf (idsOkB_of_idsOk hids).inj hids.small
  unfold updateStatefulSet at hok ⊢
  cases hp : prepare v cur upd pods with
  | error e =>
    obtain ⟨st, o⟩ := e
    obtain ⟨site, rfl⟩ := prepare_error_panic hp
    rw [hp] at hok
    simp at hok
  | ok p =>
    simp only [hdel, Bool.false_eq_true, if_false]
    obtain ⟨_, hreps, hcond, _, _⟩ := L1c.prepare_ok hr hp
    obtain ⟨s, l, h1, h2, h3⟩ := L1c.runLoops_par v cur upd p hpar
    rw [h1]
    simp only [h2]
    rw [hreps, hcond]
    rw [hreps] at h3
    exact L1c.C14_of_acts v cur upd pods r hr h0 hs l h3

end Asts.GL
