import Asts.Proofs.C02_Faults
import Asts.Proofs.C02_Idem
import Asts.Proofs.C02_Trunc

/-! C02: normal worlds (every pod object belongs to the set; revisions quiet) and the exact form of one sync + apply on
    them: status written if it differs, unused history beyond the limit deleted, the reconcile's calls applied. -/
namespace Asts.C02p
open Asts Asts.L1c

/-- the `rollingUpdate` block with a partition is present, or the strategy is OnDelete (not the legacy boundary mode) -/
def PartOk (v : SetView) : Prop := v.strat = .onDelete ∨ ∃ p, v.ru = some (some p) ∧ 0 ≤ p

/-- a normal world, whatever the pod management policy and the update strategy -/
structure NormC (h : Hashing) (i : SyncIn) : Prop where
  spec : SpecOk i
  pods : ∀ c ∈ i.pods, c.owner = .self ∧ c.member = true ∧ c.selMatch = true ∧ c.name = canonicalName i.setName c.pod.ord ∧
    0 ≤ c.pod.ord ∧ c.pod.stOk = true ∧ c.pod.created = true
  ords : (i.pods.map (·.pod.ord)).Nodup
  rev : ∃ l, (listedRevs i).getLast? = some l ∧ equalRev l (freshRev h i (listedRevs i)) = true
  noOrphanRev : (listRevisions i.store).any (·.owner == .none) = false
  small : i.pods.length ≤ freshId
  smallR : (replicasOf i.view).toNat ≤ freshId
  gone : i.fresh.gone = false

/-- pod ids are list positions (what `reindex` establishes) -/
def IdPos (pods : List CPod) : Prop := ∀ (k : Nat) (c : CPod), pods[k]? = some c → c.pod.id = k

theorem reindexFrom_getElem? (n : Nat) (l : List CPod) (k : Nat) (c : CPod) (h : (reindexFrom n l)[k]? = some c) : c.pod.id = n + k := by
  induction l generalizing n k with
  | nil => simp [reindexFrom] at h
  | cons a l ih =>
    rw [reindexFrom_cons] at h
    cases k with
    | zero => simp at h; rw [← h]; rfl
    | succ k =>
      simp only [List.getElem?_cons_succ] at h
      have := ih (n + 1) k h
      omega

theorem reindex_idPos (l : List CPod) : IdPos (reindex l) := by
  intro k c hk
  have := reindexFrom_getElem? 0 l k c hk
  omega

theorem settle_idPos (i : SyncIn) : IdPos (settle i).pods := reindex_idPos _

/-- pod ids are pairwise distinct and below the ids the model gives to new pods (what the proofs need of `IdPos`; it also
    holds of a sublist of a reindexed list) -/
structure IdOk (pods : List CPod) : Prop where
  inj : ∀ a ∈ pods, ∀ b ∈ pods, a.pod.id = b.pod.id → a = b
  lt : ∀ c ∈ pods, c.pod.id < freshId

theorem idOk_of_idPos {pods : List CPod} (hp : IdPos pods) (hl : pods.length ≤ freshId) : IdOk pods := by
  refine ⟨?_, ?_⟩
  · intro a ha b hb hab
    obtain ⟨i, hi⟩ := List.mem_iff_getElem?.1 ha
    obtain ⟨k, hk⟩ := List.mem_iff_getElem?.1 hb
    have h1 := hp i a hi
    have h2 := hp k b hk
    have : i = k := by omega
    subst this
    rw [hi] at hk
    exact Option.some.inj hk
  · intro c hc
    obtain ⟨i, hi⟩ := List.mem_iff_getElem?.1 hc
    have h1 := hp i c hi
    have : i < pods.length := by
      by_contra hge
      rw [List.getElem?_eq_none (by omega)] at hi
      cases hi
    omega

theorem IdOk.sublist {A B : List CPod} (hB : IdOk B) (hs : A.Sublist B) : IdOk A :=
  ⟨fun a ha b hb => hB.inj a (hs.subset ha) b (hs.subset hb), fun c hc => hB.lt c (hs.subset hc)⟩

theorem NormC.ownPods {h : Hashing} {i : SyncIn} (hn : NormC h i) : ownPods i = i.pods := by
  unfold Asts.C02p.ownPods
  rw [List.filter_eq_self]
  intro c hc
  simp [(hn.pods c hc).1]

theorem NormC.noClaimWork {h : Hashing} {i : SyncIn} (hn : NormC h i) : NoClaimWork i.pods := by
  intro c hc
  obtain ⟨h1, h2, h3, -⟩ := hn.pods c hc
  exact ⟨fun _ => by simp [claimDecision, h1, h2, h3], fun hne => absurd h1 hne⟩

theorem NormC.snap {h : Hashing} {i : SyncIn} (hn : NormC h i) (hid : IdPos i.pods) : Snap (i.pods.map (·.pod)) := by
  refine ⟨?_, ?_, ?_, ?_⟩
  · intro p hp
    rw [List.mem_map] at hp
    obtain ⟨c, hc, rfl⟩ := hp
    exact (hn.pods c hc).2.2.2.2.2.2
  · rw [List.map_map]; exact hn.ords
  · intro k p hk
    rw [List.getElem?_map] at hk
    cases hc : i.pods[k]? with
    | none => rw [hc] at hk; cases hk
    | some c =>
      rw [hc] at hk
      simp only [Option.map_some, Option.some.injEq] at hk
      rw [← hk]; exact hid k c hc
  · have := hn.small
    rw [List.length_map]; omega

/-- the update revision the sync of a normal world resolves -/
noncomputable def NormC.updRev {h : Hashing} {i : SyncIn} (hn : NormC h i) : Rev := hn.rev.choose

theorem NormC.updRev_spec {h : Hashing} {i : SyncIn} (hn : NormC h i) :
    (listedRevs i).getLast? = some hn.updRev ∧ equalRev hn.updRev (freshRev h i (listedRevs i)) = true := hn.rev.choose_spec

theorem NormC.updName {h : Hashing} {i : SyncIn} (hn : NormC h i) : updName i = hn.updRev.name := by
  unfold Asts.C02p.updName
  rw [hn.updRev_spec.1]; rfl

/-- the current revision the sync of a normal world resolves -/
noncomputable def NormC.curRev {h : Hashing} {i : SyncIn} (hn : NormC h i) : Rev :=
  ((listedRevs i).find? (·.name == i.stored.currentRev)).getD hn.updRev

/-- the reconcile of a normal world, with the faults that cannot hit -/
noncomputable def NormC.recon {h : Hashing} {i : SyncIn} (hn : NormC h i) : St × Outcome :=
  updateStatefulSet i.view hn.curRev.name hn.updRev.name (i.pods.map (·.pod)) []

/-- the revisions the sync of a normal world deletes as unused history beyond the limit -/
noncomputable def NormC.victims {h : Hashing} {i : SyncIn} (hn : NormC h i) : List Rev :=
  victimsOf (i.historyLimit.getD 0) (i.pods.map (·.pod.rev)) (listedRevs i) hn.curRev hn.updRev

/-- the revisions it keeps -/
noncomputable def NormC.keep {h : Hashing} {i : SyncIn} (hn : NormC h i) (x : Rev) : Bool :=
  !(hn.victims.map (·.name)).contains x.name

theorem actLog_noPatch (setName : String) (pods claimed : List CPod) (b : Int) (E : List Int) (a : Action) :
    ∀ e ∈ actLog setName [] pods claimed b E a, NoPatch e := by
  intro e he
  cases a with
  | create o r => simp only [actLog, List.mem_singleton] at he; rw [he]; exact noPatch_create_pod _
  | delete o id w => simp only [actLog, List.mem_singleton] at he; rw [he]; exact noPatch_delete_pod _
  | update o =>
    simp only [actLog] at he
    rw [List.eq_of_mem_replicate he]; exact noPatch_update_pod _

/-- **one sync + apply on a normal world**: the collision count is untouched, the status is the one the reconcile computed
    (when it differs), unused history beyond the limit is deleted from the store, the pods are the old pods with the
    reconcile's calls applied -/
theorem applySync_normC (h : Hashing) (i : SyncIn) (hn : NormC h i) (hok : hn.recon.2 = .ok) :
    applySync i [] (syncF h i []) =
      { i with
        store := i.store.filter hn.keep,
        stored := (if inconsistentStatus i.stored (completeRollingUpdate i.view hn.recon.1.status)
                   then completeRollingUpdate i.view hn.recon.1.status else i.stored),
        collisionCount := (if inconsistentStatus i.stored (completeRollingUpdate i.view hn.recon.1.status)
                   then some (i.collisionCount.getD 0) else i.collisionCount),
        view := { i.view with stCurrentReplicas :=
                   (if inconsistentStatus i.stored (completeRollingUpdate i.view hn.recon.1.status)
                    then completeRollingUpdate i.view hn.recon.1.status else i.stored).current },
        pods := reindex (sortPods (applyActs i.setName i.pods i.pods hn.recon.1.acts)) } ∧
    (syncF h i []).outcome = .ok := by
  obtain ⟨hl, heq⟩ := hn.updRev_spec
  obtain ⟨lim, hlim, _⟩ := hn.spec.lim
  have hsync := syncF_quietRevs h i hn.spec hn.noOrphanRev hn.noClaimWork hn.updRev hl heq
  rw [hn.ownPods] at hsync
  have hrec : updateStatefulSet i.view hn.curRev.name hn.updRev.name (i.pods.map (·.pod))
      (podFaults i.setName [] i.pods i.pods (maxReplicaAndSlots (i.view.replicas.getD 0) i.view.slots).1
        (maxReplicaAndSlots (i.view.replicas.getD 0) i.view.slots).2) = hn.recon := by
    have hrep : i.view.replicas.getD 0 = replicasOf i.view := rfl
    rw [hrep]
    exact updateStatefulSet_noHit _ _ _ _ _ (replicasOf i.view) hn.spec.rep
      (podFaults_noHit i.setName i.pods _ _ (fun c hc => (hn.pods c hc).2.2.2.1) hn.ords)
  have hvict : hn.victims = victimsOf lim (i.pods.map (·.pod.rev)) (listedRevs i) hn.curRev hn.updRev := by
    unfold NormC.victims; rw [hlim]; rfl
  rw [hsync]
  unfold reconcileF
  simp only
  have hcur : (((listedRevs i).find? (·.name == i.stored.currentRev)).getD hn.updRev) = hn.curRev := rfl
  rw [hcur, hrec]
  generalize hn.recon = ro at hok ⊢
  obtain ⟨st, out⟩ := ro
  simp only at hok
  subst hok
  simp only
  rw [finishF_ok_trunc i _ _ _ _ _ _ _ hn.gone lim hlim
    (fun r hr => List.any_eq_true.2 ⟨r, mem_listedRevs hr, by simp⟩) (listedRevs_names_nodup i)]
  have hkeep : (fun x : Rev => !((victimsOf lim (i.pods.map (·.pod.rev)) (listedRevs i) hn.curRev hn.updRev).map (·.name)).contains x.name)
      = hn.keep := by
    funext x; unfold NormC.keep; rw [hvict]
  have hlog : ∀ e ∈ ["list:revs", "list:revs", "list:revs", "list:revs"] ++
      (st.acts.map (actLog i.setName [] i.pods i.pods (maxReplicaAndSlots (i.view.replicas.getD 0) i.view.slots).1
        (maxReplicaAndSlots (i.view.replicas.getD 0) i.view.slots).2)).flatten, NoPatch e := by
    intro e he
    rw [List.mem_append] at he
    rcases he with he | he
    · simp only [List.mem_cons, List.not_mem_nil, or_false, or_self] at he
      rw [he]; exact noPatch_list_revs
    · rw [List.mem_flatten] at he
      obtain ⟨l', hl', hel'⟩ := he
      rw [List.mem_map] at hl'
      obtain ⟨a, _, rfl⟩ := hl'
      exact actLog_noPatch _ _ _ _ _ a e hel'
  have hdel : ∀ e ∈ (victimsOf lim (i.pods.map (·.pod.rev)) (listedRevs i) hn.curRev hn.updRev).map
      (fun r => s!"delete:rev:{r.name}"), NoPatch e := by
    intro e he
    rw [List.mem_map] at he
    obtain ⟨r, _, rfl⟩ := he
    exact noPatch_delete_rev _
  split_ifs with hinc
  · refine ⟨?_, rfl⟩
    unfold applySync
    simp only [Option.getD_some, Option.isSome_some, if_true, List.take_length, hkeep]
    rw [applyPatches_noPatch]
    intro e he
    rw [List.mem_append, List.mem_append] at he
    rcases he with (he | he) | he
    · exact hlog e he
    · simp only [List.mem_singleton] at he; rw [he]; exact noPatch_updatestatus
    · exact hdel e he
  · refine ⟨?_, rfl⟩
    unfold applySync
    simp only [Option.getD_none, Option.isSome_none, Bool.false_eq_true, if_false, List.take_length, hkeep]
    rw [applyPatches_noPatch]
    intro e he
    rw [List.mem_append] at he
    rcases he with he | he
    · exact hlog e he
    · exact hdel e he

end Asts.C02p
