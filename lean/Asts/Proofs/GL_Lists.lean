import Asts.Proofs.L1_a_Final
import Asts.Proofs.L1_b_C07
import Mathlib.Tactic

/-! # GL — glue, list level: the hypotheses of the reconcile-level theorems are inherited by sublists

The reconcile inside a sync runs on the *claimed* pods, a sublist of the pods of the world. The reconcile-level theorems
(`Props/C03`, `C04`, `C05`, `C07`, …) ask for `wfSnapshot` and for one of two forms of "ids identify the pods of the
snapshot and are below `freshId`" (`Asts.IdsOk` of `L1_a_*`, `Asts.L1b.IdsOk` of `L1_b_*`). Both are inherited by
sublists, and the first implies the second. -/
namespace Asts.GL
open Asts

/-! ### `eraseDups` on a list without duplicates -/

theorem eraseDups_of_nodup : ∀ {l : List Int}, l.Nodup → l.eraseDups = l
  | [], _ => by simp
  | a :: as, h => by
    have hn := List.nodup_cons.1 h
    rw [List.eraseDups_cons]
    have hf : as.filter (fun b => !b == a) = as := by
      rw [List.filter_eq_self]
      intro b hb
      have : b ≠ a := fun e => hn.1 (e ▸ hb)
      simp [this]
    rw [hf, eraseDups_of_nodup hn.2]

/-- `wfSnapshot` read as a proposition -/
theorem wfSnapshot_iff (pods : List Pod) :
    wfSnapshot pods = true ↔ (∀ p ∈ pods, p.created = true) ∧ (pods.map (·.ord)).Nodup := by
  constructor
  · intro h
    exact ⟨L1b.wfSnapshot_created h, L1b.wfSnapshot_nodup h⟩
  · rintro ⟨hc, hn⟩
    unfold wfSnapshot distinctOrds
    simp only [Bool.and_eq_true, List.all_eq_true, beq_iff_eq]
    refine ⟨hc, ?_⟩
    rw [eraseDups_of_nodup hn, List.length_map]

/-- **`wfSnapshot` is inherited by sublists** -/
theorem wfSnapshot_sublist {l pods : List Pod} (hs : l.Sublist pods) (h : wfSnapshot pods = true) :
    wfSnapshot l = true := by
  rw [wfSnapshot_iff] at h ⊢
  exact ⟨fun p hp => h.1 p (hs.subset hp), h.2.sublist (hs.map _)⟩

/-- ids that identify the pods of a list and are below `freshId` still do so on every sublist (`L1_a` form) -/
theorem idsOk_sublist {l pods : List Pod} (hs : l.Sublist pods) (h : IdsOk pods) : IdsOk l :=
  ⟨h.nodup.sublist (hs.map _), fun p hp => h.small p (hs.subset hp)⟩

/-- the `L1_a` form of the id hypothesis (ids pairwise distinct) gives the `L1_b` form (ids injective on the snapshot) -/
theorem idsOkB_of_idsOk {pods : List Pod} (h : IdsOk pods) : L1b.IdsOk pods :=
  ⟨fun _ hp _ hq he => List.inj_on_of_nodup_map h.nodup hp hq he, h.small⟩

/-- and conversely -/
theorem idsOk_of_idsOkB {pods : List Pod} (hn : pods.Nodup) (h : L1b.IdsOk pods) : IdsOk pods :=
  ⟨(List.nodup_map_iff_inj_on hn).2 (fun p hp q hq he => h.inj p hp q hq he), h.lt⟩

theorem idsOkB_sublist {l pods : List Pod} (hs : l.Sublist pods) (h : L1b.IdsOk pods) : L1b.IdsOk l :=
  ⟨fun p hp q hq he => h.inj p (hs.subset hp) q (hs.subset hq) he, fun p hp => h.lt p (hs.subset hp)⟩

/-- ids that are positions (what the driver and `reindex` produce), in the `L1_a` form -/
theorem idsOk_of_pos {pods : List Pod} (hpos : ∀ (k : Nat) (p : Pod), pods[k]? = some p → p.id = k)
    (hlen : pods.length ≤ freshId) : IdsOk pods := by
  refine idsOk_of_positions ?_ hlen
  apply List.ext_getElem?
  intro k
  by_cases hk : k < pods.length
  · have h1 : pods[k]? = some pods[k] := List.getElem?_eq_getElem hk
    simp [hk, hpos k _ h1]
  · simp [hk]

/-- "every pod has been admitted by the API server" is inherited by sublists -/
theorem created_sublist {l pods : List Pod} (hs : l.Sublist pods) (h : pods.all Pod.created = true) :
    l.all Pod.created = true := by
  rw [List.all_eq_true] at h ⊢
  exact fun p hp => h p (hs.subset hp)

/-! ### the monitors on the empty action list -/

theorem C05_nil (v : SetView) (pods : List Pod) : C05 v pods [] = true := by
  simp [C05]

theorem C07_nil (v : SetView) (cur upd : String) (pods : List Pod) : C07 v cur upd pods [] = true := by
  unfold C07
  simp only [updateDeletes, List.filterMap_nil, List.isEmpty_nil, ite_self, List.length_nil, Nat.zero_le, decide_true,
    List.all_nil, Bool.and_self, Bool.true_and]
  split <;> rfl

end Asts.GL
