import Asts.Proofs.C02_NextPods

/-! C02: pod lists up to order and ids (key-permutations), and the settled pod list as a key-permutation of the raw one. -/
namespace Asts.C02p
open Asts Asts.L1c

/-! ### key-permutations -/

def KeyPerm (A B : List CPod) : Prop := (A.map key).Perm (B.map key)

theorem KeyPerm.symm {A B : List CPod} (h : KeyPerm A B) : KeyPerm B A := List.Perm.symm h
theorem KeyPerm.trans {A B C : List CPod} (h1 : KeyPerm A B) (h2 : KeyPerm B C) : KeyPerm A C := List.Perm.trans h1 h2

theorem KeyPerm.mem {A B : List CPod} (h : KeyPerm A B) {x : CPod} (hx : x ∈ A) : ∃ y ∈ B, key y = key x := mem_of_keys h hx

theorem KeyPerm.ords {A B : List CPod} (h : KeyPerm A B) : (A.map (·.pod.ord)).Perm (B.map (·.pod.ord)) := by
  have h1 : ∀ l : List CPod, l.map (·.pod.ord) = (l.map key).map (·.pod.ord) := by
    intro l; rw [List.map_map]; rfl
  rw [h1 A, h1 B]
  exact List.Perm.map _ h

theorem KeyPerm.length {A B : List CPod} (h : KeyPerm A B) : A.length = B.length := by
  have := List.Perm.length_eq h
  simpa using this

theorem KeyPerm.filter {A B : List CPod} (h : KeyPerm A B) (p : CPod → Bool) (hp : ∀ c, p (key c) = p c) :
    KeyPerm (A.filter p) (B.filter p) := by
  unfold KeyPerm at *
  have h1 : ∀ l : List CPod, (l.filter p).map key = (l.map key).filter p := by
    intro l
    rw [List.filter_map]
    congr 1
    apply List.filter_congr
    intro c _
    exact (hp c).symm
  rw [h1 A, h1 B]
  exact List.Perm.filter _ h

theorem key_settleOne (c : CPod) : key (settleOne c) = settleOne (key c) := by
  have h1 : (key c).pod.failed = c.pod.failed := rfl
  have h2 : (key c).pod.succeeded = c.pod.succeeded := rfl
  unfold settleOne
  rw [h1, h2]
  split_ifs <;> rfl

theorem KeyPerm.settleOne {A B : List CPod} (h : KeyPerm A B) : KeyPerm (A.map settleOne) (B.map settleOne) := by
  unfold KeyPerm at *
  have h1 : ∀ l : List CPod, (l.map Asts.C02p.settleOne).map key = (l.map key).map Asts.C02p.settleOne := by
    intro l
    rw [List.map_map, List.map_map]
    apply List.map_congr_left
    intro c _
    exact key_settleOne c
  rw [h1 A, h1 B]
  exact List.Perm.map _ h

theorem keyPerm_reindex_sort (l : List CPod) : KeyPerm (reindex (sortPods l)) l := by
  unfold KeyPerm
  rw [reindex_key]
  exact List.Perm.map _ (sortPods_perm l)

/-- the settled pods of a world whose pod list is `reindex (sortPods P1)` -/
theorem settle_keyPerm (i : SyncIn) (P1 : List CPod) (hp : i.pods = reindex (sortPods P1)) :
    KeyPerm (settle i).pods ((P1.filter (fun c => !c.pod.terminating)).map settleOne) := by
  rw [settle_pods, hp]
  refine (keyPerm_reindex_sort _).trans ?_
  apply KeyPerm.settleOne
  apply KeyPerm.filter (keyPerm_reindex_sort P1)
  intro c; rfl

/-- any settled list: nothing terminating, every pod Failed/Succeeded or Running and Ready -/
theorem settle_settled (i : SyncIn) :
    ∀ c ∈ (settle i).pods, c.pod.terminating = false ∧ (c.pod.fs = true ∨ c.pod.runningAndReady = true) := by
  intro c hc
  rw [settle_pods] at hc
  obtain ⟨c1, hc1, hk⟩ := mem_reindex_sort hc
  rw [List.mem_map] at hc1
  obtain ⟨c0, hc0, rfl⟩ := hc1
  rw [List.mem_filter] at hc0
  have e1 : (settleOne c0).pod.terminating = c.pod.terminating := key_transfer (·.pod.terminating) (fun _ => rfl) hk
  have e2 : (settleOne c0).pod.fs = c.pod.fs := key_transfer (·.pod.fs) (fun _ => rfl) hk
  have e3 : (settleOne c0).pod.runningAndReady = c.pod.runningAndReady := key_transfer (·.pod.runningAndReady) (fun _ => rfl) hk
  rw [← e1, ← e2, ← e3, settleOne_term]
  refine ⟨by simpa using hc0.2, ?_⟩
  unfold settleOne
  by_cases hfs : (c0.pod.failed || c0.pod.succeeded) = true
  · left; simp only [hfs, if_true]; exact hfs
  · right; simp only [hfs, Bool.false_eq_true, if_false]; simp [Pod.runningAndReady]

end Asts.C02p
