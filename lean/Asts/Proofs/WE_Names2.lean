import Mathlib.Tactic
import Asts.Proofs.WE_Names

/-! # WE — the pause-interval lemmas and `C11lossless` on the model, from distinct pod names of the SETTLED worlds

The statements of `WE_Pause` / `WE_Traj` / `WE_Lossless` with the hypothesis "pod names distinct in the world" replaced by
"pod names distinct in its settled form" (what `pod_names_distinct_along_run` provides); the proofs are the same, over the
primed base lemmas of `WE_Names`. -/
namespace Asts.WE
open Asts Asts.SYa Asts.C02p Asts.GL

theorem settle_nodup2 (W : SyncIn) (hn : ((settle W).pods.map (·.name)).Nodup) :
    ((settle (settle W)).pods.map (·.name)).Nodup := by rw [settle_idem' W hn]; exact hn

theorem paused_round_is_settle' (h : Hashing) (i : SyncIn) (plan : List Fault) (hp : i.paused = true)
    (hv : ViewInStep i) (hn : ((settle i).pods.map (·.name)).Nodup) :
    (round h i plan).1 = settle i ∧ (round h i plan).2.writes = 0 ∧ (round h i plan).2.out = "ok" ∧
    (round h i plan).2.revs = i.store ∧ (round h i plan).2.status = i.stored := by
  have := paused_round_is_settle h (live i) plan hp (live_viewInStep hv) (live_nodup hn)
  rw [round_live, settle_live] at this
  exact this

theorem silent_round_repeats' (h : Hashing) (W : SyncIn) (hv : ViewInStep W) (hn : ((settle W).pods.map (·.name)).Nodup)
    (hs : silentOk (round h W []).2 = true) : round h (round h W []).1 [] = round h W [] := by
  rw [silent_round_fix' h W hv hn hs]
  exact round_settle' h W [] hn

/-- during the pause: the settled world with the flag up, whatever the number of paused rounds already run -/
theorem pause_during' (h : Hashing) (p : List Fault) (w : SyncIn) (a d : Nat)
    (hn : ((settle (worldFrom h [] 1 p w (a + 1))).pods.map (·.name)).Nodup) :
    ∀ k, k ≤ d → worldFrom h (pauseScript a d) 1 p w (a + 1 + (k + 1)) =
      settle (applyEdit (.pause true) (worldFrom h [] 1 p w (a + 1)))
  | 0, _ => by
    show (round h (applyEdits (editsAt (pauseScript a d) (1 + (a + 1))) (worldFrom h (pauseScript a d) 1 p w (a + 1))) (planAt p (a + 1))).1 = _
    rw [pause_before h p w a d (a + 1) (le_refl _)]
    unfold pauseScript
    rw [editsAt_pair, if_pos (by omega), if_neg (by omega)]
    exact (paused_round_is_settle' h (applyEdit (.pause true) (worldFrom h [] 1 p w (a + 1))) _ rfl (round_viewInStep h _ _) hn).1
  | k + 1, hk => by
    show (round h (applyEdits (editsAt (pauseScript a d) (1 + (a + 1 + (k + 1)))) (worldFrom h (pauseScript a d) 1 p w (a + 1 + (k + 1)))) (planAt p (a + 1 + (k + 1)))).1 = _
    rw [pause_during' h p w a d hn k (by omega)]
    unfold pauseScript
    rw [editsAt_pair, if_neg (by omega), if_neg (by omega)]
    show (round h (settle (applyEdit (.pause true) (worldFrom h [] 1 p w (a + 1)))) _).1 = _
    have hn' := settle_nodup2 (applyEdit (.pause true) (worldFrom h [] 1 p w (a + 1))) hn
    rw [(paused_round_is_settle' h (settle (applyEdit (.pause true) (worldFrom h [] 1 p w (a + 1)))) _ rfl
      (settle_viewInStep _ (round_viewInStep h _ _)) hn').1]
    exact settle_idem' (applyEdit (.pause true) (worldFrom h [] 1 p w (a + 1))) hn

/-- every round of the pause is silent and shows the revisions and the status the never-paused run had when the pause began -/
theorem pause_rounds' (h : Hashing) (p : List Fault) (w : SyncIn) (a d : Nat)
    (hn : ((settle (worldFrom h [] 1 p w (a + 1))).pods.map (·.name)).Nodup) (k : Nat) (hk : k ≤ d) :
    (histRoundAt h (pauseScript a d) 1 p w (a + 1 + k)).obs.writes = 0 ∧
    (histRoundAt h (pauseScript a d) 1 p w (a + 1 + k)).obs.out = "ok" ∧
    (histRoundAt h (pauseScript a d) 1 p w (a + 1 + k)).obs.revs = (worldFrom h [] 1 p w (a + 1)).store ∧
    (histRoundAt h (pauseScript a d) 1 p w (a + 1 + k)).obs.status = (worldFrom h [] 1 p w (a + 1)).stored := by
  cases k with
  | zero =>
    unfold histRoundAt
    simp only [Nat.add_zero]
    rw [pause_before h p w a d (a + 1) (le_refl _)]
    unfold pauseScript
    rw [editsAt_pair, if_pos (by omega), if_neg (by omega)]
    obtain ⟨_, x1, x2, x3, x4⟩ := paused_round_is_settle' h (applyEdit (.pause true) (worldFrom h [] 1 p w (a + 1)))
      (planAt p (a + 1)) rfl (round_viewInStep h _ _) hn
    exact ⟨x1, x2, x3, x4⟩
  | succ k =>
    unfold histRoundAt
    rw [pause_during' h p w a d hn k (by omega)]
    unfold pauseScript
    rw [editsAt_pair, if_neg (by omega), if_neg (by omega)]
    obtain ⟨_, x1, x2, x3, x4⟩ := paused_round_is_settle' h (settle (applyEdit (.pause true) (worldFrom h [] 1 p w (a + 1))))
      (planAt p (a + 1 + (k + 1))) rfl (settle_viewInStep _ (round_viewInStep h _ _))
      (settle_nodup2 (applyEdit (.pause true) (worldFrom h [] 1 p w (a + 1))) hn)
    exact ⟨x1, x2, x3, x4⟩

/-- **after the un-pause, round for round the never-paused run**: the `m`-th round from the un-pause on is the `m`-th round
    the never-paused run shows from the round in which the pause began — the same observation, the same next world -/
theorem pause_after' (h : Hashing) (p : List Fault) (w : SyncIn) (a d : Nat) (hnp : w.paused = false)
    (hn : ((settle (worldFrom h [] 1 p w (a + 1))).pods.map (·.name)).Nodup) :
    ∀ m, (histRoundAt h (pauseScript a d) 1 p w (a + d + 2 + m)).obs = (histRoundAt h [] 1 p w (a + 1 + m)).obs ∧
         worldFrom h (pauseScript a d) 1 p w (a + d + 2 + m + 1) = worldFrom h [] 1 p w (a + 1 + m + 1)
  | 0 => by
    have hw : worldFrom h (pauseScript a d) 1 p w (a + d + 2) = settle (applyEdit (.pause true) (worldFrom h [] 1 p w (a + 1))) := by
      have := pause_during' h p w a d hn d (le_refl _)
      have e : a + 1 + (d + 1) = a + d + 2 := by omega
      rw [e] at this; exact this
    have hround : round h (applyEdits (editsAt (pauseScript a d) (1 + (a + d + 2))) (worldFrom h (pauseScript a d) 1 p w (a + d + 2))) (planAt p (a + d + 2)) =
        round h (applyEdits (editsAt [] (1 + (a + 1))) (worldFrom h [] 1 p w (a + 1))) (planAt p (a + 1)) := by
      rw [hw, editsAt_nil, applyEdits_nil]
      unfold pauseScript
      rw [editsAt_pair, if_neg (by omega), if_pos (by omega)]
      have e1 : planAt p (a + d + 2) = [] := planAt_succ p (a + d + 1)
      have e2 : planAt p (a + 1) = [] := planAt_succ p a
      rw [e1, e2]
      show round h (settle (applyEdit (.pause false) (worldFrom h [] 1 p w (a + 1)))) [] = _
      rw [unpause_self _ (worldFrom_paused_nil h p w hnp (a + 1)), round_settle' h _ [] hn]
    exact ⟨congrArg Prod.snd hround, congrArg Prod.fst hround⟩
  | m + 1 => by
    obtain ⟨_, ihw⟩ := pause_after' h p w a d hnp hn m
    have hround : round h (applyEdits (editsAt (pauseScript a d) (1 + (a + d + 2 + (m + 1)))) (worldFrom h (pauseScript a d) 1 p w (a + d + 2 + (m + 1)))) (planAt p (a + d + 2 + (m + 1))) =
        round h (applyEdits (editsAt [] (1 + (a + 1 + (m + 1)))) (worldFrom h [] 1 p w (a + 1 + (m + 1)))) (planAt p (a + 1 + (m + 1))) := by
      have e1 : a + d + 2 + (m + 1) = a + d + 2 + m + 1 := by omega
      have e2 : a + 1 + (m + 1) = a + 1 + m + 1 := by omega
      rw [e1, e2, ihw, editsAt_nil, applyEdits_nil, planAt_succ, planAt_succ]
      unfold pauseScript
      rw [editsAt_pair, if_neg (by omega), if_neg (by omega)]
      rfl
    exact ⟨congrArg Prod.snd hround, congrArg Prod.fst hround⟩

/-- **once silent (after the first round), silent for ever, with the same observation** -/
theorem silent_forever' (h : Hashing) (w : SyncIn) (p : List Fault)
    (hnod : ∀ n, ((settle (plainWorld h w p n)).pods.map (·.name)).Nodup) (n : Nat)
    (hs : sil (obsFrom h w p (n + 1)) = true) : ∀ j, obsFrom h w p (n + 1 + j) = obsFrom h w p (n + 1) := by
  have hrep := silent_round_repeats' h (plainWorld h w p (n + 1)) (plainWorld_viewInStep h w p n) (hnod (n + 1))
    (by have : obsFrom h w p (n + 1) = (round h (plainWorld h w p (n + 1)) []).2 := by
          unfold obsFrom; rw [planAt_succ]
        rw [← this]; exact hs)
  have hfix : ∀ j, plainWorld h w p (n + 1 + (j + 1)) = plainWorld h w p (n + 1 + 1) ∧
      obsFrom h w p (n + 1 + j) = obsFrom h w p (n + 1) := by
    intro j
    induction j with
    | zero => exact ⟨rfl, rfl⟩
    | succ j ih =>
      obtain ⟨ihw, _⟩ := ih
      have e1 : n + 1 + (j + 1) = (n + 1 + j) + 1 := by omega
      have hw1 : plainWorld h w p (n + 1 + 1) = (round h (plainWorld h w p (n + 1)) []).1 := by
        show (round h (plainWorld h w p (n + 1)) (planAt p (n + 1))).1 = _
        rw [planAt_succ]
      constructor
      · show (round h (plainWorld h w p (n + 1 + (j + 1))) (planAt p (n + 1 + (j + 1)))).1 = _
        rw [ihw, e1, planAt_succ, hw1, hrep]
      · show (round h (plainWorld h w p (n + 1 + (j + 1))) (planAt p (n + 1 + (j + 1)))).2 = (round h (plainWorld h w p (n + 1)) (planAt p (n + 1))).2
        rw [ihw, e1, planAt_succ, planAt_succ, hw1, hrep]
  exact fun j => (hfix j).2

/-- the observations of a history with one pause interval: the rounds up to the un-pause, then the plain run of the world
    the pause found -/
theorem pause_history_obs' (h : Hashing) (plan : List Fault) (i : SyncIn) (a d fuel : Nat) (hnp : i.paused = false)
    (hnod : ∀ n, ((settle (plainWorld h i plan n)).pods.map (·.name)).Nodup) (hfuel : a + d + 2 ≤ fuel) :
    (runHistory h (pauseScript a d) fuel 1 0 i plan).map (·.obs) =
      ((List.range (a + d + 2)).map (histRoundAt h (pauseScript a d) 1 plan i)).map (·.obs) ++
        runRounds h (fuel - (a + d + 2)) 0 (plainWorld h i plan (a + 1)) [] := by
  obtain ⟨c', hc'⟩ := runHistory_unroll h (pauseScript a d) 1 i plan (a + d + 2) fuel 0 hfuel (fun m hm => pending_pause a d m hm)
  rw [hc', List.map_append]
  congr 1
  have hX : worldFrom h [] 1 plan i (a + 1) = plainWorld h i plan (a + 1) := worldFrom_nil_eq h plan i (a + 1)
  have hn : ((settle (worldFrom h [] 1 plan i (a + 1))).pods.map (·.name)).Nodup := by rw [hX]; exact hnod (a + 1)
  rw [runHistory_last h (pauseScript a d) _ _ _ _ _ (by
    intro e he
    unfold pauseScript at he
    simp only [List.mem_cons, List.not_mem_nil, or_false] at he
    rcases he with rfl | rfl <;> simp <;> omega)]
  have hedits : editsAt (pauseScript a d) (1 + (a + d + 2)) = [.pause false] := by
    unfold pauseScript
    rw [editsAt_pair, if_neg (by omega), if_pos (by omega)]; rfl
  have hw : worldFrom h (pauseScript a d) 1 plan i (a + d + 2) =
      settle (applyEdit (.pause true) (worldFrom h [] 1 plan i (a + 1))) := by
    have := pause_during' h plan i a d hn d (le_refl _)
    have e : a + 1 + (d + 1) = a + d + 2 := by omega
    rw [e] at this; exact this
  rw [hedits, hw]
  simp only [List.isEmpty_cons, Bool.false_eq_true, if_false]
  have hpl : planAt plan (a + d + 2) = [] := planAt_succ plan (a + d + 1)
  rw [hpl]
  have happ : applyEdits [.pause false] (settle (applyEdit (.pause true) (worldFrom h [] 1 plan i (a + 1)))) =
      settle (worldFrom h [] 1 plan i (a + 1)) := by
    show settle (applyEdit (.pause false) (worldFrom h [] 1 plan i (a + 1))) = _
    rw [unpause_self _ (worldFrom_paused_nil h plan i hnp (a + 1))]
  rw [happ, runRounds_settle' h _ 0 _ hn, hX]

theorem observeHist_obs' (hs : List HistRound) : (observeHist hs).map (·.obs) = hs.map (·.obs) := observeHist_obs hs

/-- **`C11lossless`, the monitor, is true on the model** for every script that is one pause interval (pause before round
    `a + 2`, un-pause before round `a + d + 3`): the set is not paused to begin with, pod names are distinct in every world of
    the never-paused run, and the budget reaches past the un-pause round -/
theorem C11lossless_model' (h : Hashing) (plan : List Fault) (i : SyncIn) (a d fuel : Nat) (hnp : i.paused = false)
    (hnod : ∀ n, ((settle (plainWorld h i plan n)).pods.map (·.name)).Nodup) (hfuel : a + d + 3 ≤ fuel) :
    C11lossless i (pauseScript a d) (observeHist (runHistory h (pauseScript a d) fuel 1 0 i plan))
      (runRounds h fuel 0 i plan) = true := by
  unfold C11lossless
  rw [pauseScript_interval]
  simp only
  rw [hnp]
  by_cases hE : (endsSilent (runRounds h fuel 0 i plan) &&
      endsSilent ((observeHist (runHistory h (pauseScript a d) fuel 1 0 i plan)).map (·.obs))) = true
  swap
  · have hE' : (endsSilent (runRounds h fuel 0 i plan) &&
        endsSilent ((observeHist (runHistory h (pauseScript a d) fuel 1 0 i plan)).map (·.obs))) = false := by simpa using hE
    rw [hE']; rfl
  rw [hE]
  simp only [Bool.not_true, Bool.false_or]
  rw [Bool.and_eq_true] at hE
  obtain ⟨hEr, hEh⟩ := hE
  -- the two lists
  have hobs := pause_history_obs' h plan i a d fuel hnp hnod (by omega)
  rw [observeHist_obs, hobs] at hEh
  obtain ⟨g, hg⟩ : ∃ g, fuel - (a + d + 2) = g + 1 := ⟨fuel - (a + d + 3), by omega⟩
  obtain ⟨ta, _, tc, _⟩ := runRounds_spec h (fuel - (a + d + 2)) 0 (plainWorld h i plan (a + 1)) []
  obtain ⟨ra, _, _, _⟩ := runRounds_spec h fuel 0 i plan
  have htl1 : 1 ≤ (runRounds h (fuel - (a + d + 2)) 0 (plainWorld h i plan (a + 1)) []).length := by
    rw [hg]; exact runRounds_nonempty h g 0 _ []
  set tail := runRounds h (fuel - (a + d + 2)) 0 (plainWorld h i plan (a + 1)) [] with htail
  set ref := runRounds h fuel 0 i plan with href
  have htobs : ∀ k, obsFrom h (plainWorld h i plan (a + 1)) [] k = obsFrom h i plan (a + 1 + k) :=
    fun k => (obsFrom_add h i plan a k).symm
  -- the reference run ends with two silent rounds
  obtain ⟨m, x, y, hlen, hx, hy, sx, sy⟩ := endsSilent_spec hEr
  have hx' : x = obsFrom h i plan (m + 1) := by
    have := ra (m + 1) (by omega); rw [hx] at this; exact Option.some.inj this
  have hy' : y = obsFrom h i plan m := by
    have := ra m (by omega); rw [hy] at this; exact Option.some.inj this
  rw [hx'] at sx; rw [hy'] at sy
  -- the history ends with a silent round of the tail
  obtain ⟨m', x', y', hlen', hxh, _, sxh, _⟩ := endsSilent_spec hEh
  have hprelen : (((List.range (a + d + 2)).map (histRoundAt h (pauseScript a d) 1 plan i)).map (·.obs)).length = a + d + 2 := by simp
  rw [List.length_append, hprelen] at hlen'
  have hxh' : x' = obsFrom h i plan (a + 1 + (tail.length - 1)) := by
    rw [List.getElem?_append_right (by rw [hprelen]; omega), hprelen] at hxh
    have e : m' + 1 - (a + d + 2) = tail.length - 1 := by omega
    rw [e, ta (tail.length - 1) (by omega), htobs] at hxh
    exact (Option.some.inj hxh).symm
  rw [hxh'] at sxh
  -- both are silent rounds of the never-paused run after its first round: the same observation
  have hsame : obsFrom h i plan (a + 1 + (tail.length - 1)) = obsFrom h i plan (m + 1) := by
    by_cases hle : a + 1 + (tail.length - 1) ≤ m + 1
    · obtain ⟨j, hj⟩ : ∃ j, m + 1 = (a + (tail.length - 1)) + 1 + j := ⟨m + 1 - (a + 1 + (tail.length - 1)), by omega⟩
      have e : a + 1 + (tail.length - 1) = (a + (tail.length - 1)) + 1 := by omega
      rw [hj, e]
      rw [e] at sxh
      exact (silent_forever' h i plan hnod _ sxh j).symm
    · obtain ⟨j, hj⟩ : ∃ j, a + 1 + (tail.length - 1) = m + 1 + j := ⟨a + 1 + (tail.length - 1) - (m + 1), by omega⟩
      rw [hj]
      exact silent_forever' h i plan hnod m sx j
  -- the length of the tail
  have htlen : tail.length ≤ max (m + 1 - a) 2 := by
    by_cases hma : a + 1 ≤ m
    · have c2 : cntFrom h 0 (plainWorld h i plan (a + 1)) [] (m - (a + 1) + 1) ≥ 2 := by
        apply cnt_of_two_silent
        · rw [htobs]; have e : a + 1 + (m - (a + 1)) = m := by omega
          rw [e]; exact sy
        · rw [htobs]; have e : a + 1 + (m - (a + 1) + 1) = m + 1 := by omega
          rw [e]; exact sx
      by_contra hgt
      have := tc (m - (a + 1) + 1) (by omega)
      omega
    · have s1 : sil (obsFrom h i plan (a + 1)) = true := by
        obtain ⟨j, hj⟩ : ∃ j, a + 1 = m + 1 + j := ⟨a - m, by omega⟩
        rw [hj, silent_forever' h i plan hnod m sx j]; exact sx
      have s2 : sil (obsFrom h i plan (a + 2)) = true := by
        obtain ⟨j, hj⟩ : ∃ j, a + 2 = m + 1 + j := ⟨a + 1 - m, by omega⟩
        rw [hj, silent_forever' h i plan hnod m sx j]; exact sx
      have c2 : cntFrom h 0 (plainWorld h i plan (a + 1)) [] 1 ≥ 2 := by
        apply cnt_of_two_silent h 0 _ [] 0
        · rw [htobs]; exact s1
        · rw [htobs]; exact s2
      by_contra hgt
      have := tc 1 (by omega)
      omega
  -- the last rounds of the two observations
  have hrsLen : (observeHist (runHistory h (pauseScript a d) fuel 1 0 i plan)).length = a + d + 2 + tail.length := by
    have := congrArg List.length (observeHist_obs (runHistory h (pauseScript a d) fuel 1 0 i plan))
    rw [List.length_map, hobs, List.length_append, hprelen] at this
    exact this
  have hrefLast : ref.getLast? = some (obsFrom h i plan (m + 1)) := by
    rw [List.getLast?_eq_getElem?, hlen]
    have : m + 2 - 1 = m + 1 := by omega
    rw [this, ← hx']; exact hx
  have hrsLast : ∃ xr, (observeHist (runHistory h (pauseScript a d) fuel 1 0 i plan)).getLast? = some xr ∧
      xr.obs = obsFrom h i plan (a + 1 + (tail.length - 1)) := by
    have e : a + d + 2 + tail.length - 1 - (a + d + 2) = tail.length - 1 := by omega
    have hmap : ((observeHist (runHistory h (pauseScript a d) fuel 1 0 i plan)).map (·.obs))[a + d + 2 + tail.length - 1]? =
        some (obsFrom h i plan (a + 1 + (tail.length - 1))) := by
      rw [observeHist_obs, hobs, List.getElem?_append_right (by rw [hprelen]; omega), hprelen, e,
        ta (tail.length - 1) (by omega), htobs]
    rw [List.getElem?_map] at hmap
    rw [List.getLast?_eq_getElem?, hrsLen]
    cases hget : (observeHist (runHistory h (pauseScript a d) fuel 1 0 i plan))[a + d + 2 + tail.length - 1]? with
    | none => rw [hget] at hmap; simp at hmap
    | some xr =>
      rw [hget] at hmap
      exact ⟨xr, rfl, by simpa using hmap⟩
  obtain ⟨xr, hxr, hxro⟩ := hrsLast
  rw [hxr, hrefLast]
  simp only
  rw [hxro, hsame, sameState_refl, hrsLen, hlen]
  simp only [Bool.true_and, decide_eq_true_eq]
  omega

/-- `C11lossless` on the model for every script: trivially when the script is not one pause interval; otherwise
    (`pauseInterval script = some (a, b)`) for `2 ≤ a` — the case format — and a budget that reaches round `b` -/
theorem C11lossless_model_any' (h : Hashing) (plan : List Fault) (i : SyncIn) (script : Script) (fuel : Nat)
    (hnp : i.paused = false) (hnod : ∀ n, ((settle (plainWorld h i plan n)).pods.map (·.name)).Nodup)
    (hpi : ∀ a b, pauseInterval script = some (a, b) → 2 ≤ a ∧ b ≤ fuel) :
    C11lossless i script (observeHist (runHistory h script fuel 1 0 i plan)) (runRounds h fuel 0 i plan) = true := by
  cases hp : pauseInterval script with
  | none => unfold C11lossless; rw [hp]
  | some ab =>
    obtain ⟨a, b⟩ := ab
    obtain ⟨hs, hlt⟩ := pauseInterval_eq hp
    obtain ⟨h2, hb⟩ := hpi a b hp
    have hscript : script = pauseScript (a - 2) (b - a - 1) := by
      rw [hs]; unfold pauseScript
      have e1 : a - 2 + 2 = a := by omega
      have e2 : a - 2 + (b - a - 1) + 3 = b := by omega
      rw [e1, e2]
    rw [hscript]
    exact C11lossless_model' h plan i (a - 2) (b - a - 1) fuel hnp hnod (by omega)

end Asts.WE

namespace Asts.WE
open Asts Asts.C02p

theorem extraMB_podNames {h : Hashing} {i : SyncIn} (hx : extraMB h i = true) : (i.pods.map (·.name)).Nodup := by
  unfold extraMB at hx
  simp only [Bool.and_eq_true, decide_eq_true_eq] at hx
  exact hx.1.1.1.1.1.1.1.2

theorem wfWorld_not_paused {h : Hashing} {i : SyncIn} (hw : wfWorld h i = true) : i.paused = false := by
  cases hp : i.paused with
  | false => rfl
  | true => unfold wfWorld at hw; simp [hp] at hw

/-- the invariant on the plain run as `plainWorld` (empty fault plan) -/
theorem plainWorld_names (h : Hashing) (i : SyncIn) (hw : wfWorld h i = true) (hx : extraMB h i = true) :
    ∀ n, ((settle (plainWorld h i [] n)).pods.map (·.name)).Nodup := by
  intro n; rw [plainWorld_roundsN]; exact pod_names_distinct_along_run h i hw hx n

end Asts.WE
