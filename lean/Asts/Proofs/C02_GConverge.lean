import Asts.Proofs.C02_GDone

/-! C02, policy-independent: convergence of a class of normal, settled worlds that is closed under rounds and on which the
    policy makes progress (an `Event`) whenever the pods still need work. -/
namespace Asts.C02p
open Asts Asts.L1c

/-- a class of worlds on which a pod management policy works -/
structure PolicyClass (h : Hashing) (K : SyncIn → Prop) : Prop where
  ns : ∀ j, K j → NSC h j
  part : ∀ j, K j → PartOk j.view
  pol : ∀ j (hk : K j), Pol (ns j hk).norm
  facts : ∀ j (hk : K j), ActFacts j.view (ns j hk).norm.curRev.name (ns j hk).norm.updRev.name (bOf j) (EOf j) j.pods
    (ns j hk).norm.recon.1.acts
  next : ∀ j, K j → K (nextW h j)
  progress : ∀ j (hk : K j), 0 < muPods j → Event (bOf j) (EOf j) j.pods (ns j hk).norm.recon.1.acts

/-- `n` rounds, seen on the settled worlds -/
def nextWN (h : Hashing) : Nat → SyncIn → SyncIn
  | 0, j => j
  | n + 1, j => nextWN h n (nextW h j)

theorem settle_roundsN (h : Hashing) (i : SyncIn) (n : Nat) : settle (roundsN h n i) = nextWN h n (settle i) := by
  induction n generalizing i with
  | zero => rfl
  | succ n ih =>
    show settle (roundsN h n (round h i []).1) = nextWN h n (nextW h (settle i))
    rw [ih, settle_round]

theorem roundsN_succ (h : Hashing) (i : SyncIn) (n : Nat) : roundsN h (n + 1) i = (round h (roundsN h n i) []).1 := by
  induction n generalizing i with
  | zero => rfl
  | succ n ih =>
    show roundsN h (n + 1) (round h i []).1 = _
    rw [ih]; rfl

/-- within `muPods + 2` rounds the settled world is `Final` -/
theorem converge_class {h : Hashing} {K : SyncIn → Prop} (hK : PolicyClass h K) (m : Nat) :
    ∀ {j : SyncIn}, K j → muPods j ≤ m → ∃ k ≤ m + 2, Final h (nextWN h k j) := by
  induction m with
  | zero =>
    intro j hk hm
    exact ⟨2, by omega, done_final2 (hK.ns j hk) (by omega)⟩
  | succ m ih =>
    intro j hk hm
    by_cases hz : muPods j = 0
    · exact ⟨2, by omega, done_final2 (hK.ns j hk) hz⟩
    · have hlt := (mu_stepC (hK.ns j hk) (hK.pol j hk) (hK.part j hk) (hK.facts j hk)).2 (hK.progress j hk (by omega))
      obtain ⟨k, hkk, hf⟩ := ih (hK.next j hk) (by omega)
      exact ⟨k + 1, by omega, hf⟩

/-- **convergence** of any world whose settled form lies in a policy class -/
theorem converge_of_class {h : Hashing} {K : SyncIn → Prop} (hK : PolicyClass h K) {i : SyncIn} (hk : K (settle i)) :
    ∃ n ≤ muPods (settle i) + 3, Final h (roundsN h n i) := by
  obtain ⟨k, hkk, hf⟩ := converge_class hK (muPods (settle i)) hk (le_refl _)
  refine ⟨k + 1, by omega, ?_⟩
  rw [roundsN_succ, round_fst, settle_roundsN]
  exact final_applySync h _ hf

/-- the fairness step keeps a world normal -/
theorem normC_settle {h : Hashing} {i : SyncIn} (hn : NormC h i) : NormC h (settle i) := by
  have hkp : KeyPerm (settle i).pods ((i.pods.filter (fun c => !c.pod.terminating)).map settleOne) := by
    rw [settle_pods]; exact keyPerm_reindex_sort _
  refine ⟨⟨hn.spec.paused, hn.spec.sel, hn.spec.del, hn.spec.rep, hn.spec.r0, hn.spec.strat, hn.spec.lim⟩,
    ?_, ?_, hn.rev, hn.noOrphanRev, ?_, hn.smallR, rfl⟩
  · intro x hx
    obtain ⟨y, hy, hk⟩ := hkp.mem hx
    rw [List.mem_map] at hy
    obtain ⟨c0, hc0, rfl⟩ := hy
    obtain ⟨a1, a2, a3, a4, a5, a7, a8⟩ := hn.pods c0 (List.mem_of_mem_filter hc0)
    have e1 : (settleOne c0).owner = x.owner := key_transfer (·.owner) (fun _ => rfl) hk
    have e2 : (settleOne c0).member = x.member := key_transfer (·.member) (fun _ => rfl) hk
    have e3 : (settleOne c0).selMatch = x.selMatch := key_transfer (·.selMatch) (fun _ => rfl) hk
    have e4 : (settleOne c0).name = x.name := key_transfer (·.name) (fun _ => rfl) hk
    have e5 : (settleOne c0).pod.ord = x.pod.ord := key_transfer (·.pod.ord) (fun _ => rfl) hk
    have e7 : (settleOne c0).pod.stOk = x.pod.stOk := key_transfer (·.pod.stOk) (fun _ => rfl) hk
    have e8 : (settleOne c0).pod.created = x.pod.created := key_transfer (·.pod.created) (fun _ => rfl) hk
    rw [← e1, ← e2, ← e3, ← e4, ← e5, ← e7, ← e8, settleOne_owner, settleOne_member, settleOne_sel, settleOne_name, settleOne_ord]
    refine ⟨a1, a2, a3, a4, a5, ?_, ?_⟩
    · unfold settleOne; split_ifs <;> exact a7
    · unfold settleOne; split_ifs
      · exact a8
      · simp [Pod.created]
  · apply (hkp.ords.nodup_iff).2
    rw [List.map_map]
    have hcomp : ((fun c : CPod => c.pod.ord) ∘ settleOne) = (fun c => c.pod.ord) := by funext c; exact settleOne_ord c
    rw [hcomp]
    exact (List.Sublist.map _ List.filter_sublist).nodup hn.ords
  · rw [hkp.length, List.length_map]
    exact le_trans (List.length_filter_le _ _) hn.small

/-- the pods outside the desired set do not grow in number under the fairness step -/
theorem settle_room {h : Hashing} {i : SyncIn} (D : List Int) :
    ((settle i).pods.filter (fun c => !D.contains c.pod.ord)).length ≤ (i.pods.filter (fun c => !D.contains c.pod.ord)).length := by
  have hkp : KeyPerm (settle i).pods ((i.pods.filter (fun c => !c.pod.terminating)).map settleOne) := by
    rw [settle_pods]; exact keyPerm_reindex_sort _
  rw [(hkp.filter (fun c => !D.contains c.pod.ord) (fun _ => rfl)).length, List.filter_map, List.length_map]
  have hcomp : ((fun c : CPod => !D.contains c.pod.ord) ∘ settleOne) = (fun c => !D.contains c.pod.ord) := by
    funext c; simp [settleOne_ord]
  rw [hcomp, List.filter_filter]
  apply List.Sublist.length_le
  apply List.monotone_filter_right
  intro c hc
  simp only [Bool.and_eq_true] at hc
  exact hc.1

/-- a normal world with room for its pods settles into a normal, settled one -/
theorem nsc_settle {h : Hashing} {i : SyncIn} (hn : NormC h i)
    (hroom : (i.pods.filter (fun c => !(desired (replicasOf i.view) i.view.slots).contains c.pod.ord)).length +
      (replicasOf i.view).toNat ≤ freshId) : NSC h (settle i) := by
  refine ⟨normC_settle hn, idOk_of_idPos (settle_idPos i) (normC_settle hn).small, settle_settled i, ?_⟩
  have := settle_room (h := h) (i := i) (desired (replicasOf i.view) i.view.slots)
  show ((settle i).pods.filter (fun c => !(desired (replicasOf i.view) i.view.slots).contains c.pod.ord)).length +
    (replicasOf i.view).toNat ≤ freshId
  omega

end Asts.C02p
