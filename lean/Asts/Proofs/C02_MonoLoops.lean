import Asts.Proofs.C02_Par

/-! C02: the OrderedReady reconcile (no faults) on settled pods, call by call. -/
namespace Asts.C02p
open Asts Asts.L1c

/-- a settled pod the replica loop walks past -/
def Plain (q : Pod) : Prop := q.fs = false ∧ q.created = true ∧ q.runningAndReady = true ∧ q.terminating = false

/-- the identity update of one slot -/
def idUpd (i : Int) (q : Pod) : List Action := if q.idOk && q.stOk then [] else [.update i]

theorem mem_idUpd {i : Int} {q : Pod} {a : Action} (h : a ∈ idUpd i q) : a = .update i ∧ (q.idOk && q.stOk) = false := by
  unfold idUpd at h
  split_ifs at h with hc
  · cases h
  · simp only [List.mem_singleton] at h
    exact ⟨h, by simpa using hc⟩

theorem idUpd_of_bad {i : Int} {q : Pod} (h : (q.idOk && q.stOk) = false) : Action.update i ∈ idUpd i q := by
  unfold idUpd; simp [h]

theorem createsOf_idUpd (i : Int) (q : Pod) : createsOf (idUpd i q) = [] := by
  unfold idUpd; split_ifs <;> rfl

/-- the replica loop under OrderedReady: identity updates until the first slot that needs a pod, which it fills (after
    deleting a Failed/Succeeded occupant), and there it stops; the flag says whether it got through -/
def monoRep (v : SetView) (cur upd : String) : List (Int × Pod) → List Action × Bool
  | [] => ([], true)
  | (i, q) :: rest =>
    if q.fs then ([.delete i q.id .replaceFailed, .create i (newPod v cur upd i).rev], false)
    else if !q.created then ([.create i q.rev], false)
    else (idUpd i q ++ (monoRep v cur upd rest).1, (monoRep v cur upd rest).2)

theorem replicaStep_mono_plain (v : SetView) (cur upd : String) (s : St) (i : Int) (q : Pod) (hq : Plain q) :
    replicaStep v cur upd [] true s i q =
      (.next { s with acts := s.acts ++ idUpd i q }, q) := by
  obtain ⟨hfs, hcr, hrr, hnt⟩ := hq
  have hfs' : (q.failed || q.succeeded) = false := hfs
  unfold replicaStep replaceFailed
  simp only [hfs', Bool.false_eq_true, if_false]
  unfold ensurePod
  simp only [hcr, Bool.not_true, Bool.false_eq_true, if_false, hnt, Bool.false_and, hrr, hit_nil]
  unfold idUpd
  split_ifs <;> simp

theorem replicaLoop_mono (v : SetView) (cur upd : String) (reps : List (Int × Pod))
    (hq : ∀ ip ∈ reps, Plain ip.2 ∨ ip.2.fs = true ∨ ip.2.created = false) (s : St) :
    ((monoRep v cur upd reps).2 = true →
      ∃ s', replicaLoop v cur upd [] true s reps = (.next s', reps) ∧ s'.acts = s.acts ++ (monoRep v cur upd reps).1) ∧
    ((monoRep v cur upd reps).2 = false →
      ∃ s' reps', replicaLoop v cur upd [] true s reps = (.done s' .ok, reps') ∧ s'.acts = s.acts ++ (monoRep v cur upd reps).1) := by
  induction reps generalizing s with
  | nil =>
    refine ⟨fun _ => ⟨s, rfl, by simp [monoRep]⟩, fun h => ?_⟩
    simp [monoRep] at h
  | cons ip rest ih =>
    obtain ⟨i, q⟩ := ip
    have hrest : ∀ ip ∈ rest, Plain ip.2 ∨ ip.2.fs = true ∨ ip.2.created = false := fun ip hip => hq ip (List.mem_cons_of_mem _ hip)
    rcases hq (i, q) List.mem_cons_self with hp | hfs | hcr
    · -- walked past
      have hfs : q.fs = false := hp.1
      have hcr : q.created = true := hp.2.1
      unfold monoRep replicaLoop
      simp only [hfs, Bool.false_eq_true, if_false, hcr, Bool.not_true]
      rw [replicaStep_mono_plain v cur upd s i q hp]
      simp only
      obtain ⟨ih1, ih2⟩ := ih hrest { s with acts := s.acts ++ idUpd i q }
      constructor
      · intro hfl
        obtain ⟨s', h1, h2⟩ := ih1 hfl
        refine ⟨s', by rw [h1], ?_⟩
        rw [h2]; simp
      · intro hfl
        obtain ⟨s', reps', h1, h2⟩ := ih2 hfl
        refine ⟨s', (i, q) :: reps', by rw [h1], ?_⟩
        rw [h2]; simp
    · -- a Failed/Succeeded occupant: delete, create, stop
      have hfs' : (q.failed || q.succeeded) = true := hfs
      unfold monoRep replicaLoop
      simp only [hfs, if_true]
      refine ⟨fun h => by simp at h, fun _ => ?_⟩
      unfold replicaStep replaceFailed
      simp only [hfs', if_true, hit_nil, Bool.false_eq_true, if_false]
      unfold ensurePod
      simp only [newPod_created, Bool.not_false, if_true, hit_nil, Bool.false_eq_true, if_false]
      exact ⟨_, _, rfl, by simp⟩
    · -- a vacancy: create, stop
      by_cases hfs : q.fs = true
      · have hfs' : (q.failed || q.succeeded) = true := hfs
        unfold monoRep replicaLoop
        simp only [hfs, if_true]
        refine ⟨fun h => by simp at h, fun _ => ?_⟩
        unfold replicaStep replaceFailed
        simp only [hfs', if_true, hit_nil, Bool.false_eq_true, if_false]
        unfold ensurePod
        simp only [newPod_created, Bool.not_false, if_true, hit_nil, Bool.false_eq_true, if_false]
        exact ⟨_, _, rfl, by simp⟩
      · have hfs0 : q.fs = false := by simpa using hfs
        have hfs' : (q.failed || q.succeeded) = false := hfs0
        unfold monoRep replicaLoop
        simp only [hfs0, Bool.false_eq_true, if_false, hcr, Bool.not_false, if_true]
        refine ⟨fun h => by simp at h, fun _ => ?_⟩
        unfold replicaStep replaceFailed
        simp only [hfs', Bool.false_eq_true, if_false]
        unfold ensurePod
        simp only [hcr, Bool.not_false, if_true, hit_nil, Bool.false_eq_true, if_false]
        exact ⟨_, _, rfl, by simp⟩

/-- the condemned loop under OrderedReady on Running/Ready, non-terminating pods: the first (highest) one is deleted -/
def monoCond : List Pod → List Action
  | [] => []
  | c :: _ => [.delete c.ord c.id .scaleDown]

theorem condemnedLoop_mono (cur upd : String) (fu : Option Pod) (cs : List Pod)
    (hcs : ∀ c ∈ cs, c.runningAndReady = true ∧ c.terminating = false) (s : St) :
    (cs = [] → condemnedLoop cur upd [] true fu s cs = .next s) ∧
    (cs ≠ [] → ∃ s', condemnedLoop cur upd [] true fu s cs = .done s' .ok ∧ s'.acts = s.acts ++ monoCond cs) := by
  cases cs with
  | nil => exact ⟨fun _ => rfl, fun h => absurd rfl h⟩
  | cons c rest =>
    refine ⟨(fun h => by cases h), fun _ => ?_⟩
    obtain ⟨hrr, hnt⟩ := hcs c List.mem_cons_self
    unfold condemnedLoop
    simp only [hnt, Bool.false_eq_true, if_false, hrr, Bool.not_true, Bool.false_and, hit_nil, if_true]
    exact ⟨_, rfl, rfl⟩

end Asts.C02p
