import Asts.Model.Reconcile
import Mathlib.Tactic

/-! Calibration: under OrderedReady (`mono = true`) all create/delete actions of one `updateStatefulSet`
    target the same ordinal. -/
namespace Asts

/-- ordinals of the create and delete actions -/
def cd : List Action → List Int
  | [] => []
  | .create o _ :: l => o :: cd l
  | .delete o _ _ :: l => o :: cd l
  | .update _ :: l => cd l

@[simp] theorem cd_nil : cd [] = [] := rfl
@[simp] theorem cd_create (o r l) : cd (Action.create o r :: l) = o :: cd l := rfl
@[simp] theorem cd_delete (o i w l) : cd (Action.delete o i w :: l) = o :: cd l := rfl
@[simp] theorem cd_update (o l) : cd (Action.update o :: l) = cd l := rfl
@[simp] theorem cd_append (a b : List Action) : cd (a ++ b) = cd a ++ cd b := by
  induction a with
  | nil => rfl
  | cons x xs ih => cases x <;> simp [ih]

/-- all elements equal -/
def Same (l : List Int) : Prop := ∀ a ∈ l, ∀ b ∈ l, a = b

theorem same_nil : Same [] := by intro a ha; simp at ha
theorem same_of_all_eq {l : List Int} {i : Int} (h : ∀ a ∈ l, a = i) : Same l := by
  intro a ha b hb; rw [h a ha, h b hb]

/-! ### replica loop -/

theorem replaceFailed_cd (v cur upd f s i p) :
    match replaceFailed v cur upd f s i p with
    | .error (s', _) => ∃ l, cd s'.acts = cd s.acts ++ l ∧ ∀ a ∈ l, a = i
    | .ok (s', p') => (cd s'.acts = cd s.acts ∧ p' = p) ∨ (cd s'.acts = cd s.acts ++ [i] ∧ p'.created = false) := by
  unfold replaceFailed
  split_ifs with h1 h2
  · exact ⟨[i], by simp, by simp⟩
  · cases hnp : newPod v cur upd i with
    | error e => exact ⟨[i], by simp, by simp⟩
    | ok np =>
      right
      refine ⟨by simp, ?_⟩
      simp only [newPod, bind, Except.bind] at hnp
      cases hr : newPodRev v cur upd i with
      | error e => simp [hr] at hnp
      | ok r =>
        simp [hr, pure, Except.pure] at hnp
        subst hnp; simp [Pod.created]
  · left; exact ⟨rfl, rfl⟩

theorem ensurePod_mono_cd (cur upd f s i p) :
    match ensurePod cur upd f true s i p with
    | .next s' => cd s'.acts = cd s.acts ∧ p.created = true
    | .done s' _ => ∃ l, cd s'.acts = cd s.acts ++ l ∧ ∀ a ∈ l, a = i := by
  unfold ensurePod
  split_ifs with h1 h2 <;> simp_all

theorem replicaStep_mono_cd (v cur upd f s i p) :
    match (replicaStep v cur upd f true s i p).1 with
    | .next s' => cd s'.acts = cd s.acts
    | .done s' _ => ∃ l, cd s'.acts = cd s.acts ++ l ∧ ∀ a ∈ l, a = i := by
  unfold replicaStep
  have h := replaceFailed_cd v cur upd f s i p
  cases hr : replaceFailed v cur upd f s i p with
  | error so =>
    obtain ⟨s', o⟩ := so; rw [hr] at h; simpa using h
  | ok sp =>
    obtain ⟨s', p'⟩ := sp; rw [hr] at h
    have h2 := ensurePod_mono_cd cur upd f s' i p'
    simp only
    cases he : ensurePod cur upd f true s' i p' with
    | next s'' =>
      rw [he] at h2
      rcases h with ⟨h, _⟩ | ⟨_, hc⟩
      · simp [h2.1, h]
      · simp [hc] at h2
    | done s'' o =>
      rw [he] at h2
      obtain ⟨l, hl, hl'⟩ := h2
      rcases h with ⟨h, _⟩ | ⟨h, _⟩
      · exact ⟨l, by simp [hl, h], hl'⟩
      · refine ⟨i :: l, by simp [hl, h], ?_⟩
        intro a ha; rcases List.mem_cons.1 ha with rfl | ha
        · rfl
        · exact hl' a ha

theorem replicaLoop_mono_cd (v cur upd f) (reps : List (Int × Pod)) (s : St) :
    match (replicaLoop v cur upd f true s reps).1 with
    | .next s' => cd s'.acts = cd s.acts
    | .done s' _ => ∃ l i, cd s'.acts = cd s.acts ++ l ∧ ∀ a ∈ l, a = i := by
  induction reps generalizing s with
  | nil => simp [replicaLoop]
  | cons ip rest ih =>
    obtain ⟨i, p⟩ := ip
    have h1 := replicaStep_mono_cd v cur upd f s i p
    unfold replicaLoop
    cases hs : replicaStep v cur upd f true s i p with
    | mk c p' =>
      rw [hs] at h1; simp only at h1
      cases c with
      | next s' =>
        simp only at h1 ⊢
        have h2 := ih s'
        cases hl : replicaLoop v cur upd f true s' rest with
        | mk c2 rest' =>
          rw [hl] at h2; simp only at h2 ⊢
          cases c2 with
          | next s'' => simp only at h2 ⊢; rw [h2, h1]
          | done s'' o => simp only at h2 ⊢; obtain ⟨l, j, hl1, hl2⟩ := h2; exact ⟨l, j, by rw [hl1, h1], hl2⟩
      | done s' o =>
        simp only at h1 ⊢
        obtain ⟨l, hl1, hl2⟩ := h1
        exact ⟨l, i, hl1, hl2⟩

/-! ### condemned loop -/

theorem condemnedLoop_mono_cd (cur upd f fu) (cs : List Pod) (s : St) :
    match condemnedLoop cur upd f true fu s cs with
    | .next s' => cd s'.acts = cd s.acts
    | .done s' _ => ∃ l i, cd s'.acts = cd s.acts ++ l ∧ ∀ a ∈ l, a = i := by
  cases cs with
  | nil => simp [condemnedLoop]
  | cons c rest =>
    unfold condemnedLoop
    by_cases ht : c.terminating = true
    · simp only [ht, if_true]; exact ⟨[], 0, by simp, by simp⟩
    · simp only [ht, Bool.false_eq_true, if_false]
      by_cases hb : (!c.runningAndReady && true && (fu.map (·.id) != some c.id)) = true
      · simp only [hb, if_true]; exact ⟨[], 0, by simp, by simp⟩
      · simp only [hb, Bool.false_eq_true, if_false]
        by_cases hf : f.hit 1 c.ord = true
        · simp only [hf, if_true]; exact ⟨[c.ord], c.ord, by simp, by simp⟩
        · simp only [hf, Bool.false_eq_true, if_false, if_true]; exact ⟨[c.ord], c.ord, by simp, by simp⟩

/-! ### update walk -/

theorem updateLoop_cd (upd f slot m) (s : St) (t : Int) (fuel : Nat) :
    ∃ l i, cd (updateLoop upd f slot m s t fuel).1.acts = cd s.acts ++ l ∧ ∀ a ∈ l, a = i := by
  induction fuel generalizing s t with
  | zero => exact ⟨[], 0, by simp [updateLoop], by simp⟩
  | succ n ih =>
    unfold updateLoop
    by_cases h1 : t < m
    · simp only [h1, if_true]; exact ⟨[], 0, by simp, by simp⟩
    · simp only [h1, if_false]
      by_cases h2 : t < 0
      · simp only [h2, if_true]; exact ⟨[], 0, by simp, by simp⟩
      · simp only [h2, if_false]
        cases hsl : slot t with
        | none => simpa using ih s (t - 1)
        | some p =>
          simp only
          by_cases h3 : (p.rev != upd && !p.terminating) = true
          · simp only [h3, if_true]; exact ⟨[t], t, by simp, by simp⟩
          · simp only [h3, Bool.false_eq_true, if_false]
            by_cases h4 : (!p.healthy) = true
            · simp only [h4, if_true]; exact ⟨[], 0, by simp, by simp⟩
            · simp only [h4, Bool.false_eq_true, if_false]; exact ih s (t - 1)

/-! ### composition: under OrderedReady one reconcile creates/deletes at no more than one ordinal -/

theorem updateStage_cd (v upd f b reps) (s : St) :
    ∃ l i, cd (updateStage v upd f b reps s).1.acts = cd s.acts ++ l ∧ ∀ a ∈ l, a = i := by
  unfold updateStage
  split_ifs
  · exact ⟨[], 0, by simp, by simp⟩
  · split
    · exact ⟨[], 0, by simp, by simp⟩
    · exact updateLoop_cd ..
    · exact updateLoop_cd ..

theorem runLoops_mono_cd (v : SetView) (cur upd : String) (f : Faults) (p : Prepared) (hmono : v.parallel = false) :
    Same (cd (runLoops v cur upd f p).1.acts) := by
  unfold runLoops
  simp only [hmono, Bool.not_false]
  have hA := replicaLoop_mono_cd v cur upd f p.reps { status := p.st0 }
  cases hrl : replicaLoop v cur upd f true { status := p.st0 } p.reps with
  | mk c reps' =>
    rw [hrl] at hA
    cases c with
    | done s o =>
      simp only at hA ⊢
      obtain ⟨l, i, h1, h2⟩ := hA
      rw [h1]; simpa using same_of_all_eq h2
    | next s =>
      simp only at hA ⊢
      have hB := condemnedLoop_mono_cd cur upd f p.fu p.condemned.reverse s
      cases hcl : condemnedLoop cur upd f true p.fu s p.condemned.reverse with
      | done s' o =>
        rw [hcl] at hB; simp only at hB ⊢
        obtain ⟨l, i, h1, h2⟩ := hB
        rw [h1, hA]; simpa using same_of_all_eq h2
      | next s' =>
        rw [hcl] at hB; simp only at hB ⊢
        obtain ⟨l, i, h1, h2⟩ := updateStage_cd v upd f p.b reps' s'
        rw [h1, hB, hA]; simpa using same_of_all_eq h2

theorem C05_one_ordinal (v : SetView) (cur upd : String) (pods : List Pod) (f : Faults) (hmono : v.parallel = false) :
    Same (cd (updateStatefulSet v cur upd pods f).1.acts) := by
  unfold updateStatefulSet
  split
  · simpa using same_nil
  · split_ifs
    · simpa using same_nil
    · exact runLoops_mono_cd v cur upd f _ hmono

end Asts
