import Mathlib.Tactic
import Asts.Proofs.WE_Runs
import Asts.Proofs.C02_Stages
import Asts.Proofs.C02_Log
import Asts.Proofs.C02_NormSync
import Asts.Proofs.SY_b_AdoptExact
import Asts.Proofs.SY_b_Truncate

/-! # WE — a silent successful sync (empty fault plan) changes nothing

If the log of `syncF h i []` holds no write (every entry starts with `list:` or `get:`) and the outcome is `.ok`, then the
revision store is untouched, no status is written, no pod-control call is recorded and no entry of the log is an
adoption / release patch: `applySync` is the normalisation of the pod list and nothing else. -/
namespace Asts.WE
open Asts

def Quiet (l : List String) : Prop := ∀ e ∈ l, isWrite e = false

theorem isWrite_false_iff (e : String) :
    isWrite e = false ↔ ("list:".toList <+: e.toList) ∨ ("get:".toList <+: e.toList) := by
  unfold isWrite
  cases h1 : e.startsWith "list:" <;> cases h2 : e.startsWith "get:" <;> simp_all

theorem str_of_prefix (p e : String) (h : p.toList <+: e.toList) : ∃ r : String, e = p ++ r := by
  obtain ⟨t, ht⟩ := h
  refine ⟨String.ofList t, ?_⟩
  apply String.toList_injective
  rw [String.toList_append, String.toList_ofList, ht]

theorem noPatch_of_not_write (e : String) (h : isWrite e = false) : C02p.NoPatch e := by
  rcases (isWrite_false_iff e).mp h with h1 | h1
  · obtain ⟨r, rfl⟩ := str_of_prefix "list:" e h1
    have : ("list:" : String) ++ r = "list" ++ ":" ++ r := by rfl
    rw [this]
    exact C02p.noPatch_prefix "list" r (by decide) (by decide)
  · obtain ⟨r, rfl⟩ := str_of_prefix "get:" e h1
    have : ("get:" : String) ++ r = "get" ++ ":" ++ r := by rfl
    rw [this]
    exact C02p.noPatch_prefix "get" r (by decide) (by decide)

theorem isWrite_updatestatus : isWrite "updatestatus" = true := by unfold isWrite; simp
theorem isWrite_delKey (r : Rev) : isWrite (SYb.delKey r) = true := by
  unfold isWrite SYb.delKey; simp [toString, String.toList_append]
theorem isWrite_create_pod (n : String) : isWrite s!"create:pod:{n}" = true := by
  unfold isWrite; simp [toString, String.toList_append]
theorem isWrite_delete_pod (n : String) : isWrite s!"delete:pod:{n}" = true := by
  unfold isWrite; simp [toString, String.toList_append]
theorem isWrite_update_pod (n : String) : isWrite s!"update:pod:{n}" = true := by
  unfold isWrite; simp [toString, String.toList_append]
theorem isWrite_patch_pod (n : String) : isWrite s!"patch:pod:{n}" = true := by
  unfold isWrite; simp [toString, String.toList_append]
theorem isWrite_patchRevKey (r : Rev) : isWrite (SYb.patchRevKey r) = true := by
  unfold isWrite SYb.patchRevKey; simp [toString, String.toList_append]
theorem isWrite_create_rev (n : String) : isWrite (SYb.RevCall.create n).key = true := by
  unfold isWrite SYb.RevCall.key; simp [toString, String.toList_append]
theorem isWrite_update_rev (n : String) : isWrite (SYb.RevCall.update n).key = true := by
  unfold isWrite SYb.RevCall.key; simp [toString, String.toList_append]

theorem Quiet.append_left {a b : List String} (h : Quiet (a ++ b)) : Quiet a := fun e he => h e (List.mem_append_left _ he)
theorem Quiet.append_right {a b : List String} (h : Quiet (a ++ b)) : Quiet b := fun e he => h e (List.mem_append_right _ he)

theorem quiet_not_mem {l : List String} (h : Quiet l) {e : String} (hw : isWrite e = true) : e ∉ l := by
  intro he; rw [h e he] at hw; exact absurd hw (by decide)

end Asts.WE

namespace Asts.WE
open Asts

theorem filter_true_names (S : List Rev) : S.filter (fun x => !(([] : List Rev).map (·.name)).contains x.name) = S := by
  apply List.filter_eq_self.mpr
  intro x _; simp

/-- the end of a silent successful sync: no status write, no truncation, the recorded actions are the reconcile's -/
theorem finishF_quiet (i : SyncIn) (claimed : List CPod) (revs : List Rev) (cur upd : Rev) (cc : Int) (s : RevSt)
    (st : St) (out : Outcome) (hg : i.fresh.gone = false)
    (hok : (C02p.finishF i [] claimed revs cur upd cc s st out).outcome = .ok)
    (hq : Quiet (C02p.finishF i [] claimed revs cur upd cc s st out).log) :
    (C02p.finishF i [] claimed revs cur upd cc s st out).status = none ∧
    (C02p.finishF i [] claimed revs cur upd cc s st out).store = s.store ∧
    (C02p.finishF i [] claimed revs cur upd cc s st out).acts = st.acts ∧ Quiet s.tr.log := by
  unfold C02p.finishF at hok hq ⊢
  cases out with
  | err => simp at hok
  | panic m => simp at hok
  | ok =>
    simp only at hok hq ⊢
    by_cases hinc : inconsistentStatus i.stored (completeRollingUpdate i.view st.status) = true
    · rw [if_pos hinc] at hq
      rw [hg, C02p.statusWriteF_nil] at hq
      simp only [Bool.not_true, Bool.false_eq_true, if_false] at hq
      rw [SYb.truncateF_log] at hq
      exact absurd (hq "updatestatus" (by simp)) (by rw [isWrite_updatestatus]; decide)
    · rw [if_neg hinc] at hok hq ⊢
      simp only at hok hq ⊢
      rw [SYb.truncateF_log] at hq
      have hd : SYb.truncDeletes [] i.historyLimit (claimed.map (·.pod.rev)) revs cur upd s = [] := by
        cases hdl : SYb.truncDeletes [] i.historyLimit (claimed.map (·.pod.rev)) revs cur upd s with
        | nil => rfl
        | cons r rest =>
          rw [hdl] at hq
          exact absurd (hq (SYb.delKey r) (by simp)) (by rw [isWrite_delKey]; decide)
      refine ⟨trivial, ?_, trivial, hq.append_left⟩
      cases hlim : i.historyLimit with
      | none => rw [hlim, SYb.truncateF_none] at hok; simp at hok
      | some lim =>
        rw [hlim] at hd
        obtain ⟨_, _, d, hd1, _, _, _, hst⟩ := SYb.truncateF_result [] lim (claimed.map (·.pod.rev)) revs cur upd s
        rw [hst, hd]
        simp

end Asts.WE

namespace Asts.WE
open Asts

theorem updateAttempts_nil (key : String) (n : Nat) : updateAttempts [] key 4 n = (n + 1, true) := by
  unfold updateAttempts; simp

theorem updateResult_nil_fst (setName : String) (pods claimed : List CPod) (b : Int) (E : List Int) (o : Int) :
    (updateResult setName [] pods claimed b E o).1 = 1 := by
  unfold updateResult
  split
  · split
    · simp
    · rw [updateAttempts_nil]
  · rw [updateAttempts_nil]

/-- every pod-control call leaves a write in the log (empty fault plan) -/
theorem actLog_has_write (setName : String) (pods claimed : List CPod) (b : Int) (E : List Int) (a : Action) :
    ∃ e ∈ actLog setName [] pods claimed b E a, isWrite e = true := by
  cases a with
  | create o r => exact ⟨_, by unfold actLog; exact List.mem_singleton.mpr rfl, isWrite_create_pod _⟩
  | delete o id w => exact ⟨_, by unfold actLog; exact List.mem_singleton.mpr rfl, isWrite_delete_pod _⟩
  | update o =>
    refine ⟨s!"update:pod:{canonicalName setName o}", ?_, isWrite_update_pod _⟩
    show _ ∈ List.replicate (updateResult setName [] pods claimed b E o).1 s!"update:pod:{canonicalName setName o}"
    rw [updateResult_nil_fst]
    simp

/-- the reconcile stage of a silent successful sync records no action -/
theorem reconcileF_quiet (i : SyncIn) (claimed : List CPod) (revs : List Rev) (cur upd : Rev) (cc : Int) (s : RevSt)
    (hg : i.fresh.gone = false)
    (hok : (C02p.reconcileF i [] claimed revs cur upd cc s).outcome = .ok)
    (hq : Quiet (C02p.reconcileF i [] claimed revs cur upd cc s).log) :
    (C02p.reconcileF i [] claimed revs cur upd cc s).status = none ∧
    (C02p.reconcileF i [] claimed revs cur upd cc s).store = s.store ∧
    (C02p.reconcileF i [] claimed revs cur upd cc s).acts = [] ∧ Quiet s.tr.log := by
  unfold C02p.reconcileF at hok hq ⊢
  simp only at hok hq ⊢
  obtain ⟨h1, h2, h3, h4⟩ := finishF_quiet i claimed revs cur upd cc _ _ _ hg hok hq
  simp only at h4
  refine ⟨h1, h2, ?_, h4.append_left⟩
  rw [h3]
  cases hacts : (updateStatefulSet i.view cur.name upd.name (claimed.map (·.pod))
      (podFaults i.setName [] i.pods claimed (maxReplicaAndSlots (i.view.replicas.getD 0) i.view.slots).1
        (maxReplicaAndSlots (i.view.replicas.getD 0) i.view.slots).2)).1.acts with
  | nil => rfl
  | cons a rest =>
    exfalso
    rw [hacts] at h4
    obtain ⟨e, he, hw⟩ := actLog_has_write i.setName i.pods claimed
      (maxReplicaAndSlots (i.view.replicas.getD 0) i.view.slots).1 (maxReplicaAndSlots (i.view.replicas.getD 0) i.view.slots).2 a
    have := h4.append_right e (by simp only [List.map_cons, List.flatten_cons]; exact List.mem_append_left _ he)
    rw [this] at hw; exact absurd hw (by decide)

end Asts.WE

namespace Asts.WE
open Asts Asts.SYb

theorem renumberCalls_head (plan : List Fault) (name : String) (fuel : Nat) (t : Tr) :
    ∃ rest, renumberCalls plan name (fuel + 1) t = .update name :: rest := by
  unfold renumberCalls
  split
  · exact ⟨_, rfl⟩
  · split <;> exact ⟨_, rfl⟩

theorem createCalls_head (h : Hashing) (plan : List Fault) (fresh : Rev) (fuel : Nat) (cc : Int) (s : RevSt) :
    ∃ rest, createCalls h plan fresh (fuel + 1) cc s = .create (h.nameOf fresh.data cc) :: rest := by
  unfold createCalls
  split
  · exact ⟨_, rfl⟩
  · split
    · split <;> exact ⟨_, rfl⟩
    · exact ⟨_, rfl⟩
  · exact ⟨_, rfl⟩

/-- a resolution of the revisions that logs no write leaves the store alone -/
theorem pickF_quiet_store (h : Hashing) (plan : List Fault) (t : String) (cc0 : Int) (revs : List Rev) (s : RevSt)
    (hq : Quiet ((pickCalls h plan t cc0 revs s).map RevCall.key)) : (pickF h plan t cc0 revs s).1.store = s.store := by
  have hcreate : Quiet ((createCalls h plan (freshOf h t cc0 revs) (s.store.length + 8) cc0 s).map RevCall.key) → False := by
    intro hc
    have hlen : s.store.length + 8 = (s.store.length + 7) + 1 := by omega
    rw [hlen] at hc
    obtain ⟨rest, hr⟩ := createCalls_head h plan (freshOf h t cc0 revs) (s.store.length + 7) cc0 s
    rw [hr] at hc
    exact absurd (hc (RevCall.create (h.nameOf (freshOf h t cc0 revs).data cc0)).key (by simp)) (by rw [isWrite_create_rev]; decide)
  unfold pickCalls at hq
  unfold pickF
  cases he : (equalsOf h t cc0 revs).getLast? with
  | none =>
    rw [he] at hq
    simp only at hq
    exact absurd hq hcreate
  | some e =>
    cases hl : revs.getLast? with
    | none =>
      rw [he, hl] at hq
      simp only at hq
      exact absurd hq hcreate
    | some l =>
      rw [he, hl] at hq
      simp only at hq ⊢
      split_ifs at hq ⊢ with c1 c2
      · rfl
      · rfl
      all_goals
        exfalso
        obtain ⟨rest, hr⟩ := renumberCalls_head plan e.name 3 s.tr
        rw [hr] at hq
        exact absurd (hq (RevCall.update e.name).key (by simp)) (by rw [isWrite_update_rev]; decide)

end Asts.WE

namespace Asts.WE
open Asts Asts.SYb

theorem revisionsF_quiet (h : Hashing) (i : SyncIn) (claimed : List CPod) (s : RevSt) (hg : i.fresh.gone = false)
    (hok : (C02p.revisionsF h i [] claimed s).outcome = .ok)
    (hq : Quiet (C02p.revisionsF h i [] claimed s).log) :
    (C02p.revisionsF h i [] claimed s).status = none ∧ (C02p.revisionsF h i [] claimed s).store = s.store ∧
    (C02p.revisionsF h i [] claimed s).acts = [] ∧ Quiet s.tr.log := by
  unfold C02p.revisionsF at hok hq ⊢
  rw [C02p.listRevsF_nil] at hok hq ⊢
  simp only at hok hq ⊢
  rw [SYb.getRevisionsF_eq] at hok hq ⊢
  have hlog := pickF_log h [] i.template (i.collisionCount.getD 0) (sortRevs (listRevisions s.store))
    { s with tr := { log := s.tr.log ++ ["list:revs", "list:revs"] } }
  have hstore := pickF_quiet_store h [] i.template (i.collisionCount.getD 0) (sortRevs (listRevisions s.store))
    { s with tr := { log := s.tr.log ++ ["list:revs", "list:revs"] } }
  generalize pickF h [] i.template (i.collisionCount.getD 0) (sortRevs (listRevisions s.store))
    { s with tr := { log := s.tr.log ++ ["list:revs", "list:revs"] } } = pk at hok hq hlog hstore ⊢
  obtain ⟨sG, ro⟩ := pk
  cases ro with
  | none => simp at hok
  | some t =>
    obtain ⟨upd, cc⟩ := t
    simp only [Option.map_some] at hok hq ⊢
    obtain ⟨h1, h2, h3, h4⟩ := reconcileF_quiet i claimed _ _ upd cc sG hg hok hq
    simp only at hlog hstore
    rw [hlog] at h4
    refine ⟨h1, ?_, h3, h4.append_left.append_left⟩
    rw [h2, hstore h4.append_right]

end Asts.WE

namespace Asts.WE
open Asts Asts.SYb

/-- **a silent successful sync changes nothing** (empty fault plan; the API copy of the set is there) -/
theorem silent_sync (h : Hashing) (i : SyncIn) (hg : i.fresh.gone = false)
    (hok : (syncF h i []).outcome = .ok) (hq : Quiet (syncF h i []).log) :
    (syncF h i []).store = i.store ∧ (syncF h i []).status = none ∧ (syncF h i []).acts = [] := by
  rw [C02p.syncF_stages] at hok hq ⊢
  by_cases hrun : (i.paused || !i.selectorOk) = true
  · rw [if_pos hrun]; exact ⟨rfl, rfl, rfl⟩
  · rw [if_neg hrun] at hok hq ⊢
    cases hA : adoptOrphanRevisionsF [] i.view.deleting i.fresh { store := i.store } with
    | mk A out =>
      rw [hA] at hok hq
      cases out with
      | err => simp at hok
      | panic m => simp at hok
      | ok =>
        simp only at hok hq ⊢
        by_cases hf : (claimPodsF [] i.view.deleting i.fresh i.pods A.tr).failed = true
        · rw [if_pos hf] at hok; simp at hok
        · rw [if_neg hf] at hok hq ⊢
          obtain ⟨h1, h2, h3, h4⟩ := revisionsF_quiet h i _ _ hg hok hq
          simp only at h2 h4
          refine ⟨?_, h1, h3⟩
          rw [h2]
          obtain ⟨m, hm, _⟩ := claim_log [] i.view.deleting i.fresh i.pods A.tr
          rw [hm] at h4
          have hqA : Quiet A.tr.log := h4.append_left
          rcases adopt_ok_exact [] i.view.deleting i.fresh { store := i.store } A hA with ⟨_, hst, _⟩ | ⟨_, hany, _, _, hsucc⟩
          · exact hst
          · exfalso
            obtain ⟨r, hr, hro⟩ := List.any_eq_true.mp hany
            have hro' : r.owner = .none := by simpa using hro
            obtain ⟨pre, post, hlog, _⟩ := hsucc r hr hro'
            exact quiet_not_mem hqA (isWrite_patchRevKey r) (by rw [hlog]; simp)

end Asts.WE
