import Asts.Proofs.C02_CStep

/-! C02, worlds with non-members: the world after a round is again a world the argument speaks about. -/
namespace Asts.C02p
open Asts Asts.L1c

theorem nextW_setName0 (h : Hashing) (x : SyncIn) : (nextW h x).setName = x.setName := rfl
theorem nextW_replicas0 (h : Hashing) (x : SyncIn) : replicasOf (nextW h x).view = replicasOf x.view := rfl
theorem nextW_slots0 (h : Hashing) (x : SyncIn) : (nextW h x).view.slots = x.view.slots := rfl
theorem nextW_desired0 (h : Hashing) (x : SyncIn) :
    desired (replicasOf (nextW h x).view) (nextW h x).view.slots = desired (replicasOf x.view) x.view.slots := rfl
theorem nextW_fresh0 (h : Hashing) (x : SyncIn) :
    (nextW h x).fresh.gone = false ∧ (nextW h x).fresh.uidOk = true ∧ (nextW h x).fresh.deleting = x.view.deleting :=
  ⟨rfl, rfl, rfl⟩
theorem nextW_spec0 (h : Hashing) (x : SyncIn) (hs : SpecOk x) : SpecOk (nextW h x) :=
  ⟨hs.paused, hs.sel, hs.del, hs.rep, hs.r0, hs.strat, hs.lim⟩

section
variable {h : Hashing} {x : SyncIn} {G : List Rev} {upd : Rev} {cc : Int}

/-- what a member of the next world looks like -/
theorem StepRaw.memProps (hp : PreM x) (hs : NSC h (prepW h (mOf x))) (hpol : Pol hs.norm) (hr : StepRaw h x hs.norm) :
    ∀ c ∈ (nextW h x).pods, c.member = true →
      c.selMatch = true ∧ c.name = canonicalName x.setName c.pod.ord ∧ 0 ≤ c.pod.ord ∧
      c.pod.stOk = true ∧ c.pod.created = true ∧
      (c.pod.ord ∈ desired (replicasOf x.view) x.view.slots ∨ ∃ c0 ∈ x.pods, c0.member = true ∧ c0.name = c.name) := by
  intro c hc hm
  have hown : own c ∈ (Y (nextW h x)).pods := by rw [Y_pods, mem_ownM]; exact ⟨c, hc, hm, rfl⟩
  obtain ⟨y1, hy1, hky1⟩ := hr.keyPerm.mem hown
  obtain ⟨y, hy, hky2⟩ := (nextW_pods hs hpol).mem hy1
  have hky : key y = key (own c) := hky2.trans hky1
  obtain ⟨_, _, a3, a4, a5, a7, a8, a9, _⟩ := rawNext_pod hs hpol hy
  have e3 : y.selMatch = c.selMatch := (key_transfer (·.selMatch) (fun _ => rfl) hky : y.selMatch = (own c).selMatch)
  have e4 : y.name = c.name := (key_transfer (·.name) (fun _ => rfl) hky : y.name = (own c).name)
  have e5 : y.pod.ord = c.pod.ord := (key_transfer (·.pod.ord) (fun _ => rfl) hky : y.pod.ord = (own c).pod.ord)
  have e7 : y.pod.stOk = c.pod.stOk := (key_transfer (·.pod.stOk) (fun _ => rfl) hky : y.pod.stOk = (own c).pod.stOk)
  have e8 : y.pod.created = c.pod.created :=
    (key_transfer (·.pod.created) (fun _ => rfl) hky : y.pod.created = (own c).pod.created)
  have hsn : (prepW h (mOf x)).setName = x.setName := rfl
  rw [hsn] at a4
  refine ⟨by rw [← e3]; exact a3, by rw [← e4, ← e5]; exact a4, by rw [← e5]; exact a5,
    by rw [← e7]; exact a7, by rw [← e8]; exact a8, ?_⟩
  rcases a9 with h1 | ⟨c1, hc1, hco⟩
  · left
    rw [← e5]
    exact (mem_desired_iff hs.norm _).2 h1
  · right
    rw [prepW_pods, mem_ownM] at hc1
    obtain ⟨c0, hc0, hm0, rfl⟩ := hc1
    refine ⟨c0, hc0, hm0, ?_⟩
    have hco' : c0.pod.ord = y.pod.ord := hco
    rw [(hp.mem c0 hc0 hm0).2.2.1, hco', ← e4, a4]

theorem StepRaw.ords (hs : NSC h (prepW h (mOf x))) (hpol : Pol hs.norm) (hr : StepRaw h x hs.norm) :
    (((nextW h x).pods.filter (·.member)).map (·.pod.ord)).Nodup := by
  have e : ((nextW h x).pods.filter (·.member)).map (·.pod.ord) = (Y (nextW h x)).pods.map (·.pod.ord) := by
    rw [Y_pods, ownM_ords]
  rw [e, hr.keyPerm.ords.nodup_iff]
  exact (nextW_ns hs hpol).norm.ords

theorem StepRaw.cntNm {hn : NormC h (prepW h (mOf x))} (hr : StepRaw h x hn) :
    ((nextW h x).pods.filter (fun c => !c.member)).length ≤ (x.pods.filter (fun c => !c.member)).length := by
  obtain ⟨L, h1, h2⟩ := hr.nmNames
  have e1 := h1.length_eq
  have e2 := h2.length_le
  simp only [List.length_map] at e1 e2
  omega

theorem StepRaw.cntOut (hs : NSC h (prepW h (mOf x))) (hpol : Pol hs.norm) (hr : StepRaw h x hs.norm) :
    (((nextW h x).pods.filter (·.member)).filter
      (fun c => !(desired (replicasOf x.view) x.view.slots).contains c.pod.ord)).length ≤
    ((x.pods.filter (·.member)).filter (fun c => !(desired (replicasOf x.view) x.view.slots).contains c.pod.ord)).length := by
  have e1 := ownM_filter_len (nextW h x).pods (fun c => !(desired (replicasOf x.view) x.view.slots).contains c.pod.ord)
    (fun _ => rfl)
  have e2 := ownM_filter_len x.pods (fun c => !(desired (replicasOf x.view) x.view.slots).contains c.pod.ord)
    (fun _ => rfl)
  rw [← e1, ← e2]
  have e3 := (hr.keyPerm.filter (fun c => !(desired (replicasOf x.view) x.view.slots).contains c.pod.ord) (fun _ => rfl)).length
  rw [Y_pods] at e3
  rw [e3]
  have hview : (prepW h (mOf x)).view = x.view := rfl
  have key := nextW_outside_le hs hpol
  rw [hview, prepW_pods] at key
  exact key

theorem StepRaw.room (hroom : roomM x) (hs : NSC h (prepW h (mOf x))) (hpol : Pol hs.norm) (hr : StepRaw h x hs.norm) :
    roomM (nextW h x) := by
  unfold roomM at hroom ⊢
  rw [nextW_desired0, nextW_replicas0]
  have := hr.cntNm
  have := hr.cntOut hs hpol
  omega

theorem StepRaw.small (hroom : roomM x) (hs : NSC h (prepW h (mOf x))) (hpol : Pol hs.norm) (hr : StepRaw h x hs.norm) :
    (nextW h x).pods.length ≤ freshId := by
  have h1 := List.length_eq_length_filter_add (l := (nextW h x).pods) (fun c => c.member)
  have h2 := length_split_le (D := desired (replicasOf x.view) x.view.slots) (hr.ords hs hpol)
  rw [(desired_isDesired _ _).len] at h2
  have h4 := hr.room hroom hs hpol
  unfold roomM at h4
  rw [nextW_desired0, nextW_replicas0] at h4
  omega

/-- **the world after the round is again a world the argument speaks about** -/
theorem StepRaw.preM (hp : PreM x) (hroom : roomM x)
    (hpick : PickOut h x.template (x.collisionCount.getD 0) (adoptS x.store) G upd cc)
    (hs : NSC h (prepW h (mOf x))) (hpol : Pol hs.norm) (hr : StepRaw h x hs.norm) : PreM (nextW h x) := by
  have hsmall := hr.small hroom hs hpol
  have hmp := hr.memProps hp hs hpol
  have hown := hr.ownP hp
  obtain ⟨L, hL1, hL2⟩ := hr.nmNames
  have hnmOld : ∀ c ∈ (nextW h x).pods, c.member = false → ∃ c0 ∈ x.pods, c0.member = false ∧ c0.name = c.name := by
    intro c hc hm
    have : c.name ∈ ((nextW h x).pods.filter (fun c => !c.member)).map (·.name) :=
      List.mem_map.2 ⟨c, List.mem_filter.2 ⟨hc, by simp [hm]⟩, rfl⟩
    have := hL2.subset (hL1.subset this)
    rw [List.mem_map] at this
    obtain ⟨c0, hc0, hce⟩ := this
    rw [List.mem_filter] at hc0
    exact ⟨c0, hc0.1, by simpa using hc0.2, hce⟩
  refine ⟨nextW_spec0 h x hp.spec, ?_, hr.ords hs hpol, ?_, ?_, ?_, idOk_of_idPos (settle_idPos _) hsmall, hsmall,
    hp.smallR, rfl, rfl, hp.spec.del, fun c hc => (settle_settled _ c hc).1, hp.colon, ?_⟩
  · intro c hc hm
    obtain ⟨b1, b2, b3, b5, b6, _⟩ := hmp c hc hm
    refine ⟨?_, b1, b2, b3, b5, b6⟩
    rcases hown c hc hm with h1 | h1
    · exact Or.inl h1
    · exact Or.inr h1.1
  · have hsplit : (nextW h x).pods.Perm ((nextW h x).pods.filter (fun c => decide (c.member = true)) ++
        (nextW h x).pods.filter (fun c => !decide (c.member = true))) :=
      (List.filter_append_perm _ _).symm
    have e1 : (nextW h x).pods.filter (fun c => decide (c.member = true)) = (nextW h x).pods.filter (·.member) := by
      apply List.filter_congr; intro c _; simp
    have e2 : (nextW h x).pods.filter (fun c => !decide (c.member = true)) = (nextW h x).pods.filter (fun c => !c.member) := by
      apply List.filter_congr; intro c _; simp
    rw [e1, e2] at hsplit
    rw [(hsplit.map _).nodup_iff, List.map_append, List.nodup_append]
    refine ⟨?_, ?_, ?_⟩
    · have : ((nextW h x).pods.filter (·.member)).map (·.name) =
          (((nextW h x).pods.filter (·.member)).map (·.pod.ord)).map (canonicalName x.setName) := by
        rw [List.map_map]
        apply List.map_congr_left
        intro c hc
        rw [List.mem_filter] at hc
        exact (hmp c hc.1 hc.2).2.1
      rw [this]
      exact canon_map_nodup _ (hr.ords hs hpol)
    · rw [hL1.nodup_iff]
      exact hL2.nodup ((List.Sublist.map _ List.filter_sublist).nodup hp.podNames)
    · intro a ha b hb
      rw [List.mem_map] at ha hb
      obtain ⟨c, hc, rfl⟩ := ha
      obtain ⟨d, hd, rfl⟩ := hb
      rw [List.mem_filter] at hc hd
      have hdm : d.member = false := by simpa using hd.2
      obtain ⟨d0, hd0, hd0m, hd0n⟩ := hnmOld d hd.1 hdm
      obtain ⟨_, b2, _, _, _, b7⟩ := hmp c hc.1 hc.2
      intro heq
      rcases b7 with hin | ⟨c0, hc0, hc0m, hc0n⟩
      · exact hp.inertNames d0 hd0 hd0m _ hin (by rw [hd0n, ← heq, b2])
      · have : c0 = d0 := List.inj_on_of_nodup_map hp.podNames hc0 hd0 (by rw [hc0n, hd0n, heq])
        rw [this, hd0m] at hc0m
        cases hc0m
  · intro c hc hm o ho
    obtain ⟨c0, hc0, hc0m, hc0n⟩ := hnmOld c hc hm
    rw [← hc0n]
    rw [nextW_desired0] at ho
    exact hp.inertNames c0 hc0 hc0m o ho
  · intro c hc hm hself
    exact absurd hself (hr.inert c hc hm)
  · have hst : (nextW h x).store = (nextW h (prepW h (mOf x))).store := congrArg (·.store) hr.rest
    rw [hst, nextW_store hs hpol]
    have hG : (prepW h (mOf x)).store = G := (prep_eq hp.preC (mOf_pick hpick)).1
    rw [hG]
    exact (List.Sublist.map _ List.filter_sublist).nodup hpick.names

end

end Asts.C02p
