import Asts.Model.Reconcile
import Asts.Proofs.Desired
import Mathlib.Tactic

/-! # Invariants of `prepare` (what `updateStatefulSet` computes before its first write)

* the index list of `reps` is `podOrdinals r v.slots` (= `desired r v.slots` for `0 ≤ r`),
* every `(i, p) ∈ reps` has `p.ord = i` and is either a pod of the snapshot or the fresh object `newPod v cur upd i`
  with no pod of the snapshot at ordinal `i`,
* every condemned pod is a pod of the snapshot whose ordinal is outside the desired set. -/
namespace Asts
open List

/-! ### `condemnedOf` -/

theorem mem_insertByOrd {x p : Pod} {l : List Pod} : x ∈ insertByOrd p l ↔ x = p ∨ x ∈ l := by
  induction l with
  | nil => simp [insertByOrd]
  | cons q qs ih =>
    unfold insertByOrd
    split_ifs
    · simp
    · simp [ih]; tauto

theorem mem_foldl_insertByOrd {x : Pod} (l acc : List Pod) :
    x ∈ l.foldl (fun acc p => insertByOrd p acc) acc ↔ x ∈ acc ∨ x ∈ l := by
  induction l generalizing acc with
  | nil => simp
  | cons a as ih => simp [ih, mem_insertByOrd]; tauto

theorem mem_condemnedOf {b : Int} {E : List Int} {pods : List Pod} {c : Pod} :
    c ∈ condemnedOf b E pods ↔ c ∈ pods ∧ isCondemned b E c.ord = true := by
  unfold condemnedOf
  rw [mem_foldl_insertByOrd]
  simp

/-! ### `slotOf` -/

theorem slotOf_some {b : Int} {E : List Int} {pods : List Pod} {o : Int} {p : Pod}
    (h : slotOf b E pods o = some p) : p ∈ pods ∧ p.ord = o := by
  unfold slotOf at h
  have hm := List.mem_of_getLast? h
  rw [List.mem_filter] at hm
  refine ⟨hm.1, ?_⟩
  have := hm.2
  simp only [Bool.and_eq_true, beq_iff_eq] at this
  exact this.1

theorem slotOf_none {b : Int} {E : List Int} {pods : List Pod} {o : Int}
    (h : slotOf b E pods o = none) (hin : inRange b E o = true) : ∀ q ∈ pods, q.ord ≠ o := by
  unfold slotOf at h
  rw [List.getLast?_eq_none_iff, List.filter_eq_nil_iff] at h
  intro q hq heq
  apply h q hq
  simp [heq, hin]

/-! ### the index list -/

theorem mem_idx {b : Int} {E : List Int} {i : Int}
    (h : i ∈ ((List.range b.toNat).map Int.ofNat).filter (fun i => !E.contains i)) : inRange b E i = true := by
  rw [List.mem_filter, List.mem_map] at h
  obtain ⟨⟨n, hn, rfl⟩, hE⟩ := h
  rw [List.mem_range] at hn
  simp only [inRange, Int.ofNat_eq_natCast, Bool.and_eq_true, decide_eq_true_eq]
  exact ⟨⟨by omega, by omega⟩, hE⟩

theorem podOrdinals_eq_of {r : Int} {S : List Int} {b : Int} {E : List Int} (h : maxReplicaAndSlots r S = (b, E)) :
    podOrdinals r S = ((List.range b.toNat).map Int.ofNat).filter (fun i => !E.contains i) := by
  simp [podOrdinals, h]

theorem not_condemned_of_inRange {b : Int} {E : List Int} {o : Int} (h : inRange b E o = true) :
    isCondemned b E o = false := by
  simp [isCondemned, h]

/-! ### `prepare`, explicitly -/

/-- The prepared state, in closed form. -/
theorem prepare_ok {v : SetView} {cur upd : String} {pods : List Pod} {r : Int} {p : Prepared}
    (hr : v.replicas = some r) (h : prepare v cur upd pods = .ok p) :
    p.reps = (podOrdinals r v.slots).map (fun i =>
        (i, (slotOf (maxReplicaAndSlots r v.slots).1 (maxReplicaAndSlots r v.slots).2 pods i).getD (newPod v cur upd i))) ∧
    p.condemned = condemnedOf (maxReplicaAndSlots r v.slots).1 (maxReplicaAndSlots r v.slots).2 pods ∧
    p.fu = (firstUnhealthy (p.reps.map (·.2) ++ p.condemned)).1 ∧
    p.st0 = { census cur upd pods with observedGen := v.generation, currentRev := cur, updateRev := upd } := by
  unfold prepare at h
  rw [hr] at h
  simp only at h
  rcases hbe : maxReplicaAndSlots r v.slots with ⟨b, E⟩
  rw [hbe] at h
  simp only at h
  rw [podOrdinals_eq_of hbe]
  split at h
  · cases h
  · cases h
    simp

/-- `prepare` fails only by panicking. -/
theorem prepare_error_acts {v : SetView} {cur upd : String} {pods : List Pod} {f : Faults} {st : Status} {o : Outcome}
    (h : prepare v cur upd pods = .error (st, o)) : (updateStatefulSet v cur upd pods f).1.acts = [] := by
  unfold updateStatefulSet; rw [h]

/-- The invariants the loops rely on, over an abstract desired list `D`. -/
structure PrepInv (v : SetView) (cur upd : String) (pods : List Pod) (D : List Int) (p : Prepared) : Prop where
  idx  : p.reps.map (·.1) = D
  rep  : ∀ ip ∈ p.reps, ip.1 ∈ D ∧ ip.2.ord = ip.1 ∧
            (ip.2 ∈ pods ∨ (ip.2 = newPod v cur upd ip.1 ∧ ∀ q ∈ pods, q.ord ≠ ip.1))
  cond : ∀ c ∈ p.condemned, c ∈ pods ∧ c.ord ∉ D

theorem prepare_inv {v : SetView} {cur upd : String} {pods : List Pod} {r : Int} {p : Prepared}
    (hr : v.replicas = some r) (h : prepare v cur upd pods = .ok p) :
    PrepInv v cur upd pods (podOrdinals r v.slots) p := by
  obtain ⟨hreps, hcond, -, -⟩ := prepare_ok hr h
  rcases hbe : maxReplicaAndSlots r v.slots with ⟨b, E⟩
  rw [hbe] at hreps hcond
  simp only at hreps hcond
  have hD := podOrdinals_eq_of hbe
  refine ⟨?_, ?_, ?_⟩
  · rw [hreps, List.map_map, hD]; simp [Function.comp_def]
  · intro ip hip
    rw [hreps, List.mem_map] at hip
    obtain ⟨i, hi, rfl⟩ := hip
    have hin : inRange b E i = true := mem_idx (hD ▸ hi)
    refine ⟨hi, ?_⟩
    simp only
    cases hs : slotOf b E pods i with
    | none =>
      simp only [Option.getD_none]
      exact ⟨rfl, Or.inr ⟨trivial, slotOf_none hs hin⟩⟩
    | some q =>
      simp only [Option.getD_some]
      have := slotOf_some hs
      exact ⟨this.2, Or.inl this.1⟩
  · intro c hc
    rw [hcond, mem_condemnedOf] at hc
    refine ⟨hc.1, fun hmem => ?_⟩
    have hin : inRange b E c.ord = true := mem_idx (hD ▸ hmem)
    rw [not_condemned_of_inRange hin] at hc
    exact absurd hc.2 (by simp)

/-! ### the desired set for every `r` (negative `r`: both sides are empty) -/

theorem extend_nonpos {b : Int} (hb : b ≤ 0) (l : List Int) : extend b l = (b, []) := by
  induction l with
  | nil => rfl
  | cons a as ih =>
    have ha : ¬ (0 ≤ a ∧ a < b) := by omega
    simp only [extend, ha, if_false]
    exact ih

theorem podOrdinals_eq_desired' (r : Int) (S : List Int) : podOrdinals r S = desired r S := by
  by_cases hr : 0 ≤ r
  · exact podOrdinals_eq_desired r S hr
  · have h0 : r.toNat = 0 := by omega
    have h1 : maxReplicaAndSlots r S = (r, []) := extend_nonpos (by omega) _
    rw [podOrdinals_eq_of h1]
    simp [h0, desired, desiredAux]

end Asts
