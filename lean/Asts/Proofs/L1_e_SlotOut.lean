import Asts.Proofs.L1_a_SlotK
import Mathlib.Tactic

/-! # `slot_out_only` — un-listing ordinal `k` (replicas + 1) creates pod `k` and touches no other pod -/
namespace Asts
open List

/-- the replica loop passes over a healthy, consistent prefix without an action -/
theorem replicaLoop_quiet_append (v : SetView) (cur upd : String) (f : Faults) (mono : Bool) (R1 R2 : List (Int × Pod))
    (hR : ∀ ip ∈ R1, ip.2.healthy = true ∧ ip.2.idOk = true ∧ ip.2.stOk = true) (s : St) :
    replicaLoop v cur upd f mono s (R1 ++ R2) =
      ((replicaLoop v cur upd f mono s R2).1, R1 ++ (replicaLoop v cur upd f mono s R2).2) := by
  induction R1 generalizing s with
  | nil => rfl
  | cons ip rest ih =>
    obtain ⟨i, p⟩ := ip
    obtain ⟨hh, hid, hst⟩ := hR (i, p) (by simp)
    simp only at hh hid hst
    obtain ⟨h1, h2, h3, h4, h5⟩ := healthy_facts hh
    have hstep : replicaStep v cur upd f mono s i p = (.next s, p) := by
      simp [replicaStep, replaceFailed, ensurePod, h1, h2, h3, h4, h5, hid, hst]
    rw [List.cons_append]
    conv_lhs => unfold replicaLoop
    rw [hstep]
    simp only
    rw [ih (fun ip hip => hR ip (by simp [hip]))]
    rfl

/-- the update walk deletes nothing when every pod it may look at is at the update revision (healthy or not) -/
theorem updateWalk_allupd (cur upd : String) (f : Faults) (s : St) (W : List (Int × Pod))
    (h : ∀ tp ∈ W, tp.2.rev = upd) : updateWalk cur upd f s W = (s, .ok) := by
  induction W with
  | nil => rfl
  | cons tp rest ih =>
    obtain ⟨t, p⟩ := tp
    have h1 := h (t, p) (by simp)
    simp only at h1
    unfold updateWalk
    simp only [h1, bne_self_eq_false, Bool.false_and, Bool.false_eq_true, if_false]
    split_ifs
    · rfl
    · exact ih (fun tp htp => h tp (by simp [htp]))

theorem updateStage_allupd (v : SetView) (cur upd : String) (f : Faults) (reps : List (Int × Pod)) (s : St)
    (h : ∀ tp ∈ reps, tp.2.rev = upd) : updateStage v cur upd f reps s = (s, .ok) := by
  unfold updateStage
  split_ifs
  · rfl
  · apply updateWalk_allupd
    intro tp htp
    rw [List.mem_reverse, List.mem_filter] at htp
    exact h tp htp.1

theorem slotOf_eq_none {b : Int} {E : List Int} {pods : List Pod} {o : Int} (h : ∀ q ∈ pods, q.ord ≠ o) :
    slotOf b E pods o = none := by
  unfold slotOf
  rw [List.getLast?_eq_none_iff, List.filter_eq_nil_iff]
  intro q hq
  have := h q hq
  simp [this]

/-- **slot_out_only**: the pods are exactly one per ordinal of the desired set except `k` — all healthy, at the update
    revision, identity and storage in order — and a pod created at `k` would be at the update revision. Then the reconcile
    issues exactly one action, the creation of pod `k`, under either policy and whatever the fault plan; it ends ok unless
    that very create is made to fail. -/
theorem slot_out_only_gen (v : SetView) (cur upd : String) (pods : List Pod) (f : Faults) (r k : Int)
    (hr : v.replicas = some r) (hk : k ∈ desired r v.slots) (hdel : v.deleting = false)
    (hperm : (pods.map Pod.ord).Perm ((desired r v.slots).erase k))
    (hgood : ∀ p ∈ pods, p.healthy = true ∧ p.rev = upd ∧ p.idOk = true ∧ p.stOk = true)
    (hrev : newPodRev v cur upd k = upd) :
    (updateStatefulSet v cur upd pods f).1.acts = [.create k upd] ∧
    (f.hit 0 k = false → (updateStatefulSet v cur upd pods f).2 = .ok) ∧
    (f.hit 0 k = true → (updateStatefulSet v cur upd pods f).2 = .err) := by
  have hDes := desired_isDesired r v.slots
  have hndD : (desired r v.slots).Nodup := hDes.sorted.imp (fun h => ne_of_lt h)
  have hnok : ∀ q ∈ pods, q.ord ≠ k := by
    intro q hq heq
    have : q.ord ∈ (desired r v.slots).erase k := hperm.mem_iff.1 (List.mem_map_of_mem hq)
    rw [hndD.mem_erase_iff] at this
    exact this.1 heq
  have hin : ∀ q ∈ pods, q.ord ∈ desired r v.slots := by
    intro q hq
    exact List.mem_of_mem_erase (hperm.mem_iff.1 (List.mem_map_of_mem hq))
  rcases hbe : maxReplicaAndSlots r v.slots with ⟨b, E⟩
  have hD := podOrdinals_eq_of hbe
  rw [podOrdinals_eq_desired'] at hD
  have hcondemned : condemnedOf b E pods = [] := by
    unfold condemnedOf
    have : pods.filter (fun p => isCondemned b E p.ord) = [] := by
      rw [List.filter_eq_nil_iff]
      intro q hq
      simp [not_condemned_of_inRange (mem_idx (hD ▸ hin q hq))]
    rw [this]; rfl
  have hslot : ∀ i ∈ desired r v.slots, i ≠ k → (slotOf b E pods i).getD (newPod v cur upd i) ∈ pods := by
    intro i hi hik
    cases hs : slotOf b E pods i with
    | some q => simpa using (slotOf_some hs).1
    | none =>
      exfalso
      have hinr : inRange b E i = true := mem_idx (hD ▸ hi)
      have hno := slotOf_none hs hinr
      have : i ∈ pods.map Pod.ord := hperm.mem_iff.2 ((hndD.mem_erase_iff).2 ⟨hik, hi⟩)
      obtain ⟨q, hq, hqo⟩ := List.mem_map.1 this
      exact hno q hq hqo
  have hslotk : (slotOf b E pods k).getD (newPod v cur upd k) = newPod v cur upd k := by
    rw [slotOf_eq_none hnok]; rfl
  obtain ⟨p, hprep⟩ : ∃ p, prepare v cur upd pods = .ok p := prepare_isOk hr (firstUnhealthy_some_any _)
  obtain ⟨hreps, hcond, -, -⟩ := prepare_ok hr hprep
  rw [hbe] at hreps hcond
  simp only at hreps hcond
  rw [hcondemned] at hcond
  rw [podOrdinals_eq_desired'] at hreps
  obtain ⟨A, B, hsplit⟩ := List.append_of_mem hk
  have hnd' := hndD
  rw [hsplit] at hnd'
  have hkA : k ∉ A := fun h => by
    have := (List.nodup_append.1 hnd').2.2 k h k (by simp); exact this rfl
  have hkB : k ∉ B := fun h => by
    have := (List.nodup_cons.1 (List.nodup_append.1 hnd').2.1).1; exact this h
  let g : Int → Int × Pod := fun i => (i, (slotOf b E pods i).getD (newPod v cur upd i))
  have hreps' : p.reps = A.map g ++ (k, newPod v cur upd k) :: B.map g := by
    rw [hreps, hsplit, List.map_append, List.map_cons]
    simp only [g, hslotk]
  have hgoodOf : ∀ (L : List Int), (∀ i ∈ L, i ∈ desired r v.slots ∧ i ≠ k) →
      ∀ ip ∈ L.map g, ip.2 ∈ pods := by
    intro L hL ip hip
    obtain ⟨i, hi, rfl⟩ := List.mem_map.1 hip
    exact hslot i (hL i hi).1 (hL i hi).2
  have hA : ∀ i ∈ A, i ∈ desired r v.slots ∧ i ≠ k := fun i hi =>
    ⟨by rw [hsplit]; exact List.mem_append_left _ hi, fun h => hkA (h ▸ hi)⟩
  have hB : ∀ i ∈ B, i ∈ desired r v.slots ∧ i ≠ k := fun i hi =>
    ⟨by rw [hsplit]; exact List.mem_append_right _ (List.mem_cons_of_mem _ hi), fun h => hkB (h ▸ hi)⟩
  have hAq : ∀ ip ∈ A.map g, ip.2.healthy = true ∧ ip.2.idOk = true ∧ ip.2.stOk = true := fun ip hip =>
    ⟨(hgood _ (hgoodOf A hA ip hip)).1, (hgood _ (hgoodOf A hA ip hip)).2.2⟩
  have hBq : ∀ ip ∈ B.map g, ip.2.healthy = true ∧ ip.2.idOk = true ∧ ip.2.stOk = true := fun ip hip =>
    ⟨(hgood _ (hgoodOf B hB ip hip)).1, (hgood _ (hgoodOf B hB ip hip)).2.2⟩
  have hallupd : ∀ tp ∈ p.reps, tp.2.rev = upd := by
    intro tp htp
    rw [hreps', List.mem_append, List.mem_cons] at htp
    rcases htp with h | rfl | h
    · exact (hgood _ (hgoodOf A hA tp h)).2.1
    · exact hrev
    · exact (hgood _ (hgoodOf B hB tp h)).2.1
  unfold updateStatefulSet
  rw [hprep]
  simp only [hdel, Bool.false_eq_true, if_false]
  unfold runLoops
  simp only
  rw [hreps', replicaLoop_quiet_append v cur upd f (!v.parallel) _ _ hAq]
  have hstepk : ∀ s : St, replicaStep v cur upd f (!v.parallel) s k (newPod v cur upd k) =
      (ensurePod cur upd f (!v.parallel) s k (newPod v cur upd k), newPod v cur upd k) := by
    intro s; simp [replicaStep, replaceFailed, newPod, Pod.failed, Pod.succeeded]
  have hcr : (newPod v cur upd k).created = false := by simp [newPod, Pod.created]
  have hnr : (newPod v cur upd k).rev = upd := hrev
  have hallupd' : ∀ tp ∈ A.map g ++ (k, newPod v cur upd k) :: B.map g, tp.2.rev = upd := hreps' ▸ hallupd
  have hloop : ∀ s0 : St, replicaLoop v cur upd f (!v.parallel) s0 ((k, newPod v cur upd k) :: B.map g) =
      match ensurePod cur upd f (!v.parallel) s0 k (newPod v cur upd k) with
      | .next s' => (.next s', (k, newPod v cur upd k) :: B.map g)
      | .done s' o => (.done s' o, (k, newPod v cur upd k) :: B.map g) := by
    intro s0
    rw [replicaLoop, hstepk]
    cases he : ensurePod cur upd f (!v.parallel) s0 k (newPod v cur upd k) with
    | next s' => simp only; rw [replicaLoop_quiet v cur upd f (!v.parallel) _ hBq]
    | done s' o => rfl
  rw [hloop]
  unfold ensurePod
  simp only [hcr, Bool.not_false, if_true, hnr]
  by_cases hf : f.hit 0 k = true
  · simp [hf]
  · simp only [hf, Bool.false_eq_true, if_false]
    by_cases hm : v.parallel = true
    · simp only [hm, Bool.not_true, Bool.false_eq_true, if_false, hcond, List.reverse_nil, condemnedLoop]
      rw [updateStage_allupd v cur upd f _ _ hallupd']
      simp
    · simp [hm]

end Asts
