import Asts.Proofs.Ordinals

namespace Asts
open List

theorem length_filter_not_mem {l K : List Int} (hl : l.Nodup) (hK : K.Nodup) (hsub : ∀ x ∈ K, x ∈ l) :
    (l.filter (fun i => !K.contains i)).length + K.length = l.length := by
  have h1 : (l.filter (fun i => K.contains i)).length = K.length := by
    have hn : (l.filter (fun i => K.contains i)).Nodup := hl.filter _
    rw [← List.toFinset_card_of_nodup hn, ← List.toFinset_card_of_nodup hK]
    congr 1
    ext x; simp only [List.mem_toFinset, List.mem_filter, List.contains_iff_mem]
    constructor
    · exact fun h => h.2
    · exact fun h => ⟨hsub x h, h⟩
  have h2 := List.length_eq_length_filter_add (l := l) (fun i => K.contains i)
  rw [h1] at h2
  beta_reduce at h2
  omega

theorem helper_isDesired (r : Int) (S : List Int) (hr : 0 ≤ r) :
    IsDesired r.toNat S (podOrdinals r S) := by
  have hsort := sorted_dedupSort S
  obtain ⟨hb, hK⟩ := extend_spec hsort r hr
  set b := (extend r (dedupSort S)).1 with hbdef
  set K := (extend r (dedupSort S)).2 with hKdef
  have hpo : podOrdinals r S = ((List.range b.toNat).map Int.ofNat).filter (fun i => !K.contains i) := rfl
  have hb0 : 0 ≤ b := by rw [hb]; omega
  have hKmem : ∀ x, x ∈ K ↔ x ∈ S ∧ 0 ≤ x ∧ x < b := by
    intro x; rw [hK, List.mem_filter, mem_dedupSort]; simp
  have hKnodup : K.Nodup := by
    rw [hK]; exact (hsort.imp (fun h => ne_of_lt h)).filter _
  have hlnodup : ((List.range b.toNat).map Int.ofNat).Nodup :=
    (List.nodup_range).map (fun a b h => by simpa using h)
  have hmeml : ∀ x : Int, x ∈ (List.range b.toNat).map Int.ofNat ↔ 0 ≤ x ∧ x < b := by
    intro x; simp only [List.mem_map, List.mem_range]
    constructor
    · rintro ⟨n, hn, rfl⟩
      simp only [Int.ofNat_eq_natCast]
      constructor <;> omega
    · rintro ⟨h0, h1⟩; exact ⟨x.toNat, by omega, by simp [Int.toNat_of_nonneg h0]⟩
  have hmem : ∀ x, x ∈ podOrdinals r S ↔ (0 ≤ x ∧ x < b) ∧ x ∉ K := by
    intro x; rw [hpo, List.mem_filter, hmeml]; simp
  refine ⟨?_, ?_, ?_, ?_, ?_⟩
  · -- sorted
    rw [hpo]
    apply List.Pairwise.filter
    rw [List.pairwise_map]
    exact (List.pairwise_lt_range).imp (fun h => by simpa using h)
  · -- length
    have hsub : ∀ x ∈ K, x ∈ (List.range b.toNat).map Int.ofNat := by
      intro x hx; rw [hmeml]; have := (hKmem x).1 hx; exact ⟨this.2.1, this.2.2⟩
    have := length_filter_not_mem hlnodup hKnodup hsub
    rw [hpo]; simp at this ⊢; omega
  · intro o ho; exact ((hmem o).1 ho).1.1
  · intro o ho hoS
    have := (hmem o).1 ho
    exact this.2 ((hKmem o).2 ⟨hoS, this.1.1, this.1.2⟩)
  · intro o ho n hn0 hno hnS
    have := (hmem o).1 ho
    refine (hmem n).2 ⟨⟨hn0, by omega⟩, ?_⟩
    intro hnK; exact hnS ((hKmem n).1 hnK).1

theorem isDesired_subset {r : Nat} {S O₁ O₂ : List Int} (h₁ : IsDesired r S O₁) (h₂ : IsDesired r S O₂) :
    ∀ o ∈ O₁, o ∈ O₂ := by
  intro o ho
  by_contra hno
  -- every element of O₂ lies below o (otherwise o would be in O₂ by minimality) and hence in O₁ \ {o}
  have hlt : ∀ p ∈ O₂, p < o := by
    intro p hp
    by_contra hge
    have hne : p ≠ o := fun h => hno (h ▸ hp)
    have : o < p := by omega
    exact hno (h₂.least p hp o (h₁.nonneg o ho) this (h₁.noSlot o ho))
  have hsub : O₂ ⊆ O₁.erase o := by
    intro p hp
    have hp1 : p ∈ O₁ := h₁.least o ho p (h₂.nonneg p hp) (hlt p hp) (h₂.noSlot p hp)
    exact (List.mem_erase_of_ne (by have := hlt p hp; omega)).2 hp1
  have hnd₂ : O₂.Nodup := h₂.sorted.imp (fun h => ne_of_lt h)
  have hlen := (List.subperm_of_subset hnd₂ hsub).length_le
  rw [List.length_erase_of_mem ho, h₁.len, h₂.len] at hlen
  have : 0 < r := by rw [← h₁.len]; exact List.length_pos_of_mem ho
  omega

/-- Uniqueness: the specification determines the list. -/
theorem isDesired_unique {r : Nat} {S O₁ O₂ : List Int} (h₁ : IsDesired r S O₁) (h₂ : IsDesired r S O₂) :
    O₁ = O₂ := by
  have hnd₁ : O₁.Nodup := h₁.sorted.imp (fun h => ne_of_lt h)
  have hnd₂ : O₂.Nodup := h₂.sorted.imp (fun h => ne_of_lt h)
  have hperm : O₁.Perm O₂ :=
    (List.perm_ext_iff_of_nodup hnd₁ hnd₂).2 (fun a => ⟨isDesired_subset h₁ h₂ a, isDesired_subset h₂ h₁ a⟩)
  exact hperm.eq_of_pairwise (le := (· ≤ ·)) (fun a b _ _ hab hba => le_antisymm hab hba)
    (h₁.sorted.imp le_of_lt) (h₂.sorted.imp le_of_lt)

end Asts
