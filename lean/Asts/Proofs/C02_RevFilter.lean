import Asts.Proofs.C02_Idem

/-! C02: removing all revisions with certain names from the store commutes with listing and sorting. -/
namespace Asts.C02p
open Asts

/-- `dedupByName` looks at `seen` only through `contains` on the names it meets -/
theorem dedup_congr (p : String → Bool) (rs : List Rev) (s1 s2 : List String)
    (hs : ∀ m, p m = true → s1.contains m = s2.contains m) :
    (dedupByName rs s1).filter (fun r => p r.name) = (dedupByName rs s2).filter (fun r => p r.name) := by
  induction rs generalizing s1 s2 with
  | nil => rfl
  | cons r rs ih =>
    unfold dedupByName
    by_cases hp : p r.name = true
    · rw [hs r.name hp]
      split_ifs
      · exact ih s1 s2 hs
      · rw [List.filter_cons, List.filter_cons, if_pos hp, if_pos hp]
        congr 1
        apply ih
        intro m hm
        simp only [List.contains_cons]
        rw [hs m hm]
    · have hstep : ∀ (a b : List String), (∀ m, p m = true → a.contains m = b.contains m) →
          ∀ m, p m = true → (r.name :: a).contains m = b.contains m := by
        intro a b hab m hm
        simp only [List.contains_cons]
        have : (m == r.name) = false := by
          simp only [beq_eq_false_iff_ne, ne_eq]
          intro h; rw [h] at hm; exact hp hm
        rw [this, Bool.false_or, hab m hm]
      split_ifs with h1 h2 h2
      · exact ih s1 s2 hs
      · rw [List.filter_cons, if_neg hp]
        exact ih s1 _ (fun m hm => (hstep s2 s1 (fun m hm => (hs m hm).symm) m hm).symm)
      · rw [List.filter_cons, if_neg hp]
        exact ih _ s2 (hstep s1 s2 hs)
      · rw [List.filter_cons, List.filter_cons, if_neg hp, if_neg hp]
        apply ih
        intro m hm
        simp only [List.contains_cons]
        rw [hs m hm]

theorem dedup_filter (p : String → Bool) (rs : List Rev) (seen : List String) :
    dedupByName (rs.filter (fun r => p r.name)) seen = (dedupByName rs seen).filter (fun r => p r.name) := by
  induction rs generalizing seen with
  | nil => rfl
  | cons r rs ih =>
    by_cases hp : p r.name = true
    · rw [List.filter_cons, if_pos hp]
      unfold dedupByName
      split_ifs
      · exact ih seen
      · rw [List.filter_cons, if_pos hp, ih]
    · rw [List.filter_cons, if_neg hp, ih]
      conv_rhs => unfold dedupByName
      split_ifs
      · rfl
      · rw [List.filter_cons, if_neg hp]
        apply dedup_congr
        intro m hm
        simp only [List.contains_cons]
        have : (m == r.name) = false := by
          simp only [beq_eq_false_iff_ne, ne_eq]
          intro h; rw [h] at hm; exact hp hm
        rw [this, Bool.false_or]

theorem listRevisions_filter (p : String → Bool) (store : List Rev) :
    listRevisions (store.filter (fun r => p r.name)) = (listRevisions store).filter (fun r => p r.name) := by
  unfold listRevisions
  have h1 : (store.filter (fun r => p r.name)).filter (·.selMatch) = (store.filter (·.selMatch)).filter (fun r => p r.name) := by
    rw [List.filter_filter, List.filter_filter]; congr 1; funext r; exact Bool.and_comm _ _
  have h2 : (store.filter (fun r => p r.name)).filter (·.marker) = (store.filter (·.marker)).filter (fun r => p r.name) := by
    rw [List.filter_filter, List.filter_filter]; congr 1; funext r; exact Bool.and_comm _ _
  rw [h1, h2, ← List.filter_append, dedup_filter, List.filter_filter, List.filter_filter]
  congr 1; funext r; exact Bool.and_comm _ _

/-! ### sorting -/

theorem revLt_trans_le {r x y : Rev} (h1 : revLt r x = true) (h2 : revLt y x = false) : revLt r y = true := by
  unfold revLt at *
  simp only [Bool.or_eq_true, Bool.and_eq_true, decide_eq_true_eq, beq_iff_eq, Bool.or_eq_false_iff, Bool.and_eq_false_iff,
    decide_eq_false_iff_not, not_lt, beq_eq_false_iff_ne, ne_eq] at *
  obtain ⟨h2a, h2b⟩ := h2
  rcases h1 with h1 | ⟨h1n, h1⟩
  · -- r.number < x.number ≤ ... careful: h2a : x.number ≤ y.number
    left; omega
  · rcases h2b with h2b | h2b
    · left; omega
    · obtain ⟨h2c, h2d⟩ := h2b
      rcases h1 with h1 | ⟨h1c, h1s⟩
      · by_cases hn : y.number = x.number
        · right
          refine ⟨by omega, ?_⟩
          left; omega
        · left; omega
      · by_cases hn : y.number = x.number
        · right
          refine ⟨by omega, ?_⟩
          rcases h2d with h2d | h2d
          · left; omega
          · by_cases hc : y.ctime = x.ctime
            · right
              refine ⟨by omega, ?_⟩
              exact lt_of_lt_of_le h1s (not_lt.1 h2d)
            · left; omega
        · left; omega

def RevSorted (l : List Rev) : Prop := l.Pairwise (fun a b => revLt b a = false)

theorem mem_insertRev {r x : Rev} {l : List Rev} : x ∈ insertRev r l ↔ x = r ∨ x ∈ l := by
  induction l with
  | nil => simp [insertRev]
  | cons q qs ih =>
    unfold insertRev
    split_ifs
    · simp
    · simp only [List.mem_cons, ih]; tauto

theorem revLt_asymm {a b : Rev} (h : revLt a b = true) : revLt b a = false := by
  unfold revLt at *
  simp only [Bool.or_eq_true, Bool.and_eq_true, decide_eq_true_eq, beq_iff_eq, Bool.or_eq_false_iff, Bool.and_eq_false_iff,
    decide_eq_false_iff_not, not_lt, beq_eq_false_iff_ne, ne_eq] at *
  rcases h with h | ⟨hn, h⟩
  · exact ⟨by omega, Or.inl (by omega)⟩
  · refine ⟨by omega, ?_⟩
    rcases h with h | ⟨hc, hs⟩
    · right; exact ⟨by omega, Or.inl (by omega)⟩
    · right; exact ⟨by omega, Or.inr (String.lt_asymm hs)⟩

theorem insertRev_sorted (r : Rev) (l : List Rev) (hl : RevSorted l) : RevSorted (insertRev r l) := by
  induction l with
  | nil => simp [insertRev, RevSorted]
  | cons q qs ih =>
    unfold insertRev
    unfold RevSorted at hl ih ⊢
    rw [List.pairwise_cons] at hl
    split_ifs with hlt
    · rw [List.pairwise_cons]
      refine ⟨?_, List.pairwise_cons.2 hl⟩
      intro x hx
      rcases List.mem_cons.1 hx with rfl | hx
      · exact revLt_asymm hlt
      · by_contra hcon
        have hxr : revLt x r = true := by simpa using hcon
        have := revLt_trans_le hxr (revLt_asymm hlt)
        rw [hl.1 x hx] at this; cases this
    · rw [List.pairwise_cons]
      refine ⟨?_, ih hl.2⟩
      intro x hx
      rcases mem_insertRev.1 hx with rfl | hx
      · simpa using hlt
      · exact hl.1 x hx

theorem sortRevs_cons (a : Rev) (l : List Rev) : sortRevs (a :: l) = insertRev a (sortRevs l) := by
  unfold sortRevs
  rw [List.reverse_cons, List.foldl_append]
  rfl

theorem sortRevs_sorted (l : List Rev) : RevSorted (sortRevs l) := by
  induction l with
  | nil => simp [sortRevs, RevSorted]
  | cons a l ih => rw [sortRevs_cons]; exact insertRev_sorted a _ ih

theorem insertRev_cons_pos {r x : Rev} {xs : List Rev} (h : revLt r x = true) : insertRev r (x :: xs) = r :: x :: xs := by
  simp [insertRev, h]
theorem insertRev_cons_neg {r x : Rev} {xs : List Rev} (h : ¬ revLt r x = true) : insertRev r (x :: xs) = x :: insertRev r xs := by
  simp [insertRev, h]

theorem insertRev_filter (q : Rev → Bool) (r : Rev) (l : List Rev) (hl : RevSorted l) (hq : q r = true) :
    insertRev r (l.filter q) = (insertRev r l).filter q := by
  induction l with
  | nil => simp [insertRev, hq]
  | cons x xs ih =>
    unfold RevSorted at hl ih
    rw [List.pairwise_cons] at hl
    by_cases hlt : revLt r x = true
    · rw [insertRev_cons_pos hlt]
      have hR : (r :: x :: xs).filter q = r :: (x :: xs).filter q := by rw [List.filter_cons, if_pos hq]
      rw [hR]
      -- the head of the filtered list, if any, is above `r`
      cases hf : (x :: xs).filter q with
      | nil => simp [insertRev]
      | cons y ys =>
        have hy : y ∈ x :: xs := List.mem_of_mem_filter (by rw [hf]; exact List.mem_cons_self)
        have hry : revLt r y = true := by
          rcases List.mem_cons.1 hy with rfl | hy
          · exact hlt
          · exact revLt_trans_le hlt (hl.1 y hy)
        exact insertRev_cons_pos hry
    · rw [insertRev_cons_neg hlt]
      by_cases hqx : q x = true
      · rw [List.filter_cons, if_pos hqx, List.filter_cons, if_pos hqx, insertRev_cons_neg hlt, ih hl.2]
      · rw [List.filter_cons, if_neg hqx, List.filter_cons, if_neg hqx]
        exact ih hl.2

theorem insertRev_filter_drop (q : Rev → Bool) (r : Rev) (l : List Rev) (hq : q r = false) :
    (insertRev r l).filter q = l.filter q := by
  induction l with
  | nil => simp [insertRev, hq]
  | cons x xs ih =>
    unfold insertRev
    split_ifs
    · rw [List.filter_cons]; simp [hq]
    · rw [List.filter_cons, List.filter_cons, ih]

theorem sortRevs_filter (q : Rev → Bool) (l : List Rev) : sortRevs (l.filter q) = (sortRevs l).filter q := by
  induction l with
  | nil => rfl
  | cons a l ih =>
    by_cases hq : q a = true
    · rw [List.filter_cons, if_pos hq, sortRevs_cons, sortRevs_cons, ih, insertRev_filter q a _ (sortRevs_sorted l) hq]
    · rw [List.filter_cons, if_neg hq, sortRevs_cons, ih, insertRev_filter_drop q a _ (by simpa using hq)]

/-- **the listing after removing some names** -/
theorem listedRevs_filter (p : String → Bool) (i : SyncIn) (store' : List Rev)
    (hs : store' = i.store.filter (fun r => p r.name)) :
    sortRevs (listRevisions store') = (listedRevs i).filter (fun r => p r.name) := by
  rw [hs, listRevisions_filter, sortRevs_filter]
  rfl

end Asts.C02p
