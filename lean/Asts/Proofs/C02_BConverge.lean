import Asts.Proofs.C02_BStep

/-! C02, **general convergence**: from a world inside `preNB` (pods may be orphans; revisions may need adoption, creation
    or renumbering; any update strategy, both policies, legacy boundary mode included) the rounds reach `Final` within the
    bound the monitor allows. -/
namespace Asts.C02p
open Asts Asts.L1c

theorem final_nextW {h : Hashing} {a : SyncIn} (hf : Final h a) : Final h (nextW h a) :=
  final_settle h _ (final_applySync h a hf)

theorem final_nextWN {h : Hashing} (k : Nat) : ∀ {a : SyncIn}, Final h a → Final h (nextWN h k a) := by
  induction k with
  | zero => intro a hf; exact hf
  | succ k ih => intro a hf; exact ih (final_nextW hf)

theorem nextWN_add (h : Hashing) (a b : Nat) (j : SyncIn) : nextWN h (a + b) j = nextWN h b (nextWN h a j) := by
  induction a generalizing j with
  | zero => simp [nextWN]
  | succ a ih =>
    have : a + 1 + b = (a + b) + 1 := by omega
    rw [this]
    show nextWN h (a + b) (nextW h j) = nextWN h b (nextWN h a (nextW h j))
    exact ih _

theorem ownS_of_self {y : SyncIn} (hy : ∀ c ∈ y.pods, c.owner = .self) : ownS y = y := by
  unfold ownS
  have : y.pods.map (fun c => { c with owner := .self }) = y.pods := map_own_of_self hy
  rw [this]

/-- **the policy-independent composition**: normalising round, then the rounds of the class -/
theorem converge_pre {h : Hashing} {K : SyncIn → Prop} (hK : StepClass h K) {j0 : SyncIn} (hp : PreC j0)
    (hr : RevPrem h j0) (hk : K (prepW h j0)) {m : Nat} (hconv : ∃ k ≤ m + 2, Final h (nextWN h k (prepW h j0))) :
    ∃ k ≤ m + 2, Final h (nextWN h k j0) := by
  obtain ⟨G, upd, cc, hpick, hcc⟩ := pick_of_prem hp.names hr
  obtain ⟨hsim, hown, _⟩ := step_core hp hpick hcc hK hk
  have hm1 := mid_next hp hpick hcc hK hk
  obtain ⟨k0, hk0, hf0⟩ := hconv
  -- a Final world at an index ≥ 2
  obtain ⟨k', hk'1, hk'2, hf'⟩ : ∃ k', 1 ≤ k' ∧ k' + 1 ≤ m + 2 ∧ Final h (nextWN h (k' + 1) (prepW h j0)) := by
    by_cases h2 : 2 ≤ k0
    · exact ⟨k0 - 1, by omega, by omega, by rw [show k0 - 1 + 1 = k0 by omega]; exact hf0⟩
    · refine ⟨1, le_refl _, by omega, ?_⟩
      have : 1 + 1 = k0 + (2 - k0) := by omega
      rw [this, nextWN_add]
      exact final_nextWN _ hf0
  obtain ⟨i1, _, i3⟩ := mid_rounds hK k' hm1
  have hself := i3 hown hk'1
  refine ⟨k' + 1, hk'2, ?_⟩
  show Final h (nextWN h k' (nextW h j0))
  rw [← ownS_of_self hself, i1, hsim]
  exact hf'

/-- seen on the rounds of the world itself -/
theorem converge_pre_rounds {h : Hashing} {K : SyncIn → Prop} (hK : StepClass h K) {i : SyncIn} (hp : PreC (settle i))
    (hr : RevPrem h (settle i)) (hk : K (prepW h (settle i))) {m : Nat}
    (hconv : ∃ k ≤ m + 2, Final h (nextWN h k (prepW h (settle i)))) :
    ∃ n ≤ m + 3, Final h (roundsN h n i) := by
  obtain ⟨k, hkk, hf⟩ := converge_pre hK hp hr hk hconv
  refine ⟨k + 1, by omega, ?_⟩
  rw [roundsN_succ, round_fst, settle_roundsN]
  exact final_applySync h _ hf

/-! ### the decidable front end -/

theorem vis_of_bool {r : Rev} (hv : (r.owner != .other && (r.selMatch || r.marker)) = true) : Vis r := by
  simp only [Bool.and_eq_true, bne_iff_ne, ne_eq, Bool.or_eq_true] at hv
  exact ⟨hv.2, hv.1⟩

theorem revPrem_of {h : Hashing} {i : SyncIn} (h1 : hashOkB h i = true) (h2 : labelsOkB h i = true) : RevPrem h i := by
  refine ⟨?_, ?_⟩
  · unfold labelsOkB at h2
    rw [Bool.or_eq_true] at h2
    rcases h2 with h2 | h2
    · left; simpa using h2
    · right
      intro r hr hd
      rw [List.all_eq_true] at h2
      have := h2 r hr
      simp only [Bool.or_eq_true, bne_iff_ne, ne_eq] at this
      rcases this with h3 | h3
      · exact absurd hd h3
      · intro hn; rw [hn] at h3; cases h3
  · unfold hashOkB at h1
    rw [Bool.or_eq_true] at h1
    rcases h1 with h1 | h1
    · left
      rw [List.any_eq_true] at h1
      obtain ⟨r, hr, hb⟩ := h1
      rw [Bool.and_eq_true] at hb
      exact ⟨r, hr, vis_of_bool hb.1, hb.2⟩
    · right
      rw [List.any_eq_true] at h1
      obtain ⟨n, hn, hw⟩ := h1
      rw [List.mem_range] at hn
      unfold walkOkB at hw
      simp only [Bool.and_eq_true, List.all_eq_true, List.mem_range, List.any_eq_true, bne_iff_ne, ne_eq, Bool.or_eq_true,
        beq_iff_eq] at hw
      obtain ⟨⟨hw1, hw2⟩, hw3⟩ := hw
      refine ⟨n, hn, ?_, hw2, ?_⟩
      · intro k hk
        obtain ⟨ex, hex, h3, h4⟩ := hw1 k hk
        exact ⟨ex, hex, h3, h4⟩
      · intro hn0
        rcases hw3 with h3 | h3
        · exact absurd h3 hn0
        · exact h3

theorem noColon_iff {s : String} (hs : noColon s = true) : ∀ ch ∈ s.toList, (ch == ':') = false := by
  unfold noColon at hs
  rw [List.all_eq_true] at hs
  intro ch hch
  simpa using hs ch hch

/-- the fairness step takes a world inside `preCB` to one the normalising argument speaks about -/
theorem preC_settle {h : Hashing} {i : SyncIn} (hb : preCB h i = true) : PreC (settle i) ∧ RevPrem h (settle i) := by
  unfold preCB at hb
  simp only [Bool.and_eq_true, List.all_eq_true, decide_eq_true_eq, beq_iff_eq, bne_iff_ne, ne_eq] at hb
  obtain ⟨⟨⟨⟨⟨⟨⟨⟨hspec, hpods⟩, hdist⟩, hsm⟩, hsmR⟩, hnames⟩, hcol⟩, hhash⟩, hlab⟩ := hb
  have hs := (specOk_iff i).1 hspec
  have hkp : KeyPerm (settle i).pods ((i.pods.filter (fun c => !c.pod.terminating)).map settleOne) := by
    rw [settle_pods]; exact keyPerm_reindex_sort _
  have hords : (i.pods.map (·.pod.ord)).Nodup := by
    unfold distinctOrdsC at hdist
    apply nodup_of_eraseDups_length
    simpa using hdist
  refine ⟨⟨⟨hs.paused, hs.sel, hs.del, hs.rep, hs.r0, hs.strat, hs.lim⟩, ?_, ?_, ?_, hsmR, rfl, rfl, hs.del,
    fun c hc => (settle_settled i c hc).1, noColon_iff hcol, hnames⟩, revPrem_of hhash hlab⟩
  · intro x hx
    obtain ⟨y, hy, hk⟩ := hkp.mem hx
    rw [List.mem_map] at hy
    obtain ⟨c0, hc0, rfl⟩ := hy
    have hc0m := List.mem_of_mem_filter hc0
    obtain ⟨⟨⟨⟨⟨⟨a1, a2⟩, a3⟩, a4⟩, a5⟩, a6⟩, a7⟩ := hpods c0 hc0m
    have e1 : (settleOne c0).owner = x.owner := key_transfer (·.owner) (fun _ => rfl) hk
    have e2 : (settleOne c0).member = x.member := key_transfer (·.member) (fun _ => rfl) hk
    have e3 : (settleOne c0).selMatch = x.selMatch := key_transfer (·.selMatch) (fun _ => rfl) hk
    have e4 : (settleOne c0).name = x.name := key_transfer (·.name) (fun _ => rfl) hk
    have e5 : (settleOne c0).pod.ord = x.pod.ord := key_transfer (·.pod.ord) (fun _ => rfl) hk
    have e7 : (settleOne c0).pod.stOk = x.pod.stOk := key_transfer (·.pod.stOk) (fun _ => rfl) hk
    have e8 : (settleOne c0).pod.created = x.pod.created := key_transfer (·.pod.created) (fun _ => rfl) hk
    rw [← e1, ← e2, ← e3, ← e4, ← e5, ← e7, ← e8, settleOne_owner, settleOne_member, settleOne_sel, settleOne_name, settleOne_ord]
    refine ⟨?_, a2, a3, a4, a5, ?_, ?_⟩
    · cases hco : c0.owner with
      | self => exact Or.inl rfl
      | none => exact Or.inr rfl
      | other => exact absurd hco a1
    · unfold settleOne; split_ifs <;> exact a6
    · unfold settleOne; split_ifs
      · exact a7
      · simp [Pod.created]
  · apply (hkp.ords.nodup_iff).2
    rw [List.map_map]
    have hcomp : ((fun c : CPod => c.pod.ord) ∘ settleOne) = (fun c => c.pod.ord) := by funext c; exact settleOne_ord c
    rw [hcomp]
    exact (List.Sublist.map _ List.filter_sublist).nodup hords
  · rw [hkp.length, List.length_map]
    exact le_trans (List.length_filter_le _ _) hsm

theorem idPos_map_own {l : List CPod} (hl : IdPos l) : IdPos (l.map own) := by
  intro k c hk
  rw [List.getElem?_map] at hk
  cases hc : l[k]? with
  | none => rw [hc] at hk; cases hk
  | some c0 =>
    rw [hc] at hk
    simp only [Option.map_some, Option.some.injEq] at hk
    rw [← hk]
    exact hl k c0 hc

/-- the prepared world of a settled world is normal and settled -/
theorem prep_nsc {h : Hashing} {i : SyncIn} (hp : PreC (settle i)) (hr : RevPrem h (settle i)) (hroom : roomB i = true) :
    NSC h (prepW h (settle i)) := by
  obtain ⟨G, upd, cc, hpick, _⟩ := pick_of_prem hp.names hr
  refine ⟨prepW_norm hp hpick, idOk_of_idPos (idPos_map_own (settle_idPos i)) (prepW_norm hp hpick).small, ?_, ?_⟩
  · intro c hc
    have hc' : c ∈ (settle i).pods.map own := hc
    rw [List.mem_map] at hc'
    obtain ⟨c0, hc0, rfl⟩ := hc'
    exact settle_settled i c0 hc0
  · have h1 := settle_room (h := h) (i := i) (desired (replicasOf i.view) i.view.slots)
    have h2 : roomB i = true := hroom
    unfold roomB at h2
    simp only [decide_eq_true_eq] at h2
    show (((settle i).pods.map own).filter (fun c => !(desired (replicasOf i.view) i.view.slots).contains c.pod.ord)).length +
      (replicasOf i.view).toNat ≤ freshId
    rw [List.filter_map, List.length_map]
    have : ((fun c : CPod => !(desired (replicasOf i.view) i.view.slots).contains c.pod.ord) ∘ own) =
        (fun c => !(desired (replicasOf i.view) i.view.slots).contains c.pod.ord) := rfl
    rw [this]
    omega

theorem prep_nofs {h : Hashing} {i : SyncIn} (hs : NSC h (prepW h (settle i))) (h4 : noFsOutB i = true) :
    ∀ c ∈ (prepW h (settle i)).pods, c.pod.fs = true →
      inRange (bOf (prepW h (settle i))) (EOf (prepW h (settle i))) c.pod.ord = true := by
  intro c hc hfs
  have hc' : c ∈ (settle i).pods.map own := hc
  rw [List.mem_map] at hc'
  obtain ⟨x, hx, rfl⟩ := hc'
  rw [settle_pods] at hx
  obtain ⟨y, hy, hk⟩ := mem_reindex_sort hx
  rw [List.mem_map] at hy
  obtain ⟨c0, hc0, rfl⟩ := hy
  have e1 : (settleOne c0).pod.fs = x.pod.fs := key_transfer (·.pod.fs) (fun _ => rfl) hk
  have e2 : (settleOne c0).pod.ord = x.pod.ord := key_transfer (·.pod.ord) (fun _ => rfl) hk
  rw [settleOne_fs] at e1; rw [settleOne_ord] at e2
  unfold noFsOutB at h4
  rw [List.all_eq_true] at h4
  have := h4 c0 (List.mem_of_mem_filter hc0)
  have hxfs : x.pod.fs = true := hfs
  have hc0fs : (c0.pod.failed || c0.pod.succeeded) = true := by rw [← e1] at hxfs; exact hxfs
  simp only [hc0fs, Bool.not_true, Bool.false_or, List.contains_iff_mem] at this
  show inRange _ _ x.pod.ord = true
  rw [← e2]
  exact (mem_desired_iff hs.norm _).1 this

/-- **general convergence**: the class of the prepared world, and the rounds -/
theorem converge_general {h : Hashing} {i : SyncIn} (hb : preNB h i = true) :
    ∃ n ≤ (if legacyB i.view then muL (prepW h (settle i)) else muPods (prepW h (settle i))) + 3,
      Final h (roundsN h n i) := by
  unfold preNB at hb
  simp only [Bool.and_eq_true, Bool.or_eq_true] at hb
  obtain ⟨⟨⟨hpre, hmode⟩, hroom⟩, hpol⟩ := hb
  obtain ⟨hp, hr⟩ := preC_settle hpre
  have hs := prep_nsc hp hr hroom
  have hview : (prepW h (settle i)).view = i.view := rfl
  by_cases hleg : legacyB i.view = true
  · obtain ⟨hroll, hru⟩ := legacy_of_legacyB hleg
    rw [if_pos hleg]
    cases hpar : i.view.parallel with
    | true =>
      have hk : LParK h (prepW h (settle i)) := ⟨hs, hpar, hroll, hru⟩
      exact converge_pre_rounds (lpar_step h) hp hr hk (converge_lclass (lpar_class h) _ hk (le_refl _))
    | false =>
      rw [hpar] at hpol
      have hk : LMonoK h (prepW h (settle i)) := ⟨⟨hs, hpar, prep_nofs hs (by simpa using hpol)⟩, hroll, hru⟩
      exact converge_pre_rounds (lmono_step h) hp hr hk (converge_lclass (lmono_class h) _ hk (le_refl _))
  · have hpart : PartOk i.view := by
      rcases hmode with hm | hm
      · exact partOk_of_partB hm
      · exact absurd hm hleg
    rw [if_neg hleg]
    cases hpar : i.view.parallel with
    | true =>
      have hk : ParK h (prepW h (settle i)) := ⟨hs, hpar, hpart⟩
      exact converge_pre_rounds (par_step h) hp hr hk (converge_class (par_class h) _ hk (le_refl _))
    | false =>
      rw [hpar] at hpol
      have hk : MonoK h (prepW h (settle i)) := ⟨⟨hs, hpar, prep_nofs hs (by simpa using hpol)⟩, hpart⟩
      exact converge_pre_rounds (mono_step h) hp hr hk (converge_class (mono_class h) _ hk (le_refl _))

end Asts.C02p
