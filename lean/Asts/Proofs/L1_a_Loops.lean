import Asts.Proofs.L1_a_Prepare
import Asts.Spec.Reconcile
import Mathlib.Tactic

/-! # What each loop of `updateStatefulSet` appends to the action list

`J b pre a next` is the justification of one action `a` given the actions `pre` issued before it and the action `next`
issued right after it (`b` = "the reconcile ended without error"). `SegOK b L l` says every action of the segment `l`,
appended after `L`, is justified. Each loop appends a justified segment; `uss_seg` is the composition:
the whole action list of `updateStatefulSet` is justified, for every input. -/
namespace Asts
open List

def Ctl.st : Ctl → St | .next s => s | .done s _ => s
def Ctl.okFlag : Ctl → Bool | .next _ => true | .done _ o => o == .ok
def Ctl.isNext : Ctl → Bool | .next _ => true | .done _ _ => false

@[simp] theorem Ctl.st_next (s : St) : (Ctl.next s).st = s := rfl
@[simp] theorem Ctl.st_done (s : St) (o : Outcome) : (Ctl.done s o).st = s := rfl
@[simp] theorem Ctl.okFlag_next (s : St) : (Ctl.next s).okFlag = true := rfl
@[simp] theorem Ctl.okFlag_done (s : St) (o : Outcome) : (Ctl.done s o).okFlag = (o == .ok) := rfl
@[simp] theorem Ctl.isNext_next (s : St) : (Ctl.next s).isNext = true := rfl
@[simp] theorem Ctl.isNext_done (s : St) (o : Outcome) : (Ctl.done s o).isNext = false := rfl

section
variable (v : SetView) (cur upd : String) (pods : List Pod) (D : List Int)

/-- Justification of one action of the model, from the snapshot alone. -/
def J (b : Bool) (pre : List Action) (a : Action) (n : Option Action) : Prop :=
  match a with
  | .create o _ =>
    o ∈ D ∧ ((∀ q ∈ pods, q.ord ≠ o) ∨
             (∃ p ∈ pods, p.ord = o ∧ (p.failed || p.succeeded) = true ∧ Action.delete o p.id .replaceFailed ∈ pre) ∨
             (∃ p ∈ pods, p.ord = o ∧ p.created = false))
  | .delete o id .replaceFailed =>
    (∃ p ∈ pods, p.id = id ∧ p.ord = o ∧ o ∈ D ∧ (p.failed || p.succeeded) = true) ∧
      ((∃ rev, n = some (.create o rev)) ∨ (n = none ∧ b = false))
  | .delete o id .scaleDown => ∃ p ∈ pods, p.id = id ∧ p.ord = o ∧ o ∉ D
  | .delete o id .update =>
    v.strat ≠ .onDelete ∧ partOf v ≤ o ∧ o ∈ D ∧
      ((∃ p ∈ pods, p.id = id ∧ p.ord = o ∧ p.rev ≠ upd ∧ p.terminating = false ∧ (p.failed || p.succeeded) = false) ∨
       (id = freshId + o.toNat ∧ ∃ rev, rev ≠ upd ∧ Action.create o rev ∈ pre))
  | .update o => o ∈ D

def SegOK (b : Bool) : List Action → List Action → Prop
  | _, [] => True
  | L, a :: rest => J v upd pods D b L a rest.head? ∧ SegOK b (L ++ [a]) rest

variable {v cur upd pods D}

theorem J_mono {b : Bool} {pre : List Action} {a : Action} {n n' : Option Action}
    (h : J v upd pods D true pre a n) (hn : n = none ∨ n' = n) : J v upd pods D b pre a n' := by
  cases a with
  | create o rev => exact h
  | update o => exact h
  | delete o id why =>
    cases why with
    | scaleDown => exact h
    | update => exact h
    | replaceFailed =>
      obtain ⟨h1, h2⟩ := h
      refine ⟨h1, ?_⟩
      rcases h2 with ⟨rev, hrev⟩ | ⟨_, hf⟩
      · left
        rcases hn with hn | hn
        · rw [hn] at hrev; cases hrev
        · exact ⟨rev, by rw [hn, hrev]⟩
      · cases hf

theorem SegOK.append {b : Bool} {L l1 l2 : List Action}
    (h1 : SegOK v upd pods D true L l1) (h2 : SegOK v upd pods D b (L ++ l1) l2) :
    SegOK v upd pods D b L (l1 ++ l2) := by
  induction l1 generalizing L with
  | nil => simpa using h2
  | cons a rest ih =>
    obtain ⟨ha, hrest⟩ := h1
    refine ⟨J_mono ha ?_, ih hrest (by simpa using h2)⟩
    cases rest with
    | nil => left; rfl
    | cons x xs => right; rfl

theorem SegOK.nil {b : Bool} {L : List Action} : SegOK v upd pods D b L [] := trivial

/-- Every action of a justified list, with the actions before it and the one after it. -/
theorem SegOK.at {b : Bool} {L l pre post : List Action} {a : Action}
    (h : SegOK v upd pods D b L l) (hl : l = pre ++ a :: post) : J v upd pods D b (L ++ pre) a post.head? := by
  induction pre generalizing L l with
  | nil =>
    subst hl
    simpa using h.1
  | cons x xs ih =>
    subst hl
    have := ih h.2 rfl
    simpa using this

/-! ### replica loop -/

/-- what the replica loop needs to know of an entry of `reps` -/
def RepOK (v : SetView) (cur upd : String) (pods : List Pod) (D : List Int) (ip : Int × Pod) : Prop :=
  ip.1 ∈ D ∧ ip.2.ord = ip.1 ∧ (ip.2 ∈ pods ∨ (ip.2 = newPod v cur upd ip.1 ∧ ∀ q ∈ pods, q.ord ≠ ip.1))

/-- what is known of an entry of `reps` after the replica loop went past it (`A` = the actions so far) -/
def RepOK' (v : SetView) (cur upd : String) (pods : List Pod) (D : List Int) (A : List Action) (ip : Int × Pod) : Prop :=
  ip.1 ∈ D ∧ ip.2.ord = ip.1 ∧
    ((ip.2 ∈ pods ∧ (ip.2.failed || ip.2.succeeded) = false) ∨
     (ip.2 = newPod v cur upd ip.1 ∧ Action.create ip.1 ip.2.rev ∈ A))

theorem RepOK'.mono {A A' : List Action} {ip : Int × Pod} (h : RepOK' v cur upd pods D A ip)
    (hA : ∀ a ∈ A, a ∈ A') : RepOK' v cur upd pods D A' ip := by
  obtain ⟨h1, h2, h3⟩ := h
  refine ⟨h1, h2, ?_⟩
  rcases h3 with h3 | ⟨h3, h4⟩
  · exact Or.inl h3
  · exact Or.inr ⟨h3, hA _ h4⟩

theorem newPod_created (i : Int) : (newPod v cur upd i).created = false := by
  simp [newPod, Pod.created]

theorem newPod_not_failed (i : Int) : ((newPod v cur upd i).failed || (newPod v cur upd i).succeeded) = false := by
  simp [newPod, Pod.failed, Pod.succeeded]

theorem ensurePod_seg (f : Faults) (mono : Bool) (s : St) (i : Int) (p : Pod) :
    ∃ l, (ensurePod cur upd f mono s i p).st.acts = s.acts ++ l ∧
      ((l = [] ∧ p.created = true) ∨
       (l = [.create i p.rev] ∧ p.created = false) ∨
       (l = [.update i] ∧ p.created = true)) := by
  unfold ensurePod
  by_cases hc : p.created = true
  · simp only [hc, Bool.not_true, Bool.false_eq_true, if_false]
    split_ifs
    · exact ⟨[], by simp, Or.inl ⟨rfl, trivial⟩⟩
    · exact ⟨[], by simp, Or.inl ⟨rfl, trivial⟩⟩
    · exact ⟨[], by simp, Or.inl ⟨rfl, trivial⟩⟩
    · exact ⟨[.update i], by simp, Or.inr (Or.inr ⟨rfl, trivial⟩)⟩
    · exact ⟨[.update i], by simp, Or.inr (Or.inr ⟨rfl, trivial⟩)⟩
  · have hc' : p.created = false := by simpa using hc
    simp only [hc', Bool.not_false, if_true]
    refine ⟨[.create i p.rev], ?_, Or.inr (Or.inl ⟨rfl, trivial⟩)⟩
    split_ifs <;> simp

theorem replicaStep_seg (f : Faults) (mono : Bool) (s : St) (i : Int) (p0 : Pod)
    (h : RepOK v cur upd pods D (i, p0)) :
    ∃ l, (replicaStep v cur upd f mono s i p0).1.st.acts = s.acts ++ l ∧
      SegOK v upd pods D (replicaStep v cur upd f mono s i p0).1.okFlag s.acts l ∧
      ((replicaStep v cur upd f mono s i p0).1.isNext = true →
        RepOK' v cur upd pods D (s.acts ++ l) (i, (replicaStep v cur upd f mono s i p0).2)) := by
  obtain ⟨hD, hord, hp0⟩ := h
  simp only at hD hord hp0
  unfold replicaStep replaceFailed
  by_cases hfs : (p0.failed || p0.succeeded) = true
  · -- a Failed/Succeeded pod: it is a pod of the snapshot
    have hmem : p0 ∈ pods := by
      rcases hp0 with h | ⟨h, -⟩
      · exact h
      · rw [h, newPod_not_failed] at hfs; cases hfs
    have hdel : ∃ p ∈ pods, p.id = p0.id ∧ p.ord = i ∧ i ∈ D ∧ (p.failed || p.succeeded) = true :=
      ⟨p0, hmem, rfl, hord, hD, hfs⟩
    simp only [hfs, if_true]
    by_cases hf : f.hit 1 i = true
    · simp only [hf, if_true]
      refine ⟨[.delete i p0.id .replaceFailed], by simp, ?_, by simp⟩
      refine ⟨⟨hdel, Or.inr ⟨rfl, ?_⟩⟩, trivial⟩
      simp
    · simp only [hf, Bool.false_eq_true, if_false]
      obtain ⟨l, hl, hcases⟩ := ensurePod_seg (cur := cur) (upd := upd) f mono
        { acts := s.acts ++ [.delete i p0.id .replaceFailed],
          status := { (if p0.terminating then s.status else bump s.status cur upd p0.rev (-1)) with
                      replicas := (if p0.terminating then s.status else bump s.status cur upd p0.rev (-1)).replicas - 1 } }
        i (newPod v cur upd i)
      rcases hcases with ⟨-, hc⟩ | ⟨rfl, -⟩ | ⟨-, hc⟩
      · rw [newPod_created] at hc; cases hc
      · refine ⟨[.delete i p0.id .replaceFailed, .create i (newPod v cur upd i).rev], ?_, ?_, ?_⟩
        · simpa using hl
        · refine ⟨⟨hdel, Or.inl ⟨_, rfl⟩⟩, ⟨hD, Or.inr (Or.inl ⟨p0, hmem, hord, hfs, by simp⟩)⟩, trivial⟩
        · intro _
          exact ⟨hD, rfl, Or.inr ⟨rfl, by simp⟩⟩
      · rw [newPod_created] at hc; cases hc
  · have hfs' : (p0.failed || p0.succeeded) = false := by simpa using hfs
    simp only [hfs', Bool.false_eq_true, if_false]
    obtain ⟨l, hl, hcases⟩ := ensurePod_seg (cur := cur) (upd := upd) f mono s i p0
    refine ⟨l, hl, ?_, ?_⟩
    · rcases hcases with ⟨rfl, -⟩ | ⟨rfl, hc⟩ | ⟨rfl, -⟩
      · trivial
      · refine ⟨⟨hD, ?_⟩, trivial⟩
        rcases hp0 with h | ⟨-, h⟩
        · exact Or.inr (Or.inr ⟨p0, h, hord, hc⟩)
        · exact Or.inl h
      · exact ⟨hD, trivial⟩
    · intro hnext
      refine ⟨hD, hord, ?_⟩
      rcases hp0 with h | ⟨h, -⟩
      · exact Or.inl ⟨h, hfs'⟩
      · right
        refine ⟨h, ?_⟩
        rcases hcases with ⟨-, hc⟩ | ⟨rfl, -⟩ | ⟨-, hc⟩
        · rw [h, newPod_created] at hc; cases hc
        · simp
        · rw [h, newPod_created] at hc; cases hc


theorem replicaLoop_seg (f : Faults) (mono : Bool) (R : List (Int × Pod)) (hR : ∀ ip ∈ R, RepOK v cur upd pods D ip)
    (s : St) :
    ∃ l, (replicaLoop v cur upd f mono s R).1.st.acts = s.acts ++ l ∧
      SegOK v upd pods D (replicaLoop v cur upd f mono s R).1.okFlag s.acts l ∧
      ((replicaLoop v cur upd f mono s R).1.isNext = true →
        ∀ ip ∈ (replicaLoop v cur upd f mono s R).2, RepOK' v cur upd pods D (s.acts ++ l) ip) := by
  induction R generalizing s with
  | nil => exact ⟨[], by simp [replicaLoop], trivial, by simp [replicaLoop]⟩
  | cons ip rest ih =>
    obtain ⟨i, p0⟩ := ip
    obtain ⟨l1, hl1, hseg1, hrep1⟩ := replicaStep_seg f mono s i p0 (hR _ (by simp))
    unfold replicaLoop
    cases hstep : replicaStep v cur upd f mono s i p0 with
    | mk c p' =>
      rw [hstep] at hl1 hseg1 hrep1
      simp only at hl1 hseg1 hrep1
      cases c with
      | done s' o =>
        simp only
        exact ⟨l1, hl1, hseg1, by simp⟩
      | next s' =>
        simp only [Ctl.st_next, Ctl.okFlag_next, Ctl.isNext_next, forall_const] at hl1 hseg1 hrep1
        obtain ⟨l2, hl2, hseg2, hrep2⟩ := ih (fun ip hip => hR ip (by simp [hip])) s'
        simp only
        rw [hl1] at hl2 hseg2 hrep2
        refine ⟨l1 ++ l2, by rw [hl2, List.append_assoc], hseg1.append hseg2, ?_⟩
        intro hnext ip hip
        rw [← List.append_assoc]
        rcases List.mem_cons.1 hip with rfl | hip
        · exact hrep1.mono (fun a ha => List.mem_append_left _ ha)
        · exact hrep2 hnext ip hip

/-! ### condemned loop -/

theorem condemnedLoop_seg (f : Faults) (mono : Bool) (fu : Option Pod) (cs : List Pod)
    (hcs : ∀ c ∈ cs, c ∈ pods ∧ c.ord ∉ D) (s : St) :
    ∃ l, (condemnedLoop cur upd f mono fu s cs).st.acts = s.acts ++ l ∧
      SegOK v upd pods D (condemnedLoop cur upd f mono fu s cs).okFlag s.acts l := by
  induction cs generalizing s with
  | nil => exact ⟨[], by simp [condemnedLoop], trivial⟩
  | cons c rest ih =>
    have hrest : ∀ c ∈ rest, c ∈ pods ∧ c.ord ∉ D := fun c hc => hcs c (by simp [hc])
    have hc := hcs c (by simp)
    have hJ : ∀ b L n, J v upd pods D b L (.delete c.ord c.id .scaleDown) n :=
      fun _ _ _ => ⟨c, hc.1, rfl, rfl, hc.2⟩
    unfold condemnedLoop
    by_cases ht : c.terminating = true
    · simp only [ht, if_true]
      by_cases hm : mono = true
      · simp only [hm, if_true]; exact ⟨[], by simp, trivial⟩
      · have hm' : mono = false := by simpa using hm
        subst hm'
        simp only [Bool.false_eq_true, if_false]; exact ih hrest s
    · simp only [ht, Bool.false_eq_true, if_false]
      by_cases hb : (!c.runningAndReady && mono && (fu.map (·.id) != some c.id)) = true
      · simp only [hb, if_true]; exact ⟨[], by simp, trivial⟩
      · simp only [hb, Bool.false_eq_true, if_false]
        by_cases hf : f.hit 1 c.ord = true
        · simp only [hf, if_true]
          exact ⟨[.delete c.ord c.id .scaleDown], by simp, hJ _ _ _, trivial⟩
        · simp only [hf, Bool.false_eq_true, if_false]
          by_cases hm : mono = true
          · simp only [hm, if_true]
            exact ⟨[.delete c.ord c.id .scaleDown], by simp, hJ _ _ _, trivial⟩
          · have hm' : mono = false := by simpa using hm
            subst hm'
            simp only [Bool.false_eq_true, if_false]
            obtain ⟨l2, hl2, hseg2⟩ := ih hrest
              { acts := s.acts ++ [.delete c.ord c.id .scaleDown], status := bump s.status cur upd c.rev (-1) }
            refine ⟨.delete c.ord c.id .scaleDown :: l2, by simpa using hl2, ?_⟩
            have h1 : SegOK v upd pods D true s.acts [.delete c.ord c.id .scaleDown] := ⟨hJ _ _ _, trivial⟩
            exact h1.append hseg2

/-! ### update walk -/

theorem updateWalk_seg (f : Faults) (hstrat : v.strat ≠ .onDelete) (s : St) (W : List (Int × Pod))
    (hW : ∀ tp ∈ W, partOf v ≤ tp.1 ∧ RepOK' v cur upd pods D s.acts tp) :
    ∃ l, (updateWalk cur upd f s W).1.acts = s.acts ++ l ∧
      SegOK v upd pods D ((updateWalk cur upd f s W).2 == .ok) s.acts l := by
  induction W with
  | nil => exact ⟨[], by simp [updateWalk], trivial⟩
  | cons tp rest ih =>
    obtain ⟨t, p⟩ := tp
    obtain ⟨hpart, hD, hord, hp⟩ := hW (t, p) (by simp)
    simp only at hpart hD hord hp
    unfold updateWalk
    by_cases h1 : (p.rev != upd && !p.terminating) = true
    · simp only [h1, if_true]
      refine ⟨[.delete t p.id .update], by simp, ⟨hstrat, hpart, hD, ?_⟩, trivial⟩
      simp only [Bool.and_eq_true, bne_iff_ne, ne_eq, Bool.not_eq_true'] at h1
      rcases hp with ⟨hmem, hnf⟩ | ⟨hnew, hcr⟩
      · exact Or.inl ⟨p, hmem, rfl, hord, h1.1, h1.2, hnf⟩
      · right
        refine ⟨?_, p.rev, h1.1, hcr⟩
        rw [hnew]; rfl
    · simp only [h1, Bool.false_eq_true, if_false]
      by_cases h2 : (!p.healthy) = true
      · simp only [h2, if_true]; exact ⟨[], by simp, trivial⟩
      · simp only [h2, Bool.false_eq_true, if_false]
        exact ih (fun tp htp => hW tp (by simp [htp]))

theorem updateStage_seg (f : Faults) (reps : List (Int × Pod)) (s : St)
    (hreps : ∀ ip ∈ reps, RepOK' v cur upd pods D s.acts ip) :
    ∃ l, (updateStage v cur upd f reps s).1.acts = s.acts ++ l ∧
      SegOK v upd pods D ((updateStage v cur upd f reps s).2 == .ok) s.acts l := by
  unfold updateStage
  by_cases hs : (v.strat == .onDelete) = true
  · simp only [hs, if_true]; exact ⟨[], by simp, trivial⟩
  · simp only [hs, Bool.false_eq_true, if_false]
    apply updateWalk_seg f (by simpa using hs)
    intro tp htp
    rw [List.mem_reverse, List.mem_filter] at htp
    exact ⟨by simpa using htp.2, hreps tp htp.1⟩

/-! ### composition -/

theorem runLoops_seg (f : Faults) (p : Prepared) (hp : PrepInv v cur upd pods D p) :
    SegOK v upd pods D ((runLoops v cur upd f p).2 == .ok) [] (runLoops v cur upd f p).1.acts := by
  unfold runLoops
  have hR : ∀ ip ∈ p.reps, RepOK v cur upd pods D ip := hp.rep
  obtain ⟨l1, hl1, hseg1, hrep1⟩ := replicaLoop_seg f (!v.parallel) p.reps hR { status := p.st0 }
  simp only
  cases hrl : replicaLoop v cur upd f (!v.parallel) { status := p.st0 } p.reps with
  | mk c reps' =>
    rw [hrl] at hl1 hseg1 hrep1
    simp only [List.nil_append] at hl1 hseg1 hrep1
    cases c with
    | done s o =>
      simp only [Ctl.st_done, Ctl.okFlag_done] at hl1 hseg1 ⊢
      rw [hl1]; exact hseg1
    | next s =>
      simp only [Ctl.st_next, Ctl.okFlag_next, Ctl.isNext_next, forall_const] at hl1 hseg1 hrep1 ⊢
      have hcs : ∀ c ∈ p.condemned.reverse, c ∈ pods ∧ c.ord ∉ D := fun c hc => hp.cond c (List.mem_reverse.1 hc)
      obtain ⟨l2, hl2, hseg2⟩ := condemnedLoop_seg (v := v) (cur := cur) (upd := upd) f (!v.parallel) p.fu
        p.condemned.reverse hcs s
      cases hcl : condemnedLoop cur upd f (!v.parallel) p.fu s p.condemned.reverse with
      | done s' o =>
        rw [hcl] at hl2 hseg2
        simp only [Ctl.st_done, Ctl.okFlag_done] at hl2 hseg2 ⊢
        rw [hl2, hl1]
        have := hseg1.append (L := []) (by simpa [hl1] using hseg2)
        simpa using this
      | next s' =>
        rw [hcl] at hl2 hseg2
        simp only [Ctl.st_next, Ctl.okFlag_next] at hl2 hseg2 ⊢
        have hreps' : ∀ ip ∈ reps', RepOK' v cur upd pods D s'.acts ip := by
          intro ip hip
          refine (hrep1 ip hip).mono ?_
          intro a ha; rw [hl2, hl1]; exact List.mem_append_left _ ha
        obtain ⟨l3, hl3, hseg3⟩ := updateStage_seg f reps' s' hreps'
        rw [hl3, hl2, hl1]
        rw [hl2, hl1] at hseg3
        rw [hl1] at hseg2
        have h12 : SegOK v upd pods D true [] (l1 ++ l2) := hseg1.append (by simpa using hseg2)
        have := h12.append (L := []) (by simpa using hseg3)
        simpa using this

/-- **Every action `updateStatefulSet` issues is justified, for every spec, snapshot and fault plan.** -/
theorem uss_seg (v : SetView) (cur upd : String) (pods : List Pod) (f : Faults) :
    SegOK v upd pods (desired (replicasOf v) v.slots) ((updateStatefulSet v cur upd pods f).2 == .ok) []
      (updateStatefulSet v cur upd pods f).1.acts := by
  cases hprep : prepare v cur upd pods with
  | error e =>
    obtain ⟨st, o⟩ := e
    rw [prepare_error_acts hprep]; trivial
  | ok p =>
    unfold updateStatefulSet
    rw [hprep]
    simp only
    by_cases hdel : v.deleting = true
    · simp only [hdel, if_true]; trivial
    · simp only [hdel, Bool.false_eq_true, if_false]
      cases hr : v.replicas with
      | none => simp [prepare, hr] at hprep
      | some r =>
        have hinv := prepare_inv hr hprep
        rw [podOrdinals_eq_desired'] at hinv
        have : replicasOf v = r := by simp [replicasOf, hr]
        rw [this]
        exact runLoops_seg f p hinv

end
end Asts
