import Asts.Proofs.C02_LPar

/-! C02, legacy boundary mode: the OrderedReady policy. -/
namespace Asts.C02p
open Asts Asts.L1c

/-- the legacy class, OrderedReady -/
def LMonoK (h : Hashing) (j : SyncIn) : Prop := MonoK0 h j ∧ j.view.strat = .rolling ∧ j.view.ru = none

section
variable {h : Hashing} {j : SyncIn}

/-- when the replica loop got through, every desired ordinal holds a live pod -/
theorem mono_full (hk : MonoK0 h j)
    (hfl : (monoRep j.view hk.1.norm.curRev.name hk.1.norm.updRev.name
      (repsOf j.view hk.1.norm.curRev.name hk.1.norm.updRev.name (bOf j) (EOf j) (j.pods.map (·.pod)))).2 = true) :
    ∀ o, inRange (bOf j) (EOf j) o = true → ∃ c ∈ j.pods, c.pod.ord = o ∧ c.pod.fs = false := by
  have hs := hk.1
  have hn := hs.norm
  have hctx := hs.ctx
  have hdone := monoRep_done hfl
  intro o hr
  have hmem : (o, (slotOf (bOf j) (EOf j) (j.pods.map (·.pod)) o).getD (newPod j.view hn.curRev.name hn.updRev.name o)) ∈
      repsOf j.view hn.curRev.name hn.updRev.name (bOf j) (EOf j) (j.pods.map (·.pod)) := mem_repsOf.2 ⟨hr, rfl⟩
  obtain ⟨hfs, hcr, _⟩ := hdone _ hmem
  cases hsl : slotOf (bOf j) (EOf j) (j.pods.map (·.pod)) o with
  | none =>
    rw [hsl] at hcr
    simp only [Option.getD_none] at hcr
    rw [newPod_created] at hcr; cases hcr
  | some q =>
    rw [hsl] at hfs
    simp only [Option.getD_some] at hfs
    obtain ⟨c, hcm, hcp, hco, _⟩ := hctx.slot_some hsl
    exact ⟨c, hcm, hco, by rw [hcp]; exact hfs⟩

theorem lmono_pol (hk : LMonoK h j) :
    LPol hk.1.1 (monoA j.view hk.1.1.norm.curRev.name hk.1.1.norm.updRev.name (bOf j) (EOf j) j.pods)
      (monoTgt j.view hk.1.1.norm.curRev.name hk.1.1.norm.updRev.name (bOf j) (EOf j) j.pods) := by
  obtain ⟨hk0, hroll, hru⟩ := hk
  have hs := hk0.1
  have hn := hs.norm
  have hctx := hs.ctx
  refine ⟨⟨hroll, hru⟩, (recon_mono hk0).1, by rw [(recon_mono hk0).2, monoActsOf_split], monoA_facts hk0, ?_, ?_, ?_⟩
  · rintro c hcm ⟨o, w, hm⟩
    obtain ⟨c', hc', hcid, hcase⟩ := monoA_delete_src hk0 hm
    have : c' = c := hctx.id_inj hc' hcm hcid
    subst this
    rcases hcase with ⟨h1, _⟩ | h2
    · exact Or.inl h1
    · exact Or.inr h2
  · intro t q htg
    unfold monoTgt at htg
    split_ifs at htg with hcond
    obtain ⟨hfl, hce⟩ := hcond
    have hall := mono_full hk0 hfl
    have htg' := htg
    unfold walkTarget at htg'
    split_ifs at htg' with hod
    obtain ⟨hmem, hrev, _⟩ := walkFind_some htg'
    unfold walkList at hmem
    rw [List.mem_reverse, List.mem_filter] at hmem
    obtain ⟨hr, hq0⟩ := mem_repsOf.1 hmem.1
    simp only at hr hq0
    obtain ⟨c, hcm, hco, hfs⟩ := hall t hr
    have hsl := hctx.slot_of_mem hcm (by rw [hco]; exact hr)
    rw [hco] at hsl
    rw [hsl] at hq0
    simp only [Option.getD_some] at hq0
    refine ⟨hr, hrev, Or.inl ⟨c, hcm, hq0.symm, hco, hfs⟩, fun o hro _ => Or.inl (hall o hro), ?_⟩
    intro hne
    have hb := recon_mono_cur_le hk0 hfl hce
    have hkeys := reps_keys j.view hn.curRev.name hn.updRev.name (bOf j) (EOf j) (j.pods.map (·.pod))
    have hwb := walk_bound_list j.view hn.curRev.name hn.updRev.name _ (partOf_legacy hru) hkeys.1 hkeys.2 htg hne
    rw [htg] at hb
    omega
  · intro o hr hnone hnocre
    -- the loop stopped: it filled (or replaced at) another ordinal
    have hfl : (monoRep j.view hn.curRev.name hn.updRev.name
        (repsOf j.view hn.curRev.name hn.updRev.name (bOf j) (EOf j) (j.pods.map (·.pod)))).2 = false := by
      by_contra hfl
      obtain ⟨c, hcm, hco, _⟩ := mono_full hk0 (by simpa using hfl) o hr
      exact hnone c hcm hco
    obtain ⟨o0, rev, hm⟩ := monoRep_stopped hfl
    have hmA : Action.create o0 rev ∈ monoA j.view hn.curRev.name hn.updRev.name (bOf j) (EOf j) j.pods := by
      unfold monoA; exact List.mem_append_left _ hm
    have hne : o0 ≠ o := fun heq => hnocre rev (heq ▸ hmA)
    obtain ⟨hr0, _, hcase⟩ := (monoA_facts hk0).cre o0 rev hmA
    refine ⟨o0, hr0, hne, ?_⟩
    intro c hcm hco
    rcases hcase with hn0 | ⟨c', hc', hco', hfs', _⟩
    · exact absurd hco (hn0 c hcm)
    · rw [hctx.ord_inj hcm hc' (by rw [hco, hco'])]; exact hfs'

theorem lmono_progress (hk : LMonoK h j) (hpos : 0 < muL j) :
    LEvent j (monoA j.view hk.1.1.norm.curRev.name hk.1.1.norm.updRev.name (bOf j) (EOf j) j.pods)
      (monoTgt j.view hk.1.1.norm.curRev.name hk.1.1.norm.updRev.name (bOf j) (EOf j) j.pods) := by
  obtain ⟨hk0, hroll, hru⟩ := hk
  have hs := hk0.1
  have hn := hs.norm
  have hctx := hs.ctx
  have hb0 := bOf_nonneg hn
  have hE := EOf_nonneg hn
  by_cases hfl : (monoRep j.view hn.curRev.name hn.updRev.name
      (repsOf j.view hn.curRev.name hn.updRev.name (bOf j) (EOf j) (j.pods.map (·.pod)))).2 = true
  · have hall := mono_full hk0 hfl
    have hdone := monoRep_done hfl
    have hcondE : ∀ c ∈ j.pods, inRange (bOf j) (EOf j) c.pod.ord = false →
        LEvent j (monoA j.view hn.curRev.name hn.updRev.name (bOf j) (EOf j) j.pods)
          (monoTgt j.view hn.curRev.name hn.updRev.name (bOf j) (EOf j) j.pods) := by
      intro c hcm hr
      have hcmem : c.pod ∈ (condemnedOf (bOf j) (EOf j) (j.pods.map (·.pod))).reverse := by
        rw [List.mem_reverse, L1c.mem_condemnedOf]
        refine ⟨List.mem_map.2 ⟨c, hcm, rfl⟩, ?_⟩
        rw [isCondemned_eq hb0 hE, contains_idxOf, hr]
        simp [(hn.pods c hcm).2.2.2.2.1]
      cases hcl : (condemnedOf (bOf j) (EOf j) (j.pods.map (·.pod))).reverse with
      | nil => rw [hcl] at hcmem; cases hcmem
      | cons c0 rest =>
        have hc0 : c0 ∈ (condemnedOf (bOf j) (EOf j) (j.pods.map (·.pod))).reverse := by rw [hcl]; exact List.mem_cons_self
        rw [List.mem_reverse, L1c.mem_condemnedOf, List.mem_map] at hc0
        obtain ⟨⟨c', hc', rfl⟩, _⟩ := hc0
        refine Or.inr (Or.inl ⟨c', hc', c'.pod.ord, .scaleDown, ?_⟩)
        unfold monoA
        simp only [hfl, if_true, hcl]
        apply List.mem_append_right
        simp [monoCond]
    rcases muL_pos_cases hs hpos with ⟨c, hcm, hr⟩ | ⟨o, hr, hnone⟩ | ⟨c, hcm, hr, hfs⟩ | ⟨c, hcm, hr, hfs, hid⟩ |
        ⟨c, hcm, hr, hfs, hrev⟩
    · exact hcondE c hcm hr
    · obtain ⟨c, hcm, hco, _⟩ := hall o hr
      exact absurd hco (hnone c hcm)
    · obtain ⟨c', hc', hco', hfs'⟩ := hall c.pod.ord hr
      rw [hctx.ord_inj hc' hcm hco', hfs] at hfs'; cases hfs'
    · have hmem : (c.pod.ord, c.pod) ∈ repsOf j.view hn.curRev.name hn.updRev.name (bOf j) (EOf j) (j.pods.map (·.pod)) :=
        mem_repsOf.2 ⟨hr, by simp [hctx.slot_of_mem hcm hr]⟩
      have hu := (hdone _ hmem).2.2 (by simp [hid])
      refine Or.inr (Or.inr (Or.inl ⟨c, hcm, hr, hfs, hid, ?_⟩))
      unfold monoA
      exact List.mem_append_left _ hu
    · by_cases hce : (condemnedOf (bOf j) (EOf j) (j.pods.map (·.pod))).reverse = []
      · right; right; right
        unfold monoTgt
        rw [if_pos ⟨hfl, hce⟩]
        exact tgt_isSome hs hroll hru hall hcm hr hrev
      · cases hcl : (condemnedOf (bOf j) (EOf j) (j.pods.map (·.pod))).reverse with
        | nil => exact absurd hcl hce
        | cons c0 rest =>
          have hc0 : c0 ∈ (condemnedOf (bOf j) (EOf j) (j.pods.map (·.pod))).reverse := by rw [hcl]; exact List.mem_cons_self
          rw [List.mem_reverse, L1c.mem_condemnedOf, List.mem_map] at hc0
          obtain ⟨⟨c', hc', rfl⟩, hcond⟩ := hc0
          apply hcondE c' hc'
          by_contra hr'
          rw [inRange_not_condemned (by simpa using hr')] at hcond
          cases hcond
  · have hfl' : (monoRep j.view hn.curRev.name hn.updRev.name
        (repsOf j.view hn.curRev.name hn.updRev.name (bOf j) (EOf j) (j.pods.map (·.pod)))).2 = false := by simpa using hfl
    obtain ⟨o, rev, hm⟩ := monoRep_stopped hfl'
    refine Or.inl ⟨o, rev, ?_⟩
    unfold monoA
    exact List.mem_append_left _ hm

theorem lmono_next (hk : LMonoK h j) : LMonoK h (nextW h j) := by
  have hs := hk.1.1
  have hp := (lmono_pol hk).pol
  have hview := nextW_view hs hp
  have hb : bOf (nextW h j) = bOf j := by unfold bOf; rw [hview]; rfl
  have hE : EOf (nextW h j) = EOf j := by unfold EOf; rw [hview]; rfl
  refine ⟨⟨nextW_ns hs hp, by rw [hview]; exact hk.1.2.1, ?_⟩, by rw [hview]; exact hk.2.1, by rw [hview]; exact hk.2.2⟩
  intro x hx hfs
  obtain ⟨y, hy, hky⟩ := (nextW_pods hs hp).mem hx
  have e1 : y.pod.fs = x.pod.fs := key_transfer (·.pod.fs) (fun _ => rfl) hky
  have e2 : y.pod.ord = x.pod.ord := key_transfer (·.pod.ord) (fun _ => rfl) hky
  obtain ⟨c, hcm, hco, hcfs⟩ := (rawNext_pod hs hp hy).2.2.2.2.2.2.2.2 (by rw [e1]; exact hfs)
  rw [hb, hE, ← e2, ← hco]
  exact hk.1.2.2 c hcm hcfs

end

end Asts.C02p
