import Asts.Proofs.C02_BOwn
import Asts.Proofs.C02_BCtx

/-! C02, normalising rounds: **the first sync does to the world what the sync of the prepared world does** (the same world
    with the revision work done and every pod owned), up to who owns the pods. -/
namespace Asts.C02p
open Asts Asts.L1c

section
variable {h : Hashing} {j : SyncIn} {G : List Rev} {upd : Rev} {cc : Int}

theorem prep_eq (hp : PreC j) (hpick : PickOut h j.template (j.collisionCount.getD 0) (adoptS j.store) G upd cc) :
    prepStore h j = G ∧
    prepCC h j = (if cc == j.collisionCount.getD 0 then j.collisionCount else some cc) := by
  obtain ⟨lgA, _, hadopt⟩ := adopt_nil j.fresh hp.gone hp.uid hp.fdel j.store []
  obtain ⟨lgP, _, hrun⟩ := hpick.run j.stored.currentRev ([] ++ lgA)
  have e0 : ({ store := j.store } : RevSt) = { store := j.store, tr := { log := [] } } := rfl
  constructor
  · unfold prepStore
    simp only [hp.spec.del, e0, hadopt, hrun]
  · unfold prepCC
    simp only [hp.spec.del, e0, hadopt, hrun]

theorem prepCC_getD (hp : PreC j) (hpick : PickOut h j.template (j.collisionCount.getD 0) (adoptS j.store) G upd cc) :
    (prepCC h j).getD 0 = cc := by
  rw [(prep_eq hp hpick).2]
  by_cases hc : cc = j.collisionCount.getD 0
  · rw [hc]; simp
  · have : (cc == j.collisionCount.getD 0) = false := by simpa using hc
    rw [this]; rfl

theorem prepW_listed (hp : PreC j) (hpick : PickOut h j.template (j.collisionCount.getD 0) (adoptS j.store) G upd cc) :
    listedRevs (prepW h j) = sortRevs (listRevisions G) := by
  show sortRevs (listRevisions (prepStore h j)) = _
  rw [(prep_eq hp hpick).1]

/-- **the prepared world is normal** -/
theorem prepW_norm (hp : PreC j) (hpick : PickOut h j.template (j.collisionCount.getD 0) (adoptS j.store) G upd cc) :
    NormC h (prepW h j) := by
  have hl := prepW_listed hp hpick
  refine ⟨⟨hp.spec.paused, hp.spec.sel, hp.spec.del, hp.spec.rep, hp.spec.r0, hp.spec.strat, hp.spec.lim⟩,
    ?_, ?_, ?_, ?_, ?_, hp.smallR, hp.gone⟩
  · intro c hc
    have hc' : c ∈ j.pods.map own := hc
    rw [List.mem_map] at hc'
    obtain ⟨c0, hc0, rfl⟩ := hc'
    obtain ⟨_, a2, a3, a4, a5, a7, a8⟩ := hp.pods c0 hc0
    exact ⟨rfl, a2, a3, a4, a5, a7, a8⟩
  · show ((j.pods.map own).map (·.pod.ord)).Nodup
    rw [List.map_map]
    exact hp.ords
  · refine ⟨upd, by rw [hl]; exact hpick.last, ?_⟩
    rw [hl]
    have : freshRev h (prepW h j) (sortRevs (listRevisions G)) =
        SYb.freshOf h j.template ((prepCC h j).getD 0) (sortRevs (listRevisions G)) := rfl
    rw [this, prepCC_getD hp hpick]
    exact hpick.eqv
  · show (listRevisions (prepStore h j)).any (·.owner == .none) = false
    rw [(prep_eq hp hpick).1, List.any_eq_false]
    intro x hx
    rw [hpick.owned x hx]
    simp
  · show (j.pods.map own).length ≤ freshId
    rw [List.length_map]; exact hp.small

theorem prepW_updRev (hp : PreC j) (hpick : PickOut h j.template (j.collisionCount.getD 0) (adoptS j.store) G upd cc)
    (hn : NormC h (prepW h j)) : hn.updRev = upd := by
  have := hn.updRev_spec.1
  rw [prepW_listed hp hpick, hpick.last] at this
  exact (Option.some.inj this).symm

theorem prepW_curName (hp : PreC j) (hpick : PickOut h j.template (j.collisionCount.getD 0) (adoptS j.store) G upd cc)
    (hn : NormC h (prepW h j)) :
    hn.curRev.name =
      (((sortRevs (listRevisions (adoptS j.store))).find? (·.name == j.stored.currentRev)).getD upd).name := by
  unfold NormC.curRev
  rw [prepW_updRev hp hpick hn, prepW_listed hp hpick, find_getD_name, find_getD_name]
  have hstored : (prepW h j).stored.currentRev = j.stored.currentRev := rfl
  rw [hstored]
  have := hpick.lnames j.stored.currentRev
  by_cases h1 : j.stored.currentRev ∈ (sortRevs (listRevisions (adoptS j.store))).map (·.name)
  · rw [if_pos h1, if_pos (this.2 (Or.inl h1))]
  · rw [if_neg h1]
    by_cases h2 : j.stored.currentRev = upd.name
    · rw [if_pos (this.2 (Or.inr h2))]; exact h2
    · rw [if_neg]
      intro hm
      rcases this.1 hm with h3 | h3
      · exact h1 h3
      · exact h2 h3

/-- the same history is deleted -/
theorem prepW_victims (hp : PreC j) (hpick : PickOut h j.template (j.collisionCount.getD 0) (adoptS j.store) G upd cc)
    (hn : NormC h (prepW h j)) (lim : Int) (hlim : j.historyLimit = some lim) :
    hn.victims = victimsOf lim (j.pods.map (·.pod.rev)) (sortRevs (listRevisions (adoptS j.store)))
      (((sortRevs (listRevisions (adoptS j.store))).find? (·.name == j.stored.currentRev)).getD upd) upd := by
  unfold NormC.victims
  have hl : (prepW h j).historyLimit = some lim := hlim
  have hpr : (prepW h j).pods.map (·.pod.rev) = j.pods.map (·.pod.rev) := by
    show (j.pods.map own).map (·.pod.rev) = _
    rw [List.map_map]; rfl
  rw [hl, hpr, prepW_listed hp hpick]
  simp only [Option.getD_some]
  have hh : histOf (j.pods.map (·.pod.rev)) (sortRevs (listRevisions G)) hn.curRev hn.updRev =
      histOf (j.pods.map (·.pod.rev)) (sortRevs (listRevisions (adoptS j.store)))
        (((sortRevs (listRevisions (adoptS j.store))).find? (·.name == j.stored.currentRev)).getD upd) upd := by
    unfold histOf
    rw [prepW_curName hp hpick hn, prepW_updRev hp hpick hn]
    apply hpick.hist
    · simp
    · intro r r' h1 h2
      rw [h1, h2]
  unfold victimsOf
  rw [hh]

theorem syncIn_ext (a b : SyncIn) (h1 : a.setName = b.setName) (h2 : a.paused = b.paused) (h3 : a.selectorOk = b.selectorOk)
    (h4 : a.view = b.view) (h5 : a.stored = b.stored) (h6 : a.collisionCount = b.collisionCount)
    (h7 : a.historyLimit = b.historyLimit) (h8 : a.template = b.template) (h9 : a.fresh = b.fresh)
    (h10 : a.store = b.store) (h11 : a.pods = b.pods) : a = b := by
  cases a; cases b; simp_all

/-- **the simulation**: one sync + apply from `j`, with the owners forgotten, is one sync + apply from the prepared world -/
theorem prep_sim (hp : PreC j) (hpick : PickOut h j.template (j.collisionCount.getD 0) (adoptS j.store) G upd cc)
    (hcc : cc ≠ j.collisionCount.getD 0 → j.stored.updateRev ≠ upd.name)
    (hn : NormC h (prepW h j)) (hok : hn.recon.2 = .ok) :
    ownS (applySync j [] (syncF h j [])) = applySync (prepW h j) [] (syncF h (prepW h j) []) ∧
    (syncF h j []).outcome = .ok ∧
    ∃ lg1 lg2, (∀ e ∈ lg1, NoPatch e) ∧ (∀ e ∈ lg2, NoPatch e) ∧
      (applySync j [] (syncF h j [])).pods =
        reindex (sortPods (applyActs j.setName j.pods (applyPatches [] (lg1 ++ claimLog false j.pods ++ lg2) j.pods)
          hn.recon.1.acts)) := by
  obtain ⟨lim, hlim, _⟩ := hp.spec.lim
  obtain ⟨lg1, lg2, hlg1, hlg2, hsync⟩ := sync_pre hp hpick
  have hro : updateStatefulSet j.view
      (((sortRevs (listRevisions (adoptS j.store))).find? (·.name == j.stored.currentRev)).getD upd).name upd.name
      (j.pods.map (·.pod)) [] = hn.recon := by
    unfold NormC.recon
    rw [prepW_curName hp hpick hn, prepW_updRev hp hpick hn]
    have : (prepW h j).pods.map (·.pod) = j.pods.map (·.pod) := map_own_pod j.pods
    rw [this]
    rfl
  obtain ⟨lgR, hlgR, hrec⟩ := reconcileF_nil j (sortRevs (listRevisions (adoptS j.store)))
    (((sortRevs (listRevisions (adoptS j.store))).find? (·.name == j.stored.currentRev)).getD upd) upd cc G
    (lg1 ++ claimLog false j.pods ++ lg2) (fun c hc => (hp.pods c hc).2.2.2.1) hp.ords hp.spec.rep hp.gone lim hlim
    hpick.sub (SYb.sorted_listing_names_nodup _) hn.recon hro hok
  obtain ⟨hN, _⟩ := applySync_normC h (prepW h j) hn hok
  rw [hN, hsync, hrec]
  have hkeep : (fun x : Rev => !((victimsOf lim (j.pods.map (·.pod.rev)) (sortRevs (listRevisions (adoptS j.store)))
      (((sortRevs (listRevisions (adoptS j.store))).find? (·.name == j.stored.currentRev)).getD upd) upd).map
        (·.name)).contains x.name) = hn.keep := by
    funext x; unfold NormC.keep; rw [prepW_victims hp hpick hn lim hlim]
  have hstore : (prepW h j).store = G := (prep_eq hp hpick).1
  have hus : hn.recon.1.status.updateRev = upd.name := by
    rw [(recon_status_names hn hok).2, prepW_updRev hp hpick hn]
  have hccN : (prepW h j).collisionCount = (if cc == j.collisionCount.getD 0 then j.collisionCount else some cc) :=
    (prep_eq hp hpick).2
  have hccD : (prepW h j).collisionCount.getD 0 = cc := prepCC_getD hp hpick
  have hpods : ∀ lg, (reindex (sortPods (applyActs j.setName j.pods (applyPatches [] lg j.pods) hn.recon.1.acts))).map own =
      reindex (sortPods (applyActs (prepW h j).setName (prepW h j).pods (prepW h j).pods hn.recon.1.acts)) := by
    intro lg
    rw [own_reindex_sort_map, own_applyActs, own_applyPatches]
    rfl
  have hview : ∀ (a b : Status), a = b →
      ({ j.view with stCurrentReplicas := a.current } : SetView) = { (prepW h j).view with stCurrentReplicas := b.current } := by
    intro a b hab; rw [hab]; rfl
  refine ⟨?_, rfl, lg1, lg2 ++ lgR, hlg1, ?_, ?_⟩
  · by_cases hinc : inconsistentStatus j.stored (completeRollingUpdate j.view hn.recon.1.status) = true
    · have hinc' : inconsistentStatus (prepW h j).stored (completeRollingUpdate (prepW h j).view hn.recon.1.status) = true := hinc
      refine syncIn_ext _ _ rfl rfl rfl ?_ ?_ ?_ rfl rfl rfl ?_ ?_
      · apply hview
        simp only [hinc, hinc', if_true, Option.getD_some]
        rfl
      · show (_ : Option Status).getD j.stored = _
        simp only [hinc, hinc', if_true, Option.getD_some]
        rfl
      · show (if (_ : Option Status).isSome then _ else j.collisionCount) = _
        simp only [hinc, hinc', if_true, Option.isSome_some, hccD]
      · show List.filter _ G = List.filter hn.keep (prepW h j).store
        rw [hkeep, hstore]
      · show (reindex (sortPods (applyActs j.setName j.pods (applyPatches [] _ j.pods) (hn.recon.1.acts.take _)))).map own = _
        rw [List.take_length]
        exact hpods _
    · have hinc0 : inconsistentStatus j.stored (completeRollingUpdate j.view hn.recon.1.status) = false := by simpa using hinc
      have hinc' : inconsistentStatus (prepW h j).stored (completeRollingUpdate (prepW h j).view hn.recon.1.status) = false := hinc0
      have hcceq : cc = j.collisionCount.getD 0 := by
        by_contra hne
        have h1 := hcc hne
        unfold inconsistentStatus at hinc0
        simp only [Bool.or_eq_false_iff, bne_eq_false_iff_eq] at hinc0
        have h2 := hinc0.2
        rw [cru_updateRev, hus] at h2
        exact h1 h2.symm
      have hccN' : (prepW h j).collisionCount = j.collisionCount := by
        rw [hccN, hcceq]; simp
      refine syncIn_ext _ _ rfl rfl rfl ?_ ?_ ?_ rfl rfl rfl ?_ ?_
      · apply hview
        simp only [hinc0, hinc', Bool.false_eq_true, if_false, Option.getD_none]
        rfl
      · show (_ : Option Status).getD j.stored = _
        simp only [hinc0, hinc', Bool.false_eq_true, if_false, Option.getD_none]
        rfl
      · show (if (_ : Option Status).isSome then _ else j.collisionCount) = _
        simp only [hinc0, hinc', Bool.false_eq_true, if_false, Option.isSome_none, hccN']
      · show List.filter _ G = List.filter hn.keep (prepW h j).store
        rw [hkeep, hstore]
      · show (reindex (sortPods (applyActs j.setName j.pods (applyPatches [] _ j.pods) (hn.recon.1.acts.take _)))).map own = _
        rw [List.take_length]
        exact hpods _
  · intro e he
    rw [List.mem_append] at he
    rcases he with he | he
    · exact hlg2 e he
    · exact hlgR e he
  · unfold applySync
    simp only [List.take_length, List.append_assoc]

end

end Asts.C02p
