import Asts.Proofs.GL_Lists
import Asts.Proofs.SY_a_Sync

/-! # GL — glue, sync level: the reconcile inside a sync

`syncF` reaches `updateStatefulSet` only after the adoption phase, the claim pass and the resolution of the revisions all
succeeded; it then records the revision names it resolved in `SyncOut.cur` / `SyncOut.upd`. The decomposition lemma
`syncF_reconcile` says: whenever `upd ≠ ""` the recorded actions ARE the actions of
`updateStatefulSet i.view o.cur o.upd (o.claimed.map (·.pod)) pf` for the fault list `pf` the model builds
(`syncFaults`), the claimed pods are a sublist of the pods of the world, and a written status is the completed status of
that reconcile, which ended `.ok`. -/
namespace Asts.GL
open Asts Asts.SYa

/-- the pod objects a sync hands to its reconcile -/
def syncPods (o : SyncOut) : List Pod := o.claimed.map (·.pod)

/-- the reconcile-level fault list `syncF` builds from the API-level plan, the pods of the world and the claimed pods -/
def syncFaults (i : SyncIn) (plan : List Fault) (o : SyncOut) : Faults :=
  podFaults i.setName plan i.pods o.claimed (rangeOf i).1 (rangeOf i).2

/-- the reconcile a sync runs, recomputed from the sync's own output -/
def syncReconcile (i : SyncIn) (plan : List Fault) (o : SyncOut) : St × Outcome :=
  updateStatefulSet i.view o.cur o.upd (syncPods o) (syncFaults i plan o)

/-! ### the claim pass claims a sublist -/

theorem claimStep_claimed (plan : List Fault) (d : Bool) (fresh : Fresh) (o : ClaimOutF) (c : CPod) :
    (claimStep plan d fresh o c).claimed = o.claimed ∨ (claimStep plan d fresh o c).claimed = o.claimed ++ [c] := by
  unfold claimStep
  cases claimDecision d c with
  | keep => exact Or.inr rfl
  | ignore => exact Or.inl rfl
  | release =>
    simp only
    split <;> exact Or.inl rfl
  | adopt =>
    simp only
    cases hca : o.canAdopt with
    | some b =>
      simp only
      split
      · exact Or.inl rfl
      · split
        · exact Or.inr rfl
        · exact Or.inl rfl
        · exact Or.inl rfl
    | none =>
      simp only
      split
      · exact Or.inl rfl
      · split
        · exact Or.inr rfl
        · exact Or.inl rfl
        · exact Or.inl rfl

theorem foldl_claimStep_claimed (plan : List Fault) (d : Bool) (fresh : Fresh) :
    ∀ (pods : List CPod) (o : ClaimOutF),
      ∃ l, (pods.foldl (claimStep plan d fresh) o).claimed = o.claimed ++ l ∧ l.Sublist pods
  | [], o => ⟨[], by simp, List.Sublist.refl _⟩
  | c :: cs, o => by
    obtain ⟨l, hl, hs⟩ := foldl_claimStep_claimed plan d fresh cs (claimStep plan d fresh o c)
    rw [List.foldl_cons, hl]
    rcases claimStep_claimed plan d fresh o c with h | h
    · exact ⟨l, by rw [h], hs.cons c⟩
    · exact ⟨c :: l, by rw [h]; simp, hs.cons_cons c⟩

/-- the pods claimed by `ClaimPods` are a sublist (same objects, same order) of the pods it was given -/
theorem claimPodsF_claimed_sublist (plan : List Fault) (d : Bool) (fresh : Fresh) (pods : List CPod) (tr : Tr) :
    (claimPodsF plan d fresh pods tr).claimed.Sublist pods := by
  obtain ⟨l, hl, hs⟩ := foldl_claimStep_claimed plan d fresh pods { tr := tr }
  rw [claimPodsF_eq_foldl, hl]
  simpa using hs

/-! ### the stages after the claim pass -/

/-- what the last stage records, whatever the status write and the truncation of the history did -/
theorem finishCore_fields (i : SyncIn) (plan : List Fault) (claimed : List CPod) (revs : List Rev) (cur upd : Rev)
    (cc : Int) (s : RevSt) (b : Int) (E : List Int) (r : St × Outcome) :
    (finishCore i plan claimed revs cur upd cc s b E r).cur = cur.name ∧
    (finishCore i plan claimed revs cur upd cc s b E r).upd = upd.name ∧
    (finishCore i plan claimed revs cur upd cc s b E r).claimed = claimed ∧
    (finishCore i plan claimed revs cur upd cc s b E r).acts = r.1.acts ∧
    (∀ st, (finishCore i plan claimed revs cur upd cc s b E r).status = some st →
      r.2 = .ok ∧ st = completeRollingUpdate i.view r.1.status) ∧
    ((finishCore i plan claimed revs cur upd cc s b E r).outcome = .ok → r.2 = .ok) := by
  unfold finishCore
  simp only
  split
  · rename_i hok
    split
    · split
      · exact ⟨rfl, rfl, rfl, rfl, fun st h => by simp at h, fun h => by simp at h⟩
      · exact ⟨rfl, rfl, rfl, rfl, fun st h => ⟨hok, by simpa using h.symm⟩, fun _ => hok⟩
    · exact ⟨rfl, rfl, rfl, rfl, fun st h => by simp at h, fun _ => hok⟩
  · rename_i hne
    refine ⟨rfl, rfl, rfl, rfl, fun st h => by simp at h, fun h => ?_⟩
    simp only at h
    exact absurd h (hne)

/-- what a sync that got as far as its reconcile looks like -/
structure Reached (i : SyncIn) (plan : List Fault) (o : SyncOut) : Prop where
  sub : o.claimed.Sublist i.pods
  acts : o.acts = (syncReconcile i plan o).1.acts
  status : ∀ st, o.status = some st → (syncReconcile i plan o).2 = .ok ∧
    st = completeRollingUpdate i.view (syncReconcile i plan o).1.status
  ok : o.outcome = .ok → (syncReconcile i plan o).2 = .ok

theorem finishF_reached (i : SyncIn) (plan : List Fault) (claimed : List CPod) (revs : List Rev) (cur upd : Rev)
    (cc : Int) (s : RevSt) (hsub : claimed.Sublist i.pods) :
    Reached i plan (finishF i plan claimed revs cur upd cc s) := by
  obtain ⟨h1, h2, h3, h4, h5, h6⟩ := finishCore_fields i plan claimed revs cur upd cc s (rangeOf i).1 (rangeOf i).2
    (reconcileOf i plan claimed cur upd)
  have hrec : syncReconcile i plan (finishF i plan claimed revs cur upd cc s) = reconcileOf i plan claimed cur upd := by
    unfold syncReconcile syncPods syncFaults finishF
    rw [h1, h2, h3]
    rfl
  refine ⟨?_, ?_, ?_, ?_⟩
  · show (finishCore i plan claimed revs cur upd cc s _ _ _).claimed.Sublist i.pods
    rw [h3]; exact hsub
  · rw [hrec]; exact h4
  · rw [hrec]; exact h5
  · rw [hrec]; exact h6

/-- a sync that stopped before its reconcile: nothing recorded -/
def Idle (o : SyncOut) : Prop := o.acts = [] ∧ o.status = none ∧ o.cur = "" ∧ o.upd = ""

theorem afterClaimF_cases (h : Hashing) (i : SyncIn) (plan : List Fault) (s : RevSt) (failed : Bool)
    (claimed : List CPod) (hsub : claimed.Sublist i.pods) :
    Reached i plan (afterClaimF h i plan s failed claimed) ∨ Idle (afterClaimF h i plan s failed claimed) := by
  unfold afterClaimF
  split
  · exact Or.inr ⟨rfl, rfl, rfl, rfl⟩
  split
  · exact Or.inr ⟨rfl, rfl, rfl, rfl⟩
  · split
    · exact Or.inr ⟨rfl, rfl, rfl, rfl⟩
    · exact Or.inl (finishF_reached i plan claimed _ _ _ _ _ hsub)

/-- every sync either got as far as its reconcile (`Reached`) or recorded no action, no status and no revision names -/
theorem syncF_cases (h : Hashing) (i : SyncIn) (plan : List Fault) :
    Reached i plan (syncF h i plan) ∨ Idle (syncF h i plan) := by
  rw [syncF_eq]
  split
  · exact Or.inr ⟨rfl, rfl, rfl, rfl⟩
  · split
    · exact afterClaimF_cases h i plan _ _ _ (claimPodsF_claimed_sublist plan _ _ _ _)
    · exact Or.inr ⟨rfl, rfl, rfl, rfl⟩

/-- **The decomposition lemma.** A sync whose output names an update revision got as far as its reconcile: the claimed
    pods are a sublist of the pods of the world, the recorded actions are exactly those of
    `updateStatefulSet i.view o.cur o.upd (o.claimed.map (·.pod)) (syncFaults i plan o)`, a written status is that
    reconcile's completed status and presupposes that it ended `.ok`, and so does an `.ok` outcome of the sync. -/
theorem syncF_reconcile (h : Hashing) (i : SyncIn) (plan : List Fault) (hu : (syncF h i plan).upd ≠ "") :
    Reached i plan (syncF h i plan) := by
  rcases syncF_cases h i plan with hr | hi
  · exact hr
  · exact absurd hi.2.2.2 hu

/-- the same for a sync that recorded an action or wrote a status -/
theorem syncF_reconcile_of_acts (h : Hashing) (i : SyncIn) (plan : List Fault)
    (hu : (syncF h i plan).acts ≠ [] ∨ (syncF h i plan).status ≠ none) : Reached i plan (syncF h i plan) := by
  rcases syncF_cases h i plan with hr | hi
  · exact hr
  · rcases hu with hu | hu
    · exact absurd hi.1 hu
    · exact absurd hi.2.1 hu

/-- the claimed pods are a sublist of the pods of the world in every sync, whatever stage it reached -/
theorem syncF_claimed_sublist (h : Hashing) (i : SyncIn) (plan : List Fault) :
    (syncF h i plan).claimed.Sublist i.pods := by
  rw [syncF_eq]
  split
  · exact List.nil_sublist _
  · split
    · have hsub := claimPodsF_claimed_sublist plan i.view.deleting i.fresh i.pods
        (adoptOrphanRevisionsF plan i.view.deleting i.fresh { store := i.store }).1.tr
      rename_i s1 hA
      rw [hA] at hsub
      generalize (claimPodsF plan i.view.deleting i.fresh i.pods s1.tr).claimed = cl at hsub ⊢
      generalize (claimPodsF plan i.view.deleting i.fresh i.pods s1.tr).failed = fl
      generalize ({ s1 with tr := (claimPodsF plan i.view.deleting i.fresh i.pods s1.tr).tr } : RevSt) = s2
      unfold afterClaimF
      split
      · exact List.nil_sublist _
      split
      · exact hsub
      · split
        · exact hsub
        · exact (finishF_reached i plan cl _ _ _ _ _ hsub).sub
    · exact List.nil_sublist _

end Asts.GL
