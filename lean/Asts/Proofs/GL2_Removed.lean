import Mathlib.Tactic
import Asts.Proofs.GL2_Log
import Asts.Proofs.GL2_Loops

/-! # GL2 — `C04.removed` at sync level

No `create:pod:` call of a sync comes after a `delete:pod:` call of the same sync that an injected fault hit — whatever the
names. Chain of the argument, for a faulted delete entry at log position `j` and a create entry at a later position:
* both entries are pod-control calls of recorded actions `ag` (a delete) and `ae` (a create), `ag` before `ae`
  (`log_three_way`, from the positional decomposition of the log);
* `ag` stands before a create, so it deletes a claimed pod `c0` at `c0`'s ordinal, and no earlier delete has that ordinal
  (`before_create`); with unique pod names and ids no earlier log entry is the same string, so the fault that hit the entry
  is the plan's fault for occurrence 0 of `delete:pod:<c0.name>`;
* `podFaults` turns exactly that fault into the reconcile-level fault (delete, ordinal of `c0`), so `ag` was refused and is
  the last action of the reconcile (`hit_is_last`) — but `ae` follows it. -/
namespace Asts.GL2
open Asts Asts.SYb

/-! ## which action a pod-control entry belongs to -/

theorem actLog_create {sn : String} {plan : List Fault} {pods claimed : List CPod} {b : Int} {E : List Int} {a : Action}
    {x : String} (hx : x ∈ actLog sn plan pods claimed b E a) (hp : pre "create:pod:" x = true) :
    ∃ o r, a = .create o r ∧ actLog sn plan pods claimed b E a = [x] := by
  cases a with
  | create o r =>
    simp only [actLog, List.mem_singleton] at hx
    exact ⟨o, r, rfl, by simp only [actLog]; rw [hx]⟩
  | delete o id w =>
    exfalso
    simp only [actLog, List.mem_singleton] at hx
    subst hx
    revert hp; shape_simp
  | update o =>
    exfalso
    simp only [actLog] at hx
    have := List.eq_of_mem_replicate hx
    subst this
    revert hp; shape_simp

theorem actLog_delete {sn : String} {plan : List Fault} {pods claimed : List CPod} {b : Int} {E : List Int} {a : Action}
    {x : String} (hx : x ∈ actLog sn plan pods claimed b E a) (hp : pre "delete:pod:" x = true) :
    ∃ o id w, a = .delete o id w ∧ actLog sn plan pods claimed b E a = [x] ∧
      x = "delete:pod:" ++ actName sn claimed (.delete o id w) := by
  cases a with
  | create o r =>
    exfalso
    simp only [actLog, List.mem_singleton] at hx
    subst hx
    revert hp; shape_simp
  | delete o id w =>
    simp only [actLog, List.mem_singleton] at hx
    exact ⟨o, id, w, rfl, by simp only [actLog]; rw [hx], hx⟩
  | update o =>
    exfalso
    simp only [actLog] at hx
    have := List.eq_of_mem_replicate hx
    subst this
    revert hp; shape_simp

/-! ## two entries of the log, the first a pod delete, the second a pod create -/

theorem two_decomp {α : Type _} {a a' b b' : List α} {x y : α} (h : a ++ x :: b = a' ++ y :: b')
    (hlt : a'.length < a.length) : ∃ c, a = a' ++ y :: c ∧ b' = c ++ x :: b := by
  rcases List.append_eq_append_iff.1 h with ⟨x', h1, _⟩ | ⟨c', h1, h2⟩
  · exfalso
    rw [h1, List.length_append] at hlt
    omega
  · cases c' with
    | nil =>
      exfalso
      rw [h1] at hlt
      simp at hlt
    | cons z c'' =>
      simp only [List.cons_append, List.cons.injEq] at h2
      obtain ⟨rfl, h2⟩ := h2
      exact ⟨c'', h1, h2⟩

theorem singleton_of_append_cons {α : Type _} {u w : List α} {x : α} (h : u ++ x :: w = [x]) : u = [] := by
  cases u with
  | nil => rfl
  | cons y u' => simp at h

theorem log_three_way {L : Action → List String} {acts : List Action} {P Q a' c bb : List String} {g e : String}
    (hlog : P ++ (acts.map L).flatten ++ Q = a' ++ g :: (c ++ e :: bb))
    (hP : ∀ x ∈ P, NoPodCD x) (hQ : ∀ x ∈ Q, NoPodCD x)
    (hg : pre "delete:pod:" g = true) (he : pre "create:pod:" e = true)
    (hLc : ∀ a ∈ acts, ∀ x ∈ L a, pre "create:pod:" x = true → L a = [x])
    (hLd : ∀ a ∈ acts, ∀ x ∈ L a, pre "delete:pod:" x = true → L a = [x]) :
    ∃ B1 ag B2 ae A2, acts = B1 ++ ag :: (B2 ++ ae :: A2) ∧ L ag = [g] ∧ L ae = [e] ∧ a' = P ++ (B1.map L).flatten := by
  have hgP : g ∉ P := fun hm => by have := (hP g hm).2; rw [hg] at this; cases this
  have heQ : e ∉ Q := fun hm => by have := (hQ e hm).1; rw [he] at this; cases this
  rw [List.append_assoc] at hlog
  -- peel `P`
  have h1 : ∃ x', a' = P ++ x' ∧ (acts.map L).flatten ++ Q = x' ++ g :: (c ++ e :: bb) := by
    rcases List.append_eq_append_iff.1 hlog with ⟨x', e1, e2⟩ | ⟨c', e1, e2⟩
    · exact ⟨x', e1, e2⟩
    · cases c' with
      | nil =>
        simp only [List.nil_append] at e2
        exact ⟨[], by rw [e1]; simp, by rw [← e2]; rfl⟩
      | cons z c'' =>
        exfalso
        simp only [List.cons_append, List.cons.injEq] at e2
        exact hgP (by rw [e1, e2.1]; simp)
  obtain ⟨x', ha', h2⟩ := h1
  -- peel `Q`
  have h3 : ∃ c'', (acts.map L).flatten = (x' ++ g :: c) ++ e :: c'' := by
    have h2' : (acts.map L).flatten ++ Q = (x' ++ g :: c) ++ e :: bb := by rw [h2]; simp
    rcases List.append_eq_append_iff.1 h2' with ⟨m', e1, e2⟩ | ⟨c', e1, e2⟩
    · exfalso
      -- (x' ++ g :: c) = M ++ m' and Q = m' ++ e :: bb
      exact heQ (by rw [e2]; simp)
    · cases c' with
      | nil =>
        exfalso
        simp only [List.nil_append] at e2
        exact heQ (by rw [← e2]; simp)
      | cons z c'' =>
        simp only [List.cons_append, List.cons.injEq] at e2
        exact ⟨c'', by rw [e1, e2.1]⟩
  obtain ⟨c'', h4⟩ := h3
  obtain ⟨L1, l, L2, u, w, e1, e2, e3, _⟩ := flatten_split _ _ _ _ h4
  obtain ⟨A1, ae, A2, rfl, m1, m2, _⟩ := map_split L e1
  have hLae : L ae = [e] := hLc ae (by simp) e (by rw [m2, e2]; simp) he
  have hu : u = [] := by
    rw [m2, e2] at hLae
    exact singleton_of_append_cons hLae
  subst hu
  rw [List.append_nil, ← m1] at e3
  obtain ⟨K1, k, K2, u', w', f1, f2, f3, _⟩ := flatten_split _ _ _ _ e3.symm
  obtain ⟨B1, ag, B2, rfl, n1, n2, _⟩ := map_split L f1
  have hLag : L ag = [g] := hLd ag (by simp) g (by rw [n2, f2]; simp) hg
  have hu' : u' = [] := by
    rw [n2, f2] at hLag
    exact singleton_of_append_cons hLag
  subst hu'
  refine ⟨B1, ag, B2, ae, A2, by simp, hLag, hLae, ?_⟩
  rw [ha', f3, n1]; simp

/-! ## names -/

theorem str_append_cancel {p a b : String} (h : p ++ a = p ++ b) : a = b := by
  have := congrArg String.toList h
  rw [String.toList_append, String.toList_append] at this
  exact String.toList_inj.1 (List.append_cancel_left this)

theorem find_by_name {pods : List CPod} (hnd : (pods.map (·.name)).Nodup) {c : CPod} (hc : c ∈ pods) :
    pods.find? (·.name == c.name) = some c := by
  induction pods with
  | nil => cases hc
  | cons a l ih =>
    simp only [List.map_cons, List.nodup_cons] at hnd
    rcases List.mem_cons.1 hc with rfl | hc'
    · simp
    · have hne : a.name ≠ c.name := by
        intro e
        exact hnd.1 (by rw [e]; exact List.mem_map_of_mem hc')
      rw [List.find?_cons_of_neg (by simpa using hne)]
      exact ih hnd.2 hc'

/-- the name under which a claimed pod is deleted is its own name, when pod ids are distinct -/
theorem actName_delete {sn : String} {claimed : List CPod} (hids : (claimed.map (·.pod.id)).Nodup) {c0 : CPod}
    (hc0 : c0 ∈ claimed) (o : Int) (w : Why) : actName sn claimed (.delete o c0.pod.id w) = c0.name := by
  cases hf : claimed.find? (fun c => c.pod.id == c0.pod.id) with
  | none =>
    exfalso
    rw [List.find?_eq_none] at hf
    exact hf c0 hc0 (by simp)
  | some c1 =>
    have h1 : c1 ∈ claimed := List.mem_of_find?_eq_some hf
    have h2 : c1.pod.id = c0.pod.id := by simpa using List.find?_some hf
    have : c1 = c0 := List.inj_on_of_nodup_map hids h1 hc0 h2
    subst this
    show ((claimed.find? (fun c => c.pod.id == c1.pod.id)).map (·.name)).getD (canonicalName sn o) = c1.name
    rw [hf]
    rfl

/-- the plan's fault for the first `delete:pod:<name>` call of a cached pod becomes the reconcile-level fault
    (delete, that pod's ordinal) -/
theorem podFaults_delete {sn : String} {plan : List Fault} {pods claimed : List CPod} {b : Int} {E : List Int}
    (hnames : (pods.map (·.name)).Nodup) {c0 : CPod} (hc0 : c0 ∈ pods) (hn : NoColon c0.name) {ft : Fault}
    (hft : ft ∈ plan) (hkey : ft.key = "delete:pod:" ++ c0.name) (hocc : ft.occ = 0) :
    (podFaults sn plan pods claimed b E).hit 1 c0.pod.ord = true := by
  have hsplit : ft.key.splitOn ":" = ["delete", "pod", c0.name] := by
    rw [hkey, splitOn_pre3 pre_delete_pod, List.splitOnP_eq_singleton hn]
    simp
  unfold Faults.hit
  rw [List.contains_iff_mem]
  unfold podFaults
  simp only
  refine List.mem_append_left _ (List.mem_append_left _ ?_)
  rw [List.mem_filterMap]
  refine ⟨ft, hft, ?_⟩
  rw [hsplit]
  simp [hocc, find_by_name hnames hc0]

/-! ## the clause -/

theorem entry_of_fields {en : Entry} {v r : String} (h1 : en.verb = v) (h2 : en.res = r) :
    en = { verb := v, res := r, name := en.name } := by
  cases en; simp only at h1 h2; rw [h1, h2]

/-- `Prop` reading of `C04.removed` at sync level, stronger than the clause (the names need not agree): in the log of a
    sync no pod create stands after a pod delete that an injected fault hit -/
theorem no_create_after_faulted_delete (h : Hashing) (i : SyncIn) (plan : List Fault)
    (hnames : (i.pods.map (·.name)).Nodup) (hids : (i.pods.map (·.pod.id)).Nodup)
    {a' c bb : List String} {sg se : String}
    (hlog : (syncF h i plan).log = a' ++ sg :: (c ++ se :: bb))
    (hg : (parseEntry sg).verb = "delete" ∧ (parseEntry sg).res = "pod")
    (he : (parseEntry se).verb = "create" ∧ (parseEntry se).res = "pod") :
    look plan sg (cnt sg a') = none := by
  -- the two entries, as strings
  have hshape := sync_log_shapes h i plan
  obtain ⟨hsg, hng⟩ := eq_of_parse (hshape sg (by rw [hlog]; simp)) pre_delete_pod (Or.inr rfl)
    (entry_of_fields hg.1 hg.2)
  obtain ⟨hse, _⟩ := eq_of_parse (hshape se (by rw [hlog]; simp)) pre_create_pod (Or.inr rfl)
    (entry_of_fields he.1 he.2)
  have hpg : pre "delete:pod:" sg = true := by rw [hsg]; exact pre_self _ _
  have hpe : pre "create:pod:" se = true := by rw [hse]; exact pre_self _ _
  -- the two actions
  obtain ⟨P, Q, hdec, hP, hQ⟩ := sync_log_decomp h i plan
  rw [hlog] at hdec
  obtain ⟨B1, ag, B2, ae, A2, hacts, hLag, hLae, ha'⟩ := log_three_way hdec.symm hP hQ hpg hpe
    (fun a _ x hx hp => by obtain ⟨_, _, _, e⟩ := actLog_create hx hp; exact e)
    (fun a _ x hx hp => by obtain ⟨_, _, _, _, e, _⟩ := actLog_delete hx hp; exact e)
  obtain ⟨o', id, w, rfl, _, hsg'⟩ := actLog_delete (x := sg) (by rw [hLag]; simp) hpg
  obtain ⟨oc, r, rfl, _⟩ := actLog_create (x := se) (by rw [hLae]; simp) hpe
  -- the reconcile
  have hne : (syncF h i plan).acts ≠ [] := by rw [hacts]; simp
  have R := GL.syncF_reconcile_of_acts h i plan (Or.inl hne)
  have hrec := R.acts
  rw [hacts] at hrec
  have hrec' : (GL.syncReconcile i plan (syncF h i plan)).1.acts =
      (B1 ++ Action.delete o' id w :: B2) ++ Action.create oc r :: A2 := by rw [← hrec]; simp
  obtain ⟨hdel, hnd⟩ := before_create _ _ _ _ _ hrec'
  -- the pod the delete names
  have hsub := R.sub
  have hnamesC : ((syncF h i plan).claimed.map (·.name)).Nodup := (hsub.map _).nodup hnames
  have hidsC : ((syncF h i plan).claimed.map (·.pod.id)).Nodup := (hsub.map _).nodup hids
  obtain ⟨p, hp, hpid, hpord⟩ := hdel (.delete o' id w) (by simp)
  obtain ⟨c0, hc0, rfl⟩ := List.mem_map.mp hp
  subst hpid
  have hname : sg = "delete:pod:" ++ c0.name := by rw [hsg', actName_delete hidsC hc0]
  have hc0n : NoColon c0.name := by
    have := str_append_cancel (hsg.symm.trans hname)
    rw [← this]; exact hng
  -- no earlier occurrence of the same entry
  have hcnt : cnt sg a' = 0 := by
    unfold cnt
    rw [List.length_eq_zero_iff, List.filter_eq_nil_iff]
    intro x hx hxe
    have hxe' : x = sg := by simpa using hxe
    subst hxe'
    rw [ha'] at hx
    rcases List.mem_append.1 hx with hx | hx
    · have := (hP x hx).2
      rw [hpg] at this; cases this
    · obtain ⟨l, hl, hxl⟩ := List.mem_flatten.1 hx
      obtain ⟨a1, ha1, rfl⟩ := List.mem_map.mp hl
      obtain ⟨o1, id1, w1, rfl, _, hx1⟩ := actLog_delete hxl hpg
      obtain ⟨p1, hp1, hp1id, hp1ord⟩ := hdel (.delete o1 id1 w1) (by simp [ha1])
      obtain ⟨c1, hc1, rfl⟩ := List.mem_map.mp hp1
      subst hp1id
      rw [actName_delete hidsC hc1] at hx1
      have hnn : c1.name = c0.name := str_append_cancel (hx1.symm.trans hname)
      have hcc : c1 = c0 := List.inj_on_of_nodup_map hnamesC hc1 hc0 hnn
      subst hcc
      -- two deletes at the same ordinal before the create
      rw [delOrds_append] at hnd
      have hd1 : c1.pod.ord ∈ delOrds B1 := by
        unfold delOrds
        rw [List.mem_filterMap]
        exact ⟨_, ha1, by simp [hp1ord]⟩
      have hd2 : c1.pod.ord ∈ delOrds (Action.delete o' c1.pod.id w :: B2) := by
        unfold delOrds
        rw [List.mem_filterMap]
        exact ⟨_, List.mem_cons_self, by simp [hpord]⟩
      exact (List.nodup_append.1 hnd).2.2 _ hd1 _ hd2 rfl
  rw [hcnt]
  -- had the plan a fault for it, the delete would have been refused and would be the last action
  by_contra hsome
  have hfind : (plan.find? (fun ft => ft.key == sg && ft.occ == 0)).isSome = true := by
    unfold look at hsome
    cases hf : plan.find? (fun ft => ft.key == sg && ft.occ == 0) with
    | none => rw [hf] at hsome; simp at hsome
    | some ft => rfl
  rw [List.find?_isSome] at hfind
  obtain ⟨ft, hft, hcond⟩ := hfind
  simp only [Bool.and_eq_true, beq_iff_eq] at hcond
  have hhit := podFaults_delete (sn := i.setName) (claimed := (syncF h i plan).claimed) (b := (SYa.rangeOf i).1)
    (E := (SYa.rangeOf i).2) hnames (hsub.subset hc0) hc0n hft (hcond.1.trans hname) hcond.2
  rw [hpord] at hhit
  have hlast := hit_is_last i.view (syncF h i plan).cur (syncF h i plan).upd (GL.syncPods (syncF h i plan))
    (GL.syncFaults i plan (syncF h i plan)) (pre := B1) (a := .delete o' c0.pod.id w) (post := B2 ++ Action.create oc r :: A2)
    hrec.symm hhit
  simp at hlast

/-- **`C04.removed` (sync level)**: the clause of `monitorSync` is true on the model for every hashing, world and fault plan
    in which pod names and pod ids are unique -/
theorem C04removedSync_holds (h : Hashing) (i : SyncIn) (plan : List Fault)
    (hnames : (i.pods.map (·.name)).Nodup) (hids : (i.pods.map (·.pod.id)).Nodup) :
    C04removedSync plan (syncF h i plan).observe.log = true := by
  unfold C04removedSync
  show ((annotate plan (syncF h i plan).log).all _) = true
  rw [List.all_eq_true]
  rintro ⟨en, idx, kk⟩ hx
  simp only
  by_cases hcp : (en.verb == "create" && en.res == "pod") = true
  swap
  · simp [hcp]
  rw [Bool.or_eq_true]
  right
  rw [Bool.not_eq_true', List.any_eq_false]
  rintro ⟨g, j, k⟩ hy hcond
  simp only [Bool.and_eq_true, beq_iff_eq, decide_eq_true_eq] at hcond hcp
  obtain ⟨⟨⟨⟨hgv, hgr⟩, _⟩, hji⟩, hk⟩ := hcond
  obtain ⟨a, se, bb, hl1, hx'⟩ := mem_annotate.mp hx
  obtain ⟨a', sg, b', hl2, hy'⟩ := mem_annotate.mp hy
  simp only [Prod.mk.injEq] at hx' hy'
  obtain ⟨rfl, rfl, _⟩ := hx'
  obtain ⟨rfl, rfl, rfl⟩ := hy'
  obtain ⟨c, rfl, _⟩ := two_decomp (hl1.symm.trans hl2) hji
  have := no_create_after_faulted_delete h i plan hnames hids (a' := a') (c := c) (bb := bb) (sg := sg) (se := se)
    (by rw [hl1]; simp) ⟨hgv, hgr⟩ hcp
  rw [this] at hk
  simp at hk

end Asts.GL2
