import Asts.Proofs.SY_c_Base

/-! # C09 (ii): the retry loops are bounded and succeed exactly when a Conflict-only prefix ends in an unfaulted attempt -/
namespace Asts.SYc

/-! ### `renumberF` — `updateControllerRevision`, RetryOnConflict(DefaultBackoff) -/

theorem renumberF_succ (plan : List Fault) (name : String) (n : Int) (fuel : Nat) (s : RevSt) :
    renumberF plan name n (fuel + 1) s =
      match planAt plan (kUpdateRev name) (cnt s.tr.log (kUpdateRev name)) with
      | none => ({ store := s.store.map (fun r => if r.name == name then { r with number := n } else r),
                   tr := { log := s.tr.log ++ [kUpdateRev name] } }, true)
      | some k =>
        if k == .conflict && fuel != 0 then
          renumberF plan name n fuel { store := s.store, tr := { log := s.tr.log ++ [kUpdateRev name] ++ [kGetRev name] } }
        else ({ store := s.store, tr := { log := s.tr.log ++ [kUpdateRev name] ++ [kGetRev name] } }, false) := by
  rw [renumberF]
  simp only [call_eq]
  rfl

theorem cnt_upd_get (name : String) : cnt [kUpdateRev name, kGetRev name] (kUpdateRev name) = 1 := by
  have := cnt_snoc_ne [kUpdateRev name] (kGetRev_ne_kUpdateRev name name)
  simpa using this

/-- every attempt appends the Update call and, when it failed, the refreshing Get; nothing else -/
theorem renumberF_log (plan : List Fault) (name : String) (n : Int) :
    ∀ (fuel : Nat) (s : RevSt), ∃ ext : List String,
      (renumberF plan name n fuel s).1.tr.log = s.tr.log ++ ext ∧
      (∀ e ∈ ext, e = kUpdateRev name ∨ e = kGetRev name) ∧
      cnt ext (kUpdateRev name) ≤ fuel ∧ ext.length ≤ 2 * fuel
  | 0, s => ⟨[], by simp [renumberF]⟩
  | fuel + 1, s => by
    rw [renumberF_succ]
    cases hf : planAt plan (kUpdateRev name) (cnt s.tr.log (kUpdateRev name)) with
    | none =>
      refine ⟨[kUpdateRev name], by simp, by simp, ?_, by simp; omega⟩
      rw [cnt_single_self]; omega
    | some k =>
      simp only
      split
      · obtain ⟨ext, h1, h2, h3, h4⟩ := renumberF_log plan name n fuel
          { store := s.store, tr := { log := s.tr.log ++ [kUpdateRev name] ++ [kGetRev name] } }
        refine ⟨[kUpdateRev name, kGetRev name] ++ ext, ?_, ?_, ?_, ?_⟩
        · rw [h1]; simp
        · intro e he
          simp only [List.cons_append, List.nil_append, List.mem_cons] at he
          rcases he with he | he | he
          · exact Or.inl he
          · exact Or.inr he
          · exact h2 e he
        · rw [cnt_append, cnt_upd_get]; omega
        · simp only [List.length_append, List.length_cons, List.length_nil]; omega
      · refine ⟨[kUpdateRev name, kGetRev name], by simp, by simp, ?_, by simp⟩
        rw [cnt_upd_get]; omega

/-- `renumberF` succeeds iff one of its first `fuel` Update attempts is unfaulted and all earlier ones answered Conflict.
    Attempt `j` is the `(c₀ + j)`-th call with key `update:rev:<name>`, `c₀` being the number of such calls before. -/
theorem renumberF_ok_iff (plan : List Fault) (name : String) (n : Int) :
    ∀ (fuel : Nat) (s : RevSt),
      (renumberF plan name n fuel s).2 = true ↔
        RetryOk (fun j => planAt plan (kUpdateRev name) (cnt s.tr.log (kUpdateRev name) + j)) fuel
  | 0, s => by simp [renumberF, retryOk_zero]
  | fuel + 1, s => by
    rw [retryOk_succ, renumberF_succ]
    simp only [Nat.add_zero]
    cases hf : planAt plan (kUpdateRev name) (cnt s.tr.log (kUpdateRev name)) with
    | none => simp
    | some k =>
      simp only [reduceCtorEq, Option.some.injEq, false_or]
      split
      · rename_i hk
        simp only [Bool.and_eq_true, beq_iff_eq] at hk
        rw [renumberF_ok_iff plan name n fuel]
        have hc : cnt (s.tr.log ++ [kUpdateRev name] ++ [kGetRev name]) (kUpdateRev name)
            = cnt s.tr.log (kUpdateRev name) + 1 := by
          rw [cnt_snoc_ne _ (kGetRev_ne_kUpdateRev name name)]; exact cnt_snoc_self _ _
        simp only [hc, hk.1, true_and]
        constructor <;> intro h <;> convert h using 3 <;> omega
      · rename_i hk
        simp only [Bool.and_eq_true, beq_iff_eq, not_and, bne_iff_ne, ne_eq, Decidable.not_not] at hk
        simp only [Bool.false_eq_true, false_iff, not_and]
        intro hkc
        have := hk hkc
        subst this
        exact retryOk_zero _

/-- `renumberF` as called by `getStatefulSetRevisions`: at most 4 Update attempts (each failed one followed by one Get). -/
theorem renumberF_at_most_4 (plan : List Fault) (name : String) (n : Int) (s : RevSt) :
    ∃ ext, (renumberF plan name n 4 s).1.tr.log = s.tr.log ++ ext ∧
      cnt ext (kUpdateRev name) ≤ 4 ∧ ext.length ≤ 8 ∧ ∀ e ∈ ext, e = kUpdateRev name ∨ e = kGetRev name := by
  obtain ⟨ext, h1, h2, h3, h4⟩ := renumberF_log plan name n 4 s
  exact ⟨ext, h1, h3, by omega, h2⟩

/-! ### `statusWriteF` — RetryOnConflict(DefaultRetry) -/

theorem statusWriteF_log (plan : List Fault) (gone : Bool) :
    ∀ (fuel : Nat) (t : Tr), ∃ m, m ≤ fuel ∧
      (statusWriteF plan gone fuel t).1.log = t.log ++ List.replicate m "updatestatus"
  | 0, t => ⟨0, by simp [statusWriteF]⟩
  | fuel + 1, t => by
    unfold statusWriteF
    simp only [call_eq]
    cases hf : planAt plan "updatestatus" (cnt t.log "updatestatus") with
    | none => exact ⟨1, by omega, by simp⟩
    | some k =>
      cases k with
      | conflict =>
        simp only
        split
        · exact ⟨1, by omega, by simp⟩
        · obtain ⟨m, hm, h⟩ := statusWriteF_log plan gone fuel { log := t.log ++ ["updatestatus"] }
          refine ⟨m + 1, by omega, ?_⟩
          rw [h]; simp [List.replicate_succ]
      | _ => exact ⟨1, by omega, by simp⟩

/-- the status write succeeds iff the object still exists and one of the first `fuel` attempts is unfaulted with all
    earlier ones Conflict -/
theorem statusWriteF_ok_iff (plan : List Fault) (gone : Bool) :
    ∀ (fuel : Nat) (t : Tr),
      (statusWriteF plan gone fuel t).2 = true ↔
        gone = false ∧ RetryOk (fun j => planAt plan "updatestatus" (cnt t.log "updatestatus" + j)) fuel
  | 0, t => by simp [statusWriteF, retryOk_zero]
  | fuel + 1, t => by
    rw [retryOk_succ]
    unfold statusWriteF
    simp only [call_eq, Nat.add_zero]
    cases hf : planAt plan "updatestatus" (cnt t.log "updatestatus") with
    | none => simp
    | some k =>
      cases k with
      | conflict =>
        simp only [reduceCtorEq, true_and, false_or]
        split
        · rename_i h0
          simp only [beq_iff_eq] at h0
          subst h0
          simp [retryOk_zero]
        · rw [statusWriteF_ok_iff plan gone fuel]
          have hc : cnt (t.log ++ ["updatestatus"]) "updatestatus" = cnt t.log "updatestatus" + 1 := cnt_snoc_self _ _
          simp only [hc]
          constructor <;> intro h <;> refine ⟨h.1, ?_⟩ <;> convert h.2 using 3 <;> omega
      | _ => simp

theorem statusWriteF_at_most_5 (plan : List Fault) (gone : Bool) (t : Tr) :
    ∃ m, m ≤ 5 ∧ (statusWriteF plan gone 5 t).1.log = t.log ++ List.replicate m "updatestatus" :=
  statusWriteF_log plan gone 5 t

/-! ### `updateAttempts` — `UpdateStatefulPod`, RetryOnConflict(DefaultBackoff) -/

theorem updateAttempts_succ (plan : List Fault) (key : String) (fuel n : Nat) :
    updateAttempts plan key (fuel + 1) n =
      match planAt plan key n with
      | none => (n + 1, true)
      | some .conflict => updateAttempts plan key fuel (n + 1)
      | some _ => (n + 1, false) := by
  rw [updateAttempts]; rfl

/-- `updateAttempts plan key fuel n` (attempt numbers start at `n`): between 0 and `fuel` calls; success iff a
    Conflict-only prefix ends in an unfaulted attempt; every attempt but the last answered Conflict; on success the last
    attempt was unfaulted. -/
theorem updateAttempts_spec (plan : List Fault) (key : String) :
    ∀ (fuel n : Nat),
      n ≤ (updateAttempts plan key fuel n).1 ∧ (updateAttempts plan key fuel n).1 ≤ n + fuel ∧
      ((updateAttempts plan key fuel n).2 = true ↔ RetryOk (fun j => planAt plan key (n + j)) fuel) ∧
      (∀ j, n ≤ j → j + 1 < (updateAttempts plan key fuel n).1 → planAt plan key j = some ErrKind.conflict) ∧
      ((updateAttempts plan key fuel n).2 = true →
        n < (updateAttempts plan key fuel n).1 ∧ planAt plan key ((updateAttempts plan key fuel n).1 - 1) = none)
  | 0, n => by
    simp only [updateAttempts, le_refl, Nat.add_zero, Bool.false_eq_true, false_iff, false_imp_iff, and_true, true_and]
    exact ⟨retryOk_zero _, by intro j h1 h2; omega⟩
  | fuel + 1, n => by
    rw [retryOk_succ, updateAttempts_succ]
    simp only [Nat.add_zero]
    cases hf : planAt plan key n with
    | none => simp [hf]; intro j h1 h2; omega
    | some k =>
      cases k with
      | conflict =>
        obtain ⟨h1, h2, h3, h4, h5⟩ := updateAttempts_spec plan key fuel (n + 1)
        simp only [reduceCtorEq, true_and, false_or]
        refine ⟨by omega, by omega, ?_, ?_, ?_⟩
        · rw [h3]
          constructor <;> intro h <;> convert h using 3 <;> omega
        · intro j hj1 hj2
          rcases Nat.eq_or_lt_of_le hj1 with h | h
          · subst h; exact hf
          · exact h4 j (by omega) hj2
        · intro hok
          exact ⟨by omega, (h5 hok).2⟩
      | _ => simp; intro j h1 h2; omega

theorem updateAttempts_at_most_4 (plan : List Fault) (key : String) :
    (updateAttempts plan key 4 0).1 ≤ 4 := by
  have := (updateAttempts_spec plan key 4 0).2.1; omega

end Asts.SYc
