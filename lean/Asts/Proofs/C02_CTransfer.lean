import Asts.Proofs.C02_CPre

/-! C02, worlds with non-members: what the normal-world theory says of a world it says of any world that differs in the pod
    ids and the order of the pod list only. -/
namespace Asts.C02p
open Asts Asts.L1c

/-- the same world with another pod list -/
def withPods (a : SyncIn) (P : List CPod) : SyncIn := { a with pods := P }

theorem eq_withPods {a b : SyncIn} (hr : ({ a with pods := [] } : SyncIn) = { b with pods := [] }) : b = withPods a b.pods := by
  have e {α : Type} (f : SyncIn → α) (hf : ∀ z : SyncIn, f { z with pods := [] } = f z) : f a = f b := by
    rw [← hf a, ← hf b, hr]
  apply syncIn_ext
  · exact (e (·.setName) (fun _ => rfl)).symm
  · exact (e (·.paused) (fun _ => rfl)).symm
  · exact (e (·.selectorOk) (fun _ => rfl)).symm
  · exact (e (·.view) (fun _ => rfl)).symm
  · exact (e (·.stored) (fun _ => rfl)).symm
  · exact (e (·.collisionCount) (fun _ => rfl)).symm
  · exact (e (·.historyLimit) (fun _ => rfl)).symm
  · exact (e (·.template) (fun _ => rfl)).symm
  · exact (e (·.fresh) (fun _ => rfl)).symm
  · exact (e (·.store) (fun _ => rfl)).symm
  · rfl

section
variable {h : Hashing} {a : SyncIn} {P : List CPod}

theorem normC_withPods (hn : NormC h a) (hk : KeyPerm a.pods P) : NormC h (withPods a P) := by
  refine ⟨⟨hn.spec.paused, hn.spec.sel, hn.spec.del, hn.spec.rep, hn.spec.r0, hn.spec.strat, hn.spec.lim⟩, ?_, ?_,
    hn.rev, hn.noOrphanRev, ?_, hn.smallR, hn.gone⟩
  · intro c hc
    obtain ⟨y, hy, hky⟩ := hk.symm.mem hc
    obtain ⟨a1, a2, a3, a4, a5, a7, a8⟩ := hn.pods y hy
    have e1 : y.owner = c.owner := key_transfer (·.owner) (fun _ => rfl) hky
    have e2 : y.member = c.member := key_transfer (·.member) (fun _ => rfl) hky
    have e3 : y.selMatch = c.selMatch := key_transfer (·.selMatch) (fun _ => rfl) hky
    have e4 : y.name = c.name := key_transfer (·.name) (fun _ => rfl) hky
    have e5 : y.pod.ord = c.pod.ord := key_transfer (·.pod.ord) (fun _ => rfl) hky
    have e7 : y.pod.stOk = c.pod.stOk := key_transfer (·.pod.stOk) (fun _ => rfl) hky
    have e8 : y.pod.created = c.pod.created := key_transfer (·.pod.created) (fun _ => rfl) hky
    rw [← e1, ← e2, ← e3, ← e4, ← e5, ← e7, ← e8]
    exact ⟨a1, a2, a3, a4, a5, a7, a8⟩
  · exact (hk.ords.nodup_iff).1 hn.ords
  · show P.length ≤ freshId
    rw [← hk.length]; exact hn.small

theorem nsc_withPods (hs : NSC h a) (hk : KeyPerm a.pods P) (hid : IdOk P) : NSC h (withPods a P) := by
  refine ⟨normC_withPods hs.norm hk, hid, ?_, ?_⟩
  · intro c hc
    obtain ⟨y, hy, hky⟩ := hk.symm.mem hc
    have e1 : y.pod.terminating = c.pod.terminating := key_transfer (·.pod.terminating) (fun _ => rfl) hky
    have e2 : y.pod.fs = c.pod.fs := key_transfer (·.pod.fs) (fun _ => rfl) hky
    have e3 : y.pod.runningAndReady = c.pod.runningAndReady := key_transfer (·.pod.runningAndReady) (fun _ => rfl) hky
    rw [← e1, ← e2, ← e3]
    exact hs.settled y hy
  · show (P.filter (fun c => !(desired (replicasOf a.view) a.view.slots).contains c.pod.ord)).length + _ ≤ freshId
    rw [← (hk.filter (fun c => !(desired (replicasOf a.view) a.view.slots).contains c.pod.ord) (fun _ => rfl)).length]
    exact hs.room

theorem muPods_withPods (hn : NormC h a) (hk : KeyPerm a.pods P) : muPods (withPods a P) = muPods a := by
  rw [muPods_eq, muPods_eq]
  exact (muOf_keyPerm hk ((hk.ords.nodup_iff).1 hn.ords)).symm

theorem muL_withPods (hn : NormC h a) (hk : KeyPerm a.pods P) : muL (withPods a P) = muL a := by
  unfold muL
  exact (muLOf_keyPerm hk ((hk.ords.nodup_iff).1 hn.ords)).symm

theorem ownPods_withPods (hk : KeyPerm a.pods P) : ((ownPods (withPods a P)).map key).Perm ((ownPods a).map key) :=
  (hk.filter (fun c => c.owner == .self) (fun _ => rfl)).symm

theorem fix_withPods (hn : NormC h a) (hk : KeyPerm a.pods P) (hf : Fix hn) : Fix (normC_withPods hn hk) := by
  refine ⟨hf.upd, hf.cur, ?_⟩
  have : expectedStatus (withPods a P) = expectedStatus a := by
    have hc := census_of_keys a.stored.currentRev a.stored.updateRev (ownPods_withPods (a := a) hk)
    unfold expectedStatus
    show completeRollingUpdate a.view
      { census a.stored.currentRev a.stored.updateRev ((ownPods (withPods a P)).map (·.pod)) with
        observedGen := a.view.generation, currentRev := a.stored.currentRev, updateRev := a.stored.updateRev } = _
    rw [hc]
  rw [this]
  exact hf.status

theorem final_withPods (hk : KeyPerm a.pods P) (hf : Final h a) : Final h (withPods a P) := by
  have := final_transfer h a a.view.stCurrentReplicas a.fresh P (ownPods_withPods hk) ?_ hf
  · exact this
  · intro c hc hno
    obtain ⟨y, hy, hky⟩ := hk.symm.mem hc
    refine ⟨y, hy, ?_, ?_, ?_, ?_⟩
    · rw [key_transfer (·.owner) (fun _ => rfl) hky]; exact hno
    · exact key_transfer (·.selMatch) (fun _ => rfl) hky
    · exact key_transfer (·.member) (fun _ => rfl) hky
    · intro ht
      rw [← key_transfer (·.pod.terminating) (fun _ => rfl) hky]; exact ht

theorem parK_withPods (hk0 : ParK h a) (hk : KeyPerm a.pods P) (hid : IdOk P) : ParK h (withPods a P) :=
  ⟨nsc_withPods hk0.1 hk hid, hk0.2.1, hk0.2.2⟩

theorem monoK0_withPods (hk0 : MonoK0 h a) (hk : KeyPerm a.pods P) (hid : IdOk P) : MonoK0 h (withPods a P) := by
  refine ⟨nsc_withPods hk0.1 hk hid, hk0.2.1, ?_⟩
  intro c hc hfs
  obtain ⟨y, hy, hky⟩ := hk.symm.mem hc
  have e1 : y.pod.fs = c.pod.fs := key_transfer (·.pod.fs) (fun _ => rfl) hky
  have e2 : y.pod.ord = c.pod.ord := key_transfer (·.pod.ord) (fun _ => rfl) hky
  have := hk0.2.2 y hy (by rw [e1]; exact hfs)
  rw [e2] at this
  exact this

theorem monoK_withPods (hk0 : MonoK h a) (hk : KeyPerm a.pods P) (hid : IdOk P) : MonoK h (withPods a P) :=
  ⟨monoK0_withPods hk0.1 hk hid, hk0.2⟩

theorem lparK_withPods (hk0 : LParK h a) (hk : KeyPerm a.pods P) (hid : IdOk P) : LParK h (withPods a P) :=
  ⟨nsc_withPods hk0.1 hk hid, hk0.2.1, hk0.2.2.1, hk0.2.2.2⟩

theorem lmonoK_withPods (hk0 : LMonoK h a) (hk : KeyPerm a.pods P) (hid : IdOk P) : LMonoK h (withPods a P) :=
  ⟨monoK0_withPods hk0.1 hk hid, hk0.2.1, hk0.2.2⟩

end

/-- what the convergence argument needs from a policy class -/
structure ConvClass (h : Hashing) (K : SyncIn → Prop) : Type where
  step : StepClass h K
  repl : ∀ a P, K a → KeyPerm a.pods P → IdOk P → K (withPods a P)
  mu : SyncIn → Nat
  mu_repl : ∀ a P, K a → KeyPerm a.pods P → mu (withPods a P) = mu a
  down : ∀ j, K j → mu j ≠ 0 → mu (nextW h j) < mu j
  zero : ∀ j, K j → mu j = 0 → muPods j = 0

def par_conv (h : Hashing) : ConvClass h (ParK h) where
  step := par_step h
  repl := fun _ _ hk0 hk hid => parK_withPods hk0 hk hid
  mu := muPods
  mu_repl := fun _ _ hk0 hk => muPods_withPods hk0.1.norm hk
  down := fun j hk hne =>
    (mu_stepC ((par_class h).ns j hk) ((par_class h).pol j hk) ((par_class h).part j hk) ((par_class h).facts j hk)).2
      ((par_class h).progress j hk (by omega))
  zero := fun _ _ hz => hz

def mono_conv (h : Hashing) : ConvClass h (MonoK h) where
  step := mono_step h
  repl := fun _ _ hk0 hk hid => monoK_withPods hk0 hk hid
  mu := muPods
  mu_repl := fun _ _ hk0 hk => muPods_withPods hk0.1.1.norm hk
  down := fun j hk hne =>
    (mu_stepC ((mono_class h).ns j hk) ((mono_class h).pol j hk) ((mono_class h).part j hk) ((mono_class h).facts j hk)).2
      ((mono_class h).progress j hk (by omega))
  zero := fun _ _ hz => hz

def lpar_conv (h : Hashing) : ConvClass h (LParK h) where
  step := lpar_step h
  repl := fun _ _ hk0 hk hid => lparK_withPods hk0 hk hid
  mu := muL
  mu_repl := fun _ _ hk0 hk => muL_withPods hk0.1.norm hk
  down := fun j hk hne => by
    obtain ⟨A, tg, hl, hev⟩ := (lpar_class h).step j hk
    exact (muL_step hl).2 (hev (by omega))
  zero := fun j hk hz => by
    have := muPods_le_muL ((lpar_class h).ns j hk)
    omega

def lmono_conv (h : Hashing) : ConvClass h (LMonoK h) where
  step := lmono_step h
  repl := fun _ _ hk0 hk hid => lmonoK_withPods hk0 hk hid
  mu := muL
  mu_repl := fun _ _ hk0 hk => muL_withPods hk0.1.1.norm hk
  down := fun j hk hne => by
    obtain ⟨A, tg, hl, hev⟩ := (lmono_class h).step j hk
    exact (muL_step hl).2 (hev (by omega))
  zero := fun j hk hz => by
    have := muPods_le_muL ((lmono_class h).ns j hk)
    omega

end Asts.C02p
