import Mathlib.Tactic
import Asts.Model.Sync

/-! # SY_a — `canonicalName` is injective in the ordinal -/

namespace Asts.SYa
open Asts

theorem nat_repr_injective {a b : Nat} (h : a.repr = b.repr) : a = b := by
  have h' : Nat.toDigits 10 a = Nat.toDigits 10 b := by
    rw [← Nat.toList_repr, ← Nat.toList_repr, h]
  have := congrArg (fun l => Nat.ofDigitChars 10 l 0) h'
  simpa [Nat.ofDigitChars_ten_toDigits] using this

theorem nat_repr_head_digit (a : Nat) : ∃ c rest, a.repr.toList = c :: rest ∧ c.isDigit = true := by
  rw [Nat.toList_repr]
  cases h : Nat.toDigits 10 a with
  | nil => exact absurd h (Nat.toDigits_ne_nil)
  | cons c rest =>
    refine ⟨c, rest, rfl, ?_⟩
    exact Nat.isDigit_of_mem_toDigits (b := 10) (n := a) (by decide) (by decide) (by rw [h]; simp)

theorem int_repr_injective {a b : Int} (h : a.repr = b.repr) : a = b := by
  rw [Int.repr_eq_if, Int.repr_eq_if] at h
  by_cases ha : 0 ≤ a <;> by_cases hb : 0 ≤ b
  · simp only [ha, hb, if_true] at h
    have := nat_repr_injective h
    omega
  · simp only [ha, hb, if_true, if_false] at h
    exfalso
    obtain ⟨c, rest, hc, hd⟩ := nat_repr_head_digit a.toNat
    have := congrArg String.toList h
    rw [hc, String.toList_append] at this
    have hhead : c = '-' := by
      have h2 : ("-" : String).toList = ['-'] := by decide
      rw [h2] at this
      simpa using (List.cons.inj this).1
    rw [hhead] at hd
    exact absurd hd (by decide)
  · simp only [ha, hb, if_true, if_false] at h
    exfalso
    obtain ⟨c, rest, hc, hd⟩ := nat_repr_head_digit b.toNat
    have := congrArg String.toList h
    rw [hc, String.toList_append] at this
    have hhead : c = '-' := by
      have h2 : ("-" : String).toList = ['-'] := by decide
      rw [h2] at this
      simpa using (List.cons.inj this).1.symm
    rw [hhead] at hd
    exact absurd hd (by decide)
  · simp only [ha, hb, if_false] at h
    have h1 : ((-a).toNat.repr).toList = ((-b).toNat.repr).toList := by
      have := congrArg String.toList h
      rw [String.toList_append, String.toList_append] at this
      exact List.append_cancel_left this
    have h2 : (-a).toNat.repr = (-b).toNat.repr := String.toList_injective h1
    have := nat_repr_injective h2
    omega

theorem canonicalName_injective (setName : String) {o o' : Int}
    (h : canonicalName setName o = canonicalName setName o') : o = o' := by
  have h1 : canonicalName setName o = setName ++ "-" ++ o.repr := rfl
  have h2 : canonicalName setName o' = setName ++ "-" ++ o'.repr := rfl
  rw [h1, h2] at h
  have := congrArg String.toList h
  simp only [String.toList_append] at this
  exact int_repr_injective (String.toList_injective (List.append_cancel_left this))

end Asts.SYa
