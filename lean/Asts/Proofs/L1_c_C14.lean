import Asts.Proofs.L1_c_Prep
import Asts.Proofs.L1_c_NoPanic
import Asts.Proofs.Desired

/-! C14: under the Parallel policy and without API errors one reconcile issues every creation and every scale-in deletion. -/
namespace Asts.L1c

/-! ### the parallel, fault-free run, action by action -/

def repActs1 (v : SetView) (cur upd : String) (iq : Int × Pod) : List Action :=
  if iq.2.fs then [.delete iq.1 iq.2.id .replaceFailed, .create iq.1 (newPod v cur upd iq.1).rev]
  else if !iq.2.created then [.create iq.1 iq.2.rev]
  else if iq.2.idOk && iq.2.stOk then [] else [.update iq.1]

def repNew (v : SetView) (cur upd : String) (iq : Int × Pod) : Int × Pod :=
  (iq.1, if iq.2.fs then newPod v cur upd iq.1 else iq.2)

def condActs (cs : List Pod) : List Action :=
  (cs.filter (fun c => !c.terminating)).map (fun c => .delete c.ord c.id .scaleDown)

theorem hit_nil (verb : Nat) (ord : Int) : Faults.hit [] verb ord = false := by simp [Faults.hit]

theorem replicaStep_par (v : SetView) (cur upd : String) (s : St) (i : Int) (q : Pod) :
    ∃ s', replicaStep v cur upd [] false s i q = (.next s', (repNew v cur upd (i, q)).2) ∧
      s'.acts = s.acts ++ repActs1 v cur upd (i, q) := by
  unfold replicaStep replaceFailed repActs1 repNew
  by_cases hfs : (q.failed || q.succeeded) = true
  · have hfs' : q.fs = true := hfs
    simp only [hfs, hfs', if_true, hit_nil, Bool.false_eq_true, if_false]
    unfold ensurePod
    simp only [newPod_created, Bool.not_false, if_true, hit_nil, Bool.false_eq_true, if_false]
    exact ⟨_, rfl, by simp⟩
  · have hfs' : q.fs = false := by simpa [Pod.fs] using hfs
    simp only [hfs, hfs', Bool.false_eq_true, if_false]
    unfold ensurePod
    by_cases hc : q.created = true
    · simp only [hc, Bool.not_true, Bool.false_eq_true, if_false, Bool.and_false, hit_nil]
      by_cases hok : (q.idOk && q.stOk) = true
      · simp only [hok, if_true]; exact ⟨_, rfl, by simp⟩
      · simp only [hok, Bool.false_eq_true, if_false]; exact ⟨_, rfl, rfl⟩
    · have hc' : q.created = false := by simpa using hc
      simp only [hc', Bool.not_false, if_true, hit_nil, Bool.false_eq_true, if_false]
      exact ⟨_, rfl, rfl⟩

theorem replicaLoop_par (v : SetView) (cur upd : String) (reps : List (Int × Pod)) (s : St) :
    ∃ s', replicaLoop v cur upd [] false s reps = (.next s', reps.map (repNew v cur upd)) ∧
      s'.acts = s.acts ++ reps.flatMap (repActs1 v cur upd) := by
  induction reps generalizing s with
  | nil => exact ⟨s, rfl, by simp⟩
  | cons iq rest ih =>
    obtain ⟨i, q⟩ := iq
    obtain ⟨s1, h1, h2⟩ := replicaStep_par v cur upd s i q
    obtain ⟨s2, h3, h4⟩ := ih s1
    refine ⟨s2, ?_, ?_⟩
    · unfold replicaLoop
      rw [h1]; simp only; rw [h3]; rfl
    · rw [h4, h2]; simp

theorem condemnedLoop_par (cur upd : String) (fu : Option Pod) (cs : List Pod) (s : St) :
    ∃ s', condemnedLoop cur upd [] false fu s cs = .next s' ∧ s'.acts = s.acts ++ condActs cs := by
  induction cs generalizing s with
  | nil => exact ⟨s, rfl, by simp [condActs]⟩
  | cons c rest ih =>
    unfold condemnedLoop
    by_cases ht : c.terminating = true
    · simp only [ht, if_true, Bool.false_eq_true, if_false]
      obtain ⟨s', h1, h2⟩ := ih s
      refine ⟨s', h1, ?_⟩
      rw [h2]; simp [condActs, ht]
    · simp only [ht, Bool.false_eq_true, if_false, Bool.and_false, Bool.false_and, hit_nil]
      obtain ⟨s', h1, h2⟩ := ih { acts := s.acts ++ [.delete c.ord c.id .scaleDown], status := bump s.status cur upd c.rev (-1) }
      refine ⟨s', h1, ?_⟩
      rw [h2]; simp [condActs, ht]

theorem updateStage_par (v : SetView) (cur upd : String) (reps : List (Int × Pod)) (s : St) :
    ∃ s' l, updateStage v cur upd [] reps s = (s', .ok) ∧ s'.acts = s.acts ++ l ∧
      (l = [] ∨ ∃ t q, (t, q) ∈ reps ∧ l = [.delete t q.id .update]) := by
  unfold updateStage
  by_cases hod : (v.strat == StratType.onDelete) = true
  · simp only [hod, if_true]; exact ⟨s, [], rfl, by simp, Or.inl rfl⟩
  · simp only [hod, Bool.false_eq_true, if_false]
    rcases updateWalk_cases cur upd [] (reps.filter (fun ip => partOf v ≤ ip.1)).reverse s with h | ⟨t, q, hm, _, _, h⟩
    · rw [h]; exact ⟨s, [], rfl, by simp, Or.inl rfl⟩
    · rw [h]
      simp only [hit_nil, Bool.false_eq_true, if_false]
      exact ⟨_, [.delete t q.id .update], rfl, rfl,
        Or.inr ⟨t, q, (List.mem_filter.1 (List.mem_reverse.1 hm)).1, rfl⟩⟩

theorem runLoops_par (v : SetView) (cur upd : String) (p : Prepared) (hpar : v.parallel = true) :
    ∃ s l, runLoops v cur upd [] p = (s, .ok) ∧
      s.acts = p.reps.flatMap (repActs1 v cur upd) ++ condActs p.condemned.reverse ++ l ∧
      (l = [] ∨ ∃ t q, (t, q) ∈ p.reps.map (repNew v cur upd) ∧ l = [.delete t q.id .update]) := by
  unfold runLoops
  simp only [hpar, Bool.not_true]
  obtain ⟨s1, h1, h2⟩ := replicaLoop_par v cur upd p.reps { status := p.st0 }
  rw [h1]; simp only
  obtain ⟨s2, h3, h4⟩ := condemnedLoop_par cur upd p.fu p.condemned.reverse s1
  rw [h3]; simp only
  obtain ⟨s3, l, h5, h6, h7⟩ := updateStage_par v cur upd (p.reps.map (repNew v cur upd)) s2
  refine ⟨s3, l, h5, ?_, h7⟩
  rw [h6, h4, h2]; simp

/-! ### the snapshot -/

theorem length_eraseDups_le (l : List Int) : l.eraseDups.length ≤ l.length := by
  induction h : l.length using Nat.strong_induction_on generalizing l with
  | _ n ih =>
    cases l with
    | nil => simp
    | cons a as =>
      rw [List.eraseDups_cons]
      have hf := List.length_filter_le (fun b => !b == a) as
      have := ih (as.filter fun b => !b == a).length (by simp only [List.length_cons] at h; omega) _ rfl
      simp only [List.length_cons] at h ⊢
      omega

theorem nodup_of_eraseDups_length (l : List Int) (h : l.eraseDups.length = l.length) : l.Nodup := by
  induction l with
  | nil => exact List.nodup_nil
  | cons a as ih =>
    rw [List.eraseDups_cons] at h
    have hf := List.length_filter_le (fun b => !b == a) as
    have he := length_eraseDups_le (as.filter fun b => !b == a)
    simp only [List.length_cons] at h
    have hfl : (as.filter fun b => !b == a).length = as.length := by omega
    have hall := List.length_filter_eq_length_iff.1 hfl
    have hfe : (as.filter fun b => !b == a) = as := List.filter_eq_self.2 hall
    rw [hfe] at h
    refine List.nodup_cons.2 ⟨?_, ih (by omega)⟩
    intro ha
    have := hall a ha
    simp at this

/-- what `wfSnapshot` gives, plus identity of the pod objects (position = id) -/
structure Snap (pods : List Pod) : Prop where
  created : ∀ p ∈ pods, p.created = true
  ordNodup : (pods.map (·.ord)).Nodup
  idpos : ∀ (i : Nat) (p : Pod), pods[i]? = some p → p.id = i
  small : pods.length ≤ freshId

theorem snap_of_wf {pods : List Pod} (hwf : wfSnapshot pods = true)
    (hid : ∀ (i : Nat) (p : Pod), pods[i]? = some p → p.id = i) (hlen : pods.length ≤ freshId) : Snap pods := by
  unfold wfSnapshot distinctOrds at hwf
  simp only [Bool.and_eq_true, List.all_eq_true, beq_iff_eq] at hwf
  refine ⟨hwf.1, nodup_of_eraseDups_length _ (by simpa using hwf.2), hid, hlen⟩

theorem Snap.id_lt {pods : List Pod} (h : Snap pods) {q : Pod} (hq : q ∈ pods) : q.id < freshId := by
  obtain ⟨i, hi⟩ := List.mem_iff_getElem?.1 hq
  have := h.idpos i q hi
  have hlt : i < pods.length := by
    by_contra hge
    rw [List.getElem?_eq_none (by omega)] at hi; cases hi
  have := h.small
  omega

theorem Snap.id_inj {pods : List Pod} (h : Snap pods) {p q : Pod} (hp : p ∈ pods) (hq : q ∈ pods) (he : p.id = q.id) : p = q := by
  obtain ⟨i, hi⟩ := List.mem_iff_getElem?.1 hp
  obtain ⟨j, hj⟩ := List.mem_iff_getElem?.1 hq
  have h1 := h.idpos i p hi
  have h2 := h.idpos j q hj
  have : i = j := by omega
  subst this
  rw [hi] at hj; exact Option.some.inj hj

/-- `Snap` with the identity of the pod objects in its weaker form: ids identify the pods of the snapshot and are below
    the ids of objects built by the reconcile. Holds for pods numbered by position (`Snap.toI`) and for every sublist of
    such a list — the claimed pods of a sync. The lemmas on deletes below need no more. -/
structure SnapI (pods : List Pod) : Prop where
  created : ∀ p ∈ pods, p.created = true
  ordNodup : (pods.map (·.ord)).Nodup
  idinj : ∀ p ∈ pods, ∀ q ∈ pods, p.id = q.id → p = q
  idlt : ∀ p ∈ pods, p.id < freshId

theorem Snap.toI {pods : List Pod} (h : Snap pods) : SnapI pods :=
  ⟨h.created, h.ordNodup, fun _ hp _ hq he => h.id_inj hp hq he, fun _ hq => h.id_lt hq⟩

theorem snapI_of_wf_ids {pods : List Pod} (hwf : wfSnapshot pods = true)
    (hinj : ∀ p ∈ pods, ∀ q ∈ pods, p.id = q.id → p = q) (hlt : ∀ p ∈ pods, p.id < freshId) : SnapI pods := by
  unfold wfSnapshot distinctOrds at hwf
  simp only [Bool.and_eq_true, List.all_eq_true, beq_iff_eq] at hwf
  exact ⟨hwf.1, nodup_of_eraseDups_length _ (by simpa using hwf.2), hinj, hlt⟩

theorem SnapI.id_lt {pods : List Pod} (h : SnapI pods) {q : Pod} (hq : q ∈ pods) : q.id < freshId := h.idlt q hq

theorem SnapI.id_inj {pods : List Pod} (h : SnapI pods) {p q : Pod} (hp : p ∈ pods) (hq : q ∈ pods) (he : p.id = q.id) :
    p = q := h.idinj p hp q hq he

theorem find_unique {α : Type} (l : List α) (k : α → Bool) (q : α) (hq : q ∈ l) (hk : k q = true)
    (huniq : ∀ p ∈ l, k p = true → p = q) : l.find? k = some q := by
  induction l with
  | nil => cases hq
  | cons a as ih =>
    by_cases ha : k a = true
    · have := huniq a List.mem_cons_self ha
      rw [List.find?_cons_of_pos ha, this]
    · rw [List.find?_cons_of_neg ha]
      rcases List.mem_cons.1 hq with rfl | hq'
      · exact absurd hk ha
      · exact ih hq' (fun p hp => huniq p (List.mem_cons_of_mem _ hp))

theorem SnapI.podById {pods : List Pod} (h : SnapI pods) {q : Pod} (hq : q ∈ pods) : podById pods q.id = some q := by
  unfold Asts.podById
  apply find_unique pods (fun p : Pod => p.id == q.id) q hq (by simp)
  intro p hp hk
  exact h.id_inj hp hq (by simpa using hk)

theorem filter_ord_length {pods : List Pod} (hnd : (pods.map (·.ord)).Nodup) (o : Int) :
    (pods.filter (fun p => p.ord == o)).length ≤ 1 := by
  induction pods with
  | nil => simp
  | cons p ps ih =>
    rw [List.map_cons, List.nodup_cons] at hnd
    by_cases hp : (p.ord == o) = true
    · rw [List.filter_cons, if_pos hp]
      have : ps.filter (fun p => p.ord == o) = [] := by
        rw [List.filter_eq_nil_iff]
        intro x hx hxo
        apply hnd.1
        rw [List.mem_map]
        exact ⟨x, hx, by rw [beq_iff_eq] at hp hxo; rw [hp, hxo]⟩
      rw [this]; simp
    · rw [List.filter_cons, if_neg hp]; exact ih hnd.2

theorem head?_eq_getLast?_of_length_le_one {α : Type} (l : List α) (h : l.length ≤ 1) : l.head? = l.getLast? := by
  match l, h with
  | [], _ => rfl
  | [a], _ => rfl
  | _ :: _ :: _, h => simp at h

theorem podAt_eq_slotOf {pods : List Pod} (hnd : (pods.map (·.ord)).Nodup) {b : Int} {E : List Int} {o : Int}
    (hr : inRange b E o = true) : podAt pods o = slotOf b E pods o := by
  unfold podAt slotOf
  have hf : pods.filter (fun p => p.ord == o && inRange b E p.ord) = pods.filter (fun p => p.ord == o) := by
    apply List.filter_congr
    intro p _
    by_cases hp : (p.ord == o) = true
    · have : p.ord = o := by simpa using hp
      simp [this, hr]
    · simp [hp]
  rw [hf, ← List.head?_filter]
  exact head?_eq_getLast?_of_length_le_one _ (filter_ord_length hnd o)

/-! ### the desired set -/

theorem mem_idxOf {b : Int} {E : List Int} {o : Int} : o ∈ idxOf b E ↔ inRange b E o = true := by
  unfold idxOf inRange
  simp only [List.mem_filter, List.mem_map, List.mem_range, Bool.not_eq_true', Bool.and_eq_true, decide_eq_true_eq]
  constructor
  · rintro ⟨⟨n, hn, rfl⟩, hE⟩
    refine ⟨⟨Int.natCast_nonneg n, ?_⟩, hE⟩
    simp only [Int.ofNat_eq_natCast]; omega
  · rintro ⟨⟨h0, hb⟩, hE⟩
    refine ⟨⟨o.toNat, by omega, ?_⟩, hE⟩
    simp only [Int.ofNat_eq_natCast]; omega

theorem contains_idxOf {b : Int} {E : List Int} (o : Int) : (idxOf b E).contains o = inRange b E o := by
  rw [Bool.eq_iff_iff, List.contains_iff_mem, mem_idxOf]

theorem desired_eq_idxOf (r : Int) (S : List Int) (h0 : 0 ≤ r) :
    desired r S = idxOf (maxReplicaAndSlots r S).1 (maxReplicaAndSlots r S).2 := by
  rw [← podOrdinals_eq_desired r S h0]; rfl

theorem maxReplica_facts (r : Int) (S : List Int) (h0 : 0 ≤ r) :
    0 ≤ (maxReplicaAndSlots r S).1 ∧ ∀ e ∈ (maxReplicaAndSlots r S).2, 0 ≤ e := by
  unfold maxReplicaAndSlots
  obtain ⟨h1, h2⟩ := extend_spec (sorted_dedupSort S) r h0
  constructor
  · rw [h1]; omega
  · intro e he
    rw [h2, List.mem_filter] at he
    simp only [Bool.and_eq_true, decide_eq_true_eq] at he
    exact he.2.1

theorem isCondemned_eq {b : Int} {E : List Int} (hb : 0 ≤ b) (hE : ∀ e ∈ E, 0 ≤ e) (o : Int) :
    isCondemned b E o = (decide (0 ≤ o) && !(idxOf b E).contains o) := by
  rw [contains_idxOf]
  unfold isCondemned
  cases hr : inRange b E o
  · simp only [Bool.not_false, Bool.true_and, Bool.and_true]
    rw [Bool.eq_iff_iff]
    simp only [Bool.or_eq_true, decide_eq_true_eq]
    unfold inRange at hr
    simp only [Bool.and_eq_false_iff, decide_eq_false_iff_not, Bool.not_eq_false'] at hr
    constructor
    · rintro (h | h)
      · omega
      · exact hE o (by simpa using h)
    · intro h
      rcases hr with (h' | h') | h'
      · omega
      · left; omega
      · right; exact h'
  · simp

/-! ### the monitor on the action list -/

theorem createOrds_append (a b : List OAct) : createOrds (a ++ b) = createOrds a ++ createOrds b := by
  unfold createOrds; exact List.filterMap_append
theorem scaleDeletes_append (D : List Int) (pods : List Pod) (a b : List OAct) :
    scaleDeletes D pods (a ++ b) = scaleDeletes D pods a ++ scaleDeletes D pods b := by
  unfold scaleDeletes; exact List.filterMap_append
theorem updateDeletes_append (D : List Int) (pods : List Pod) (a b : List OAct) :
    updateDeletes D pods (a ++ b) = updateDeletes D pods a ++ updateDeletes D pods b := by
  unfold updateDeletes; exact List.filterMap_append
theorem observe_append (a b : List Action) : observe (a ++ b) = observe a ++ observe b := by
  unfold observe; exact List.map_append

theorem updateDeletes_length_le (D : List Int) (pods : List Pod) (a : List OAct) :
    (updateDeletes D pods a).length ≤ a.length := by
  unfold updateDeletes; exact List.length_filterMap_le _ _

/-- creates of one replica step -/
theorem createOrds_repActs1 (v : SetView) (cur upd : String) (iq : Int × Pod) :
    createOrds (observe (repActs1 v cur upd iq)) = if iq.2.fs || !iq.2.created then [iq.1] else [] := by
  unfold repActs1
  by_cases hfs : iq.2.fs = true
  · simp [hfs, observe, Action.observe, createOrds]
  · have hfs' : iq.2.fs = false := by simpa using hfs
    by_cases hc : iq.2.created = true
    · by_cases hok : (iq.2.idOk && iq.2.stOk) = true
      · simp [hfs', hc, hok, observe, createOrds]
      · simp [hfs', hc, hok, observe, Action.observe, createOrds]
    · have hc' : iq.2.created = false := by simpa using hc
      simp [hfs', hc', observe, Action.observe, createOrds]

theorem createOrds_repActs (v : SetView) (cur upd : String) (reps : List (Int × Pod)) :
    createOrds (observe (reps.flatMap (repActs1 v cur upd))) =
      (reps.filter (fun iq => iq.2.fs || !iq.2.created)).map (·.1) := by
  induction reps with
  | nil => rfl
  | cons iq rest ih =>
    rw [List.flatMap_cons, observe_append, createOrds_append, ih, createOrds_repActs1, List.filter_cons]
    split_ifs <;> simp

theorem createOrds_condActs (cs : List Pod) : createOrds (observe (condActs cs)) = [] := by
  unfold condActs observe createOrds
  rw [List.filterMap_eq_nil_iff]
  intro a ha
  simp only [List.map_map, List.mem_map, List.mem_filter, Function.comp] at ha
  obtain ⟨c, _, rfl⟩ := ha
  rfl

/-- deletes of one replica step are classified `.replace` -/
theorem deletes_repActs1 (v : SetView) (cur upd : String) (b : Int) (E : List Int) (pods : List Pod) (hs : SnapI pods)
    (iq : Int × Pod) (hiq : iq ∈ repsOf v cur upd b E pods) :
    scaleDeletes (idxOf b E) pods (observe (repActs1 v cur upd iq)) = [] ∧
    updateDeletes (idxOf b E) pods (observe (repActs1 v cur upd iq)) = [] := by
  unfold repActs1
  by_cases hfs : iq.2.fs = true
  · have hcr := fs_created' hfs
    rcases repsOf_mem hiq with ⟨hm, hr⟩ | hn
    · have hid := hs.id_lt hm
      have hpb := hs.podById hm
      have hcl : classify (idxOf b E) pods (.delete iq.1 (some iq.2.id)) = .replace := by
        have hfs2 : (iq.2.failed || iq.2.succeeded) = true := hfs
        simp only [classify, hpb, contains_idxOf, hr, Bool.not_true, Bool.false_eq_true, if_false, hfs2, if_true]
      simp only [hfs, if_true, observe, List.map_cons, List.map_nil, Action.observe, hid, if_true]
      constructor
      · simp [scaleDeletes, OAct.isDelete, hcl]
      · simp [updateDeletes, OAct.isDelete, hcl]
    · rw [hn, newPod_created] at hcr; cases hcr
  · have hfs' : iq.2.fs = false := by simpa using hfs
    simp only [hfs', Bool.false_eq_true, if_false]
    split_ifs <;> simp [observe, Action.observe, scaleDeletes, updateDeletes, OAct.isDelete]
where
  fs_created' {p : Pod} (h : p.fs = true) : p.created = true := by
    unfold Pod.fs Pod.failed Pod.succeeded at h
    unfold Pod.created
    cases hp : p.phase <;> simp_all

theorem deletes_repActs (v : SetView) (cur upd : String) (b : Int) (E : List Int) (pods : List Pod) (hs : SnapI pods)
    (reps : List (Int × Pod)) (hsub : ∀ iq ∈ reps, iq ∈ repsOf v cur upd b E pods) :
    scaleDeletes (idxOf b E) pods (observe (reps.flatMap (repActs1 v cur upd))) = [] ∧
    updateDeletes (idxOf b E) pods (observe (reps.flatMap (repActs1 v cur upd))) = [] := by
  induction reps with
  | nil => exact ⟨rfl, rfl⟩
  | cons iq rest ih =>
    obtain ⟨h1, h2⟩ := deletes_repActs1 v cur upd b E pods hs iq (hsub iq List.mem_cons_self)
    obtain ⟨h3, h4⟩ := ih (fun x hx => hsub x (List.mem_cons_of_mem _ hx))
    rw [List.flatMap_cons, observe_append, scaleDeletes_append, updateDeletes_append, h1, h2, h3, h4]
    exact ⟨rfl, rfl⟩

/-- deletes of the condemned loop are classified `.scale` -/
theorem deletes_condActs (b : Int) (E : List Int) (pods : List Pod) (hs : SnapI pods)
    (cs : List Pod) (hsub : ∀ c ∈ cs, c ∈ pods ∧ isCondemned b E c.ord = true) :
    scaleDeletes (idxOf b E) pods (observe (condActs cs)) = (cs.filter (fun c => !c.terminating)).map (·.ord) ∧
    updateDeletes (idxOf b E) pods (observe (condActs cs)) = [] := by
  induction cs with
  | nil => exact ⟨rfl, rfl⟩
  | cons c rest ih =>
    obtain ⟨h3, h4⟩ := ih (fun x hx => hsub x (List.mem_cons_of_mem _ hx))
    obtain ⟨hm, hcond⟩ := hsub c List.mem_cons_self
    by_cases ht : c.terminating = true
    · have : condActs (c :: rest) = condActs rest := by simp [condActs, ht]
      rw [this, h3, h4]; simp [ht]
    · have ht' : c.terminating = false := by simpa using ht
      have : condActs (c :: rest) = [.delete c.ord c.id .scaleDown] ++ condActs rest := by simp [condActs, ht']
      have hid := hs.id_lt hm
      have hpb := hs.podById hm
      have hnr : inRange b E c.ord = false := by
        by_contra hne
        have : inRange b E c.ord = true := by simpa using hne
        rw [inRange_not_condemned this] at hcond; cases hcond
      have hcl : classify (idxOf b E) pods (.delete c.ord (some c.id)) = .scale := by
        simp only [classify, hpb, contains_idxOf, hnr, Bool.not_false, if_true]
      rw [this, observe_append, scaleDeletes_append, updateDeletes_append, h3, h4]
      simp only [observe, List.map_cons, List.map_nil, Action.observe, hid, if_true]
      constructor
      · simp [scaleDeletes, OAct.isDelete, OAct.ord, hcl, ht']
      · simp [updateDeletes, OAct.isDelete, hcl]

/-- the one delete the update walk can add is never classified `.scale` -/
theorem scaleDeletes_walk (v : SetView) (cur upd : String) (b : Int) (E : List Int) (pods : List Pod) (hs : SnapI pods)
    (t : Int) (q : Pod) (hm : (t, q) ∈ (repsOf v cur upd b E pods).map (repNew v cur upd)) :
    scaleDeletes (idxOf b E) pods (observe [.delete t q.id .update]) = [] := by
  rw [List.mem_map] at hm
  obtain ⟨iq, hiq, heq⟩ := hm
  have hnew : ∀ i, scaleDeletes (idxOf b E) pods (observe [.delete t (newPod v cur upd i).id .update]) = [] := by
    intro i
    have : ¬ (newPod v cur upd i).id < freshId := by simp [newPod]
    simp [observe, Action.observe, this, scaleDeletes, OAct.isDelete, classify]
  unfold repNew at heq
  simp only [Prod.mk.injEq] at heq
  obtain ⟨rfl, hq⟩ := heq
  by_cases hfs : iq.2.fs = true
  · simp only [hfs, if_true] at hq
    rw [← hq]; exact hnew _
  · simp only [hfs, Bool.false_eq_true, if_false] at hq
    rcases repsOf_mem hiq with ⟨hmem, hr⟩ | hn
    · subst hq
      have hid := hs.id_lt hmem
      have hpb := hs.podById hmem
      have hcl : classify (idxOf b E) pods (.delete iq.1 (some iq.2.id)) ≠ .scale := by
        simp only [classify, hpb, contains_idxOf, hr, Bool.not_true, Bool.false_eq_true, if_false]
        split_ifs <;> simp
      simp only [observe, List.map_cons, List.map_nil, Action.observe, hid, if_true]
      simp [scaleDeletes, OAct.isDelete, hcl]
    · rw [← hq, hn]; exact hnew _

theorem mergeSort_eq_of_perm {a b : List Int} (h : a.Perm b) : a.mergeSort = b.mergeSort := by
  have tr : ∀ (x y z : Int), decide (x ≤ y) = true → decide (y ≤ z) = true → decide (x ≤ z) = true := by
    intro x y z h1 h2; simp only [decide_eq_true_eq] at *; omega
  have tot : ∀ (x y : Int), (decide (x ≤ y) || decide (y ≤ x)) = true := by
    intro x y; simp only [Bool.or_eq_true, decide_eq_true_eq]; omega
  apply List.Perm.eq_of_pairwise (le := fun x y => decide (x ≤ y) = true)
  · intro x y _ _ h1 h2; simp only [decide_eq_true_eq] at *; omega
  · exact List.pairwise_mergeSort tr tot a
  · exact List.pairwise_mergeSort tr tot b
  · exact (List.mergeSort_perm a _).trans (h.trans (List.mergeSort_perm b _).symm)

/-! ### assembly -/

theorem C14_of_acts (v : SetView) (cur upd : String) (pods : List Pod) (r : Int) (hr : v.replicas = some r) (h0 : 0 ≤ r)
    (hs : SnapI pods) (l : List Action)
    (hl : l = [] ∨ ∃ t q, (t, q) ∈ (repsOf v cur upd (maxReplicaAndSlots r v.slots).1 (maxReplicaAndSlots r v.slots).2 pods).map
        (repNew v cur upd) ∧ l = [.delete t q.id .update]) :
    C14 v pods (observe ((repsOf v cur upd (maxReplicaAndSlots r v.slots).1 (maxReplicaAndSlots r v.slots).2 pods).flatMap
        (repActs1 v cur upd) ++
      condActs (condemnedOf (maxReplicaAndSlots r v.slots).1 (maxReplicaAndSlots r v.slots).2 pods).reverse ++ l)) = true := by
  obtain ⟨hb0, hE0⟩ := maxReplica_facts r v.slots h0
  generalize hbdef : (maxReplicaAndSlots r v.slots).1 = b at *
  generalize hEdef : (maxReplicaAndSlots r v.slots).2 = E at *
  have hD : desired (replicasOf v) v.slots = idxOf b E := by
    have : replicasOf v = r := by simp [replicasOf, hr]
    rw [this, desired_eq_idxOf r v.slots h0, hbdef, hEdef]
  obtain ⟨hrs, hru⟩ := deletes_repActs v cur upd b E pods hs (repsOf v cur upd b E pods) (fun _ h => h)
  obtain ⟨hcs, hcu⟩ := deletes_condActs b E pods hs (condemnedOf b E pods).reverse
    (fun c hc => mem_condemnedOf.1 (List.mem_reverse.1 hc))
  have hlc : createOrds (observe l) = [] := by
    rcases hl with rfl | ⟨t, q, _, rfl⟩ <;> rfl
  have hls : scaleDeletes (idxOf b E) pods (observe l) = [] := by
    rcases hl with rfl | ⟨t, q, hm, rfl⟩
    · rfl
    · exact scaleDeletes_walk v cur upd b E pods hs t q hm
  have hlu : (updateDeletes (idxOf b E) pods (observe l)).length ≤ 1 := by
    refine le_trans (updateDeletes_length_le _ _ _) ?_
    rcases hl with rfl | ⟨t, q, _, rfl⟩ <;> simp [observe]
  unfold C14
  simp only [hD]
  simp only [observe_append, createOrds_append, scaleDeletes_append, updateDeletes_append, createOrds_repActs,
    createOrds_condActs, hlc, hrs, hru, hcs, hcu, hls, List.append_nil, List.nil_append]
  simp only [Bool.and_eq_true, beq_iff_eq, decide_eq_true_eq]
  refine ⟨⟨?_, ?_⟩, hlu⟩
  · -- creations
    unfold repsOf
    rw [List.filter_map, List.map_map]
    have : ((fun x : Int × Pod => x.1) ∘ fun i => (i, (slotOf b E pods i).getD (newPod v cur upd i))) = id := rfl
    rw [this, List.map_id]
    apply List.filter_congr
    intro o ho
    have hro := mem_idxOf.1 ho
    rw [podAt_eq_slotOf hs.ordNodup hro]
    simp only [Function.comp]
    cases hso : slotOf b E pods o with
    | none => simp [Pod.fs, newPod, Pod.failed, Pod.succeeded, Pod.created]
    | some p =>
      have := hs.created p (slotOf_some hso).1
      simp [this, Pod.fs]
  · -- scale-in deletions
    apply mergeSort_eq_of_perm
    apply List.Perm.map
    apply List.Perm.filter
    refine (List.reverse_perm _).trans ((condemnedOf_perm b E pods).trans ?_)
    unfold condemnedSpec
    rw [List.filter_congr (fun p _ => isCondemned_eq hb0 hE0 p.ord)]

theorem updateStatefulSet_par' (v : SetView) (cur upd : String) (pods : List Pod) (r : Int)
    (hr : v.replicas = some r) (h0 : 0 ≤ r) (hpar : v.parallel = true) (hdel : v.deleting = false)
    (hs : Snap pods) :
    (updateStatefulSet v cur upd pods []).2 = .ok ∧
    C14 v pods (observe (updateStatefulSet v cur upd pods []).1.acts) = true := by
  unfold updateStatefulSet
  cases hp : prepare v cur upd pods with
  | error e => obtain ⟨st, o⟩ := e; exact absurd hp (prepare_calm' v cur upd pods r hr st o)
  | ok p =>
    simp only [hdel, Bool.false_eq_true, if_false]
    obtain ⟨_, hreps, hcond, _, _⟩ := prepare_ok hr hp
    obtain ⟨s, l, h1, h2, h3⟩ := runLoops_par v cur upd p hpar
    rw [h1]
    refine ⟨rfl, ?_⟩
    simp only [h2]
    rw [hreps, hcond]
    rw [hreps] at h3
    exact C14_of_acts v cur upd pods r hr h0 hs.toI l h3

/-- the former statement, with the int32 bounds the repaired first-unhealthy scan no longer needs (kept for its users) -/
theorem updateStatefulSet_par (v : SetView) (cur upd : String) (pods : List Pod) (r : Int)
    (hr : v.replicas = some r) (h0 : 0 ≤ r) (hpar : v.parallel = true) (hdel : v.deleting = false)
    (hs : Snap pods) (_hb : (maxReplicaAndSlots r v.slots).1 ≤ maxInt32) (_hord : ∀ p ∈ pods, p.ord < maxInt32) :
    (updateStatefulSet v cur upd pods []).2 = .ok ∧
    C14 v pods (observe (updateStatefulSet v cur upd pods []).1.acts) = true :=
  updateStatefulSet_par' v cur upd pods r hr h0 hpar hdel hs

end Asts.L1c
