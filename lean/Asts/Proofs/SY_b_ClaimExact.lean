import Asts.Proofs.SY_b_AdoptExact

/-! `claimPodsF`, exactly: who ends up on the claimed list, in terms of the decisions and of the unfaulted
    `patch:pod:` calls that stand in the log. -/
namespace Asts.SYb
open Asts

def patchPodKey (c : CPod) : String := s!"patch:pod:{c.name}"

/-- one iteration of `ClaimPods` -/
def claimStep (plan : List Fault) (setDeleting : Bool) (fresh : Fresh) (o : ClaimOutF) (c : CPod) : ClaimOutF :=
  match claimDecision setDeleting c with
  | .keep => { o with claimed := o.claimed ++ [c] }
  | .ignore => o
  | .release =>
    let (t, e) := o.tr.call plan s!"patch:pod:{c.name}"
    let o := { o with tr := t }
    match e with
    | some .notFound | some .invalid | none => o
    | some _ => { o with failed := true }
  | .adopt =>
    let (o, can) := match o.canAdopt with
      | some b => (o, b)
      | none =>
        let (t, e) := o.tr.call plan "get:set"
        let b := e.isNone && !fresh.gone && fresh.uidOk && !fresh.deleting
        ({ o with tr := t, canAdopt := some b }, b)
    if !can then { o with failed := true }
    else
      let (t, e) := o.tr.call plan s!"patch:pod:{c.name}"
      let o := { o with tr := t }
      match e with
      | none => { o with claimed := o.claimed ++ [c] }
      | some .notFound => o
      | some _ => { o with failed := true }

theorem claimPodsF_eq_foldl (plan : List Fault) (d : Bool) (fresh : Fresh) (pods : List CPod) (tr : Tr) :
    claimPodsF plan d fresh pods tr = pods.foldl (claimStep plan d fresh) { tr := tr } := rfl

theorem claimStep_keep {plan : List Fault} {d : Bool} {fresh : Fresh} (o : ClaimOutF) {c : CPod} (h : claimDecision d c = .keep) :
    (claimStep plan d fresh o c).claimed = o.claimed ++ [c] ∧ (claimStep plan d fresh o c).tr = o.tr := by
  unfold claimStep; rw [h]; exact ⟨rfl, rfl⟩

theorem claimStep_ignore {plan : List Fault} {d : Bool} {fresh : Fresh} (o : ClaimOutF) {c : CPod} (h : claimDecision d c = .ignore) :
    claimStep plan d fresh o c = o := by
  unfold claimStep; rw [h]

theorem claimStep_release {plan : List Fault} {d : Bool} {fresh : Fresh} (o : ClaimOutF) {c : CPod} (h : claimDecision d c = .release) :
    (claimStep plan d fresh o c).claimed = o.claimed ∧ (claimStep plan d fresh o c).tr.log = o.tr.log ++ [patchPodKey c] := by
  unfold claimStep; rw [h]
  simp only
  split <;> exact ⟨rfl, rfl⟩

/-- the adopt branch: an optional uncached read of the set, then — if adoption is allowed — the patch, which puts the pod on
    the claimed list iff no fault hits it -/
theorem claimStep_adopt {plan : List Fault} {d : Bool} {fresh : Fresh} (o : ClaimOutF) {c : CPod} (h : claimDecision d c = .adopt) :
    ∃ g : List String, (g = [] ∨ g = ["get:set"]) ∧
      (((claimStep plan d fresh o c).claimed = o.claimed ∧ (claimStep plan d fresh o c).tr.log = o.tr.log ++ g) ∨
       ((claimStep plan d fresh o c).tr.log = o.tr.log ++ g ++ [patchPodKey c] ∧
         ((look plan (patchPodKey c) (cnt (patchPodKey c) (o.tr.log ++ g)) = none ∧
             (claimStep plan d fresh o c).claimed = o.claimed ++ [c]) ∨
          (look plan (patchPodKey c) (cnt (patchPodKey c) (o.tr.log ++ g)) ≠ none ∧
             (claimStep plan d fresh o c).claimed = o.claimed)))) := by
  unfold claimStep; rw [h]
  simp only
  cases hm : o.canAdopt with
  | some b =>
    simp only
    refine ⟨[], Or.inl rfl, ?_⟩
    cases b with
    | false => left; exact ⟨rfl, by simp⟩
    | true =>
      right
      simp only [Bool.not_true, Bool.false_eq_true, if_false, List.append_nil]
      have hc : (o.tr.call plan s!"patch:pod:{c.name}").2 = look plan (patchPodKey c) (cnt (patchPodKey c) o.tr.log) := rfl
      cases he : (o.tr.call plan s!"patch:pod:{c.name}").2 with
      | none => exact ⟨rfl, Or.inl ⟨hc ▸ he, rfl⟩⟩
      | some k =>
        have hne : look plan (patchPodKey c) (cnt (patchPodKey c) o.tr.log) ≠ none := by rw [← hc, he]; simp
        cases k <;> exact ⟨rfl, Or.inr ⟨hne, rfl⟩⟩
  | none =>
    simp only
    refine ⟨["get:set"], Or.inr rfl, ?_⟩
    cases hb : ((o.tr.call plan "get:set").2.isNone && !fresh.gone && fresh.uidOk && !fresh.deleting) with
    | false => left; exact ⟨rfl, rfl⟩
    | true =>
      right
      simp only [Bool.not_true, Bool.false_eq_true, if_false]
      have hc : ((o.tr.call plan "get:set").1.call plan s!"patch:pod:{c.name}").2 =
          look plan (patchPodKey c) (cnt (patchPodKey c) (o.tr.log ++ ["get:set"])) := rfl
      cases he : ((o.tr.call plan "get:set").1.call plan s!"patch:pod:{c.name}").2 with
      | none => exact ⟨rfl, Or.inl ⟨hc ▸ he, rfl⟩⟩
      | some k =>
        have hne : look plan (patchPodKey c) (cnt (patchPodKey c) (o.tr.log ++ ["get:set"])) ≠ none := by rw [← hc, he]; simp
        cases k <;> exact ⟨rfl, Or.inr ⟨hne, rfl⟩⟩

/-! ## `Succ` and appended entries -/

theorem not_succ_of_not_mem {plan : List Fault} {l : List String} {k : String} (h : k ∉ l) : ¬ Succ plan l k := by
  rintro ⟨pre, post, rfl, _⟩
  exact h (by simp)

theorem succ_of_append_not_mem {plan : List Fault} {l m : List String} {k : String} (h : Succ plan (l ++ m) k) (hk : k ∉ m) :
    Succ plan l k := by
  obtain ⟨pre, post, heq, hl⟩ := h
  rcases List.append_eq_append_iff.mp heq with ⟨a', rfl, hm⟩ | ⟨c', rfl, hm⟩
  · exfalso; apply hk; rw [hm]; simp
  · cases c' with
    | nil =>
      exfalso; apply hk
      simp only [List.nil_append] at hm
      rw [← hm]; simp
    | cons x c'' =>
      simp only [List.cons_append, List.cons.injEq] at hm
      obtain ⟨rfl, _⟩ := hm
      exact ⟨pre, c'', rfl, hl⟩

theorem look_of_succ_last {plan : List Fault} {l : List String} {k : String} (h : Succ plan (l ++ [k]) k) (hk : k ∉ l) :
    look plan k (cnt k l) = none := by
  obtain ⟨pre, post, heq, hl⟩ := h
  rcases List.append_eq_append_iff.mp heq with ⟨a', rfl, hm⟩ | ⟨c', rfl, hm⟩
  · cases a' with
    | nil => simpa using hl
    | cons x a'' =>
      simp only [List.cons_append, List.cons.injEq] at hm
      obtain ⟨_, hm⟩ := hm
      have := congrArg List.length hm
      simp at this
  · cases c' with
    | nil => simpa using hl
    | cons x c'' =>
      exfalso; apply hk
      simp only [List.cons_append, List.cons.injEq] at hm
      obtain ⟨rfl, _⟩ := hm
      simp

theorem patchPodKey_inj {a b : CPod} (h : patchPodKey a = patchPodKey b) : a.name = b.name := by
  simp only [patchPodKey, toString] at h
  have := congrArg String.toList h
  simpa [String.toList_append, String.ext_iff] using this

theorem patchPodKey_pre (c : CPod) : pre "patch:pod:" (patchPodKey c) = true := by
  simp [patchPodKey, pre, toString, String.toList_append, List.isPrefixOf]

theorem getset_not_patchPod : pre "patch:pod:" "get:set" = false := by
  simp [pre, List.isPrefixOf]

/-! ## the invariant -/

structure ClaimJ (plan : List Fault) (d : Bool) (log0 : List String) (P : List CPod) (o : ClaimOutF) : Prop where
  ext : Ext (fun e => e = "get:set" ∨ ∃ c ∈ P, (claimDecision d c = .release ∨ claimDecision d c = .adopt) ∧ e = patchPodKey c) log0 o.tr.log
  sub : ∀ c ∈ o.claimed, c ∈ P ∧ (claimDecision d c = .keep ∨ (claimDecision d c = .adopt ∧ Succ plan o.tr.log (patchPodKey c)))
  keep : ∀ c ∈ P, claimDecision d c = .keep → c ∈ o.claimed
  adopt : ∀ c ∈ P, claimDecision d c = .adopt → Succ plan o.tr.log (patchPodKey c) → c ∈ o.claimed

theorem ClaimJ.key_not_mem {plan : List Fault} {d : Bool} {log0 : List String} {P : List CPod} {o : ClaimOutF}
    (J : ClaimJ plan d log0 P o) (h0 : ∀ e ∈ log0, pre "patch:pod:" e = false) {c : CPod}
    (hc : c.name ∉ P.map (·.name)) : patchPodKey c ∉ o.tr.log := by
  obtain ⟨m, hm, hm'⟩ := J.ext
  rw [hm]
  intro hmem
  rcases List.mem_append.mp hmem with h | h
  · have := h0 _ h; rw [patchPodKey_pre] at this; exact absurd this (by simp)
  · rcases hm' _ h with h | ⟨c', hc', _, h⟩
    · have := patchPodKey_pre c; rw [h, getset_not_patchPod] at this; exact absurd this (by simp)
    · exact hc (patchPodKey_inj h ▸ List.mem_map_of_mem hc')

theorem claimStep_J {plan : List Fault} {d : Bool} {fresh : Fresh} {log0 : List String} {P : List CPod} {o : ClaimOutF}
    (J : ClaimJ plan d log0 P o) (h0 : ∀ e ∈ log0, pre "patch:pod:" e = false) {c : CPod}
    (hc : c.name ∉ P.map (·.name)) : ClaimJ plan d log0 (P ++ [c]) (claimStep plan d fresh o c) := by
  have hkey := J.key_not_mem h0 hc
  have hcP : c ∉ P := fun h => hc (List.mem_map_of_mem h)
  have hkne : ∀ c' ∈ P, patchPodKey c' ≠ patchPodKey c := fun c' hc' he => hc (patchPodKey_inj he ▸ List.mem_map_of_mem hc')
  have hgs : ∀ c' : CPod, patchPodKey c' ≠ "get:set" := by
    intro c' he
    have := patchPodKey_pre c'; rw [he, getset_not_patchPod] at this; exact absurd this (by simp)
  -- a generic extension argument: the step appends `m` (made of get:set and the key of `c`), the claimed list is `cl`
  have build : ∀ (o' : ClaimOutF) (m : List String), o'.tr.log = o.tr.log ++ m →
      (∀ e ∈ m, e = "get:set" ∨ (e = patchPodKey c ∧ (claimDecision d c = .release ∨ claimDecision d c = .adopt))) →
      (o'.claimed = o.claimed ∧ (claimDecision d c = .keep → False) ∧
          (claimDecision d c = .adopt → ¬ Succ plan (o.tr.log ++ m) (patchPodKey c)) ∨
       o'.claimed = o.claimed ++ [c] ∧ (claimDecision d c = .keep ∨
          (claimDecision d c = .adopt ∧ Succ plan (o.tr.log ++ m) (patchPodKey c)))) →
      ClaimJ plan d log0 (P ++ [c]) o' := by
    intro o' m hlog hm hcl
    have hback : ∀ c' ∈ P, Succ plan (o.tr.log ++ m) (patchPodKey c') → Succ plan o.tr.log (patchPodKey c') := by
      intro c' hc' hs
      apply succ_of_append_not_mem hs
      intro hmem
      rcases hm _ hmem with h | ⟨h, _⟩
      · exact hgs c' h
      · exact hkne c' hc' h
    refine ⟨?_, ?_, ?_, ?_⟩
    · rw [hlog]
      have e1 : Ext (fun e => e = "get:set" ∨ ∃ c' ∈ P ++ [c], (claimDecision d c' = .release ∨ claimDecision d c' = .adopt) ∧
          e = patchPodKey c') log0 o.tr.log :=
        J.ext.mono (fun e he => he.imp id (fun ⟨c', hc', h⟩ => ⟨c', List.mem_append_left _ hc', h⟩))
      exact e1.trans ⟨m, rfl, fun e he => (hm e he).imp id (fun h => ⟨c, by simp, h.2, h.1⟩)⟩
    · intro x hx
      rw [hlog]
      rcases hcl with ⟨h1, _, _⟩ | ⟨h1, h2⟩
      · rw [h1] at hx
        obtain ⟨a, b⟩ := J.sub x hx
        exact ⟨List.mem_append_left _ a, b.imp id (fun ⟨b1, b2⟩ => ⟨b1, b2.mono m⟩)⟩
      · rw [h1] at hx
        rcases List.mem_append.mp hx with hx | hx
        · obtain ⟨a, b⟩ := J.sub x hx
          exact ⟨List.mem_append_left _ a, b.imp id (fun ⟨b1, b2⟩ => ⟨b1, b2.mono m⟩)⟩
        · have : x = c := by simpa using hx
          subst this
          exact ⟨by simp, h2⟩
    · intro x hx hk
      rcases List.mem_append.mp hx with hx | hx
      · have := J.keep x hx hk
        rcases hcl with ⟨h1, _, _⟩ | ⟨h1, _⟩ <;> rw [h1]
        · exact this
        · exact List.mem_append_left _ this
      · have : x = c := by simpa using hx
        subst this
        rcases hcl with ⟨_, h2, _⟩ | ⟨h1, _⟩
        · exact absurd hk h2
        · rw [h1]; simp
    · intro x hx hk hs
      rw [hlog] at hs
      rcases List.mem_append.mp hx with hx | hx
      · have := J.adopt x hx hk (hback x hx hs)
        rcases hcl with ⟨h1, _, _⟩ | ⟨h1, _⟩ <;> rw [h1]
        · exact this
        · exact List.mem_append_left _ this
      · have : x = c := by simpa using hx
        subst this
        rcases hcl with ⟨_, _, h3⟩ | ⟨h1, _⟩
        · exact absurd hs (h3 hk)
        · rw [h1]; simp
  cases hdec : claimDecision d c with
  | keep =>
    obtain ⟨h1, h2⟩ := claimStep_keep (plan := plan) (fresh := fresh) o hdec
    exact build _ [] (by rw [h2]; simp) (by simp) (Or.inr ⟨h1, Or.inl hdec⟩)
  | ignore =>
    rw [claimStep_ignore o hdec]
    exact build _ [] (by simp) (by simp) (Or.inl ⟨rfl, by rw [hdec]; simp, by rw [hdec]; simp⟩)
  | release =>
    obtain ⟨h1, h2⟩ := claimStep_release (plan := plan) (fresh := fresh) o hdec
    exact build _ [patchPodKey c] h2 (by simp [hdec]) (Or.inl ⟨h1, by rw [hdec]; simp, by rw [hdec]; simp⟩)
  | adopt =>
    obtain ⟨g, hg, hcase⟩ := claimStep_adopt (plan := plan) (fresh := fresh) o hdec
    have hgm : ∀ e ∈ g, e = "get:set" := by
      rcases hg with rfl | rfl <;> simp
    have hkg : patchPodKey c ∉ o.tr.log ++ g := by
      intro hmem
      rcases List.mem_append.mp hmem with h | h
      · exact hkey h
      · exact hgs c (hgm _ h)
    rcases hcase with ⟨h1, h2⟩ | ⟨h2, hres⟩
    · exact build _ g h2 (fun e he => Or.inl (hgm e he)) (Or.inl ⟨h1, by rw [hdec]; simp, fun _ => not_succ_of_not_mem hkg⟩)
    · have h2' : (claimStep plan d fresh o c).tr.log = o.tr.log ++ (g ++ [patchPodKey c]) := by rw [h2]; simp
      have hm : ∀ e ∈ g ++ [patchPodKey c], e = "get:set" ∨ (e = patchPodKey c ∧
          (claimDecision d c = .release ∨ claimDecision d c = .adopt)) := by
        intro e he
        rcases List.mem_append.mp he with he | he
        · exact Or.inl (hgm e he)
        · exact Or.inr ⟨by simpa using he, Or.inr hdec⟩
      rcases hres with ⟨hl, hc1⟩ | ⟨hl, hc1⟩
      · refine build _ _ h2' hm (Or.inr ⟨hc1, Or.inr ⟨hdec, ?_⟩⟩)
        exact ⟨o.tr.log ++ g, [], by simp, hl⟩
      · refine build _ _ h2' hm (Or.inl ⟨hc1, by rw [hdec]; simp, fun _ hs => hl ?_⟩)
        rw [← List.append_assoc] at hs
        exact look_of_succ_last hs hkg

/-- **the claim pass, exactly**: a pod is on the claimed list iff it is in the cache and either the decision was "keep"
    (controlled by the set, matching, member) or the decision was "adopt" and an unfaulted `patch:pod:` call for it stands in
    the log. Pod names distinct; the log before the pass has no `patch:pod:` entry. -/
theorem claim_exact (plan : List Fault) (d : Bool) (fresh : Fresh) (pods : List CPod) (tr : Tr)
    (hnd : (pods.map (·.name)).Nodup) (h0 : ∀ e ∈ tr.log, pre "patch:pod:" e = false) :
    ClaimJ plan d tr.log pods (claimPodsF plan d fresh pods tr) := by
  rw [claimPodsF_eq_foldl]
  induction pods using List.reverseRecOn with
  | nil => exact ⟨Ext.refl _ _, by simp, by simp, by simp⟩
  | append_singleton P c ih =>
    rw [List.foldl_append]
    simp only [List.foldl_cons, List.foldl_nil]
    rw [List.map_append, List.nodup_append] at hnd
    have hc : c.name ∉ P.map (·.name) := by
      intro hmem
      exact hnd.2.2 _ hmem _ (by simp) rfl
    exact claimStep_J (ih hnd.1) h0 hc

end Asts.SYb
