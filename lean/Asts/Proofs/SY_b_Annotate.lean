import Asts.Proofs.SY_b_C08Monitor

/-! `annotate` (the monitors' reading of the call log: parsed entry, index, injected fault) in closed form, and the notion
    "a successful call with key `k` is in the log". -/
namespace Asts.SYb
open Asts

/-- the fault (if any) that the plan injects into the `occ`-th call with key `k` -/
def look (plan : List Fault) (k : String) (occ : Nat) : Option ErrKind :=
  (plan.find? (fun f => f.key == k && f.occ == occ)).map (·.kind)

theorem call_eq (t : Tr) (plan : List Fault) (k : String) :
    t.call plan k = ({ log := t.log ++ [k] }, look plan k (cnt k t.log)) := rfl

/-- a call with key `k` that no injected fault hit is in the log -/
def Succ (plan : List Fault) (log : List String) (k : String) : Prop :=
  ∃ pre post, log = pre ++ k :: post ∧ look plan k (cnt k pre) = none

theorem Succ.mono {plan : List Fault} {log : List String} {k : String} (h : Succ plan log k) (more : List String) :
    Succ plan (log ++ more) k := by
  obtain ⟨pre, post, rfl, hl⟩ := h
  exact ⟨pre, post ++ more, by simp, hl⟩

/-- `annotate` with the prefix made explicit -/
def annFrom (plan : List Fault) : List String → List String → List (Entry × Nat × Option ErrKind)
  | _, [] => []
  | pre, e :: rest => (parseEntry e, pre.length, look plan e (cnt e pre)) :: annFrom plan (pre ++ [e]) rest

theorem annotate_go_eq (plan : List Fault) (pre rest : List String) :
    annotate.go plan pre.reverse pre.length rest = annFrom plan pre rest := by
  induction rest generalizing pre with
  | nil => rfl
  | cons e rest ih =>
    unfold annotate.go annFrom
    have h1 : (pre.reverse.filter (· == e)).length = cnt e pre := by
      unfold cnt
      rw [List.filter_reverse, List.length_reverse]
    have h2 := ih (pre ++ [e])
    simp only [List.reverse_append, List.reverse_cons, List.reverse_nil, List.nil_append, List.singleton_append,
      List.length_append, List.length_cons, List.length_nil] at h2
    simp only [h1]
    rw [show look plan e (cnt e pre) = (plan.find? (fun f => f.key == e && f.occ == cnt e pre)).map (·.kind) from rfl]
    congr 1

theorem annotate_eq (plan : List Fault) (log : List String) : annotate plan log = annFrom plan [] log := by
  unfold annotate
  exact annotate_go_eq plan [] log

theorem annFrom_map_fst (plan : List Fault) (pre rest : List String) :
    (annFrom plan pre rest).map (·.1) = rest.map parseEntry := by
  induction rest generalizing pre with
  | nil => rfl
  | cons e rest ih => simp [annFrom, ih]

theorem mem_annFrom {plan : List Fault} {pre rest : List String} {x : Entry × Nat × Option ErrKind} :
    x ∈ annFrom plan pre rest ↔
      ∃ a e b, rest = a ++ e :: b ∧ x = (parseEntry e, (pre ++ a).length, look plan e (cnt e (pre ++ a))) := by
  induction rest generalizing pre with
  | nil => simp [annFrom]
  | cons e0 rest ih =>
    simp only [annFrom, List.mem_cons]
    constructor
    · rintro (rfl | hx)
      · exact ⟨[], e0, rest, rfl, by simp⟩
      · obtain ⟨a, e, b, rfl, rfl⟩ := ih.mp hx
        exact ⟨e0 :: a, e, b, rfl, by simp⟩
    · rintro ⟨a, e, b, hr, rfl⟩
      cases a with
      | nil =>
        simp only [List.nil_append, List.cons.injEq] at hr
        obtain ⟨rfl, rfl⟩ := hr
        left; simp
      | cons a0 a =>
        simp only [List.cons_append, List.cons.injEq] at hr
        obtain ⟨rfl, rfl⟩ := hr
        right
        exact ih.mpr ⟨a, e, b, rfl, by simp⟩

theorem mem_annotate {plan : List Fault} {log : List String} {x : Entry × Nat × Option ErrKind} :
    x ∈ annotate plan log ↔ ∃ a e b, log = a ++ e :: b ∧ x = (parseEntry e, a.length, look plan e (cnt e a)) := by
  rw [annotate_eq, mem_annFrom]; simp

theorem annotate_map_fst (plan : List Fault) (log : List String) : (annotate plan log).map (·.1) = log.map parseEntry := by
  rw [annotate_eq, annFrom_map_fst]

/-! ## parsing the shapes back -/

/-- every shape is one of the three constants or `"<verb>:<res>:" ++ name` with `res` = `rev` or `pod` -/
theorem AnyShape.classify {e : String} (h : AnyShape e) :
    e = "list:revs" ∨ e = "get:set" ∨ e = "updatestatus" ∨
    ∃ P V R m, Pre3 P V R ∧ (R = "rev" ∨ R = "pod") ∧ e = P ++ m := by
  rcases h with (hs | hs) | ⟨c, rfl⟩ | hs | ⟨r, rfl⟩
  · rcases hs with rfl | rfl | ⟨n, rfl | rfl⟩
    · exact Or.inl rfl
    · exact Or.inr (Or.inl rfl)
    · exact Or.inr (Or.inr (Or.inr ⟨_, _, _, n, pre_update_rev, Or.inl rfl, rfl⟩))
    · exact Or.inr (Or.inr (Or.inr ⟨_, _, _, n, pre_patch_rev, Or.inl rfl, rfl⟩))
  · rcases hs with rfl | ⟨n, rfl⟩
    · exact Or.inr (Or.inl rfl)
    · exact Or.inr (Or.inr (Or.inr ⟨_, _, _, n, pre_patch_pod, Or.inr rfl, rfl⟩))
  · cases c with
    | create n => exact Or.inr (Or.inr (Or.inr ⟨_, _, _, n, pre_create_rev, Or.inl rfl, rfl⟩))
    | update n => exact Or.inr (Or.inr (Or.inr ⟨_, _, _, n, pre_update_rev, Or.inl rfl, rfl⟩))
    | get n => exact Or.inr (Or.inr (Or.inr ⟨_, _, _, n, pre_get_rev, Or.inl rfl, rfl⟩))
  · rcases hs with rfl | ⟨n, rfl | rfl | rfl⟩
    · exact Or.inr (Or.inr (Or.inl rfl))
    · exact Or.inr (Or.inr (Or.inr ⟨_, _, _, n, pre_create_pod, Or.inr rfl, rfl⟩))
    · exact Or.inr (Or.inr (Or.inr ⟨_, _, _, n, pre_delete_pod, Or.inr rfl, rfl⟩))
    · exact Or.inr (Or.inr (Or.inr ⟨_, _, _, n, pre_update_pod, Or.inr rfl, rfl⟩))
  · exact Or.inr (Or.inr (Or.inr ⟨_, _, _, r.name, pre_delete_rev, Or.inl rfl, rfl⟩))

theorem Pre3.unique {P P' V R : String} (h : Pre3 P V R) (h' : Pre3 P' V R) : P = P' :=
  String.ext_iff.mpr (h.toList_eq.trans h'.toList_eq.symm)

/-- an entry of a known shape that parses to `(V, R, n)` with `R` = `rev` or `pod` IS `"V:R:" ++ n` -/
theorem eq_of_parse {e P V R n : String} (hs : AnyShape e) (hP : Pre3 P V R) (hR : R = "rev" ∨ R = "pod")
    (hparse : parseEntry e = { verb := V, res := R, name := n }) : e = P ++ n ∧ NoColon n := by
  have hne1 : R ≠ "revs" := by rcases hR with rfl | rfl <;> decide
  have hne2 : R ≠ "set" := by rcases hR with rfl | rfl <;> decide
  have hne3 : R ≠ "" := by rcases hR with rfl | rfl <;> decide
  rcases hs.classify with rfl | rfl | rfl | ⟨P', V', R', m, hP', _, rfl⟩
  · rw [parseEntry_list_revs] at hparse
    exact absurd (congrArg Entry.res hparse).symm hne1
  · rw [parseEntry_get_set] at hparse
    exact absurd (congrArg Entry.res hparse).symm hne2
  · rw [parseEntry_updatestatus] at hparse
    exact absurd (congrArg Entry.res hparse).symm hne3
  · by_cases hm : NoColon m
    · rw [parseEntry_pre3 hP' m hm] at hparse
      have hv : V' = V := congrArg Entry.verb hparse
      have hr : R' = R := congrArg Entry.res hparse
      have hn : m = n := congrArg Entry.name hparse
      subst hv hr hn
      exact ⟨by rw [hP'.unique hP], hm⟩
    · rw [parseEntry_pre3_colon hP' m hm] at hparse
      exact absurd (congrArg Entry.res hparse).symm hne3

/-- the monitors' "an unfaulted call `V R n` is in the log" is `Succ` of the rendered key -/
theorem any_succ_iff {plan : List Fault} {log : List String} (hlog : ∀ e ∈ log, AnyShape e) {P V R n : String}
    (hP : Pre3 P V R) (hR : R = "rev" ∨ R = "pod") (hn : NoColon n) :
    (annotate plan log).any (fun x => x.1.verb == V && x.1.res == R && x.1.name == n && x.2.2.isNone) = true ↔
      Succ plan log (P ++ n) := by
  rw [List.any_eq_true]
  constructor
  · rintro ⟨x, hx, hcond⟩
    obtain ⟨a, e, b, rfl, rfl⟩ := mem_annotate.mp hx
    simp only [Bool.and_eq_true, beq_iff_eq, Option.isNone_iff_eq_none] at hcond
    obtain ⟨⟨⟨h1, h2⟩, h3⟩, h4⟩ := hcond
    have hparse : parseEntry e = { verb := V, res := R, name := n } := by
      cases hpe : parseEntry e with
      | mk v r nm => rw [hpe] at h1 h2 h3; simp only at h1 h2 h3; rw [h1, h2, h3]
    obtain ⟨he, _⟩ := eq_of_parse (hlog e (by simp)) hP hR hparse
    subst he
    exact ⟨a, b, rfl, h4⟩
  · rintro ⟨pre, post, rfl, hl⟩
    refine ⟨(parseEntry (P ++ n), pre.length, look plan (P ++ n) (cnt (P ++ n) pre)), mem_annotate.mpr ⟨pre, _, post, rfl, rfl⟩, ?_⟩
    rw [parseEntry_pre3 hP n hn]
    simp [hl]

/-- does the parsed entry read as a Delete of a ControllerRevision? -/
def isRevDelete (en : Entry) : Bool := en.res == "rev" && en.verb == "delete"

theorem pre3_not_revDelete {p v r : String} (hp : Pre3 p v r) (hvr : (r == "rev" && v == "delete") = false) (n : String) :
    isRevDelete (parseEntry (p ++ n)) = false := by
  rcases parseEntry_pre3_cases hp n with h | h
  · rw [h]; exact hvr
  · unfold isRevDelete; rw [h]; simp

theorem not_revDelete_of_shape {e : String} (hs : AnyShape e) (hp : pre "delete:rev:" e = false) :
    isRevDelete (parseEntry e) = false := by
  have hlr : isRevDelete (parseEntry "list:revs") = false := by rw [parseEntry_list_revs]; decide
  have hgs : isRevDelete (parseEntry "get:set") = false := by rw [parseEntry_get_set]; decide
  have hus : isRevDelete (parseEntry "updatestatus") = false := by rw [parseEntry_updatestatus]; decide
  rcases hs with (hs | hs) | ⟨c, rfl⟩ | hs | ⟨r, rfl⟩
  · rcases hs with rfl | rfl | ⟨n, rfl | rfl⟩
    · exact hlr
    · exact hgs
    · exact pre3_not_revDelete pre_update_rev (by decide) n
    · exact pre3_not_revDelete pre_patch_rev (by decide) n
  · rcases hs with rfl | ⟨n, rfl⟩
    · exact hgs
    · exact pre3_not_revDelete pre_patch_pod (by decide) n
  · cases c with
    | create n => exact pre3_not_revDelete pre_create_rev (by decide) n
    | update n => exact pre3_not_revDelete pre_update_rev (by decide) n
    | get n => exact pre3_not_revDelete pre_get_rev (by decide) n
  · rcases hs with rfl | ⟨n, rfl | rfl | rfl⟩
    · exact hus
    · exact pre3_not_revDelete pre_create_pod (by decide) n
    · exact pre3_not_revDelete pre_delete_pod (by decide) n
    · exact pre3_not_revDelete pre_update_pod (by decide) n
  · rw [delKey_pre_del] at hp; exact absurd hp (by simp)

/-- the names of the revision Deletes the monitor reads out of a log -/
def delNames (log : List String) : List String :=
  (log.map parseEntry).filterMap (fun e => if e.res == "rev" && e.verb == "delete" then some e.name else none)

theorem delNames_append (a b : List String) : delNames (a ++ b) = delNames a ++ delNames b := by
  simp [delNames, List.filterMap_append]

theorem delNames_nil_of {l : List String} (hs : ∀ e ∈ l, AnyShape e) (hp : ∀ e ∈ l, pre "delete:rev:" e = false) :
    delNames l = [] := by
  unfold delNames
  rw [List.filterMap_eq_nil_iff]
  intro en hen
  obtain ⟨e, he, rfl⟩ := List.mem_map.mp hen
  have := not_revDelete_of_shape (hs e he) (hp e he)
  unfold isRevDelete at this
  rw [this]; rfl

theorem delNames_dels (ds : List Rev) (hn : ∀ r ∈ ds, NoColon r.name) : delNames (ds.map delKey) = ds.map (·.name) := by
  induction ds with
  | nil => rfl
  | cons r rs ih =>
    have h1 : parseEntry (delKey r) = { verb := "delete", res := "rev", name := r.name } :=
      parseEntry_pre3 pre_delete_rev r.name (hn r List.mem_cons_self)
    have := ih (fun x hx => hn x (List.mem_cons_of_mem _ hx))
    unfold delNames at this ⊢
    rw [List.map_cons, List.map_cons, List.filterMap_cons, h1, this]
    rfl

end Asts.SYb
