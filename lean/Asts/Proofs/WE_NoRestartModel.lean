import Mathlib.Tactic
import Asts.Proofs.WE_NoRestartPods

/-! # WE — the monitor `C08noRestart` is true on the model's histories

Hypotheses: hash labels never parse as numbers (`hnum`; the real labels are ten characters of a vowel-free alphabet and
parse only when all ten are digits), the stored revisions have distinct names and are all visible to the set (selector labels
or upgrade marker, not controlled by somebody else), and no world of the history holds more than `freshId` pod objects. -/
namespace Asts.WE
open Asts Asts.SYb

section
variable (h : Hashing) (script : Script) (plan : List Fault) (i : SyncIn)

/-- the world before the edits of round `k` -/
abbrev wBefore (k : Nat) : SyncIn := worldFrom h script 1 plan i k

theorem wAt_eq (k : Nat) : wAt h script plan i k = applyEdits (editsAt script (1 + k)) (wBefore h script plan i k) := rfl

theorem wBefore_succ (k : Nat) : wBefore h script plan i (k + 1) = (round h (wAt h script plan i k) (planAt plan k)).1 := rfl

theorem wAt_allVis (hv : AllVis i.store) : ∀ k, AllVis (wAt h script plan i k).store
  | 0 => by rw [wAt_zero, (applyEdits_frame _ _).1]; exact hv
  | k + 1 => by
    rw [wAt_succ, (applyEdits_frame _ _).1, round_store]
    exact sync_allVis h (settle (wAt h script plan i k)) _ (wAt_allVis hv k)

theorem keeps_of_not_any {es : List Edit} (hes : es.any Edit.isTemplate = false) : ∀ e ∈ es, keepsTemplate e = true := by
  intro e he
  rw [List.any_eq_false] at hes
  have := hes e he
  unfold keepsTemplate
  simpa using this

/-- once a successful reconcile of the un-paused set (round `j`) has seen the template, the invariant holds before every
    later round, as long as no template edit intervenes -/
theorem inv_from (hnum : ∀ d c, h.hashNumOf d c = none) (hn : (i.store.map (·.name)).Nodup) (hv : AllVis i.store)
    (j : Nat) (hok : (histRoundAt h script 1 plan i j).obs.out = "ok")
    (hrun : ((wAt h script plan i j).paused || !(wAt h script plan i j).selectorOk) = false) :
    ∀ d, (∀ x, j < x → x < j + 1 + d → (histRoundAt h script 1 plan i x).edits.any Edit.isTemplate = false) →
      Inv (wBefore h script plan i (j + 1 + d))
  | 0, _ => by
    show Inv (round h (wAt h script plan i j) (planAt plan j)).1
    exact inv_established hnum _ _ (wAt_nodup h script plan i hn j) (wAt_allVis h script plan i hv j) hrun hok
  | d + 1, hno => by
    have ih := inv_from hnum hn hv j hok hrun d (fun x h1 h2 => hno x h1 (by omega))
    have hes := hno (j + 1 + d) (by omega) (by omega)
    show Inv (round h (applyEdits (editsAt script (1 + (j + 1 + d))) (wBefore h script plan i (j + 1 + d))) _).1
    exact inv_preserved hnum _ _ _ (keeps_of_not_any hes) ih

end

theorem mem_take_drop {α} (L : List α) (j k m : Nat) (x : α) (hx : L[m]? = some x) (h1 : j + 1 ≤ m) (h2 : m ≤ k) :
    x ∈ (L.take (k + 1)).drop (j + 1) := by
  rw [List.mem_iff_getElem?]
  refine ⟨m - (j + 1), ?_⟩
  rw [List.getElem?_drop, List.getElem?_take]
  have : j + 1 + (m - (j + 1)) = m := by omega
  rw [this, if_pos (by omega)]
  exact hx

theorem templateSeen_spec (i0 : SyncIn) (rs : List HRound) (k : Nat) (hts : templateSeen i0 rs k = true) :
    ∃ j, j < k ∧ (∃ r, rs[j]? = some r ∧ r.obs.out = "ok" ∧ (specAt i0 rs j).paused = false) ∧
      ∀ m x, rs[m]? = some x → j + 1 ≤ m → m ≤ k → x.edits.any Edit.isTemplate = false := by
  unfold templateSeen at hts
  rw [List.any_eq_true] at hts
  obtain ⟨j, hj, hcond⟩ := hts
  rw [List.mem_range] at hj
  rw [Bool.and_eq_true] at hcond
  obtain ⟨h1, h2⟩ := hcond
  refine ⟨j, hj, ?_, ?_⟩
  · cases hr : rs[j]? with
    | none => rw [hr] at h1; simp at h1
    | some r =>
      rw [hr] at h1
      simp only [Bool.and_eq_true, beq_iff_eq, Bool.not_eq_true'] at h1
      exact ⟨r, rfl, h1.1, h1.2⟩
  · intro m x hx hm1 hm2
    rw [List.all_eq_true] at h2
    have := h2 x (mem_take_drop rs j k m x hx hm1 hm2)
    simpa using this

theorem or_chain5 (a b c d e : Bool) (H : a = false → b = false → c = false → d = false → e = true) :
    (a || b || c || d || e) = true := by
  cases a <;> cases b <;> cases c <;> cases d <;> simp_all

/-- **`C08noRestart`, the monitor, is true on the model** -/
theorem C08noRestart_model (h : Hashing) (script : Script) (fuel : Nat) (i : SyncIn) (plan : List Fault)
    (hnum : ∀ d c, h.hashNumOf d c = none) (hn : (i.store.map (·.name)).Nodup) (hv : AllVis i.store)
    (hsize : ∀ k, (worldFrom h script 1 plan i k).pods.length ≤ freshId) :
    C08noRestart i (observeHist (runHistory h script fuel 1 0 i plan)) = true := by
  unfold C08noRestart
  rw [List.all_eq_true]
  intro k hk
  rw [List.mem_range, observeHist_length] at hk
  have hget : ∀ m, m < (runHistory h script fuel 1 0 i plan).length →
      (observeHist (runHistory h script fuel 1 0 i plan))[m]? = some (obs1 (histRoundAt h script 1 plan i m)) := by
    intro m hm
    have hx : (runHistory h script fuel 1 0 i plan)[m]? = some (runHistory h script fuel 1 0 i plan)[m] := List.getElem?_eq_getElem hm
    rw [observeHist_get, hx, hist_get h script plan i fuel m _ hx]; rfl
  cases k with
  | zero => rw [hget 0 hk]; simp
  | succ k =>
    rw [hget (k + 1) hk]
    simp only [Nat.add_sub_cancel, hget k (by omega)]
    apply or_chain5
    intro _ hedit hsel hseen
    have hsel' : i.selectorOk = true := by simpa using hsel
    have hseen' : templateSeen i (observeHist (runHistory h script fuel 1 0 i plan)) (k + 1) = true := by simpa using hseen
    obtain ⟨j, hj, ⟨r, hr, hrok, hrp⟩, hno⟩ := templateSeen_spec _ _ _ hseen'
    rw [hget j (by omega)] at hr
    have hr' : r = obs1 (histRoundAt h script 1 plan i j) := (Option.some.inj hr).symm
    have hokj : (histRoundAt h script 1 plan i j).obs.out = "ok" := by rw [hr'] at hrok; exact hrok
    have hpj : (wAt h script plan i j).paused = false := by
      rw [← (specAt_hist h script plan i fuel j (by omega)).1.1]; exact hrp
    have hrunj : ((wAt h script plan i j).paused || !(wAt h script plan i j).selectorOk) = false := by
      rw [hpj, wAt_selectorOk, hsel']; rfl
    have hnoT : ∀ x, j < x → x ≤ k + 1 → (histRoundAt h script 1 plan i x).edits.any Edit.isTemplate = false := by
      intro x hx1 hx2
      exact hno x _ (hget x (by omega)) (by omega) hx2
    -- the invariant before round k+1
    obtain ⟨d, hd⟩ : ∃ d, k + 1 = j + 1 + d := ⟨k - j, by omega⟩
    have hI : Inv (wBefore h script plan i (k + 1)) := by
      rw [hd]
      exact inv_from h script plan i hnum hn hv j hokj hrunj d (fun x h1 h2 => hnoT x h1 (by omega))
    have hes : ∀ e ∈ editsAt script (1 + (k + 1)), keepsTemplate e = true := keeps_of_not_any (hnoT (k + 1) (by omega) (le_refl _))
    obtain ⟨hcore, _⟩ := specAt_hist h script plan i fuel (k + 1) hk
    obtain ⟨_, _, hrep, hslots, _⟩ := hcore
    simp only [obs1]
    rw [Bool.and_eq_true]
    refine ⟨?_, ?_⟩
    · -- status half
      rw [Bool.or_eq_true]
      right
      have := norestart_status_step h (wBefore h script plan i (k + 1)) (editsAt script (1 + (k + 1))) (planAt plan (k + 1)) hes
        (inv_pinned hnum hI _)
      simp only [beq_iff_eq]
      exact this
    · -- pods half
      rw [List.all_eq_true]
      intro c hc
      rw [Bool.or_eq_true]
      by_cases hcond : (c.owner == .self && c.selMatch && !c.pod.terminating && !c.pod.failed && !c.pod.succeeded &&
          c.pod.rev == (histRoundAt h script 1 plan i k).obs.status.updateRev &&
          (desired ((specAt i (observeHist (runHistory h script fuel 1 0 i plan)) (k + 1)).replicas.getD 0)
            (specAt i (observeHist (runHistory h script fuel 1 0 i plan)) (k + 1)).slots).contains c.pod.ord &&
          c.name == canonicalName i.setName c.pod.ord) = true
      · right
        simp only [Bool.and_eq_true, beq_iff_eq, Bool.not_eq_true', List.contains_iff_mem] at hcond
        obtain ⟨⟨⟨⟨⟨⟨⟨_, _⟩, hterm⟩, hf⟩, hs⟩, hrev⟩, hD⟩, _⟩ := hcond
        rw [hrep, hslots] at hD
        obtain ⟨q, hq, hqn, hqt⟩ := norestart_pods_step hnum (wBefore h script plan i (k + 1)) (editsAt script (1 + (k + 1)))
          (planAt plan (k + 1)) hes hI (hsize (k + 1)) c hc hterm hf hs hrev hD
        rw [List.any_eq_true]
        exact ⟨q, hq, by simp [hqn, hqt]⟩
      · left
        rw [Bool.not_eq_true']
        exact Bool.eq_false_iff.mpr hcond

end Asts.WE
