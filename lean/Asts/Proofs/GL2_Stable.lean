import Mathlib.Tactic
import Asts.Spec.Glue2
import Asts.Proofs.GL2_Store

/-! # GL2 — `C18.stable`: rounds add no second revision recording the template

Only `createRevLoopF` adds a revision, it records the current template, and it probes the names
`h.nameOf template cc` from `cc = collisionCount.getD 0` upwards, moving on only past a name that holds OTHER data. So when
every revision on the first probed name records the template (`ProbeOk`), one sync
* adds at most one revision, on that very name (when the name had become free), recording the template;
* leaves `ProbeOk` true (data never changes under a name, new revisions record the template);
* resolves the collision count it started from, so a status it writes carries that count.
These three facts are an invariant of rounds (`StableInv`), for EVERY fault plan of the first round. -/
namespace Asts.GL2
open Asts Asts.SYb

/-- every revision on the name `nm` records `T` -/
def ProbeOk (nm T : String) (st : List Rev) : Prop := ∀ x ∈ st, x.name = nm → x.data = T

/-- `y` is a revision of `st` up to owner, labels and number, or a revision recording `T` on the name `nm` -/
def FromOrProbe (nm T : String) (st : List Rev) (y : Rev) : Prop :=
  (∃ x ∈ st, y.name = x.name ∧ y.data = x.data) ∨ (y.name = nm ∧ y.data = T)

theorem fromOrProbe_of_mem {nm T : String} {st : List Rev} {y : Rev} (hy : y ∈ st) : FromOrProbe nm T st y :=
  Or.inl ⟨y, hy, rfl, rfl⟩

/-! ## the create loop and the choice of the update revision -/

theorem createLoop_probe (h : Hashing) (plan : List Fault) (fresh : Rev) (fuel : Nat) (cc0 : Int) (s : RevSt)
    (hP : ProbeOk (h.nameOf fresh.data cc0) fresh.data s.store) :
    (∀ y ∈ (createRevLoopF h plan fresh (fuel + 1) cc0 s).1.store,
        FromOrProbe (h.nameOf fresh.data cc0) fresh.data s.store y) ∧
    (∀ u cc, (createRevLoopF h plan fresh (fuel + 1) cc0 s).2 = some (u, cc) → cc = cc0) := by
  rw [createRevLoopF_succ]
  split
  · refine ⟨?_, ?_⟩
    · intro y hy
      simp only at hy
      rw [mem_insertByName] at hy
      rcases hy with rfl | hy
      · exact Or.inr ⟨rfl, rfl⟩
      · exact fromOrProbe_of_mem hy
    · intro u cc hu
      simp only [Option.some.injEq, Prod.mk.injEq] at hu
      exact hu.2.symm
  · split
    · rename_i ex _ hfind
      have hex : ex ∈ s.store := List.mem_of_find?_eq_some hfind
      have hexn : ex.name = h.nameOf fresh.data cc0 := by simpa using List.find?_some hfind
      have hexd : ex.data = fresh.data := hP ex hex hexn
      rw [if_pos (by simpa using hexd)]
      refine ⟨fun y hy => fromOrProbe_of_mem hy, ?_⟩
      intro u cc hu
      simp only [Option.some.injEq, Prod.mk.injEq] at hu
      exact hu.2.symm
    · exact ⟨fun y hy => fromOrProbe_of_mem hy, fun u cc hu => by simp at hu⟩
  · exact ⟨fun y hy => fromOrProbe_of_mem hy, fun u cc hu => by simp at hu⟩

theorem setNumber_data' (name : String) (n : Int) (r : Rev) : (setNumber name n r).data = r.data := by
  unfold setNumber; split <;> rfl

theorem pickF_probe (h : Hashing) (plan : List Fault) (T : String) (cc0 : Int) (revs : List Rev) (s : RevSt)
    (hP : ProbeOk (h.nameOf T cc0) T s.store) :
    (∀ y ∈ (pickF h plan T cc0 revs s).1.store, FromOrProbe (h.nameOf T cc0) T s.store y) ∧
    (∀ u cc, (pickF h plan T cc0 revs s).2 = some (u, cc) → cc = cc0) := by
  unfold pickF
  split
  · split
    · exact ⟨fun y hy => fromOrProbe_of_mem hy, fun u cc hu => by
        simp only [Option.some.injEq, Prod.mk.injEq] at hu; exact hu.2.symm⟩
    · split
      · exact ⟨fun y hy => fromOrProbe_of_mem hy, fun u cc hu => by
          simp only [Option.some.injEq, Prod.mk.injEq] at hu; exact hu.2.symm⟩
      · rename_i e l _ _ _ _
        obtain ⟨_, hst, _⟩ := renumberF_spec plan e.name (freshOf h T cc0 revs).number 4 s
        refine ⟨?_, ?_⟩
        · intro y hy
          simp only at hy
          rw [hst] at hy
          split at hy
          · obtain ⟨x, hx, rfl⟩ := List.mem_map.mp hy
            exact Or.inl ⟨x, hx, setNumber_name _ _ _, setNumber_data' _ _ _⟩
          · exact fromOrProbe_of_mem hy
        · intro u cc hu
          simp only at hu
          split at hu
          · simp only [Option.some.injEq, Prod.mk.injEq] at hu; exact hu.2.symm
          · cases hu
  · have hfuel : s.store.length + 8 = (s.store.length + 7) + 1 := rfl
    rw [hfuel]
    exact createLoop_probe h plan (freshOf h T cc0 revs) _ cc0 s hP

/-! ## one sync -/

theorem probeOk_adopted {nm T : String} {s t : List Rev} (ht : AdoptedFrom s t) (hP : ProbeOk nm T s) : ProbeOk nm T t := by
  intro y hy hyn
  obtain ⟨x, hx, hc, _⟩ := ht.mem hy
  rw [core_data hc]
  exact hP x hx (by rw [← core_name hc]; exact hyn)

theorem fromOrProbe_adopted {nm T : String} {s t : List Rev} (ht : AdoptedFrom s t) {y : Rev}
    (hy : FromOrProbe nm T t y) : FromOrProbe nm T s y := by
  rcases hy with ⟨x, hx, h1, h2⟩ | h
  · obtain ⟨x0, hx0, hc, _⟩ := ht.mem hx
    exact Or.inl ⟨x0, hx0, h1.trans (core_name hc), h2.trans (core_data hc)⟩
  · exact Or.inr h

/-- a status written by the tail carries the collision count the tail was given -/
theorem syncTail_cc (i : SyncIn) (plan : List Fault) (claimed : List CPod) (revs : List Rev) (cur upd : Rev) (cc : Int)
    (s : RevSt) (hst : (syncTail i plan claimed revs cur upd cc s).status.isSome = true) :
    (syncTail i plan claimed revs cur upd cc s).cc = some cc := by
  unfold syncTail at hst ⊢
  generalize maxReplicaAndSlots (i.view.replicas.getD 0) i.view.slots = be at hst ⊢
  obtain ⟨b, E⟩ := be
  simp only at hst ⊢
  generalize updateStatefulSet i.view cur.name upd.name (claimed.map (·.pod)) (podFaults i.setName plan i.pods claimed b E) = u at hst ⊢
  obtain ⟨st, out⟩ := u
  cases out with
  | err => simp at hst
  | panic m => simp at hst
  | ok =>
    simp only at hst ⊢
    by_cases hinc : inconsistentStatus i.stored (completeRollingUpdate i.view st.status) = true
    · rw [if_pos hinc] at hst ⊢
      generalize statusWriteF plan i.fresh.gone 5
        { log := s.tr.log ++ (st.acts.map (actLog i.setName plan i.pods claimed b E)).flatten } = w at hst ⊢
      obtain ⟨t, ok⟩ := w
      cases ok with
      | false => simp at hst
      | true => rfl
    · rw [if_neg hinc] at hst
      simp at hst

/-- **one sync, when every revision on the first probed name records the template**: every revision of the final store is
    a revision of the input store (same name, same data) or records the template on that very name; and a status the sync
    writes carries the collision count it started from — every hashing, world and fault plan -/
theorem sync_probe (h : Hashing) (i : SyncIn) (plan : List Fault)
    (hP : ProbeOk (h.nameOf i.template (i.collisionCount.getD 0)) i.template i.store) :
    (∀ y ∈ (syncF h i plan).store, FromOrProbe (h.nameOf i.template (i.collisionCount.getD 0)) i.template i.store y) ∧
    ((syncF h i plan).status.isSome = true → (syncF h i plan).cc = some (i.collisionCount.getD 0)) := by
  rw [SYb.syncF_eq]
  by_cases hrun : (i.paused || !i.selectorOk) = true
  · rw [if_pos hrun]
    exact ⟨fun y hy => fromOrProbe_of_mem hy, fun hs => by simp at hs⟩
  · rw [if_neg hrun]
    have hAd := adoptedStore_adopted plan i
    have hPA := probeOk_adopted hAd hP
    cases hh : syncHead h i plan with
    | inl o =>
      simp only
      obtain ⟨_, hst, _⟩ := syncHead_inl hh
      refine ⟨?_, fun hs => by rw [hst] at hs; simp at hs⟩
      intro y hy
      rcases syncHead_inl_store hh with h1 | ⟨sL, h1, h2⟩
      · rw [h1] at hy
        exact fromOrProbe_adopted hAd (fromOrProbe_of_mem hy)
      · rw [h2] at hy
        have := (pickF_probe h plan i.template (i.collisionCount.getD 0) _ sL (by rw [h1]; exact hPA)).1 y hy
        rw [h1] at this
        exact fromOrProbe_adopted hAd this
    | inr t =>
      obtain ⟨claimed, revs, cur, upd, cc, s⟩ := t
      simp only
      obtain ⟨A, sL, hA, _, _, _, _, hsLs, _, _, hpick, _⟩ := syncHead_inr hh
      have hAs : adoptedStore plan i = A.store := by unfold adoptedStore; rw [hA]
      obtain ⟨p1, p2⟩ := pickF_probe h plan i.template (i.collisionCount.getD 0) revs sL (by rw [hsLs, ← hAs]; exact hPA)
      rw [hpick] at p1 p2
      have hcc : cc = i.collisionCount.getD 0 := p2 upd cc rfl
      refine ⟨?_, ?_⟩
      · intro y hy
        have hys : y ∈ s.store := by
          obtain ⟨_, _, _, o4⟩ := syncTail_spec i plan claimed revs cur upd cc s
          rcases o4 with ⟨_, k2, _, _⟩ | ⟨sT, t1, _, _, t4, _, _⟩
          · rwa [k2] at hy
          · rw [t4] at hy
            have := (truncateF_store plan i.historyLimit _ _ cur upd sT).1.subset hy
            rwa [t1] at this
        have := p1 y hys
        rw [hsLs, ← hAs] at this
        exact fromOrProbe_adopted hAd this
      · intro hs
        rw [syncTail_cc i plan claimed revs cur upd cc s hs, hcc]

/-! ## rounds -/

/-- the invariant of rounds: template and resolved collision count as at the start, every revision on the first probed name
    records the template, every revision recording the template bears one of the names `N0` -/
structure StableInv (h : Hashing) (T : String) (cc0 : Int) (N0 : List String) (W : SyncIn) : Prop where
  tmpl : W.template = T
  cc : W.collisionCount.getD 0 = cc0
  probe : ProbeOk (h.nameOf T cc0) T W.store
  names : ∀ x ∈ W.store, x.data = T → x.name ∈ N0

theorem round_revs (h : Hashing) (W : SyncIn) (plan : List Fault) : (round h W plan).2.revs = (round h W plan).1.store := rfl

theorem round_inv {h : Hashing} {T : String} {cc0 : Int} {N0 : List String} {W : SyncIn}
    (hN : h.nameOf T cc0 ∈ N0) (inv : StableInv h T cc0 N0 W) (plan : List Fault) :
    StableInv h T cc0 N0 (round h W plan).1 := by
  have hP : ProbeOk (h.nameOf (settle W).template ((settle W).collisionCount.getD 0)) (settle W).template (settle W).store := by
    show ProbeOk (h.nameOf W.template (W.collisionCount.getD 0)) W.template W.store
    rw [inv.tmpl, inv.cc]; exact inv.probe
  obtain ⟨s1, s2⟩ := sync_probe h (settle W) plan hP
  have s1' : ∀ y ∈ (syncF h (settle W) plan).store, FromOrProbe (h.nameOf T cc0) T W.store y := by
    intro y hy
    have := s1 y hy
    have e1 : (settle W).template = T := inv.tmpl
    have e2 : (settle W).collisionCount.getD 0 = cc0 := inv.cc
    rw [e1, e2] at this
    exact this
  have s2' : (syncF h (settle W) plan).status.isSome = true → (syncF h (settle W) plan).cc = some cc0 := by
    intro hs
    have e2 : (settle W).collisionCount.getD 0 = cc0 := inv.cc
    rw [← e2]; exact s2 hs
  refine ⟨inv.tmpl, ?_, ?_, ?_⟩
  · show (if (syncF h (settle W) plan).status.isSome then (syncF h (settle W) plan).cc else W.collisionCount).getD 0 = cc0
    by_cases hs : (syncF h (settle W) plan).status.isSome = true
    · rw [if_pos hs, s2' hs]; rfl
    · rw [if_neg hs]; exact inv.cc
  · intro y hy hyn
    have hy' : y ∈ (syncF h (settle W) plan).store := hy
    rcases s1' y hy' with ⟨x, hx, h1, h2⟩ | ⟨_, h2⟩
    · rw [h2]; exact inv.probe x hx (by rw [← h1]; exact hyn)
    · exact h2
  · intro y hy hyd
    have hy' : y ∈ (syncF h (settle W) plan).store := hy
    rcases s1' y hy' with ⟨x, hx, h1, h2⟩ | ⟨h1, _⟩
    · rw [h1]; exact inv.names x hx (by rw [← h2]; exact hyd)
    · rw [h1]; exact hN

/-- every round of every run leaves only revisions recording the template that bear a name of `N0` -/
theorem runRounds_stable {h : Hashing} {T : String} {cc0 : Int} {N0 : List String} (hN : h.nameOf T cc0 ∈ N0) :
    ∀ (fuel silent : Nat) (W : SyncIn) (plan : List Fault), StableInv h T cc0 N0 W →
      ∀ r ∈ runRounds h fuel silent W plan, ∀ d ∈ r.revs, d.data = T → d.name ∈ N0
  | 0, _, _, _, _ => by intro r hr; simp [runRounds] at hr
  | fuel + 1, silent, W, plan, inv => by
    have inv' := round_inv hN inv plan
    have hrev := round_revs h W plan
    intro r hr
    unfold runRounds at hr
    generalize round h W plan = p at hr inv' hrev
    obtain ⟨W', r0⟩ := p
    simp only at hr inv' hrev
    have h0 : ∀ d ∈ r0.revs, d.data = T → d.name ∈ N0 := by
      intro d hd; rw [hrev] at hd; exact inv'.names d hd
    have fin : ∀ sl : Nat, (r ∈ if sl ≥ 2 then [r0] else r0 :: runRounds h fuel sl W' []) →
        ∀ d ∈ r.revs, d.data = T → d.name ∈ N0 := by
      intro sl hr
      split at hr
      · rw [List.mem_singleton] at hr
        rw [hr]; exact h0
      · rcases List.mem_cons.1 hr with rfl | hr
        · exact h0
        · exact runRounds_stable hN fuel _ W' [] inv' r hr
    split at hr
    · exact fin _ hr
    · exact fin _ hr

/-- **`C18.stable`** on the model, from the probe hypothesis: every revision of the initial store that sits on the first
    probed name records the template. Every hashing, world, fuel, silence counter and fault plan; none of the other guards
    of the clause (held, not paused, selector valid, not deleting, empty plan) is needed. -/
theorem C18stable_of_probe (h : Hashing) (i : SyncIn) (plan : List Fault) (fuel silent : Nat)
    (hP : ProbeOk (h.nameOf i.template (i.collisionCount.getD 0)) i.template i.store) :
    C18stable h i plan (runRounds h fuel silent i plan) = true := by
  unfold C18stable
  simp only
  by_cases hheld : (i.store.any fun r => r.name == h.nameOf i.template (i.collisionCount.getD 0) && r.data == i.template) = true
  swap
  · simp [hheld]
  have hN : h.nameOf i.template (i.collisionCount.getD 0) ∈ i.store.map (·.name) := by
    rw [List.any_eq_true] at hheld
    obtain ⟨r, hr, hc⟩ := hheld
    simp only [Bool.and_eq_true, beq_iff_eq] at hc
    exact List.mem_map.mpr ⟨r, hr, hc.1⟩
  have inv : StableInv h i.template (i.collisionCount.getD 0) (i.store.map (·.name)) i :=
    ⟨rfl, rfl, hP, fun x hx _ => List.mem_map_of_mem hx⟩
  have key := runRounds_stable hN fuel silent i plan inv
  have hall : ((runRounds h fuel silent i plan).all fun r => r.revs.all fun d =>
      d.data != i.template || i.store.any fun q => q.name == d.name) = true := by
    rw [List.all_eq_true]
    intro r hr
    rw [List.all_eq_true]
    intro d hd
    by_cases hdd : d.data = i.template
    · have := key r hr d hd hdd
      obtain ⟨q, hq, hqn⟩ := List.mem_map.mp this
      rw [Bool.or_eq_true]
      right
      rw [List.any_eq_true]
      exact ⟨q, hq, by simpa using hqn⟩
    · simp [hdd]
  rw [hall]
  simp

/-- the probe hypothesis from unique revision names and the clause's own guard -/
theorem probeOk_of_held {h : Hashing} {i : SyncIn} (hnd : SYa.StoreNamesOk i)
    (hheld : (i.store.any fun r => r.name == h.nameOf i.template (i.collisionCount.getD 0) && r.data == i.template) = true) :
    ProbeOk (h.nameOf i.template (i.collisionCount.getD 0)) i.template i.store := by
  rw [List.any_eq_true] at hheld
  obtain ⟨r, hr, hc⟩ := hheld
  simp only [Bool.and_eq_true, beq_iff_eq] at hc
  intro x hx hxn
  have : x = r := List.inj_on_of_nodup_map hnd hx hr (by rw [hxn, hc.1])
  rw [this]; exact hc.2

/-- **`C18.stable`** on the model with unique revision names -/
theorem C18stable_holds (h : Hashing) (i : SyncIn) (plan : List Fault) (fuel silent : Nat) (hnd : SYa.StoreNamesOk i) :
    C18stable h i plan (runRounds h fuel silent i plan) = true := by
  by_cases hheld : (i.store.any fun r => r.name == h.nameOf i.template (i.collisionCount.getD 0) && r.data == i.template) = true
  · exact C18stable_of_probe h i plan fuel silent (probeOk_of_held hnd hheld)
  · unfold C18stable
    simp only
    simp [hheld]

end Asts.GL2
