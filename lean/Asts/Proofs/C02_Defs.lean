import Asts.Spec.World
namespace Asts.C02p
open Asts

/-! Definitions for C02 (core-only, executable): the quiescent state `finalB`, its pieces, and the measure. -/

/-- the revision `getStatefulSetRevisions` would build from the template -/
def freshRev (h : Hashing) (i : SyncIn) (revs : List Rev) : Rev :=
  { name := h.nameOf i.template (i.collisionCount.getD 0), number := nextRevision revs, ctime := 0, data := i.template,
    hashNum := h.hashNumOf i.template (i.collisionCount.getD 0), owner := .self, selMatch := true, marker := false }

/-- the revisions as the reconcile sees them: listed and sorted -/
def listedRevs (i : SyncIn) : List Rev := sortRevs (listRevisions i.store)

/-- the set's own pods -/
def ownPods (i : SyncIn) : List CPod := i.pods.filter (fun c => c.owner == .self)

/-- the status a reconcile of a world whose pods need nothing computes (`census` + generation + names, completion rule) -/
def expectedStatus (i : SyncIn) : Status :=
  let c := i.stored.currentRev
  let u := i.stored.updateRev
  completeRollingUpdate i.view
    { census c u ((ownPods i).map (·.pod)) with observedGen := i.view.generation, currentRev := c, updateRev := u }

/-- spec part of `Final`: valid, not paused, not being deleted -/
def specOk (i : SyncIn) : Bool :=
  !i.paused && i.selectorOk && !i.view.deleting && i.view.replicas.isSome && 0 ≤ replicasOf i.view &&
  (i.view.strat == .rolling || i.view.strat == .onDelete) &&
  (match i.historyLimit with | some l => 0 ≤ l | none => false)

/-- pods part of `Final`: the set's pods are exactly the desired ordinals (by ordinal and by canonical name), each healthy,
    with its identity, matching the selector, at the update revision where the rolling update reaches; nothing to adopt,
    nothing to release -/
def podsFinal (i : SyncIn) : Bool :=
  let D := desired (replicasOf i.view) i.view.slots
  i.pods.all (fun c => match c.owner with
    | .self => c.selMatch && c.member && c.name == canonicalName i.setName c.pod.ord && D.contains c.pod.ord &&
               c.pod.healthy && c.pod.idOk && c.pod.stOk &&
               (if i.view.strat == .rolling && partOf i.view ≤ c.pod.ord then c.pod.rev == i.stored.updateRev else true)
    | .none => !(c.selMatch && c.member) || c.pod.terminating
    | .other => true) &&
  D.all (fun o => (ownPods i).any (·.pod.ord == o)) && (ownPods i).length == D.length

/-- revisions part of `Final`: the newest listed revision is `stored.updateRev` and records the template (with a
    compatible hash label), `stored.currentRev` is listed, no orphan is listed, unused history is within the limit -/
def revsFinal (h : Hashing) (i : SyncIn) : Bool :=
  let revs := listedRevs i
  match revs.getLast? with
  | none => false
  | some l =>
    l.name == i.stored.updateRev && equalRev l (freshRev h i revs) &&
    revs.any (·.name == i.stored.currentRev) &&
    !(listRevisions i.store).any (·.owner == .none) &&
    (let live := i.stored.currentRev :: i.stored.updateRev :: (ownPods i).map (·.pod.rev)
     let history := revs.filter (fun r => !live.contains r.name && r.owner == .self)
     match i.historyLimit with | some lim => decide ((history.length : Int) ≤ lim) | none => false)

/-- **the quiescent state** -/
def finalB (h : Hashing) (i : SyncIn) : Bool :=
  specOk i && podsFinal i && revsFinal h i && !inconsistentStatus i.stored (expectedStatus i)

def Final (h : Hashing) (i : SyncIn) : Prop := finalB h i = true

instance (h : Hashing) (i : SyncIn) : Decidable (Final h i) := by unfold Final; infer_instance

/-- a silent successful sync -/
def quietB (o : SyncOut) : Bool := (o.log.filter isWrite).isEmpty && o.outcome == .ok

end Asts.C02p

namespace Asts.C02p
open Asts

/-! ### normal worlds and the measure (Parallel policy, partition present or OnDelete) -/

/-- revisions need no work: the newest listed revision records the template (compatible hash label) and no listed revision
    is an orphan -/
def revsQuiet (h : Hashing) (i : SyncIn) : Bool :=
  let revs := listedRevs i
  match revs.getLast? with
  | none => false
  | some l => equalRev l (freshRev h i revs) && !(listRevisions i.store).any (·.owner == .none)

/-- the name of the update revision the next sync resolves (meaningful under `revsQuiet`) -/
def updName (i : SyncIn) : String := ((listedRevs i).getLast?.map (·.name)).getD ""

def distinctOrdsC (pods : List CPod) : Bool := ((pods.map (·.pod.ord)).eraseDups).length == pods.length

/-- the `rollingUpdate` block with a partition `≥ 0` is present, or the strategy is OnDelete -/
def partB (v : SetView) : Bool :=
  v.strat == .onDelete || (match v.ru with | some (some p) => decide (0 ≤ p) | _ => false)

/-- the legacy boundary mode: strategy RollingUpdate without a `rollingUpdate` block; the boundary between the revisions of
    new pods is `status.currentReplicas` -/
def legacyB (v : SetView) : Bool := v.strat == .rolling && v.ru.isNone

/-- a normal world (any pod management policy, any update strategy): valid spec, every pod object belongs to
    the set (owned, member, selector, canonical name, storage ok, admitted), one pod per ordinal,
    revisions quiet, sizes within the model's id scheme, the set found by the
    uncached GET -/
def normCB (h : Hashing) (i : SyncIn) : Bool :=
  specOk i &&
  i.pods.all (fun c => c.owner == .self && c.member && c.selMatch && c.name == canonicalName i.setName c.pod.ord &&
    decide (0 ≤ c.pod.ord) && c.pod.stOk && c.pod.created) &&
  distinctOrdsC i.pods && revsQuiet h i &&
  decide (i.pods.length ≤ freshId) && decide ((replicasOf i.view).toNat ≤ freshId) &&
  !i.fresh.gone

/-- room in the model's id scheme for the pods outside the desired set plus a full desired set -/
def roomB (i : SyncIn) : Bool :=
  decide ((i.pods.filter (fun c => !(desired (replicasOf i.view) i.view.slots).contains c.pod.ord)).length +
    (replicasOf i.view).toNat ≤ freshId)

/-- no Failed/Succeeded pod outside the desired set (the exclusion C02 makes under OrderedReady) -/
def noFsOutB (i : SyncIn) : Bool :=
  i.pods.all (fun c => !(c.pod.failed || c.pod.succeeded) || (desired (replicasOf i.view) i.view.slots).contains c.pod.ord)

/-- normal under the Parallel policy -/
def normB (h : Hashing) (i : SyncIn) : Bool := normCB h i && partB i.view && roomB i && i.view.parallel

/-- normal under OrderedReady -/
def normOB (h : Hashing) (i : SyncIn) : Bool := normCB h i && partB i.view && roomB i && !i.view.parallel && noFsOutB i

/-- weight of a pod object sitting at a desired ordinal `o`: Failed/Succeeded 2; otherwise 3 when RollingUpdate still has to
    replace it, plus 1 for a missing identity; plus 1 while terminating -/
def wPod (v : SetView) (upd : String) (o : Int) (c : CPod) : Nat :=
  (if c.pod.failed || c.pod.succeeded then 2 else
    (if v.strat == .rolling && partOf v ≤ o && c.pod.rev != upd then 3 else 0) +
    (if c.pod.idOk then 0 else 1)) +
  (if c.pod.terminating then 1 else 0)

/-- weight of what sits at a desired ordinal in a pod list (a vacancy weighs 1) -/
def wOf (v : SetView) (upd : String) (pods : List CPod) (o : Int) : Nat :=
  match pods.find? (·.pod.ord == o) with
  | none => 1
  | some c => wPod v upd o c

/-- the measure of DESIGN §6/C02 (block present): pods part -/
def muPods (i : SyncIn) : Nat :=
  let D := desired (replicasOf i.view) i.view.slots
  (D.map (wOf i.view (updName i) i.pods)).sum + 2 * (i.pods.filter (fun c => !D.contains c.pod.ord)).length

/-- pods need no work -/
def podsDone (i : SyncIn) : Bool := muPods i == 0

end Asts.C02p

namespace Asts.C02p
open Asts

/-! ### the legacy boundary mode (strategy RollingUpdate, no `rollingUpdate` block) -/

/-- the name of the current revision the next sync resolves (`status.currentRevision` if listed, else the update revision) -/
def curNameOf (i : SyncIn) : String :=
  (((listedRevs i).find? (·.name == i.stored.currentRev)).map (·.name)).getD (updName i)

/-- `o` is the only desired ordinal that does not hold a live pod -/
def onlyNeedy (pods : List CPod) (D : List Int) (o : Int) : Bool :=
  D.all (fun o' => o' == o || pods.any (fun c => c.pod.ord == o' && !(c.pod.failed || c.pod.succeeded)))

/-- legacy weight of a pod object sitting at a desired ordinal: Failed/Succeeded 5; otherwise 3 when it is not at the update
    revision, plus 1 for a missing identity -/
def wLPod (upd : String) (c : CPod) : Nat :=
  if c.pod.failed || c.pod.succeeded then 5 else
    (if c.pod.rev != upd then 3 else 0) + (if c.pod.idOk then 0 else 1)

/-- legacy weight of a desired ordinal: a vacancy weighs 1 when it is the only ordinal without a live pod and a pod created
    there would be at the update revision (the vacancy the update walk leaves), and 4 otherwise (a pod created there may
    come back at the current revision and then has to be replaced once more) -/
def wLOf (v : SetView) (cur upd : String) (pods : List CPod) (D : List Int) (o : Int) : Nat :=
  match pods.find? (·.pod.ord == o) with
  | none => if onlyNeedy pods D o && newPodRev v cur upd o == upd then 1 else 4
  | some c => wLPod upd c

def muLOf (v : SetView) (cur upd : String) (D : List Int) (pods : List CPod) : Nat :=
  (D.map (wLOf v cur upd pods D)).sum + 2 * (pods.filter (fun c => !D.contains c.pod.ord)).length

/-- the legacy measure -/
def muL (i : SyncIn) : Nat :=
  muLOf i.view (curNameOf i) (updName i) (desired (replicasOf i.view) i.view.slots) i.pods

/-- normal in the legacy boundary mode: `normCB`, strategy RollingUpdate without block, room for the pods; under
    OrderedReady no Failed/Succeeded pod outside the desired set -/
def normLB (h : Hashing) (i : SyncIn) : Bool :=
  normCB h i && legacyB i.view && roomB i && (i.view.parallel || noFsOutB i)

end Asts.C02p
