import Mathlib.Tactic
import Asts.Model.Sync

/-! # SY_a — `claimDecision` and `claimPodsF` (C10, pod half)

The API calls appended by `claimPodsF` are described by a structured event list (`CEv`): the log of the model is the
rendering (`CEv.key`) of that list, and every statement about order, faults and the once-only uncached read is made on the
events (which carry the pod they were issued for), not on strings. -/

namespace Asts.SYa
open Asts

/-! ## generic helpers -/

theorem foldl_inv {α β : Type _} (Inv : β → Prop) (f : β → α → β) (l : List α) (b : β)
    (h0 : Inv b) (hstep : ∀ b a, a ∈ l → Inv b → Inv (f b a)) : Inv (l.foldl f b) := by
  induction l generalizing b with
  | nil => simpa
  | cons x xs ih =>
    simp only [List.foldl_cons]
    exact ih _ (hstep _ _ (by simp) h0) (fun b a ha hb => hstep b a (by simp [ha]) hb)

/-- the fault (if any) that the plan injects into the `occ`-th call with key `k` -/
def look (plan : List Fault) (k : String) (occ : Nat) : Option ErrKind :=
  (plan.find? (fun f => f.key == k && f.occ == occ)).map (·.kind)

/-- how often key `k` has been called in `log` -/
def occIn (log : List String) (k : String) : Nat := (log.filter (· == k)).length

theorem call_eq (t : Tr) (plan : List Fault) (k : String) :
    t.call plan k = ({ log := t.log ++ [k] }, look plan k (occIn t.log k)) := rfl

/-! ## (1) the decision table of `claimDecision` -/

theorem claimDecision_keep_iff (d : Bool) (c : CPod) :
    claimDecision d c = .keep ↔ c.owner = .self ∧ c.selMatch = true ∧ c.member = true := by
  rcases c with ⟨n, p, o, s, m⟩
  cases o <;> cases s <;> cases m <;> cases d <;> cases h : p.terminating <;> simp [claimDecision, h]

theorem claimDecision_adopt_iff (d : Bool) (c : CPod) :
    claimDecision d c = .adopt ↔
      c.owner = .none ∧ c.selMatch = true ∧ c.member = true ∧ c.pod.terminating = false ∧ d = false := by
  rcases c with ⟨n, p, o, s, m⟩
  cases o <;> cases s <;> cases m <;> cases d <;> cases h : p.terminating <;> simp [claimDecision, h]

theorem claimDecision_release_iff (d : Bool) (c : CPod) :
    claimDecision d c = .release ↔ c.owner = .self ∧ ¬(c.selMatch = true ∧ c.member = true) ∧ d = false := by
  rcases c with ⟨n, p, o, s, m⟩
  cases o <;> cases s <;> cases m <;> cases d <;> cases h : p.terminating <;> simp [claimDecision, h]

theorem claimDecision_ignore_iff (d : Bool) (c : CPod) :
    claimDecision d c = .ignore ↔
      ¬(c.owner = .self ∧ c.selMatch = true ∧ c.member = true) ∧
      ¬(c.owner = .none ∧ c.selMatch = true ∧ c.member = true ∧ c.pod.terminating = false ∧ d = false) ∧
      ¬(c.owner = .self ∧ ¬(c.selMatch = true ∧ c.member = true) ∧ d = false) := by
  rcases c with ⟨n, p, o, s, m⟩
  cases o <;> cases s <;> cases m <;> cases d <;> cases h : p.terminating <;> simp [claimDecision, h]

/-- a pod controlled by somebody else is ignored, whatever else is true of it -/
theorem claimDecision_other (d : Bool) (c : CPod) (h : c.owner = .other) : claimDecision d c = .ignore := by
  simp [claimDecision, h]

/-- a set that is being deleted neither adopts nor releases -/
theorem claimDecision_deleting (c : CPod) : claimDecision true c = .keep ∨ claimDecision true c = .ignore := by
  rcases c with ⟨n, p, o, s, m⟩
  cases o <;> cases s <;> cases m <;> simp [claimDecision]

/-! ## the step function of `claimPodsF` -/

def claimStep (plan : List Fault) (setDeleting : Bool) (fresh : Fresh) (o : ClaimOutF) (c : CPod) : ClaimOutF :=
    match claimDecision setDeleting c with
    | .keep => { o with claimed := o.claimed ++ [c] }
    | .ignore => o
    | .release =>
      let (t, e) := o.tr.call plan s!"patch:pod:{c.name}"
      let o := { o with tr := t }
      match e with
      | some .notFound | some .invalid | none => o
      | some _ => { o with failed := true }
    | .adopt =>
      let (o, can) := match o.canAdopt with
        | some b => (o, b)
        | none =>
          let (t, e) := o.tr.call plan "get:set"
          let b := e.isNone && !fresh.gone && fresh.uidOk && !fresh.deleting
          ({ o with tr := t, canAdopt := some b }, b)
      if !can then { o with failed := true }
      else
        let (t, e) := o.tr.call plan s!"patch:pod:{c.name}"
        let o := { o with tr := t }
        match e with
        | none => { o with claimed := o.claimed ++ [c] }
        | some .notFound => o
        | some _ => { o with failed := true }

theorem claimPodsF_eq_foldl (plan : List Fault) (d : Bool) (fresh : Fresh) (pods : List CPod) (tr : Tr) :
    claimPodsF plan d fresh pods tr = pods.foldl (claimStep plan d fresh) { tr := tr } := rfl

/-- events of a claim pass: the uncached read of the set, and an owner-reference patch of a pod -/
inductive CEv
  | getSet
  | patch (c : CPod)
  deriving DecidableEq

def CEv.key : CEv → String
  | .getSet => "get:set"
  | .patch c => s!"patch:pod:{c.name}"

/-- what the uncached read must have found for an adoption to go ahead -/
def canAdoptOf (plan : List Fault) (fresh : Fresh) (logBefore : List String) : Bool :=
  (look plan "get:set" (occIn logBefore "get:set")).isNone && !fresh.gone && fresh.uidOk && !fresh.deleting

theorem claimStep_keep {plan d fresh} (o : ClaimOutF) {c : CPod} (h : claimDecision d c = .keep) :
    claimStep plan d fresh o c = { o with claimed := o.claimed ++ [c] } := by
  simp [claimStep, h]

theorem claimStep_ignore {plan d fresh} (o : ClaimOutF) {c : CPod} (h : claimDecision d c = .ignore) :
    claimStep plan d fresh o c = o := by
  simp [claimStep, h]

theorem claimStep_release {plan d fresh} (o : ClaimOutF) {c : CPod} (h : claimDecision d c = .release) :
    ∃ f, claimStep plan d fresh o c = { o with tr := { log := o.tr.log ++ [(CEv.patch c).key] }, failed := f } := by
  simp only [claimStep, h, call_eq, CEv.key]
  split <;> exact ⟨_, rfl⟩

theorem claimStep_adopt_false {plan d fresh} (o : ClaimOutF) {c : CPod} (h : claimDecision d c = .adopt)
    (hc : o.canAdopt = some false) : claimStep plan d fresh o c = { o with failed := true } := by
  simp [claimStep, h, hc]

theorem claimStep_adopt_true {plan d fresh} (o : ClaimOutF) {c : CPod} (h : claimDecision d c = .adopt)
    (hc : o.canAdopt = some true) :
    ∃ (f b : Bool), claimStep plan d fresh o c =
      { o with tr := { log := o.tr.log ++ [(CEv.patch c).key] }, failed := f,
               claimed := if b then o.claimed ++ [c] else o.claimed } ∧
      (b = true → look plan (CEv.patch c).key (occIn o.tr.log (CEv.patch c).key) = none) := by
  simp only [claimStep, h, hc, call_eq]
  simp only [Bool.not_true, Bool.false_eq_true, if_false]
  split
  · next he => exact ⟨o.failed, true, by simp [CEv.key], fun _ => he⟩
  · next he => exact ⟨o.failed, false, by simp [CEv.key], by simp⟩
  · next v he hne => exact ⟨true, false, by simp [CEv.key], by simp⟩

theorem claimStep_adopt_none {plan d fresh} (o : ClaimOutF) {c : CPod} (h : claimDecision d c = .adopt)
    (hc : o.canAdopt = none) :
    claimStep plan d fresh o c =
      claimStep plan d fresh { o with tr := { log := o.tr.log ++ [CEv.getSet.key] },
                                      canAdopt := some (canAdoptOf plan fresh o.tr.log) } c := by
  simp only [claimStep, h, hc, call_eq, CEv.key, canAdoptOf]
  rfl

/-! ## the invariant -/

/-- Invariant of the claim pass, stated on the three components of `ClaimOutF` it constrains. `log0` is the log before
    the pass, `evs` the events issued so far. -/
structure ClaimInv (plan : List Fault) (d : Bool) (fresh : Fresh) (pods : List CPod) (log0 : List String)
    (log : List String) (claimed : List CPod) (memo : Option Bool) (evs : List CEv) : Prop where
  log_eq : log = log0 ++ evs.map CEv.key
  shape : ∀ e ∈ evs, e = .getSet ∨
    ∃ c ∈ pods, e = .patch c ∧ (claimDecision d c = .release ∨ claimDecision d c = .adopt)
  claimed_ok : ∀ c ∈ claimed, c ∈ pods ∧ (claimDecision d c = .keep ∨ (claimDecision d c = .adopt ∧
    ∃ pre post, evs = pre ++ .patch c :: post ∧
      look plan (CEv.patch c).key (occIn (log0 ++ pre.map CEv.key) (CEv.patch c).key) = none))
  memoNone : memo = none → ∀ e ∈ evs, ∃ c, e = .patch c ∧ claimDecision d c = .release
  memoSome : ∀ b, memo = some b → ∃ pre post, evs = pre ++ .getSet :: post ∧
    (∀ e ∈ pre, ∃ c, e = .patch c ∧ claimDecision d c = .release) ∧ (∀ e ∈ post, e ≠ .getSet) ∧
    b = canAdoptOf plan fresh (log0 ++ pre.map CEv.key)
  adoptOk : ∀ c, .patch c ∈ evs → claimDecision d c = .adopt → memo = some true

variable {plan : List Fault} {d : Bool} {fresh : Fresh} {pods : List CPod} {log0 : List String}

theorem ClaimInv.init : ClaimInv plan d fresh pods log0 log0 [] none [] where
  log_eq := by simp
  shape := by simp
  claimed_ok := by simp
  memoNone := by simp
  memoSome := by simp
  adoptOk := by simp

theorem ClaimInv.keep {log claimed memo evs} (I : ClaimInv plan d fresh pods log0 log claimed memo evs)
    {c : CPod} (hc : c ∈ pods) (h : claimDecision d c = .keep) :
    ClaimInv plan d fresh pods log0 log (claimed ++ [c]) memo evs :=
  { I with
    claimed_ok := by
      intro x hx
      rcases List.mem_append.1 hx with hx | hx
      · exact I.claimed_ok x hx
      · obtain rfl : x = c := by simpa using hx
        exact ⟨hc, Or.inl h⟩ }

/-- appending a patch event (release, or adoption after a positive memo) -/
theorem ClaimInv.patch {log claimed memo evs} (I : ClaimInv plan d fresh pods log0 log claimed memo evs)
    {c : CPod} (hc : c ∈ pods)
    (h : claimDecision d c = .release ∨ (claimDecision d c = .adopt ∧ memo = some true)) :
    ClaimInv plan d fresh pods log0 (log ++ [(CEv.patch c).key]) claimed memo (evs ++ [.patch c]) where
  log_eq := by simp [I.log_eq]
  shape := by
    intro e he
    rcases List.mem_append.1 he with he | he
    · exact I.shape e he
    · obtain rfl : e = .patch c := by simpa using he
      exact Or.inr ⟨c, hc, rfl, h.imp id (·.1)⟩
  claimed_ok := by
    intro x hx
    obtain ⟨hxp, hx'⟩ := I.claimed_ok x hx
    refine ⟨hxp, hx'.imp id ?_⟩
    rintro ⟨ha, pre, post, rfl, hl⟩
    exact ⟨ha, pre, post ++ [.patch c], by simp, hl⟩
  memoNone := by
    intro hm e he
    rcases List.mem_append.1 he with he | he
    · exact I.memoNone hm e he
    · obtain rfl : e = .patch c := by simpa using he
      rcases h with h | ⟨_, h⟩
      · exact ⟨c, rfl, h⟩
      · simp [hm] at h
  memoSome := by
    intro b hb
    obtain ⟨pre, post, rfl, h1, h2, h3⟩ := I.memoSome b hb
    refine ⟨pre, post ++ [.patch c], by simp, h1, ?_, h3⟩
    intro e he
    rcases List.mem_append.1 he with he | he
    · exact h2 e he
    · obtain rfl : e = .patch c := by simpa using he
      simp
  adoptOk := by
    intro x hx hax
    rcases List.mem_append.1 hx with hx | hx
    · exact I.adoptOk x hx hax
    · obtain rfl : x = c := by simpa using hx
      rcases h with h | ⟨_, h⟩
      · rw [h] at hax; cases hax
      · exact h

/-- a successful adoption patch puts the pod on the claimed list -/
theorem ClaimInv.patchClaim {log claimed memo evs} (I : ClaimInv plan d fresh pods log0 log claimed memo evs)
    {c : CPod} (hc : c ∈ pods) (h : claimDecision d c = .adopt) (hm : memo = some true)
    (hl : look plan (CEv.patch c).key (occIn log (CEv.patch c).key) = none) :
    ClaimInv plan d fresh pods log0 (log ++ [(CEv.patch c).key]) (claimed ++ [c]) memo (evs ++ [.patch c]) :=
  let J := I.patch hc (Or.inr ⟨h, hm⟩)
  { J with
    claimed_ok := by
      intro x hx
      rcases List.mem_append.1 hx with hx | hx
      · exact J.claimed_ok x hx
      · obtain rfl : x = c := by simpa using hx
        exact ⟨hc, Or.inr ⟨h, evs, [], rfl, by rw [← I.log_eq]; exact hl⟩⟩ }

/-- the once-only uncached read -/
theorem ClaimInv.getSet {log claimed evs} (I : ClaimInv plan d fresh pods log0 log claimed none evs) :
    ClaimInv plan d fresh pods log0 (log ++ [CEv.getSet.key]) claimed (some (canAdoptOf plan fresh log))
      (evs ++ [.getSet]) where
  log_eq := by simp [I.log_eq]
  shape := by
    intro e he
    rcases List.mem_append.1 he with he | he
    · exact I.shape e he
    · exact Or.inl (by simpa using he)
  claimed_ok := by
    intro x hx
    obtain ⟨hxp, hx'⟩ := I.claimed_ok x hx
    refine ⟨hxp, hx'.imp id ?_⟩
    rintro ⟨ha, pre, post, rfl, hl⟩
    exact ⟨ha, pre, post ++ [.getSet], by simp, hl⟩
  memoNone := by simp
  memoSome := by
    intro b hb
    refine ⟨evs, [], rfl, I.memoNone rfl, by simp, ?_⟩
    rw [← I.log_eq]; exact (Option.some.inj hb).symm
  adoptOk := by
    intro x hx hax
    rcases List.mem_append.1 hx with hx | hx
    · obtain ⟨c, hc, hr⟩ := I.memoNone rfl _ hx
      obtain rfl : x = c := by simpa using hc
      rw [hr] at hax; cases hax
    · simp at hx

theorem claimStep_inv {o : ClaimOutF} {evs : List CEv} {c : CPod} (hc : c ∈ pods)
    (I : ClaimInv plan d fresh pods log0 o.tr.log o.claimed o.canAdopt evs) :
    ∃ evs', ClaimInv plan d fresh pods log0 (claimStep plan d fresh o c).tr.log (claimStep plan d fresh o c).claimed
      (claimStep plan d fresh o c).canAdopt evs' := by
  cases h : claimDecision d c with
  | keep => rw [claimStep_keep o h]; exact ⟨evs, I.keep hc h⟩
  | ignore => rw [claimStep_ignore o h]; exact ⟨evs, I⟩
  | release =>
    obtain ⟨f, hf⟩ := claimStep_release (plan := plan) (fresh := fresh) o h
    rw [hf]; exact ⟨_, I.patch hc (Or.inl h)⟩
  | adopt =>
    -- the case of a memo already present, for any `o`
    have some_case : ∀ (o : ClaimOutF) (evs : List CEv) (b : Bool), o.canAdopt = some b →
        ClaimInv plan d fresh pods log0 o.tr.log o.claimed o.canAdopt evs →
        ∃ evs', ClaimInv plan d fresh pods log0 (claimStep plan d fresh o c).tr.log
          (claimStep plan d fresh o c).claimed (claimStep plan d fresh o c).canAdopt evs' := by
      intro o evs b hb I
      cases b with
      | false => rw [claimStep_adopt_false o h hb]; exact ⟨evs, I⟩
      | true =>
        obtain ⟨f, b, hf, hb'⟩ := claimStep_adopt_true (plan := plan) (fresh := fresh) o h hb
        rw [hf]
        cases b with
        | true => exact ⟨_, I.patchClaim hc h hb (hb' rfl)⟩
        | false => exact ⟨_, I.patch hc (Or.inr ⟨h, hb⟩)⟩
    cases hm : o.canAdopt with
    | some b => exact some_case o evs b hm I
    | none =>
      rw [claimStep_adopt_none o h hm]
      rw [hm] at I
      exact some_case _ _ _ rfl I.getSet

/-- **the invariant holds at the end of `claimPodsF`** -/
theorem claimPodsF_inv (plan : List Fault) (d : Bool) (fresh : Fresh) (pods : List CPod) (tr : Tr) :
    ∃ evs, ClaimInv plan d fresh pods tr.log (claimPodsF plan d fresh pods tr).tr.log
      (claimPodsF plan d fresh pods tr).claimed (claimPodsF plan d fresh pods tr).canAdopt evs := by
  rw [claimPodsF_eq_foldl]
  refine foldl_inv (fun (o : ClaimOutF) => ∃ evs, ClaimInv plan d fresh pods tr.log o.tr.log o.claimed o.canAdopt evs)
    _ pods _ ⟨[], ClaimInv.init⟩ ?_
  rintro o c hc ⟨evs, I⟩
  exact claimStep_inv hc I

/-! ## a deleting set: the claim pass is silent -/

theorem claimPodsF_deleting (plan : List Fault) (fresh : Fresh) (pods : List CPod) (tr : Tr) :
    (claimPodsF plan true fresh pods tr).tr = tr ∧ (claimPodsF plan true fresh pods tr).failed = false ∧
    (claimPodsF plan true fresh pods tr).canAdopt = none ∧
    ∀ c ∈ (claimPodsF plan true fresh pods tr).claimed, c ∈ pods ∧ claimDecision true c = .keep := by
  rw [claimPodsF_eq_foldl]
  refine foldl_inv (fun (o : ClaimOutF) => o.tr = tr ∧ o.failed = false ∧ o.canAdopt = none ∧
    ∀ c ∈ o.claimed, c ∈ pods ∧ claimDecision true c = .keep) _ pods _ (by simp) ?_
  rintro o c hc ⟨h1, h2, h3, h4⟩
  rcases claimDecision_deleting c with h | h
  · rw [claimStep_keep o h]
    refine ⟨h1, h2, h3, ?_⟩
    intro x hx
    rcases List.mem_append.1 hx with hx | hx
    · exact h4 x hx
    · obtain rfl : x = c := by simpa using hx
      exact ⟨hc, h⟩
  · rw [claimStep_ignore o h]; exact ⟨h1, h2, h3, h4⟩

/-- inside the invariant: every patch of an unowned pod stands after the uncached read, which was not faulted and found
    the set present, with the cached uid and no deletion timestamp -/
theorem ClaimInv.adopt_confirmed {log claimed memo evs}
    (I : ClaimInv plan d fresh pods log0 log claimed memo evs) {pre : List CEv} {c : CPod} {post : List CEv}
    (hev : evs = pre ++ .patch c :: post) (hown : c.owner = .none) :
    claimDecision d c = .adopt ∧ ∃ p1 p2, pre = p1 ++ .getSet :: p2 ∧
      look plan "get:set" (occIn (log0 ++ p1.map CEv.key) "get:set") = none ∧
      fresh.gone = false ∧ fresh.uidOk = true ∧ fresh.deleting = false := by
  have hmem : CEv.patch c ∈ evs := by rw [hev]; simp
  have hadopt : claimDecision d c = .adopt := by
    rcases I.shape _ hmem with h | ⟨c', _, hc', h⟩
    · cases h
    · obtain rfl : c = c' := by simpa using hc'
      rcases h with h | h
      · have := ((claimDecision_release_iff d c).1 h).1
        rw [hown] at this; cases this
      · exact h
  refine ⟨hadopt, ?_⟩
  have hm := I.adoptOk c hmem hadopt
  obtain ⟨p1, post', hev', h1, _, hb⟩ := I.memoSome true hm
  rw [hev] at hev'
  rcases List.append_eq_append_iff.1 hev' with ⟨a', ha, hb'⟩ | ⟨c', hc1, hc2⟩
  · exfalso
    cases a' with
    | nil => simp at hb'
    | cons x a'' =>
      simp only [List.cons_append, List.cons.injEq] at hb'
      have : CEv.patch c ∈ p1 := by rw [ha, ← hb'.1]; simp
      obtain ⟨c2, hc2, hr⟩ := h1 _ this
      obtain rfl : c = c2 := by simpa using hc2
      rw [hr] at hadopt; cases hadopt
  · cases c' with
    | nil => simp at hc2
    | cons x p2 =>
      simp only [List.cons_append, List.cons.injEq] at hc2
      refine ⟨p1, p2, by rw [hc1, ← hc2.1], ?_⟩
      have hb2 : canAdoptOf plan fresh (log0 ++ p1.map CEv.key) = true := hb.symm
      simp only [canAdoptOf, Bool.and_eq_true, Option.isNone_iff_eq_none, Bool.not_eq_true'] at hb2
      exact ⟨hb2.1.1.1, hb2.1.1.2, hb2.1.2, hb2.2⟩

/-! ## corollaries -/

/-- (2) who gets on the claimed list: a pod of the input that matches and is a member, and either is already controlled
    by the set, or was unowned, not terminating, the set not being deleted, and its adoption patch went through (an
    unfaulted `patch:pod:<name>` entry stands in the log appended by this pass). Never a pod controlled by somebody else. -/
theorem claimPodsF_claimed (plan : List Fault) (d : Bool) (fresh : Fresh) (pods : List CPod) (tr : Tr) :
    ∀ c ∈ (claimPodsF plan d fresh pods tr).claimed,
      c ∈ pods ∧ c.owner ≠ .other ∧ c.selMatch = true ∧ c.member = true ∧
      (c.owner = .self ∨
        (c.owner = .none ∧ c.pod.terminating = false ∧ d = false ∧
          ∃ pre post, (claimPodsF plan d fresh pods tr).tr.log = tr.log ++ pre ++ s!"patch:pod:{c.name}" :: post ∧
            look plan s!"patch:pod:{c.name}" (occIn (tr.log ++ pre) s!"patch:pod:{c.name}") = none)) := by
  obtain ⟨evs, I⟩ := claimPodsF_inv plan d fresh pods tr
  intro c hc
  obtain ⟨hp, h⟩ := I.claimed_ok c hc
  rcases h with h | ⟨h, pre, post, rfl, hl⟩
  · obtain ⟨h1, h2, h3⟩ := (claimDecision_keep_iff d c).1 h
    exact ⟨hp, by simp [h1], h2, h3, Or.inl h1⟩
  · obtain ⟨h1, h2, h3, h4, h5⟩ := (claimDecision_adopt_iff d c).1 h
    refine ⟨hp, by simp [h1], h2, h3, Or.inr ⟨h1, h4, h5, pre.map CEv.key, post.map CEv.key, ?_, hl⟩⟩
    rw [I.log_eq]; simp [CEv.key]

theorem claimPodsF_claimed_mem (plan : List Fault) (d : Bool) (fresh : Fresh) (pods : List CPod) (tr : Tr) :
    ∀ c ∈ (claimPodsF plan d fresh pods tr).claimed, c ∈ pods :=
  fun c hc => (claimPodsF_claimed plan d fresh pods tr c hc).1

/-- (3)+(4) the calls of the claim pass: the appended log is the rendering of an event list in which
    * every event is the uncached read of the set or an owner-reference patch of a pod of the input whose decision was
      release or adopt (so: no delete, no update, no create),
    * the uncached read occurs at most once,
    * every patch of an unowned pod comes after that read, the read was not faulted, and it found the set present, with
      the cached uid, and without a deletion timestamp. -/
theorem claimPodsF_calls (plan : List Fault) (d : Bool) (fresh : Fresh) (pods : List CPod) (tr : Tr) :
    ∃ evs : List CEv,
      (claimPodsF plan d fresh pods tr).tr.log = tr.log ++ evs.map CEv.key ∧
      (∀ e ∈ evs, e = .getSet ∨
        ∃ c ∈ pods, e = .patch c ∧ (claimDecision d c = .release ∨ claimDecision d c = .adopt)) ∧
      evs.count .getSet ≤ 1 ∧
      ∀ pre c post, evs = pre ++ .patch c :: post → c.owner = .none →
        ∃ p1 p2, pre = p1 ++ .getSet :: p2 ∧
          look plan "get:set" (occIn (tr.log ++ p1.map CEv.key) "get:set") = none ∧
          fresh.gone = false ∧ fresh.uidOk = true ∧ fresh.deleting = false := by
  obtain ⟨evs, I⟩ := claimPodsF_inv plan d fresh pods tr
  refine ⟨evs, I.log_eq, I.shape, ?_, ?_⟩
  · cases hm : (claimPodsF plan d fresh pods tr).canAdopt with
    | none =>
      have : evs.count .getSet = 0 := by
        rw [List.count_eq_zero]
        intro hmem
        obtain ⟨c, hc, _⟩ := I.memoNone hm _ hmem
        cases hc
      omega
    | some b =>
      obtain ⟨pre, post, rfl, h1, h2, _⟩ := I.memoSome b hm
      have e1 : pre.count .getSet = 0 := by
        rw [List.count_eq_zero]; intro hmem
        obtain ⟨c, hc, _⟩ := h1 _ hmem
        cases hc
      have e2 : post.count .getSet = 0 := by
        rw [List.count_eq_zero]; intro hmem; exact h2 _ hmem rfl
      simp [List.count_append, e1, e2]
  · intro pre c post hev hown
    exact (I.adopt_confirmed hev hown).2

/-- (4) as a statement about the strings: everything the claim pass appends is `get:set` or `patch:pod:<name of an
    input pod>`; in particular there is no `delete:` entry — a release is a patch -/
theorem claimPodsF_appends (plan : List Fault) (d : Bool) (fresh : Fresh) (pods : List CPod) (tr : Tr) :
    ∃ ext, (claimPodsF plan d fresh pods tr).tr.log = tr.log ++ ext ∧
      ∀ e ∈ ext, e = "get:set" ∨ ∃ c ∈ pods, e = s!"patch:pod:{c.name}" ∧ c.owner ≠ .other ∧
        (claimDecision d c = .release ∨ claimDecision d c = .adopt) := by
  obtain ⟨evs, h1, h2, _⟩ := claimPodsF_calls plan d fresh pods tr
  refine ⟨_, h1, ?_⟩
  intro e he
  obtain ⟨ev, hev, rfl⟩ := List.mem_map.1 he
  rcases h2 ev hev with rfl | ⟨c, hc, rfl, h⟩
  · exact Or.inl rfl
  · refine Or.inr ⟨c, hc, rfl, ?_, h⟩
    intro ho
    rw [claimDecision_other d c ho] at h
    rcases h with h | h <;> cases h

end Asts.SYa
