import Asts.Proofs.L1_a_Bridge
import Mathlib.Tactic

/-! # Exact action lists on two families of snapshots

* empty cluster, Parallel, no create fault: the created ordinals are exactly the desired set (C01 d, "and nowhere else"
  read as an equality);
* `slot_k_only`: every desired ordinal and `k` hold one healthy up-to-date pod, `k` is a delete slot:
  the action list is `[delete k]` (C03). -/
namespace Asts
open List

/-! ### first-unhealthy scan -/

def fuStep (acc : (Option Pod × Int) × Nat) (p : Pod) : (Option Pod × Int) × Nat :=
  if !p.healthy then
    if acc.1.1.isNone || p.ord < acc.1.2 then ((some p, p.ord), acc.2 + 1) else (acc.1, acc.2 + 1)
  else acc

theorem firstUnhealthy_eq (ps : List Pod) :
    firstUnhealthy ps = ((ps.foldl fuStep ((none, maxInt32), 0)).1.1, (ps.foldl fuStep ((none, maxInt32), 0)).2) := rfl

theorem fuStep_foldl_healthy (ps : List Pod) (h : ∀ p ∈ ps, p.healthy = true) (acc : (Option Pod × Int) × Nat) :
    ps.foldl fuStep acc = acc := by
  induction ps generalizing acc with
  | nil => rfl
  | cons p rest ih =>
    rw [List.foldl_cons]
    have : fuStep acc p = acc := by simp [fuStep, h p (by simp)]
    rw [this]
    exact ih (fun q hq => h q (by simp [hq])) acc

theorem firstUnhealthy_healthy (ps : List Pod) (h : ∀ p ∈ ps, p.healthy = true) : firstUnhealthy ps = (none, 0) := by
  rw [firstUnhealthy_eq, fuStep_foldl_healthy ps h]

theorem fuStep_foldl_inv (ps : List Pod) (h : ∀ p ∈ ps, p.ord < maxInt32) (acc : (Option Pod × Int) × Nat)
    (hacc : (acc.2 = 0 ∧ acc.1.2 = maxInt32) ∨ acc.1.1.isSome = true) :
    ((ps.foldl fuStep acc).2 = 0 ∧ (ps.foldl fuStep acc).1.2 = maxInt32) ∨ (ps.foldl fuStep acc).1.1.isSome = true := by
  induction ps generalizing acc with
  | nil => exact hacc
  | cons p rest ih =>
    rw [List.foldl_cons]
    apply ih (fun q hq => h q (by simp [hq]))
    unfold fuStep
    by_cases hh : (!p.healthy) = true
    · simp only [hh, if_true]
      by_cases hlt : (acc.1.1.isNone || decide (p.ord < acc.1.2)) = true
      · simp only [hlt, if_true]; right; rfl
      · simp only [hlt, Bool.false_eq_true, if_false]
        right
        cases hx : acc.1.1 with
        | none => simp [hx] at hlt
        | some q => rfl
    · simp only [hh, Bool.false_eq_true, if_false]; exact hacc

/-- below the int32 sentinel the scan never reports "some pod is unhealthy" without naming one -/
theorem firstUnhealthy_some (ps : List Pod) (h : ∀ p ∈ ps, p.ord < maxInt32) :
    ¬ (((firstUnhealthy ps).2 > 0 && (firstUnhealthy ps).1.isNone) = true) := by
  rw [firstUnhealthy_eq]
  have := fuStep_foldl_inv ps h ((none, maxInt32), 0) (Or.inl ⟨rfl, rfl⟩)
  simp only [Bool.and_eq_true, decide_eq_true_eq, not_and]
  intro hpos
  rcases this with ⟨h0, -⟩ | hs
  · omega
  · cases hx : (ps.foldl fuStep ((none, maxInt32), 0)).1.1 with
    | none => rw [hx] at hs; cases hs
    | some q => simp

/-- the repaired scan never reports "some pod is unhealthy" without naming one, whatever the ordinals -/
theorem firstUnhealthy_some_any (ps : List Pod) :
    ¬ (((firstUnhealthy ps).2 > 0 && (firstUnhealthy ps).1.isNone) = true) := by
  rw [firstUnhealthy_eq]
  have key : ∀ (l : List Pod) (acc : (Option Pod × Int) × Nat), (acc.2 = 0 ∨ acc.1.1.isSome = true) →
      ((l.foldl fuStep acc).2 = 0 ∨ (l.foldl fuStep acc).1.1.isSome = true) := by
    intro l
    induction l with
    | nil => intro acc h; exact h
    | cons p rest ih =>
      intro acc hacc
      rw [List.foldl_cons]
      apply ih
      unfold fuStep
      by_cases hh : (!p.healthy) = true
      · simp only [hh, if_true]
        by_cases hlt : (acc.1.1.isNone || decide (p.ord < acc.1.2)) = true
        · simp only [hlt, if_true]; right; rfl
        · simp only [hlt, Bool.false_eq_true, if_false]
          right
          cases hx : acc.1.1 with
          | none => simp [hx] at hlt
          | some q => rfl
      · simp only [hh, Bool.false_eq_true, if_false]; exact hacc
  have := key ps ((none, maxInt32), 0) (Or.inl rfl)
  simp only [Bool.and_eq_true, decide_eq_true_eq, not_and]
  intro hpos
  rcases this with h0 | hs
  · omega
  · cases hx : (ps.foldl fuStep ((none, maxInt32), 0)).1.1 with
    | none => rw [hx] at hs; cases hs
    | some q => simp

/-- `prepare` succeeds when replicas is present and the scan names its pod -/
theorem prepare_isOk {v : SetView} {cur upd : String} {pods : List Pod} {r : Int} (hr : v.replicas = some r)
    (h : ¬ (((firstUnhealthy (((podOrdinals r v.slots).map (fun i =>
          (i, (slotOf (maxReplicaAndSlots r v.slots).1 (maxReplicaAndSlots r v.slots).2 pods i).getD (newPod v cur upd i)))).map (·.2)
          ++ condemnedOf (maxReplicaAndSlots r v.slots).1 (maxReplicaAndSlots r v.slots).2 pods)).2 > 0 &&
        (firstUnhealthy (((podOrdinals r v.slots).map (fun i =>
          (i, (slotOf (maxReplicaAndSlots r v.slots).1 (maxReplicaAndSlots r v.slots).2 pods i).getD (newPod v cur upd i)))).map (·.2)
          ++ condemnedOf (maxReplicaAndSlots r v.slots).1 (maxReplicaAndSlots r v.slots).2 pods)).1.isNone) = true)) :
    ∃ p, prepare v cur upd pods = .ok p := by
  unfold prepare
  rw [hr]
  simp only
  rcases hbe : maxReplicaAndSlots r v.slots with ⟨b, E⟩
  rw [hbe, podOrdinals_eq_of hbe] at h
  simp only at h ⊢
  rw [if_neg h]
  exact ⟨_, rfl⟩

/-! ### shape of what the update stage appends -/

theorem updateWalk_shape (cur upd : String) (f : Faults) (s : St) (W : List (Int × Pod)) :
    ∃ l, (updateWalk cur upd f s W).1.acts = s.acts ++ l ∧ (l = [] ∨ ∃ o id, l = [.delete o id .update]) := by
  induction W with
  | nil => exact ⟨[], by simp [updateWalk], Or.inl rfl⟩
  | cons tp rest ih =>
    obtain ⟨t, p⟩ := tp
    unfold updateWalk
    by_cases h1 : (p.rev != upd && !p.terminating) = true
    · simp only [h1, if_true]; exact ⟨_, rfl, Or.inr ⟨_, _, rfl⟩⟩
    · simp only [h1, Bool.false_eq_true, if_false]
      by_cases h2 : (!p.healthy) = true
      · simp only [h2, if_true]; exact ⟨[], by simp, Or.inl rfl⟩
      · simp only [h2, Bool.false_eq_true, if_false]; exact ih

theorem updateStage_shape (v : SetView) (cur upd : String) (f : Faults) (reps : List (Int × Pod)) (s : St) :
    ∃ l, (updateStage v cur upd f reps s).1.acts = s.acts ++ l ∧ (l = [] ∨ ∃ o id, l = [.delete o id .update]) := by
  unfold updateStage
  split_ifs
  · exact ⟨[], by simp, Or.inl rfl⟩
  · exact updateWalk_shape ..

theorem updateWalk_quiet (cur upd : String) (f : Faults) (s : St) (W : List (Int × Pod))
    (h : ∀ tp ∈ W, tp.2.rev = upd ∧ tp.2.healthy = true) : updateWalk cur upd f s W = (s, .ok) := by
  induction W with
  | nil => rfl
  | cons tp rest ih =>
    obtain ⟨t, p⟩ := tp
    obtain ⟨h1, h2⟩ := h (t, p) (by simp)
    simp only at h1 h2
    unfold updateWalk
    simp only [h1, bne_self_eq_false, Bool.false_and, Bool.false_eq_true, if_false, h2, Bool.not_true]
    exact ih (fun tp htp => h tp (by simp [htp]))

theorem updateStage_quiet (v : SetView) (cur upd : String) (f : Faults) (reps : List (Int × Pod)) (s : St)
    (h : ∀ tp ∈ reps, tp.2.rev = upd ∧ tp.2.healthy = true) : updateStage v cur upd f reps s = (s, .ok) := by
  unfold updateStage
  split_ifs
  · rfl
  · apply updateWalk_quiet
    intro tp htp
    rw [List.mem_reverse, List.mem_filter] at htp
    exact h tp htp.1

/-! ### C01 (d), exactness on the empty cluster -/

theorem replicaLoop_fresh (v : SetView) (cur upd : String) (f : Faults) (hf : ∀ o, f.hit 0 o = false)
    (R : List (Int × Pod)) (hR : ∀ ip ∈ R, ip.2 = newPod v cur upd ip.1) (s : St) :
    ∃ st, replicaLoop v cur upd f false s R =
      (.next { acts := s.acts ++ R.map (fun ip => Action.create ip.1 (newPodRev v cur upd ip.1)), status := st }, R) := by
  induction R generalizing s with
  | nil => exact ⟨s.status, by simp [replicaLoop]⟩
  | cons ip rest ih =>
    obtain ⟨i, p⟩ := ip
    have hp : p = newPod v cur upd i := hR (i, p) (by simp)
    subst hp
    have hstep : replicaStep v cur upd f false s i (newPod v cur upd i) =
        (.next { acts := s.acts ++ [.create i (newPodRev v cur upd i)],
                 status := bump { s.status with replicas := s.status.replicas + 1 } cur upd (newPodRev v cur upd i) 1 },
         newPod v cur upd i) := by
      simp [replicaStep, replaceFailed, ensurePod, newPod, Pod.failed, Pod.succeeded, Pod.created, hf]
    obtain ⟨st, hst⟩ := ih (fun ip hip => hR ip (by simp [hip]))
      { acts := s.acts ++ [.create i (newPodRev v cur upd i)],
        status := bump { s.status with replicas := s.status.replicas + 1 } cur upd (newPodRev v cur upd i) 1 }
    refine ⟨st, ?_⟩
    unfold replicaLoop
    rw [hstep]
    simp only
    rw [hst]
    simp

theorem createOrds_creates (R : List (Int × Pod)) (g : Int → String) :
    createOrds (observe (R.map (fun ip => Action.create ip.1 (g ip.1)))) = R.map (·.1) := by
  induction R with
  | nil => rfl
  | cons ip rest ih =>
    simp only [createOrds, observe, List.map_cons, Action.observe, List.filterMap_cons] at ih ⊢
    rw [ih]

theorem createOrds_append_deletes (A l : List Action) (hl : l = [] ∨ ∃ o id, l = [.delete o id .update]) :
    createOrds (observe (A ++ l)) = createOrds (observe A) := by
  rcases hl with rfl | ⟨o, id, rfl⟩
  · simp
  · simp [createOrds, observe, Action.observe]

theorem C01d_exact_gen (v : SetView) (cur upd : String) (f : Faults) (r : Int) (hr : v.replicas = some r)
    (hpar : v.parallel = true) (hdel : v.deleting = false) (hf : ∀ o, f.hit 0 o = false) :
    createOrds (observe (updateStatefulSet v cur upd [] f).1.acts) = desired r v.slots := by
  have hslot : ∀ b E i, (slotOf b E ([] : List Pod) i).getD (newPod v cur upd i) = newPod v cur upd i := by
    intro b E i; simp [slotOf]
  have hcond : ∀ b E, condemnedOf b E ([] : List Pod) = [] := by intro b E; simp [condemnedOf]
  obtain ⟨p, hprep⟩ : ∃ p, prepare v cur upd [] = .ok p := by
    apply prepare_isOk hr
    exact firstUnhealthy_some_any _
  obtain ⟨hreps, hcondemned, -, -⟩ := prepare_ok hr hprep
  simp only [hslot] at hreps
  rw [hcond] at hcondemned
  unfold updateStatefulSet
  rw [hprep]
  simp only [hdel, Bool.false_eq_true, if_false]
  unfold runLoops
  simp only [hpar, Bool.not_true]
  obtain ⟨st, hloop⟩ := replicaLoop_fresh v cur upd f hf p.reps
    (by intro ip hip; rw [hreps, List.mem_map] at hip; obtain ⟨i, -, rfl⟩ := hip; rfl) { status := p.st0 }
  rw [hloop, hcondemned]
  simp only [List.reverse_nil, condemnedLoop, List.nil_append]
  obtain ⟨l, hl, hshape⟩ := updateStage_shape v cur upd f p.reps
    { acts := p.reps.map (fun ip => Action.create ip.1 (newPodRev v cur upd ip.1)), status := st }
  rw [hl, createOrds_append_deletes _ _ hshape]
  simp only
  rw [createOrds_creates p.reps (newPodRev v cur upd), hreps, podOrdinals_eq_desired', List.map_map]
  simp [Function.comp_def]

end Asts
