import Asts.Proofs.C02_BPick
import Asts.Proofs.C02_BClaim
import Asts.Proofs.C02_LStep
import Std.Data.String.ToInt

/-! C02, normalising rounds: the whole sync, under the empty fault plan, of a world whose pods may be orphans and whose
    revisions may need work. -/
namespace Asts.C02p
open Asts Asts.L1c

/-- a world before its normalising rounds (the pods part; the revisions part is `RevPrem`) -/
structure PreC (j : SyncIn) : Prop where
  spec : SpecOk j
  pods : ∀ c ∈ j.pods, (c.owner = .self ∨ c.owner = .none) ∧ c.member = true ∧ c.selMatch = true ∧
    c.name = canonicalName j.setName c.pod.ord ∧ 0 ≤ c.pod.ord ∧ c.pod.stOk = true ∧ c.pod.created = true
  ords : (j.pods.map (·.pod.ord)).Nodup
  small : j.pods.length ≤ freshId
  smallR : (replicasOf j.view).toNat ≤ freshId
  gone : j.fresh.gone = false
  uid : j.fresh.uidOk = true
  fdel : j.fresh.deleting = false
  term : ∀ c ∈ j.pods, c.pod.terminating = false
  colon : ∀ ch ∈ j.setName.toList, (ch == ':') = false
  names : (j.store.map (·.name)).Nodup

theorem PreC.claimable {j : SyncIn} (hp : PreC j) : ∀ c ∈ j.pods, Claimable c := by
  intro c hc
  obtain ⟨a1, a2, a3, _⟩ := hp.pods c hc
  exact ⟨a1, a3, a2, hp.term c hc⟩

theorem canon_inj (s : String) (a b : Int) (h : canonicalName s a = canonicalName s b) : a = b := by
  rw [canon_eq, canon_eq] at h
  have h1 : toString a = toString b := by
    have := congrArg String.toList h
    simp only [String.toList_append, List.append_cancel_left_eq] at this
    exact String.toList_injective this
  exact Int.repr_injective h1

theorem PreC.podNames {j : SyncIn} (hp : PreC j) : (j.pods.map (·.name)).Nodup := by
  have : j.pods.map (·.name) = (j.pods.map (·.pod.ord)).map (canonicalName j.setName) := by
    rw [List.map_map]
    apply List.map_congr_left
    intro c hc
    exact (hp.pods c hc).2.2.2.1
  rw [this]
  exact List.Nodup.map (fun a b hab => canon_inj _ a b hab) hp.ords

theorem PreC.noColon {j : SyncIn} (hp : PreC j) : ∀ c ∈ j.pods, ∀ ch ∈ c.name.toList, (ch == ':') = false := by
  intro c hc
  obtain ⟨_, _, _, a4, a5, _⟩ := hp.pods c hc
  rw [a4]
  exact canon_noColon _ _ a5 hp.colon

/-- **the reconcile and the tail of the sync when no call fails**: the status is written if it differs, unused history
    beyond the limit is deleted; the log grows by entries that are no pod patches -/
theorem reconcileF_nil (j : SyncIn) (L : List Rev) (cur upd : Rev) (cc : Int) (G : List Rev) (l0 : List String)
    (hname : ∀ c ∈ j.pods, c.name = canonicalName j.setName c.pod.ord) (hords : (j.pods.map (·.pod.ord)).Nodup)
    (hrep : j.view.replicas = some (replicasOf j.view)) (hgone : j.fresh.gone = false)
    (lim : Int) (hlim : j.historyLimit = some lim)
    (hin : ∀ r ∈ L, G.any (·.name == r.name) = true) (hnd : (L.map (·.name)).Nodup)
    (ro : St × Outcome) (hro : updateStatefulSet j.view cur.name upd.name (j.pods.map (·.pod)) [] = ro) (hok : ro.2 = .ok) :
    ∃ lgR, (∀ e ∈ lgR, NoPatch e) ∧
      reconcileF j [] j.pods L cur upd cc { store := G, tr := { log := l0 } } =
        { log := l0 ++ lgR,
          status := (if inconsistentStatus j.stored (completeRollingUpdate j.view ro.1.status)
                     then some (completeRollingUpdate j.view ro.1.status) else none),
          cc := (if inconsistentStatus j.stored (completeRollingUpdate j.view ro.1.status) then some cc else none),
          store := G.filter (fun x => !((victimsOf lim (j.pods.map (·.pod.rev)) L cur upd).map (·.name)).contains x.name),
          cur := cur.name, upd := upd.name, claimed := j.pods, acts := ro.1.acts, actsDone := ro.1.acts.length,
          outcome := .ok } := by
  have hrec : updateStatefulSet j.view cur.name upd.name (j.pods.map (·.pod))
      (podFaults j.setName [] j.pods j.pods (maxReplicaAndSlots (j.view.replicas.getD 0) j.view.slots).1
        (maxReplicaAndSlots (j.view.replicas.getD 0) j.view.slots).2) = ro := by
    have hrep' : j.view.replicas.getD 0 = replicasOf j.view := rfl
    rw [hrep', ← hro]
    exact updateStatefulSet_noHit _ _ _ _ _ (replicasOf j.view) hrep (podFaults_noHit j.setName j.pods _ _ hname hords)
  unfold reconcileF
  simp only
  rw [hrec]
  obtain ⟨st, out⟩ := ro
  simp only at hok
  subst hok
  simp only
  rw [finishF_ok_trunc j _ _ _ _ _ _ _ hgone lim hlim hin hnd]
  have hlog : ∀ e ∈ (st.acts.map (actLog j.setName [] j.pods j.pods (maxReplicaAndSlots (j.view.replicas.getD 0) j.view.slots).1
        (maxReplicaAndSlots (j.view.replicas.getD 0) j.view.slots).2)).flatten, NoPatch e := by
    intro e he
    rw [List.mem_flatten] at he
    obtain ⟨l', hl', hel'⟩ := he
    rw [List.mem_map] at hl'
    obtain ⟨a, _, rfl⟩ := hl'
    exact actLog_noPatch _ _ _ _ _ a e hel'
  have hdel : ∀ e ∈ (victimsOf lim (j.pods.map (·.pod.rev)) L cur upd).map (fun r => s!"delete:rev:{r.name}"), NoPatch e := by
    intro e he
    rw [List.mem_map] at he
    obtain ⟨r, _, rfl⟩ := he
    exact noPatch_delete_rev _
  split_ifs with hinc
  · refine ⟨(st.acts.map (actLog j.setName [] j.pods j.pods (maxReplicaAndSlots (j.view.replicas.getD 0) j.view.slots).1
        (maxReplicaAndSlots (j.view.replicas.getD 0) j.view.slots).2)).flatten ++ ["updatestatus"] ++
        (victimsOf lim (j.pods.map (·.pod.rev)) L cur upd).map (fun r => s!"delete:rev:{r.name}"), ?_, ?_⟩
    · intro e he
      rw [List.mem_append, List.mem_append] at he
      rcases he with (he | he) | he
      · exact hlog e he
      · simp only [List.mem_singleton] at he; rw [he]; exact noPatch_updatestatus
      · exact hdel e he
    · simp [List.append_assoc]
  · refine ⟨(st.acts.map (actLog j.setName [] j.pods j.pods (maxReplicaAndSlots (j.view.replicas.getD 0) j.view.slots).1
        (maxReplicaAndSlots (j.view.replicas.getD 0) j.view.slots).2)).flatten ++
        (victimsOf lim (j.pods.map (·.pod.rev)) L cur upd).map (fun r => s!"delete:rev:{r.name}"), ?_, ?_⟩
    · intro e he
      rw [List.mem_append] at he
      rcases he with he | he
      · exact hlog e he
      · exact hdel e he
    · simp [List.append_assoc]

/-- **the sync up to the reconcile**: adoption of revisions, claim of every pod, resolution of the update revision -/
theorem sync_pre {h : Hashing} {j : SyncIn} (hp : PreC j) {G : List Rev} {upd : Rev} {cc : Int}
    (hpick : PickOut h j.template (j.collisionCount.getD 0) (adoptS j.store) G upd cc) :
    ∃ lg1 lg2, (∀ e ∈ lg1, NoPatch e) ∧ (∀ e ∈ lg2, NoPatch e) ∧
      syncF h j [] =
        reconcileF j [] j.pods (sortRevs (listRevisions (adoptS j.store)))
          (((sortRevs (listRevisions (adoptS j.store))).find? (·.name == j.stored.currentRev)).getD upd) upd cc
          { store := G, tr := { log := lg1 ++ claimLog false j.pods ++ lg2 } } := by
  obtain ⟨lgA, hlgA, hadopt⟩ := adopt_nil j.fresh hp.gone hp.uid hp.fdel j.store []
  obtain ⟨m, hclaim⟩ := claim_nil j.fresh hp.gone hp.uid hp.fdel j.pods hp.claimable ([] ++ lgA)
  obtain ⟨lgP, hlgP, hrun⟩ := hpick.run j.stored.currentRev ([] ++ lgA ++ claimLog false j.pods ++ ["list:revs", "list:revs"])
  refine ⟨lgA, ["list:revs", "list:revs"] ++ lgP, hlgA, ?_, ?_⟩
  · intro e he
    rw [List.mem_append] at he
    rcases he with he | he
    · simp only [List.mem_cons, List.not_mem_nil, or_false, or_self] at he
      rw [he]; exact noPatch_list_revs
    · exact hlgP e he
  · rw [syncF_stages]
    simp only [hp.spec.paused, hp.spec.sel, Bool.not_true, Bool.or_self, Bool.false_eq_true, if_false, hp.spec.del]
    have e0 : ({ store := j.store } : RevSt) = { store := j.store, tr := { log := [] } } := rfl
    rw [e0, hadopt]
    simp only
    rw [hclaim]
    simp only [Bool.false_eq_true, if_false]
    unfold revisionsF
    rw [listRevsF_nil]
    simp only
    rw [hrun]
    simp [List.append_assoc]

end Asts.C02p
