import Mathlib.Tactic
import Asts.Model.Watch
import Asts.Spec.Watch

/-! # Lemmas for C20 (the repaired relay, `Variant.fixed`)

`Inv` is an inductive invariant of `act .fixed`; everything in `Props/C20` follows from it plus the two measures `rank`, `mu`. -/
namespace Asts.Watch

/-! ## conversion -/

theorem convert_typ (e : Ev) : (convert e).typ = e.typ := by
  unfold convert; split <;> rfl

theorem convert_id (e : Ev) : (convert e).id = e.id := by
  unfold convert; split <;> rfl

theorem convert_set (e : Ev) (h : e.pay = .asSet) : (convert e).pay = .builtin := by
  unfold convert; simp [h]

theorem convert_nonset (e : Ev) (h : e.pay ≠ .asSet) : convert e = e := by
  unfold convert; simp [h]

theorem convert_eq_expected (e : Ev) : convert e = Spec.expected e := by
  rcases e with ⟨t, p, i⟩
  cases p <;> simp [convert, Spec.expected]

/-! ## the invariant -/

/-- where every event the source offered is: received, in the relay's hand, still queued, or cut off by the end of the source
    (`rest`, possible only once the source is closed); after the relay left its loop only the prefix property is left -/
def Flow (w : W) : Prop :=
  match w.pc with
  | .recvWait => ∃ rest, w.sent.map convert = w.log ++ (w.queue.map convert ++ rest) ∧ (w.srcClosed = false → rest = [])
  | .sendWait o => ∃ rest, w.sent.map convert = w.log ++ o :: (w.queue.map convert ++ rest) ∧ (w.srcClosed = false → rest = [])
  | _ => ∃ rest, w.sent.map convert = w.log ++ rest

structure Inv (w : W) : Prop where
  flow : Flow w
  noPanic : w.panicked = false
  stopClosed : w.stopped = true → w.srcClosed = true
  exitedClosed : w.pc = .exited → w.resultClosed = true

theorem inv_init : Inv {} := by
  refine ⟨⟨[], ?_, ?_⟩, rfl, ?_, ?_⟩ <;> simp

theorem flow_prefix {w : W} (h : Flow w) : ∃ rest, w.sent.map convert = w.log ++ rest := by
  rcases w with ⟨queue, srcClosed, pc, resultClosed, stopped, panicked, log, sent⟩
  cases pc <;> simp only [Flow] at h ⊢
  · obtain ⟨rest, h, _⟩ := h; exact ⟨_, h⟩
  · obtain ⟨rest, h, _⟩ := h; exact ⟨_, h⟩
  all_goals exact h

theorem inv_srcSend {w : W} (e : Ev) (h : Inv w) : Inv (act .fixed w (.srcSend e)) := by
  rcases w with ⟨queue, srcClosed, pc, resultClosed, stopped, panicked, log, sent⟩
  obtain ⟨hf, hp, hs, hx⟩ := h
  simp only at hp hs hx
  cases srcClosed
  · refine ⟨?_, hp, by simpa [act] using hs, by simpa [act] using hx⟩
    cases pc <;> simp only [Flow, act] at hf ⊢
    · obtain ⟨rest, h1, h2⟩ := hf
      have := h2 trivial; subst this
      exact ⟨[], by simp [h1], fun _ => rfl⟩
    · obtain ⟨rest, h1, h2⟩ := hf
      have := h2 trivial; subst this
      exact ⟨[], by simp [h1], fun _ => rfl⟩
    all_goals
      obtain ⟨rest, h1⟩ := hf
      exact ⟨rest ++ [convert e], by simp [h1]⟩
  · simpa [act] using (⟨hf, hp, hs, hx⟩ : Inv _)

/-- cutting the queue down to `k` entries (the source ends / is stopped) keeps `Flow` once the source counts as closed -/
theorem flow_cut {queue : List Ev} {pc : Pc} {log sent : List Ev} {c r s p : Bool} (k : Nat) {r' s' p' : Bool}
    (hf : Flow ⟨queue, c, pc, r, s, p, log, sent⟩) : Flow ⟨queue.take k, true, pc, r', s', p', log, sent⟩ := by
  have hq : queue.map convert = (queue.take k).map convert ++ (queue.drop k).map convert := by
    rw [← List.map_append, List.take_append_drop]
  cases pc <;> simp only [Flow] at hf ⊢
  · obtain ⟨rest, h1, _⟩ := hf
    exact ⟨(queue.drop k).map convert ++ rest, by rw [h1, hq]; simp only [List.append_assoc], by simp⟩
  · obtain ⟨rest, h1, _⟩ := hf
    exact ⟨(queue.drop k).map convert ++ rest, by rw [h1, hq]; simp only [List.append_assoc], by simp⟩
  all_goals exact hf

theorem inv_srcClose {w : W} (k : Nat) (h : Inv w) : Inv (act .fixed w (.srcClose k)) := by
  rcases w with ⟨queue, srcClosed, pc, resultClosed, stopped, panicked, log, sent⟩
  obtain ⟨hf, hp, hs, hx⟩ := h
  simp only at hp hs hx
  cases srcClosed
  · exact ⟨by simpa [act] using flow_cut k hf, hp, fun _ => by simp [act], by simpa [act] using hx⟩
  · simpa [act] using (⟨hf, hp, hs, hx⟩ : Inv _)

theorem inv_consumerStop {w : W} (k : Nat) (h : Inv w) : Inv (act .fixed w (.consumerStop k)) := by
  rcases w with ⟨queue, srcClosed, pc, resultClosed, stopped, panicked, log, sent⟩
  obtain ⟨hf, hp, hs, hx⟩ := h
  simp only at hp hs hx
  cases stopped
  · exact ⟨by simpa [act] using flow_cut k hf, hp, fun _ => by simp [act], by simpa [act] using hx⟩
  · simpa [act] using (⟨hf, hp, hs, hx⟩ : Inv _)

theorem inv_consumerRecv {w : W} (h : Inv w) : Inv (act .fixed w .consumerRecv) := by
  rcases w with ⟨queue, srcClosed, pc, resultClosed, stopped, panicked, log, sent⟩
  obtain ⟨hf, hp, hs, hx⟩ := h
  simp only at hp hs hx
  cases pc
  case sendWait o =>
    refine ⟨?_, hp, hs, by simp [act]⟩
    simp only [Flow, act] at hf ⊢
    obtain ⟨rest, h1, h2⟩ := hf
    exact ⟨rest, by simp [h1], h2⟩
  all_goals exact ⟨hf, hp, hs, hx⟩

/-- the five ways the repaired relay moves -/
theorem relayStep_cases {w w' : W} (hs : relayStep? .fixed w = some w') :
    (∃ e q, w.pc = .recvWait ∧ w.queue = e :: q ∧ w' = { w with queue := q, pc := .sendWait (convert e) }) ∨
    (w.pc = .recvWait ∧ w.queue = [] ∧ w.srcClosed = true ∧ w' = { w with pc := .stopping }) ∨
    (∃ o, w.pc = .sendWait o ∧ w.stopped = true ∧ w' = { w with pc := .stopping }) ∨
    (w.pc = .stopping ∧ w' = { w with pc := .closing, stopped := true, srcClosed := true }) ∨
    (w.pc = .closing ∧ w' = { w with pc := .exited, resultClosed := true }) := by
  rcases w with ⟨queue, srcClosed, pc, resultClosed, stopped, panicked, log, sent⟩
  cases pc
  case recvWait =>
    cases queue with
    | nil =>
      cases srcClosed
      · simp [relayStep?] at hs
      · simp [relayStep?] at hs; subst hs; simp
    | cons e q => simp [relayStep?, relayTake] at hs; subst hs; simp
  case sendWait o =>
    cases stopped
    · simp [relayStep?] at hs
    · simp [relayStep?] at hs; subst hs; simp
  case stopping => simp [relayStep?] at hs; subst hs; simp
  case closing => simp [relayStep?] at hs; subst hs; simp
  case exited => simp [relayStep?] at hs

theorem inv_relayStep {w w' : W} (h : Inv w) (hs : relayStep? .fixed w = some w') : Inv w' := by
  obtain ⟨hf, hp, hsc, hx⟩ := h
  rcases relayStep_cases hs with ⟨e, q, h1, h2, rfl⟩ | ⟨h1, h2, h3, rfl⟩ | ⟨o, h1, h2, rfl⟩ | ⟨h1, rfl⟩ | ⟨h1, rfl⟩
  · refine ⟨?_, hp, hsc, by simp⟩
    simp only [Flow, h1, h2] at hf ⊢
    obtain ⟨rest, h3, h4⟩ := hf
    exact ⟨rest, by simpa using h3, h4⟩
  · refine ⟨?_, hp, hsc, by simp⟩
    simp only [Flow, h1, h2] at hf ⊢
    obtain ⟨rest, h4, _⟩ := hf
    exact ⟨rest, by simpa using h4⟩
  · refine ⟨?_, hp, hsc, by simp⟩
    simp only [Flow, h1] at hf ⊢
    obtain ⟨rest, h4, _⟩ := hf
    exact ⟨_, h4⟩
  · refine ⟨?_, hp, fun _ => rfl, by simp⟩
    simp only [Flow, h1] at hf ⊢
    exact hf
  · refine ⟨?_, hp, hsc, fun _ => rfl⟩
    simp only [Flow, h1] at hf ⊢
    exact hf

theorem inv_act {w : W} (a : Act) (h : Inv w) : Inv (act .fixed w a) := by
  cases a with
  | srcSend e => exact inv_srcSend e h
  | srcClose k => exact inv_srcClose k h
  | consumerRecv => exact inv_consumerRecv h
  | consumerStop k => exact inv_consumerStop k h
  | relayStep =>
    show Inv ((relayStep? .fixed w).getD w)
    cases hs : relayStep? .fixed w with
    | none => simpa using h
    | some w' => simpa using inv_relayStep h hs

theorem inv_exec {w : W} (as : List Act) (h : Inv w) : Inv (exec .fixed w as) := by
  induction as generalizing w with
  | nil => exact h
  | cons a as ih => exact ih (inv_act a h)

theorem inv_reachable {w : W} (h : Reachable .fixed w) : Inv w := by
  obtain ⟨as, rfl⟩ := h
  exact inv_exec as inv_init

theorem reachable_act {v : Variant} {w : W} (a : Act) (h : Reachable v w) : Reachable v (act v w a) := by
  obtain ⟨as, rfl⟩ := h
  exact ⟨as ++ [a], by simp [exec, List.foldl_append]⟩

theorem reachable_exec {v : Variant} {w : W} (as : List Act) (h : Reachable v w) : Reachable v (exec v w as) := by
  obtain ⟨bs, rfl⟩ := h
  exact ⟨bs ++ as, by simp [exec, List.foldl_append]⟩

/-! ## safety -/

/-- the consumer log is the conversion of a prefix of what the source offered -/
theorem log_prefix {w : W} (h : Reachable .fixed w) : ∃ pre rest, w.sent = pre ++ rest ∧ w.log = pre.map convert := by
  obtain ⟨rest, hr⟩ := flow_prefix (inv_reachable h).flow
  obtain ⟨l₁, l₂, h1, h2, _⟩ := List.map_eq_append_iff.mp hr
  exact ⟨l₁, l₂, h1, h2.symm⟩

/-! ## cleanup -/

theorem rank_decreases {v : Variant} {w w' : W} (hs : relayStep? v w = some w') : rank w' < rank w := by
  rcases w with ⟨queue, srcClosed, pc, resultClosed, stopped, panicked, log, sent⟩
  cases pc
  case recvWait =>
    cases queue with
    | nil =>
      cases srcClosed
      · simp [relayStep?] at hs
      · simp [relayStep?] at hs; subst hs; simp [rank]
    | cons e q =>
      simp only [relayStep?, relayTake, Option.some.injEq] at hs
      split_ifs at hs <;> (subst hs; simp [rank])
  case sendWait o =>
    simp only [relayStep?] at hs
    split_ifs at hs
    simp only [Option.some.injEq] at hs; subst hs; simp [rank]
  case stopping => simp [relayStep?] at hs; subst hs; simp [rank]
  case closing => simp [relayStep?] at hs; subst hs; simp [rank]
  case exited => simp [relayStep?] at hs

theorem relayRun_bound {v : Variant} {w w' : W} {n : Nat} (h : RelayRun v w n w') : rank w' + n ≤ rank w := by
  induction h with
  | done w => simp
  | step hs _ ih => have := rank_decreases hs; omega

/-- the consumer has stopped, or the source has ended and nothing is left to deliver -/
def Finishing (w : W) : Prop :=
  w.stopped = true ∨ (w.srcClosed = true ∧ w.queue = [] ∧ ∀ o, w.pc ≠ .sendWait o)

theorem finishing_relayStep {w w' : W} (hq : Finishing w) (hs : relayStep? .fixed w = some w') : Finishing w' := by
  unfold Finishing at hq ⊢
  rcases relayStep_cases hs with ⟨e, q, h1, h2, rfl⟩ | ⟨h1, h2, h3, rfl⟩ | ⟨o, h1, h2, rfl⟩ | ⟨h1, rfl⟩ | ⟨h1, rfl⟩
  · rcases hq with hq | ⟨_, hq, _⟩
    · exact Or.inl hq
    · simp [h2] at hq
  · exact Or.inr ⟨h3, h2, by simp⟩
  · exact Or.inl h2
  · exact Or.inl rfl
  · rcases hq with hq | ⟨h2, h3, _⟩
    · exact Or.inl hq
    · exact Or.inr ⟨h2, h3, by simp⟩

/-- a finishing relay that cannot move has exited -/
theorem finishing_blocked {w : W} (hi : Inv w) (hq : Finishing w) (hs : relayStep? .fixed w = none) :
    w.pc = .exited ∧ w.resultClosed = true := by
  rcases w with ⟨queue, srcClosed, pc, resultClosed, stopped, panicked, log, sent⟩
  obtain ⟨hf, hp, hsc, hx⟩ := hi
  simp only [Finishing] at hq hsc hx
  cases pc
  case recvWait =>
    cases queue with
    | nil =>
      have hc : srcClosed = true := by
        rcases hq with hq | ⟨hq, _, _⟩
        · exact hsc hq
        · exact hq
      subst hc
      simp [relayStep?] at hs
    | cons e q => simp [relayStep?] at hs
  case sendWait o =>
    rcases hq with hq | ⟨_, _, hq⟩
    · subst hq; simp [relayStep?] at hs
    · exact absurd rfl (hq o)
  case stopping => simp [relayStep?] at hs
  case closing => simp [relayStep?] at hs
  case exited => exact ⟨rfl, hx rfl⟩

theorem cleanup_run {w w' : W} {n : Nat} (hi : Inv w) (hq : Finishing w) (hr : RelayRun .fixed w n w')
    (hmax : relayStep? .fixed w' = none) : n ≤ rank w ∧ w'.pc = .exited ∧ w'.resultClosed = true := by
  refine ⟨by have := relayRun_bound hr; omega, ?_⟩
  induction hr with
  | done w => exact finishing_blocked hi hq hmax
  | step hs _ ih => exact ih (inv_relayStep hi hs) (finishing_relayStep hq hs) hmax

/-- a maximal run of relay steps exists from every state (so `cleanup_run` is not vacuous) and is what `settle` computes -/
theorem settleN_run (v : Variant) (n : Nat) (w : W) (hn : rank w ≤ n) :
    ∃ k, RelayRun v w k (settleN v n w) ∧ relayStep? v (settleN v n w) = none := by
  induction n generalizing w with
  | zero =>
    rcases w with ⟨queue, srcClosed, pc, resultClosed, stopped, panicked, log, sent⟩
    cases pc <;> simp [rank] at hn
    exact ⟨0, .done _, by simp [settleN, relayStep?]⟩
  | succ n ih =>
    cases hs : relayStep? v w with
    | none => exact ⟨0, by simpa [settleN, hs] using RelayRun.done w, by simp [settleN, hs]⟩
    | some w' =>
      have hlt := rank_decreases hs
      obtain ⟨k, hk, hb⟩ := ih w' (by omega)
      exact ⟨k + 1, by simpa [settleN, hs] using RelayRun.step hs hk, by simpa [settleN, hs] using hb⟩

theorem rank_le_four (w : W) : rank w ≤ 4 := by
  rcases w with ⟨queue, srcClosed, pc, resultClosed, stopped, panicked, log, sent⟩
  cases pc <;> simp [rank]

theorem settle_blocked (v : Variant) (w : W) : relayStep? v (settle v w) = none :=
  (settleN_run v 4 w (rank_le_four w)).choose_spec.2

theorem settle_run (v : Variant) (w : W) : ∃ k, RelayRun v w k (settle v w) :=
  let ⟨k, hk, _⟩ := settleN_run v 4 w (rank_le_four w); ⟨k, hk⟩

/-! ## Stop -/

theorem stop_idempotent (v : Variant) (w : W) (k k' : Nat) :
    act v (act v w (.consumerStop k)) (.consumerStop k') = act v w (.consumerStop k) := by
  rcases w with ⟨queue, srcClosed, pc, resultClosed, stopped, panicked, log, sent⟩
  by_cases hc : stopped = true <;> simp [act, hc]

theorem stop_when_stopped (v : Variant) (w : W) (k : Nat) (h : w.stopped = true) : act v w (.consumerStop k) = w := by
  simp [act, h]

/-! ## cleanup under every schedule: `mu` -/

theorem mu_relayStep {w w' : W} (hs : relayStep? .fixed w = some w') : mu w' < mu w := by
  rcases relayStep_cases hs with ⟨e, q, h1, h2, rfl⟩ | ⟨h1, h2, h3, rfl⟩ | ⟨o, h1, h2, rfl⟩ | ⟨h1, rfl⟩ | ⟨h1, rfl⟩
  · simp only [mu, h1, h2, List.length_cons]; omega
  · simp only [mu, h1]; omega
  · simp only [mu, h1]; omega
  · simp only [mu, h1]; omega
  · simp only [mu, h1]; omega

theorem stopped_relayStep {w w' : W} (hst : w.stopped = true) (hs : relayStep? .fixed w = some w') : w'.stopped = true := by
  rcases relayStep_cases hs with ⟨e, q, h1, h2, rfl⟩ | ⟨h1, h2, h3, rfl⟩ | ⟨o, h1, h2, rfl⟩ | ⟨h1, rfl⟩ | ⟨h1, rfl⟩ <;> simp [hst]

/-- once the consumer has stopped, no action of anybody increases `mu`, and the state stays stopped -/
theorem mu_act_stopped {w : W} (a : Act) (hi : Inv w) (hst : w.stopped = true) :
    mu (act .fixed w a) ≤ mu w ∧ (act .fixed w a).stopped = true := by
  have hc := hi.stopClosed hst
  cases a with
  | srcSend e => simp [act, hc, hst]
  | srcClose k => simp [act, hc, hst]
  | consumerStop k => simp [act, hst]
  | consumerRecv =>
    rcases w with ⟨queue, srcClosed, pc, resultClosed, stopped, panicked, log, sent⟩
    simp only at hst
    cases pc <;> simp [act, mu, hst]
  | relayStep =>
    show mu ((relayStep? .fixed w).getD w) ≤ _ ∧ ((relayStep? .fixed w).getD w).stopped = true
    cases hs : relayStep? .fixed w with
    | none => simpa using hst
    | some w' => exact ⟨by simpa using (mu_relayStep hs).le, by simpa using stopped_relayStep hst hs⟩

def countRelay (as : List Act) : Nat := (as.filter (· = Act.relayStep)).length

/-- stopped and not yet exited: the relay can move (it is never blocked for good) -/
theorem stopped_enabled {w : W} (hi : Inv w) (hst : w.stopped = true) (hne : w.pc ≠ .exited) :
    ∃ w', relayStep? .fixed w = some w' := by
  have hc := hi.stopClosed hst
  rcases w with ⟨queue, srcClosed, pc, resultClosed, stopped, panicked, log, sent⟩
  simp only at hst hc hne
  subst hst hc
  cases pc
  case recvWait => cases queue <;> simp [relayStep?]
  case exited => exact absurd rfl hne
  all_goals simp [relayStep?]

theorem mu_zero_iff (w : W) : mu w = 0 ↔ w.pc = .exited := by
  rcases w with ⟨queue, srcClosed, pc, resultClosed, stopped, panicked, log, sent⟩
  cases pc <;> simp [mu]

theorem mu_exec_stopped {w : W} (as : List Act) (hi : Inv w) (hst : w.stopped = true) :
    mu (exec .fixed w as) + countRelay as ≤ mu w ∨ (exec .fixed w as).pc = .exited := by
  induction as generalizing w with
  | nil => left; simp [exec, countRelay]
  | cons a as ih =>
    have hstep := mu_act_stopped a hi hst
    have hi' := inv_act a hi
    have ih' := ih hi' hstep.2
    show mu (exec .fixed (act .fixed w a) as) + countRelay (a :: as) ≤ mu w ∨ (exec .fixed (act .fixed w a) as).pc = .exited
    rcases ih' with ih' | ih'
    · by_cases ha : a = .relayStep
      · subst ha
        by_cases hne : w.pc = .exited
        · -- already exited: every later state is exited too (mu stays 0)
          have h0 : mu w = 0 := (mu_zero_iff w).mpr hne
          have : mu (act .fixed w .relayStep) = 0 := by have := hstep.1; omega
          right
          have : mu (exec .fixed (act .fixed w .relayStep) as) = 0 := by omega
          exact (mu_zero_iff _).mp this
        · obtain ⟨w', hs⟩ := stopped_enabled hi hst hne
          have hlt := mu_relayStep hs
          have hact : act .fixed w .relayStep = w' := by simp [act, hs]
          left
          have hcnt : countRelay (Act.relayStep :: as) = countRelay as + 1 := by simp [countRelay]
          subst hact
          rw [hcnt]
          omega
      · left
        have hcnt : countRelay (a :: as) = countRelay as := by simp [countRelay, ha]
        rw [hcnt]
        have := hstep.1
        omega
    · exact Or.inr ih'

theorem stop_then_settle_exited {w : W} (h : Reachable .fixed w) (k : Nat) :
    (settle .fixed (act .fixed w (.consumerStop k))).pc = .exited ∧
      (settle .fixed (act .fixed w (.consumerStop k))).resultClosed = true := by
  have hr := reachable_act (.consumerStop k) h
  have hst : (act .fixed w (.consumerStop k)).stopped = true := by
    by_cases hs : w.stopped = true <;> simp [act, hs]
  obtain ⟨n, hrun⟩ := settle_run .fixed (act .fixed w (.consumerStop k))
  exact (cleanup_run (inv_reachable hr) (Or.inl hst) hrun (settle_blocked _ _)).2

theorem stopped_exits_any_schedule {w : W} (h : Reachable .fixed w) (hst : w.stopped = true) (as : List Act)
    (hfair : mu w ≤ countRelay as) :
    (exec .fixed w as).pc = .exited ∧ (exec .fixed w as).resultClosed = true := by
  have hi := inv_reachable h
  have hx : (exec .fixed w as).pc = .exited := by
    rcases mu_exec_stopped as hi hst with hm | hm
    · exact (mu_zero_iff _).mp (by omega)
    · exact hm
  exact ⟨hx, (inv_exec as hi).exitedClosed hx⟩

end Asts.Watch
