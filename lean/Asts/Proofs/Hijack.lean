import Asts.Model.Hijack
import Asts.Spec.Hijack
import Asts.Proofs.Codec
import Mathlib.Tactic

namespace Asts.Hijack
open Asts Asts.Codec Asts.Hijack.Spec

/-! Lemmas about the wrapped verbs of the hijack client (`Model/Hijack`). The conversions themselves are those of
    `Model/Codec`; their losslessness is `Proofs/Codec` (instantiated in `Props/C19`). -/

/-! ### the wrapper -/

theorem hijack_ok (S : Schemas) (st : Step) (o : Out) : hijack S st (.ok o) = .ok (wrapOut S o) := rfl

theorem hijack_err (S : Schemas) (st : Step) (k : ErrKind) : hijack S st (.err k) = .err k := rfl

theorem hijack_eq_err_iff (S : Schemas) (st : Step) (r : Res Out) (k : ErrKind) : hijack S st r = .err k ↔ r = .err k := by
  cases r <;> simp [hijack]

theorem hijack_eq_ok_iff (S : Schemas) (st : Step) (r : Res Out) (b : Out) :
    hijack S st r = .ok b ↔ ∃ o, r = .ok o ∧ b = wrapOut S o := by
  cases r <;> simp [hijack, eq_comm]

theorem wrapOut_shape (S : Schemas) (o : Out) : (wrapOut S o).shape = o.shape := by cases o <;> rfl

/-! ### typed results -/

theorem apiVersionOf_toBuiltin (S : Schemas) {bs : Fields} (hb : S.builtin = .struct bs)
    (hf : (findField "apiVersion" bs).isSome = true) (a : GoVal) : apiVersionOf (toBuiltin S a) = "apps/v1" := by
  obtain ⟨⟨o, u⟩, hou⟩ := Option.isSome_iff_exists.mp hf
  unfold apiVersionOf toBuiltin
  rw [hb, convert_typed S.as bs "apps/v1" a hou]

theorem length_encodeList (t : GoTy) : ∀ l : List GoVal, (encodeList t l).length = l.length
  | [] => by simp [encodeList]
  | v :: vs => by simp [encodeList, length_encodeList t vs]

theorem length_decodeList (t : GoTy) : ∀ l : List Json, (decodeList t l).length = l.length
  | [] => by simp [decodeList]
  | j :: js => by simp [decodeList, length_decodeList t js]

/-- a field the value does not carry is not written -/
theorem jlookup_encodeFields_of_vlookup_none {k : String} {vs : List (String × GoVal)} (hv : vlookup k vs = none) :
    ∀ fs : Fields, jlookup k (encodeFields fs vs) = none
  | [] => by simp [encodeFields, jlookup]
  | (k', o', t') :: rest => by
    have ih := jlookup_encodeFields_of_vlookup_none hv rest
    by_cases hk : k' = k
    · subst hk
      simp only [encodeFields, hv]
      exact ih
    · simp only [encodeFields]
      split
      · split_ifs
        · exact ih
        · simp only [jlookup, hk, if_false]; exact ih
      · exact ih

/-- the keys of a JSON object (nothing for any other JSON value) -/
def objKvs (j : Json) : List (String × Json) :=
  match j with
  | .obj kvs => kvs
  | _ => []

theorem decode_struct' (fs : Fields) (j : Json) : decode (.struct fs) j = .struct (decodeFields fs (objKvs j)) := by
  cases j <;> simp [decode, objKvs]

/-- the stamp `convertList` puts on the items -/
def stampItems (av : String) (v : GoVal) : GoVal :=
  match v with
  | .slice (some items) => .slice (some (items.map (setField "apiVersion" (.str av))))
  | v => v

/-- the item stamp of `convertList` seen through `vlookup` -/
theorem vlookup_map_items (F : GoVal → GoVal) (k : String) : ∀ fs : List (String × GoVal),
    vlookup k (fs.map fun e => if e.1 = "items" then (e.1, F e.2) else e) =
      (vlookup k fs).map (fun v => if k = "items" then F v else v)
  | [] => rfl
  | (k0, v) :: rest => by
    have ih := vlookup_map_items F k rest
    by_cases h0 : k0 = "items"
    · by_cases hk : k0 = k
      · subst hk; simp [vlookup, h0]
      · have hk' : ¬ "items" = k := fun e => hk (h0.trans e)
        simp only [List.map_cons, h0, if_true, vlookup, hk', if_false]
        exact ih
    · by_cases hk : k0 = k
      · subst hk; simp [vlookup, h0]
      · simp only [List.map_cons, h0, if_false, vlookup, hk]
        exact ih

/-- every decoded item of a struct type carries the stamp afterwards -/
theorem stamped_item_typed {gs : Fields} (av : String) (hG : (findField "apiVersion" gs).isSome = true) (j : Json) :
    topField "apiVersion" (setField "apiVersion" (.str av) (decode (.struct gs) j)) = some (.str av) := by
  obtain ⟨⟨o, u⟩, hou⟩ := Option.isSome_iff_exists.mp hG
  rw [decode_struct]
  simp only [setField, topField]
  apply vlookup_map_set
  rw [vlookup_decodeFields _ hou]; rfl

theorem stamped_items_typed {gs : Fields} (av : String) (hG : (findField "apiVersion" gs).isSome = true) :
    ∀ js : List Json, ∀ x ∈ (decodeList (.struct gs) js).map (setField "apiVersion" (.str av)), topField "apiVersion" x = some (.str av)
  | [], x, hx => by simp [decodeList] at hx
  | j :: js, x, hx => by
    simp only [decodeList, List.map_cons, List.mem_cons] at hx
    rcases hx with rfl | hx
    · exact stamped_item_typed av hG j
    · exact stamped_items_typed av hG js x hx

/-- what `Marshal` writes under `items`, in terms of the items the value carries -/
theorem jlookup_items_encode {fa : Fields} {ta : GoTy} (wfA : wfFields fa = true)
    (itemsA : findField "items" fa = some (false, .slice ta)) (l : GoVal) :
    (∃ xs, itemsOf l = xs ∧ jlookup "items" (objKvs (encode (.struct fa) l)) = some (.arr (encodeList ta xs))) ∨
    (itemsOf l = [] ∧ (jlookup "items" (objKvs (encode (.struct fa) l)) = none ∨
                       jlookup "items" (objKvs (encode (.struct fa) l)) = some .null)) := by
  cases l with
  | struct vs =>
    simp only [encode, objKvs]
    cases hv : vlookup "items" vs with
    | none =>
      right
      refine ⟨by simp [itemsOf, topField, hv], Or.inl (jlookup_encodeFields_of_vlookup_none hv fa)⟩
    | some x =>
      have hj := jlookup_encodeFields (fs := fa) wfA itemsA hv
      simp only [Bool.false_and, Bool.false_eq_true, if_false] at hj
      cases x with
      | slice o =>
        cases o with
        | none =>
          right
          refine ⟨by simp [itemsOf, topField, hv], Or.inr ?_⟩
          rw [hj]; simp [encode]
        | some xs =>
          left
          refine ⟨xs, by simp [itemsOf, topField, hv], ?_⟩
          rw [hj]; simp [encode]
      | _ =>
        right
        refine ⟨by simp [itemsOf, topField, hv], Or.inr ?_⟩
        rw [hj]; simp [encode]
  | _ =>
    right
    refine ⟨by simp [itemsOf, topField], Or.inl ?_⟩
    simp [encode, jlookup, objKvs]

/-- `ToBuiltinStetefulsetList` between two list types: the list is stamped, every item is stamped, and there are as many
    items as before -/
theorem convertList_spec {fa fb gs : Fields} {ta : GoTy} {ob : Bool} (av : String)
    (wfA : wfFields fa = true)
    (itemsA : findField "items" fa = some (false, .slice ta))
    (itemsB : findField "items" fb = some (ob, .slice (.struct gs)))
    (apiB : (findField "apiVersion" fb).isSome = true)
    (apiG : (findField "apiVersion" gs).isSome = true) (l : GoVal) :
    topField "apiVersion" (convertList (.struct fa) (.struct fb) av l) = some (.str av) ∧
    (∀ x ∈ itemsOf (convertList (.struct fa) (.struct fb) av l), topField "apiVersion" x = some (.str av)) ∧
    (itemsOf (convertList (.struct fa) (.struct fb) av l)).length = (itemsOf l).length := by
  obtain ⟨⟨o1, u1⟩, hB⟩ := Option.isSome_iff_exists.mp apiB
  have hJ := jlookup_items_encode wfA itemsA l
  have hr : convertList (.struct fa) (.struct fb) av l =
      .struct (((decodeFields fb (objKvs (encode (.struct fa) l))).map fun e => if e.1 = "apiVersion" then ("apiVersion", GoVal.str av) else e).map
        fun e => if e.1 = "items" then (e.1, stampItems av e.2) else e) := by
    simp only [convertList, decode_struct', setField]
    rfl
  generalize objKvs (encode (.struct fa) l) = kvs at hJ hr
  rw [hr]
  have hne : ("items" : String) ≠ "apiVersion" := by decide
  have hne' : ¬ ("apiVersion" : String) = "items" := by decide
  refine ⟨?_, ?_⟩
  · -- the list's own stamp
    simp only [topField]
    rw [vlookup_map_items]
    simp only [hne', if_false, Option.map_id']
    apply vlookup_map_set
    rw [vlookup_decodeFields _ hB]; rfl
  · -- the items
    have hI : itemsOf (.struct (((decodeFields fb kvs).map fun e => if e.1 = "apiVersion" then ("apiVersion", GoVal.str av) else e).map
        fun e => if e.1 = "items" then (e.1, stampItems av e.2) else e)) =
        (match jlookup "items" kvs with
         | some (.arr js) => (decodeList (.struct gs) js).map (setField "apiVersion" (.str av))
         | _ => []) := by
      simp only [itemsOf, topField]
      rw [vlookup_map_items, vlookup_map_set_ne hne, vlookup_decodeFields _ itemsB]
      cases hj : jlookup "items" kvs with
      | none => simp [zero, stampItems]
      | some j => cases j <;> simp [decode, stampItems]
    rw [hI]
    rcases hJ with ⟨xs, hxs, hj⟩ | ⟨hnil, hj | hj⟩
    · rw [hj, hxs]
      exact ⟨stamped_items_typed av apiG _, by simp [length_decodeList, length_encodeList]⟩
    · rw [hj, hnil]; simp
    · rw [hj, hnil]; simp

/-- the distinct versions of a list whose items all carry the same non-empty version -/
theorem foldr_insertS_const (s : String) : ∀ n : Nat, (List.replicate (n + 1) s).foldr insertS [] = [s]
  | 0 => by simp [insertS]
  | n + 1 => by
    rw [List.replicate_succ, List.foldr_cons, foldr_insertS_const s n]
    simp [insertS]

theorem versionsOf_typed (xs : List GoVal) (h : ∀ x ∈ xs, topField "apiVersion" x = some (.str "apps/v1")) :
    versionsOf xs = if xs.length = 0 then "" else "apps/v1" := by
  have hm : (xs.map fun x => let v := apiVersionOf x; if v == "" then "-" else v) = List.replicate xs.length "apps/v1" := by
    apply List.eq_replicate_iff.mpr
    refine ⟨by simp, ?_⟩
    intro b hb
    obtain ⟨x, hx, rfl⟩ := List.mem_map.mp hb
    simp [apiVersionOf, h x hx]
  unfold versionsOf
  rw [hm]
  cases hn : xs.length with
  | zero => simp
  | succ n => rw [foldr_insertS_const]; simp

/-! ### the monitor on the model -/

/-- what the theorems need of the four schemas: the two list types are structs with an `items` slice (never omitted on the
    Advanced side) and an `apiVersion`; the built-in item type and the built-in object type have an `apiVersion` -/
def WellShaped (S : Schemas) : Prop :=
  ∃ fa fb gs bs ta ob, S.asList = .struct fa ∧ S.builtinList = .struct fb ∧ S.builtin = .struct bs ∧ wfFields fa = true ∧
    findField "items" fa = some (false, .slice ta) ∧ findField "items" fb = some (ob, .slice (.struct gs)) ∧
    (findField "apiVersion" fb).isSome = true ∧ (findField "apiVersion" gs).isSome = true ∧ (findField "apiVersion" bs).isSome = true

/-- the inner client answers a step with a result of the step's kind -/
def ShapeOk (st : Step) (inner : Res Out) : Prop := ∀ o, inner = .ok o → o.shape = st.shape

theorem observe_stepOk (S : Schemas) (hS : WellShaped S) (st : Step) (inner : Res Out) (hsh : ShapeOk st inner) :
    stepOk (observe st inner (hijack S st inner)) = true := by
  obtain ⟨fa, fb, gs, bs, ta, ob, hA, hB, hb, wfA, itemsA, itemsB, apiB, apiG, apiO⟩ := hS
  cases inner with
  | err k =>
    cases hst : st.shape <;> simp [stepOk, sentOk, retOk, errOk, observe, hijack, noRet, hst]
  | ok o =>
    have hshape : o.shape = st.shape := hsh o rfl
    cases o with
    | obj a =>
      simp only [Out.shape] at hshape
      simp [stepOk, sentOk, retOk, errOk, observe, hijack, wrapOut, goodRet, ← hshape, apiVersionOf_toBuiltin S hb apiO]
    | list l =>
      simp only [Out.shape] at hshape
      have hc := convertList_spec "apps/v1" wfA itemsA itemsB apiB apiG l
      have hv := versionsOf_typed _ hc.2.1
      have htop : apiVersionOf (toBuiltinList S l) = "apps/v1" := by
        unfold apiVersionOf toBuiltinList; rw [hA, hB, hc.1]
      have hlen : (itemsOf (toBuiltinList S l)).length = (itemsOf l).length := by
        unfold toBuiltinList; rw [hA, hB]; exact hc.2.2
      have hvers : versionsOf (itemsOf (toBuiltinList S l)) = if (itemsOf l).length = 0 then "" else "apps/v1" := by
        have : toBuiltinList S l = convertList (.struct fa) (.struct fb) "apps/v1" l := by unfold toBuiltinList; rw [hA, hB]
        rw [this, hv, hc.2.2]
      simp only [stepOk, sentOk, retOk, errOk, observe, hijack, wrapOut, goodRet, ← hshape, htop, hlen, hvers]
      by_cases h0 : (itemsOf l).length = 0 <;> simp [h0]
    | done =>
      simp only [Out.shape] at hshape
      simp [stepOk, sentOk, retOk, errOk, observe, hijack, wrapOut, goodRet, ← hshape]
    | stream =>
      simp only [Out.shape] at hshape
      simp [stepOk, sentOk, retOk, errOk, observe, hijack, wrapOut, goodRet, ← hshape]

/-- the fake store answers every step with a result of the step's kind -/
theorem innerStep_shape (a : GoVal) (s : Store) (st : Step) (fault : Option ErrKind) : ShapeOk st (innerStep a s st fault).1 := by
  intro o ho
  cases fault with
  | some k => simp [innerStep] at ho
  | none =>
    cases st <;> simp only [innerStep] at ho <;> (try split_ifs at ho) <;>
      simp only [Res.ok.injEq] at ho <;> (try subst ho) <;> rfl

theorem observeRun_ok (S : Schemas) (hS : WellShaped S) (a : GoVal) :
    ∀ (s : Store) (ops : List (Step × Option ErrKind)), runOk (observeRun S a s ops) = true
  | _, [] => by simp [observeRun, runOk]
  | s, (st, fault) :: rest => by
    have h1 := observe_stepOk S hS st (innerStep a s st fault).1 (innerStep_shape a s st fault)
    have h2 := observeRun_ok S hS a (innerStep a s st fault).2 rest
    simp only [runOk] at h2 ⊢
    simp only [observeRun, List.all_cons, h1, h2, Bool.and_self]

theorem stepClauses_of_stepOk (o : StepObs) (h : stepOk o = true) : ∀ c ∈ stepClauses o, c.2 = true := by
  simp only [stepOk, Bool.and_eq_true] at h
  intro c hc
  simp only [stepClauses, List.mem_cons, List.mem_nil_iff, or_false] at hc
  rcases hc with rfl | rfl | rfl
  · exact h.1.1
  · exact h.1.2
  · exact h.2

theorem clauses_of_runOk (steps : List StepObs) (h : runOk steps = true) :
    ∀ c ∈ clauses { conv := convGood, convExtra := convGood, steps := steps }, c.2 = true := by
  intro c hc
  simp only [clauses, List.mem_cons, List.mem_flatMap] at hc
  rcases hc with rfl | ⟨o, ho, hc⟩
  · decide
  · exact stepClauses_of_stepOk o (by simpa [runOk] using (List.all_eq_true.mp h) o ho) c hc

end Asts.Hijack
