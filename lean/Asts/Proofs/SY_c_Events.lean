import Asts.Proofs.SY_c_Base

/-! # C09 (i): the call log read back with the faults that fired, and the "benign" list

`events plan log` pairs every entry of a log with the fault the plan assigns to it (`planAt` at its occurrence number) —
exactly what `Tr.call` returned when the entry was appended, and exactly what `annotate` of `Spec/Sync.lean` recomputes.
`Benign` is the list of failures the code swallows on purpose, stated on keys; `BenignFrom n` says that every fault that
fired at a position `≥ n` is on that list. -/
namespace Asts.SYc

abbrev Ev := String × Option ErrKind

def eventsFrom (plan : List Fault) : List String → List String → List Ev
  | _, [] => []
  | pre, e :: rest => (e, planAt plan e (cnt pre e)) :: eventsFrom plan (pre ++ [e]) rest

/-- every entry with the fault that fired at it (`none` = the call went through) -/
def events (plan : List Fault) (log : List String) : List Ev := eventsFrom plan [] log

theorem eventsFrom_append (plan : List Fault) :
    ∀ (a b pre : List String), eventsFrom plan pre (a ++ b) = eventsFrom plan pre a ++ eventsFrom plan (pre ++ a) b
  | [], b, pre => by simp [eventsFrom]
  | e :: a, b, pre => by
    simp only [List.cons_append, eventsFrom]
    rw [eventsFrom_append plan a b (pre ++ [e])]
    simp

theorem events_append (plan : List Fault) (a b : List String) :
    events plan (a ++ b) = events plan a ++ eventsFrom plan a b := by
  unfold events; rw [eventsFrom_append]; simp

theorem events_snoc (plan : List Fault) (a : List String) (k : String) :
    events plan (a ++ [k]) = events plan a ++ [(k, planAt plan k (cnt a k))] := by
  rw [events_append]; rfl

@[simp] theorem eventsFrom_length (plan : List Fault) : ∀ (l pre : List String), (eventsFrom plan pre l).length = l.length
  | [], _ => rfl
  | _ :: l, pre => by simp [eventsFrom, eventsFrom_length plan l]

@[simp] theorem events_length (plan : List Fault) (l : List String) : (events plan l).length = l.length :=
  eventsFrom_length plan l []

theorem eventsFrom_map_fst (plan : List Fault) : ∀ (l pre : List String), (eventsFrom plan pre l).map (·.1) = l
  | [], _ => rfl
  | _ :: l, pre => by simp [eventsFrom, eventsFrom_map_fst plan l]

/-- with an empty plan nothing fires -/
theorem eventsFrom_nil_plan : ∀ (l pre : List String), ∀ ev ∈ eventsFrom [] pre l, ev.2 = none
  | [], _, ev, h => by simp [eventsFrom] at h
  | e :: l, pre, ev, h => by
    simp only [eventsFrom, List.mem_cons] at h
    rcases h with h | h
    · subst h; rfl
    · exact eventsFrom_nil_plan l _ ev h

/-- what the benign list is relative to: the pod snapshot (a release patch is recognised by its pod being controlled by
    the set), a set of keys that are left out of the judgement (`exempt`; empty for the headline, the pod-control keys
    for the statement about arbitrary plans), and a certificate for object names -/
structure Cx where
  pods   : List CPod
  exempt : String → Prop
  nameOk : String → Prop

/-- the failures swallowed on purpose, on keys. `prev` is the event just before. Every object name that occurs is
    certified by `cx.nameOk` (used for "contains no ':'" when the keys are parsed back). -/
def Benign (cx : Cx) (prev : Option Ev) (ev : Ev) : Prop :=
  ∀ kind, ev.2 = some kind →
    cx.exempt ev.1 ∨
    (kind = .conflict ∧ (ev.1 = "updatestatus" ∨ (∃ n, cx.nameOk n ∧ ev.1 = kUpdateRev n) ∨
        ∃ n, cx.nameOk n ∧ ev.1 = kUpdatePod n)) ∨
    (kind = .notFound ∧ ∃ n, cx.nameOk n ∧ ev.1 = kPatchPod n) ∨
    (kind = .invalid ∧ ∃ c ∈ cx.pods, c.owner = .self ∧ cx.nameOk c.name ∧ ev.1 = kPatchPod c.name) ∨
    (kind = .alreadyExists ∧ ∃ n, cx.nameOk n ∧ ev.1 = kCreateRev n) ∨
    (∃ n pk, cx.nameOk n ∧ ev.1 = kGetRev n ∧ prev = some (kUpdateRev n, some pk))

theorem benign_none (cx : Cx) (prev : Option Ev) (k : String) : Benign cx prev (k, none) := by
  intro kind h; cases h

/-- every fault that fired at a position `≥ n` of the log is benign -/
def BenignFrom (cx : Cx) (plan : List Fault) (n : Nat) (log : List String) : Prop :=
  ∀ pre x post, events plan log = pre ++ x :: post → n ≤ pre.length → Benign cx pre.getLast? x

theorem benignFrom_len (cx : Cx) (plan : List Fault) (log : List String) :
    BenignFrom cx plan log.length log := by
  intro pre x post h hn
  have := congrArg List.length h
  simp at this; omega

theorem benignFrom_mono {cx : Cx} {plan : List Fault} {n m : Nat} {log : List String} (hnm : n ≤ m)
    (h : BenignFrom cx plan n log) : BenignFrom cx plan m log :=
  fun pre x post he hm => h pre x post he (by omega)

theorem benignFrom_snoc {cx : Cx} {plan : List Fault} {n : Nat} {log : List String} {k : String}
    (h : BenignFrom cx plan n log)
    (hk : Benign cx (events plan log).getLast? (k, planAt plan k (cnt log k))) :
    BenignFrom cx plan n (log ++ [k]) := by
  intro pre x post he hn
  rw [events_snoc] at he
  rcases List.eq_nil_or_concat post with hp | ⟨post', y, hp⟩
  · subst hp
    have := List.append_inj' he (by simp)
    obtain ⟨h1, h2⟩ := this
    simp only [List.cons.injEq, and_true] at h2
    subst h1; subst h2; exact hk
  · subst hp
    have he' : events plan log ++ [(k, planAt plan k (cnt log k))] = (pre ++ x :: post') ++ [y] := by
      rw [he]; simp
    have := List.append_inj' he' (by simp)
    exact h pre x post' this.1 hn

theorem benignFrom_snoc_none {cx : Cx} {plan : List Fault} {n : Nat} {log : List String} {k : String}
    (h : BenignFrom cx plan n log) (hk : planAt plan k (cnt log k) = none) :
    BenignFrom cx plan n (log ++ [k]) :=
  benignFrom_snoc h (by rw [hk]; exact benign_none _ _ _)

/-- the invariant read backwards: a prefix of a good log is good -/
theorem benignFrom_prefix {cx : Cx} {plan : List Fault} {n : Nat} {a b : List String}
    (h : BenignFrom cx plan n (a ++ b)) : BenignFrom cx plan n a := by
  intro pre x post he hn
  refine h pre x (post ++ eventsFrom plan a b) ?_ hn
  rw [events_append, he]; simp

theorem events_getLast_snoc (plan : List Fault) (a : List String) (k : String) :
    (events plan (a ++ [k])).getLast? = some (k, planAt plan k (cnt a k)) := by
  rw [events_snoc]; simp

/-- nothing in the plan names key `k` -/
theorem planAt_none_of_no_key {plan : List Fault} {k : String} (h : ∀ f ∈ plan, f.key ≠ k) (occ : Nat) :
    planAt plan k occ = none := by
  unfold planAt
  rw [Option.map_eq_none_iff, List.find?_eq_none]
  intro f hf
  simp [h f hf]

/-- appending entries no fault of the plan names -/
theorem benignFrom_append_free {cx : Cx} {plan : List Fault} {n : Nat} {log : List String} :
    ∀ (ext : List String), (∀ k ∈ ext, ∀ f ∈ plan, f.key ≠ k) → BenignFrom cx plan n log →
      BenignFrom cx plan n (log ++ ext) := by
  intro ext
  induction ext using List.reverseRecOn with
  | nil => intro _ h; simpa using h
  | append_singleton ext k ih =>
    intro hfree h
    rw [← List.append_assoc]
    refine benignFrom_snoc_none (ih (fun k' hk' => hfree k' (by simp [hk'])) h) ?_
    exact planAt_none_of_no_key (hfree k (by simp)) _

/-- a fault fires exactly where a plan entry matches key and occurrence number -/
theorem planAt_isSome_iff (plan : List Fault) (k : String) (occ : Nat) :
    (planAt plan k occ).isSome = true ↔ ∃ f ∈ plan, f.key = k ∧ f.occ = occ := by
  unfold planAt
  rw [Option.isSome_map, List.find?_isSome]
  simp

/-- the event at a decomposition point: the entry there, with the plan's verdict for its occurrence number among the
    entries before -/
theorem events_at (plan : List Fault) (a : List String) (k : String) (b : List String) :
    events plan (a ++ k :: b) = events plan a ++ (k, planAt plan k (cnt a k)) :: eventsFrom plan (a ++ [k]) b := by
  rw [events_append]; rfl

/-! ### `foldOk` -/

theorem foldl_foldOk_false {α β} (f : β → α → β × Bool) :
    ∀ (xs : List α) (b : β), (xs.foldl (fun (acc : β × Bool) x => if acc.2 then f acc.1 x else acc) (b, false)) = (b, false)
  | [], _ => rfl
  | _ :: xs, b => by simp [List.foldl_cons, foldl_foldOk_false f xs b]

theorem foldOk_cons {α β} (x : α) (xs : List α) (init : β) (f : β → α → β × Bool) :
    foldOk (x :: xs) init f = if (f init x).2 then foldOk xs (f init x).1 f else ((f init x).1, false) := by
  unfold foldOk
  simp only [List.foldl_cons, if_true]
  split
  · rename_i h
    have : f init x = ((f init x).1, true) := by rw [← h]
    rw [this]
  · rename_i h
    have : f init x = ((f init x).1, false) := by
      have : (f init x).2 = false := by simpa using h
      rw [← this]
    rw [this, foldl_foldOk_false]

/-- invariant rule for `foldOk`: a run that ends with `true` made only successful steps -/
theorem foldOk_inv {α β} (P : β → Prop) (f : β → α → β × Bool) :
    ∀ (xs : List α) (init : β), P init → (∀ b, ∀ x ∈ xs, P b → (f b x).2 = true → P (f b x).1) →
      (foldOk xs init f).2 = true → P (foldOk xs init f).1
  | [], init, h0, _, _ => by simpa [foldOk] using h0
  | x :: xs, init, h0, hstep, hok => by
    rw [foldOk_cons] at hok ⊢
    split at hok
    · rename_i hx
      rw [if_pos hx]
      exact foldOk_inv P f xs _ (hstep init x (by simp) h0 hx) (fun b y hy => hstep b y (by simp [hy])) hok
    · simp at hok

end Asts.SYc
