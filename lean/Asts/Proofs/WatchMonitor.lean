import Mathlib.Tactic
import Asts.Proofs.Watch

/-! # The C20 monitor holds on the model of the repaired relay, for every script

`Sim m w` relates the books of the monitor (`Spec.M`) with the state of the model after the same prefix of a script, in each of
the three shapes a settled state can have: relay idle at the receive, relay holding an event for the consumer, relay gone. -/
namespace Asts.Watch
open Spec

def Good (m : Spec.M) : Prop := m.okRelay = true ∧ m.okProgress = true ∧ m.okStop = true ∧ m.okObs = true

inductive Sim : Spec.M → W → Prop
  | idle {m : Spec.M} {log gs : List Ev} :
      Good m → m.stopped = false → m.srcEnded = false → m.pending = none → m.got = log →
      m.sent.map Spec.expected = log →
      Sim m ⟨[], false, .recvWait, false, false, false, log, gs⟩
  | holding {m : Spec.M} {log gs : List Ev} {o : Ev} {q : List Ev} {c : Bool} :
      Good m → m.stopped = false → m.srcEnded = c → m.pending = q.head? → q.length ≤ 1 → (c = true → q = []) →
      m.got = log → m.sent.map Spec.expected = log ++ [o] →
      Sim m ⟨q, c, .sendWait o, false, false, false, log, gs⟩
  | gone {m : Spec.M} {log gs : List Ev} :
      Good m → (m.stopped || m.srcEnded) = true → m.pending = none → m.got = log →
      (∃ rest, m.sent.map Spec.expected = log ++ rest) → (m.stopped = false → m.sent.map Spec.expected = log) →
      Sim m ⟨[], true, .exited, true, true, false, log, gs⟩

theorem head_of_map_append {f : Ev → Ev} {sent log : List Ev} {o : Ev} (h : sent.map f = log ++ [o]) :
    (sent.drop log.length).head?.map f = some o := by
  obtain ⟨s1, s2, rfl, h1, h2⟩ := List.map_eq_append_iff.mp h
  have hl : log.length = s1.length := by rw [← h1]; simp
  rw [hl]
  cases s2 with
  | nil => simp at h2
  | cons x xs => simp at h2 ⊢; exact h2.1

theorem length_of_map_eq {f : Ev → Ev} {sent l : List Ev} (h : sent.map f = l) : sent.length = l.length := by
  rw [← h]; simp

macro "sim_defs" : tactic =>
  `(tactic| simp [sstep, act, settle, settleN, relayStep?, relayTake, recvObs, M.step, M.action, M.withdraw, M.idleCheck,
      M.recv, M.complete, M.inflight])

theorem sim_step {m : Spec.M} {w : W} (h : Sim m w) (a : SAct) :
    Sim (m.step a (sstep .fixed w m.nextId a).2) (sstep .fixed w m.nextId a).1 := by
  cases h with
  | idle hg hst hse hp hgot hsent =>
    rcases m with ⟨st, se, nid, sent, pend, got, okR, okP, okS, okO⟩
    obtain ⟨h1, h2, h3, h4⟩ := hg
    simp only at hst hse hp hgot hsent h1 h2 h3 h4
    subst hst hse hp hgot h1 h2 h3 h4
    have hl := length_of_map_eq hsent
    cases a with
    | send t p =>
      sim_defs
      exact Sim.holding (q := []) (c := false) ⟨rfl, rfl, rfl, rfl⟩ rfl rfl rfl (by simp) (by simp) rfl
        (by simp [hsent, convert_eq_expected])
    | close =>
      sim_defs
      exact Sim.gone ⟨rfl, rfl, rfl, rfl⟩ rfl rfl rfl ⟨[], by simp [hsent]⟩ (fun _ => hsent)
    | recv =>
      sim_defs
      simp only [hl, Nat.sub_self, beq_self_eq_true]
      exact Sim.idle ⟨rfl, rfl, rfl, rfl⟩ rfl rfl rfl rfl hsent
    | stop =>
      sim_defs
      exact Sim.gone ⟨rfl, rfl, rfl, rfl⟩ rfl rfl rfl ⟨[], by simp [hsent]⟩ (fun h => by simp at h)
  | holding hg hst hse hp hlen hcq hgot hsent =>
    rename_i log gs o q c
    rcases m with ⟨st, se, nid, sent, pend, got, okR, okP, okS, okO⟩
    obtain ⟨h1, h2, h3, h4⟩ := hg
    simp only at hst hse hp hgot hsent h1 h2 h3 h4
    subst hst hse hp hgot h1 h2 h3 h4
    have hl : sent.length = got.length + 1 := by have := length_of_map_eq hsent; simpa using this
    have hhead : Option.map expected sent[got.length]? = some o := by simpa using head_of_map_append hsent
    rcases q with _ | ⟨e, _ | ⟨e2, q2⟩⟩
    · -- nothing offered
      cases se
      · cases a with
        | send t p =>
          sim_defs
          simp only [hl]
          simp
          exact Sim.holding (q := [_]) (c := false) ⟨rfl, rfl, rfl, rfl⟩ rfl rfl rfl (by simp) (by simp) rfl hsent
        | close =>
          sim_defs
          exact Sim.holding (q := []) (c := true) ⟨rfl, rfl, rfl, rfl⟩ rfl rfl rfl (by simp) (by simp) rfl hsent
        | recv =>
          sim_defs
          simp only [hhead, beq_self_eq_true]
          exact Sim.idle ⟨rfl, rfl, rfl, rfl⟩ rfl rfl rfl rfl (by simp [hsent])
        | stop =>
          sim_defs
          exact Sim.gone ⟨rfl, rfl, rfl, rfl⟩ rfl rfl rfl ⟨[o], hsent⟩ (fun h => by simp at h)
      · cases a with
        | send t p =>
          sim_defs
          exact Sim.holding (q := []) (c := true) ⟨rfl, rfl, rfl, rfl⟩ rfl rfl rfl (by simp) (by simp) rfl hsent
        | close =>
          sim_defs
          exact Sim.holding (q := []) (c := true) ⟨rfl, rfl, rfl, rfl⟩ rfl rfl rfl (by simp) (by simp) rfl hsent
        | recv =>
          sim_defs
          simp only [hhead, beq_self_eq_true]
          exact Sim.gone ⟨rfl, rfl, rfl, rfl⟩ rfl rfl rfl ⟨[], by simp [hsent]⟩ (fun _ => by simp [hsent])
        | stop =>
          sim_defs
          exact Sim.gone ⟨rfl, rfl, rfl, rfl⟩ rfl rfl rfl ⟨[o], hsent⟩ (fun h => by simp at h)
    · -- one offer outstanding; the source is open
      have hc : se = false := by
        cases se
        · rfl
        · simp at hcq
      subst hc
      cases a with
      | send t p =>
        sim_defs
        simp only [hl]
        simp
        exact Sim.holding (q := [e]) (c := false) ⟨rfl, rfl, rfl, rfl⟩ rfl rfl rfl (by simp) (by simp) rfl hsent
      | close =>
        sim_defs
        exact Sim.holding (q := []) (c := true) ⟨rfl, rfl, rfl, rfl⟩ rfl rfl rfl (by simp) (by simp) rfl hsent
      | recv =>
        sim_defs
        simp only [hhead, beq_self_eq_true]
        exact Sim.holding (q := []) (c := false) ⟨rfl, rfl, rfl, rfl⟩ rfl rfl rfl (by simp) (by simp) rfl
          (by simp [hsent, convert_eq_expected])
      | stop =>
        sim_defs
        exact Sim.gone ⟨rfl, rfl, rfl, rfl⟩ rfl rfl rfl ⟨[o], hsent⟩ (fun h => by simp at h)
    · simp at hlen
  | gone hg hor hp hgot hpre hall =>
    rename_i log gs
    rcases m with ⟨st, se, nid, sent, pend, got, okR, okP, okS, okO⟩
    obtain ⟨h1, h2, h3, h4⟩ := hg
    simp only at hor hp hgot hpre hall h1 h2 h3 h4
    subst hp hgot h1 h2 h3 h4
    cases a with
    | send t p =>
      sim_defs
      have hor' : (se || st) = true := by cases st <;> cases se <;> simp_all
      simp only [hor']
      exact Sim.gone ⟨rfl, rfl, rfl, rfl⟩ hor rfl rfl hpre hall
    | close =>
      sim_defs
      exact Sim.gone ⟨rfl, rfl, rfl, rfl⟩ (by simp) rfl rfl hpre hall
    | recv =>
      sim_defs
      cases st
      · have hse : se = true := by simpa using hor
        subst hse
        have hl := length_of_map_eq (hall rfl)
        simp only [hl, Nat.sub_self, beq_self_eq_true, Bool.and_self, Bool.or_true]
        exact Sim.gone ⟨rfl, rfl, rfl, rfl⟩ (by simp) rfl rfl hpre hall
      · simp only [Bool.true_or]
        exact Sim.gone ⟨rfl, rfl, rfl, rfl⟩ (by simp) rfl rfl hpre hall
    | stop =>
      sim_defs
      exact Sim.gone ⟨rfl, rfl, rfl, rfl⟩ (by simp) rfl rfl hpre (fun h => by simp at h)

theorem step_nextId (m : Spec.M) (a : SAct) (r : SRes) :
    (m.step a r).nextId = if isSend a then m.nextId + 1 else m.nextId := by
  rcases r with ⟨res, took⟩
  rcases m with ⟨st, se, nid, sent, pend, got, okR, okP, okS, okO⟩
  cases a <;> cases res <;> cases took <;> cases pend <;>
    simp [M.step, M.action, M.withdraw, M.idleCheck, M.recv, M.complete, isSend]

theorem sstep_noPanic (v : Variant) (w : W) (id : Nat) (a : SAct) : (sstep v w id a).2.res ≠ .panic := by
  cases a
  case send t p =>
    simp only [sstep]
    split_ifs <;> simp
  case close => simp [sstep]
  case recv =>
    simp only [sstep, recvObs]
    split
    · simp
    · split_ifs <;> simp
  case stop => simp [sstep]

theorem sim_srun {m : Spec.M} {w : W} (h : Sim m w) (script : List SAct) :
    Sim (replay m script (srun .fixed w m.nextId script).2) (srun .fixed w m.nextId script).1 ∧
      noPanicRes (srun .fixed w m.nextId script).2 = true := by
  induction script generalizing m w with
  | nil => exact ⟨by simpa [srun, replay] using h, by simp [srun, noPanicRes]⟩
  | cons a as ih =>
    have hs := sim_step h a
    have hn := step_nextId m a (sstep .fixed w m.nextId a).2
    have ih' := ih hs
    rw [hn] at ih'
    have hp := sstep_noPanic .fixed w m.nextId a
    refine ⟨by simpa [srun, replay] using ih'.1, ?_⟩
    have := ih'.2
    simp only [noPanicRes, srun, List.all_cons, Bool.and_eq_true] at this ⊢
    exact ⟨by simpa using hp, this⟩

theorem sim_init : Sim {} (settle .fixed {}) :=
  Sim.idle (m := {}) (log := []) (gs := []) ⟨rfl, rfl, rfl, rfl⟩ rfl rfl rfl rfl rfl

/-- the verdict of the monitor on a final pair related by `Sim` -/
theorem sim_final {m : Spec.M} {w : W} (h : Sim m w) :
    (m.recv (recvObs w)).okRelay = true ∧ (m.recv (recvObs w)).okProgress = true ∧ (m.recv (recvObs w)).okStop = true ∧
      (m.recv (recvObs w)).okObs = true ∧ w.panicked = false ∧
      ((m.stopped || (m.srcEnded && m.inflight == 0)) = true → recvObs w = .closed ∧ w.pc = .exited) := by
  cases h with
  | idle hg hst hse hp hgot hsent =>
    rcases m with ⟨st, se, nid, sent, pend, got, okR, okP, okS, okO⟩
    obtain ⟨h1, h2, h3, h4⟩ := hg
    simp only at hst hse hp hgot hsent h1 h2 h3 h4
    subst hst hse hp hgot h1 h2 h3 h4
    have hl := length_of_map_eq hsent
    simp [recvObs, M.recv, M.inflight, hl]
  | holding hg hst hse hp hlen hcq hgot hsent =>
    rename_i log gs o q c
    rcases m with ⟨st, se, nid, sent, pend, got, okR, okP, okS, okO⟩
    obtain ⟨h1, h2, h3, h4⟩ := hg
    simp only at hst hse hp hgot hsent h1 h2 h3 h4
    subst hst hse hgot h1 h2 h3 h4
    have hl : sent.length = got.length + 1 := by have := length_of_map_eq hsent; simpa using this
    have hhead : Option.map expected sent[got.length]? = some o := by simpa using head_of_map_append hsent
    simp [recvObs, M.recv, M.inflight, hl]
    have hlt : got.length < sent.length := by omega
    rw [List.getElem?_eq_getElem hlt] at hhead
    simpa using hhead
  | gone hg hor hp hgot hpre hall =>
    rcases m with ⟨st, se, nid, sent, pend, got, okR, okP, okS, okO⟩
    obtain ⟨h1, h2, h3, h4⟩ := hg
    simp only at hor hp hgot hpre hall h1 h2 h3 h4
    subst hp hgot h1 h2 h3 h4
    cases st
    · have hse : se = true := by simpa using hor
      subst hse
      have hl := length_of_map_eq (hall rfl)
      simp [recvObs, M.recv, M.inflight, hl]
    · simp [recvObs, M.recv, M.inflight]

/-- every clause of the monitor is true on the model's observation of every script -/
theorem monitor_on_model (script : List SAct) : (Spec.monitor script (observe .fixed script)).all = true := by
  obtain ⟨hsim, hnp⟩ := sim_srun sim_init script
  obtain ⟨f1, f2, f3, f4, f5, f6⟩ := sim_final hsim
  simp only at hsim hnp f1 f2 f3 f4 f5 f6
  simp only [Spec.monitor, observe, Verdict.all]
  simp only [f1, f2, f3, f4, f5, hnp, Bool.not_false, Bool.and_self, Bool.true_and, Bool.and_true]
  by_cases hc : ((replay {} script (srun .fixed (settle .fixed {}) 0 script).2).stopped ||
      ((replay {} script (srun .fixed (settle .fixed {}) 0 script).2).srcEnded &&
        (replay {} script (srun .fixed (settle .fixed {}) 0 script).2).inflight == 0)) = true
  · obtain ⟨g1, g2⟩ := f6 hc
    simp [hc, g1, g2]
  · simp only [Bool.not_eq_true] at hc
    simp [hc]

/-! ## scripts are interleavings: every state a script visits is reachable in the transition system -/

theorem relayRun_exec {v : Variant} {w w' : W} {n : Nat} (h : RelayRun v w n w') :
    exec v w (List.replicate n .relayStep) = w' := by
  induction h with
  | done w => rfl
  | @step wa wb wc k hs _ ih =>
    have : act v wa .relayStep = wb := by simp [act, hs]
    simpa [exec, List.replicate_succ, this] using ih

theorem reachable_settle {v : Variant} {w : W} (h : Reachable v w) : Reachable v (settle v w) := by
  obtain ⟨k, hk⟩ := settle_run v w
  rw [← relayRun_exec hk]
  exact reachable_exec _ h

theorem reachable_sstep {v : Variant} {w : W} (h : Reachable v w) (id : Nat) (a : SAct) :
    Reachable v (sstep v w id a).1 := by
  cases a
  case send t p =>
    simp only [sstep]
    split_ifs
    · exact h
    · exact reachable_settle (reachable_act _ h)
    · exact reachable_settle (reachable_act _ h)
  case close => exact reachable_settle (reachable_act _ h)
  case recv => exact reachable_settle (reachable_act _ h)
  case stop => exact reachable_settle (reachable_act _ h)

theorem reachable_srun {v : Variant} {w : W} (h : Reachable v w) (id : Nat) (script : List SAct) :
    Reachable v (srun v w id script).1 := by
  induction script generalizing w id with
  | nil => exact h
  | cons a as ih => simpa [srun] using ih (reachable_sstep h id a) _

end Asts.Watch
