import Asts.Proofs.C02_Norm

/-! C02: the action list of a Parallel, fault-free reconcile, with the update walk made explicit. -/
namespace Asts.C02p
open Asts Asts.L1c

/-- the pod the update walk takes down: scanning from the top, the first pod that is not at the update revision (and not
    terminating), provided every pod before it is healthy -/
def walkFind (upd : String) : List (Int × Pod) → Option (Int × Pod)
  | [] => none
  | (t, p) :: rest =>
    if p.rev != upd && !p.terminating then some (t, p)
    else if !p.healthy then none
    else walkFind upd rest

def walkActs : Option (Int × Pod) → List Action
  | some (t, p) => [.delete t p.id .update]
  | none => []

theorem updateWalk_nil_eq (cur upd : String) (l : List (Int × Pod)) (s : St) :
    (updateWalk cur upd [] s l).1.acts = s.acts ++ walkActs (walkFind upd l) ∧ (updateWalk cur upd [] s l).2 = .ok := by
  induction l with
  | nil => simp [updateWalk, walkFind, walkActs]
  | cons ip rest ih =>
    obtain ⟨t, p⟩ := ip
    unfold updateWalk walkFind
    by_cases h1 : (p.rev != upd && !p.terminating) = true
    · simp only [h1, if_true, hit_nil, Bool.false_eq_true, if_false, walkActs, and_self]
    · simp only [h1, Bool.false_eq_true, if_false]
      by_cases h2 : (!p.healthy) = true
      · simp only [h2, if_true, walkActs, List.append_nil, and_self]
      · simp only [h2, Bool.false_eq_true, if_false]
        exact ih

/-- the slots the update walk looks at, top first -/
def walkList (v : SetView) (reps : List (Int × Pod)) : List (Int × Pod) :=
  (reps.filter (fun ip => partOf v ≤ ip.1)).reverse

/-- the walk's target for a whole reconcile -/
def walkTarget (v : SetView) (upd : String) (reps : List (Int × Pod)) : Option (Int × Pod) :=
  if v.strat == .onDelete then none else walkFind upd (walkList v reps)

theorem updateStage_nil_eq (v : SetView) (cur upd : String) (reps : List (Int × Pod)) (s : St) :
    (updateStage v cur upd [] reps s).1.acts = s.acts ++ walkActs (walkTarget v upd reps) ∧
    (updateStage v cur upd [] reps s).2 = .ok := by
  unfold updateStage walkTarget
  split_ifs
  · simp [walkActs]
  · exact updateWalk_nil_eq cur upd _ s

/-- **the actions of a Parallel, fault-free reconcile**, in order -/
theorem recon_acts (v : SetView) (cur upd : String) (pods : List Pod) (r : Int)
    (hr : v.replicas = some r) (hpar : v.parallel = true) (hdel : v.deleting = false)
    :
    (updateStatefulSet v cur upd pods []).1.acts =
      (repsOf v cur upd (maxReplicaAndSlots r v.slots).1 (maxReplicaAndSlots r v.slots).2 pods).flatMap (repActs1 v cur upd) ++
      condActs (condemnedOf (maxReplicaAndSlots r v.slots).1 (maxReplicaAndSlots r v.slots).2 pods).reverse ++
      walkActs (walkTarget v upd ((repsOf v cur upd (maxReplicaAndSlots r v.slots).1 (maxReplicaAndSlots r v.slots).2 pods).map
        (repNew v cur upd))) := by
  unfold updateStatefulSet
  cases hp : prepare v cur upd pods with
  | error e => obtain ⟨st, o⟩ := e; exact absurd hp (prepare_calm' v cur upd pods r hr st o)
  | ok p =>
    simp only [hdel, Bool.false_eq_true, if_false]
    obtain ⟨_, hreps, hcond, _, _⟩ := L1c.prepare_ok hr hp
    unfold runLoops
    simp only [hpar, Bool.not_true]
    obtain ⟨s1, h1, h2⟩ := replicaLoop_par v cur upd p.reps { status := p.st0 }
    rw [h1]; simp only
    obtain ⟨s2, h3, h4⟩ := condemnedLoop_par cur upd p.fu p.condemned.reverse s1
    rw [h3]; simp only
    rw [(updateStage_nil_eq v cur upd _ s2).1, h4, h2, hreps, hcond]
    simp

end Asts.C02p
