import Asts.Proofs.L1_b_Run

/-! # L1_b — C05: OrderedReady, one pod at a time, predecessors healthy, scale-in from the top -/
namespace Asts.L1b
open List

/-- ordinals of the create and delete actions (DESIGN Appendix C.2) -/
def cd : List Action → List Int
  | [] => []
  | .create o _ :: l => o :: cd l
  | .delete o _ _ :: l => o :: cd l
  | .update _ :: l => cd l

/-- all elements equal -/
def Same (l : List Int) : Prop := ∀ a ∈ l, ∀ b ∈ l, a = b

theorem mem_cd {l : List Action} {o : Int} : o ∈ cd l ↔ ∃ a ∈ l, a.isCD = true ∧ a.ord = o := by
  induction l with
  | nil => simp [cd]
  | cons a as ih =>
    cases a with
    | create o' r =>
      simp only [cd, List.mem_cons, ih]
      constructor
      · rintro (rfl | ⟨a, ha, h⟩)
        · exact ⟨_, Or.inl rfl, rfl, rfl⟩
        · exact ⟨a, Or.inr ha, h⟩
      · rintro ⟨a, rfl | ha, h1, h2⟩
        · left; exact h2.symm
        · right; exact ⟨a, ha, h1, h2⟩
    | delete o' id w =>
      simp only [cd, List.mem_cons, ih]
      constructor
      · rintro (rfl | ⟨a, ha, h⟩)
        · exact ⟨_, Or.inl rfl, rfl, rfl⟩
        · exact ⟨a, Or.inr ha, h⟩
      · rintro ⟨a, rfl | ha, h1, h2⟩
        · left; exact h2.symm
        · right; exact ⟨a, ha, h1, h2⟩
    | update o' =>
      simp only [cd, List.mem_cons, ih]
      constructor
      · rintro ⟨a, ha, h⟩
        exact ⟨a, Or.inr ha, h⟩
      · rintro ⟨a, rfl | ha, h1, h2⟩
        · cases h1
        · exact ⟨a, ha, h1, h2⟩

section
variable (v : SetView) (cur upd : String) (pods : List Pod) (f : Faults)

/-- what the clause proofs extract from a run in which an action occurred -/
theorem run_just (r : Int) (hr : v.replicas = some r) (h0 : 0 ≤ r) {a : Action}
    (ha : a ∈ (updateStatefulSet v cur upd pods f).1.acts) :
    ∃ P, PrepInv v cur upd pods (desired r v.slots) P ∧ (P.reps.map (·.1)).Pairwise (· < ·) ∧ v.deleting = false ∧
      (∀ a ∈ (updateStatefulSet v cur upd pods f).1.acts, Just v cur upd (!v.parallel) P a) ∧
      ((updateStatefulSet v cur upd pods f).1.acts.filter Action.isUpdDel).length ≤ 1 := by
  rcases updateStatefulSet_spec v cur upd pods f with h | ⟨P, hp, hd, hj, hc, _⟩
  · rw [h] at ha; simp at ha
  · exact ⟨P, prepare_inv hr h0 hp, prepare_sorted hp, hd, hj, hc⟩

/-- C05 clause 1 (model actions): under OrderedReady all creates and deletes of one reconcile target one ordinal.
    No hypothesis on the spec or the snapshot. -/
theorem C05_one_ordinal (hmono : v.parallel = false) :
    Same (cd (updateStatefulSet v cur upd pods f).1.acts) := by
  rcases updateStatefulSet_spec v cur upd pods f with h | ⟨P, _, _, _, _, h⟩
  · rw [h]; intro a ha; simp [cd] at ha
  · obtain ⟨i, hi⟩ := h hmono
    intro a ha b hb
    obtain ⟨x, hx, hx1, rfl⟩ := mem_cd.1 ha
    obtain ⟨y, hy, hy1, rfl⟩ := mem_cd.1 hb
    rw [hi x hx hx1, hi y hy hy1]

/-- C05 clause 1 as the monitor computes it on the observed actions -/
theorem C05_touched (hmono : v.parallel = false) :
    ((((observe (updateStatefulSet v cur upd pods f).1.acts).filter (fun a => a.isCreate || a.isDelete)).map
      OAct.ord).eraseDups).length ≤ 1 := by
  apply length_eraseDups_of_same
  have hsame := C05_one_ordinal v cur upd pods f hmono
  have hmem : ∀ o, o ∈ ((observe (updateStatefulSet v cur upd pods f).1.acts).filter
      (fun a => a.isCreate || a.isDelete)).map OAct.ord → o ∈ cd (updateStatefulSet v cur upd pods f).1.acts := by
    intro o ho
    simp only [observe, List.mem_map, List.mem_filter] at ho
    obtain ⟨a', ⟨⟨a, ha, rfl⟩, hcd⟩, rfl⟩ := ho
    rw [observe_isCD] at hcd
    rw [observe_ord]
    exact mem_cd.2 ⟨a, ha, hcd, rfl⟩
  intro a ha b hb
  exact hsame a (hmem a ha) b (hmem b hb)

variable (r : Int) (hr : v.replicas = some r) (h0 : 0 ≤ r) (hmono : v.parallel = false)
include hr h0 hmono

/-- C05 clause 2: a pod is created at `o` only when every desired ordinal below `o` holds a pod of the snapshot that is
    Running, Ready and not terminating. -/
theorem C05_create_pred {o : Int} {rev : String}
    (h : Action.create o rev ∈ (updateStatefulSet v cur upd pods f).1.acts) :
    ∀ i ∈ desired r v.slots, i < o → HealthyIn pods i := by
  obtain ⟨P, inv, hs, _, hj, _⟩ := run_just v cur upd pods f r hr h0 h
  have hm : (!v.parallel) = true := by simp [hmono]
  have hj' := hj _ h
  cases hj' with
  | create pre i p post rev e hrev hpre =>
    intro i hi hlt
    obtain ⟨x, hx, rfl⟩ := inv.exists_rep hi
    have hxp := mem_pre_of_lt hs e hx hlt
    exact inv.healthyIn hx (hpre hm x hxp)

/-- C05 clause 3: a scale-down delete at `o` happens only when every desired ordinal holds a healthy pod of the snapshot;
    its target is a pod of the snapshot outside the desired set, and no such pod has a higher ordinal. -/
theorem C05_scaleDown {o : Int} {id : Nat}
    (h : Action.delete o id .scaleDown ∈ (updateStatefulSet v cur upd pods f).1.acts) :
    (∀ i ∈ desired r v.slots, HealthyIn pods i) ∧
    (∃ c ∈ pods, c.ord = o ∧ c.id = id ∧ 0 ≤ o ∧ o ∉ desired r v.slots) ∧
    (∀ c ∈ pods, 0 ≤ c.ord → c.ord ∉ desired r v.slots → c.ord ≤ o) := by
  obtain ⟨P, inv, _, _, hj, _⟩ := run_just v cur upd pods f r hr h0 h
  have hm : (!v.parallel) = true := by simp [hmono]
  have hj' := hj _ h
  cases hj' with
  | scale c hc hmn =>
    obtain ⟨hall, hlast⟩ := hmn hm
    obtain ⟨c1, c2, c3⟩ := (inv.condMem c).1 hc
    refine ⟨inv.all_healthyIn hall, ⟨c, c1, rfl, rfl, c2, c3⟩, ?_⟩
    intro c' d1 d2 d3
    have hc' := (inv.condMem c').2 ⟨d1, d2, d3⟩
    rcases rel_last_of_pairwise inv.condSorted hlast c' hc' with rfl | hle
    · exact le_refl _
    · exact hle

/-- C05 clause 4: a pod is taken down for an update only when the snapshot holds no pod outside the desired set and every
    desired ordinal holds a healthy pod. -/
theorem C05_update {o : Int} {id : Nat}
    (h : Action.delete o id .update ∈ (updateStatefulSet v cur upd pods f).1.acts) :
    (∀ c ∈ pods, 0 ≤ c.ord → c.ord ∈ desired r v.slots) ∧ (∀ i ∈ desired r v.slots, HealthyIn pods i) := by
  obtain ⟨P, inv, _, _, hj, _⟩ := run_just v cur upd pods f r hr h0 h
  have hm : (!v.parallel) = true := by simp [hmono]
  have hj' := hj _ h
  cases hj' with
  | upd i p q hp hq hnf hod hpt hpost hmn =>
    obtain ⟨hnil, hall⟩ := hmn hm
    refine ⟨?_, inv.all_healthyIn hall⟩
    intro c d1 d2
    by_contra d3
    have hc := (inv.condMem c).2 ⟨d1, d2, d3⟩
    rw [hnil] at hc; simp at hc

omit hmono in
/-- how the monitors' snapshot-only classifier sees the deletes of the model: scale-down deletes are class `scale`,
    replacements of Failed/Succeeded pods class `replace`, deletes by the update walk class `update` -/
theorem classify_why (hids : IdsOk pods) {o : Int} {id : Nat} {why : Why}
    (h : Action.delete o id why ∈ (updateStatefulSet v cur upd pods f).1.acts) :
    classify (desired r v.slots) pods (Action.observe (.delete o id why)) = why.cls := by
  obtain ⟨P, inv, _, _, hj, _⟩ := run_just v cur upd pods f r hr h0 h
  exact classify_just inv hids (hj _ h)

/-- **C05** — the monitor is true on the model's output for every spec, snapshot and fault plan. -/
theorem C05_holds (hwf : wfSnapshot pods = true) (hids : IdsOk pods) :
    C05 v pods (observe (updateStatefulSet v cur upd pods f).1.acts) = true := by
  have hrep : replicasOf v = r := by simp [replicasOf, hr]
  unfold C05
  simp only [hrep]
  rw [Bool.and_eq_true]
  refine ⟨by simpa using C05_touched v cur upd pods f hmono, ?_⟩
  rw [List.all_eq_true]
  intro a ha
  simp only [observe, List.mem_map] at ha
  obtain ⟨a0, ha0, rfl⟩ := ha
  have hall : (∀ i ∈ desired r v.slots, HealthyIn pods i) → (desired r v.slots).all (healthyAt pods) = true := by
    intro hh
    rw [List.all_eq_true]
    exact fun i hi => healthyAt_of_healthyIn hwf (hh i hi)
  cases a0 with
  | create o rev =>
    simp only [Action.observe]
    rw [List.all_eq_true]
    intro i hi
    rw [List.mem_filter] at hi
    exact healthyAt_of_healthyIn hwf
      (C05_create_pred v cur upd pods f r hr h0 hmono ha0 i hi.1 (by simpa using hi.2))
  | update o => simp only [Action.observe]
  | delete o id why =>
    have hc := classify_why v cur upd pods f r hr h0 hids ha0
    simp only [Action.observe] at hc ⊢
    rw [hc]
    cases why with
    | replaceFailed => simp only [Why.cls]
    | scaleDown =>
      simp only [Why.cls]
      obtain ⟨k1, _, k3⟩ := C05_scaleDown v cur upd pods f r hr h0 hmono ha0
      rw [Bool.and_eq_true]
      refine ⟨hall k1, ?_⟩
      rw [List.all_eq_true]
      intro c hc
      simp only [condemnedSpec, List.mem_filter, Bool.and_eq_true, decide_eq_true_eq, Bool.not_eq_true'] at hc
      simpa using k3 c hc.1 hc.2.1 (by simpa using hc.2.2)
    | update =>
      simp only [Why.cls]
      obtain ⟨k1, k2⟩ := C05_update v cur upd pods f r hr h0 hmono ha0
      rw [Bool.and_eq_true]
      refine ⟨?_, hall k2⟩
      rw [List.isEmpty_iff]
      simp only [condemnedSpec, List.filter_eq_nil_iff]
      intro c hc
      simp only [Bool.and_eq_true, decide_eq_true_eq, Bool.not_eq_true', not_and]
      intro hge
      simpa using k1 c hc hge

end

theorem acts_nil_of_replicas_none (v : SetView) (cur upd : String) (pods : List Pod) (f : Faults)
    (h : v.replicas = none) : (updateStatefulSet v cur upd pods f).1.acts = [] := by
  unfold updateStatefulSet prepare
  rw [h]

/-- C05 with the replica count read as the monitor reads it (`replicasOf v`, 0 for a nil pointer) -/
theorem C05_holds_total (v : SetView) (cur upd : String) (pods : List Pod) (f : Faults)
    (h0 : 0 ≤ replicasOf v) (hmono : v.parallel = false) (hwf : wfSnapshot pods = true) (hids : IdsOk pods) :
    C05 v pods (observe (updateStatefulSet v cur upd pods f).1.acts) = true := by
  cases hr : v.replicas with
  | none => rw [acts_nil_of_replicas_none v cur upd pods f hr]; simp [C05, observe]
  | some r =>
    have : replicasOf v = r := by simp [replicasOf, hr]
    exact C05_holds v cur upd pods f r hr (this ▸ h0) hmono hwf hids

end Asts.L1b
