import Asts.Model.Sync
import Mathlib.Tactic

/-! # C09 (i), reconcile phase: a pod-control call that fails ends the reconcile with an error

`updateStatefulSet` is given the failing pod-control calls as `Faults` (verb, ordinal). Every action it performs is checked
against them at the moment it is issued: the reconcile ends `.ok` only if no performed action was hit, and ends `.err`
exactly when its *last* action was hit (all earlier ones were not). A panic performs no action. -/
namespace Asts.SYc

/-- is this pod-control call one of the failing ones? -/
def hitAct (f : Faults) : Action → Bool
  | .create o _ => f.hit 0 o
  | .delete o _ _ => f.hit 1 o
  | .update o => f.hit 2 o

def Clean (f : Faults) (l : List Action) : Prop := ∀ a ∈ l, hitAct f a = false

theorem clean_nil (f : Faults) : Clean f [] := by intro a h; cases h
theorem clean_append {f : Faults} {a b : List Action} (ha : Clean f a) (hb : Clean f b) : Clean f (a ++ b) := by
  intro x hx
  rcases List.mem_append.1 hx with h | h
  · exact ha x h
  · exact hb x h
theorem clean_single {f : Faults} {a : Action} (h : hitAct f a = false) : Clean f [a] := by
  intro x hx; simp only [List.mem_singleton] at hx; subst hx; exact h

/-- the loop goes on: what was appended was not hit -/
def GoodNext (f : Faults) (s s' : St) : Prop := ∃ l, s'.acts = s.acts ++ l ∧ Clean f l

/-- the loop ended: `.ok` with nothing hit, or `.err` with exactly the last appended action hit -/
def GoodRes (f : Faults) (s s' : St) (o : Outcome) : Prop :=
  (o = .ok ∧ ∃ l, s'.acts = s.acts ++ l ∧ Clean f l) ∨
  (o = .err ∧ ∃ l a, s'.acts = s.acts ++ l ++ [a] ∧ Clean f l ∧ hitAct f a = true)

def GoodCtl (f : Faults) (s : St) : Ctl → Prop
  | .next s' => GoodNext f s s'
  | .done s' o => GoodRes f s s' o

theorem goodNext_refl (f : Faults) (s : St) : GoodNext f s s := ⟨[], by simp, clean_nil f⟩

theorem goodNext_trans {f : Faults} {s s1 s2 : St} (h1 : GoodNext f s s1) (h2 : GoodNext f s1 s2) : GoodNext f s s2 := by
  obtain ⟨l1, e1, c1⟩ := h1
  obtain ⟨l2, e2, c2⟩ := h2
  exact ⟨l1 ++ l2, by rw [e2, e1, List.append_assoc], clean_append c1 c2⟩

theorem goodRes_trans {f : Faults} {s s1 s2 : St} {o : Outcome} (h1 : GoodNext f s s1) (h2 : GoodRes f s1 s2 o) :
    GoodRes f s s2 o := by
  obtain ⟨l1, e1, c1⟩ := h1
  rcases h2 with ⟨ho, l2, e2, c2⟩ | ⟨ho, l2, a, e2, c2, ha⟩
  · exact Or.inl ⟨ho, l1 ++ l2, by rw [e2, e1, List.append_assoc], clean_append c1 c2⟩
  · exact Or.inr ⟨ho, l1 ++ l2, a, by rw [e2, e1]; simp, clean_append c1 c2, ha⟩

theorem goodCtl_trans {f : Faults} {s s1 : St} {c : Ctl} (h1 : GoodNext f s s1) (h2 : GoodCtl f s1 c) : GoodCtl f s c := by
  cases c with
  | next s' => exact goodNext_trans h1 h2
  | done s' o => exact goodRes_trans h1 h2

theorem goodRes_ok_refl (f : Faults) (s : St) : GoodRes f s s .ok := Or.inl ⟨rfl, [], by simp, clean_nil f⟩

theorem goodRes_err_of {f : Faults} {s s' : St} {a : Action} (hacts : s'.acts = s.acts ++ [a])
    (h : hitAct f a = true) : GoodRes f s s' .err :=
  Or.inr ⟨rfl, [], a, by simpa using hacts, clean_nil f, h⟩

theorem goodNext_of {f : Faults} {s s' : St} {a : Action} (hacts : s'.acts = s.acts ++ [a])
    (h : hitAct f a = false) : GoodNext f s s' := ⟨[a], hacts, clean_single h⟩

theorem goodRes_ok_of {f : Faults} {s s' : St} {a : Action} (hacts : s'.acts = s.acts ++ [a])
    (h : hitAct f a = false) : GoodRes f s s' .ok := Or.inl ⟨rfl, [a], hacts, clean_single h⟩

theorem replaceFailed_good (v : SetView) (cur upd : String) (f : Faults) (s : St) (i : Int) (p0 : Pod) :
    (∀ s' o, replaceFailed v cur upd f s i p0 = .error (s', o) → GoodRes f s s' o) ∧
    (∀ s' p, replaceFailed v cur upd f s i p0 = .ok (s', p) → GoodNext f s s') := by
  unfold replaceFailed
  by_cases h1 : (p0.failed || p0.succeeded) = true
  · by_cases h2 : f.hit 1 i = true
    · simp only [h1, h2, if_true]
      refine ⟨?_, (by intro s' p h; cases h)⟩
      intro s' o h
      simp only [Except.error.injEq, Prod.mk.injEq] at h
      obtain ⟨rfl, rfl⟩ := h
      exact goodRes_err_of rfl (by simpa [hitAct] using h2)
    · simp only [h1, h2, if_true, Bool.false_eq_true, if_false]
      refine ⟨(by intro s' o h; cases h), ?_⟩
      intro s' p h
      simp only [Except.ok.injEq, Prod.mk.injEq] at h
      obtain ⟨rfl, _⟩ := h
      exact goodNext_of rfl (by simpa [hitAct] using h2)
  · simp only [h1, Bool.false_eq_true, if_false]
    refine ⟨(by intro s' o h; cases h), ?_⟩
    intro s' p h
    simp only [Except.ok.injEq, Prod.mk.injEq] at h
    obtain ⟨rfl, _⟩ := h
    exact goodNext_refl f _

theorem ensurePod_good (cur upd : String) (f : Faults) (mono : Bool) (s : St) (i : Int) (p : Pod) :
    GoodCtl f s (ensurePod cur upd f mono s i p) := by
  unfold ensurePod
  split_ifs with h1 h2 h3 h4 h5 h6 h7
  · exact goodRes_err_of rfl (by simpa [hitAct] using h2)
  · exact goodRes_ok_of rfl (by simpa [hitAct] using h2)
  · exact goodNext_of rfl (by simpa [hitAct] using h2)
  · exact goodRes_ok_refl f s
  · exact goodRes_ok_refl f s
  · exact goodNext_refl f s
  · exact goodRes_err_of rfl (by simpa [hitAct] using h7)
  · exact goodNext_of rfl (by simpa [hitAct] using h7)

theorem replicaStep_good (v : SetView) (cur upd : String) (f : Faults) (mono : Bool) (s : St) (i : Int) (p0 : Pod) :
    GoodCtl f s (replicaStep v cur upd f mono s i p0).1 := by
  unfold replicaStep
  have h := replaceFailed_good v cur upd f s i p0
  cases hr : replaceFailed v cur upd f s i p0 with
  | error e =>
    obtain ⟨s', o⟩ := e
    exact h.1 s' o hr
  | ok r =>
    obtain ⟨s', p⟩ := r
    exact goodCtl_trans (h.2 s' p hr) (ensurePod_good cur upd f mono s' i p)

theorem replicaLoop_good (v : SetView) (cur upd : String) (f : Faults) (mono : Bool) :
    ∀ (reps : List (Int × Pod)) (s : St), GoodCtl f s (replicaLoop v cur upd f mono s reps).1
  | [], s => goodNext_refl f s
  | (i, p) :: rest, s => by
    unfold replicaLoop
    have h := replicaStep_good v cur upd f mono s i p
    cases hr : replicaStep v cur upd f mono s i p with
    | mk c p' =>
      rw [hr] at h
      cases c with
      | next s' =>
        simp only
        exact goodCtl_trans h (replicaLoop_good v cur upd f mono rest s')
      | done s' o => exact h

theorem condemnedLoop_good (cur upd : String) (f : Faults) (mono : Bool) (fu : Option Pod) :
    ∀ (cs : List Pod) (s : St), GoodCtl f s (condemnedLoop cur upd f mono fu s cs)
  | [], s => goodNext_refl f s
  | c :: rest, s => by
    unfold condemnedLoop
    split_ifs with h1 h2 h3 h4 h5
    · exact goodRes_ok_refl f s
    · exact condemnedLoop_good cur upd f mono fu rest s
    · exact goodRes_ok_refl f s
    · exact goodRes_err_of rfl (by simpa [hitAct] using h4)
    · exact goodRes_ok_of rfl (by simpa [hitAct] using h4)
    · exact goodCtl_trans (goodNext_of rfl (by simpa [hitAct] using h4))
        (condemnedLoop_good cur upd f mono fu rest _)

theorem updateWalk_good (cur upd : String) (f : Faults) :
    ∀ (l : List (Int × Pod)) (s : St), GoodRes f s (updateWalk cur upd f s l).1 (updateWalk cur upd f s l).2
  | [], s => goodRes_ok_refl f s
  | (t, p) :: rest, s => by
    unfold updateWalk
    by_cases h1 : (p.rev != upd && !p.terminating) = true
    · simp only [h1, if_true]
      by_cases h2 : f.hit 1 t = true
      · simp only [h2, if_true]
        exact goodRes_err_of rfl (by simpa [hitAct] using h2)
      · simp only [h2, Bool.false_eq_true, if_false]
        exact goodRes_ok_of rfl (by simpa [hitAct] using h2)
    · simp only [h1, Bool.false_eq_true, if_false]
      split_ifs
      · exact goodRes_ok_refl f s
      · exact updateWalk_good cur upd f rest s

theorem runLoops_good (v : SetView) (cur upd : String) (f : Faults) (p : Prepared) :
    GoodRes f { status := p.st0 } (runLoops v cur upd f p).1 (runLoops v cur upd f p).2 := by
  unfold runLoops
  simp only
  have h1 := replicaLoop_good v cur upd f (!v.parallel) p.reps { status := p.st0 }
  cases hr : replicaLoop v cur upd f (!v.parallel) { status := p.st0 } p.reps with
  | mk c reps =>
    rw [hr] at h1
    cases c with
    | done s o => exact h1
    | next s =>
      simp only
      have h2 := condemnedLoop_good cur upd f (!v.parallel) p.fu p.condemned.reverse s
      cases hc : condemnedLoop cur upd f (!v.parallel) p.fu s p.condemned.reverse with
      | done s' o => rw [hc] at h2; exact goodRes_trans h1 h2
      | next s' =>
        rw [hc] at h2
        simp only
        refine goodRes_trans (goodNext_trans h1 h2) ?_
        unfold updateStage
        split_ifs
        · exact goodRes_ok_refl f s'
        · exact updateWalk_good cur upd f _ s'

/-- **the reconcile and its failing calls**: `.ok` means no performed action was hit; `.err` means exactly the last one was;
    a panic happens before any action. -/
theorem updateStatefulSet_hits (v : SetView) (cur upd : String) (pods : List Pod) (f : Faults) :
    match (updateStatefulSet v cur upd pods f).2 with
    | .ok => Clean f (updateStatefulSet v cur upd pods f).1.acts
    | .err => ∃ l a, (updateStatefulSet v cur upd pods f).1.acts = l ++ [a] ∧ Clean f l ∧ hitAct f a = true
    | .panic _ => (updateStatefulSet v cur upd pods f).1.acts = [] := by
  unfold updateStatefulSet
  cases hp : prepare v cur upd pods with
  | error e =>
    obtain ⟨st, o⟩ := e
    simp only
    have : ∃ site, o = .panic site := by
      unfold prepare at hp
      cases hr : v.replicas with
      | none => rw [hr] at hp; simp only [Except.error.injEq, Prod.mk.injEq] at hp; exact ⟨_, hp.2.symm⟩
      | some r =>
        rw [hr] at hp; simp only at hp
        split_ifs at hp
        simp only [Except.error.injEq, Prod.mk.injEq] at hp; exact ⟨_, hp.2.symm⟩
    obtain ⟨site, rfl⟩ := this
    simp only
  | ok p =>
    simp only
    split_ifs with hd
    · exact clean_nil f
    · have h := runLoops_good v cur upd f p
      rcases h with ⟨ho, l, e, c⟩ | ⟨ho, l, a, e, c, ha⟩
      · rw [ho]; simp only at e ⊢; rw [e]; simpa using c
      · rw [ho]; simp only at e ⊢; exact ⟨l, a, by rw [e]; simp, c, ha⟩

/-- a pod-control call that was hit makes the reconcile end `.err` -/
theorem updateStatefulSet_hit_err (v : SetView) (cur upd : String) (pods : List Pod) (f : Faults) (a : Action)
    (ha : a ∈ (updateStatefulSet v cur upd pods f).1.acts) (hh : hitAct f a = true) :
    (updateStatefulSet v cur upd pods f).2 = .err := by
  have h := updateStatefulSet_hits v cur upd pods f
  cases ho : (updateStatefulSet v cur upd pods f).2 with
  | ok => rw [ho] at h; simp only at h; have := h a ha; rw [hh] at this; cases this
  | err => rfl
  | panic site => rw [ho] at h; simp only at h; rw [h] at ha; cases ha

/-- and conversely an `.err` outcome comes from a hit, on the very last action -/
theorem updateStatefulSet_err_hit (v : SetView) (cur upd : String) (pods : List Pod) (f : Faults)
    (he : (updateStatefulSet v cur upd pods f).2 = .err) :
    ∃ l a, (updateStatefulSet v cur upd pods f).1.acts = l ++ [a] ∧ Clean f l ∧ hitAct f a = true := by
  have h := updateStatefulSet_hits v cur upd pods f
  rw [he] at h; exact h

/-- no failing call, no error -/
theorem updateStatefulSet_nofault (v : SetView) (cur upd : String) (pods : List Pod) (f : Faults)
    (hf : ∀ a ∈ (updateStatefulSet v cur upd pods f).1.acts, hitAct f a = false) :
    (updateStatefulSet v cur upd pods f).2 ≠ .err := by
  intro he
  obtain ⟨l, a, e, _, ha⟩ := updateStatefulSet_err_hit v cur upd pods f he
  have := hf a (by rw [e]; simp)
  rw [ha] at this; cases this

end Asts.SYc
