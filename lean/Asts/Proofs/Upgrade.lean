import Mathlib.Tactic
import Asts.Spec.Upgrade

/-! Lemmas for C17 (the upgrade helper): what a run can do to the stored revisions (`Reach`), that a fault-free run
    normalises every reachable state to the same final state, and that a delete of the built-in set is only ever issued
    from a safe state. -/
namespace Asts.Upgrade
open List

/-! ## labels -/

theorem relabel_idem (p : Params) (l : Labels) : relabel p (relabel p l) = relabel p l := by
  simp [relabel, List.filter_filter]

theorem lookup_marker_relabel (p : Params) (l : Labels) : lookup marker (relabel p l) = some p.name := by
  simp [lookup, relabel]

theorem lookup_relabel_none (p : Params) (l : Labels) (k : String) (hk : p.sel.ml.any (·.1 == k) = true) (hm : k ≠ marker) :
    lookup k (relabel p l) = none := by
  simp only [lookup, relabel, Option.map_eq_none_iff, List.find?_eq_none]
  intro kv hkv
  rcases List.mem_cons.1 hkv with rfl | hkv
  · simpa using fun h => hm h.symm
  · have := (List.mem_filter.1 hkv).2
    intro hk'
    have hk'' : kv.1 = k := by simpa using hk'
    subst hk''
    simp [hk] at this

/-! ## what runs can do to the stored revisions -/

/-- the helper panics on this revision (before any call is made for it) -/
def panics (p : Params) (r : Rev) : Bool := r.selected p && p.sel.isNil

/-- a stored revision is either what it was or the relabelled form of a selected revision -/
def Rel (p : Params) (r0 r : Rev) : Prop :=
  r = r0 ∨ (r0.selected p = true ∧ r = relabelRev p r0 (r0.labels.getD []))

/-- revisions stored after any number of (interrupted) runs, relative to the revisions stored at entry: nothing behind a
    revision the helper panics on is ever touched -/
inductive Reach (p : Params) : List Rev → List Rev → Prop
  | nil : Reach p [] []
  | stuck (r : Rev) (rest : List Rev) : panics p r = true → Reach p (r :: rest) (r :: rest)
  | cons {r0 r : Rev} {rest0 rest : List Rev} : panics p r0 = false → Rel p r0 r → Reach p rest0 rest → Reach p (r0 :: rest0) (r :: rest)

theorem reach_refl (p : Params) : ∀ l, Reach p l l
  | [] => .nil
  | r :: rest => by
    by_cases h : panics p r = true
    · exact .stuck r rest h
    · exact .cons (by simpa using h) (Or.inl rfl) (reach_refl p rest)

theorem revOne_panics {p : Params} {r : Rev} (inj : Nat → Inj) (idx : Nat) (hs : r.selected p = true) (hp : panics p r = true) :
    revOne p inj idx r = .stop r false .panic := by
  unfold revOne
  simp only [panics, hs, Bool.true_and] at hp
  simp [hp]

/-- the helper does not panic on a selected revision exactly when the selector is not nil -/
theorem isNil_of_not_panics {p : Params} {r : Rev} (hs : r.selected p = true) (hp : panics p r = false) : p.sel.isNil = false := by
  simpa [panics, hs] using hp

theorem revOne_ok {p : Params} (r : Rev) (inj : Nat → Inj) (idx : Nat) (hn : p.sel.isNil = false) :
    revOne p inj idx r = match inj idx with
      | .crash => .stop r false .crash
      | .err k applied => .stop (if applied then relabelRev p r (r.labels.getD []) else r) true (.err k)
      | .none => .go (relabelRev p r (r.labels.getD [])) := by
  unfold revOne
  simp only [hn]
  cases inj idx <;> simp

theorem reach_revLoop (p : Params) (inj : Nat → Inj) : ∀ (revs : List Rev) (idx : Nat), Reach p revs (revLoop p inj idx revs).revs
  | [], idx => by simp [revLoop]; exact .nil
  | r :: rest, idx => by
    unfold revLoop
    by_cases hs : r.selected p = true
    · simp only [hs, if_true]
      by_cases hp : panics p r = true
      · rw [revOne_panics inj idx hs hp]
        exact .stuck r rest hp
      · have hp' : panics p r = false := by simpa using hp
        have hn := isNil_of_not_panics hs hp'
        rw [revOne_ok r inj idx hn]
        cases inj idx with
        | none => exact .cons hp' (Or.inr ⟨hs, rfl⟩) (reach_revLoop p inj rest (idx + 1))
        | crash => exact reach_refl p _
        | err k applied =>
          refine .cons hp' ?_ (reach_refl p rest)
          cases applied
          · exact Or.inl rfl
          · exact Or.inr ⟨hs, rfl⟩
    · simp only [hs]
      have hp' : panics p r = false := by simp [panics, hs]
      exact .cons hp' (Or.inl rfl) (reach_revLoop p inj rest idx)

theorem selected_nil_sel {p : Params} (r : Rev) (hn : p.sel.isNil = true) : r.selected p = true := by
  simp [Rev.selected, selMatches, hn]

theorem rel_not_panics {p : Params} {r0 r : Rev} (hp : panics p r0 = false) (h : Rel p r0 r) : panics p r = false := by
  rcases h with rfl | ⟨hs, rfl⟩
  · exact hp
  · have hn := isNil_of_not_panics hs hp
    simp [panics, hn]

theorem rel_trans {p : Params} {r0 r r' : Rev} (h1 : Rel p r0 r) (h2 : Rel p r r') : Rel p r0 r' := by
  rcases h1 with rfl | ⟨hs, rfl⟩
  · exact h2
  · rcases h2 with rfl | ⟨_, rfl⟩
    · exact Or.inr ⟨hs, rfl⟩
    · refine Or.inr ⟨hs, ?_⟩
      simp [relabelRev, relabel_idem]

theorem reach_trans {p : Params} {a b : List Rev} (h1 : Reach p a b) : ∀ {c}, Reach p b c → Reach p a c := by
  induction h1 with
  | nil => intro c h2; exact h2
  | stuck r rest hp =>
    intro c h2
    cases h2 with
    | stuck _ _ _ => exact .stuck r rest hp
    | cons hp' _ _ => simp [hp] at hp'
  | cons hp hrel _ ih =>
    intro c h2
    cases h2 with
    | stuck _ _ hp2 => simp [rel_not_panics hp hrel] at hp2
    | cons _ hrel2 hrest2 => exact .cons hp (rel_trans hrel hrel2) (ih hrest2)

theorem reach_names {p : Params} {a b : List Rev} (h : Reach p a b) : b.map (·.name) = a.map (·.name) := by
  induction h with
  | nil => rfl
  | stuck _ _ _ => rfl
  | cons _ hrel _ ih =>
    rcases hrel with rfl | ⟨_, rfl⟩ <;> simp [relabelRev, ih]

/-! ## the fault-free loop -/

/-- what the fault-free loop makes of one revision it does not panic on -/
def normRev (p : Params) (r : Rev) : Rev :=
  if r.selected p then relabelRev p r (r.labels.getD []) else r

/-- the revisions after a fault-free loop, and whether the helper panicked in it -/
def normRevs (p : Params) : List Rev → List Rev × Bool
  | [] => ([], false)
  | r :: rest => if panics p r then (r :: rest, true) else (normRev p r :: (normRevs p rest).1, (normRevs p rest).2)

theorem revLoop_noInj (p : Params) : ∀ (l : List Rev) (i : Nat),
    (revLoop p noInj i l).revs = (normRevs p l).1 ∧ (revLoop p noInj i l).out = if (normRevs p l).2 then some .panic else none
  | [], i => by simp [revLoop, normRevs]
  | r :: rest, i => by
    unfold revLoop normRevs
    by_cases hs : r.selected p = true
    · simp only [hs, if_true]
      by_cases hp : panics p r = true
      · rw [revOne_panics noInj i hs hp]
        simp [hp]
      · have hp' : panics p r = false := by simpa using hp
        have hn := isNil_of_not_panics hs hp'
        rw [revOne_ok r noInj i hn]
        have ih := revLoop_noInj p rest (i + 1)
        simp [noInj, hp', normRev, hs, ih.1, ih.2]
    · have hp' : panics p r = false := by simp [panics, hs]
      have ih := revLoop_noInj p rest i
      simp [hs, hp', normRev, ih.1, ih.2]

theorem normRev_rel {p : Params} {r0 r : Rev} (h : Rel p r0 r) : normRev p r = normRev p r0 := by
  rcases h with rfl | ⟨hs, rfl⟩
  · rfl
  · simp only [normRev, hs, if_true]
    by_cases h' : (relabelRev p r0 (r0.labels.getD [])).selected p = true
    · simp [relabelRev, relabel_idem]
    · simp [h']

theorem normRevs_reach {p : Params} {a b : List Rev} (h : Reach p a b) : normRevs p b = normRevs p a := by
  induction h with
  | nil => rfl
  | stuck _ _ _ => rfl
  | cons hp hrel _ ih => simp [normRevs, hp, rel_not_panics hp hrel, normRev_rel hrel, ih]

/-! ## the Advanced StatefulSet phase -/

/-- the Advanced StatefulSet a fault-free run leaves behind -/
def normAs (p : Params) : Option ASts → ASts
  | none => ⟨0, p.spec, p.status⟩
  | some a => { a with spec := p.spec, status := p.status }

/-- what the phase after the loop may change: nothing but the built-in set's presence and the Advanced StatefulSet, and the
    latter only towards its normal form -/
def Same (p : Params) (w w' : World2) : Prop :=
  w'.revs = w.revs ∧ w'.pods = w.pods ∧ w'.claims = w.claims ∧ normAs p w'.asts = normAs p w.asts

theorem Same.refl (p : Params) (w : World2) : Same p w w := ⟨rfl, rfl, rfl, rfl⟩

theorem Same.trans {p : Params} {a b c : World2} (h1 : Same p a b) (h2 : Same p b c) : Same p a c :=
  ⟨h2.1.trans h1.1, h2.2.1.trans h1.2.1, h2.2.2.1.trans h1.2.2.1, h2.2.2.2.trans h1.2.2.2⟩

theorem asDelete_same (p : Params) (inj : Nat → Inj) (idx : Nat) (w : World2) : Same p w (asDelete inj idx w).w := by
  unfold asDelete call deleteNative
  cases inj idx with
  | none => by_cases hs : w.sts = true <;> simp [hs, Same]
  | crash => exact Same.refl p w
  | err k applied => cases applied <;> by_cases hs : w.sts = true <;> simp [hs, Same]

theorem asStatus_same (p : Params) (inj : Nat → Inj) (idx : Nat) (w : World2) : Same p w (asStatus p inj idx w).w := by
  unfold asStatus call statusNative
  cases inj idx with
  | crash => exact Same.refl p w
  | err k applied => cases applied <;> cases ha : w.asts <;> simp [ha, Same, normAs]
  | none =>
    cases ha : w.asts with
    | none => simp [Same, ha]
    | some a =>
      simp only []
      refine Same.trans ?_ (asDelete_same p inj (idx + 1) _)
      simp [Same, normAs, ha]

theorem asWrite_same (p : Params) (inj : Nat → Inj) (idx : Nat) (w : World2) (nf : Bool) : Same p w (asWrite p inj idx w nf).w := by
  unfold asWrite call createNative updateNative
  cases inj idx with
  | crash => exact Same.refl p w
  | err k applied => cases applied <;> cases nf <;> cases ha : w.asts <;> simp [ha, Same, normAs]
  | none =>
    cases nf <;> cases ha : w.asts <;> simp only [] <;>
      first
      | (simp [Same, ha]; done)
      | (refine Same.trans ?_ (asStatus_same p inj (idx + 1) _); simp [Same, normAs, ha])

theorem asGet_same (p : Params) (inj : Nat → Inj) (idx : Nat) (w : World2) : Same p w (asGet p inj idx w).w := by
  unfold asGet
  cases inj idx with
  | crash => exact Same.refl p w
  | err k applied =>
    by_cases hk : k = .notFound
    · simp only [hk, if_true]; exact asWrite_same p inj (idx + 1) w true
    · simp only [hk, if_false]; exact Same.refl p w
  | none => exact asWrite_same p inj (idx + 1) w _

/-! ## whole runs -/

/-- if the fault-free loop panics on these revisions then every loop, whatever is injected, ends the run -/
theorem loop_stuck (p : Params) (inj : Nat → Inj) : ∀ (l : List Rev) (i : Nat), (normRevs p l).2 = true → (revLoop p inj i l).out ≠ none
  | [], i => by simp [normRevs]
  | r :: rest, i => by
    intro h
    unfold normRevs at h
    unfold revLoop
    by_cases hs : r.selected p = true
    · simp only [hs, if_true]
      by_cases hp : panics p r = true
      · rw [revOne_panics inj i hs hp]; simp
      · have hp' : panics p r = false := by simpa using hp
        have hn := isNil_of_not_panics hs hp'
        rw [revOne_ok r inj i hn]
        simp only [hp', Bool.false_eq_true, if_false] at h
        cases inj i with
        | none => exact loop_stuck p inj rest (i + 1) h
        | crash => simp
        | err k applied => simp
    · have hp' : panics p r = false := by simp [panics, hs]
      simp only [hp', Bool.false_eq_true, if_false] at h
      simp only [hs]
      exact loop_stuck p inj rest i h

/-- the stored state after any number of (interrupted) runs, relative to the state `w0` at entry -/
structure WReach (p : Params) (w0 w : World2) : Prop where
  revs : Reach p w0.revs w.revs
  pods : w.pods = w0.pods
  claims : w.claims = w0.claims
  asts : normAs p w.asts = normAs p w0.asts
  frozen : (normRevs p w0.revs).2 = true → w.asts = w0.asts ∧ w.sts = w0.sts

theorem WReach.refl (p : Params) (w : World2) : WReach p w w :=
  ⟨reach_refl p _, rfl, rfl, rfl, fun _ => ⟨rfl, rfl⟩⟩

theorem WReach.trans {p : Params} {a b c : World2} (h1 : WReach p a b) (h2 : WReach p b c) : WReach p a c where
  revs := reach_trans h1.revs h2.revs
  pods := h2.pods.trans h1.pods
  claims := h2.claims.trans h1.claims
  asts := h2.asts.trans h1.asts
  frozen := fun h => by
    have hb := h1.frozen h
    have hc := h2.frozen (by rw [normRevs_reach h1.revs]; exact h)
    exact ⟨hc.1.trans hb.1, hc.2.trans hb.2⟩

theorem run_selectorError {p : Params} (inj : Nat → Inj) (w : World2) (h : selectorError p.sel = true) :
    run p inj w = ⟨w, [], .err .other⟩ := by
  simp [run, h]

theorem revPhase_stop {p : Params} {inj : Nat → Inj} {w : World2} {o : Outcome} (h : (revLoop p inj 1 w.revs).out = some o) :
    revPhase p inj w = ⟨{ w with revs := (revLoop p inj 1 w.revs).revs }, (revLoop p inj 1 w.revs).trace, o⟩ := by
  simp [revPhase, h]

theorem revPhase_go {p : Params} {inj : Nat → Inj} {w : World2} (h : (revLoop p inj 1 w.revs).out = none) :
    revPhase p inj w =
      ⟨(asGet p inj (revLoop p inj 1 w.revs).idx { w with revs := (revLoop p inj 1 w.revs).revs }).w,
       (revLoop p inj 1 w.revs).trace ++ (asGet p inj (revLoop p inj 1 w.revs).idx { w with revs := (revLoop p inj 1 w.revs).revs }).trace,
       (asGet p inj (revLoop p inj 1 w.revs).idx { w with revs := (revLoop p inj 1 w.revs).revs }).out⟩ := by
  simp [revPhase, h]

theorem revPhase_reach (p : Params) (inj : Nat → Inj) (w : World2) : WReach p w (revPhase p inj w).w := by
  cases ho : (revLoop p inj 1 w.revs).out with
  | some o =>
    rw [revPhase_stop ho]
    exact ⟨reach_revLoop p inj _ _, rfl, rfl, rfl, fun _ => ⟨rfl, rfl⟩⟩
  | none =>
    rw [revPhase_go ho]
    have hs := asGet_same p inj (revLoop p inj 1 w.revs).idx { w with revs := (revLoop p inj 1 w.revs).revs }
    refine ⟨?_, hs.2.1, hs.2.2.1, hs.2.2.2, fun h => absurd ho (loop_stuck p inj _ _ h)⟩
    show Reach p w.revs (asGet p inj _ _).w.revs
    rw [hs.1]
    exact reach_revLoop p inj _ _

theorem run_reach (p : Params) (inj : Nat → Inj) (w : World2) : WReach p w (run p inj w).w := by
  unfold run
  by_cases he : selectorError p.sel = true
  · simp only [he, if_true]; exact WReach.refl p w
  · simp only [he]
    cases inj 0 with
    | crash => exact WReach.refl p w
    | err k applied => exact WReach.refl p w
    | none => exact revPhase_reach p inj w

theorem runs_reach (p : Params) : ∀ (injs : List (Nat → Inj)) (w : World2), WReach p w (runs p w injs).1
  | [], w => WReach.refl p w
  | inj :: rest, w => by
    unfold runs
    exact (run_reach p inj w).trans (runs_reach p rest _)

/-! ## the fault-free run, and recoverability -/

theorem asGet_noInj (p : Params) (i : Nat) (w : World2) :
    (asGet p noInj i w).w = { w with sts := false, asts := some (normAs p w.asts) } ∧ (asGet p noInj i w).out = .ok := by
  unfold asGet asWrite asStatus asDelete call createNative updateNative statusNative deleteNative
  cases w.asts <;> by_cases hs : w.sts = true <;> simp [noInj, hs, normAs]

/-- the state a fault-free run ends in -/
def normWorld (p : Params) (w : World2) : World2 :=
  if selectorError p.sel then w
  else if (normRevs p w.revs).2 then { w with revs := (normRevs p w.revs).1 }
  else { sts := false, revs := (normRevs p w.revs).1, asts := some (normAs p w.asts), pods := w.pods, claims := w.claims }

/-- the outcome of a fault-free run -/
def normOut (p : Params) (w : World2) : Outcome :=
  if selectorError p.sel then .err .other else if (normRevs p w.revs).2 then .panic else .ok

theorem run_noInj (p : Params) (w : World2) : (run p noInj w).w = normWorld p w ∧ (run p noInj w).out = normOut p w := by
  by_cases he : selectorError p.sel = true
  · simp [run, normWorld, normOut, he]
  · have hl := revLoop_noInj p w.revs 1
    by_cases hst : (normRevs p w.revs).2 = true
    · have ho : (revLoop p noInj 1 w.revs).out = some .panic := by rw [hl.2]; simp [hst]
      have h0 : noInj 0 = Inj.none := rfl
      simp [run, he, h0, revPhase_stop ho, normWorld, normOut, hst, hl.1]
    · have ho : (revLoop p noInj 1 w.revs).out = none := by rw [hl.2]; simp [hst]
      have h0 : noInj 0 = Inj.none := rfl
      simp [run, he, h0, revPhase_go ho, normWorld, normOut, hst, asGet_noInj, hl.1]

theorem normWorld_reach {p : Params} {w0 w : World2} (he : selectorError p.sel = false) (h : WReach p w0 w) :
    normWorld p w = normWorld p w0 ∧ normOut p w = normOut p w0 := by
  have hr := normRevs_reach h.revs
  obtain ⟨_, hpods, hclaims, hasts, hfrozen⟩ := h
  by_cases hst : (normRevs p w0.revs).2 = true
  · have hf := hfrozen hst
    cases w; cases w0
    simp only [] at hpods hclaims hf hr hst
    simp [normWorld, normOut, he, hr, hst, hpods, hclaims, hf.1, hf.2]
  · cases w; cases w0
    simp only [] at hpods hclaims hasts hr hst
    simp [normWorld, normOut, he, hr, hst, hpods, hclaims, hasts]

theorem runs_selectorError {p : Params} (h : selectorError p.sel = true) : ∀ (injs : List (Nat → Inj)) (w : World2), (runs p w injs).1 = w
  | [], w => rfl
  | inj :: rest, w => by
    unfold runs
    rw [run_selectorError inj w h]
    exact runs_selectorError h rest w

/-- any number of interrupted runs followed by a fault-free run ends exactly where a single fault-free run ends, with the
    same outcome -/
theorem recover (p : Params) (w : World2) (injs : List (Nat → Inj)) :
    (run p noInj (runs p w injs).1).w = (run p noInj w).w ∧ (run p noInj (runs p w injs).1).out = (run p noInj w).out := by
  by_cases he : selectorError p.sel = true
  · rw [runs_selectorError he]; exact ⟨rfl, rfl⟩
  · have he' : selectorError p.sel = false := by simpa using he
    have h := normWorld_reach he' (runs_reach p injs w)
    rw [(run_noInj p _).1, (run_noInj p _).2, (run_noInj p w).1, (run_noInj p w).2]
    exact h

/-! ## prefix safety -/

theorem revRelabelled_relabelRev (p : Params) (r : Rev) (l : Labels) : Spec.revRelabelled p (relabelRev p r l) = true := by
  simp only [Spec.revRelabelled, relabelRev, lookup_marker_relabel, beq_self_eq_true, Bool.true_and, List.all_eq_true]
  intro kv hkv
  by_cases hm : kv.1 = marker
  · simp [hm]
  · have hk : p.sel.ml.any (·.1 == kv.1) = true := List.any_eq_true.2 ⟨kv, hkv, by simp⟩
    simp [lookup_relabel_none p l kv.1 hk hm]

/-- when the loop of a run completes, every revision that was selected at entry of the case is stored relabelled -/
theorem ready_of_loop {p : Params} (inj : Nat → Inj) {revs0 revs : List Rev} (h : Reach p revs0 revs) :
    ∀ idx, (revLoop p inj idx revs).out = none →
      List.Forall₂ (fun r0 r1 => r0.selected p = true → r1.name = r0.name ∧ Spec.revRelabelled p r1 = true) revs0 (revLoop p inj idx revs).revs := by
  induction h with
  | nil => intro idx _; simp [revLoop]
  | stuck r rest hp =>
    intro idx ho
    have hs : r.selected p = true := by simp only [panics, Bool.and_eq_true] at hp; exact hp.1
    unfold revLoop at ho
    simp [hs, revOne_panics inj idx hs hp] at ho
  | @cons r0 r rest0 rest hp hrel _ ih =>
    intro idx ho
    have hpr := rel_not_panics hp hrel
    unfold revLoop at ho ⊢
    by_cases hs : r.selected p = true
    · have hn := isNil_of_not_panics hs hpr
      simp only [hs, if_true, revOne_ok r inj idx hn] at ho ⊢
      cases hi : inj idx with
      | crash => simp [hi] at ho
      | err k applied => simp [hi] at ho
      | none =>
        simp only [hi] at ho ⊢
        refine List.Forall₂.cons (fun _ => ⟨?_, revRelabelled_relabelRev p r _⟩) (ih (idx + 1) ho)
        rcases hrel with rfl | ⟨_, rfl⟩ <;> simp [relabelRev]
    · simp only [hs] at ho ⊢
      refine List.Forall₂.cons (fun hs0 => ?_) (ih idx ho)
      rcases hrel with rfl | ⟨_, rfl⟩
      · exact absurd hs0 hs
      · exact ⟨rfl, revRelabelled_relabelRev p r0 _⟩

theorem forall₂_exists {α β : Type} {R : α → β → Prop} {l0 : List α} {l1 : List β} (h : List.Forall₂ R l0 l1) :
    ∀ a ∈ l0, ∃ b ∈ l1, R a b := by
  induction h with
  | nil => simp
  | cons h1 _ ih =>
    intro a ha
    rcases List.mem_cons.1 ha with rfl | ha
    · exact ⟨_, List.mem_cons_self, h1⟩
    · obtain ⟨b, hb, hab⟩ := ih a ha
      exact ⟨b, List.mem_cons_of_mem _ hb, hab⟩

theorem revsReady_of_forall₂ {p : Params} {w0 pre : World2}
    (h : List.Forall₂ (fun r0 r1 => r0.selected p = true → r1.name = r0.name ∧ Spec.revRelabelled p r1 = true) w0.revs pre.revs) :
    Spec.revsReady p w0 pre = true := by
  unfold Spec.revsReady
  rw [List.all_eq_true]
  intro r0 hr0
  by_cases hs : r0.selected p = true
  · obtain ⟨r1, hr1, hrel⟩ := forall₂_exists h r0 hr0
    have := hrel hs
    simp only [hs, Bool.not_true, Bool.false_or, List.any_eq_true]
    exact ⟨r1, hr1, by simp [this.1, this.2]⟩
  · simp [hs]

/-- the state-independent part of the safety of a delete issued from `w` -/
def ReadyFrom (p : Params) (w0 w : World2) : Prop := ∀ pre : World2, pre.revs = w.revs → Spec.revsReady p w0 pre = true

theorem asDelete_safe {p : Params} {w0 w : World2} (inj : Nat → Inj) (idx : Nat) (ha : Spec.asEqual p w = true) (hr : ReadyFrom p w0 w) :
    ∀ a ∈ (asDelete inj idx w).trace, Spec.actSafe p w0 a = true := by
  have hsafe : Spec.actSafe p w0 (Act.deleteSts .orphan w) = true := by
    simp [Spec.actSafe, Spec.orphanOnly, Spec.asFirst, Spec.relabelledFirst, Spec.noPodClaim, ha, hr w rfl]
  unfold asDelete call
  cases inj idx <;> simp [hsafe]
  split <;> simp [hsafe]

theorem asStatus_safe {p : Params} {w0 w : World2} (inj : Nat → Inj) (idx : Nat) (ha : ∃ a, w.asts = some a ∧ a.spec = p.spec)
    (hr : ReadyFrom p w0 w) : ∀ a ∈ (asStatus p inj idx w).trace, Spec.actSafe p w0 a = true := by
  obtain ⟨a, ha, hsp⟩ := ha
  unfold asStatus call statusNative
  cases inj idx with
  | crash => simp
  | err k applied => simp [Spec.actSafe, Spec.orphanOnly, Spec.asFirst, Spec.relabelledFirst, Spec.noPodClaim]
  | none =>
    simp only [ha]
    intro x hx
    rcases List.mem_cons.1 hx with rfl | hx
    · simp [Spec.actSafe, Spec.orphanOnly, Spec.asFirst, Spec.relabelledFirst, Spec.noPodClaim]
    · exact asDelete_safe (w := { w with asts := some { a with status := p.status } }) inj (idx + 1)
        (by simp [Spec.asEqual, hsp]) (fun pre h => hr pre h) x hx

theorem asWrite_safe {p : Params} {w0 w : World2} (inj : Nat → Inj) (idx : Nat) (nf : Bool) (hr : ReadyFrom p w0 w) :
    ∀ a ∈ (asWrite p inj idx w nf).trace, Spec.actSafe p w0 a = true := by
  have hact : Spec.actSafe p w0 (if nf = true then Act.createAs else Act.updateAs) = true := by
    cases nf <;> simp [Spec.actSafe, Spec.orphanOnly, Spec.asFirst, Spec.relabelledFirst, Spec.noPodClaim]
  unfold asWrite call createNative updateNative
  cases inj idx with
  | crash => simp
  | err k applied => simpa using hact
  | none =>
    cases nf <;> cases ha : w.asts <;> simp only [] <;> intro x hx
    · simp at hx; subst hx; simpa using hact
    · rename_i a
      simp only [Bool.false_eq_true, if_false] at hx
      rcases List.mem_cons.1 hx with rfl | hx
      · simpa using hact
      · exact asStatus_safe (w := { w with asts := some { a with spec := p.spec } }) inj (idx + 1) ⟨_, rfl, rfl⟩
          (fun pre h => hr pre h) x hx
    · simp only [if_true] at hx
      rcases List.mem_cons.1 hx with rfl | hx
      · simpa using hact
      · exact asStatus_safe (w := { w with asts := some ⟨0, p.spec, 0⟩ }) inj (idx + 1) ⟨_, rfl, rfl⟩
          (fun pre h => hr pre h) x hx
    · simp at hx; subst hx; simpa using hact

theorem asGet_safe {p : Params} {w0 w : World2} (inj : Nat → Inj) (idx : Nat) (hr : ReadyFrom p w0 w) :
    ∀ a ∈ (asGet p inj idx w).trace, Spec.actSafe p w0 a = true := by
  have hact : Spec.actSafe p w0 Act.getAs = true := by
    simp [Spec.actSafe, Spec.orphanOnly, Spec.asFirst, Spec.relabelledFirst, Spec.noPodClaim]
  unfold asGet
  cases inj idx with
  | crash => simp
  | err k applied =>
    by_cases hk : k = .notFound
    · simp only [hk, if_true]
      intro x hx
      rcases List.mem_cons.1 hx with rfl | hx
      · exact hact
      · exact asWrite_safe inj (idx + 1) true hr x hx
    · simp [hk, hact]
  | none =>
    intro x hx
    rcases List.mem_cons.1 hx with rfl | hx
    · exact hact
    · exact asWrite_safe inj (idx + 1) _ hr x hx

theorem revLoop_trace_safe (p : Params) (w0 : World2) (inj : Nat → Inj) : ∀ (l : List Rev) (idx : Nat),
    ∀ a ∈ (revLoop p inj idx l).trace, Spec.actSafe p w0 a = true
  | [], idx => by simp [revLoop]
  | r :: rest, idx => by
    have hact : Spec.actSafe p w0 (Act.updateRev r.name) = true := by
      simp [Spec.actSafe, Spec.orphanOnly, Spec.asFirst, Spec.relabelledFirst, Spec.noPodClaim]
    unfold revLoop
    by_cases hs : r.selected p = true
    · simp only [hs, if_true]
      cases hone : revOne p inj idx r with
      | stop r' logged o => cases logged <;> simp [hact]
      | go r' =>
        intro x hx
        rcases List.mem_cons.1 hx with rfl | hx
        · exact hact
        · exact revLoop_trace_safe p w0 inj rest (idx + 1) x hx
    · simp only [hs]
      exact revLoop_trace_safe p w0 inj rest idx

/-- every call of a run started from a state reachable from `w0` is safe with respect to `w0` -/
theorem run_safe {p : Params} {w0 w : World2} (inj : Nat → Inj) (h : Reach p w0.revs w.revs) :
    Spec.traceSafe p w0 (run p inj w).trace = true := by
  have hlist : Spec.actSafe p w0 Act.listRevs = true := by
    simp [Spec.actSafe, Spec.orphanOnly, Spec.asFirst, Spec.relabelledFirst, Spec.noPodClaim]
  unfold Spec.traceSafe
  rw [List.all_eq_true]
  unfold run
  by_cases he : selectorError p.sel = true
  · simp [he]
  · simp only [he]
    cases inj 0 with
    | crash => simp
    | err k applied => simpa using hlist
    | none =>
      intro x hx
      rcases List.mem_cons.1 hx with rfl | hx
      · exact hlist
      · cases ho : (revLoop p inj 1 w.revs).out with
        | some o =>
          rw [revPhase_stop ho] at hx
          exact revLoop_trace_safe p w0 inj _ _ x hx
        | none =>
          rw [revPhase_go ho] at hx
          rcases List.mem_append.1 hx with hx | hx
          · exact revLoop_trace_safe p w0 inj _ _ x hx
          · refine asGet_safe inj _ (fun pre hpre => ?_) x hx
            apply revsReady_of_forall₂
            rw [hpre]
            exact ready_of_loop inj h 1 ho

theorem runs_safe {p : Params} {w0 : World2} : ∀ (injs : List (Nat → Inj)) (w : World2), Reach p w0.revs w.revs →
    Spec.safeRuns p w0 (runs p w injs).2 = true
  | [], w, _ => by simp [runs, Spec.safeRuns]
  | inj :: rest, w, h => by
    have h1 := run_safe inj h
    have h2 := runs_safe rest (run p inj w).w (reach_trans h (run_reach p inj w).revs)
    unfold Spec.safeRuns at h2 ⊢
    simp only [runs, List.all_cons, Bool.and_eq_true]
    exact ⟨h1, h2⟩

/-! ## what an uninterrupted run achieves; survival of revisions, pods and claims -/

theorem normRevs_not_stuck {p : Params} : ∀ {l : List Rev}, (∀ r ∈ l, panics p r = false) → (normRevs p l).2 = false
  | [], _ => rfl
  | r :: rest, h => by
    have hr := h r List.mem_cons_self
    simp only [normRevs, hr, Bool.false_eq_true, if_false]
    exact normRevs_not_stuck fun r' hr' => h r' (List.mem_cons_of_mem _ hr')

theorem panics_false_of {p : Params} (hsel : p.sel.isNil = false) (r : Rev) : panics p r = false := by
  simp [panics, hsel]

theorem revsKept_of_names {a b : List Rev} (h : b.map (·.name) = a.map (·.name)) :
    (a.all fun r0 => b.any (·.name == r0.name)) = true := by
  rw [List.all_eq_true]
  intro r0 hr0
  have : r0.name ∈ b.map (·.name) := by rw [h]; exact List.mem_map_of_mem hr0
  obtain ⟨r, hr, hn⟩ := List.mem_map.1 this
  exact List.any_eq_true.2 ⟨r, hr, by simp [hn]⟩

theorem runs_kept (p : Params) (w : World2) (injs : List (Nat → Inj)) :
    Spec.revsKept w (runs p w injs).1 = true ∧ Spec.untouched w (runs p w injs).1 = true := by
  have h := runs_reach p injs w
  exact ⟨revsKept_of_names (reach_names h.revs), by simp [Spec.untouched, h.pods, h.claims]⟩

theorem run_noInj_upgraded {p : Params} {w : World2} (herr : selectorError p.sel = false) (hsel : p.sel.isNil = false) :
    (run p noInj w).out = .ok ∧ Spec.upgraded p w (run p noInj w).w = true := by
  have hst : (normRevs p w.revs).2 = false := normRevs_not_stuck fun r _ => panics_false_of hsel r
  have hl := revLoop_noInj p w.revs 1
  have ho : (revLoop p noInj 1 w.revs).out = none := by rw [hl.2]; simp [hst]
  have hready := ready_of_loop noInj (reach_refl p w.revs) 1 ho
  rw [hl.1] at hready
  have hnames := reach_names (reach_revLoop p noInj w.revs 1)
  rw [hl.1] at hnames
  rw [(run_noInj p w).1, (run_noInj p w).2]
  refine ⟨by simp [normOut, herr, hst], ?_⟩
  simp only [Spec.upgraded, normWorld, herr, hst, Bool.false_eq_true, if_false, Bool.not_false, Bool.true_and, Bool.and_eq_true]
  refine ⟨⟨⟨?_, ?_⟩, ?_⟩, ?_⟩
  · cases w.asts <;> simp [Spec.asEqual, normAs]
  · exact revsReady_of_forall₂ hready
  · exact revsKept_of_names hnames
  · simp [Spec.untouched]

theorem runs_append (p : Params) (inj : Nat → Inj) : ∀ (injs : List (Nat → Inj)) (w : World2),
    (runs p w (injs ++ [inj])).1 = (run p inj (runs p w injs).1).w
  | [], w => by simp [runs]
  | i :: rest, w => by simp only [List.cons_append, runs]; exact runs_append p inj rest _

end Asts.Upgrade
