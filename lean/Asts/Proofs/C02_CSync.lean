import Asts.Proofs.C02_CClaim
import Asts.Proofs.C02_BSim

/-! C02, worlds with pod objects that are not members of the set: the whole sync under the empty fault plan. The reconcile
    sees the members only; the other pod objects are released (if the set controlled them) or ignored. -/
namespace Asts.C02p
open Asts Asts.L1c

/-- the world with the members of the set only (pod ids as they are) -/
def mOf (x : SyncIn) : SyncIn := { x with pods := x.pods.filter (·.member) }

/-- a world before its normalising rounds, pod objects that are no members of the set allowed -/
structure PreM (x : SyncIn) : Prop where
  spec : SpecOk x
  mem : ∀ c ∈ x.pods, c.member = true → (c.owner = .self ∨ c.owner = .none) ∧ c.selMatch = true ∧
    c.name = canonicalName x.setName c.pod.ord ∧ 0 ≤ c.pod.ord ∧ c.pod.stOk = true ∧ c.pod.created = true
  ords : ((x.pods.filter (·.member)).map (·.pod.ord)).Nodup
  podNames : (x.pods.map (·.name)).Nodup
  inertNames : ∀ c ∈ x.pods, c.member = false → ∀ o ∈ desired (replicasOf x.view) x.view.slots,
    c.name ≠ canonicalName x.setName o
  inertColon : ∀ c ∈ x.pods, c.member = false → c.owner = .self → ∀ ch ∈ c.name.toList, (ch == ':') = false
  ids : IdOk x.pods
  small : x.pods.length ≤ freshId
  smallR : (replicasOf x.view).toNat ≤ freshId
  gone : x.fresh.gone = false
  uid : x.fresh.uidOk = true
  fdel : x.fresh.deleting = false
  term : ∀ c ∈ x.pods, c.pod.terminating = false
  colon : ∀ ch ∈ x.setName.toList, (ch == ':') = false
  names : (x.store.map (·.name)).Nodup

theorem mem_mOf {x : SyncIn} {c : CPod} : c ∈ (mOf x).pods ↔ c ∈ x.pods ∧ c.member = true := by
  show c ∈ x.pods.filter (·.member) ↔ _
  rw [List.mem_filter]

/-- the members-only world is a world the normalising argument of Part 5 speaks about -/
theorem PreM.preC {x : SyncIn} (hp : PreM x) : PreC (mOf x) := by
  refine ⟨⟨hp.spec.paused, hp.spec.sel, hp.spec.del, hp.spec.rep, hp.spec.r0, hp.spec.strat, hp.spec.lim⟩, ?_, hp.ords,
    le_trans (List.length_filter_le _ _) hp.small, hp.smallR, hp.gone, hp.uid, hp.fdel, ?_, hp.colon, hp.names⟩
  · intro c hc
    obtain ⟨hcx, hm⟩ := mem_mOf.1 hc
    obtain ⟨a1, a2, a3, a4, a6, a7⟩ := hp.mem c hcx hm
    exact ⟨a1, hm, a2, a3, a4, a6, a7⟩
  · intro c hc
    exact hp.term c (mem_mOf.1 hc).1

theorem PreM.claimM {x : SyncIn} (hp : PreM x) : ∀ c ∈ x.pods, ClaimM c := by
  intro c hc hm
  obtain ⟨a1, a2, _⟩ := hp.mem c hc hm
  exact ⟨a1, a2, hm, hp.term c hc⟩

theorem PreM.flipColon {x : SyncIn} (hp : PreM x) :
    ∀ c ∈ x.pods, needsFlip c = true → ∀ ch ∈ c.name.toList, (ch == ':') = false := by
  intro c hc hf
  by_cases hm : c.member = true
  · obtain ⟨_, _, a3, a4, _⟩ := hp.mem c hc hm
    rw [a3]
    exact canon_noColon _ _ a4 hp.colon
  · have hm' : c.member = false := by simpa using hm
    unfold needsFlip at hf
    rw [hm'] at hf
    simp only [Bool.false_eq_true, if_false, beq_iff_eq] at hf
    exact hp.inertColon c hc hm' hf

/-- the reconcile-level faults derived from the empty plan hit no call the reconcile makes, when the claimed pods carry
    the canonical names of their distinct ordinals and no other pod object holds the canonical name of a desired ordinal -/
theorem podFaults_noHitM (setName : String) (pods claimed : List CPod) (b : Int) (E : List Int)
    (hname : ∀ c ∈ claimed, c.name = canonicalName setName c.pod.ord) (hnd : (claimed.map (·.pod.ord)).Nodup)
    (hother : ∀ c ∈ pods, c ∉ claimed → c.name = canonicalName setName c.pod.ord → inRange b E c.pod.ord = false) :
    NoHit (podFaults setName [] pods claimed b E) (idxOf b E) := by
  have hupd : ∀ o, (updateResult setName [] pods claimed b E o).2 = true := by
    intro o
    unfold updateResult
    cases ho : occupantAt claimed b E o with
    | none => simp only [updateAttempts_nil]
    | some c =>
      obtain ⟨hc, hco⟩ := occupantAt_mem ho
      have : (c.name != canonicalName setName o) = false := by
        rw [hname c hc, hco]; simp
      simp only [this, Bool.false_eq_true, if_false, updateAttempts_nil]
  have hmem : ∀ verb o, (verb, o) ∈ podFaults setName [] pods claimed b E →
      verb = 0 ∧ ∃ c ∈ pods, c.pod.ord = o ∧ c.name = canonicalName setName c.pod.ord ∧
        (!(claimed.any (·.pod.id == c.pod.id) && ((occupantAt claimed b E c.pod.ord).map (·.pod.id)) == some c.pod.id)) = true := by
    intro verb o hm
    unfold podFaults at hm
    simp only [List.filterMap_nil, List.nil_append, List.mem_append, List.mem_filterMap, List.mem_map, List.mem_filter] at hm
    rcases hm with ⟨o', _, ho'⟩ | ⟨c, ⟨hc, hcond⟩, hco⟩
    · rw [hupd o'] at ho'
      simp at ho'
    · simp only [Prod.mk.injEq] at hco
      simp only [Bool.and_eq_true, beq_iff_eq] at hcond
      exact ⟨hco.1.symm, c, hc, hco.2, hcond.1, hcond.2⟩
  refine ⟨?_, ?_, ?_⟩
  · intro o
    unfold Faults.hit
    rw [Bool.eq_false_iff]
    intro hcon
    rw [List.contains_iff_mem] at hcon
    have := (hmem 1 o hcon).1
    omega
  · intro o
    unfold Faults.hit
    rw [Bool.eq_false_iff]
    intro hcon
    rw [List.contains_iff_mem] at hcon
    have := (hmem 2 o hcon).1
    omega
  · intro o ho
    unfold Faults.hit
    rw [Bool.eq_false_iff]
    intro hcon
    rw [List.contains_iff_mem] at hcon
    obtain ⟨-, c, hc, hco, hcn, hbad⟩ := hmem 0 o hcon
    have hr : inRange b E c.pod.ord = true := by rw [hco]; exact mem_idxOf.1 ho
    by_cases hcl : c ∈ claimed
    · rw [occupantAt_self hnd hcl hr] at hbad
      have hany : claimed.any (·.pod.id == c.pod.id) = true := List.any_eq_true.2 ⟨c, hcl, by simp⟩
      simp [hany] at hbad
    · rw [hother c hc hcl hcn] at hr
      cases hr

/-- **the reconcile and the tail of the sync when no call fails**, for any list of claimed pods the derived faults do not
    hit -/
theorem reconcileF_nilM (j : SyncIn) (claimed : List CPod) (L : List Rev) (cur upd : Rev) (cc : Int) (G : List Rev)
    (l0 : List String)
    (hnohit : NoHit (podFaults j.setName [] j.pods claimed (maxReplicaAndSlots (replicasOf j.view) j.view.slots).1
      (maxReplicaAndSlots (replicasOf j.view) j.view.slots).2)
      (idxOf (maxReplicaAndSlots (replicasOf j.view) j.view.slots).1 (maxReplicaAndSlots (replicasOf j.view) j.view.slots).2))
    (hrep : j.view.replicas = some (replicasOf j.view)) (hgone : j.fresh.gone = false)
    (lim : Int) (hlim : j.historyLimit = some lim)
    (hin : ∀ r ∈ L, G.any (·.name == r.name) = true) (hnd : (L.map (·.name)).Nodup)
    (ro : St × Outcome) (hro : updateStatefulSet j.view cur.name upd.name (claimed.map (·.pod)) [] = ro) (hok : ro.2 = .ok) :
    ∃ lgR, (∀ e ∈ lgR, NoPatch e) ∧
      reconcileF j [] claimed L cur upd cc { store := G, tr := { log := l0 } } =
        { log := l0 ++ lgR,
          status := (if inconsistentStatus j.stored (completeRollingUpdate j.view ro.1.status)
                     then some (completeRollingUpdate j.view ro.1.status) else none),
          cc := (if inconsistentStatus j.stored (completeRollingUpdate j.view ro.1.status) then some cc else none),
          store := G.filter (fun x => !((victimsOf lim (claimed.map (·.pod.rev)) L cur upd).map (·.name)).contains x.name),
          cur := cur.name, upd := upd.name, claimed := claimed, acts := ro.1.acts, actsDone := ro.1.acts.length,
          outcome := .ok } := by
  have hrec : updateStatefulSet j.view cur.name upd.name (claimed.map (·.pod))
      (podFaults j.setName [] j.pods claimed (maxReplicaAndSlots (j.view.replicas.getD 0) j.view.slots).1
        (maxReplicaAndSlots (j.view.replicas.getD 0) j.view.slots).2) = ro := by
    have hrep' : j.view.replicas.getD 0 = replicasOf j.view := rfl
    rw [hrep', ← hro]
    exact updateStatefulSet_noHit _ _ _ _ _ (replicasOf j.view) hrep hnohit
  unfold reconcileF
  simp only
  rw [hrec]
  obtain ⟨st, out⟩ := ro
  simp only at hok
  subst hok
  simp only
  rw [finishF_ok_trunc j _ _ _ _ _ _ _ hgone lim hlim hin hnd]
  have hlog : ∀ e ∈ (st.acts.map (actLog j.setName [] j.pods claimed (maxReplicaAndSlots (j.view.replicas.getD 0) j.view.slots).1
        (maxReplicaAndSlots (j.view.replicas.getD 0) j.view.slots).2)).flatten, NoPatch e := by
    intro e he
    rw [List.mem_flatten] at he
    obtain ⟨l', hl', hel'⟩ := he
    rw [List.mem_map] at hl'
    obtain ⟨a, _, rfl⟩ := hl'
    exact actLog_noPatch _ _ _ _ _ a e hel'
  have hdel : ∀ e ∈ (victimsOf lim (claimed.map (·.pod.rev)) L cur upd).map (fun r => s!"delete:rev:{r.name}"), NoPatch e := by
    intro e he
    rw [List.mem_map] at he
    obtain ⟨r, _, rfl⟩ := he
    exact noPatch_delete_rev _
  split_ifs with hinc
  · refine ⟨(st.acts.map (actLog j.setName [] j.pods claimed (maxReplicaAndSlots (j.view.replicas.getD 0) j.view.slots).1
        (maxReplicaAndSlots (j.view.replicas.getD 0) j.view.slots).2)).flatten ++ ["updatestatus"] ++
        (victimsOf lim (claimed.map (·.pod.rev)) L cur upd).map (fun r => s!"delete:rev:{r.name}"), ?_, ?_⟩
    · intro e he
      rw [List.mem_append, List.mem_append] at he
      rcases he with (he | he) | he
      · exact hlog e he
      · simp only [List.mem_singleton] at he; rw [he]; exact noPatch_updatestatus
      · exact hdel e he
    · simp [List.append_assoc]
  · refine ⟨(st.acts.map (actLog j.setName [] j.pods claimed (maxReplicaAndSlots (j.view.replicas.getD 0) j.view.slots).1
        (maxReplicaAndSlots (j.view.replicas.getD 0) j.view.slots).2)).flatten ++
        (victimsOf lim (claimed.map (·.pod.rev)) L cur upd).map (fun r => s!"delete:rev:{r.name}"), ?_, ?_⟩
    · intro e he
      rw [List.mem_append] at he
      rcases he with he | he
      · exact hlog e he
      · exact hdel e he
    · simp [List.append_assoc]

/-- **the sync up to the reconcile**: adoption of revisions, claim of the members, release of the non-members the set
    controlled, resolution of the update revision -/
theorem sync_preM {h : Hashing} {x : SyncIn} (hp : PreM x) {G : List Rev} {upd : Rev} {cc : Int}
    (hpick : PickOut h x.template (x.collisionCount.getD 0) (adoptS x.store) G upd cc) :
    ∃ lg1 lg2, (∀ e ∈ lg1, NoPatch e) ∧ (∀ e ∈ lg2, NoPatch e) ∧
      syncF h x [] =
        reconcileF x [] (x.pods.filter (·.member)) (sortRevs (listRevisions (adoptS x.store)))
          (((sortRevs (listRevisions (adoptS x.store))).find? (·.name == x.stored.currentRev)).getD upd) upd cc
          { store := G, tr := { log := lg1 ++ claimLogM false x.pods ++ lg2 } } := by
  obtain ⟨lgA, hlgA, hadopt⟩ := adopt_nil x.fresh hp.gone hp.uid hp.fdel x.store []
  obtain ⟨m, hclaim⟩ := claim_nilM x.fresh hp.gone hp.uid hp.fdel x.pods hp.claimM ([] ++ lgA)
  obtain ⟨lgP, hlgP, hrun⟩ := hpick.run x.stored.currentRev ([] ++ lgA ++ claimLogM false x.pods ++ ["list:revs", "list:revs"])
  refine ⟨lgA, ["list:revs", "list:revs"] ++ lgP, hlgA, ?_, ?_⟩
  · intro e he
    rw [List.mem_append] at he
    rcases he with he | he
    · simp only [List.mem_cons, List.not_mem_nil, or_false, or_self] at he
      rw [he]; exact noPatch_list_revs
    · exact hlgP e he
  · rw [syncF_stages]
    simp only [hp.spec.paused, hp.spec.sel, Bool.not_true, Bool.or_self, Bool.false_eq_true, if_false, hp.spec.del]
    have e0 : ({ store := x.store } : RevSt) = { store := x.store, tr := { log := [] } } := rfl
    rw [e0, hadopt]
    simp only
    rw [hclaim]
    simp only [Bool.false_eq_true, if_false]
    unfold revisionsF
    rw [listRevsF_nil]
    simp only
    rw [hrun]
    simp [List.append_assoc]

end Asts.C02p
