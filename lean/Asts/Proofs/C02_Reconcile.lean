import Asts.Proofs.C02_Defs
import Asts.Proofs.L1_c_C14

/-! C02, reconcile level: on a snapshot whose pods are exactly the occupied range, all healthy, with identity and storage,
    and at the update revision wherever the update walk looks, `updateStatefulSet` issues no action, ends `.ok` and returns
    the census — for every fault plan (no call is made, so no fault can be hit). -/
namespace Asts.C02p
open Asts Asts.L1c

structure GoodPods (v : SetView) (upd : String) (b : Int) (E : List Int) (pods : List Pod) : Prop where
  good : ∀ p ∈ pods, p.healthy = true ∧ p.idOk = true ∧ p.stOk = true ∧ inRange b E p.ord = true ∧
         (v.strat ≠ .onDelete → partOf v ≤ p.ord → p.rev = upd)
  full : ∀ o, inRange b E o = true → ∃ p ∈ pods, p.ord = o

theorem healthy_facts {p : Pod} (h : p.healthy = true) :
    p.runningAndReady = true ∧ p.terminating = false ∧ p.created = true ∧ p.failed = false ∧ p.succeeded = false := by
  unfold Pod.healthy at h
  simp only [Bool.and_eq_true, Bool.not_eq_true'] at h
  obtain ⟨hrr, ht⟩ := h
  refine ⟨hrr, ht, ?_, ?_, ?_⟩ <;>
  · unfold Pod.runningAndReady at hrr
    simp only [Bool.and_eq_true, beq_iff_eq] at hrr
    simp [Pod.created, Pod.failed, Pod.succeeded, hrr.1]

theorem firstUnhealthy_fold_healthy (ps : List Pod) (hh : ∀ p ∈ ps, p.healthy = true) (acc : (Option Pod × Int) × Nat) :
    ps.foldl (fun (acc : (Option Pod × Int) × Nat) p =>
      if !p.healthy then
        if acc.1.1.isNone || p.ord < acc.1.2 then ((some p, p.ord), acc.2 + 1) else (acc.1, acc.2 + 1)
      else acc) acc = acc := by
  induction ps generalizing acc with
  | nil => rfl
  | cons p ps ih =>
    simp only [List.foldl_cons]
    have hp := hh p (List.mem_cons_self)
    simp only [hp, Bool.not_true, Bool.false_eq_true, if_false]
    exact ih (fun q hq => hh q (List.mem_cons_of_mem _ hq)) acc

theorem firstUnhealthy_healthy (ps : List Pod) (hh : ∀ p ∈ ps, p.healthy = true) : firstUnhealthy ps = (none, 0) := by
  unfold firstUnhealthy
  rw [firstUnhealthy_fold_healthy ps hh]

theorem replicaStep_good_pod (v : SetView) (cur upd : String) (f : Faults) (mono : Bool) (s : St) (i : Int) (p : Pod)
    (hh : p.healthy = true) (hi : p.idOk = true) (hs : p.stOk = true) :
    replicaStep v cur upd f mono s i p = (.next s, p) := by
  obtain ⟨hrr, ht, hc, hf, hsu⟩ := healthy_facts hh
  unfold replicaStep replaceFailed
  simp only [hf, hsu, Bool.or_self, Bool.false_eq_true, if_false]
  unfold ensurePod
  simp [hc, ht, hrr, hi, hs]

theorem replicaLoop_good (v : SetView) (cur upd : String) (f : Faults) (mono : Bool) (reps : List (Int × Pod)) (s : St)
    (hg : ∀ ip ∈ reps, ip.2.healthy = true ∧ ip.2.idOk = true ∧ ip.2.stOk = true) :
    replicaLoop v cur upd f mono s reps = (.next s, reps) := by
  induction reps generalizing s with
  | nil => rfl
  | cons ip rest ih =>
    obtain ⟨i, p⟩ := ip
    obtain ⟨h1, h2, h3⟩ := hg (i, p) (List.mem_cons_self)
    unfold replicaLoop
    rw [replicaStep_good_pod v cur upd f mono s i p h1 h2 h3]
    simp only
    rw [ih s (fun q hq => hg q (List.mem_cons_of_mem _ hq))]

theorem updateWalk_good (cur upd : String) (f : Faults) (l : List (Int × Pod)) (s : St)
    (hg : ∀ ip ∈ l, ip.2.healthy = true ∧ ip.2.rev = upd) : updateWalk cur upd f s l = (s, .ok) := by
  induction l with
  | nil => rfl
  | cons ip rest ih =>
    obtain ⟨t, p⟩ := ip
    obtain ⟨h1, h2⟩ := hg (t, p) (List.mem_cons_self)
    have h1 : p.healthy = true := h1
    have h2 : p.rev = upd := h2
    unfold updateWalk
    subst h2
    simp only [bne_self_eq_false, Bool.false_and, Bool.false_eq_true, if_false, h1, Bool.not_true]
    exact ih (fun q hq => hg q (List.mem_cons_of_mem _ hq))

theorem repsOf_good {v : SetView} {cur upd : String} {b : Int} {E : List Int} {pods : List Pod}
    (hg : GoodPods v upd b E pods) : ∀ ip ∈ repsOf v cur upd b E pods, ip.2 ∈ pods ∧ ip.2.ord = ip.1 := by
  intro ip hip
  unfold repsOf at hip
  rw [List.mem_map] at hip
  obtain ⟨i, hi, rfl⟩ := hip
  have hr : inRange b E i = true := mem_idxOf.1 hi
  obtain ⟨p, hp, hpo⟩ := hg.full i hr
  cases hs : slotOf b E pods i with
  | none =>
    exfalso
    unfold slotOf at hs
    rw [List.getLast?_eq_none_iff, List.filter_eq_nil_iff] at hs
    have := hs p hp
    simp [hpo, hr] at this
  | some q =>
    have := slotOf_some hs
    exact ⟨by simpa using this.1, by simpa using this.2.1⟩

theorem condemnedOf_good {v : SetView} {upd : String} {b : Int} {E : List Int} {pods : List Pod}
    (hg : GoodPods v upd b E pods) : condemnedOf b E pods = [] := by
  rw [List.eq_nil_iff_forall_not_mem]
  intro c hc
  rw [mem_condemnedOf] at hc
  have := (hg.good c hc.1).2.2.2.1
  rw [inRange_not_condemned this] at hc
  exact absurd hc.2 (by simp)

/-- **the reconcile is a no-op on good pods** -/
theorem updateStatefulSet_quiet (v : SetView) (cur upd : String) (pods : List Pod) (f : Faults) (r : Int)
    (hr : v.replicas = some r) (hdel : v.deleting = false)
    (hg : GoodPods v upd (maxReplicaAndSlots r v.slots).1 (maxReplicaAndSlots r v.slots).2 pods) :
    updateStatefulSet v cur upd pods f = ({ acts := [], status := st0Of v cur upd pods }, .ok) := by
  have hreps := repsOf_good (cur := cur) hg
  have hcond := condemnedOf_good hg
  have hfu : firstUnhealthy ((repsOf v cur upd (maxReplicaAndSlots r v.slots).1 (maxReplicaAndSlots r v.slots).2 pods).map (·.2)
      ++ condemnedOf (maxReplicaAndSlots r v.slots).1 (maxReplicaAndSlots r v.slots).2 pods) = (none, 0) := by
    apply firstUnhealthy_healthy
    intro p hp
    rw [hcond, List.append_nil, List.mem_map] at hp
    obtain ⟨ip, hip, rfl⟩ := hp
    exact (hg.good _ (hreps ip hip).1).1
  have hprep : prepare v cur upd pods = .ok
      { b := (maxReplicaAndSlots r v.slots).1
        reps := repsOf v cur upd (maxReplicaAndSlots r v.slots).1 (maxReplicaAndSlots r v.slots).2 pods
        condemned := [], fu := none, st0 := st0Of v cur upd pods } := by
    unfold prepare
    rw [hr]
    simp only
    unfold repsOf idxOf at hfu
    rw [hfu]
    simp only [gt_iff_lt, lt_self_iff_false, decide_false, Bool.false_and, Bool.false_eq_true, if_false]
    rw [hcond]
    rfl
  unfold updateStatefulSet
  rw [hprep]
  simp only [hdel, Bool.false_eq_true, if_false]
  unfold runLoops
  simp only
  rw [replicaLoop_good]
  · simp only [List.reverse_nil, condemnedLoop]
    unfold updateStage
    by_cases hod : v.strat = .onDelete
    · simp [hod]
    · have : (v.strat == StratType.onDelete) = false := by simpa using hod
      simp only [this, Bool.false_eq_true, if_false]
      apply updateWalk_good
      intro ip hip
      rw [List.mem_reverse, List.mem_filter] at hip
      have h1 := hreps ip hip.1
      have h2 := hg.good _ h1.1
      refine ⟨h2.1, h2.2.2.2.2 hod ?_⟩
      rw [h1.2]; simpa using hip.2
  · intro ip hip
    have h2 := hg.good _ (hreps ip hip).1
    exact ⟨h2.1, h2.2.1, h2.2.2.1⟩

end Asts.C02p
