import Mathlib.Tactic
import Asts.Proofs.SY_a_Strings
import Asts.Proofs.SY_a_Sync

/-! # SY_a — from the classification of log entries to the string-level monitors -/

namespace Asts.SYa
open Asts

theorem pre3_append_ne {pre v r : String} (h : Pre3 pre v r) (n w : String) (hw : NoColon w) : pre ++ n ≠ w := by
  intro he
  have hm : ':' ∈ (pre ++ n).toList := by rw [String.toList_append, h.toList_eq]; simp
  rw [he] at hm
  have := hw _ hm
  simp at this

/-- a check on a three-part key: it is enough to look at the parsed triple when the name has no colon, and at the
    degenerate entry (verb = the whole string, resource empty) when it has one -/
theorem check_key {pre v r : String} (h : Pre3 pre v r) (n : String) (f : Entry → Bool)
    (h1 : NoColon n → f { verb := v, res := r, name := n } = true)
    (h2 : ¬NoColon n → f { verb := pre ++ n, res := "", name := "" } = true) :
    f (parseEntry (pre ++ n)) = true := by
  by_cases hn : NoColon n
  · rw [parseEntry_pre3 h n hn]; exact h1 hn
  · rw [parseEntry_pre3_colon h n hn]; exact h2 hn

theorem all_parse {log : List String} {f : Entry → Bool} (h : ∀ e ∈ log, f (parseEntry e) = true) :
    (log.map parseEntry).all f = true := by
  rw [List.all_eq_true]
  intro p hp
  obtain ⟨e, he, rfl⟩ := List.mem_map.1 hp
  exact h e he

/-- **case analysis over everything a sync can log**, for a check `f` on parsed entries -/
theorem log_check (i : SyncIn) (plan : List Fault) (st1 : List Rev) (claimed : List CPod) (acts : List Action)
    (f : Entry → Bool)
    (hlist : f { verb := "list", res := "revs", name := "" } = true)
    (hgetset : i.view.deleting = false → f { verb := "get", res := "set", name := "" } = true)
    (hstatus : f { verb := "updatestatus", res := "", name := "" } = true)
    (hcolon : ∀ pre v r n, Pre3 pre v r → ¬NoColon n → f { verb := pre ++ n, res := "", name := "" } = true)
    (hlabel : i.view.deleting = false → ∀ r ∈ listRevisions i.store, r.marker = true → NoColon r.name →
      f { verb := "update", res := "rev", name := r.name } = true)
    (hadopt : i.view.deleting = false → ∀ r ∈ listRevisions i.store, r.owner = .none → NoColon r.name →
      f { verb := "patch", res := "rev", name := r.name } = true)
    (hclaim : i.view.deleting = false → ∀ c ∈ i.pods, c.owner ≠ .other →
      (claimDecision i.view.deleting c = .release ∨ claimDecision i.view.deleting c = .adopt) → NoColon c.name →
      f { verb := "patch", res := "pod", name := c.name } = true)
    (hrenum : ∀ r ∈ sortRevs (listRevisions st1), NoColon r.name →
      f { verb := "update", res := "rev", name := r.name } = true)
    (hgetrev : ∀ n, NoColon n → f { verb := "get", res := "rev", name := n } = true)
    (hcreate : ∀ n, NoColon n → f { verb := "create", res := "rev", name := n } = true)
    (hdelete : ∀ r ∈ sortRevs (listRevisions st1), r.owner = .self → NoColon r.name →
      f { verb := "delete", res := "rev", name := r.name } = true)
    (hact : ∀ a ∈ acts, match a with
      | .create o rv => NoColon (actName i.setName claimed (.create o rv)) →
          f { verb := "create", res := "pod", name := actName i.setName claimed (.create o rv) } = true
      | .delete o id w => NoColon (actName i.setName claimed (.delete o id w)) →
          f { verb := "delete", res := "pod", name := actName i.setName claimed (.delete o id w) } = true
      | .update o => NoColon (canonicalName i.setName o) →
          f { verb := "update", res := "pod", name := canonicalName i.setName o } = true) :
    ∀ e, PreEntry i st1 e ∨ ActEntry i plan claimed acts e → f (parseEntry e) = true := by
  intro e he
  rcases he with (⟨hd, he⟩ | ⟨hd, he⟩ | he | he | he | he) | he
  · -- adoption phase
    rcases he with rfl | rfl | ⟨r, hr, hm, _, rfl⟩ | ⟨r, hr, ho, rfl⟩
    · rw [parseEntry_list_revs]; exact hlist
    · rw [parseEntry_get_set]; exact hgetset hd
    · exact check_key pre_update_rev r.name f (hlabel hd r hr hm) (hcolon _ _ _ _ pre_update_rev)
    · exact check_key pre_patch_rev r.name f (hadopt hd r hr ho) (hcolon _ _ _ _ pre_patch_rev)
  · -- claim pass
    rcases he with rfl | ⟨c, hc, rfl, hno, hdec⟩
    · rw [parseEntry_get_set]; exact hgetset hd
    · exact check_key pre_patch_pod c.name f (hclaim hd c hc hno hdec) (hcolon _ _ _ _ pre_patch_pod)
  · subst he; rw [parseEntry_list_revs]; exact hlist
  · rcases he with ⟨r, hr, rfl⟩ | ⟨n, rfl⟩ | ⟨n, rfl⟩
    · exact check_key pre_update_rev r.name f (hrenum r hr) (hcolon _ _ _ _ pre_update_rev)
    · exact check_key pre_get_rev n f (hgetrev n) (hcolon _ _ _ _ pre_get_rev)
    · exact check_key pre_create_rev n f (hcreate n) (hcolon _ _ _ _ pre_create_rev)
  · subst he; rw [parseEntry_updatestatus]; exact hstatus
  · obtain ⟨r, hr, ho, rfl⟩ := he
    exact check_key pre_delete_rev r.name f (hdelete r hr ho) (hcolon _ _ _ _ pre_delete_rev)
  · obtain ⟨a, ha, hea⟩ := he
    have := hact a ha
    cases a with
    | create o rv =>
      simp only [actLog, List.mem_singleton] at hea
      subst hea
      exact check_key pre_create_pod _ f this (hcolon _ _ _ _ pre_create_pod)
    | delete o id w =>
      simp only [actLog, List.mem_singleton] at hea
      subst hea
      exact check_key pre_delete_pod _ f this (hcolon _ _ _ _ pre_delete_pod)
    | update o =>
      simp only [actLog] at hea
      obtain rfl := (List.mem_replicate.1 hea).2
      exact check_key pre_update_pod _ f this (hcolon _ _ _ _ pre_update_pod)

end Asts.SYa
