import Mathlib.Tactic
import Asts.Proofs.L1_a_Loops
import Asts.Proofs.GL2_Rc

/-! # GL2 — what stands before a create in the action list of a reconcile

Creates are issued by the replica loop only. The replica loop visits the desired ordinals once each, in ascending order, and
at each ordinal `i` it issues at most: the delete of the Failed/Succeeded pod object stored at `i` (an object of the
snapshot that parses to `i`), then a create at `i` or an identity update at `i`. Hence every delete that stands before a
create names a pod of the snapshot at the delete's own ordinal, and no two of these deletes have the same ordinal
(`before_create`). -/
namespace Asts.GL2
open Asts

def isCreateA : Action → Bool | .create _ _ => true | _ => false

/-- ordinals of the deletes of an action list, in order -/
def delOrds (l : List Action) : List Int := l.filterMap (fun a => match a with | .delete o _ _ => some o | _ => none)

/-- a delete names a pod of the snapshot, by identity, at that pod's ordinal -/
def DelOK (pods : List Pod) : Action → Prop
  | .delete o id _ => ∃ p ∈ pods, p.id = id ∧ p.ord = o
  | _ => True

theorem delOrds_append (a b : List Action) : delOrds (a ++ b) = delOrds a ++ delOrds b := by
  simp [delOrds, List.filterMap_append]

/-- what `ensurePod` appends at ordinal `i` -/
def EnsActs (i : Int) (l : List Action) : Prop := l = [] ∨ l = [.update i] ∨ ∃ r, l = [.create i r]

theorem ensurePod_acts (cur upd : String) (f : Faults) (mono : Bool) (s : St) (i : Int) (p : Pod) :
    ∃ l, (ensurePod cur upd f mono s i p).st.acts = s.acts ++ l ∧ EnsActs i l := by
  unfold ensurePod
  by_cases h1 : (!p.created) = true
  · rw [if_pos h1]
    by_cases h2 : f.hit 0 i = true
    · rw [if_pos h2]; exact ⟨[.create i p.rev], rfl, Or.inr (Or.inr ⟨_, rfl⟩)⟩
    · rw [if_neg h2]
      simp only
      by_cases h3 : mono = true
      · rw [if_pos h3]; exact ⟨[.create i p.rev], rfl, Or.inr (Or.inr ⟨_, rfl⟩)⟩
      · rw [if_neg h3]; exact ⟨[.create i p.rev], rfl, Or.inr (Or.inr ⟨_, rfl⟩)⟩
  · rw [if_neg h1]
    by_cases h2 : (p.terminating && mono) = true
    · rw [if_pos h2]; exact ⟨[], by simp, Or.inl rfl⟩
    · rw [if_neg h2]
      by_cases h3 : (!p.runningAndReady && mono) = true
      · rw [if_pos h3]; exact ⟨[], by simp, Or.inl rfl⟩
      · rw [if_neg h3]
        by_cases h4 : (p.idOk && p.stOk) = true
        · rw [if_pos h4]; exact ⟨[], by simp, Or.inl rfl⟩
        · rw [if_neg h4]
          by_cases h5 : f.hit 2 i = true
          · rw [if_pos h5]; exact ⟨[.update i], rfl, Or.inr (Or.inl rfl)⟩
          · rw [if_neg h5]; exact ⟨[.update i], rfl, Or.inr (Or.inl rfl)⟩

/-- what one iteration of the replica loop appends at ordinal `i`, the slot holding `p0` -/
def StepActs (i : Int) (p0 : Pod) (l : List Action) : Prop :=
  EnsActs i l ∨ ((p0.failed || p0.succeeded) = true ∧ ∃ l', l = .delete i p0.id .replaceFailed :: l' ∧ EnsActs i l')

theorem replicaStep_acts (v : SetView) (cur upd : String) (f : Faults) (mono : Bool) (s : St) (i : Int) (p0 : Pod) :
    ∃ l, (replicaStep v cur upd f mono s i p0).1.st.acts = s.acts ++ l ∧ StepActs i p0 l := by
  unfold replicaStep replaceFailed
  by_cases hfs : (p0.failed || p0.succeeded) = true
  · rw [if_pos hfs]
    by_cases hh : f.hit 1 i = true
    · rw [if_pos hh]
      exact ⟨[.delete i p0.id .replaceFailed], rfl, Or.inr ⟨hfs, [], rfl, Or.inl rfl⟩⟩
    · rw [if_neg hh]
      simp only
      obtain ⟨l', hl', he⟩ := ensurePod_acts cur upd f mono
        { acts := s.acts ++ [.delete i p0.id .replaceFailed],
          status := { (if p0.terminating then s.status else bump s.status cur upd p0.rev (-1)) with
            replicas := (if p0.terminating then s.status else bump s.status cur upd p0.rev (-1)).replicas - 1 } }
        i (newPod v cur upd i)
      refine ⟨.delete i p0.id .replaceFailed :: l', ?_, Or.inr ⟨hfs, l', rfl, he⟩⟩
      rw [hl']; simp
  · rw [if_neg hfs]
    simp only
    obtain ⟨l, hl, he⟩ := ensurePod_acts cur upd f mono s i p0
    exact ⟨l, hl, Or.inl he⟩

/-- what the replica loop appends over the slots `reps` (it may stop early: the rest is then empty) -/
def LoopActs : List (Int × Pod) → List Action → Prop
  | [], l => l = []
  | ip :: rest, l => ∃ l1 l2, l = l1 ++ l2 ∧ StepActs ip.1 ip.2 l1 ∧ LoopActs rest l2

theorem loopActs_nil : ∀ reps : List (Int × Pod), LoopActs reps []
  | [] => rfl
  | _ :: rest => ⟨[], [], rfl, Or.inl (Or.inl rfl), loopActs_nil rest⟩

theorem replicaLoop_acts (v : SetView) (cur upd : String) (f : Faults) (mono : Bool) :
    ∀ (reps : List (Int × Pod)) (s : St),
      ∃ l, (replicaLoop v cur upd f mono s reps).1.st.acts = s.acts ++ l ∧ LoopActs reps l
  | [], s => ⟨[], by simp [replicaLoop], rfl⟩
  | (i, p) :: rest, s => by
    obtain ⟨l1, hl1, hs1⟩ := replicaStep_acts v cur upd f mono s i p
    unfold replicaLoop
    rcases hstep : replicaStep v cur upd f mono s i p with ⟨c, p'⟩
    rw [hstep] at hl1
    cases c with
    | next s' =>
      simp only [Ctl.st_next] at hl1
      obtain ⟨l2, hl2, hs2⟩ := replicaLoop_acts v cur upd f mono rest s'
      refine ⟨l1 ++ l2, ?_, l1, l2, rfl, hs1, hs2⟩
      simp only
      rw [hl2, hl1, List.append_assoc]
    | done s' o =>
      simp only [Ctl.st_done] at hl1
      exact ⟨l1, by simpa using hl1, l1, [], by simp, hs1, loopActs_nil rest⟩

theorem ensActs_facts {pods : List Pod} {i : Int} {l : List Action} (h : EnsActs i l) :
    (∀ a ∈ l, DelOK pods a) ∧ delOrds l = [] := by
  rcases h with rfl | rfl | ⟨r, rfl⟩
  · exact ⟨by simp, rfl⟩
  · exact ⟨by simp [DelOK], rfl⟩
  · exact ⟨by simp [DelOK], rfl⟩

theorem loopActs_facts (pods : List Pod) : ∀ (reps : List (Int × Pod)) (l : List Action), LoopActs reps l →
    (∀ ip ∈ reps, (ip.2.failed || ip.2.succeeded) = true → ip.2 ∈ pods ∧ ip.2.ord = ip.1) →
    (∀ a ∈ l, DelOK pods a) ∧ (delOrds l).Sublist (reps.map (·.1))
  | [], l, h, _ => by
    have : l = [] := h
    subst this
    exact ⟨by simp, by simp [delOrds]⟩
  | ip :: rest, l, h, hreps => by
    obtain ⟨l1, l2, rfl, hs1, hs2⟩ := h
    obtain ⟨ih1, ih2⟩ := loopActs_facts pods rest l2 hs2 (fun ip' hip' => hreps ip' (List.mem_cons_of_mem _ hip'))
    rcases hs1 with he | ⟨hfs, l', rfl, he⟩
    · obtain ⟨e1, e2⟩ := ensActs_facts (pods := pods) he
      refine ⟨?_, ?_⟩
      · intro a ha
        rcases List.mem_append.1 ha with ha | ha
        · exact e1 a ha
        · exact ih1 a ha
      · rw [delOrds_append, e2, List.nil_append, List.map_cons]
        exact ih2.cons _
    · obtain ⟨e1, e2⟩ := ensActs_facts (pods := pods) he
      obtain ⟨hp, hord⟩ := hreps ip (List.mem_cons_self) hfs
      refine ⟨?_, ?_⟩
      · intro a ha
        rcases List.mem_append.1 ha with ha | ha
        · rcases List.mem_cons.1 ha with rfl | ha
          · exact ⟨ip.2, hp, rfl, hord⟩
          · exact e1 a ha
        · exact ih1 a ha
      · rw [delOrds_append]
        have : delOrds (Action.delete ip.1 ip.2.id Why.replaceFailed :: l') = [ip.1] := by
          have := delOrds_append [Action.delete ip.1 ip.2.id Why.replaceFailed] l'
          simp only [List.singleton_append] at this
          rw [this, e2]; rfl
        rw [this, List.map_cons]
        exact ih2.cons_cons _

/-! ## the other two loops issue no create -/

theorem condemnedLoop_nocreate (cur upd : String) (f : Faults) (mono : Bool) (fu : Option Pod) :
    ∀ (cs : List Pod) (s : St),
      ∃ l, (condemnedLoop cur upd f mono fu s cs).st.acts = s.acts ++ l ∧ ∀ a ∈ l, isCreateA a = false
  | [], s => ⟨[], by simp [condemnedLoop], by simp⟩
  | c :: rest, s => by
    unfold condemnedLoop
    by_cases h1 : c.terminating = true
    · rw [if_pos h1]
      by_cases h2 : mono = true
      · rw [if_pos h2]; exact ⟨[], by simp, by simp⟩
      · rw [if_neg h2]; exact condemnedLoop_nocreate cur upd f mono fu rest s
    · rw [if_neg h1]
      by_cases h2 : (!c.runningAndReady && mono && (fu.map (·.id) != some c.id)) = true
      · rw [if_pos h2]; exact ⟨[], by simp, by simp⟩
      · rw [if_neg h2]
        by_cases h3 : f.hit 1 c.ord = true
        · rw [if_pos h3]; exact ⟨[.delete c.ord c.id .scaleDown], rfl, by simp [isCreateA]⟩
        · rw [if_neg h3]
          simp only
          by_cases h4 : mono = true
          · rw [if_pos h4]; exact ⟨[.delete c.ord c.id .scaleDown], rfl, by simp [isCreateA]⟩
          · rw [if_neg h4]
            obtain ⟨l, hl, hn⟩ := condemnedLoop_nocreate cur upd f mono fu rest
              { acts := s.acts ++ [.delete c.ord c.id .scaleDown], status := bump s.status cur upd c.rev (-1) }
            refine ⟨.delete c.ord c.id .scaleDown :: l, by rw [hl]; simp, ?_⟩
            intro a ha
            rcases List.mem_cons.1 ha with rfl | ha
            · rfl
            · exact hn a ha

theorem updateWalk_nocreate (cur upd : String) (f : Faults) :
    ∀ (W : List (Int × Pod)) (s : St),
      ∃ l, (updateWalk cur upd f s W).1.acts = s.acts ++ l ∧ ∀ a ∈ l, isCreateA a = false
  | [], s => ⟨[], by simp [updateWalk], by simp⟩
  | (t, p) :: rest, s => by
    unfold updateWalk
    by_cases h1 : (p.rev != upd && !p.terminating) = true
    · rw [if_pos h1]; exact ⟨[.delete t p.id .update], rfl, by simp [isCreateA]⟩
    · rw [if_neg h1]
      by_cases h2 : (!p.healthy) = true
      · rw [if_pos h2]; exact ⟨[], by simp, by simp⟩
      · rw [if_neg h2]; exact updateWalk_nocreate cur upd f rest s

theorem updateStage_nocreate (v : SetView) (cur upd : String) (f : Faults) (reps : List (Int × Pod)) (s : St) :
    ∃ l, (updateStage v cur upd f reps s).1.acts = s.acts ++ l ∧ ∀ a ∈ l, isCreateA a = false := by
  unfold updateStage
  by_cases h : (v.strat == .onDelete) = true
  · rw [if_pos h]; exact ⟨[], by simp, by simp⟩
  · rw [if_neg h]; exact updateWalk_nocreate cur upd f _ s

/-- the three loops: the actions of the replica loop, then actions that are no creates -/
theorem runLoops_acts (v : SetView) (cur upd : String) (f : Faults) (p : Prepared) :
    ∃ l1 l2, (runLoops v cur upd f p).1.acts = l1 ++ l2 ∧ LoopActs p.reps l1 ∧ ∀ a ∈ l2, isCreateA a = false := by
  obtain ⟨l1, hl1, hs1⟩ := replicaLoop_acts v cur upd f (!v.parallel) p.reps { status := p.st0 }
  unfold runLoops
  simp only
  rcases hrl : replicaLoop v cur upd f (!v.parallel) { status := p.st0 } p.reps with ⟨c, reps'⟩
  rw [hrl] at hl1
  cases c with
  | done s o =>
    simp only [Ctl.st_done, List.nil_append] at hl1
    exact ⟨l1, [], by simpa using hl1, hs1, by simp⟩
  | next s =>
    simp only [Ctl.st_next, List.nil_append] at hl1
    simp only
    obtain ⟨l2, hl2, hn2⟩ := condemnedLoop_nocreate cur upd f (!v.parallel) p.fu p.condemned.reverse s
    rcases hcl : condemnedLoop cur upd f (!v.parallel) p.fu s p.condemned.reverse with s2 | ⟨s2, o⟩
    · rw [hcl] at hl2
      simp only [Ctl.st_next] at hl2
      simp only
      obtain ⟨l3, hl3, hn3⟩ := updateStage_nocreate v cur upd f reps' s2
      refine ⟨l1, l2 ++ l3, by rw [hl3, hl2, hl1, List.append_assoc], hs1, ?_⟩
      intro a ha
      rcases List.mem_append.1 ha with ha | ha
      · exact hn2 a ha
      · exact hn3 a ha
    · rw [hcl] at hl2
      simp only [Ctl.st_done] at hl2
      exact ⟨l1, l2, by simp only; rw [hl2, hl1], hs1, hn2⟩

theorem podOrdinals_nodup (r : Int) (S : List Int) : (podOrdinals r S).Nodup := by
  unfold podOrdinals
  exact ((List.nodup_range).map (fun a b h => by simpa using h)).filter _

/-- **what stands before a create**: every delete before it names a pod of the snapshot at the delete's own ordinal, and
    these deletes have pairwise distinct ordinals -/
theorem before_create (v : SetView) (cur upd : String) (pods : List Pod) (f : Faults) {X Y : List Action} {o : Int}
    {r : String} (h : (updateStatefulSet v cur upd pods f).1.acts = X ++ .create o r :: Y) :
    (∀ a ∈ X, DelOK pods a) ∧ (delOrds X).Nodup := by
  unfold updateStatefulSet at h
  cases hp : prepare v cur upd pods with
  | error e =>
    rw [hp] at h
    obtain ⟨st, oc⟩ := e
    simp only at h
    exact absurd h (by simp)
  | ok p =>
    rw [hp] at h
    simp only at h
    by_cases hd : v.deleting = true
    · rw [if_pos hd] at h
      exact absurd h (by simp)
    · rw [if_neg hd] at h
      cases hr : v.replicas with
      | none =>
        exfalso
        unfold prepare at hp
        rw [hr] at hp
        cases hp
      | some rr =>
        have hinv := prepare_inv hr hp
        obtain ⟨l1, l2, hacts, hloop, hnc⟩ := runLoops_acts v cur upd f p
        rw [hacts] at h
        have hreps : ∀ ip ∈ p.reps, (ip.2.failed || ip.2.succeeded) = true → ip.2 ∈ pods ∧ ip.2.ord = ip.1 := by
          intro ip hip hfs
          obtain ⟨_, hord, hmem⟩ := hinv.rep ip hip
          refine ⟨?_, hord⟩
          rcases hmem with hmem | ⟨hnew, _⟩
          · exact hmem
          · rw [hnew, newPod_not_failed] at hfs
            cases hfs
        obtain ⟨f1, f2⟩ := loopActs_facts pods p.reps l1 hloop hreps
        have hnd : (delOrds l1).Nodup := by
          refine f2.nodup ?_
          rw [hinv.idx]
          exact podOrdinals_nodup rr v.slots
        -- the create stands in `l1`
        have hX : ∃ Z, l1 = X ++ .create o r :: Z := by
          rcases List.append_eq_append_iff.1 h with ⟨a', h1, h2⟩ | ⟨c', h1, h2⟩
          · exfalso
            have := hnc (.create o r) (by rw [h2]; simp)
            cases this
          · cases c' with
            | nil =>
              exfalso
              simp only [List.nil_append] at h2
              have := hnc (.create o r) (by rw [← h2]; simp)
              cases this
            | cons x c'' =>
              simp only [List.cons_append, List.cons.injEq] at h2
              exact ⟨c'', by rw [h1, h2.1]⟩
        obtain ⟨Z, hZ⟩ := hX
        refine ⟨fun a ha => f1 a (by rw [hZ]; exact List.mem_append_left _ ha), ?_⟩
        rw [hZ, delOrds_append] at hnd
        exact hnd.of_append_left

end Asts.GL2
