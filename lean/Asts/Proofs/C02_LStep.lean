import Asts.Proofs.C02_LWeights
import Asts.Proofs.L1_c_Track

/-! C02, legacy boundary mode, policy-independent: one round on a normal, settled world whose reconcile is a walk-free list
    of calls `A` (satisfying `ActFacts`, deleting no live pod in range) followed by at most one update-walk delete of a pod
    `tg` — an old pod or one created by `A` at the current revision. -/
namespace Asts.C02p
open Asts Asts.L1c

section
variable {h : Hashing} {j : SyncIn}

structure LPol (hs : NSC h j) (A : List Action) (tg : Option (Int × Pod)) : Prop where
  legacy : j.view.strat = .rolling ∧ j.view.ru = none
  ok : hs.norm.recon.2 = .ok
  acts : hs.norm.recon.1.acts = A ++ walkActs tg
  facts : ActFacts j.view hs.norm.curRev.name hs.norm.updRev.name (bOf j) (EOf j) j.pods A
  noLive : ∀ c ∈ j.pods, DelHits A c.pod.id → c.pod.fs = true ∨ inRange (bOf j) (EOf j) c.pod.ord = false
  tgt : ∀ t q, tg = some (t, q) → inRange (bOf j) (EOf j) t = true ∧ q.rev ≠ hs.norm.updRev.name ∧
      ((∃ c ∈ j.pods, c.pod = q ∧ c.pod.ord = t ∧ c.pod.fs = false) ∨
       (q.id = freshId + t.toNat ∧ Action.create t q.rev ∈ A)) ∧
      (∀ o, inRange (bOf j) (EOf j) o = true → o ≠ t →
         (∃ c ∈ j.pods, c.pod.ord = o ∧ c.pod.fs = false) ∨ ∃ rev, Action.create o rev ∈ A) ∧
      (hs.norm.curRev.name ≠ hs.norm.updRev.name → hs.norm.recon.1.status.current ≤ t)
  vac : ∀ o, inRange (bOf j) (EOf j) o = true → (∀ c ∈ j.pods, c.pod.ord ≠ o) → (∀ rev, Action.create o rev ∉ A) →
      ∃ o', inRange (bOf j) (EOf j) o' = true ∧ o' ≠ o ∧ ∀ c ∈ j.pods, c.pod.ord = o' → c.pod.fs = true

variable {hs : NSC h j} {A : List Action} {tg : Option (Int × Pod)}

/-- the pods the walk-free calls leave -/
def baseNext (j : SyncIn) (A : List Action) : List CPod := nextRawG j.setName j.pods A

theorem LPol.rawNext_none (hl : LPol hs A tg) (htg : tg = none) : rawNext hs.norm = baseNext j A := by
  unfold rawNext baseNext
  rw [hl.acts, htg]
  simp [walkActs]

theorem LPol.rawNext_some (hl : LPol hs A tg) {t : Int} {q : Pod} (htg : tg = some (t, q)) :
    rawNext hs.norm = (baseNext j A).filter (fun x => x.pod.id != q.id) := by
  unfold rawNext baseNext
  rw [hl.acts, htg]
  exact nextRawG_snoc_delete _ _ _ _ _ _

theorem LPol.sub (hl : LPol hs A tg) : (rawNext hs.norm).Sublist (baseNext j A) := by
  cases htg : tg with
  | none => rw [hl.rawNext_none htg]
  | some tq => obtain ⟨t, q⟩ := tq; rw [hl.rawNext_some htg]; exact List.filter_sublist

theorem LPol.pol (hl : LPol hs A tg) : Pol hs.norm := ⟨hl.ok, A, hl.facts, hl.sub⟩

/-- a pod the walk-free calls leave is still there unless it is the walk's target -/
theorem LPol.mem_of_base (hl : LPol hs A tg) {x : CPod} (hx : x ∈ baseNext j A)
    (hid : ∀ t q, tg = some (t, q) → x.pod.id ≠ q.id) : x ∈ rawNext hs.norm := by
  cases htg : tg with
  | none => rw [hl.rawNext_none htg]; exact hx
  | some tq =>
    obtain ⟨t, q⟩ := tq
    rw [hl.rawNext_some htg, List.mem_filter]
    exact ⟨hx, by simpa [bne] using hid t q htg⟩

/-- ids of the pods the walk-free calls leave -/
theorem base_id (hl : LPol hs A tg) {x : CPod} (hx : x ∈ baseNext j A) :
    (∃ c ∈ j.pods, ¬ DelHits A c.pod.id ∧ SameBody c x) ∨
    (∃ o rev, Action.create o rev ∈ A ∧ x = settleOne (mkPod j.setName o rev)) := by
  rcases nextRawG_mem hs.ctx hl.facts hx with ⟨c, hcm, hnd, hsame, _⟩ | ⟨o, rev, hcr, rfl⟩
  · exact Or.inl ⟨c, hcm, hnd, hsame⟩
  · exact Or.inr ⟨o, rev, hcr, rfl⟩

/-- the walk's target is gone, and nothing else sits at its ordinal -/
theorem LPol.target_gone (hl : LPol hs A tg) {t : Int} {q : Pod} (htg : tg = some (t, q)) :
    ∀ x ∈ rawNext hs.norm, x.pod.ord ≠ t := by
  intro x hx hxo
  have hctx := hs.ctx
  obtain ⟨hr, _, hkind, _, _⟩ := hl.tgt t q htg
  have hx0 : x ∈ baseNext j A := hl.sub.subset hx
  have hidne : x.pod.id ≠ q.id := by
    have := hx
    rw [hl.rawNext_some htg] at this
    simp only [List.mem_filter, bne_iff_ne, ne_eq] at this
    exact this.2
  rcases base_id hl hx0 with ⟨c, hcm, hnd, hsame⟩ | ⟨o, rev, hcr, rfl⟩
  · have hco : c.pod.ord = t := by rw [← hsame.ord]; exact hxo
    rcases hkind with ⟨cT, hcT, hq, hcTo, _⟩ | ⟨_, hcre⟩
    · have : cT = c := hctx.ord_inj hcT hcm (by rw [hcTo, hco])
      subst this
      exact hidne (by rw [hsame.id, hq])
    · obtain ⟨_, _, hcase⟩ := hl.facts.cre t q.rev hcre
      rcases hcase with hnone | ⟨c', hc', hco', _, hd⟩
      · exact hnone c hcm hco
      · have : c' = c := hctx.ord_inj hc' hcm (by rw [hco', hco])
        subst this
        exact hnd hd
  · have ho : o = t := by rw [← hxo, settleOne_ord]; rfl
    subst ho
    rcases hkind with ⟨cT, hcT, _, hcTo, hfsT⟩ | ⟨hqid, _⟩
    · obtain ⟨_, _, hcase⟩ := hl.facts.cre o rev hcr
      rcases hcase with hnone | ⟨c', hc', hco', hfs', _⟩
      · exact hnone cT hcT hcTo
      · have : c' = cT := hctx.ord_inj hc' hcT (by rw [hco', hcTo])
        subst this
        rw [hfsT] at hfs'; cases hfs'
    · apply hidne
      rw [settleOne_id, hqid]; rfl

/-- a pod the walk-free calls leave at another ordinal than the target's is still there -/
theorem LPol.mem_of_base_ord (hl : LPol hs A tg) {x : CPod} (hx : x ∈ baseNext j A)
    (hne : ∀ t q, tg = some (t, q) → x.pod.ord ≠ t) : x ∈ rawNext hs.norm := by
  have hctx := hs.ctx
  apply hl.mem_of_base hx
  intro t q htg hid
  obtain ⟨hr, _, hkind, _, _⟩ := hl.tgt t q htg
  have ht0 : 0 ≤ t := by
    unfold inRange at hr; simp only [Bool.and_eq_true, decide_eq_true_eq] at hr; exact hr.1.1
  rcases base_id hl hx with ⟨c, hcm, hnd, hsame⟩ | ⟨o, rev, hcr, rfl⟩
  · rcases hkind with ⟨cT, hcT, hq, hcTo, _⟩ | ⟨hqid, _⟩
    · have : c = cT := hctx.id_inj hcm hcT (by rw [← hsame.id, hid, hq])
      subst this
      exact hne t q htg (by rw [hsame.ord, hcTo])
    · have := hctx.id_lt hcm
      rw [← hsame.id, hid, hqid] at this
      omega
  · rcases hkind with ⟨cT, hcT, hq, _, _⟩ | ⟨hqid, _⟩
    · have := hctx.id_lt hcT
      rw [hq, ← hid, settleOne_id] at this
      simp only [mkPod] at this
      omega
    · rw [settleOne_id, hqid] at hid
      simp only [mkPod] at hid
      have hr' := (hl.facts.cre o rev hcr).1
      unfold inRange at hr'; simp only [Bool.and_eq_true, decide_eq_true_eq] at hr'
      have : o = t := by omega
      exact hne t q htg (by rw [settleOne_ord]; exact this)

end

end Asts.C02p

namespace Asts.C02p
open Asts Asts.L1c

section
variable {h : Hashing} {j : SyncIn} {hs : NSC h j} {A : List Action} {tg : Option (Int × Pod)}

theorem uss_status_names (v : SetView) (cur upd : String) (pods : List Pod) (s : St) (o : Outcome)
    (hres : updateStatefulSet v cur upd pods [] = (s, o)) (hok : o = .ok) :
    s.status.currentRev = cur ∧ s.status.updateRev = upd := by
  subst hok
  have hpost := updateStatefulSet_post v cur upd pods [] s hres
  exact ⟨hpost.2.1, hpost.2.2.1⟩

theorem recon_status_names (hn : NormC h j) (hok : hn.recon.2 = .ok) :
    hn.recon.1.status.currentRev = hn.curRev.name ∧ hn.recon.1.status.updateRev = hn.updRev.name := by
  have e : updateStatefulSet j.view hn.curRev.name hn.updRev.name (j.pods.map (·.pod)) [] = hn.recon := by
    unfold NormC.recon; rfl
  have key : ∀ ro : St × Outcome, updateStatefulSet j.view hn.curRev.name hn.updRev.name (j.pods.map (·.pod)) [] = ro →
      ro.2 = .ok → ro.1.status.currentRev = hn.curRev.name ∧ ro.1.status.updateRev = hn.updRev.name := by
    intro ro hro hok'
    obtain ⟨s, o⟩ := ro
    exact uss_status_names _ _ _ _ s o hro hok'
  exact key hn.recon e hok

theorem cru_cases (v : SetView) (st : Status) :
    completeRollingUpdate v st = st ∨ (completeRollingUpdate v st).currentRev = st.updateRev := by
  unfold completeRollingUpdate
  split_ifs
  · right; rfl
  · left; rfl

theorem updName_next (hl : LPol hs A tg) : updName (nextW h j) = hs.norm.updRev.name := by
  unfold updName
  rw [nextW_last hs hl.pol]; rfl

theorem curNameOf_of_upd {i : SyncIn} (hc : i.stored.currentRev = updName i) : curNameOf i = updName i := by
  unfold curNameOf
  cases hf : (listedRevs i).find? (·.name == i.stored.currentRev) with
  | none => rfl
  | some x =>
    have := List.find?_some hf
    simp only [beq_iff_eq] at this
    simp [this, hc]

theorem curNameOf_eq (hn : NormC h j) : curNameOf j = hn.curRev.name := by
  unfold curNameOf NormC.curRev
  cases hf : (listedRevs j).find? (·.name == j.stored.currentRev) with
  | none => simp [hn.updName]
  | some x => simp

/-- **the vacancy the update walk leaves is refilled at the update revision** -/
theorem next_good_rev (hl : LPol hs A tg) {t : Int} {q : Pod} (htg : tg = some (t, q)) :
    newPodRev (nextW h j).view (curNameOf (nextW h j)) hs.norm.updRev.name t = hs.norm.updRev.name := by
  have hn := hs.norm
  have hp := hl.pol
  obtain ⟨hcurN, hupdN⟩ := recon_status_names hn hl.ok
  have hcons := storedNext_cons hn
  obtain ⟨_, _, e2, _, _, e5, _⟩ := inconsistent_false hcons
  have hstored := nextW_stored hs hp
  have hview := nextW_view hs hp
  have hupd' := updName_next hl
  -- when the stored current revision is the update revision, the resolved one is too
  have hcaseA : (nextW h j).stored.currentRev = hn.updRev.name →
      newPodRev (nextW h j).view (curNameOf (nextW h j)) hn.updRev.name t = hn.updRev.name := by
    intro hc
    have : curNameOf (nextW h j) = hn.updRev.name := by
      rw [← hupd']; exact curNameOf_of_upd (by rw [hupd']; exact hc)
    rw [this]
    unfold newPodRev
    split_ifs <;> rfl
  rcases cru_cases j.view hn.recon.1.status with hsame | hfired
  · by_cases hne : hn.curRev.name = hn.updRev.name
    · apply hcaseA
      rw [hstored, ← e5, hsame, hcurN, hne]
    · have hb := (hl.tgt t q htg).2.2.2.2 hne
      have hcr : (nextW h j).view.stCurrentReplicas = hn.recon.1.status.current := by
        rw [hview]
        show (storedNext hn).current = _
        rw [← e2, hsame]
      unfold newPodRev
      have hru : (nextW h j).view.ru = none := by rw [hview]; exact hl.legacy.2
      rw [hcr, hru]
      have : ¬ (t < hn.recon.1.status.current) := by omega
      simp [this]
  · apply hcaseA
    rw [hstored, ← e5, hfired, hupdN]

end

end Asts.C02p

namespace Asts.C02p
open Asts Asts.L1c

section
variable {h : Hashing} {j : SyncIn} {hs : NSC h j} {A : List Action} {tg : Option (Int × Pod)}

/-- after the walk took a pod down, its ordinal is the only one without a live pod, and it weighs 1 -/
theorem good_after (hl : LPol hs A tg) {t : Int} {q : Pod} (htg : tg = some (t, q)) :
    wLOf (nextW h j).view (curNameOf (nextW h j)) hs.norm.updRev.name (rawNext hs.norm)
      (desired (replicasOf j.view) j.view.slots) t = 1 := by
  have hn := hs.norm
  have hctx := hs.ctx
  obtain ⟨_, _, _, hall, _⟩ := hl.tgt t q htg
  apply wLOf_none_good (hl.target_gone htg) _ (next_good_rev hl htg)
  rw [onlyNeedy_iff]
  intro o' ho' hne
  have hr' := (mem_desired_iff hn o').1 ho'
  rcases hall o' hr' hne with ⟨c, hcm, hco, hfs⟩ | ⟨rev, hcr⟩
  · have hnd : ¬ DelHits A c.pod.id := by
      intro hd
      rcases hl.noLive c hcm hd with h1 | h1
      · rw [hfs] at h1; cases h1
      · rw [hco, hr'] at h1; cases h1
    obtain ⟨x, hx, hsame, _, _⟩ := nextRawG_survivor (setName := j.setName) (acts := A) hctx hcm hnd
    refine ⟨x, hl.mem_of_base_ord hx ?_, by rw [hsame.ord]; exact hco, ?_⟩
    · intro t' q' htg'
      rw [htg] at htg'
      simp only [Option.some.injEq, Prod.mk.injEq] at htg'
      rw [hsame.ord, hco, ← htg'.1]; exact hne
    · unfold Pod.fs Pod.failed Pod.succeeded at hfs ⊢; rw [hsame.phase]; exact hfs
  · have hx := nextRawG_new hctx hl.facts hcr
    refine ⟨_, hl.mem_of_base_ord hx ?_, by rw [settleOne_ord]; rfl, ?_⟩
    · intro t' q' htg'
      rw [htg] at htg'
      simp only [Option.some.injEq, Prod.mk.injEq] at htg'
      rw [settleOne_ord, ← htg'.1]; exact hne
    · rw [settleOne_mkPod]; simp [Pod.fs, Pod.failed, Pod.succeeded]

/-- **legacy weights, ordinal by ordinal** -/
theorem lstep_weight (hl : LPol hs A tg) {o : Int} (ho : inRange (bOf j) (EOf j) o = true) :
    wLOf (nextW h j).view (curNameOf (nextW h j)) hs.norm.updRev.name (rawNext hs.norm)
        (desired (replicasOf j.view) j.view.slots) o ≤
      wLOf j.view hs.norm.curRev.name hs.norm.updRev.name j.pods (desired (replicasOf j.view) j.view.slots) o ∧
    (((∃ rev, Action.create o rev ∈ A) ∨ (∃ q, tg = some (o, q)) ∨
      (∃ c ∈ j.pods, c.pod.ord = o ∧ c.pod.fs = false ∧ c.pod.idOk = false ∧ Action.update o ∈ A)) →
      wLOf (nextW h j).view (curNameOf (nextW h j)) hs.norm.updRev.name (rawNext hs.norm)
        (desired (replicasOf j.view) j.view.slots) o <
      wLOf j.view hs.norm.curRev.name hs.norm.updRev.name j.pods (desired (replicasOf j.view) j.view.slots) o) := by
  have hn := hs.norm
  have hctx := hs.ctx
  have hndN := rawNext_nodup hs hl.pol
  have hD := mem_desired_iff hn
  -- what a target at `o` looks like
  have htgo : ∀ q, tg = some (o, q) →
      (∃ c ∈ j.pods, c.pod = q ∧ c.pod.ord = o ∧ c.pod.fs = false ∧ q.rev ≠ hn.updRev.name) ∨
      (Action.create o q.rev ∈ A ∧ q.rev ≠ hn.updRev.name) := by
    intro q hq
    obtain ⟨_, hrev, hkind, _, _⟩ := hl.tgt o q hq
    rcases hkind with ⟨c, hcm, h1, h2, h3⟩ | ⟨_, hcre⟩
    · exact Or.inl ⟨c, hcm, h1, h2, h3, hrev⟩
    · exact Or.inr ⟨hcre, hrev⟩
  by_cases hcre : ∃ rev, Action.create o rev ∈ A
  · obtain ⟨rev, hcr⟩ := hcre
    obtain ⟨_, hrev, hcase⟩ := hl.facts.cre o rev hcr
    -- the old weight is at least 1, and 4 or 5 unless a new pod comes at the update revision
    have hold : 1 ≤ wLOf j.view hn.curRev.name hn.updRev.name j.pods (desired (replicasOf j.view) j.view.slots) o ∧
        (newPodRev j.view hn.curRev.name hn.updRev.name o ≠ hn.updRev.name →
          4 ≤ wLOf j.view hn.curRev.name hn.updRev.name j.pods (desired (replicasOf j.view) j.view.slots) o) := by
      rcases hcase with hnone | ⟨c, hcm, hco, hfs, _⟩
      · exact ⟨wLOf_none_pos hnone, fun hne => by rw [wLOf_none_bad hnone (Or.inr hne)]⟩
      · subst hco
        rw [wLOf_some hn.ords hcm, wLPod_fs hfs]
        exact ⟨by omega, fun _ => by omega⟩
    by_cases htg : ∃ q, tg = some (o, q)
    · obtain ⟨q, hq⟩ := htg
      rw [good_after hl hq]
      have hne : newPodRev j.view hn.curRev.name hn.updRev.name o ≠ hn.updRev.name := by
        rcases htgo q hq with ⟨c, hcm, _, hco, hfs, _⟩ | ⟨hcre', hrev'⟩
        · exfalso
          rcases hcase with hnone | ⟨c', hc', hco', hfs', _⟩
          · exact hnone c hcm hco
          · rw [hctx.ord_inj hc' hcm (by rw [hco', hco]), hfs] at hfs'; cases hfs'
        · rw [← (hl.facts.cre o q.rev hcre').2.1]; exact hrev'
      have := hold.2 hne
      exact ⟨by omega, fun _ => by omega⟩
    · have hx := nextRawG_new hctx hl.facts hcr
      have hxN := hl.mem_of_base_ord hx (by
        intro t q htq hxo
        apply htg
        rw [settleOne_ord] at hxo
        exact ⟨q, by rw [htq]; simp only [mkPod] at hxo; rw [hxo]⟩)
      have hw := wLOf_some (v := (nextW h j).view) (cur := curNameOf (nextW h j)) (upd := hn.updRev.name)
        (D := desired (replicasOf j.view) j.view.slots) hndN hxN
      have hxo : (settleOne (mkPod j.setName o rev)).pod.ord = o := by rw [settleOne_ord]; rfl
      rw [hxo] at hw
      have hwx : wLPod hn.updRev.name (settleOne (mkPod j.setName o rev)) = if (rev != hn.updRev.name) = true then 3 else 0 := by
        rw [settleOne_mkPod, wLPod_live (by simp [Pod.fs, Pod.failed, Pod.succeeded])]
        simp [mkPod]
      rw [hw, hwx]
      by_cases hru : rev = hn.updRev.name
      · simp only [hru, bne_self_eq_false, Bool.false_eq_true, if_false]
        exact ⟨by omega, fun _ => by omega⟩
      · have hne : newPodRev j.view hn.curRev.name hn.updRev.name o ≠ hn.updRev.name := by rw [← hrev]; exact hru
        have := hold.2 hne
        have h3 : (if (rev != hn.updRev.name) = true then 3 else 0) ≤ 3 := by split_ifs <;> omega
        exact ⟨by omega, fun _ => by omega⟩
  · have hnocre : ∀ rev, Action.create o rev ∉ A := fun rev hh => hcre ⟨rev, hh⟩
    by_cases hex : ∃ c ∈ j.pods, c.pod.ord = o
    · obtain ⟨c, hcm, rfl⟩ := hex
      rw [wLOf_some hn.ords hcm]
      by_cases hfs : c.pod.fs = true
      · -- a Failed/Succeeded pod that is not replaced in this round stays
        have hnd : ¬ DelHits A c.pod.id := fun hd => by
          obtain ⟨rev, hh⟩ := hl.facts.delFs c hcm hd hfs ho
          exact hnocre rev hh
        obtain ⟨x, hx, hsame, _, _⟩ := nextRawG_survivor (setName := j.setName) (acts := A) hctx hcm hnd
        have hnotg : ∀ t q, tg = some (t, q) → x.pod.ord ≠ t := by
          intro t q htq hxo
          have hto : t = c.pod.ord := by rw [← hxo, hsame.ord]
          subst hto
          rcases htgo q htq with ⟨c', hc', _, hco', hfs', _⟩ | ⟨hcre', _⟩
          · rw [hctx.ord_inj hc' hcm hco', hfs] at hfs'; cases hfs'
          · exact hnocre _ hcre'
        have hxN := hl.mem_of_base_ord hx hnotg
        have hw := wLOf_some (v := (nextW h j).view) (cur := curNameOf (nextW h j)) (upd := hn.updRev.name)
          (D := desired (replicasOf j.view) j.view.slots) hndN hxN
        rw [hsame.ord] at hw
        have hfsx : x.pod.fs = true := by
          unfold Pod.fs Pod.failed Pod.succeeded at hfs ⊢; rw [hsame.phase]; exact hfs
        rw [hw, wLPod_fs hfsx, wLPod_fs hfs]
        refine ⟨le_refl _, ?_⟩
        rintro (⟨rev, hh⟩ | ⟨q, hq⟩ | ⟨c', hc', hco', hfs', _⟩)
        · exact absurd hh (hnocre rev)
        · exact absurd (hsame.ord) (hnotg _ q hq)
        · rw [hctx.ord_inj hc' hcm hco', hfs] at hfs'; cases hfs'
      · have hfs' : c.pod.fs = false := by simpa using hfs
        have hnd : ¬ DelHits A c.pod.id := fun hd => by
          rcases hl.noLive c hcm hd with h1 | h1
          · rw [hfs'] at h1; cases h1
          · rw [ho] at h1; cases h1
        obtain ⟨x, hx, hsame, _, hupd⟩ := nextRawG_survivor (setName := j.setName) (acts := A) hctx hcm hnd
        rw [wLPod_live hfs']
        by_cases htg : ∃ q, tg = some (c.pod.ord, q)
        · obtain ⟨q, hq⟩ := htg
          rw [good_after hl hq]
          have hrev : c.pod.rev ≠ hn.updRev.name := by
            rcases htgo q hq with ⟨c', hc', hcp, hco', _, hrv⟩ | ⟨hcre', _⟩
            · rw [← hctx.ord_inj hc' hcm hco', hcp]; exact hrv
            · exact absurd hcre' (hnocre _)
          have : (if (c.pod.rev != hn.updRev.name) = true then 3 else 0) = 3 := by simp [hrev]
          rw [this]
          exact ⟨by omega, fun _ => by omega⟩
        · have hxN := hl.mem_of_base_ord hx (by
            intro t q htq hxo
            apply htg
            exact ⟨q, by rw [htq, ← hxo, hsame.ord]⟩)
          have hw := wLOf_some (v := (nextW h j).view) (cur := curNameOf (nextW h j)) (upd := hn.updRev.name)
            (D := desired (replicasOf j.view) j.view.slots) hndN hxN
          rw [hsame.ord] at hw
          have hfsx : x.pod.fs = false := by
            unfold Pod.fs Pod.failed Pod.succeeded at hfs' ⊢; rw [hsame.phase]; exact hfs'
          rw [hw, wLPod_live hfsx, hsame.rev]
          have hidle : (if x.pod.idOk = true then 0 else 1) ≤ (if c.pod.idOk = true then 0 else 1) := by
            by_cases hid : c.pod.idOk = true
            · rw [hsame.idOk hid, hid]
            · split_ifs <;> omega
          refine ⟨by omega, ?_⟩
          rintro (⟨rev, hh⟩ | ⟨q, hq⟩ | ⟨c', hc', hco', _, hid', hu⟩)
          · exact absurd hh (hnocre rev)
          · exact absurd ⟨q, hq⟩ htg
          · have hcc : c' = c := hctx.ord_inj hc' hcm hco'
            subst hcc
            have hxid := hupd c'.pod.ord hu (hn.pods c' hcm).2.2.2.1
            rw [hxid, hid']
            simp
    · have hnone : ∀ c ∈ j.pods, c.pod.ord ≠ o := fun c hcm hco => hex ⟨c, hcm, hco⟩
      -- an unfilled vacancy: another desired ordinal needs a pod too
      obtain ⟨o', hr', hne', hall'⟩ := hl.vac o ho hnone hnocre
      have hbad : onlyNeedy j.pods (desired (replicasOf j.view) j.view.slots) o = false := by
        rw [Bool.eq_false_iff, ne_eq, onlyNeedy_iff]
        intro hon
        obtain ⟨c, hcm, hco, hfs⟩ := hon o' ((hD o').2 hr') hne'
        rw [hall' c hcm hco] at hfs; cases hfs
      rw [wLOf_none_bad hnone (Or.inl hbad)]
      have hnoneN : ∀ x ∈ rawNext hn, x.pod.ord ≠ o := by
        intro x hx
        exact nextRawG_at_none hctx hl.facts hnocre (fun c hcm hco => absurd hco (hnone c hcm)) x (hl.sub.subset hx)
      refine ⟨wLOf_none_le hnoneN, ?_⟩
      rintro (⟨rev, hh⟩ | ⟨q, hq⟩ | ⟨c', hc', hco', _⟩)
      · exact absurd hh (hnocre rev)
      · rcases htgo q hq with ⟨c, hcm, _, hco, _⟩ | ⟨hcre', _⟩
        · exact absurd hco (hnone c hcm)
        · exact absurd hcre' (hnocre _)
      · exact absurd hco' (hnone c' hc')

end

end Asts.C02p

namespace Asts.C02p
open Asts Asts.L1c

section
variable {h : Hashing} {j : SyncIn} {hs : NSC h j} {A : List Action} {tg : Option (Int × Pod)}

/-- something the legacy measure counts happens -/
def LEvent (j : SyncIn) (A : List Action) (tg : Option (Int × Pod)) : Prop :=
  (∃ o rev, Action.create o rev ∈ A) ∨ (∃ c ∈ j.pods, DelHits A c.pod.id) ∨
  (∃ c ∈ j.pods, inRange (bOf j) (EOf j) c.pod.ord = true ∧ c.pod.fs = false ∧ c.pod.idOk = false ∧
    Action.update c.pod.ord ∈ A) ∨ tg.isSome = true

theorem muL_eq (hn : NormC h j) :
    muL j = muLOf j.view hn.curRev.name hn.updRev.name (desired (replicasOf j.view) j.view.slots) j.pods := by
  unfold muL
  rw [curNameOf_eq hn, hn.updName]

theorem muL_next (hl : LPol hs A tg) :
    muL (nextW h j) = muLOf (nextW h j).view (curNameOf (nextW h j)) hs.norm.updRev.name
      (desired (replicasOf j.view) j.view.slots) (rawNext hs.norm) := by
  have hp := hl.pol
  have hview := nextW_view hs hp
  have hD : desired (replicasOf (nextW h j).view) (nextW h j).view.slots = desired (replicasOf j.view) j.view.slots := by
    rw [hview]; rfl
  unfold muL
  rw [hD, updName_next hl, muLOf_keyPerm (nextW_pods hs hp) (rawNext_nodup hs hp)]

/-- **the legacy measure, one round**: never up; down whenever an `LEvent` happens -/
theorem muL_step (hl : LPol hs A tg) :
    muL (nextW h j) ≤ muL j ∧ (LEvent j A tg → muL (nextW h j) < muL j) := by
  have hn := hs.norm
  have hctx := hs.ctx
  have hD := mem_desired_iff hn
  rw [muL_next hl, muL_eq hn]
  unfold muLOf
  set D := desired (replicasOf j.view) j.view.slots with hDdef
  have hle : (D.map (wLOf (nextW h j).view (curNameOf (nextW h j)) hn.updRev.name (rawNext hn) D)).sum ≤
      (D.map (wLOf j.view hn.curRev.name hn.updRev.name j.pods D)).sum :=
    List.sum_le_sum (fun o ho => (lstep_weight hl ((hD o).1 ho)).1)
  obtain ⟨hcle0, hclt0⟩ := step_condemnedG hctx hl.facts D hD
  have hsubc : ((rawNext hn).filter (fun c => !D.contains c.pod.ord)).length ≤
      ((nextRawG j.setName j.pods A).filter (fun c => !D.contains c.pod.ord)).length :=
    (hl.sub.filter _).length_le
  refine ⟨by omega, ?_⟩
  have hstrictAt : ∀ o ∈ D, ((∃ rev, Action.create o rev ∈ A) ∨ (∃ q, tg = some (o, q)) ∨
      (∃ c ∈ j.pods, c.pod.ord = o ∧ c.pod.fs = false ∧ c.pod.idOk = false ∧ Action.update o ∈ A)) →
      (D.map (wLOf (nextW h j).view (curNameOf (nextW h j)) hn.updRev.name (rawNext hn) D)).sum <
      (D.map (wLOf j.view hn.curRev.name hn.updRev.name j.pods D)).sum := by
    intro o ho hev
    exact List.sum_lt_sum _ _ (fun o ho => (lstep_weight hl ((hD o).1 ho)).1)
      ⟨o, ho, (lstep_weight hl ((hD o).1 ho)).2 hev⟩
  rintro (⟨o, rev, hcr⟩ | ⟨c, hcm, hd⟩ | ⟨c, hcm, hr, hfs, hid, hu⟩ | htg)
  · have hr := (hl.facts.cre o rev hcr).1
    have := hstrictAt o ((hD o).2 hr) (Or.inl ⟨rev, hcr⟩)
    omega
  · by_cases hr : inRange (bOf j) (EOf j) c.pod.ord = true
    · have hfs : c.pod.fs = true := by
        rcases hl.noLive c hcm hd with h1 | h1
        · exact h1
        · rw [hr] at h1; cases h1
      obtain ⟨rev, hcr⟩ := hl.facts.delFs c hcm hd hfs hr
      have := hstrictAt _ ((hD _).2 hr) (Or.inl ⟨rev, hcr⟩)
      omega
    · have := hclt0 ⟨c, hcm, fun hh => hr ((hD _).1 hh), hd⟩
      omega
  · have := hstrictAt _ ((hD _).2 hr) (Or.inr (Or.inr ⟨c, hcm, rfl, hfs, hid, hu⟩))
    omega
  · cases htgc : tg with
    | none => rw [htgc] at htg; cases htg
    | some tq =>
      obtain ⟨t, q⟩ := tq
      have hr := (hl.tgt t q htgc).1
      have := hstrictAt t ((hD t).2 hr) (Or.inr (Or.inl ⟨q, htgc⟩))
      omega

end

end Asts.C02p
