import Asts.Proofs.SY_c_Sync
import Asts.Proofs.SY_c_Parse

/-! # C09 (i): from the event-level statement to the monitor `C09reported` -/
namespace Asts.SYc

/-! ### `annotate` recomputes `events` -/

theorem annotate_go_events (plan : List Fault) :
    ∀ (l seen pre : List String) (idx : Nat), (∀ e, (seen.filter (· == e)).length = cnt pre e) →
      (annotate.go plan seen idx l).map (fun x => (x.1, x.2.2)) =
        (eventsFrom plan pre l).map (fun ev => (parseEntry ev.1, ev.2))
  | [], _, _, _, _ => rfl
  | e :: l, seen, pre, idx, hs => by
    simp only [annotate.go, eventsFrom, List.map_cons]
    congr 1
    · rw [hs e]; rfl
    · apply annotate_go_events plan l (e :: seen) (pre ++ [e]) (idx + 1)
      intro e'
      rw [cnt_append, ← hs e', List.filter_cons]
      by_cases h : (e == e') = true
      · simp [h, cnt]
      · simp [h, cnt]

theorem annotate_events (plan : List Fault) (log : List String) :
    (annotate plan log).map (fun x => (x.1, x.2.2)) = (events plan log).map (fun ev => (parseEntry ev.1, ev.2)) :=
  annotate_go_events plan log [] [] 0 (by intro e; rfl)

/-! ### an element and its predecessor -/

theorem mem_zip_prev_aux {α} : ∀ (l : List α) (q : Option α) (x : α) (p : Option α),
    (x, p) ∈ l.zip (q :: l.map some) →
      ∃ pre post, l = pre ++ x :: post ∧ p = (if pre = [] then q else pre.getLast?)
  | [], _, _, _, h => by simp at h
  | a :: l, q, x, p, h => by
    simp only [List.map_cons, List.zip_cons_cons, List.mem_cons, Prod.mk.injEq] at h
    rcases h with ⟨rfl, rfl⟩ | h
    · exact ⟨[], l, rfl, by simp⟩
    · obtain ⟨pre, post, e, hp⟩ := mem_zip_prev_aux l (some a) x p h
      refine ⟨a :: pre, post, by rw [e]; rfl, ?_⟩
      rw [hp]
      cases pre with
      | nil => simp
      | cons b pre => simp [List.getLast?_cons_cons]

theorem mem_zip_prev {α} (l : List α) (x : α) (p : Option α) (h : (x, p) ∈ l.zip (none :: l.map some)) :
    ∃ pre post, l = pre ++ x :: post ∧ p = pre.getLast? := by
  obtain ⟨pre, post, e, hp⟩ := mem_zip_prev_aux l none x p h
  refine ⟨pre, post, e, ?_⟩
  rw [hp]
  split_ifs with h
  · rw [h]; rfl
  · rfl

/-! ### the monitor -/

/-- the per-entry check of `C09reported` -/
def benignB (i : SyncIn) (e : Entry) (k : Option ErrKind) (prev : Option (Entry × Nat × Option ErrKind)) : Bool :=
  match k with
  | none => true
  | some kind =>
    (kind == .conflict && (e.verb == "updatestatus" || (e.verb == "update" && (e.res == "rev" || e.res == "pod")))) ||
    (kind == .notFound && e.verb == "patch" && e.res == "pod") ||
    (kind == .invalid && e.verb == "patch" && e.res == "pod" && (i.pods.find? (·.name == e.name)).any (fun c => c.owner == .self)) ||
    (kind == .alreadyExists && e.verb == "create" && e.res == "rev") ||
    (e.verb == "get" && e.res == "rev" && (match prev with | some (p, _, pk) => p.verb == "update" && p.res == "rev" && p.name == e.name && pk.isSome | none => false))

theorem C09reported_eq (i : SyncIn) (plan : List Fault) (o : SyncObs) :
    C09reported i plan o =
      if o.out != "ok" then true else
      ((annotate plan o.log).zip (none :: (annotate plan o.log).map some)).all
        (fun x => benignB i x.1.1 x.1.2.2 x.2) := rfl

/-- what is assumed about object names: no `':'` (so that the keys parse back), and the pods of the snapshot have
    pairwise different names (so that a key identifies its pod) -/
structure NamesOk (h : Hashing) (i : SyncIn) : Prop where
  pods   : ∀ c ∈ i.pods, ColonFree c.name
  nodup  : (i.pods.map (·.name)).Nodup
  store  : ∀ r ∈ i.store, ColonFree r.name
  hash   : ∀ d c, ColonFree (h.nameOf d c)

/-- the context of the headline: nothing exempt, names certified colon-free -/
def cx0 (i : SyncIn) : Cx := { pods := i.pods, exempt := fun _ => False, nameOk := ColonFree }

theorem find_by_name {pods : List CPod} (hnd : (pods.map (·.name)).Nodup) {c : CPod} (hc : c ∈ pods) :
    pods.find? (·.name == c.name) = some c := by
  induction pods with
  | nil => cases hc
  | cons a l ih =>
    simp only [List.map_cons, List.nodup_cons] at hnd
    rcases List.mem_cons.1 hc with rfl | hc'
    · simp
    · have hne : a.name ≠ c.name := by
        intro e
        exact hnd.1 (by rw [e]; exact List.mem_map_of_mem hc')
      rw [List.find?_cons_of_neg (by simpa using hne)]
      exact ih hnd.2 hc'

/-- one benign event passes the per-entry check -/
theorem benignB_of_benign (i : SyncIn) (hnd : (i.pods.map (·.name)).Nodup)
    (prevE : Option Ev) (ev : Ev) (hb : Benign (cx0 i) prevE ev)
    (prev : Option (Entry × Nat × Option ErrKind))
    (hprev : prev.map (fun x => (x.1, x.2.2)) = prevE.map (fun ev => (parseEntry ev.1, ev.2))) :
    benignB i (parseEntry ev.1) ev.2 prev = true := by
  obtain ⟨key, k⟩ := ev
  cases k with
  | none => rfl
  | some kind =>
    rcases hb kind rfl with hx | ⟨rfl, h⟩ | ⟨rfl, n, hn, rfl⟩ | ⟨rfl, c, hc, ho, hn, rfl⟩ | ⟨rfl, n, hn, rfl⟩ |
      ⟨n, pk, hn, rfl, hp⟩
    · exact absurd hx (by simp [cx0])
    · rcases h with rfl | ⟨n, hn, rfl⟩ | ⟨n, hn, rfl⟩
      · simp [benignB, parse_updatestatus]
      · simp [benignB, parse_kUpdateRev hn]
      · simp [benignB, parse_kUpdatePod hn]
    · simp [benignB, parse_kPatchPod hn]
    · have hf := find_by_name hnd hc
      simp [benignB, parse_kPatchPod hn, hf, ho]
    · simp [benignB, parse_kCreateRev hn]
    · rw [hp] at hprev
      cases prev with
      | none => simp at hprev
      | some p =>
        obtain ⟨pe, pidx, pk'⟩ := p
        simp only [Option.map_some, Option.some.injEq, Prod.mk.injEq] at hprev
        obtain ⟨h1, h2⟩ := hprev
        subst h1; subst h2
        simp [benignB, parse_kGetRev hn, parse_kUpdateRev hn]

/-- from events to the monitor: if every fault that fired in the log is benign, `C09reported` holds -/
theorem C09reported_of_benign (i : SyncIn) (plan : List Fault) (o : SyncObs)
    (hnd : (i.pods.map (·.name)).Nodup) (hb : BenignFrom (cx0 i) plan 0 o.log) :
    C09reported i plan o = true := by
  rw [C09reported_eq]
  split_ifs with hout
  · rfl
  · rw [List.all_eq_true]
    rintro ⟨x, prev⟩ hx
    obtain ⟨pre, post, e, hp⟩ := mem_zip_prev _ x prev hx
    have hmap := annotate_events plan o.log
    rw [e, List.map_append, List.map_cons] at hmap
    obtain ⟨pre', rest', he', hpre', hrest'⟩ := List.map_eq_append_iff.1 hmap.symm
    obtain ⟨ev, post', hrest'', hev, _⟩ := List.map_eq_cons_iff.1 hrest'
    subst hrest''
    have hben := hb pre' ev post' he' (Nat.zero_le _)
    have hprev : prev.map (fun x => (x.1, x.2.2)) = pre'.getLast?.map (fun ev => (parseEntry ev.1, ev.2)) := by
      rw [hp, ← List.getLast?_map, ← List.getLast?_map, hpre']
    have := benignB_of_benign i hnd pre'.getLast? ev hben prev hprev
    simp only [Prod.mk.injEq] at hev
    simp only
    rw [← hev.1, ← hev.2]
    exact this

theorem observe_out_ok (o : SyncOut) : (o.observe.out != "ok") = true ↔ o.outcome ≠ .ok := by
  unfold SyncOut.observe
  cases o.outcome <;> simp

/-- **C09 (i), the monitor on the model**: for every hashing, world and plan that injects nothing into pod-control calls,
    `C09reported` is true on the model's observation. -/
theorem C09reported_holds (h : Hashing) (i : SyncIn) (plan : List Fault) (hn : NamesOk h i) (hfree : PodCtlFree plan) :
    C09reported i plan (syncF h i plan).observe = true := by
  by_cases hok : (syncF h i plan).outcome = .ok
  · refine C09reported_of_benign i plan _ hn.nodup ?_
    have := syncF_benign (cx0 i) plan h i rfl hn.pods hn.hash hn.store
      (fun k hk => Or.inr (fun f hf e => hfree f hf (e ▸ hk))) (by rw [hok]; simp)
    exact this
  · rw [C09reported_eq, if_pos ((observe_out_ok _).2 hok)]

end Asts.SYc
