import Asts.Proofs.L1_a_Exact
import Mathlib.Tactic

/-! # `slot_k_only` — putting ordinal `k` into delete-slots removes pod `k` and no other pod -/
namespace Asts
open List

theorem healthy_facts {p : Pod} (h : p.healthy = true) :
    p.failed = false ∧ p.succeeded = false ∧ p.created = true ∧ p.terminating = false ∧ p.runningAndReady = true := by
  simp only [Pod.healthy, Pod.runningAndReady, Bool.and_eq_true, beq_iff_eq, Bool.not_eq_true'] at h
  obtain ⟨⟨hph, hrd⟩, ht⟩ := h
  simp [Pod.failed, Pod.succeeded, Pod.created, Pod.runningAndReady, hph, hrd, ht]

/-- the replica loop passes over healthy pods with matching identity and storage without acting -/
theorem replicaLoop_quiet (v : SetView) (cur upd : String) (f : Faults) (mono : Bool) (R : List (Int × Pod))
    (hR : ∀ ip ∈ R, ip.2.healthy = true ∧ ip.2.idOk = true ∧ ip.2.stOk = true) (s : St) :
    replicaLoop v cur upd f mono s R = (.next s, R) := by
  induction R generalizing s with
  | nil => rfl
  | cons ip rest ih =>
    obtain ⟨i, p⟩ := ip
    obtain ⟨hh, hid, hst⟩ := hR (i, p) (by simp)
    simp only at hh hid hst
    obtain ⟨h1, h2, h3, h4, h5⟩ := healthy_facts hh
    have hstep : replicaStep v cur upd f mono s i p = (.next s, p) := by
      simp [replicaStep, replaceFailed, ensurePod, h1, h2, h3, h4, h5, hid, hst]
    unfold replicaLoop
    rw [hstep]
    simp only
    rw [ih (fun ip hip => hR ip (by simp [hip]))]

/-- the condemned loop on one healthy pod deletes it, whatever the policy and the fault plan -/
theorem condemnedLoop_single (cur upd : String) (f : Faults) (mono : Bool) (fu : Option Pod) (s : St) (c : Pod)
    (hc : c.healthy = true) :
    (condemnedLoop cur upd f mono fu s [c]).st.acts = s.acts ++ [.delete c.ord c.id .scaleDown] ∧
    ((condemnedLoop cur upd f mono fu s [c]).isNext = true ∨ (condemnedLoop cur upd f mono fu s [c]).okFlag = !f.hit 1 c.ord) := by
  obtain ⟨-, -, -, h4, h5⟩ := healthy_facts hc
  unfold condemnedLoop
  simp only [h4, Bool.false_eq_true, if_false, h5, Bool.not_true, Bool.false_and]
  by_cases hf : f.hit 1 c.ord = true
  · simp [hf]
  · simp only [hf, Bool.false_eq_true, if_false]
    cases mono
    · simp [condemnedLoop]
    · simp

/-- With `0 ≤ r`, a non-negative listed slot is condemned. -/
theorem isCondemned_of_slot {r : Int} {S : List Int} {k : Int} (h0 : 0 ≤ r) (hk : k ∈ S) (hk0 : 0 ≤ k) :
    isCondemned (maxReplicaAndSlots r S).1 (maxReplicaAndSlots r S).2 k = true := by
  obtain ⟨-, hE⟩ := extend_spec (sorted_dedupSort S) r h0
  have hmem : k ∈ (maxReplicaAndSlots r S).2 ↔ k ∈ S ∧ 0 ≤ k ∧ k < (maxReplicaAndSlots r S).1 := by
    unfold maxReplicaAndSlots
    rw [hE, List.mem_filter, mem_dedupSort]; simp
  by_cases hlt : k < (maxReplicaAndSlots r S).1
  · have : k ∈ (maxReplicaAndSlots r S).2 := hmem.2 ⟨hk, hk0, hlt⟩
    simp [isCondemned, inRange, this]
  · have hge : (maxReplicaAndSlots r S).1 ≤ k := by omega
    simp [isCondemned, inRange, hge, hlt]

theorem filter_single {α : Type} (q : α → Bool) (l1 l2 : List α) (x : α) (hx : q x = true)
    (h1 : ∀ y ∈ l1, q y = false) (h2 : ∀ y ∈ l2, q y = false) : (l1 ++ x :: l2).filter q = [x] := by
  rw [List.filter_append, List.filter_cons, if_pos hx]
  have e1 : l1.filter q = [] := by rw [List.filter_eq_nil_iff]; intro y hy; simp [h1 y hy]
  have e2 : l2.filter q = [] := by rw [List.filter_eq_nil_iff]; intro y hy; simp [h2 y hy]
  rw [e1, e2]; rfl

/-- **slot_k_only**, general form: `k` is a listed slot, the pods are exactly one per ordinal of `desired ∪ {k}`,
    all healthy, at the update revision, identity and storage in order. Then the reconcile issues exactly one
    action, the deletion of pod `k` — under either policy and whatever the fault plan. -/
theorem slot_k_only_core (v : SetView) (cur upd : String) (pods : List Pod) (f : Faults) (r' k : Int)
    (hr : v.replicas = some r') (hkD : k ∉ desired r' v.slots)
    (hkc0 : isCondemned (maxReplicaAndSlots r' v.slots).1 (maxReplicaAndSlots r' v.slots).2 k = true) (hdel : v.deleting = false)
    (hperm : (pods.map Pod.ord).Perm (k :: desired r' v.slots))
    (hgood : ∀ p ∈ pods, p.healthy = true ∧ p.rev = upd ∧ p.idOk = true ∧ p.stOk = true) :
    ∃ pk ∈ pods, pk.ord = k ∧
      (updateStatefulSet v cur upd pods f).1.acts = [.delete k pk.id .scaleDown] ∧
      (f.hit 1 k = false → (updateStatefulSet v cur upd pods f).2 = .ok) := by
  have hDes := desired_isDesired r' v.slots
  have hnd : (pods.map Pod.ord).Nodup := by
    rw [hperm.nodup_iff, List.nodup_cons]
    exact ⟨hkD, hDes.sorted.imp (fun h => ne_of_lt h)⟩
  -- the pod at `k`
  have hkm : k ∈ pods.map Pod.ord := hperm.mem_iff.2 (by simp)
  obtain ⟨pk, hpk, hpko⟩ := List.mem_map.1 hkm
  obtain ⟨l1, l2, hsplit⟩ := List.append_of_mem hpk
  have hother : ∀ q ∈ l1 ++ l2, q.ord ∈ desired r' v.slots := by
    intro q hq
    have hqm : q ∈ pods := by
      rw [hsplit]; rcases List.mem_append.1 hq with h | h
      · exact List.mem_append_left _ h
      · exact List.mem_append_right _ (List.mem_cons_of_mem _ h)
    have : q.ord ∈ k :: desired r' v.slots := hperm.mem_iff.1 (List.mem_map_of_mem hqm)
    rcases List.mem_cons.1 this with hqk | h
    · exfalso
      rw [hsplit, List.map_append, List.map_cons] at hnd
      have hnd' := List.nodup_middle.1 hnd
      rw [List.nodup_cons] at hnd'
      apply hnd'.1
      rw [hpko, ← hqk, ← List.map_append]
      exact List.mem_map_of_mem hq
    · exact h
  -- prepared state
  rcases hbe : maxReplicaAndSlots r' v.slots with ⟨b, E⟩
  have hD := podOrdinals_eq_of hbe
  rw [podOrdinals_eq_desired'] at hD
  have hkc : isCondemned b E k = true := by
    have := hkc0
    rw [hbe] at this; exact this
  have hcondemned : condemnedOf b E pods = [pk] := by
    unfold condemnedOf
    rw [hsplit, filter_single (fun p => isCondemned b E p.ord) l1 l2 pk (by simpa [hpko] using hkc)]
    · simp [insertByOrd]
    · intro y hy
      exact not_condemned_of_inRange (mem_idx (hD ▸ hother y (List.mem_append_left _ hy)))
    · intro y hy
      exact not_condemned_of_inRange (mem_idx (hD ▸ hother y (List.mem_append_right _ hy)))
  have hslot : ∀ i ∈ desired r' v.slots, (slotOf b E pods i).getD (newPod v cur upd i) ∈ pods := by
    intro i hi
    cases hs : slotOf b E pods i with
    | some q => simpa using (slotOf_some hs).1
    | none =>
      exfalso
      have hin : inRange b E i = true := mem_idx (hD ▸ hi)
      have hno := slotOf_none hs hin
      have : i ∈ pods.map Pod.ord := hperm.mem_iff.2 (List.mem_cons_of_mem _ hi)
      obtain ⟨q, hq, hqo⟩ := List.mem_map.1 this
      exact hno q hq hqo
  have hallh : ∀ q ∈ ((podOrdinals r' v.slots).map (fun i =>
          (i, (slotOf (maxReplicaAndSlots r' v.slots).1 (maxReplicaAndSlots r' v.slots).2 pods i).getD (newPod v cur upd i)))).map (·.2)
          ++ condemnedOf (maxReplicaAndSlots r' v.slots).1 (maxReplicaAndSlots r' v.slots).2 pods, q.healthy = true := by
    intro q hq
    rw [hbe] at hq
    simp only [hcondemned, podOrdinals_eq_desired', List.map_map, List.mem_append, List.mem_map, Function.comp_def,
      List.mem_singleton] at hq
    rcases hq with ⟨i, hi, rfl⟩ | rfl
    · exact (hgood _ (hslot i hi)).1
    · exact (hgood _ hpk).1
  obtain ⟨p, hprep⟩ : ∃ p, prepare v cur upd pods = .ok p := by
    apply prepare_isOk hr
    rw [firstUnhealthy_healthy _ hallh]
    simp
  obtain ⟨hreps, hcond, -, -⟩ := prepare_ok hr hprep
  rw [hbe] at hreps hcond
  simp only at hreps hcond
  rw [hcondemned] at hcond
  rw [podOrdinals_eq_desired'] at hreps
  have hrepsgood : ∀ ip ∈ p.reps, ip.2 ∈ pods := by
    intro ip hip
    rw [hreps, List.mem_map] at hip
    obtain ⟨i, hi, rfl⟩ := hip
    exact hslot i hi
  refine ⟨pk, hpk, hpko, ?_⟩
  unfold updateStatefulSet
  rw [hprep]
  simp only [hdel, Bool.false_eq_true, if_false]
  unfold runLoops
  simp only
  rw [replicaLoop_quiet v cur upd f (!v.parallel) p.reps
    (fun ip hip => ⟨(hgood _ (hrepsgood ip hip)).1, (hgood _ (hrepsgood ip hip)).2.2⟩)]
  simp only [hcond, List.reverse_cons, List.reverse_nil, List.nil_append]
  obtain ⟨hacts, hflag⟩ := condemnedLoop_single cur upd f (!v.parallel) p.fu { status := p.st0 } pk (hgood _ hpk).1
  rw [hpko] at hacts hflag
  cases hcl : condemnedLoop cur upd f (!v.parallel) p.fu { status := p.st0 } [pk] with
  | done s' o =>
    rw [hcl] at hacts hflag
    simp only [Ctl.st_done, List.nil_append, Ctl.isNext_done, Bool.false_eq_true, false_or, Ctl.okFlag_done] at hacts hflag
    refine ⟨hacts, fun hf => ?_⟩
    rw [hf] at hflag
    simpa using hflag
  | next s' =>
    rw [hcl] at hacts
    simp only [Ctl.st_next, List.nil_append] at hacts
    simp only
    rw [updateStage_quiet v cur upd f p.reps s'
      (fun ip hip => ⟨(hgood _ (hrepsgood ip hip)).2.1, (hgood _ (hrepsgood ip hip)).1⟩)]
    exact ⟨hacts, fun _ => rfl⟩

/-- `slot_k_only_core` for a listed slot `k ≥ 0` -/
theorem slot_k_only_gen (v : SetView) (cur upd : String) (pods : List Pod) (f : Faults) (r' k : Int)
    (hr : v.replicas = some r') (h0 : 0 ≤ r') (hk : k ∈ v.slots) (hk0 : 0 ≤ k) (hdel : v.deleting = false)
    (hperm : (pods.map Pod.ord).Perm (k :: desired r' v.slots))
    (hgood : ∀ p ∈ pods, p.healthy = true ∧ p.rev = upd ∧ p.idOk = true ∧ p.stOk = true) :
    ∃ pk ∈ pods, pk.ord = k ∧
      (updateStatefulSet v cur upd pods f).1.acts = [.delete k pk.id .scaleDown] ∧
      (f.hit 1 k = false → (updateStatefulSet v cur upd pods f).2 = .ok) :=
  slot_k_only_core v cur upd pods f r' k hr (fun h => (desired_isDesired r' v.slots).noSlot k h hk)
    (isCondemned_of_slot h0 hk hk0) hdel hperm hgood

/-- a non-negative ordinal outside the desired set is condemned -/
theorem isCondemned_of_not_desired {r : Int} {S : List Int} {k : Int} (hk0 : 0 ≤ k) (hkD : k ∉ desired r S) :
    isCondemned (maxReplicaAndSlots r S).1 (maxReplicaAndSlots r S).2 k = true := by
  rcases hbe : maxReplicaAndSlots r S with ⟨b, E⟩
  have hD := podOrdinals_eq_of hbe
  rw [podOrdinals_eq_desired'] at hD
  have hnin : inRange b E k = false := by
    by_contra h
    have h' : inRange b E k = true := by simpa using h
    apply hkD
    rw [hD]
    simp only [inRange, Bool.and_eq_true, decide_eq_true_eq, Bool.not_eq_true'] at h'
    simp only [List.mem_filter, List.mem_map, List.mem_range, Bool.not_eq_true']
    exact ⟨⟨k.toNat, by omega, by simp [Int.toNat_of_nonneg hk0]⟩, h'.2⟩
  simp only [isCondemned, hnin, Bool.not_false, Bool.true_and, Bool.or_eq_true, decide_eq_true_eq]
  simp only [inRange, Bool.and_eq_false_iff, decide_eq_false_iff_not, Bool.not_eq_false'] at hnin
  rcases hnin with (h | h) | h
  · omega
  · left; omega
  · right; exact h

/-! ### the desired set after listing one of its members and decrementing replicas -/

theorem desired_cons_erase (r : Int) (S : List Int) (k : Int) (h1 : 1 ≤ r) (hk : k ∈ desired r S) :
    desired (r - 1) (k :: S) = (desired r S).erase k := by
  have hO := desired_isDesired r S
  have hnd : (desired r S).Nodup := hO.sorted.imp (fun h => ne_of_lt h)
  apply isDesired_unique (desired_isDesired (r - 1) (k :: S))
  refine ⟨hO.sorted.sublist (List.erase_sublist), ?_, ?_, ?_, ?_⟩
  · rw [List.length_erase_of_mem hk, hO.len]; omega
  · intro o ho; exact hO.nonneg o (List.mem_of_mem_erase ho)
  · intro o ho
    rw [hnd.mem_erase_iff] at ho
    intro hmem
    rcases List.mem_cons.1 hmem with h | h
    · exact ho.1 h
    · exact hO.noSlot o ho.2 h
  · intro o ho n hn0 hno hnS
    rw [hnd.mem_erase_iff] at ho ⊢
    refine ⟨fun h => hnS (by simp [h]), hO.least o ho.2 n hn0 hno (fun h => hnS (List.mem_cons_of_mem _ h))⟩

/-- **slot_k_only**: every ordinal of `desired r S` holds exactly one pod (healthy, update revision, identity and
    storage in order), there are no other pods, `k` is one of these ordinals. Reconciling the spec with slots `k :: S`
    and replicas `r - 1` (the desired set loses exactly `k`) yields exactly `[delete k]`. -/
theorem slot_k_only_model (v : SetView) (cur upd : String) (pods : List Pod) (f : Faults) (r k : Int) (S : List Int)
    (hr : v.replicas = some (r - 1)) (h1 : 1 ≤ r) (hs : v.slots = k :: S) (hk : k ∈ desired r S)
    (hdel : v.deleting = false) (hperm : (pods.map Pod.ord).Perm (desired r S))
    (hgood : ∀ p ∈ pods, p.healthy = true ∧ p.rev = upd ∧ p.idOk = true ∧ p.stOk = true) :
    desired (r - 1) v.slots = (desired r S).erase k ∧
    ∃ pk ∈ pods, pk.ord = k ∧
      (updateStatefulSet v cur upd pods f).1.acts = [.delete k pk.id .scaleDown] ∧
      (f.hit 1 k = false → (updateStatefulSet v cur upd pods f).2 = .ok) := by
  have he : desired (r - 1) v.slots = (desired r S).erase k := by rw [hs]; exact desired_cons_erase r S k h1 hk
  refine ⟨he, ?_⟩
  apply slot_k_only_gen v cur upd pods f (r - 1) k hr (by omega) (by simp [hs])
    ((desired_isDesired r S).nonneg k hk) hdel _ hgood
  rw [he]
  exact hperm.trans (List.perm_cons_erase hk)

theorem observe_single_delete {pods : List Pod} (hids : IdsOk pods) {pk : Pod} (hpk : pk ∈ pods) (k : Int) (w : Why) :
    observe [.delete k pk.id w] = [.delete k (some pk.id)] := by
  simp [observe, Action.observe, hids.small pk hpk]

end Asts
