import Asts.Proofs.L1_b_Loops

/-! # L1_b — one reconcile (`updateStatefulSet`): every action justified; how the monitors classify the deletes -/
namespace Asts.L1b
open List

/-- "a pod of the snapshot at ordinal `i` is Running, Ready and not terminating" -/
def HealthyIn (pods : List Pod) (i : Int) : Prop :=
  ∃ p ∈ pods, p.ord = i ∧ p.phase = .running ∧ p.ready = true ∧ p.terminating = false

/-- "a pod of the snapshot at ordinal `i` is Running, Ready, not terminating and at revision `rev`" -/
def HealthyAtRev (pods : List Pod) (rev : String) (i : Int) : Prop :=
  ∃ p ∈ pods, p.ord = i ∧ p.rev = rev ∧ p.phase = .running ∧ p.ready = true ∧ p.terminating = false

/-- ids of the snapshot identify its pods and are below the ids given to fresh objects
    (the engine numbers the pods by position) -/
structure IdsOk (pods : List Pod) : Prop where
  inj : ∀ p ∈ pods, ∀ q ∈ pods, p.id = q.id → p = q
  lt : ∀ p ∈ pods, p.id < freshId

/-- ids that are positions in the list are fine -/
theorem idsOk_of_positions {pods : List Pod} (hpos : ∀ (i : Nat) (p : Pod), pods[i]? = some p → p.id = i)
    (hlen : pods.length < freshId) : IdsOk pods := by
  constructor
  · intro p hp q hq he
    obtain ⟨i, hi⟩ := List.getElem?_of_mem hp
    obtain ⟨j, hj⟩ := List.getElem?_of_mem hq
    have h1 := hpos i p hi
    have h2 := hpos j q hj
    have : i = j := by omega
    subst this
    rw [hi] at hj; exact Option.some.inj hj
  · intro p hp
    obtain ⟨i, hi⟩ := List.getElem?_of_mem hp
    have h1 := hpos i p hi
    have : i < pods.length := by
      by_contra hge
      rw [List.getElem?_eq_none (by omega)] at hi; cases hi
    omega

/-- The run of one reconcile: either nothing was done, or `prepare` succeeded and every action is justified. -/
theorem updateStatefulSet_spec (v : SetView) (cur upd : String) (pods : List Pod) (f : Faults) :
    (updateStatefulSet v cur upd pods f).1.acts = [] ∨
    ∃ P, prepare v cur upd pods = .ok P ∧ v.deleting = false ∧
      (∀ a ∈ (updateStatefulSet v cur upd pods f).1.acts, Just v cur upd (!v.parallel) P a) ∧
      ((updateStatefulSet v cur upd pods f).1.acts.filter Action.isUpdDel).length ≤ 1 ∧
      (v.parallel = false →
        ∃ i, ∀ a ∈ (updateStatefulSet v cur upd pods f).1.acts, a.isCD = true → a.ord = i) := by
  unfold updateStatefulSet
  cases hp : prepare v cur upd pods with
  | error e => left; rfl
  | ok P =>
    simp only
    by_cases hd : v.deleting = true
    · left; simp [hd]
    · simp only [Bool.not_eq_true] at hd
      right
      simp only [hd, Bool.false_eq_true, if_false]
      obtain ⟨h1, h2, h3⟩ := runLoops_spec v cur upd f P (prepare_sorted hp)
      exact ⟨P, rfl, by simp, h1, h2, h3⟩

/-! ### consequences of `PrepInv` -/

section
variable {v : SetView} {cur upd : String} {pods : List Pod} {D : List Int} {P : Prepared}

theorem PrepInv.idx_mem (inv : PrepInv v cur upd pods D P) {x : Int × Pod} (hx : x ∈ P.reps) : x.1 ∈ D := by
  rw [← inv.idx]; exact List.mem_map_of_mem hx

theorem PrepInv.exists_rep (inv : PrepInv v cur upd pods D P) {i : Int} (hi : i ∈ D) : ∃ x ∈ P.reps, x.1 = i := by
  rw [← inv.idx, List.mem_map] at hi
  exact hi

theorem PrepInv.created_mem (inv : PrepInv v cur upd pods D P) {x : Int × Pod} (hx : x ∈ P.reps)
    (hc : x.2.created = true) : x.2 ∈ pods ∧ x.2.ord = x.1 := by
  rcases inv.rep x hx with h | h
  · exact h
  · rw [h] at hc; simp at hc

theorem PrepInv.healthyIn (inv : PrepInv v cur upd pods D P) {x : Int × Pod} (hx : x ∈ P.reps)
    (hh : x.2.healthy = true) : HealthyIn pods x.1 := by
  obtain ⟨h1, h2⟩ := inv.created_mem hx (Pod.healthy_created hh)
  exact ⟨x.2, h1, h2, (Pod.healthy_iff _).1 hh⟩

theorem PrepInv.all_healthyIn (inv : PrepInv v cur upd pods D P) (h : ∀ x ∈ P.reps, x.2.healthy = true) :
    ∀ i ∈ D, HealthyIn pods i := by
  intro i hi
  obtain ⟨x, hx, rfl⟩ := inv.exists_rep hi
  exact inv.healthyIn hx (h x hx)

end

theorem healthyAt_of_healthyIn {pods : List Pod} (hwf : wfSnapshot pods = true) {i : Int} (h : HealthyIn pods i) :
    healthyAt pods i = true := by
  obtain ⟨p, hp, rfl, h1⟩ := h
  exact healthyAt_of_mem hwf hp ((Pod.healthy_iff p).2 h1)

/-- in a list with strictly increasing keys, what lies below the key of an element lies before it -/
theorem mem_pre_of_lt {l pre post : List (Int × Pod)} {i : Int} {p : Pod}
    (hs : (l.map (·.1)).Pairwise (· < ·)) (e : l = pre ++ (i, p) :: post) {x : Int × Pod} (hx : x ∈ l)
    (hlt : x.1 < i) : x ∈ pre := by
  subst e
  rw [List.pairwise_map] at hs
  rcases List.mem_append.1 hx with hx | hx
  · exact hx
  · rcases List.mem_cons.1 hx with rfl | hx
    · simp at hlt
    · have h2 := (List.pairwise_append.1 hs).2.1
      have := (List.pairwise_cons.1 h2).1 x hx
      simp only at this
      omega

/-! ### how the snapshot-only classifier of the monitors sees the model's deletes -/

def _root_.Asts.Why.cls : Why → DelClass
  | .scaleDown => .scale
  | .replaceFailed => .replace
  | .update => .update

theorem classify_just {v : SetView} {cur upd : String} {mono : Bool} {pods : List Pod} {D : List Int} {P : Prepared}
    (inv : PrepInv v cur upd pods D P) (hids : IdsOk pods) {o : Int} {id : Nat} {why : Why}
    (h : Just v cur upd mono P (.delete o id why)) :
    classify D pods (Action.observe (.delete o id why)) = why.cls := by
  have key : ∀ q : Pod, q ∈ pods →
      classify D pods (Action.observe (.delete o q.id why)) =
        if !D.contains q.ord then .scale else if q.failed || q.succeeded then .replace else .update := by
    intro q hq
    simp only [Action.observe, hids.lt q hq, if_true, classify, podById_of_mem hids.inj hq]
  cases h with
  | replace i p hp hf =>
    obtain ⟨h1, h2⟩ := inv.created_mem hp (Pod.failed_created hf)
    simp only at h1 h2
    rw [key p h1]
    have : p.ord ∈ D := by
      rw [h2]; exact inv.idx_mem hp
    simp [this, hf, Why.cls]
  | scale c hc _ =>
    obtain ⟨h1, _, h3⟩ := (inv.condMem c).1 hc
    rw [key c h1]
    simp [h3, Why.cls]
  | upd i p q hp hq hnf _ _ _ _ =>
    have hfresh : classify D pods (Action.observe (.delete o (newPod v cur upd o).id .update)) = .update := by
      have := newPod_id_ge v cur upd o
      simp only [Action.observe, Nat.not_lt.2 this, if_false, classify]
    rcases hq with rfl | rfl
    · rcases inv.rep _ hp with ⟨h1, h2⟩ | h1
      · simp only at h1 h2
        rw [key q h1]
        have : q.ord ∈ D := by
          rw [h2]; exact inv.idx_mem hp
        simp [this, hnf, Why.cls]
      · simp only at h1
        rw [h1]; exact hfresh
    · exact hfresh

/-- ordinals of the deletes issued by the update walk -/
def updOrd : Action → Option Int
  | .delete o _ .update => some o
  | _ => none

theorem length_filterMap_updOrd (l : List Action) : (l.filterMap updOrd).length = (l.filter Action.isUpdDel).length := by
  induction l with
  | nil => rfl
  | cons a as ih =>
    cases a with
    | create o r => simpa [List.filterMap_cons, List.filter_cons, updOrd, Action.isUpdDel] using ih
    | update o => simpa [List.filterMap_cons, List.filter_cons, updOrd, Action.isUpdDel] using ih
    | delete o id w =>
      cases w <;> simpa [List.filterMap_cons, List.filter_cons, updOrd, Action.isUpdDel] using ih

theorem mem_filterMap_updOrd {l : List Action} {o : Int} :
    o ∈ l.filterMap updOrd ↔ ∃ id, Action.delete o id .update ∈ l := by
  rw [List.mem_filterMap]
  constructor
  · rintro ⟨a, ha, h⟩
    cases a with
    | create _ _ => simp [updOrd] at h
    | update _ => simp [updOrd] at h
    | delete o' id w =>
      cases w <;> simp [updOrd] at h
      subst h; exact ⟨id, ha⟩
  · rintro ⟨id, h⟩
    exact ⟨_, h, rfl⟩

/-- The monitors' "update-class deletes" of a model run are exactly the deletes issued by the update walk. -/
theorem updateDeletes_observe {v : SetView} {cur upd : String} {mono : Bool} {pods : List Pod} {D : List Int}
    {P : Prepared} (inv : PrepInv v cur upd pods D P) (hids : IdsOk pods) {acts : List Action}
    (h : ∀ a ∈ acts, Just v cur upd mono P a) :
    updateDeletes D pods (observe acts) = acts.filterMap updOrd := by
  unfold updateDeletes observe
  rw [List.filterMap_map]
  apply List.filterMap_congr
  intro a ha
  cases a with
  | create o r => simp [Action.observe, OAct.isDelete, updOrd]
  | update o => simp [Action.observe, OAct.isDelete, updOrd]
  | delete o id w =>
    have hc := classify_just inv hids (h _ ha)
    simp only [Function.comp]
    rw [hc]
    cases w <;> simp [Action.observe, OAct.isDelete, OAct.ord, updOrd, Why.cls]

theorem observe_ord (a : Action) : a.observe.ord = a.ord := by cases a <;> rfl
theorem observe_isCD (a : Action) : (a.observe.isCreate || a.observe.isDelete) = a.isCD := by cases a <;> rfl

end Asts.L1b
