import Asts.Proofs.C02_WF

/-! C02: `syncF` cut into named stages (definitionally the same function), and what each stage does to the action list, the
    revision store and the collision count — for every fault plan. -/
namespace Asts.C02p
open Asts Asts.L1c

/-- the part of `syncF` after the reconcile returned -/
def finishF (i : SyncIn) (plan : List Fault) (claimed : List CPod) (revs : List Rev) (cur upd : Rev) (cc : Int)
    (s : RevSt) (st : St) (out : Outcome) : SyncOut :=
  let base : SyncOut := { cur := cur.name, upd := upd.name, claimed := claimed, acts := st.acts,
                          actsDone := if out == .err then st.acts.length - 1 else st.acts.length }
  match out with
  | .ok =>
    let status := completeRollingUpdate i.view st.status
    if inconsistentStatus i.stored status then
      let (t, ok) := statusWriteF plan i.fresh.gone 5 s.tr
      let s := { s with tr := t }
      if !ok then { base with log := s.tr.log, store := s.store, outcome := .err } else
      let (s, out) := truncateF plan i.historyLimit (claimed.map (·.pod.rev)) revs cur upd s
      { base with log := s.tr.log, store := s.store, status := some status, cc := some cc, outcome := out }
    else
      let (s, out) := truncateF plan i.historyLimit (claimed.map (·.pod.rev)) revs cur upd s
      { base with log := s.tr.log, store := s.store, outcome := out }
  | o => { base with log := s.tr.log, store := s.store, outcome := o }

/-- the part of `syncF` from the reconcile on -/
def reconcileF (i : SyncIn) (plan : List Fault) (claimed : List CPod) (revs : List Rev) (cur upd : Rev) (cc : Int)
    (s : RevSt) : SyncOut :=
  let (b, E) := maxReplicaAndSlots (i.view.replicas.getD 0) i.view.slots
  let pf := podFaults i.setName plan i.pods claimed b E
  let (st, out) := updateStatefulSet i.view cur.name upd.name (claimed.map (·.pod)) pf
  let s := { s with tr := { log := s.tr.log ++ (st.acts.map (actLog i.setName plan i.pods claimed b E)).flatten } }
  finishF i plan claimed revs cur upd cc s st out

/-- the part of `syncF` after the pods were claimed -/
def revisionsF (h : Hashing) (i : SyncIn) (plan : List Fault) (claimed : List CPod) (s : RevSt) : SyncOut :=
  match listRevsF plan s with
  | (s, none) => { log := s.tr.log, store := s.store, claimed := claimed, outcome := .err }
  | (s, some listed) =>
    let revs := sortRevs listed
    match getRevisionsF h plan i.template i.stored.currentRev (i.collisionCount.getD 0) revs s with
    | (s, none) => { log := s.tr.log, store := s.store, claimed := claimed, outcome := .err }
    | (s, some (cur, upd, cc)) => reconcileF i plan claimed revs cur upd cc s

theorem syncF_stages (h : Hashing) (i : SyncIn) (plan : List Fault) :
    syncF h i plan =
      if i.paused || !i.selectorOk then { store := i.store } else
      match adoptOrphanRevisionsF plan i.view.deleting i.fresh { store := i.store } with
      | (s, .ok) =>
        let c := claimPodsF plan i.view.deleting i.fresh i.pods s.tr
        let s := { s with tr := c.tr }
        if c.failed then { log := s.tr.log, store := s.store, outcome := .err } else
        revisionsF h i plan c.claimed s
      | (s, out) => { log := s.tr.log, store := s.store, outcome := out } := by
  unfold syncF revisionsF reconcileF finishF
  rfl

end Asts.C02p
