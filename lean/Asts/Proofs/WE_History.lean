import Mathlib.Tactic
import Asts.Proofs.WE_Edits
import Asts.Proofs.GL_World

/-! # WE — `runHistory` once the script is exhausted is `runRounds` -/
namespace Asts.WE
open Asts Asts.GL

theorem runHistory_succ (h : Hashing) (script : Script) (fuel j silent : Nat) (i : SyncIn) (plan : List Fault) :
    runHistory h script (fuel + 1) j silent i plan =
      (let es := editsAt script j
       let i0 := applyEdits es i
       let silent0 := if es.isEmpty then silent else 0
       let silent' := if (round h i0 plan).2.out == "ok" && (round h i0 plan).2.writes == 0 then silent0 + 1 else 0
       if silent' ≥ 2 && !pendingAfter script j then [{ edits := es, world := i0, obs := (round h i0 plan).2 }]
       else { edits := es, world := i0, obs := (round h i0 plan).2 } :: runHistory h script fuel (j + 1) silent' (round h i0 plan).1 []) := rfl

theorem editsAt_past (script : Script) (j : Nat) (hs : ∀ e ∈ script, e.1 < j) : editsAt script j = [] := by
  unfold editsAt
  rw [List.map_eq_nil_iff, List.filter_eq_nil_iff]
  intro e he
  have := hs e he
  simp only [beq_iff_eq]
  omega

theorem pendingAfter_past (script : Script) (j : Nat) (hs : ∀ e ∈ script, e.1 ≤ j) : pendingAfter script j = false := by
  unfold pendingAfter
  rw [List.any_eq_false]
  intro e he
  have := hs e he
  simp only [decide_eq_true_eq]
  omega

/-- **after the last edit a history is a plain run of the world**: when every edit of the script lies before round `j`, the
    observations of `runHistory` from round `j` are those of `runRounds` -/
theorem runHistory_past (h : Hashing) (script : Script) :
    ∀ (fuel j silent : Nat) (i : SyncIn) (plan : List Fault), (∀ e ∈ script, e.1 < j) →
      (runHistory h script fuel j silent i plan).map (·.obs) = runRounds h fuel silent i plan
  | 0, _, _, _, _, _ => rfl
  | fuel + 1, j, silent, i, plan, hs => by
    rw [runHistory_succ, runRounds_succ]
    have he := editsAt_past script j hs
    have hp := pendingAfter_past script j (fun e he => Nat.le_of_lt (hs e he))
    simp only [he, hp, applyEdits_nil, List.isEmpty_nil, if_true, Bool.not_false, Bool.and_true, decide_eq_true_eq]
    split_ifs <;> first
      | rfl
      | omega
      | (rw [List.map_cons]; congr 1
         exact runHistory_past h script fuel (j + 1) _ _ [] (fun e he => Nat.lt_succ_of_lt (hs e he)))

/-- the round of the last edits: from there on the history is the plain run of the world those edits produced -/
theorem runHistory_last (h : Hashing) (script : Script) (fuel j silent : Nat) (i : SyncIn) (plan : List Fault)
    (hs : ∀ e ∈ script, e.1 ≤ j) :
    (runHistory h script fuel j silent i plan).map (·.obs) =
      runRounds h fuel (if (editsAt script j).isEmpty then silent else 0) (applyEdits (editsAt script j) i) plan := by
  cases fuel with
  | zero => rfl
  | succ fuel =>
    rw [runHistory_succ, runRounds_succ]
    have hp := pendingAfter_past script j hs
    simp only [hp, Bool.not_false, Bool.and_true, decide_eq_true_eq]
    split_ifs <;> first
      | rfl
      | omega
      | (rw [List.map_cons]; congr 1
         exact runHistory_past h script fuel (j + 1) _ _ [] (fun e he => Nat.lt_succ_of_le (hs e he)))

/-- without a script a history is a plain run -/
theorem runHistory_nil (h : Hashing) (fuel j silent : Nat) (i : SyncIn) (plan : List Fault) :
    (runHistory h [] fuel j silent i plan).map (·.obs) = runRounds h fuel silent i plan :=
  runHistory_past h [] fuel j silent i plan (fun e he => by simp at he)

end Asts.WE
