import Asts.Proofs.C02_CSim

/-! C02, worlds with non-members: list lemmas — taking the members (owned) commutes, up to pod ids, with everything a
    round does to the pod list. -/
namespace Asts.C02p
open Asts Asts.L1c

theorem own_settleOne (c : CPod) : own (settleOne c) = settleOne (own c) := by
  by_cases hfs : (c.pod.failed || c.pod.succeeded) = true
  · have h1 : settleOne c = c := by unfold settleOne; rw [if_pos hfs]
    have h2 : settleOne (own c) = own c := by unfold settleOne; rw [if_pos (by exact hfs)]
    rw [h1, h2]
  · have h1 : settleOne c = { c with pod := { c.pod with phase := .running, ready := true } } := by
      unfold settleOne; rw [if_neg hfs]
    have h2 : settleOne (own c) = { own c with pod := { (own c).pod with phase := .running, ready := true } } := by
      unfold settleOne; rw [if_neg (by exact hfs)]
    rw [h1, h2]
    rfl

theorem key_own (c : CPod) : key (own c) = own (key c) := rfl

theorem keyPerm_map_own {A B : List CPod} (hk : KeyPerm A B) : KeyPerm (A.map own) (B.map own) := by
  unfold KeyPerm at *
  have h1 : ∀ l : List CPod, (l.map own).map key = (l.map key).map own := by
    intro l; rw [List.map_map, List.map_map]; rfl
  rw [h1 A, h1 B]
  exact List.Perm.map _ hk

theorem keyPerm_ownM {A B : List CPod} (hk : KeyPerm A B) : KeyPerm (ownM A) (ownM B) :=
  keyPerm_map_own (hk.filter (·.member) (fun _ => rfl))

theorem ownM_settleStage (X : List CPod) :
    ownM ((X.filter (fun c => !c.pod.terminating)).map settleOne) = ((ownM X).filter (fun c => !c.pod.terminating)).map settleOne := by
  unfold ownM
  rw [List.filter_map, List.map_map, List.filter_map, List.map_map, List.filter_filter, List.filter_filter]
  have e1 : (own ∘ settleOne) = (settleOne ∘ own) := by funext c; exact own_settleOne c
  have e2 : ((fun c : CPod => c.member) ∘ settleOne) = fun c => c.member := by funext c; exact settleOne_member c
  have e3 : ((fun c : CPod => !c.pod.terminating) ∘ own) = fun c => !c.pod.terminating := rfl
  rw [e1, e2, e3]
  congr 2
  funext c
  exact Bool.and_comm _ _

theorem ownM_norm1 (l : List CPod) : ownM (l.map norm1) = ownM l := by
  unfold ownM
  rw [List.filter_map, List.map_map]
  have e1 : ((fun c : CPod => c.member) ∘ norm1) = fun c => c.member := by funext c; exact norm1_member c
  rw [e1]
  apply List.map_congr_left
  intro c _
  simp only [Function.comp]
  unfold norm1 flipOwner own
  split_ifs
  · split <;> rfl
  · rfl

/-- keeping the members commutes with the pod-control calls -/
theorem filterMem_applyActs (setName : String) (orig : List CPod) (acts : List Action) (pods : List CPod) :
    (applyActs setName orig pods acts).filter (·.member) = applyActs setName orig (pods.filter (·.member)) acts := by
  induction acts generalizing pods with
  | nil => rfl
  | cons a rest ih =>
    have hset : ∀ (L : List CPod) (p : CPod → Bool) (f : CPod → CPod), (∀ c, (f c).member = c.member) →
        (setPod L p f).filter (·.member) = setPod (L.filter (·.member)) p f := by
      intro L p f hm
      unfold setPod
      rw [List.filter_map]
      congr 1
      apply List.filter_congr
      intro c _
      simp only [Function.comp]
      split_ifs
      · exact hm c
      · rfl
    cases a with
    | create o rev =>
      unfold applyActs
      rw [ih, List.filter_append]
      rfl
    | delete o id w =>
      unfold applyActs
      rw [ih]
      congr 1
      have e : List.filter (fun c => !(c.pod.id == id && (c.pod.failed || c.pod.succeeded))) (pods.filter (·.member)) =
          (List.filter (fun c => !(c.pod.id == id && (c.pod.failed || c.pod.succeeded))) pods).filter (·.member) := by
        rw [List.filter_filter, List.filter_filter]
        apply List.filter_congr
        intro c _
        exact Bool.and_comm _ _
      rw [e]
      apply hset
      intro c; rfl
    | update o =>
      unfold applyActs
      rw [ih]
      congr 1
      apply hset
      intro c; rfl

theorem names_settleStage_nonmem (X : List CPod) :
    ((((X.filter (fun c => !c.pod.terminating)).map settleOne).filter (fun c => !c.member)).map (·.name)).Sublist
      ((X.filter (fun c => !c.member)).map (·.name)) := by
  rw [List.filter_map, List.map_map]
  have e2 : ((fun c : CPod => !c.member) ∘ settleOne) = fun c => !c.member := by
    funext c; simp only [Function.comp, settleOne_member]
  have e3 : ((fun c : CPod => c.name) ∘ settleOne) = fun c => c.name := by funext c; exact settleOne_name c
  rw [e2, e3, List.filter_filter]
  apply List.Sublist.map
  apply List.monotone_filter_right
  intro c hc
  simp only [Bool.and_eq_true] at hc
  exact hc.1

theorem names_norm1_nonmem (l : List CPod) :
    ((l.map norm1).filter (fun c => !c.member)).map (·.name) = (l.filter (fun c => !c.member)).map (·.name) := by
  rw [List.filter_map, List.map_map]
  have e2 : ((fun c : CPod => !c.member) ∘ norm1) = fun c => !c.member := by
    funext c; simp only [Function.comp, norm1_member]
  rw [e2]
  apply List.map_congr_left
  intro c _
  simp only [Function.comp]
  unfold norm1 flipOwner
  split_ifs
  · split <;> rfl
  · rfl

/-- the name of a key is the name -/
theorem keyPerm_names {A B : List CPod} (hk : KeyPerm A B) : (A.map (·.name)).Perm (B.map (·.name)) := by
  have h1 : ∀ l : List CPod, l.map (·.name) = (l.map key).map (·.name) := by
    intro l; rw [List.map_map]; rfl
  rw [h1 A, h1 B]
  exact List.Perm.map _ hk

end Asts.C02p
