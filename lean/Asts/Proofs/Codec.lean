import Asts.Model.Codec
import Asts.Spec.Codec
import Mathlib.Tactic

namespace Asts.Codec
open List

/-! The generic round-trip theorem of the schema-indexed codec: for a type `t` all of whose fields occur, with the same
    key, `omitempty` flag and shape, in `t1` and in `t2`, marshalling a well-typed value at `t1` and unmarshalling at `t2`
    gives back the same value on the fields of `t`, nil and empty slices identified. Everything else is an instance. -/

/-! ### inversion of `compat` -/

theorem compat_prim {p : Prim} {b : GoTy} (h : compat (.prim p) b = true) : b = .prim p := by
  cases b <;> simp_all [compat]

theorem compat_leaf {n : String} {z : Bool} {b : GoTy} (h : compat (.leaf n z) b = true) : b = .leaf n z := by
  cases b <;> simp_all [compat]

theorem compat_ptr {t b : GoTy} (h : compat (.ptr t) b = true) : ∃ u, b = .ptr u ∧ compat t u = true := by
  cases b <;> simp_all [compat]

theorem compat_slice {t b : GoTy} (h : compat (.slice t) b = true) : ∃ u, b = .slice u ∧ compat t u = true := by
  cases b <;> simp_all [compat]

theorem compat_struct {fs : Fields} {b : GoTy} (h : compat (.struct fs) b = true) :
    ∃ gs, b = .struct gs ∧ compatFields fs gs = true := by
  cases b <;> simp_all [compat]

theorem compatFields_cons {k : String} {o : Bool} {t : GoTy} {rest gs : Fields}
    (h : compatFields ((k, o, t) :: rest) gs = true) :
    (∃ u, findField k gs = some (o, u) ∧ compat t u = true) ∧ compatFields rest gs = true := by
  simp only [compatFields, Bool.and_eq_true] at h
  obtain ⟨h1, h2⟩ := h
  refine ⟨?_, h2⟩
  cases hf : findField k gs with
  | none => simp [hf] at h1
  | some p =>
    obtain ⟨o', u⟩ := p
    simp only [hf, Bool.and_eq_true, beq_iff_eq] at h1
    exact ⟨u, by rw [h1.1], h1.2⟩

/-! ### looking fields up -/

theorem findField_wf {k : String} {o : Bool} {u : GoTy} : ∀ {fs : Fields}, wfFields fs = true → findField k fs = some (o, u) → wf u = true
  | [], _, h => by simp [findField] at h
  | (k', o', t') :: rest, hw, h => by
    simp only [wfFields, Bool.and_eq_true] at hw
    simp only [findField] at h
    split_ifs at h with hk
    · simp only [Option.some.injEq, Prod.mk.injEq] at h; rw [← h.2]; exact hw.1.2
    · exact findField_wf hw.2 h

theorem findField_hasTy {k : String} {o : Bool} {u : GoTy} {vs : List (String × GoVal)} :
    ∀ {fs : Fields}, HasTyFields fs vs → findField k fs = some (o, u) → ∃ x, vlookup k vs = some x ∧ HasTy u x
  | [], _, h => by simp [findField] at h
  | (k', o', t') :: rest, ht, h => by
    simp only [HasTyFields] at ht
    simp only [findField] at h
    split_ifs at h with hk
    · simp only [Option.some.injEq, Prod.mk.injEq] at h
      subst hk
      obtain ⟨h1, _⟩ := ht
      cases hv : vlookup k' vs with
      | none => simp [hv] at h1
      | some x => exact ⟨x, rfl, by simpa [hv, h.2] using h1⟩
    · exact findField_hasTy ht.2 h

theorem findField_none_of_not_mem {k : String} : ∀ {fs : Fields}, (keys fs).contains k = false → findField k fs = none
  | [], _ => rfl
  | (k', o', t') :: rest, h => by
    simp only [keys, List.map_cons, List.contains_cons, Bool.or_eq_false_iff, beq_eq_false_iff_ne, ne_eq] at h
    have hk : ¬ k' = k := fun e => h.1 e.symm
    simp only [findField, hk, if_false]
    exact findField_none_of_not_mem (by simpa [keys] using h.2)

/-- a key that is not a field of the type is not written -/
theorem jlookup_encodeFields_none {k : String} (vs : List (String × GoVal)) :
    ∀ {fs : Fields}, (keys fs).contains k = false → jlookup k (encodeFields fs vs) = none
  | [], _ => by simp [encodeFields, jlookup]
  | (k', o', t') :: rest, h => by
    simp only [keys, List.map_cons, List.contains_cons, Bool.or_eq_false_iff, beq_eq_false_iff_ne, ne_eq] at h
    have hk : ¬ k' = k := fun e => h.1 e.symm
    have ih := jlookup_encodeFields_none (k := k) vs (fs := rest) (by simpa [keys] using h.2)
    simp only [encodeFields]
    split
    · split_ifs
      · exact ih
      · simp only [jlookup, hk, if_false]; exact ih
    · exact ih

/-- what `Marshal` writes under a key of the type: nothing when the field is `omitempty` and empty, else its encoding -/
theorem jlookup_encodeFields {k : String} {o : Bool} {u : GoTy} {vs : List (String × GoVal)} {x : GoVal} :
    ∀ {fs : Fields}, wfFields fs = true → findField k fs = some (o, u) → vlookup k vs = some x →
      jlookup k (encodeFields fs vs) = if (o && isEmpty x) = true then none else some (encode u x)
  | [], _, h, _ => by simp [findField] at h
  | (k', o', t') :: rest, hw, h, hv => by
    simp only [wfFields, Bool.and_eq_true, Bool.not_eq_true'] at hw
    simp only [findField] at h
    by_cases hk : k' = k
    · subst hk
      simp only [if_true, Option.some.injEq, Prod.mk.injEq] at h
      obtain ⟨rfl, rfl⟩ := h
      simp only [encodeFields, hv]
      split_ifs with he
      · exact jlookup_encodeFields_none vs hw.1.1
      · simp [jlookup]
    · simp only [hk, if_false] at h
      have ih := jlookup_encodeFields (fs := rest) hw.2 h hv
      rw [← ih]
      simp only [encodeFields]
      split
      · split_ifs with he
        · rfl
        · simp only [jlookup, hk, if_false]
      · rfl

/-- what `Unmarshal` puts under a key of the type -/
theorem vlookup_decodeFields {k : String} {o : Bool} {u : GoTy} (kvs : List (String × Json)) :
    ∀ {fs : Fields}, findField k fs = some (o, u) →
      vlookup k (decodeFields fs kvs) = some (match jlookup k kvs with | some j => decode u j | none => zero u)
  | [], h => by simp [findField] at h
  | (k', o', t') :: rest, h => by
    simp only [findField] at h
    by_cases hk : k' = k
    · subst hk
      simp only [if_true, Option.some.injEq, Prod.mk.injEq] at h
      obtain ⟨_, rfl⟩ := h
      simp only [decodeFields, vlookup, if_true]
      cases jlookup k' kvs <;> rfl
    · simp only [hk, if_false] at h
      simp only [decodeFields, vlookup, hk, if_false]
      exact vlookup_decodeFields kvs h

/-! ### values that never marshal to `null`; empty values are zero values -/

theorem encode_ne_null {t : GoTy} {v : GoVal} (hn : nonNull t = true) (h : HasTy t v) : encode t v ≠ .null := by
  cases t with
  | prim p =>
    cases p <;> cases v <;> simp_all [HasTy, encode]
  | leaf n z =>
    cases v <;> simp_all [HasTy, encode, nonNull]
  | struct fs =>
    cases v <;> simp_all [HasTy, encode]
  | ptr t => simp [nonNull] at hn
  | slice t => simp [nonNull] at hn
  | unsupported w => simp [nonNull] at hn

/-- an `omitempty` field that was dropped comes back as the zero value, which equals the empty value it had -/
theorem equiv_zero_of_isEmpty {t t1 t2 : GoTy} {x : GoVal} (c1 : compat t t1 = true) (c2 : compat t t2 = true)
    (h : HasTy t1 x) (he : isEmpty x = true) : Equiv t (zero t2) x := by
  cases t with
  | prim p =>
    have e1 := compat_prim c1; have e2 := compat_prim c2; subst e1; subst e2
    cases p <;> cases x <;> simp_all [HasTy, isEmpty, zero, Equiv]
  | leaf n z =>
    have e1 := compat_leaf c1; subst e1
    cases x <;> simp_all [HasTy, isEmpty]
  | ptr t =>
    obtain ⟨u1, rfl, _⟩ := compat_ptr c1
    obtain ⟨u2, rfl, _⟩ := compat_ptr c2
    cases x <;> simp_all [HasTy, isEmpty, zero, Equiv]
  | slice t =>
    obtain ⟨u1, rfl, _⟩ := compat_slice c1
    obtain ⟨u2, rfl, _⟩ := compat_slice c2
    cases x with
    | slice l =>
      cases l with
      | none => simp [zero, Equiv, EquivList]
      | some l =>
        cases l with
        | nil => simp [zero, Equiv, EquivList]
        | cons a as => simp [isEmpty] at he
    | _ => simp_all [HasTy]
  | struct fs =>
    obtain ⟨g1, rfl, _⟩ := compat_struct c1
    cases x <;> simp_all [HasTy, isEmpty]
  | unsupported w => simp [compat] at c1

/-! ### the theorem -/

theorem equivList_of {t u1 u2 : GoTy}
    (ih : ∀ v, HasTy u1 v → Equiv t (decode u2 (encode u1 v)) v) :
    ∀ l : List GoVal, HasTyList u1 l → EquivList t (decodeList u2 (encodeList u1 l)) l
  | [], _ => by simp [encodeList, decodeList, EquivList]
  | v :: vs, h => by
    simp only [HasTyList] at h
    simp only [encodeList, decodeList, EquivList]
    exact ⟨ih v h.1, equivList_of ih vs h.2⟩

mutual
/-- marshal at `t1`, unmarshal at `t2`: unchanged on the fields of `t`, whenever `t` is contained in both -/
theorem roundtrip : ∀ (t t1 t2 : GoTy) (v : GoVal), wf t1 = true → compat t t1 = true → compat t t2 = true → HasTy t1 v →
    Equiv t (decode t2 (encode t1 v)) v
  | .prim p, t1, t2, v, _, c1, c2, h => by
    have e1 := compat_prim c1; have e2 := compat_prim c2; subst e1; subst e2
    cases p <;> cases v <;> simp_all [HasTy, encode, decode, Equiv]
  | .leaf n z, t1, t2, v, _, c1, c2, h => by
    have e1 := compat_leaf c1; have e2 := compat_leaf c2; subst e1; subst e2
    cases v <;> simp_all [HasTy, encode, decode, Equiv]
  | .ptr t, t1, t2, v, hw, c1, c2, h => by
    obtain ⟨u1, rfl, d1⟩ := compat_ptr c1
    obtain ⟨u2, rfl, d2⟩ := compat_ptr c2
    simp only [wf, Bool.and_eq_true] at hw
    cases v with
    | nilPtr => simp [encode, decode, Equiv]
    | ptr x =>
      simp only [HasTy] at h
      have hne := encode_ne_null hw.1 h
      have ih := roundtrip t u1 u2 x hw.2 d1 d2 h
      simp only [encode, decode]
      cases he : encode u1 x with
      | null => exact absurd he hne
      | _ => simpa [Equiv, he] using ih
    | _ => simp [HasTy] at h
  | .slice t, t1, t2, v, hw, c1, c2, h => by
    obtain ⟨u1, rfl, d1⟩ := compat_slice c1
    obtain ⟨u2, rfl, d2⟩ := compat_slice c2
    simp only [wf] at hw
    cases v with
    | slice l =>
      cases l with
      | none => simp [encode, decode, Equiv, EquivList]
      | some l =>
        simp only [HasTy] at h
        simp only [encode, decode, Equiv, Option.getD_some]
        exact equivList_of (fun x hx => roundtrip t u1 u2 x hw d1 d2 hx) l h
    | _ => simp [HasTy] at h
  | .struct fs, t1, t2, v, hw, c1, c2, h => by
    obtain ⟨g1, rfl, d1⟩ := compat_struct c1
    obtain ⟨g2, rfl, d2⟩ := compat_struct c2
    simp only [wf] at hw
    cases v with
    | struct vs =>
      simp only [HasTy] at h
      simp only [encode, decode, Equiv]
      exact roundtripFields fs g1 g2 vs hw d1 d2 h
    | _ => simp [HasTy] at h
  | .unsupported w, _, _, _, _, c1, _, _ => by simp [compat] at c1
theorem roundtripFields : ∀ (fs g1 g2 : Fields) (vs : List (String × GoVal)), wfFields g1 = true →
    compatFields fs g1 = true → compatFields fs g2 = true → HasTyFields g1 vs →
    EquivFields fs (decodeFields g2 (encodeFields g1 vs)) vs
  | [], _, _, _, _, _, _, _ => by simp [EquivFields]
  | (k, o, t) :: rest, g1, g2, vs, hw, c1, c2, h => by
    obtain ⟨⟨u1, f1, d1⟩, r1⟩ := compatFields_cons c1
    obtain ⟨⟨u2, f2, d2⟩, r2⟩ := compatFields_cons c2
    obtain ⟨x, hx, hty⟩ := findField_hasTy h f1
    have hwu := findField_wf hw f1
    simp only [EquivFields]
    refine ⟨?_, roundtripFields rest g1 g2 vs hw r1 r2 h⟩
    rw [vlookup_decodeFields _ f2, jlookup_encodeFields hw f1 hx, hx]
    by_cases he : (o && isEmpty x) = true
    · simp only [he, if_true]
      exact equiv_zero_of_isEmpty d1 d2 hty (by simp only [Bool.and_eq_true] at he; exact he.2)
    · simp only [he]
      exact roundtrip t u1 u2 x hwu d1 d2 hty
end

/-! ### `Unmarshal` accepts what `Marshal` of a compatible type wrote: conversion never fails -/

theorem acceptsList_of {u1 u2 : GoTy} (ih : ∀ v, HasTy u1 v → accepts u2 (encode u1 v) = true) :
    ∀ l : List GoVal, HasTyList u1 l → acceptsList u2 (encodeList u1 l) = true
  | [], _ => by simp [encodeList, acceptsList]
  | v :: vs, h => by
    simp only [HasTyList] at h
    simp only [encodeList, acceptsList, Bool.and_eq_true]
    exact ⟨ih v h.1, acceptsList_of ih vs h.2⟩

end Asts.Codec

namespace Asts.Codec
open List

/-! ### inversion of `accCompat` -/

theorem accCompat_prim {p : Prim} {b : GoTy} (h : accCompat (.prim p) b = true) : b = .prim p := by
  cases b <;> simp_all [accCompat]
theorem accCompat_leaf {n : String} {z : Bool} {b : GoTy} (h : accCompat (.leaf n z) b = true) : b = .leaf n z := by
  cases b <;> simp_all [accCompat]
theorem accCompat_ptr {t b : GoTy} (h : accCompat (.ptr t) b = true) : ∃ u, b = .ptr u ∧ accCompat t u = true := by
  cases b <;> simp_all [accCompat]
theorem accCompat_slice {t b : GoTy} (h : accCompat (.slice t) b = true) : ∃ u, b = .slice u ∧ accCompat t u = true := by
  cases b <;> simp_all [accCompat]
theorem accCompat_struct {fs : Fields} {b : GoTy} (h : accCompat (.struct fs) b = true) :
    ∃ gs, b = .struct gs ∧ accCompatFields fs gs = true := by
  cases b <;> simp_all [accCompat]

mutual
/-- conversion never fails: what `Marshal` writes for a well-typed value at `e`, `Unmarshal` at `d` accepts -/
theorem accepts_encode : ∀ (d e : GoTy) (v : GoVal), wf e = true → accCompat d e = true → HasTy e v → accepts d (encode e v) = true
  | .prim p, e, v, _, c, h => by
    have e1 := accCompat_prim c; subst e1
    cases p <;> cases v <;> simp_all [HasTy, encode, accepts, primAccepts]
  | .leaf n z, e, v, _, c, h => by simp [accepts]
  | .ptr t, e, v, hw, c, h => by
    obtain ⟨u, rfl, d1⟩ := accCompat_ptr c
    simp only [wf, Bool.and_eq_true] at hw
    cases v with
    | nilPtr => simp [encode, accepts]
    | ptr x =>
      simp only [HasTy] at h
      have ih := accepts_encode t u x hw.2 d1 h
      simp only [encode]
      cases he : encode u x <;> simp_all [accepts]
    | _ => simp [HasTy] at h
  | .slice t, e, v, hw, c, h => by
    obtain ⟨u, rfl, d1⟩ := accCompat_slice c
    simp only [wf] at hw
    cases v with
    | slice l =>
      cases l with
      | none => simp [encode, accepts]
      | some l =>
        simp only [HasTy] at h
        simp only [encode, accepts]
        exact acceptsList_of (fun x hx => accepts_encode t u x hw d1 hx) l h
    | _ => simp [HasTy] at h
  | .struct fs, e, v, hw, c, h => by
    obtain ⟨gs, rfl, d1⟩ := accCompat_struct c
    simp only [wf] at hw
    cases v with
    | struct vs =>
      simp only [HasTy] at h
      simp only [encode, accepts]
      exact acceptsFields_encode fs gs vs hw d1 h
    | _ => simp [HasTy] at h
  | .unsupported w, _, _, _, c, _ => by simp [accCompat] at c
theorem acceptsFields_encode : ∀ (fs gs : Fields) (vs : List (String × GoVal)), wfFields gs = true →
    accCompatFields fs gs = true → HasTyFields gs vs → acceptsFields fs (encodeFields gs vs) = true
  | [], _, _, _, _, _ => by simp [acceptsFields]
  | (k, o, t) :: rest, gs, vs, hw, c, h => by
    simp only [accCompatFields, Bool.and_eq_true] at c
    simp only [acceptsFields, Bool.and_eq_true]
    refine ⟨?_, acceptsFields_encode rest gs vs hw c.2 h⟩
    cases hf : findField k gs with
    | none =>
      have hk : (keys gs).contains k = false := by simpa [hf] using c.1
      rw [jlookup_encodeFields_none vs hk]
    | some p =>
      obtain ⟨o', u⟩ := p
      have d1 : accCompat t u = true := by simpa [hf] using c.1
      obtain ⟨x, hx, hty⟩ := findField_hasTy h hf
      rw [jlookup_encodeFields hw hf hx]
      split_ifs
      · rfl
      · exact accepts_encode t u x (findField_wf hw hf) d1 hty
end

/-! ### `Unmarshal ∘ Marshal` yields well-typed values; `Equiv` is transitive: conversions compose -/

theorem two_pow_pos (n : Nat) : (0 : Int) < (2 : Int) ^ n := by positivity

theorem hasTy_zero_of_isEmpty {t t1 t2 : GoTy} {x : GoVal} (c1 : compat t t1 = true) (c2 : compat t t2 = true)
    (h : HasTy t1 x) (he : isEmpty x = true) : HasTy t (zero t2) := by
  cases t with
  | prim p =>
    have e1 := compat_prim c1; have e2 := compat_prim c2; subst e1; subst e2
    cases p with
    | int bits =>
      have := two_pow_pos (bits - 1)
      simp only [zero, HasTy]; omega
    | _ => simp [zero, HasTy]
  | leaf n z =>
    have e1 := compat_leaf c1; subst e1
    cases x <;> simp_all [HasTy, isEmpty]
  | ptr t =>
    obtain ⟨u2, rfl, _⟩ := compat_ptr c2
    simp [zero, HasTy]
  | slice t =>
    obtain ⟨u2, rfl, _⟩ := compat_slice c2
    simp [zero, HasTy]
  | struct fs =>
    obtain ⟨g1, rfl, _⟩ := compat_struct c1
    cases x <;> simp_all [HasTy, isEmpty]
  | unsupported w => simp [compat] at c1

theorem hasTyList_of {t u1 u2 : GoTy} (ih : ∀ v, HasTy u1 v → HasTy t (decode u2 (encode u1 v))) :
    ∀ l : List GoVal, HasTyList u1 l → HasTyList t (decodeList u2 (encodeList u1 l))
  | [], _ => by simp [encodeList, decodeList, HasTyList]
  | v :: vs, h => by
    simp only [HasTyList] at h
    simp only [encodeList, decodeList, HasTyList]
    exact ⟨ih v h.1, hasTyList_of ih vs h.2⟩

mutual
/-- the converted value is again well typed (read at any `t` contained in both types) -/
theorem hasTy_decode_encode : ∀ (t t1 t2 : GoTy) (v : GoVal), wf t1 = true → compat t t1 = true → compat t t2 = true → HasTy t1 v →
    HasTy t (decode t2 (encode t1 v))
  | .prim p, t1, t2, v, _, c1, c2, h => by
    have e1 := compat_prim c1; have e2 := compat_prim c2; subst e1; subst e2
    cases p <;> cases v <;> simp_all [HasTy, encode, decode]
  | .leaf n z, t1, t2, v, _, c1, c2, h => by
    have e1 := compat_leaf c1; have e2 := compat_leaf c2; subst e1; subst e2
    cases v <;> simp_all [HasTy, encode, decode]
  | .ptr t, t1, t2, v, hw, c1, c2, h => by
    obtain ⟨u1, rfl, d1⟩ := compat_ptr c1
    obtain ⟨u2, rfl, d2⟩ := compat_ptr c2
    simp only [wf, Bool.and_eq_true] at hw
    cases v with
    | nilPtr => simp [encode, decode, HasTy]
    | ptr x =>
      simp only [HasTy] at h
      have hne := encode_ne_null hw.1 h
      have ih := hasTy_decode_encode t u1 u2 x hw.2 d1 d2 h
      simp only [encode, decode]
      cases he : encode u1 x with
      | null => exact absurd he hne
      | _ => simpa [HasTy, he] using ih
    | _ => simp [HasTy] at h
  | .slice t, t1, t2, v, hw, c1, c2, h => by
    obtain ⟨u1, rfl, d1⟩ := compat_slice c1
    obtain ⟨u2, rfl, d2⟩ := compat_slice c2
    simp only [wf] at hw
    cases v with
    | slice l =>
      cases l with
      | none => simp [encode, decode, HasTy]
      | some l =>
        simp only [HasTy] at h
        simp only [encode, decode, HasTy]
        exact hasTyList_of (fun x hx => hasTy_decode_encode t u1 u2 x hw d1 d2 hx) l h
    | _ => simp [HasTy] at h
  | .struct fs, t1, t2, v, hw, c1, c2, h => by
    obtain ⟨g1, rfl, d1⟩ := compat_struct c1
    obtain ⟨g2, rfl, d2⟩ := compat_struct c2
    simp only [wf] at hw
    cases v with
    | struct vs =>
      simp only [HasTy] at h
      simp only [encode, decode, HasTy]
      exact hasTyFields_decode_encode fs g1 g2 vs hw d1 d2 h
    | _ => simp [HasTy] at h
  | .unsupported w, _, _, _, _, c1, _, _ => by simp [compat] at c1
theorem hasTyFields_decode_encode : ∀ (fs g1 g2 : Fields) (vs : List (String × GoVal)), wfFields g1 = true →
    compatFields fs g1 = true → compatFields fs g2 = true → HasTyFields g1 vs →
    HasTyFields fs (decodeFields g2 (encodeFields g1 vs))
  | [], _, _, _, _, _, _, _ => by simp [HasTyFields]
  | (k, o, t) :: rest, g1, g2, vs, hw, c1, c2, h => by
    obtain ⟨⟨u1, f1, d1⟩, r1⟩ := compatFields_cons c1
    obtain ⟨⟨u2, f2, d2⟩, r2⟩ := compatFields_cons c2
    obtain ⟨x, hx, hty⟩ := findField_hasTy h f1
    have hwu := findField_wf hw f1
    simp only [HasTyFields]
    refine ⟨?_, hasTyFields_decode_encode rest g1 g2 vs hw r1 r2 h⟩
    rw [vlookup_decodeFields _ f2, jlookup_encodeFields hw f1 hx]
    by_cases he : (o && isEmpty x) = true
    · simp only [he, if_true]
      exact hasTy_zero_of_isEmpty d1 d2 hty (by simp only [Bool.and_eq_true] at he; exact he.2)
    · simp only [he]
      exact hasTy_decode_encode t u1 u2 x hwu d1 d2 hty
end

theorem equivList_trans {t : GoTy} (ih : ∀ a b c, Equiv t a b → Equiv t b c → Equiv t a c) :
    ∀ (l1 l2 l3 : List GoVal), EquivList t l1 l2 → EquivList t l2 l3 → EquivList t l1 l3
  | [], [], [], _, _ => by simp [EquivList]
  | a :: as, b :: bs, c :: cs, h1, h2 => by
    simp only [EquivList] at h1 h2 ⊢
    exact ⟨ih a b c h1.1 h2.1, equivList_trans ih as bs cs h1.2 h2.2⟩
  | [], [], _ :: _, _, h2 => by simp [EquivList] at h2
  | [], _ :: _, _, h1, _ => by simp [EquivList] at h1
  | _ :: _, [], _, h1, _ => by simp [EquivList] at h1
  | _ :: _, _ :: _, [], _, h2 => by simp [EquivList] at h2

mutual
theorem equiv_trans : ∀ (t : GoTy) (a b c : GoVal), Equiv t a b → Equiv t b c → Equiv t a c
  | .prim p, a, b, c, h1, h2 => by simp only [Equiv] at *; exact h1.trans h2
  | .leaf n z, a, b, c, h1, h2 => by simp only [Equiv] at *; exact h1.trans h2
  | .ptr t, a, b, c, h1, h2 => by
    cases a <;> cases b <;> cases c <;> simp only [Equiv] at h1 h2 ⊢
    exact equiv_trans t _ _ _ h1 h2
  | .slice t, a, b, c, h1, h2 => by
    cases a <;> cases b <;> cases c <;> simp only [Equiv] at h1 h2 ⊢
    exact equivList_trans (fun x y z => equiv_trans t x y z) _ _ _ h1 h2
  | .struct fs, a, b, c, h1, h2 => by
    cases a <;> cases b <;> cases c <;> simp only [Equiv] at h1 h2 ⊢
    exact equivFields_trans fs _ _ _ h1 h2
  | .unsupported w, _, _, _, h1, _ => by simp [Equiv] at h1
theorem equivFields_trans : ∀ (fs : Fields) (xs ys zs : List (String × GoVal)), EquivFields fs xs ys → EquivFields fs ys zs →
    EquivFields fs xs zs
  | [], _, _, _, _, _ => by simp [EquivFields]
  | (k, o, t) :: rest, xs, ys, zs, h1, h2 => by
    simp only [EquivFields] at h1 h2 ⊢
    refine ⟨?_, equivFields_trans rest xs ys zs h1.2 h2.2⟩
    cases hx : vlookup k xs <;> cases hy : vlookup k ys <;> cases hz : vlookup k zs <;> simp_all
    exact equiv_trans t _ _ _ h1.1 h2.1
end

/-- slices that are `Equiv` have the same length -/
theorem equivList_length {t : GoTy} : ∀ (l1 l2 : List GoVal), EquivList t l1 l2 → l1.length = l2.length
  | [], [], _ => rfl
  | a :: as, b :: bs, h => by
    simp only [EquivList] at h
    simp [equivList_length as bs h.2]
  | [], _ :: _, h => by simp [EquivList] at h
  | _ :: _, [], h => by simp [EquivList] at h

/-- **there and back again**: with `a ⊆ b`, converting a well-typed `b`-value to `a` and back to `b` keeps every field of `a` -/
theorem there_and_back (a b : GoTy) (w : GoVal) (hwa : wf a = true) (hwb : wf b = true)
    (caa : compat a a = true) (cab : compat a b = true) (h : HasTy b w) :
    Equiv a (decode b (encode a (decode a (encode b w)))) w := by
  have h1 : Equiv a (decode a (encode b w)) w := roundtrip a b a w hwb cab caa h
  have ht : HasTy a (decode a (encode b w)) := hasTy_decode_encode a b a w hwb cab caa h
  have h2 : Equiv a (decode b (encode a (decode a (encode b w)))) (decode a (encode b w)) :=
    roundtrip a a b _ hwa caa cab ht
  exact equiv_trans a _ _ _ h2 h1

/-! ### the apiVersion stamp -/

theorem vlookup_map_set {k : String} {x : GoVal} : ∀ (fs : List (String × GoVal)), (vlookup k fs).isSome = true →
    vlookup k (fs.map fun e => if e.1 = k then (k, x) else e) = some x
  | [], h => by simp [vlookup] at h
  | (k', v) :: rest, h => by
    by_cases hk : k' = k
    · simp [vlookup, hk]
    · simp only [vlookup, hk, if_false] at h
      simp only [List.map_cons, hk, if_false, vlookup]
      exact vlookup_map_set rest h

theorem vlookup_map_set_ne {k k' : String} {x : GoVal} (hne : k' ≠ k) : ∀ (fs : List (String × GoVal)),
    vlookup k' (fs.map fun e => if e.1 = k then (k, x) else e) = vlookup k' fs
  | [] => rfl
  | (k0, v) :: rest => by
    by_cases hk : k0 = k
    · have : ¬ k = k' := fun e => hne e.symm
      have h0 : ¬ k0 = k' := by rw [hk]; exact this
      simp only [List.map_cons, hk, if_true, vlookup, this, if_false]
      exact vlookup_map_set_ne hne rest
    · by_cases h1 : k0 = k'
      · subst h1; simp [vlookup, hk]
      · simp only [List.map_cons, hk, if_false, vlookup, h1]
        exact vlookup_map_set_ne hne rest

theorem decode_struct (fs : Fields) (j : Json) :
    decode (.struct fs) j = .struct (decodeFields fs (match j with | .obj kvs => kvs | _ => [])) := by
  cases j <;> simp [decode]

/-- a converted object carries the target apiVersion, whatever it carried before … -/
theorem convert_typed (src : GoTy) (fs : Fields) (av : String) (v : GoVal) {o : Bool} {u : GoTy}
    (hf : findField "apiVersion" fs = some (o, u)) :
    topField "apiVersion" (convert src (.struct fs) av v) = some (.str av) := by
  rw [convert, decode_struct]
  simp only [setField, topField]
  apply vlookup_map_set
  rw [vlookup_decodeFields _ hf]; rfl

/-- … and the stamp touches no other field -/
theorem convert_other_fields (src : GoTy) (fs : Fields) (av : String) (v : GoVal) {k : String} (hk : k ≠ "apiVersion") :
    topField k (convert src (.struct fs) av v) = topField k (decode (.struct fs) (encode src v)) := by
  rw [convert, decode_struct]
  simp only [setField, topField]
  exact vlookup_map_set_ne hk _

end Asts.Codec
