import Batteries.Data.String.Lemmas
import Mathlib.Tactic

/-! `String.splitOn` with the separator `":"` agrees with `List.splitOnP (· == ':')` on the characters — for every string.
    (Batteries proves the analogue for `splitToList`; `splitOn` is still a TODO there.) -/
namespace Asts.C02p
open String

theorem splitOnAux_unfold' (s sep : String) (b i j : String.Pos.Raw) (r : List String) :
  s.splitOnAux sep b i j r =
    if String.Pos.Raw.atEnd s i = true then
      (String.Pos.Raw.extract s b i :: r).reverse
    else
      if (String.Pos.Raw.get s i == String.Pos.Raw.get sep j) = true then
        if String.Pos.Raw.atEnd sep (String.Pos.Raw.next sep j) = true then
          s.splitOnAux sep (String.Pos.Raw.next s i) (String.Pos.Raw.next s i) 0
            (String.Pos.Raw.extract s b ((String.Pos.Raw.next s i).unoffsetBy (String.Pos.Raw.next sep j)) :: r)
        else s.splitOnAux sep b (String.Pos.Raw.next s i) (String.Pos.Raw.next sep j) r
      else s.splitOnAux sep b (String.Pos.Raw.next s (i.unoffsetBy j)) 0 r := by
  rw [String.splitOnAux.eq_1]

theorem colon_get : String.Pos.Raw.get ":" 0 = ':' := by decide +kernel
theorem colon_next : String.Pos.Raw.next ":" 0 = ⟨1⟩ := by decide +kernel
theorem colon_atEnd : String.Pos.Raw.atEnd ":" ⟨1⟩ = true := by decide +kernel

theorem splitOnAux_colon (l m r : List Char) (acc : List String) :
    String.splitOnAux (ofList (l ++ m ++ r)) ":" ⟨utf8Len l⟩ ⟨utf8Len l + utf8Len m⟩ 0 acc =
      acc.reverse ++ (List.splitOnPPrepend (· == ':') r m.reverse).map ofList := by
  induction r generalizing l m acc with
  | nil =>
    rw [splitOnAux_unfold']
    have hend : String.Pos.Raw.atEnd (ofList (l ++ m ++ [])) ⟨utf8Len l + utf8Len m⟩ = true := by
      have := (String.atEnd_of_valid (l ++ m) []).2 rfl
      simpa [utf8Len_append] using this
    rw [if_pos hend]
    have := extract_of_valid l m []
    simp only [List.append_nil] at this ⊢
    rw [this]
    simp
  | cons c r ih =>
    rw [splitOnAux_unfold']
    have hend : ¬ String.Pos.Raw.atEnd (ofList (l ++ m ++ c :: r)) ⟨utf8Len l + utf8Len m⟩ = true := by
      have := (String.atEnd_of_valid (l ++ m) (c :: r))
      rw [utf8Len_append] at this
      intro h
      exact absurd (this.1 h) (by simp)
    rw [if_neg hend]
    have hget : String.Pos.Raw.get (ofList (l ++ m ++ c :: r)) ⟨utf8Len l + utf8Len m⟩ = c := by
      have := get_of_valid (l ++ m) (c :: r)
      rw [utf8Len_append] at this
      simpa using this
    have hnext : String.Pos.Raw.next (ofList (l ++ m ++ c :: r)) ⟨utf8Len l + utf8Len m⟩ = ⟨utf8Len l + utf8Len m + c.utf8Size⟩ := by
      have := next_of_valid (l ++ m) c r
      rw [utf8Len_append] at this
      exact this
    rw [hget, colon_get, colon_next, colon_atEnd]
    by_cases hc : c = ':'
    · subst hc
      simp only [beq_self_eq_true, if_true, hnext]
      have hsz : (':' : Char).utf8Size = 1 := by decide
      have hun : (⟨utf8Len l + utf8Len m + (':' : Char).utf8Size⟩ : String.Pos.Raw).unoffsetBy ⟨1⟩ = ⟨utf8Len l + utf8Len m⟩ := by
        rw [hsz]; ext; simp [String.Pos.Raw.unoffsetBy]
      rw [hun]
      have hex := extract_of_valid l m (':' :: r)
      rw [hex]
      have := ih (l ++ m ++ [':']) [] (ofList m :: acc)
      simp only [List.append_assoc, List.singleton_append, utf8Len_append, utf8Len_cons, utf8Len_nil, Nat.zero_add,
        Nat.add_zero, List.append_nil] at this
      simp only [Nat.add_assoc, List.append_assoc] at this ⊢
      rw [this]
      simp [List.splitOnPPrepend_cons_eq_if]
    · have hne : (c == ':') = false := by simpa using hc
      simp only [hne, Bool.false_eq_true, if_false]
      have hun : (⟨utf8Len l + utf8Len m⟩ : String.Pos.Raw).unoffsetBy 0 = ⟨utf8Len l + utf8Len m⟩ := by
        ext; simp [String.Pos.Raw.unoffsetBy]
      rw [hun, hnext]
      have := ih l (m ++ [c]) acc
      simp only [List.append_assoc, List.singleton_append, utf8Len_append, utf8Len_cons, utf8Len_nil, Nat.zero_add] at this
      simp only [Nat.add_assoc, List.append_assoc] at this ⊢
      rw [this]
      simp [List.splitOnPPrepend_cons_eq_if, hne]

/-- **`splitOn ":"` on the characters** -/
theorem splitOn_colon (s : String) : s.splitOn ":" = (List.splitOnP (· == ':') s.toList).map ofList := by
  unfold String.splitOn
  rw [if_neg (by decide)]
  have := splitOnAux_colon [] [] s.toList []
  simpa using this

end Asts.C02p
