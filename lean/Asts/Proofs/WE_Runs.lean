import Mathlib.Tactic
import Asts.Proofs.WE_Traj
import Asts.Proofs.GL_World

/-! # WE — `runRounds` against the run that never stops: where it stops

`obsFrom h w p n` is the observation of the `n`-th round (0-based) of the plain run from `w` (plan `p` in its first round)
that never stops, `cntFrom … n` the value of the silent-rounds counter after it. `runRounds` is the prefix of that run up to
the first round after which the counter is ≥ 2, cut at the fuel. -/
namespace Asts.WE
open Asts Asts.GL

def plainWorld (h : Hashing) (w : SyncIn) (p : List Fault) : Nat → SyncIn
  | 0 => w
  | n + 1 => (round h (plainWorld h w p n) (planAt p n)).1

def obsFrom (h : Hashing) (w : SyncIn) (p : List Fault) (n : Nat) : RoundObs := (round h (plainWorld h w p n) (planAt p n)).2

def sil (r : RoundObs) : Bool := r.out == "ok" && r.writes == 0

theorem sil_eq_silentOk (r : RoundObs) : sil r = silentOk r := rfl

def cntFrom (h : Hashing) (c : Nat) (w : SyncIn) (p : List Fault) : Nat → Nat
  | 0 => if sil (obsFrom h w p 0) then c + 1 else 0
  | n + 1 => if sil (obsFrom h w p (n + 1)) then cntFrom h c w p n + 1 else 0

theorem plainWorld_shift (h : Hashing) (w : SyncIn) (p : List Fault) :
    ∀ n, plainWorld h w p (n + 1) = plainWorld h (round h w p).1 [] n
  | 0 => rfl
  | n + 1 => by
    show (round h (plainWorld h w p (n + 1)) (planAt p (n + 1))).1 = (round h (plainWorld h (round h w p).1 [] n) (planAt [] n)).1
    rw [plainWorld_shift h w p n, planAt_succ, planAt_nil]

theorem obsFrom_shift (h : Hashing) (w : SyncIn) (p : List Fault) (n : Nat) :
    obsFrom h w p (n + 1) = obsFrom h (round h w p).1 [] n := by
  unfold obsFrom
  rw [plainWorld_shift h w p n, planAt_succ, planAt_nil]

theorem cntFrom_shift (h : Hashing) (c : Nat) (w : SyncIn) (p : List Fault) :
    ∀ n, cntFrom h c w p (n + 1) = cntFrom h (cntFrom h c w p 0) (round h w p).1 [] n
  | 0 => by
    show (if sil (obsFrom h w p 1) then cntFrom h c w p 0 + 1 else 0) = (if sil (obsFrom h (round h w p).1 [] 0) then _ + 1 else 0)
    rw [obsFrom_shift]
  | n + 1 => by
    show (if sil (obsFrom h w p (n + 1 + 1)) then cntFrom h c w p (n + 1) + 1 else 0) =
      (if sil (obsFrom h (round h w p).1 [] (n + 1)) then cntFrom h (cntFrom h c w p 0) (round h w p).1 [] n + 1 else 0)
    rw [obsFrom_shift, cntFrom_shift h c w p n]

theorem runRounds_step (h : Hashing) (fuel c : Nat) (w : SyncIn) (p : List Fault) :
    runRounds h (fuel + 1) c w p =
      if cntFrom h c w p 0 ≥ 2 then [obsFrom h w p 0]
      else obsFrom h w p 0 :: runRounds h fuel (cntFrom h c w p 0) (round h w p).1 [] := by
  rw [runRounds_succ]; rfl

/-- **`runRounds` is the never-stopping run up to its first stop**: (a) its rounds are those of the run; (b) at most `fuel`
    of them; (c) the counter stays below 2 after every round but the last; (d) if fuel is left, the counter is ≥ 2 after
    the last round -/
theorem runRounds_spec (h : Hashing) : ∀ (fuel c : Nat) (w : SyncIn) (p : List Fault),
    (∀ n, n < (runRounds h fuel c w p).length → (runRounds h fuel c w p)[n]? = some (obsFrom h w p n)) ∧
    (runRounds h fuel c w p).length ≤ fuel ∧
    (∀ n, n + 1 < (runRounds h fuel c w p).length → cntFrom h c w p n < 2) ∧
    ((runRounds h fuel c w p).length < fuel →
      ∃ m, (runRounds h fuel c w p).length = m + 1 ∧ cntFrom h c w p m ≥ 2)
  | 0, c, w, p => by
    refine ⟨?_, le_refl _, ?_, ?_⟩ <;> simp [runRounds]
  | fuel + 1, c, w, p => by
    rw [runRounds_step]
    by_cases hc : cntFrom h c w p 0 ≥ 2
    · rw [if_pos hc]
      refine ⟨?_, by simp, ?_, fun _ => ⟨0, rfl, hc⟩⟩
      · intro n hn
        simp only [List.length_singleton, Nat.lt_one_iff] at hn
        subst hn; rfl
      · intro n hn; simp at hn
    · rw [if_neg hc]
      obtain ⟨ia, ib, ic, id⟩ := runRounds_spec h fuel (cntFrom h c w p 0) (round h w p).1 []
      refine ⟨?_, by simp only [List.length_cons]; omega, ?_, ?_⟩
      · intro n hn
        cases n with
        | zero => rfl
        | succ n =>
          simp only [List.length_cons, Nat.add_lt_add_iff_right] at hn
          rw [List.getElem?_cons_succ, ia n hn, obsFrom_shift]
      · intro n hn
        cases n with
        | zero => omega
        | succ n =>
          simp only [List.length_cons, Nat.add_lt_add_iff_right] at hn
          rw [cntFrom_shift]
          exact ic n hn
      · intro hlt
        simp only [List.length_cons, Nat.add_lt_add_iff_right] at hlt
        obtain ⟨m, hm, hcm⟩ := id hlt
        refine ⟨m + 1, by simp only [List.length_cons]; omega, ?_⟩
        rw [cntFrom_shift]; exact hcm

/-- the counter is ≥ 2 after round `m` of a run that started with counter 0 only if rounds `m - 1` and `m` are silent -/
theorem cnt_ge_two (h : Hashing) (w : SyncIn) (p : List Fault) :
    ∀ m, cntFrom h 0 w p m ≥ 2 → ∃ k, m = k + 1 ∧ sil (obsFrom h w p k) = true ∧ sil (obsFrom h w p (k + 1)) = true
  | 0, hm => by
    unfold cntFrom at hm
    split_ifs at hm <;> omega
  | m + 1, hm => by
    refine ⟨m, rfl, ?_⟩
    have h1 : sil (obsFrom h w p (m + 1)) = true := by
      by_contra hne
      have : cntFrom h 0 w p (m + 1) = 0 := by
        show (if sil (obsFrom h w p (m + 1)) then _ else 0) = 0
        rw [if_neg hne]
      omega
    have h2 : cntFrom h 0 w p m ≥ 1 := by
      have : cntFrom h 0 w p (m + 1) = cntFrom h 0 w p m + 1 := by
        show (if sil (obsFrom h w p (m + 1)) then _ else 0) = _
        rw [if_pos h1]
      omega
    refine ⟨?_, h1⟩
    by_contra hne
    have : cntFrom h 0 w p m = 0 := by
      cases m with
      | zero => show (if sil (obsFrom h w p 0) then _ else 0) = 0; rw [if_neg hne]
      | succ m => show (if sil (obsFrom h w p (m + 1)) then _ else 0) = 0; rw [if_neg hne]
    omega

/-- two silent rounds in a row put the counter at 2 or more, whatever it was -/
theorem cnt_of_two_silent (h : Hashing) (c : Nat) (w : SyncIn) (p : List Fault) (k : Nat)
    (h1 : sil (obsFrom h w p k) = true) (h2 : sil (obsFrom h w p (k + 1)) = true) : cntFrom h c w p (k + 1) ≥ 2 := by
  have hk : cntFrom h c w p k ≥ 1 := by
    cases k with
    | zero => show (if sil (obsFrom h w p 0) then c + 1 else 0) ≥ 1; rw [if_pos h1]; omega
    | succ k => show (if sil (obsFrom h w p (k + 1)) then cntFrom h c w p k + 1 else 0) ≥ 1; rw [if_pos h1]; omega
  show (if sil (obsFrom h w p (k + 1)) then cntFrom h c w p k + 1 else 0) ≥ 2
  rw [if_pos h2]; omega

end Asts.WE
