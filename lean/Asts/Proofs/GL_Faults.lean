import Asts.Model.Reconcile
import Mathlib.Tactic

/-! # GL — a fault that is not hit changes nothing

The fault list of a reconcile is consulted only at the moment a pod-control call is issued, and a call that is hit ends
the reconcile with `.err` on the spot. Hence a reconcile that did NOT end `.err` ran exactly as the fault-free one:
`updateStatefulSet_frame`. (Used to lift the fault-free theorem C14 to every sync that ended `.ok`, whatever its plan.) -/
namespace Asts.GL
open Asts

@[simp] theorem hit_nil (verb : Nat) (o : Int) : Faults.hit [] verb o = false := by
  simp [Faults.hit]

theorem replaceFailed_frame (v : SetView) (cur upd : String) (f : Faults) (s : St) (i : Int) (p0 : Pod) :
    replaceFailed v cur upd f s i p0 = replaceFailed v cur upd [] s i p0 ∨
    ∃ s', replaceFailed v cur upd f s i p0 = .error (s', .err) := by
  unfold replaceFailed
  by_cases hfs : (p0.failed || p0.succeeded) = true
  · by_cases hh : f.hit 1 i = true
    · right; simp only [hfs, hh, ↓reduceIte]; exact ⟨_, rfl⟩
    · left; simp only [hfs, hh, hit_nil, Bool.false_eq_true, ↓reduceIte]
  · left; simp only [hfs, Bool.false_eq_true, ↓reduceIte]

theorem ensurePod_frame (cur upd : String) (f : Faults) (mono : Bool) (s : St) (i : Int) (p : Pod) :
    ensurePod cur upd f mono s i p = ensurePod cur upd [] mono s i p ∨
    ∃ s', ensurePod cur upd f mono s i p = .done s' .err := by
  unfold ensurePod
  by_cases h1 : (!p.created) = true
  · by_cases hh : f.hit 0 i = true
    · right; simp only [h1, hh, ↓reduceIte]; exact ⟨_, rfl⟩
    · left; simp only [h1, hh, hit_nil, Bool.false_eq_true, ↓reduceIte]
  · simp only [h1, Bool.false_eq_true, ↓reduceIte]
    by_cases h2 : (p.terminating && mono) = true
    · left; simp only [h2, ↓reduceIte]
    · simp only [h2, Bool.false_eq_true, ↓reduceIte]
      by_cases h3 : (!p.runningAndReady && mono) = true
      · left; simp only [h3, ↓reduceIte]
      · simp only [h3, Bool.false_eq_true, ↓reduceIte]
        by_cases h4 : (p.idOk && p.stOk) = true
        · left; simp only [h4, ↓reduceIte]
        · simp only [h4, Bool.false_eq_true, ↓reduceIte]
          by_cases hh : f.hit 2 i = true
          · right; simp only [hh, ↓reduceIte]; exact ⟨_, rfl⟩
          · left; simp only [hh, hit_nil, Bool.false_eq_true, ↓reduceIte]

theorem replicaStep_frame (v : SetView) (cur upd : String) (f : Faults) (mono : Bool) (s : St) (i : Int) (p0 : Pod) :
    replicaStep v cur upd f mono s i p0 = replicaStep v cur upd [] mono s i p0 ∨
    ∃ s', (replicaStep v cur upd f mono s i p0).1 = .done s' .err := by
  unfold replicaStep
  rcases replaceFailed_frame v cur upd f s i p0 with h | ⟨s', h⟩
  · rw [h]
    cases replaceFailed v cur upd [] s i p0 with
    | error e => left; rfl
    | ok x =>
      obtain ⟨s1, p⟩ := x
      simp only
      rcases ensurePod_frame cur upd f mono s1 i p with h2 | ⟨s', h2⟩
      · left; rw [h2]
      · right; exact ⟨s', h2⟩
  · right; rw [h]; exact ⟨s', rfl⟩

theorem replicaLoop_frame (v : SetView) (cur upd : String) (f : Faults) (mono : Bool) :
    ∀ (l : List (Int × Pod)) (s : St),
      replicaLoop v cur upd f mono s l = replicaLoop v cur upd [] mono s l ∨
      ∃ s', (replicaLoop v cur upd f mono s l).1 = .done s' .err
  | [], s => Or.inl rfl
  | (i, p) :: rest, s => by
    unfold replicaLoop
    rcases replicaStep_frame v cur upd f mono s i p with h | ⟨s', h⟩
    · rw [h]
      rcases hstep : replicaStep v cur upd [] mono s i p with ⟨c, p'⟩
      cases c with
      | next s1 =>
        simp only
        rcases replicaLoop_frame v cur upd f mono rest s1 with h2 | ⟨s', h2⟩
        · left; rw [h2]
        · right; exact ⟨s', h2⟩
      | done s1 o => left; rfl
    · right
      rcases hstep : replicaStep v cur upd f mono s i p with ⟨c, p'⟩
      rw [hstep] at h
      simp only at h
      subst h
      exact ⟨s', rfl⟩

theorem condemnedLoop_frame (cur upd : String) (f : Faults) (mono : Bool) (fu : Option Pod) :
    ∀ (cs : List Pod) (s : St),
      condemnedLoop cur upd f mono fu s cs = condemnedLoop cur upd [] mono fu s cs ∨
      ∃ s', condemnedLoop cur upd f mono fu s cs = .done s' .err
  | [], s => Or.inl rfl
  | c :: rest, s => by
    unfold condemnedLoop
    by_cases h1 : c.terminating = true
    · simp only [h1, ↓reduceIte]
      cases mono with
      | true => left; simp only [↓reduceIte]
      | false =>
        simp only [Bool.false_eq_true, ↓reduceIte]
        exact condemnedLoop_frame cur upd f false fu rest s
    · simp only [h1, Bool.false_eq_true, ↓reduceIte]
      by_cases h2 : (!c.runningAndReady && mono && (fu.map (·.id) != some c.id)) = true
      · left; simp only [h2, ↓reduceIte]
      · simp only [h2, Bool.false_eq_true, ↓reduceIte]
        by_cases hh : f.hit 1 c.ord = true
        · right; simp only [hh, ↓reduceIte]; exact ⟨_, rfl⟩
        · simp only [hh, hit_nil, Bool.false_eq_true, ↓reduceIte]
          cases mono with
          | true => left; simp only [↓reduceIte]
          | false =>
            simp only [Bool.false_eq_true, ↓reduceIte]
            exact condemnedLoop_frame cur upd f false fu rest _

theorem updateWalk_frame (cur upd : String) (f : Faults) :
    ∀ (l : List (Int × Pod)) (s : St),
      updateWalk cur upd f s l = updateWalk cur upd [] s l ∨ (updateWalk cur upd f s l).2 = .err
  | [], s => Or.inl rfl
  | (t, p) :: rest, s => by
    unfold updateWalk
    by_cases h1 : (p.rev != upd && !p.terminating) = true
    · simp only [h1, ↓reduceIte]
      by_cases hh : f.hit 1 t = true
      · right; simp only [hh, ↓reduceIte]
      · left; simp only [hh, hit_nil, Bool.false_eq_true, ↓reduceIte]
    · simp only [h1, Bool.false_eq_true, ↓reduceIte]
      by_cases h2 : (!p.healthy) = true
      · left; simp only [h2, ↓reduceIte]
      · simp only [h2, Bool.false_eq_true, ↓reduceIte]
        exact updateWalk_frame cur upd f rest s

theorem updateStage_frame (v : SetView) (cur upd : String) (f : Faults) (reps : List (Int × Pod)) (s : St) :
    updateStage v cur upd f reps s = updateStage v cur upd [] reps s ∨ (updateStage v cur upd f reps s).2 = .err := by
  unfold updateStage
  split
  · exact Or.inl rfl
  · exact updateWalk_frame cur upd f _ s

theorem runLoops_frame (v : SetView) (cur upd : String) (f : Faults) (p : Prepared) :
    runLoops v cur upd f p = runLoops v cur upd [] p ∨ (runLoops v cur upd f p).2 = .err := by
  unfold runLoops
  simp only
  rcases replicaLoop_frame v cur upd f (!v.parallel) p.reps { status := p.st0 } with h | ⟨s', h⟩
  · rw [h]
    rcases replicaLoop v cur upd [] (!v.parallel) { status := p.st0 } p.reps with ⟨c, reps⟩
    cases c with
    | done s o => exact Or.inl rfl
    | next s =>
      simp only
      rcases condemnedLoop_frame cur upd f (!v.parallel) p.fu p.condemned.reverse s with h2 | ⟨s', h2⟩
      · rw [h2]
        cases condemnedLoop cur upd [] (!v.parallel) p.fu s p.condemned.reverse with
        | done s o => exact Or.inl rfl
        | next s => exact updateStage_frame v cur upd f reps s
      · right; rw [h2]
  · right
    rcases hl : replicaLoop v cur upd f (!v.parallel) { status := p.st0 } p.reps with ⟨c, reps⟩
    rw [hl] at h
    simp only at h
    subst h
    rfl

/-- **A reconcile that did not end `.err` ran exactly as the fault-free reconcile** — same actions, same status, same
    outcome — whatever its fault list. -/
theorem updateStatefulSet_frame (v : SetView) (cur upd : String) (pods : List Pod) (f : Faults) :
    updateStatefulSet v cur upd pods f = updateStatefulSet v cur upd pods [] ∨
    (updateStatefulSet v cur upd pods f).2 = .err := by
  unfold updateStatefulSet
  cases prepare v cur upd pods with
  | error e => exact Or.inl rfl
  | ok p =>
    simp only
    split
    · exact Or.inl rfl
    · exact runLoops_frame v cur upd f p

theorem updateStatefulSet_of_ok (v : SetView) (cur upd : String) (pods : List Pod) (f : Faults)
    (hok : (updateStatefulSet v cur upd pods f).2 = .ok) :
    updateStatefulSet v cur upd pods f = updateStatefulSet v cur upd pods [] := by
  rcases updateStatefulSet_frame v cur upd pods f with h | h
  · exact h
  · rw [hok] at h; cases h

end Asts.GL
