import Asts.Spec.Reconcile
import Asts.Spec.Glue2
import Asts.Driver.Util
namespace Asts.Driver
open Asts

def parsePhase : String → Phase
  | "N" => .none | "P" => .pending | "R" => .running | "S" => .succeeded | "F" => .failed | _ => .unknown

def parsePod (idx : Nat) (t : String) : Pod :=
  match t.splitOn ":" with
  | [o, ph, rd, tm, rv, io, so] =>
    { id := idx, ord := o.toInt!, phase := parsePhase ph, ready := rd == "1", terminating := tm == "1", rev := rv,
      idOk := io == "1", stOk := so == "1" }
  | _ => { id := idx, ord := -1, phase := .none, ready := false, terminating := false, rev := "", idOk := true, stOk := true }

def parseStatus (s : String) : Option Status :=
  match s.splitOn "," with
  | [a, b, c, d, e, f, g] =>
    some { replicas := a.toInt!, ready := b.toInt!, current := c.toInt!, updated := d.toInt!, currentRev := e, updateRev := f, observedGen := g.toInt! }
  | _ => none

def showStatus (st : Status) : String :=
  s!"{st.replicas},{st.ready},{st.current},{st.updated},{st.currentRev},{st.updateRev},{st.observedGen}"

def showOAct : OAct → String
  | .create o r => s!"create:{o}:{r}"
  | .delete o (some id) => s!"delete:{o}:{id}"
  | .delete o none => s!"delete:{o}:f"
  | .update o => s!"update:{o}"

def parseOAct (t : String) : Option OAct :=
  match t.splitOn ":" with
  | ["create", o, r] => some (.create o.toInt! r)
  | ["delete", o, id] => some (.delete o.toInt! (if id == "f" then none else some id.toNat!))
  | ["update", o] => some (.update o.toInt!)
  | _ => none

def parseOActs (s : String) : List OAct := if s == "" then [] else (s.splitOn ",").filterMap parseOAct

def showOut : Outcome → String | .ok => "ok" | .err => "err" | .panic _ => "panic"

structure RcCase where
  v : SetView
  cur : String
  upd : String
  stored : Status
  pods : List Pod
  faults : Faults
  statusFails : Bool

def parseRcCase (line : String) : Option RcCase :=
  match line.splitOn "|" with
  | [r, sl, pol, strat, ru, cur, upd, del, gen, stored, pods, faults] =>
    let ruv : Option (Option Int) := if ru == "none" then none else if ru == "nil" then some none else some (some ru.toInt!)
    let stratV : StratType := if strat == "R" then .rolling else if strat == "D" then .onDelete else .other
    let storedS := (parseStatus stored).getD {}
    let v : SetView := {
      replicas := some r.toInt!
      slots := parseIntList sl
      parallel := (pol == "P")
      strat := stratV
      ru := ruv
      deleting := (del == "1")
      generation := gen.toInt!
      stCurrentReplicas := storedS.current }
    let ps := if pods == "" then [] else ((pods.splitOn ";").zipIdx).map (fun (t, i) => parsePod i t)
    let fs : List (Nat × Int) := if faults == "" then [] else (faults.splitOn ";").map (fun t => match t.splitOn ":" with | [a, b] => (a.toNat!, b.toInt!) | [a, b, _kind] => (a.toNat!, b.toInt!) | _ => (9, 0))
    some { v := v, cur := cur, upd := upd, stored := storedS, pods := ps, faults := fs.filter (·.1 != 3), statusFails := fs.contains (3, 0) }
  | _ => none

/-- model run: (actions, returned status, written status, outcome) -/
def runRc (c : RcCase) : List OAct × Option Status × Option Status × Outcome :=
  let (s, out) := updateStatefulSet c.v c.cur c.upd c.pods c.faults
  match out with
  | .ok =>
    let st := completeRollingUpdate c.v s.status
    if inconsistentStatus c.stored st then
      (observe s.acts, some st, some st, if c.statusFails then .err else .ok)
    else (observe s.acts, some st, none, .ok)
  | .err => (observe s.acts, some s.status, none, .err)
  | .panic e => (observe s.acts, none, none, .panic e)

def rcTag (c : RcCase) (acts : List OAct) (out : Outcome) : String :=
  match out with
  | .panic _ => "panic"
  | .err => "err"
  | .ok =>
    if c.v.deleting then "deleting" else
    let D := desired (replicasOf c.v) c.v.slots
    let cr := acts.any OAct.isCreate
    let sc := !(scaleDeletes D c.pods acts).isEmpty
    let ud := !(updateDeletes D c.pods acts).isEmpty
    let rp := acts.any (fun a => a.isDelete && classify D c.pods a == .replace)
    let up := acts.any (fun a => match a with | .update _ => true | _ => false)
    if acts.isEmpty then (if c.v.parallel then "noop.par" else "noop.mono") else
    (if c.v.parallel then "par" else "mono") ++ (if rp then "+replace" else "") ++ (if cr then "+create" else "") ++
      (if sc then "+scale" else "") ++ (if ud then "+updel" else "") ++ (if up then "+idfix" else "")

def monitorRc (c : RcCase) (obs : String) : String :=
  let acts := parseOActs (fieldD obs "acts")
  let out := fieldD obs "out"
  let written := parseStatus (fieldD obs "written")
  let created := c.pods.all Pod.created
  let wf := wfSnapshot c.pods
  let v := c.v
  verdict [
    ("C15.nopanic", out != "panic"),
    ("C01.creates", C01creates v acts),
    ("C03.justified", C03 v c.upd c.pods acts (out == "ok")),
    ("C04.vacant", !wf || C04 v c.pods acts),
    -- "whose failed/succeeded pod it has just REMOVED": no create at an ordinal whose delete in this reconcile was refused
    ("C04.removed", C04removedRc c.faults acts),
    ("C05.ordered", v.parallel || !wf || C05 v c.pods acts),
    ("C07.rolling", !wf || C07 v c.cur c.upd c.pods acts),
    -- "built from" the revision: the created pod's template is the one its revision label names (observed by the harness)
    ("C07.template", fieldD obs "tplbad" == "0" || fieldD obs "tplbad" == ""),
    ("C06.template", fieldD obs "tplbad" == "0" || fieldD obs "tplbad" == ""),
    -- every pod handed to the pod control for creation carries the identity and the claim volumes of its own ordinal
    ("C06.created", fieldD obs "idbad" == "0" || fieldD obs "idbad" == ""),
    ("C02.template", fieldD obs "tplbad" == "0" || fieldD obs "tplbad" == ""),
    ("C12.bounds", !created || (match written with | some st => C12bounds st | none => true)),
    ("C12.generation", match written with | some st => C12gen v c.stored st | none => true),
    ("C12.completion", match written with | some st => C12complete c.cur c.upd c.pods acts st | none => true),
    ("C14.burst", !v.parallel || !c.faults.isEmpty || c.statusFails || out != "ok" || v.deleting || !wf || C14 v c.pods acts)]

def stepReconcile (cas obs : String) : String :=
  match parseRcCase cas with
  | none => "bad-case\tok\tbad"
  | some c =>
    let (acts, st, written, out) := runRc c
    let stS := match st with | some s => showStatus s | none => "-"
    let wS := match written with | some s => showStatus s | none => "-"
    let model := s!"acts={",".intercalate (acts.map showOAct)} status={stS} written={wS} out={showOut out} tplbad=0 idbad=0"
    -- the implementation's panic message is carried in a trailing `site=` field that is not part of the comparison
    let obs' := match obs.splitOn " site=" with | o :: _ => o | [] => obs
    s!"{model}\t{monitorRc c obs'}\t{rcTag c acts out}"

end Asts.Driver
