import Asts.Spec.WorldEdits
import Asts.Driver.World
namespace Asts.Driver
open Asts

def insertInt (x : Int) : List Int → List Int
  | [] => [x]
  | y :: ys => if x < y then x :: y :: ys else if x == y then y :: ys else y :: insertInt x ys

def sortDedupInts (l : List Int) : List Int := l.foldl (fun acc x => insertInt x acc) []

def parseEdit (t : String) : Option Edit :=
  if t.length < 3 || (t.toList.getD 1 ' ') != '=' then none else
  let arg := (t.drop 2).toString
  match t.toList.getD 0 ' ' with
  | 'r' => arg.toInt?.map Edit.replicas
  | 's' => if arg == "-" then some (.slots none) else
           if (arg.splitOn ",").all (fun x => x.toInt?.isSome) then some (.slots (some (parseIntList arg))) else none
  | 'p' => if arg == "1" then some (.pause true) else if arg == "0" then some (.pause false) else none
  | 't' => if arg == "A" || arg == "B" || arg == "X" || arg == "Y" then some (.template arg) else none
  | 'u' => if arg == "none" then some (.partition none) else arg.toInt?.map (fun p => Edit.partition (some p))
  | 'm' => some (.note arg)
  | _ => none

def showEdit : Edit → String
  | .replicas n => s!"r={n}"
  | .slots none => "s=-"
  | .slots (some l) => s!"s={showIntList l}"
  | .pause on => if on then "p=1" else "p=0"
  | .template t => s!"t={t}"
  | .partition none => "u=none"
  | .partition (some p) => s!"u={p}"
  | .note x => s!"m={x}"

/-- `k:<edit>;k:<edit>;...` with k ≥ 2, non-decreasing -/
def parseEditScript (s : String) : Option Script :=
  (csv s ";").foldl (fun (acc : Option Script) t =>
    match acc with
    | none => none
    | some sc =>
      match t.splitOn ":" with
      | [k, e] =>
        match k.toNat?, parseEdit e with
        | some kn, some ed => if kn < 2 || sc.any (fun x => kn < x.1) then none else some (sc ++ [(kn, ed)])
        | _, _ => none
      | _ => none) (some [])

def showRu : Option (Option Int) → String
  | none => "none" | some none => "nil" | some (some p) => toString p

def showOptInt : Option Int → String | none => "nil" | some n => toString n

def showSpecState (s : SpecState) : String :=
  s!"{s.generation}:{showOptInt s.replicas}:{showIntList (sortDedupInts s.slots)}:{b01 s.paused}:{s.template}:{showRu s.ru}:{showOptInt s.cc}"

def showMark (j : Nat) (es : List Edit) (w : SyncIn) : String :=
  s!"e{j}={"+".intercalate (es.map showEdit)}@{showSpecState (specOfWorld w)}"

def parseSpecState (t : String) : Option SpecState :=
  match t.splitOn ":" with
  | [g, r, sl, p, tm, ru, cc] =>
    some { generation := g.toInt!, replicas := (if r == "nil" then none else some r.toInt!), slots := parseIntList sl, paused := p == "1",
           template := tm, ru := (if ru == "none" then none else if ru == "nil" then some none else some (some ru.toInt!)),
           cc := (if cc == "nil" then none else some cc.toInt!) }
  | _ => none

/-- the edits and the spec state of an `e<j>=<edits>@<state>` token -/
def parseMark (t : String) : Option (Nat × List Edit × Option SpecState) :=
  match (t.drop 1).toString.splitOn "@" with
  | [lhs, st] =>
    -- lhs = "<j>=<edit>+<edit>": the first "=" ends the round number
    let cs := lhs.toList
    let j := String.ofList (cs.takeWhile (· != '='))
    let body := String.ofList ((cs.dropWhile (· != '=')).drop 1)
    some (j.toNat!, (csv body "+").filterMap parseEdit, parseSpecState st)
  | _ => none

/-- hash label of a revision of the observation: the case's own if the name is in the initial store, otherwise the label the
    names table gives the (template, collision count) the name belongs to -/
def hashNumOfName (h : Hashing) (init : List Rev) (name : String) : Option Int :=
  match init.find? (·.name == name) with
  | some r => r.hashNum
  | none =>
    (["A", "B", "X", "Y"].findSome? fun d =>
      (((List.range 24).map Int.ofNat).find? (fun c => h.nameOf d c == name)).map (fun c => h.hashNumOf d c)).getD none

/-- a pod digest of the observation; ordinal and membership come from the case when the pod was there from the start -/
def parsePodW (init : List CPod) (setName : String) (t : String) : Option CPod :=
  (parsePodD setName t).map fun c =>
    match init.find? (·.name == c.name) with
    | some c0 => { c with member := c0.member, pod := { c.pod with ord := c0.pod.ord } }
    | none => c

def parseRoundW (c : SyCase) (t : String) : Option (Nat × RoundObs) :=
  match (t.splitOn "=") with
  | [key, body] =>
    match body.splitOn "/" with
    | [out, w, pods, revs, st] =>
      some ((key.drop 1).toString.toNat!,
        { out := out, writes := w.toNat!, pods := (csv pods ";").filterMap (parsePodW c.i.pods c.i.setName),
          revs := (csv revs ";").filterMap (fun x => (parseRevD x).map fun d =>
            { name := d.name, number := d.number, ctime := 0, data := d.data, hashNum := hashNumOfName c.h c.i.store d.name,
              owner := d.owner, selMatch := d.sel, marker := d.marker }),
          status := (parseStatus st).getD {} })
    | _ => none
  | _ => none

/-- the rounds of an observation with the edit marks attached -/
def parseHistObs (c : SyCase) (obs : String) : List HRound :=
  let toks := obs.splitOn " "
  let marks := (toks.filter (fun t => t.startsWith "e")).filterMap parseMark
  ((toks.filter (fun t => t.startsWith "s" && !t.startsWith "site")).filterMap (parseRoundW c)).map fun (j, r) =>
    match marks.find? (·.1 == j) with
    | some (_, es, st) => { edits := es, spec := st, obs := r }
    | none => { edits := [], spec := none, obs := r }

def weTagOf (script : Script) : String :=
  if (pauseInterval script).isSome then "lossless"
  else if script.any (fun e => match e.2 with | .pause _ => true | _ => false) then "pause"
  else if script.any (fun e => e.2.isTemplate) then "tmpl"
  else if script.any (fun e => match e.2 with | .slots _ => true | _ => false) then "slots"
  else if script.any (fun e => match e.2 with | .replicas _ => true | _ => false) then "scale"
  else if script.isEmpty then "noedit" else "other"

def stepWorldEdit (cas obs : String) : String :=
  match cas.splitOn "#" with
  | [rounds, edits, line] =>
    match parseSyCase line, parseEditScript edits with
    | some c, some script =>
      if (line.splitOn "@crash").length > 1 || c.claims || !c.i.fresh.uidOk || c.i.fresh.gone || c.i.fresh.deleting != c.i.view.deleting then "bad-case\tok\tbad" else
      let hs := runHistory c.h script rounds.toNat! 1 0 c.i c.plan
      let model := s!"n={hs.length} " ++ " ".intercalate ((hs.zipIdx).map (fun (r, k) =>
        (if r.edits.isEmpty then "" else showMark (k + 1) r.edits r.world ++ " ") ++ showRound (k + 1) r.obs)) ++ " tb=0"
      let irs := parseHistObs c obs
      -- the same case never paused, for C11.lossless (run only when the script is a pause interval)
      let ref := if (pauseInterval script).isSome then runRounds c.h rounds.toNat! 0 c.i c.plan else []
      let v := verdict [
        ("C02.afteredits", C02afterEdits c.h c.i irs),
        ("C02.template", fieldD obs "tb" == "0" || fieldD obs "tb" == ""),
        ("C11.pausedsilent", C11pausedSilent c.i irs),
        ("C11.lossless", C11lossless c.i script irs ref),
        ("C08.norestart", C08noRestart c.i irs),
        ("C08.revert", C08revert c.h c.i irs),
        ("C15.nopanic", irs.all (·.obs.out != "panic"))]
      let wf := match lastEditIdx irs with
        | none => wfWorld c.h c.i
        | some k => wfWorld c.h (settle (worldAtEdit c.i irs k))
      let tag := if !wf then "outside-premises." ++ weTagOf script else
        (if c.plan.isEmpty then "wf." else "wf+faulted.") ++ weTagOf script
      s!"{model}\t{v}\t{tag}"
    | _, _ => "bad-case\tok\tbad"
  | _ => "bad-case\tok\tbad"

end Asts.Driver
