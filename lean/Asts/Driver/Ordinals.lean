import Asts.Model.Ordinals
import Asts.Model.JsonInts
import Asts.Spec.Desired
import Asts.Driver.Util
namespace Asts.Driver
open Asts

/-- `GetDeleteSlots`: absent / nil map / unparsable value all give the empty set. -/
def slotsOfAnnotation (kind : String) (raw : List Char) : List Int :=
  if kind == "raw" then
    match JsonInts.parse raw with
    | some l => dedupSort l
    | none => []
  else []

/-- monitor for C01 on an observation of the helpers. The slot set is the one the annotation *denotes* (a JSON array of
    int32 values, anything else denotes no slots) — not the one the implementation says it parsed. -/
def monitorOrdinals (r : Int) (S : List Int) (obs : String) : String :=
  let implSlots := parseIntList (fieldD obs "slots")
  let D := desired r S
  let ords := parseIntList (fieldD obs "ords")
  let ords2 := parseIntList (fieldD obs "ords2")
  let bound := (fieldD obs "bound").toInt!
  let eff := parseIntList (fieldD obs "eff")
  let mx := (fieldD obs "max").toInt!
  let mn := (fieldD obs "min").toInt!
  let specMax : Int := D.getLast?.getD (-1)
  let specMin : Int := D.head?.getD 2147483647
  verdict [
    ("C01.slots", implSlots == S),
    ("C01.pure", fieldD obs "mut" == "0"),
    ("C01.private", fieldD obs "alias" == "0"),
    ("C01.next", parseIntList (fieldD obs "next") == desired (r + 3) S),
    ("C01.ords", ords == D),
    ("C01.ords2", ords2 == D),
    ("C01.max", mx == specMax),
    ("C01.min", mn == specMin),
    ("C01.bound", bound == specMax + 1),
    ("C01.eff", eff == (dedupSort S).filter (fun s => 0 ≤ s && s < specMax + 1))]

def stepOrdinals (cas obs : String) : String :=
  match cas.splitOn "|" with
  | [r, kind, hex] =>
    let r := r.toInt!
    let S := slotsOfAnnotation kind (hexDecode hex.toList)
    let p := maxReplicaAndSlots r S
    let ords := podOrdinals r S
    let model := s!"slots={showIntList S} bound={p.1} eff={showIntList p.2} ords={showIntList ords} ords2={showIntList ords} max={maxOrd r S} min={minOrd r S} next={showIntList (podOrdinals (r + 3) S)} mut=0 alias=0"
    let tag := (if kind != "raw" then "noann" else if (JsonInts.parse (hexDecode hex.toList)).isNone then "malformed" else
      if S.isEmpty then "empty" else if S.any (· < 0) then "negative" else if p.2.isEmpty then "allabove" else
      if p.2.length < S.length then "mixed" else "allinside")
    s!"{model}\t{monitorOrdinals r S obs}\t{tag}"
  | _ => "bad-case\tok\tbad"

end Asts.Driver
