import Asts.Spec.World
import Asts.Driver.Sync
namespace Asts.Driver
open Asts

def showPhase : Phase → String
  | .none => "N" | .pending => "P" | .running => "R" | .succeeded => "S" | .failed => "F" | .unknown => "U"

def b01 (b : Bool) : String := if b then "1" else "0"

def showPodD (c : CPod) : String :=
  s!"{c.name}:{showOwner c.owner}:{b01 c.selMatch}:{showPhase c.pod.phase}:{b01 c.pod.ready}:{b01 c.pod.terminating}:{c.pod.rev}:{b01 c.pod.idOk}"

/-- a pod digest back into a `CPod` (ordinal and membership are recovered from the canonical name shape) -/
def parsePodD (setName : String) (t : String) : Option CPod :=
  match t.splitOn ":" with
  | [nm, ow, sel, ph, rd, tm, rv, io] =>
    let ord : Int := (((List.range 256).map Int.ofNat).find? (fun o => canonicalName setName o == nm)).getD (-1)
    some { name := nm, owner := parseOwner ow, selMatch := sel == "1", member := nm.startsWith (setName ++ "-"),
           pod := { id := 0, ord := ord, phase := parsePhase ph, ready := rd == "1", terminating := tm == "1", rev := rv, idOk := io == "1", stOk := true } }
  | _ => none

def showRevW (r : Rev) : String :=
  s!"{r.name}:{r.number}:{showOwner r.owner}:{b01 r.selMatch}:{b01 r.marker}:{r.data}"

def showRound (j : Nat) (r : RoundObs) : String :=
  s!"s{j}={r.out}/{r.writes}/{";".intercalate (r.pods.map showPodD)}/{";".intercalate (r.revs.map showRevW)}/{showStatus r.status}"

def parseRound (setName : String) (t : String) : Option RoundObs :=
  match (t.splitOn "=") with
  | [_, body] =>
    match body.splitOn "/" with
    | [out, w, pods, revs, st] =>
      some { out := out, writes := w.toNat!, pods := (csv pods ";").filterMap (parsePodD setName),
             revs := (csv revs ";").filterMap (fun x => (parseRevD x).map fun d =>
               { name := d.name, number := d.number, ctime := 0, data := d.data, hashNum := none, owner := d.owner, selMatch := d.sel, marker := d.marker }),
             status := (parseStatus st).getD {} }
    | _ => none
  | _ => none

def stepWorld (cas obs : String) : String :=
  match cas.splitOn "#" with
  | [rounds, line] =>
    match parseSyCase line with
    | none => "bad-case\tok\tbad"
    | some c =>
      let rs := runRounds c.h rounds.toNat! 0 c.i c.plan
      -- a crash (the process dies at an API call of round 1) is not predicted by the model: such cases are judged by the
      -- monitors only, the model observation is the implementation's
      let crashed := (line.splitOn "@crash").length > 1
      let model := if crashed then obs else s!"n={rs.length} " ++ " ".intercalate ((rs.zipIdx).map (fun (r, k) => showRound (k + 1) r)) ++ " tb=0"
      let irs := ((obs.splitOn " ").filter (fun t => t.startsWith "s" && !t.startsWith "site")).filterMap (parseRound c.i.setName)
      let v := verdict [
        ("C02.converges", C02converges c.h c.i irs),
        ("C02.quiet", C02quiet c.h c.i irs),
        -- "each at the revision its ordinal calls for": a pod the controller created is built from the template of the
        -- revision its label names
        ("C02.template", fieldD obs "tb" == "0" || fieldD obs "tb" == ""),
        ("C12.census", C12census c.h c.i irs),
        ("C09.recovers", c.plan.isEmpty || C02converges c.h c.i irs),
        ("C15.nopanic", irs.all (·.out != "panic")),
        -- migration, over several reconciles: while a revision that records the current template sits on the name the
        -- controller probes first (whoever owns it - the built-in set's revision before the garbage collector has orphaned
        -- it), no reconcile of a live set adds another revision recording that template
        ("C18.stable", C18stable c.h c.i c.plan irs)]
      let tag := if !wfWorld c.h c.i then "outside-premises" else
        (if c.plan.isEmpty then "wf" else if crashed then "wf+crash" else "wf+faulted") ++ s!".rounds{if rs.length ≤ 3 then "1-3" else if rs.length ≤ 6 then "4-6" else if rs.length ≤ 10 then "7-10" else "11+"}"
      s!"{model}\t{v}\t{tag}"
  | _ => "bad-case\tok\tbad"

end Asts.Driver
