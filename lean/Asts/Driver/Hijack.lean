import Asts.Model.Json
import Asts.Model.Codec
import Asts.Model.Hijack
import Asts.Model.HijackGen
import Asts.Gen.Schema
import Asts.Spec.Hijack
import Asts.Driver.Util
namespace Asts.Driver.HijackDrv
open Asts Asts.Driver Asts.Codec Asts.Hijack

/-! Driver of the `hijack` engine. The model runs the script of the case over the fake store (`innerStep`: which steps the
    inner client answers with an error, injected or of its own) and wraps every inner answer with `Hijack.hijack` at the
    extracted schemas, the case's object standing for what the store holds. The monitor judges the implementation's
    observation on its own: it reads the inner answer the harness recorded, not the model's. -/

def b2s (b : Bool) : String := if b then "1" else "0"
def dash (s : String) : String := if s == "" then "-" else s

def kindName : ErrKind → String
  | .notFound => "nf"
  | .conflict => "conflict"
  | .alreadyExists => "exists"
  | .invalid => "invalid"
  | .timeout => "timeout"
  | .other => "other"

def parseKind (s : String) : Option ErrKind :=
  if s == "nf" then some .notFound
  else if s == "conflict" then some .conflict
  else if s == "exists" then some .alreadyExists
  else if s == "invalid" then some .invalid
  else if s == "timeout" then some .timeout
  else if s == "other" then some .other
  else none

def stepTok : Step → String
  | .create => "c"
  | .get => "g"
  | .update => "u"
  | .updateStatus => "s"
  | .list => "l"
  | .patchMerge => "pm"
  | .patchJson => "pj"
  | .patchStrategic => "ps"
  | .patchStatus => "pt"
  | .apply => "a"
  | .applyStatus => "as"
  | .delete => "d"
  | .deleteCollection => "dc"
  | .watch => "w"

def allSteps : List Step := [.create, .get, .update, .updateStatus, .list, .patchMerge, .patchJson, .patchStrategic, .patchStatus,
  .apply, .applyStatus, .delete, .deleteCollection, .watch]

def parseStep (s : String) : Option Step := allSteps.find? fun st => stepTok st == s

/-- `<verb>[!<kind>[+]]` : the step, the injected error, whether the failing call hands back an empty object -/
def parseOp (s : String) : Option (Step × Option ErrKind × Bool) :=
  match s.splitOn "!" with
  | [v] => (parseStep v).map fun st => (st, none, false)
  | [v, k] =>
    let plus := k.endsWith "+"
    let k' := if plus then String.ofList k.toList.dropLast else k
    match parseStep v, parseKind k' with
    | some st, some kind => some (st, some kind, plus)
    | _, _ => none
  | _ => none

def parseOps (s : String) : Option (List (Step × Option ErrKind × Bool)) :=
  if s == "" then some [] else (s.splitOn ",").mapM parseOp

/-! ### printing and reading a step token -/

def showInner : Spec.InnerObs → String
  | .notCalled => "none"
  | .ok => "ok"
  | .err k => kindName k
  | .unknown => "panic"

def showRet : Spec.RetObs → String
  | .nil => "nil"
  | .obj av eq => s!"obj,{dash av},{b2s eq}"
  | .list av iv n m order eq mt => s!"list,{dash av},{iv},{n},{m},{b2s order},{b2s eq},{b2s mt}"
  | .stream => "w"
  | .unit => "-"
  | .unknown => "?"

def showErr : Option (ErrKind × Bool) → String
  | none => "none"
  | some (k, same) => s!"{kindName k},{b2s same}"

def showStep (o : Spec.StepObs) : String :=
  let calls := if o.calls.isEmpty then "-" else "+".intercalate o.calls
  s!"{stepTok o.step}:{showInner o.inner}:{calls}:{b2s o.sent}:{showRet o.ret}:{showErr o.err}"

def undash (s : String) : String := if s == "-" then "" else s

def parseRet (s : String) : Spec.RetObs :=
  match s.splitOn "," with
  | ["nil"] => .nil
  | ["w"] => .stream
  | ["-"] => .unit
  | ["obj", av, eq] => .obj (undash av) (eq == "1")
  | ["list", av, iv, n, m, order, eq, mt] =>
    (match n.toInt?, m.toNat? with
     | some n', some m' => .list (undash av) iv n' m' (order == "1") (eq == "1") (mt == "1")
     | _, _ => .unknown)
  | _ => .unknown

def parseInner (s : String) : Spec.InnerObs :=
  if s == "ok" then .ok
  else if s == "none" then .notCalled
  else match parseKind s with
    | some k => .err k
    | none => .unknown

/-- an error of a class the engine does not know reads as (other, not the same) -/
def parseErr (s : String) : Option (ErrKind × Bool) :=
  if s == "none" then none
  else match s.splitOn "," with
    | [k, same] => some ((parseKind k).getD .other, same == "1")
    | _ => some (.other, false)

def parseStepTok (st : Step) (tok : String) : Option Spec.StepObs :=
  match tok.splitOn ":" with
  | [v, inner, calls, sent, ret, err] =>
    if v != stepTok st then none else
    some { step := st, inner := parseInner inner, calls := if calls == "-" then [] else calls.splitOn "+",
           sent := sent == "1", ret := parseRet ret, err := parseErr err }
  | _ => none

def parseConv (s : String) : Spec.ConvObs :=
  match s.splitOn ":" with
  | [res, av, arrive, clean] => { res := res, apiVersion := av, arrive := arrive == "1", clean := clean == "1" }
  | _ => { res := "unparsable", apiVersion := "", arrive := false, clean := false }

/-! ### the model's run -/

def runModel (a : GoVal) (s : Store) (ops : List (Step × Option ErrKind × Bool)) : List Spec.StepObs :=
  Spec.observeRun genSchemas a s (ops.map fun (st, fault, _) => (st, fault))

def numbered (l : List String) : List String :=
  (l.zip (List.range l.length)).map fun (t, i) => s!"s{i}={t}"

def dedup (l : List String) : List String := l.foldl (fun acc x => if acc.contains x then acc else acc ++ [x]) []

def monitorHijack (ops : List (Step × Option ErrKind × Bool)) (obs : String) : String :=
  let steps := (ops.zip (List.range ops.length)).map fun ((st, _, _), i) =>
    (field obs s!"s{i}").bind (parseStepTok st)
  let seen := steps.filterMap id
  let o : Spec.Obs := { conv := parseConv (fieldD obs "ac"), convExtra := parseConv (fieldD obs "acx"), steps := seen }
  let cl := ("C19.hijack.observed", seen.length == ops.length) :: Spec.clauses o
  let bad := dedup (cl.filterMap fun (n, ok) => if ok then none else some n)
  if bad.isEmpty then "ok" else ",".intercalate bad

def stepHijack (cas obs : String) : String :=
  match cas.splitOn "|" with
  | [kS, opsS, js] =>
    match kS.toNat?, parseOps opsS, Json.parse js with
    | some k, some ops, some j =>
      if k > 3 || kS.length != 1 || !Json.isObj (some j) then "bad-case\tok\tbad" else
      let a := fromBuiltin genSchemas (decode Gen.builtinSchema j)
      let run := runModel a { present := false, others := k } ops
      let model := " ".intercalate (["ac=ok:apps.pingcap.com/v1:1:1", "acx=ok:apps.pingcap.com/v1:1:1"] ++ numbered (run.map showStep))
      let injected := ops.any fun (_, f, _) => f.isSome
      let withObj := ops.any fun (_, f, p) => f.isSome && p
      let natural := (run.zip ops).any fun (o, (_, f, _)) => f.isNone && o.inner != .ok
      let tag :=
        if withObj then "fault.with-object"
        else if injected then "fault"
        else if natural then "store-error"
        else "all-ok"
      s!"{model}\t{monitorHijack ops obs}\t{tag}"
    | _, _, _ => "bad-case\tok\tbad"
  | _ => "bad-case\tok\tbad"

end Asts.Driver.HijackDrv
