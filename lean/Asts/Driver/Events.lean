import Asts.Model.Events
import Asts.Spec.Events
import Asts.Driver.Util
namespace Asts.Driver
open Asts.Events

/-! driver of the `events` engine: case syntax is documented in `harness/eng_events.go` -/

def evSplit (s : String) (sep : String) : List String := if s == "" then [] else s.splitOn sep

def evParseLabel (t : String) : Option Label :=
  match t.splitOn "=" with
  | [k, v] => some (k, v)
  | _ => none

def evParseLabels (s : String) : Option (Option (List Label)) :=
  if s == "~" then some none else
  ((evSplit s ",").mapM evParseLabel).map some

def evParseSel (s : String) : Option Sel :=
  match s.toList with
  | ['N'] => some .nil
  | ['B'] | ['V'] | ['I'] => some .bad
  | 'M' :: rest => ((evSplit (String.ofList rest) ",").mapM evParseLabel).map Sel.labels
  | _ => none

def evParseKey (s : String) : Option Key :=
  match s.splitOn "/" with
  | [ns, name] => some (ns, name)
  | _ => none

def evShowKey (k : Key) : String := k.1 ++ "/" ++ k.2

def evParseSet (t : String) : Option SetObj :=
  match t.splitOn ":" with
  | [k, uid, sel] => do
    let (ns, name) ← evParseKey k
    let sel ← evParseSel sel
    pure { ns := ns, name := name, uid := uid, sel := sel }
  | _ => none

def evParseOwner (t : String) : Option OwnerRef :=
  match t.splitOn "/" with
  | [k, name, uid, c, x] => do
    let kind ← match k with | "S" => some "StatefulSet" | "R" => some "ReplicaSet" | "s" => some "statefulset" | _ => none
    let ctrl ← match c with | "n" => some none | "f" => some (some false) | "t" => some (some true) | _ => none
    let extra ← match x with | "0" => some 0 | "1" => some 1 | _ => none
    pure { kind := kind, name := name, uid := uid, controller := ctrl, extra := extra }
  | _ => none

def evParsePod (ns labels owners rv term : String) : Option Pod := do
  let l ← evParseLabels labels
  let o ← (evSplit owners ",").mapM evParseOwner
  let t ← match term with | "0" => some false | "1" => some true | _ => none
  pure { ns := ns, labels := l, owners := o, rv := rv, terminating := t }

def evParseEvent (ev : String) (cur old : Option Pod) : Option Event :=
  match ev.splitOn ":" with
  | ["add"] => cur.map .add
  | ["upd"] => do let c ← cur; let o ← old; pure (.update o c)
  | ["del"] => cur.map .delete
  | ["tomb"] => cur.map .tombstone
  | ["tombbad"] => some .tombstoneOther
  | ["delbad"] => some .deleteOther
  | ["sadd", k] => (evParseKey k).map .setAdd
  | ["supd", k, f] => if (f.toNat?.any (· < 64)) && f.length ≤ 2 && !(f.length == 2 && f.startsWith "0") then (evParseKey k).map .setUpdate else none
  | ["sdel", k] => (evParseKey k).map .setDelete
  | ["stomb", k] => (evParseKey k).map .setTombstone
  | _ => none

def evSortStrings (l : List String) : List String := l.mergeSort (fun a b => decide (a ≤ b))

def evShowKeys (l : List Key) : String := ",".intercalate (evSortStrings (l.map evShowKey))

def evParseKeys (s : String) : List Key := (evSplit s ",").filterMap evParseKey

def evTagPod (sets : List SetObj) (p : Pod) (L : Lister) : String :=
  match controllerOf p with
  | some r => if (resolveControllerRef sets p.ns r).isSome then "owned" else "unresolved"
  | none =>
    if (p.labels.getD []).isEmpty then "orphan.nolabels"
    else if (podSetsLoop L p.ns (p.labels.getD []) sets).isNone then "orphan.listerr"
    else if (getStatefulSetsForPod L sets p).isEmpty then "orphan.nomatch"
    else if sets.any (fun s => s.ns == p.ns && s.sel == .bad) then "orphan.match.badneighbour"
    else if (getStatefulSetsForPod L sets p).length > 1 then "orphan.match.many" else "orphan.match"

def evTag (L : Lister) (sets : List SetObj) : Event → String
  | .add p =>
    if p.terminating then "add.terminating." ++ (if (controllerOf p).isNone then "orphan" else evTagPod sets p L)
    else "add." ++ evTagPod sets p L
  | .update old cur =>
    if cur.rv == old.rv then "upd.samerv"
    else if controllerOf cur = controllerOf old then
      (if (controllerOf cur).isNone && cur.labels = old.labels then "upd.orphan.unchanged" else "upd." ++ evTagPod sets cur L)
    else "upd.ownerchange." ++ (if (updateOld sets old cur).isEmpty then "oldgone." else "oldwoken.") ++ evTagPod sets cur L
  | .delete p => "del." ++ (if (controllerOf p).isNone then "orphan" else evTagPod sets p L)
  | .tombstone p => "tomb." ++ (if (controllerOf p).isNone then "orphan" else evTagPod sets p L)
  | .tombstoneOther => "tomb.notapod"
  | .deleteOther => "del.notapod"
  | .setAdd _ => "set.add"
  | .setUpdate _ => "set.update"
  | .setDelete _ => "set.delete"
  | .setTombstone _ => "set.tombstone"

def stepEventsHandler (L : Lister) (f : List String) (obs : String) : String :=
  match f with
  | [sets, ev, ns, cl, co, crv, ct, ol, oo, orv, ot] =>
    match (evSplit sets ";").mapM evParseSet, evParseEvent ev (evParsePod ns cl co crv ct) (evParsePod ns ol oo orv ot) with
    | some sets, some ev =>
      let adds := handle L sets ev
      let model := s!"keys={evShowKeys adds.eraseDups} adds={evShowKeys adds} out=ok"
      let keys := evParseKeys (fieldD obs "keys")
      let mon := if fieldD obs "out" != "ok" then "C16.nopanic" else verdict [
        ("C16.owner", Spec.ownerWoken sets ev keys),
        ("C16.oldowner", Spec.oldOwnerWoken sets ev keys),
        ("C16.orphan", Spec.orphanWoken sets ev keys),
        ("C16.set", Spec.setWoken ev keys),
        ("C16.quiet", Spec.nothingElse sets ev keys)]   -- together these are `Spec.exact` (C16.clauses_iff_table)
      s!"{model}\t{mon}\t{evTag L sets ev}"
    | _, _ => "bad-case\tok\tbad"
  | _ => "bad-case\tok\tbad"

def evParseShape : String → Option Shape
  | "o" => some .normal | "p" => some .paused | "b" => some .badSelector | "x" => some .absent | _ => none

def evParseWSet (t : String) : Option (Key × Shape) :=
  match t.splitOn ":" with
  | [k, sh] => do pure ((← evParseKey k), (← evParseShape sh))
  | _ => none

def evParseOp (sets : List (Key × Shape)) (t : String) : Option Op :=
  match t with
  | "s" => some (.process .ok)
  | "f" => some (.process .updateErr)
  | "r" => some (.process .listRevErr)
  | _ =>
    if t.startsWith "e" then
      match (t.drop 1).toString.toNat? with
      | some i => (sets[i]?).map fun s => .event s.1
      | none => none
    else none

def evShowStep : StepObs → String
  | .queued n => s!"q{n}"
  | .idle => "idle"
  | .processed k calls n len => s!"p:{evShowKey k}:{"+".intercalate calls}:{n}:{len}"

def evParseStep (t : String) : Option StepObs :=
  if t == "idle" then some .idle
  else if t.startsWith "q" then (t.drop 1).toString.toNat?.map .queued
  else match t.splitOn ":" with
    | ["p", k, calls, n, len] => do
      pure (.processed (← evParseKey k) (evSplit calls "+") (← n.toNat?) (← len.toNat?))
    | _ => none

def stepEventsWorker (f : List String) (obs : String) : String :=
  match f with
  | [sets, script] =>
    match (evSplit sets ";").mapM evParseWSet with
    | none => "bad-case\tok\tbad"
    | some sets =>
      match (evSplit script ",").mapM (evParseOp sets) with
      | none => "bad-case\tok\tbad"
      | some ops =>
        let shapeOf : Key → Shape := fun k => ((sets.find? (fun s => s.1 == k)).map (·.2)).getD .absent
        let r := run shapeOf WState.init ops
        let model := s!"steps={";".intercalate (r.2.map evShowStep)} out=ok"
        let mon := if fieldD obs "out" != "ok" then "C16.nopanic" else
          match (evSplit (fieldD obs "steps") ";").mapM evParseStep with
          | none => "C16.worker"
          | some steps => verdict [("C16.worker", Spec.workerOk shapeOf (fun _ => 0) ops steps)]
        let fails := r.2.any fun | .processed _ calls _ _ => calls.contains "arl" | _ => false
        let oks := r.2.any fun | .processed _ calls _ _ => calls.contains "forget" | _ => false
        let tag := if fails && oks then "worker.mixed" else if fails then "worker.failures" else if oks then "worker.successes" else "worker.noreconcile"
        s!"{model}\t{mon}\t{tag}"
  | _ => "bad-case\tok\tbad"

/-- the controller's own `Run` loop (runtime behaviour, observed only): every set enqueued before or after `Run` started reaches
    the control, `Run` does not return before the stop channel closes, returns after it, and leaves the queue shut down -/
def stepEventsLoop (f : List String) (obs : String) : String :=
  match f.map String.toNat? with
  | [some _, some b, some a] =>
    let model := s!"seen={b + a} early=0 returned=1 shutdown=1 out=ok"
    let mon := verdict [
      ("C16.nopanic", fieldD obs "out" == "ok"),
      ("C16.run.reconciled", fieldD obs "seen" == toString (b + a)),
      ("C16.run.keepsrunning", fieldD obs "early" == "0"),
      ("C16.run.stops", fieldD obs "returned" == "1" && fieldD obs "shutdown" == "1")]
    s!"{model}\t{mon}\trun.loop"
  | _ => "bad-case\tok\tbad"

def stepEventsWith (L : Lister) (cas obs : String) : String :=
  match cas.splitOn "|" with
  | "H" :: f => stepEventsHandler L f obs
  | "W" :: f => stepEventsWorker f obs
  | "R" :: f => stepEventsLoop f obs
  | _ => "bad-case\tok\tbad"

/-- the intended behaviour (lister skips a set whose selector does not convert) -/
def stepEvents (cas obs : String) : String := stepEventsWith .fixed cas obs

/-- the lister as it is on the pinned tree -/
def stepEventsPinned (cas obs : String) : String := stepEventsWith .pinned cas obs

end Asts.Driver
