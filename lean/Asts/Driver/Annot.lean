import Asts.Model.Annot
import Asts.Spec.Annot
import Asts.Driver.Util
namespace Asts.Driver.AnnotDrv
open Asts.Driver
open Asts Asts.Annot

def hexDigit (n : Nat) : Char := if n < 10 then Char.ofNat (48 + n) else Char.ofNat (87 + n)

def hexEncode (cs : List Char) : String :=
  String.ofList (cs.flatMap fun c => [hexDigit (c.toNat / 16 % 16), hexDigit (c.toNat % 16)])

def insertEntry (e : String × List Char) : Entries → Entries
  | [] => [e]
  | f :: fs => if e.1 < f.1 then e :: f :: fs else f :: insertEntry e fs

def sortEntries (l : Entries) : Entries := l.foldr insertEntry []

def parseEntries (s : String) : Entries :=
  if s == "" then [] else
  (s.splitOn ",").filterMap fun e =>
    match e.splitOn ":" with
    | [k, v] => some (k, hexDecode v.toList)
    | _ => none

def showEntries (l : Entries) : String :=
  ",".intercalate (l.map fun e => e.1 ++ ":" ++ hexEncode e.2)

def parseAnnInit (s : String) : Option Ann :=
  if s == "nil" then some none
  else if s.startsWith "map:" then some (some (parseEntries (s.drop 4).toString))
  else none

def parseAnnOp (s : String) : Option Op :=
  if s == "Sn" then some (.set none)
  else if s == "An" then some (.add none)
  else if s == "G" then some .get
  else if s == "P1" then some (.pause true)
  else if s == "P0" then some (.pause false)
  else if s == "Q" then some .isPaused
  else if s.startsWith "S:" then some (.set (some (parseIntList (s.drop 2).toString)))
  else if s.startsWith "A:" then some (.add (some (parseIntList (s.drop 2).toString)))
  else none

def parseAnnOps (s : String) : Option (List Op) :=
  if s == "" then some [] else (s.splitOn ";").mapM parseAnnOp

def b2s (b : Bool) : String := if b then "1" else "0"

def showView (v : View) : String :=
  s!"{showIntList v.slots}~{b2s v.paused}~{b2s v.isNil}~{showEntries (sortEntries v.entries)}"

def showRet : Ret → String
  | .ok => "ok"
  | .slots l => showIntList l
  | .flag b => b2s b

def parseView : List String → Option View
  | [sl, p, n, ents] => some ⟨parseIntList sl, p == "1", n == "1", parseEntries ents⟩
  | _ => none

def parseRet (op : Op) (s : String) : Option Ret :=
  match op with
  | .get => some (.slots (parseIntList s))
  | .isPaused => if s == "1" then some (.flag true) else if s == "0" then some (.flag false) else none
  | _ => if s == "ok" then some .ok else none

/-- the implementation's observation as views: `s0=` then one `(ret, view)` per op -/
def parseAnnObs (ops : List Op) (obs : String) : Option (View × List (Ret × View)) :=
  match (obs.splitOn " ").filter (fun t => t.startsWith "s") with
  | [] => none
  | t0 :: ts =>
    match parseView (((t0.splitOn "=").drop 1 |> "=".intercalate).splitOn "~") with
    | none => none
    | some v0 =>
      if ts.length != ops.length then none else
      ((ops.zip ts).mapM fun ((op, t) : Op × String) =>
        match ((t.splitOn "=").drop 1 |> "=".intercalate).splitOn "~" with
        | r :: rest =>
          match parseRet op r, parseView rest with
          | some r, some v => some (r, v)
          | _, _ => none
        | [] => none).map fun l => (v0, l)

/-- failed clauses over the whole run (each clause name once) -/
def monitorAnnotRun : View → List Op → List (Ret × View) → List String
  | _, [], _ => []
  | _, _ :: _, [] => ["C19.helper-ret"]
  | before, op :: ops, (r, after) :: rest =>
    let bad := (Spec.clauses before op r after).filterMap fun (n, ok) => if ok then none else some n
    bad ++ monitorAnnotRun after ops rest

def monitorAnnot (ops : List Op) (obs : String) : String :=
  if (field obs "out") == some "panic" then "C19.helper-nopanic" else
  match parseAnnObs ops obs with
  | none => "C19.helper-ret"
  | some (v0, steps) =>
    let bad := (monitorAnnotRun v0 ops steps).eraseDups
    if bad.isEmpty then "ok" else ",".intercalate bad

def annotTag (m : Ann) (ops : List Op) : String :=
  let writes := ops.any fun o => match o with | .set _ | .add _ | .pause _ => true | _ => false
  if !writes then "readonly"
  else if m.isNone then "nilmap"
  else if (lookupA slotsKey m).isSome && (match lookupA slotsKey m with | some v => (JsonInts.parse v).isNone | none => false) then "garbage-slots"
  else if ops.any (fun o => match o with | .add _ => true | _ => false) then "add"
  else if ops.any (fun o => match o with | .set _ => true | _ => false) then "set"
  else "pause"

def stepAnnot (cas obs : String) : String :=
  match cas.splitOn "|" with
  | [_, init, opsS] =>
    match parseAnnInit init, parseAnnOps opsS with
    | some m, some ops =>
      let steps := run m ops
      let toks := (List.range steps.length).zip steps |>.map fun (i, (r, v)) => s!"s{i+1}={showRet r}~{showView v}"
      let model := " ".intercalate (s!"s0={showView (view m)}" :: toks)
      let obs' := match obs.splitOn " site=" with | o :: _ => o | [] => obs
      s!"{model}\t{monitorAnnot ops obs'}\t{annotTag m ops}"
    | _, _ => "bad-case\tok\tbad"
  | _ => "bad-case\tok\tbad"

end Asts.Driver.AnnotDrv
