import Asts.Model.Json
import Asts.Model.Defaults
import Asts.Spec.Defaults
import Asts.Driver.Util
namespace Asts.Driver.DefaultsDrv
open Asts.Driver
open Asts Asts.Defaults

/-! Driver of the `defaults` engine: reads the JSON of the case, extracts the defaulting view (independently of the Go
    harness, which extracts it from the Go object), runs the model and prints what the Go side prints. -/

/-! ### quantities: the canonical text `resource.Quantity` marshals to, as an exact number of 10^-9 units -/

def pow10 (n : Nat) : Int := (10 : Int) ^ n

def decSuffix (s : List Char) : Option Int :=
  match s with
  | [] => some 0
  | ['n'] => some (-9) | ['u'] => some (-6) | ['m'] => some (-3) | ['k'] => some 3 | ['M'] => some 6 | ['G'] => some 9
  | ['T'] => some 12 | ['P'] => some 15 | ['E'] => some 18
  | e :: rest =>
    if (e == 'e' || e == 'E') && !rest.isEmpty then
      let (neg, ds) := match rest with | '-' :: r => (true, r) | '+' :: r => (false, r) | r => (false, r)
      if !ds.isEmpty && ds.all Json.isDigit then some (if neg then - (Json.digitsToNat ds : Int) else Json.digitsToNat ds) else none
    else none

def binSuffix (s : List Char) : Option Nat :=
  match s with
  | ['K', 'i'] => some 10 | ['M', 'i'] => some 20 | ['G', 'i'] => some 30 | ['T', 'i'] => some 40 | ['P', 'i'] => some 50 | ['E', 'i'] => some 60
  | _ => none

/-- `none` when the text is not a quantity or is finer than 10^-9 -/
def quantityNano (s : String) : Option Int :=
  let cs := s.toList
  let (neg, cs) := match cs with | '-' :: r => (true, r) | '+' :: r => (false, r) | r => (false, r)
  let (ip, rest) := Json.takeDigits cs []
  let (fp, rest) := match rest with | '.' :: r => Json.takeDigits r [] | r => ([], r)
  if ip.isEmpty && fp.isEmpty then none else
  let mant : Int := Json.digitsToNat (ip ++ fp)
  let f : Int := fp.length
  let sign : Int := if neg then -1 else 1
  match binSuffix rest with
  | some b =>
    let e := 9 - f
    if e ≥ 0 then some (sign * mant * (2 : Int) ^ b * pow10 e.toNat)
    else
      let num := mant * (2 : Int) ^ b
      let den := pow10 (-e).toNat
      if num % den == 0 then some (sign * (num / den)) else none
  | none =>
    match decSuffix rest with
    | none => none
    | some ex =>
      let e := 9 + ex - f
      if e ≥ 0 then some (sign * mant * pow10 e.toNat)
      else
        let den := pow10 (-e).toNat
        if mant % den == 0 then some (sign * (mant / den)) else none

/-! ### JSON → view -/

open Json in
def resListOf (j : Option Json) : ResList :=
  (members j).map fun (k, v) => (k, (quantityNano (strD (some v))).getD 0)

open Json in
def httpOf (j : Option Json) : Option HttpGet :=
  match j with
  | some (.obj kvs) => some { path := strD ((Json.obj kvs).field? "path"), scheme := strD ((Json.obj kvs).field? "scheme") }
  | _ => none

open Json in
def probeOf (j : Option Json) : Option Probe :=
  match j with
  | some p@(.obj _) => some {
      timeout := intD (p.field? "timeoutSeconds"), period := intD (p.field? "periodSeconds"),
      success := intD (p.field? "successThreshold"), failure := intD (p.field? "failureThreshold"),
      http := httpOf (p.field? "httpGet") }
  | _ => none

open Json in
def refOf (holder : Option Json) : Option String :=
  match holder with
  | some h => match h.field? "fieldRef" with
    | some r@(.obj _) => some (strD (r.field? "apiVersion"))
    | _ => none
  | none => none

open Json in
def containerOf (c : Json) : Container :=
  { image := strD (c.field? "image"), pullPolicy := strD (c.field? "imagePullPolicy"),
    termPath := strD (c.field? "terminationMessagePath"), termPolicy := strD (c.field? "terminationMessagePolicy"),
    ports := (elems (c.field? "ports")).map fun p =>
      { hostPort := intD (p.field? "hostPort"), containerPort := intD (p.field? "containerPort"), protocol := strD (p.field? "protocol") },
    envRefs := (elems (c.field? "env")).map fun e => refOf (e.field? "valueFrom"),
    limits := resListOf (c.path? ["resources", "limits"]), requests := resListOf (c.path? ["resources", "requests"]),
    liveness := probeOf (c.field? "livenessProbe"), readiness := probeOf (c.field? "readinessProbe"), startup := probeOf (c.field? "startupProbe"),
    postStart := httpOf (c.path? ["lifecycle", "postStart", "httpGet"]), preStop := httpOf (c.path? ["lifecycle", "preStop", "httpGet"]) }

def modelledSourceKeys : List String :=
  ["emptyDir", "hostPath", "secret", "iscsi", "rbd", "downwardAPI", "configMap", "azureDisk", "projected", "scaleIO"]

open Json in
def itemsRefs (holder : Json) : List (Option String) :=
  (elems (holder.field? "items")).map fun it => refOf (some it)

open Json in
def volumeOf (v : Json) : Volume :=
  let src (k : String) : Option Json := match v.field? k with | some x@(.obj _) => some x | _ => none
  { other := (members (some v)).any fun (k, x) => k != "name" && !modelledSourceKeys.contains k && (match x with | .null => false | _ => true),
    emptyDir := (src "emptyDir").isSome,
    hostPath := (src "hostPath").map fun h => optStr (h.field? "type"),
    secret := (src "secret").map fun h => optInt (h.field? "defaultMode"),
    iscsi := (src "iscsi").map fun h => strD (h.field? "iscsiInterface"),
    rbd := (src "rbd").map fun h => (strD (h.field? "pool"), strD (h.field? "user"), strD (h.field? "keyring")),
    downward := (src "downwardAPI").map fun h => (optInt (h.field? "defaultMode"), itemsRefs h),
    configMap := (src "configMap").map fun h => optInt (h.field? "defaultMode"),
    azure := (src "azureDisk").map fun h => (optStr (h.field? "cachingMode"), optStr (h.field? "kind"), optStr (h.field? "fsType"), optBool (h.field? "readOnly")),
    projected := (src "projected").map fun h => (optInt (h.field? "defaultMode"),
      (elems (h.field? "sources")).map fun s =>
        { downward := (match s.field? "downwardAPI" with | some d@(.obj _) => some (itemsRefs d) | _ => none),
          saToken := (match s.field? "serviceAccountToken" with | some t@(.obj _) => some (optInt (t.field? "expirationSeconds")) | _ => none) }),
    scaleIO := (src "scaleIO").map fun h => (strD (h.field? "storageMode"), strD (h.field? "fsType")) }

open Json in
def viewOf (o : Json) : View :=
  let spec := (o.field? "spec").getD .null
  let ps := (spec.path? ["template", "spec"]).getD .null
  { policy := strD (spec.field? "podManagementPolicy"),
    stratType := strD (spec.path? ["updateStrategy", "type"]),
    rollingUpdate := (match spec.path? ["updateStrategy", "rollingUpdate"] with | some r@(.obj _) => some (optInt (r.field? "partition")) | _ => none),
    replicas := optInt (spec.field? "replicas"), revHist := optInt (spec.field? "revisionHistoryLimit"),
    dnsPolicy := strD (ps.field? "dnsPolicy"), restartPolicy := strD (ps.field? "restartPolicy"), scheduler := strD (ps.field? "schedulerName"),
    hostNetwork := boolD (ps.field? "hostNetwork"), secCtx := isObj (ps.field? "securityContext"),
    grace := optInt (ps.field? "terminationGracePeriodSeconds"),
    volumes := (elems (ps.field? "volumes")).map volumeOf,
    initCtrs := (elems (ps.field? "initContainers")).map containerOf,
    ctrs := (elems (ps.field? "containers")).map containerOf,
    eph := (elems (ps.field? "ephemeralContainers")).map containerOf,
    overhead := resListOf (ps.field? "overhead"),
    claims := (elems (spec.field? "volumeClaimTemplates")).map fun c =>
      { phase := strD (c.path? ["status", "phase"]), limits := resListOf (c.path? ["spec", "resources", "limits"]),
        requests := resListOf (c.path? ["spec", "resources", "requests"]), capacity := resListOf (c.path? ["status", "capacity"]) } }

/-! ### view → text (the format of `defaultsView` in harness/eng_defaults.go) -/

def optIntS (o : Option Int) : String := match o with | none => "~" | some n => toString n
def optStrS (o : Option String) : String := match o with | none => "~" | some s => "[" ++ s ++ "]"
def optBoolS (o : Option Bool) : String := match o with | none => "~" | some b => if b then "1" else "0"
def boolS (b : Bool) : String := if b then "1" else "0"

def insertRes (e : String × Int) : ResList → ResList
  | [] => [e]
  | f :: fs => if e.1 < f.1 then e :: f :: fs else f :: insertRes e fs

def showRes (l : ResList) : String :=
  "{" ++ ",".intercalate ((l.foldr insertRes []).map fun (k, v) => k ++ "=" ++ toString v) ++ "}"

def showHttp (h : Option HttpGet) : String := match h with | none => "~" | some h => s!"h({h.path};{h.scheme})"
def showProbe (p : Option Probe) : String :=
  match p with | none => "~" | some p => s!"p({p.timeout};{p.period};{p.success};{p.failure};{showHttp p.http})"

def showContainer (c : Container) : String :=
  let ports := ",".intercalate (c.ports.map fun p => s!"{p.hostPort}:{p.containerPort}:{p.protocol}")
  let envs := ",".intercalate (c.envRefs.map optStrS)
  s!"c({c.image};{c.pullPolicy};{c.termPath};{c.termPolicy};{ports};{envs};{showRes c.limits};{showRes c.requests};{showProbe c.liveness};{showProbe c.readiness};{showProbe c.startup};{showHttp c.postStart};{showHttp c.preStop})"

def showRefs (l : List (Option String)) : String := ",".intercalate (l.map optStrS)

def showVolume (v : Volume) : String :=
  let f : List String := [
    boolS v.other, boolS v.emptyDir,
    (match v.hostPath with | none => "~" | some t => "hp(" ++ optStrS t ++ ")"),
    (match v.secret with | none => "~" | some m => "se(" ++ optIntS m ++ ")"),
    (match v.iscsi with | none => "~" | some i => "is(" ++ i ++ ")"),
    (match v.rbd with | none => "~" | some (p, u, k) => s!"rbd({p};{u};{k})"),
    (match v.downward with | none => "~" | some (m, items) => s!"dw({optIntS m};{showRefs items})"),
    (match v.configMap with | none => "~" | some m => "cm(" ++ optIntS m ++ ")"),
    (match v.azure with | none => "~" | some (c, k, fs, ro) => s!"az({optStrS c};{optStrS k};{optStrS fs};{optBoolS ro})"),
    (match v.projected with
      | none => "~"
      | some (m, srcs) =>
        let ss := srcs.map fun s =>
          (match s.downward with | none => "~" | some items => "[" ++ showRefs items ++ "]") ++ "/" ++
          (match s.saToken with | none => "~" | some e => "[" ++ optIntS e ++ "]")
        s!"pr({optIntS m};{",".intercalate ss})"),
    (match v.scaleIO with | none => "~" | some (m, fs) => s!"sio({m};{fs})")]
  "v(" ++ ";".intercalate f ++ ")"

def showView (v : View) : String :=
  let ru := match v.rollingUpdate with | none => "~" | some p => "[" ++ optIntS p ++ "]"
  s!"set({v.policy};{v.stratType};{ru};{optIntS v.replicas};{optIntS v.revHist})" ++
  s!"pod({v.dnsPolicy};{v.restartPolicy};{v.scheduler};{boolS v.hostNetwork};{boolS v.secCtx};{optIntS v.grace})" ++
  "vols(" ++ "".intercalate (v.volumes.map showVolume) ++ ")" ++
  "init(" ++ "".intercalate (v.initCtrs.map showContainer) ++ ")" ++
  "ctrs(" ++ "".intercalate (v.ctrs.map showContainer) ++ ")" ++
  "eph(" ++ "".intercalate (v.eph.map showContainer) ++ ")" ++
  "ovh(" ++ showRes v.overhead ++ ")" ++
  "claims(" ++ "".intercalate (v.claims.map fun c => s!"k({c.phase};{showRes c.limits};{showRes c.requests};{showRes c.capacity})") ++ ")"

/-! ### which paths the first pass touches (difference of the view before and after) -/

def ch {α : Type} [BEq α] (p : String) (a b : α) : List String := if a == b then [] else [p]

def chOpt {α : Type} [BEq α] (p : String) (a b : Option α) : List String :=
  match a, b with
  | none, some _ => [p]
  | some x, some y => if x == y then [] else [p]
  | _, _ => []

def zipPaths {α : Type} (f : α → α → List String) (a b : List α) : List String :=
  (a.zip b).flatMap fun (x, y) => f x y

def chHttp (p : String) (a b : Option HttpGet) : List String :=
  match a, b with
  | some a, some b => ch (p ++ ".path") a.path b.path ++ ch (p ++ ".scheme") a.scheme b.scheme
  | _, _ => []

def chProbe (p : String) (a b : Option Probe) : List String :=
  match a, b with
  | some a, some b =>
    ch (p ++ ".timeoutSeconds") a.timeout b.timeout ++ ch (p ++ ".periodSeconds") a.period b.period ++
    ch (p ++ ".successThreshold") a.success b.success ++ ch (p ++ ".failureThreshold") a.failure b.failure ++
    chHttp (p ++ ".httpGet") a.http b.http
  | _, _ => []

def chRes (p : String) (a b : ResList) : List String := if a == b then [] else [p ++ ".*"]

def chRefs (p : String) (a b : List (Option String)) : List String :=
  zipPaths (fun x y => chOpt (p ++ ".fieldRef.apiVersion") x y) a b

def chContainer (p : String) (a b : Container) : List String :=
  ch (p ++ ".imagePullPolicy") a.pullPolicy b.pullPolicy ++ ch (p ++ ".terminationMessagePath") a.termPath b.termPath ++
  ch (p ++ ".terminationMessagePolicy") a.termPolicy b.termPolicy ++
  zipPaths (fun x y => ch (p ++ ".ports.*.hostPort") x.hostPort y.hostPort ++ ch (p ++ ".ports.*.protocol") x.protocol y.protocol) a.ports b.ports ++
  chRefs (p ++ ".env.*.valueFrom") a.envRefs b.envRefs ++
  chRes (p ++ ".resources.limits") a.limits b.limits ++ chRes (p ++ ".resources.requests") a.requests b.requests ++
  chProbe (p ++ ".livenessProbe") a.liveness b.liveness ++ chProbe (p ++ ".readinessProbe") a.readiness b.readiness ++
  chProbe (p ++ ".startupProbe") a.startup b.startup ++
  chHttp (p ++ ".lifecycle.postStart.httpGet") a.postStart b.postStart ++ chHttp (p ++ ".lifecycle.preStop.httpGet") a.preStop b.preStop

def chVolume (a b : Volume) : List String :=
  let p := "pod.volumes.*"
  ch (p ++ ".emptyDir") a.emptyDir b.emptyDir ++
  (match a.hostPath, b.hostPath with | some x, some y => chOpt (p ++ ".hostPath.type") x y | _, _ => []) ++
  (match a.secret, b.secret with | some x, some y => chOpt (p ++ ".secret.defaultMode") x y | _, _ => []) ++
  (match a.iscsi, b.iscsi with | some x, some y => ch (p ++ ".iscsi.iscsiInterface") x y | _, _ => []) ++
  (match a.rbd, b.rbd with
    | some x, some y => ch (p ++ ".rbd.pool") x.1 y.1 ++ ch (p ++ ".rbd.user") x.2.1 y.2.1 ++ ch (p ++ ".rbd.keyring") x.2.2 y.2.2
    | _, _ => []) ++
  (match a.downward, b.downward with
    | some x, some y => chOpt (p ++ ".downwardAPI.defaultMode") x.1 y.1 ++ chRefs (p ++ ".downwardAPI.items.*") x.2 y.2
    | _, _ => []) ++
  (match a.configMap, b.configMap with | some x, some y => chOpt (p ++ ".configMap.defaultMode") x y | _, _ => []) ++
  (match a.azure, b.azure with
    | some x, some y => chOpt (p ++ ".azureDisk.cachingMode") x.1 y.1 ++ chOpt (p ++ ".azureDisk.kind") x.2.1 y.2.1 ++
        chOpt (p ++ ".azureDisk.fsType") x.2.2.1 y.2.2.1 ++ chOpt (p ++ ".azureDisk.readOnly") x.2.2.2 y.2.2.2
    | _, _ => []) ++
  (match a.projected, b.projected with
    | some x, some y => chOpt (p ++ ".projected.defaultMode") x.1 y.1 ++
        zipPaths (fun s t =>
          (match s.downward, t.downward with | some i, some j => chRefs (p ++ ".projected.sources.*.downwardAPI.items.*") i j | _, _ => []) ++
          (match s.saToken, t.saToken with | some i, some j => chOpt (p ++ ".projected.sources.*.serviceAccountToken.expirationSeconds") i j | _, _ => [])) x.2 y.2
    | _, _ => []) ++
  (match a.scaleIO, b.scaleIO with
    | some x, some y => ch (p ++ ".scaleIO.storageMode") x.1 y.1 ++ ch (p ++ ".scaleIO.fsType") x.2 y.2
    | _, _ => [])

def insertStr (s : String) : List String → List String
  | [] => [s]
  | t :: ts => if s < t then s :: t :: ts else if s == t then t :: ts else t :: insertStr s ts

def changedPaths (a b : View) : List String :=
  let raw :=
    ch "spec.podManagementPolicy" a.policy b.policy ++ ch "spec.updateStrategy.type" a.stratType b.stratType ++
    (match a.rollingUpdate, b.rollingUpdate with
      | none, some _ => ["spec.updateStrategy.rollingUpdate"]
      | some x, some y => chOpt "spec.updateStrategy.rollingUpdate.partition" x y
      | _, _ => []) ++
    chOpt "spec.replicas" a.replicas b.replicas ++ chOpt "spec.revisionHistoryLimit" a.revHist b.revHist ++
    ch "pod.dnsPolicy" a.dnsPolicy b.dnsPolicy ++ ch "pod.restartPolicy" a.restartPolicy b.restartPolicy ++
    ch "pod.schedulerName" a.scheduler b.scheduler ++ ch "pod.securityContext" a.secCtx b.secCtx ++
    chOpt "pod.terminationGracePeriodSeconds" a.grace b.grace ++
    zipPaths chVolume a.volumes b.volumes ++
    zipPaths (chContainer "pod.initContainers.*") a.initCtrs b.initCtrs ++
    zipPaths (chContainer "pod.containers.*") a.ctrs b.ctrs ++
    zipPaths (chContainer "pod.ephemeralContainers.*") a.eph b.eph ++
    chRes "pod.overhead" a.overhead b.overhead ++
    zipPaths (fun x y => ch "claim.status.phase" x.phase y.phase ++ chRes "claim.spec.resources.limits" x.limits y.limits ++
      chRes "claim.spec.resources.requests" x.requests y.requests ++ chRes "claim.status.capacity" x.capacity y.capacity) a.claims b.claims
  raw.foldr insertStr []

/-- coarse class of the case for the evidence histogram -/
def defaultsTag (v0 v1 : View) (paths : List String) : String :=
  if paths.isEmpty then "fixpoint"
  else if v0.stratType == "" && (match v0.rollingUpdate with | some (some p) => p != 0 | _ => false) then "strategy.block-without-type"
  else if paths.any (fun p => p.endsWith ".*" ) then "rounding"
  else if paths.any (fun p => p.startsWith "pod.volumes") then "volumes"
  else if paths.any (fun p => p.startsWith "pod.") then "template"
  else if v1.stratType != v0.stratType then "strategy"
  else "set-only"

def monitorDefaults (obs : String) : String :=
  let o : Spec.Obs := { idem := fieldD obs "idem" == "1", tpl := fieldD obs "tpl" == "1", kept := field obs "lost" == some "", noErr := fieldD obs "err" == "none",
                        noPanic := field obs "out" != some "panic" }
  verdict (Spec.clauses o)

def stepDefaults (cas obs : String) : String :=
  match cas.splitOn "|" with
  | _ :: rest =>
    match Json.parse ("|".intercalate rest) with
    | none => "bad-case\tok\tbad"
    | some j =>
      let v0 := viewOf j
      let v1 := defaults v0
      let v2 := defaults v1
      let paths := changedPaths v0 v1
      let first := if paths.any (fun p => p.startsWith "pod.") then "changed" else "same"
      let model := s!"idem={boolS (v2 == v1)} chg={",".intercalate paths} lost={if Spec.keptView v0 v1 then "" else "view"} v1={showView v1} hjdef=1 tpl=1 resub=1 first={first} err=none"
      let obs' := match obs.splitOn " site=" with | o :: _ => o | [] => obs
      -- recorded, not judged: does the first Get+Update through the hijack client of an object stored undefaulted change its template?
      let ft := if paths.isEmpty then "" else if fieldD obs' "first" == "changed" then "+first-touch-changes-template" else "+first-touch-keeps-template"
      s!"{model}\t{monitorDefaults obs'}\t{defaultsTag v0 v1 paths}{ft}"
  | _ => "bad-case\tok\tbad"

end Asts.Driver.DefaultsDrv
