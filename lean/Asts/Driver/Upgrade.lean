import Asts.Spec.Upgrade
import Asts.Driver.Util
namespace Asts.Driver
open Asts.Upgrade

/-! Driver of the `upgrade` engine: case `name|st|sel|spec|revs|as|plan` (see harness/eng_upgrade.go). -/

def upPairs (s sep kv : String) : Labels :=
  if s == "" then [] else (s.splitOn sep).map fun t => match t.splitOn kv with | [a, b] => (a, b) | _ => (t, "")

def upOp : String → Op
  | "I" => .opIn | "O" => .notIn | "E" => .opExists | "D" => .doesNotExist | _ => .bogus

def upExpr (t : String) : Expr :=
  match t.splitOn ":" with
  | [k, o, v] => { key := k, op := upOp o, vals := if v == "" then [] else v.splitOn "+" }
  | _ => { key := t, op := .bogus, vals := [] }

def upSelector (s : String) : Option Selector :=
  if s == "N" then some { isNil := true, ml := [], exprs := [] } else
  match s.splitOn "#" with
  | [ml, ex] => some { isNil := false, ml := upPairs ml "," ":", exprs := if ex == "" then [] else (ex.splitOn ",").map upExpr }
  | _ => none

def upRev (t : String) : Option Rev :=
  match t.splitOn "~" with
  | [n, l] =>
    let name := if n.endsWith "^" then (n.dropEnd 1).toString else n
    some { name := name, labels := if l == "!" then none else some (upPairs l "," ":") }
  | _ => none

def upKind : Char → Option ErrKind
  | 'I' => some .internal | 'C' => some .conflict | 'N' => some .notFound | 'A' => some .alreadyExists | 'T' => some .timeout | _ => none

def upFault (t : String) : Option (Nat × Inj) :=
  match t.splitOn ":" with
  | [i, k] =>
    match k.toList with
    | ['X'] => some (i.toNat!, .crash)
    | [c] => (upKind c).map fun kk => (i.toNat!, .err kk false)
    | [c, '+'] => (upKind c).map fun kk => (i.toNat!, .err kk true)
    | _ => none
  | _ => none

/-- the injection at call index `i`: the first fault of the run's list with that index -/
def planAt (fs : List (Nat × Inj)) (i : Nat) : Inj :=
  match fs.find? (·.1 == i) with
  | some f => f.2
  | none => .none

structure UpCase where
  p : Params
  w : World2
  plan : List (List (Nat × Inj))

def sortRevs (l : List Rev) : List Rev := l.mergeSort fun a b => decide (¬ b.name < a.name)

def parseUpCase (line : String) : Option UpCase :=
  match line.splitOn "|" with
  | [name, st, sel, spec, revs, as, plan] => do
    let s ← upSelector sel
    let (sp, tt) ← match spec.splitOn ":" with | [a, b] => some (a.toNat!, b.toNat!) | _ => none
    let rs ← if revs == "" then some [] else (revs.splitOn ";").mapM upRev
    let a ← if as == "-" then some none else
      match as.splitOn ":" with | [m, x, y] => some (some (ASts.mk m.toNat! x.toNat! y.toNat!)) | _ => none
    let pl ← (plan.splitOn ";").mapM fun run => if run == "" then some [] else (run.splitOn ",").mapM upFault
    let names := rs.map (·.name)
    if names.eraseDups.length != names.length || names.contains "" then none else
    some { p := { name := name, sel := s, spec := sp, status := tt },
           w := { sts := st == "1", revs := sortRevs rs, asts := a, pods := 0, claims := 0 }, plan := pl }
  | _ => none

/-! ## formatting, exactly as the Go engine -/

def showLabels : Option Labels → String
  | none => "!"
  | some l => "+".intercalate ((l.mergeSort fun a b => decide (¬ b.1 < a.1)).map fun kv => kv.1 ++ "." ++ kv.2)

def showRevs (rs : List Rev) : String := "/".intercalate (rs.map fun r => r.name ++ "~" ++ showLabels r.labels)

def showAsd (p : Params) : Option ASts → String
  | none => "-"
  | some a => s!"m{a.origin}s{a.spec}t{a.status}e{if a.spec == p.spec then 1 else 0}{if a.status == p.status then 1 else 0}"

def showErrKind : ErrKind → String
  | .internal => "I" | .conflict => "C" | .notFound => "N" | .alreadyExists => "A" | .timeout => "T" | .other => "other"

def showUpOut : Outcome → String
  | .ok => "ok" | .err k => "err." ++ showErrKind k | .panic => "panic" | .crash => "crash"

def showPolicy : Policy → String
  | .orphan => "Orphan" | .background => "Background" | .foreground => "Foreground" | .nil => "nil"

def showAct (p : Params) : Act → String
  | .listRevs => "list:crev:"
  | .updateRev n => "update:crev:" ++ n
  | .getAs => "get:asts:" ++ p.name
  | .createAs => "create:asts:" ++ p.name
  | .updateAs => "update:asts:" ++ p.name
  | .statusAs => "status:asts:" ++ p.name
  | .deleteSts pol pre => s!"delete:sts:{p.name}:{showPolicy pol}:{showAsd p pre.asts}:{showRevs pre.revs}"
  | .other v r n => s!"{v}:{r}:{n}"

def showWorld (p : Params) (w : World2) : String := s!"{if w.sts then 1 else 0}:{showAsd p w.asts}:{showRevs w.revs}"

def showRun (p : Params) (r : List Act × Outcome) : String := showUpOut r.2 ++ ">" ++ ",".intercalate (r.1.map (showAct p))

/-! ## parsing the implementation's observation -/

def obsLabels (s : String) : Option Labels :=
  if s == "!" then none else some (upPairs s "+" ".")

def obsRevs (s : String) : List Rev :=
  if s == "" then [] else (s.splitOn "/").filterMap fun t => match t.splitOn "~" with | [n, l] => some { name := n, labels := obsLabels l } | _ => none

/-- `m<meta>s<spec>t<status>e<a><b>`: the observed identity of the spec (status) is the built-in one's exactly when the engine
    found it equal as JSON -/
def obsAsd (p : Params) (s : String) : Option ASts :=
  if s == "-" then none else
  match (s.drop 1).toString.splitOn "s" with
  | [m, r1] => match r1.splitOn "t" with
    | [sp, r2] => match r2.splitOn "e" with
      | [tt, ee] =>
        let spN := sp.toInt!.toNat
        let ttN := tt.toInt!.toNat
        let se := ee.startsWith "1"
        let te := ee.endsWith "1"
        some { origin := m.toNat!,
               spec := if se then p.spec else if spN == p.spec then spN + 1000003 else spN,
               status := if te then p.status else if ttN == p.status then ttN + 1000003 else ttN }
      | _ => some ⟨9, p.spec + 1000003, p.status + 1000003⟩
    | _ => some ⟨9, p.spec + 1000003, p.status + 1000003⟩
  | _ => some ⟨9, p.spec + 1000003, p.status + 1000003⟩

def obsPolicy : String → Policy
  | "Orphan" => .orphan | "Background" => .background | "Foreground" => .foreground | _ => .nil

def obsAct (p : Params) (t : String) : Act :=
  match t.splitOn ":" with
  | ["list", "crev", ""] => .listRevs
  | ["update", "crev", n] => .updateRev n
  | ["delete", "sts", n, pol, asd, revs] =>
    if n == p.name then .deleteSts (obsPolicy pol) { sts := true, revs := obsRevs revs, asts := obsAsd p asd, pods := 0, claims := 0 }
    else .other "delete" "sts" n
  | v :: r :: n :: _ =>
    if r == "asts" && n == p.name then
      (if v == "get" then .getAs else if v == "create" then .createAs else if v == "update" then .updateAs
       else if v == "status" then .statusAs else .other v r n)
    else .other v r n
  | _ => .other t "" ""

def obsOut : String → Outcome
  | "ok" => .ok | "panic" => .panic | "crash" => .crash
  | "err.I" => .err .internal | "err.C" => .err .conflict | "err.N" => .err .notFound | "err.A" => .err .alreadyExists
  | "err.T" => .err .timeout | _ => .err .other

def obsRun (p : Params) (s : String) : List Act × Outcome :=
  match s.splitOn ">" with
  | [o, es] => ((if es == "" then [] else (es.splitOn ",").map (obsAct p)), obsOut o)
  | _ => ([.other s "" ""], .err .other)

def obsWorld (p : Params) (s : String) (pods claims : Nat) : World2 :=
  match s.splitOn ":" with
  | [st, asd, revs] => { sts := st == "1", revs := obsRevs revs, asts := obsAsd p asd, pods := pods, claims := claims }
  | _ => { sts := true, revs := [], asts := none, pods := 1, claims := 1 }

/-- the built-in object passed apps/v1 validation as far as the helper can see: a selector that is present, non-empty and
    convertible -/
def validSel (s : Selector) : Bool := !s.isNil && !selectorError s && !(s.ml.isEmpty && s.exprs.isEmpty)

def monitorUp (c : UpCase) (obs : String) : String :=
  let p := c.p
  let rs := (fieldD obs "runs").splitOn ";" |>.map (obsRun p)
  let acts := rs.flatMap (·.1)
  let same := fieldD obs "pods" == "same" && fieldD obs "claims" == "same"
  let final := obsWorld p (fieldD obs "final") (if fieldD obs "pods" == "same" then 0 else 1) (if fieldD obs "claims" == "same" then 0 else 1)
  let ref := obsWorld p (fieldD obs "ref") 0 0
  let refOut := obsOut (fieldD obs "refout")
  let valid := validSel p.sel
  let lastFree := match c.plan.getLast? with | some [] => true | _ => false
  let lastOut := match rs.getLast? with | some r => r.2 | none => .ok
  let freeOk := ((c.plan.zip rs).all fun (fs, r) => !fs.isEmpty || r.2 == .ok) && refOut == .ok
  verdict [
    ("C17.orphan", acts.all Spec.orphanOnly),
    ("C17.asfirst", acts.all (Spec.asFirst p)),
    ("C17.relabelled", acts.all (Spec.relabelledFirst p c.w)),
    ("C17.nopodclaim", acts.all Spec.noPodClaim && same),
    ("C17.revskept", Spec.revsKept c.w final && Spec.untouched c.w final),
    ("C17.rerunok", !valid || freeOk),
    ("C17.samefinal", !valid || !lastFree || Spec.sameFinal final ref),
    ("C17.complete", !valid || !lastFree || lastOut != .ok || Spec.upgraded p c.w final)]

def upTag (c : UpCase) (rs : List (List Act × Outcome)) : String :=
  let s := c.p.sel
  let shape := if s.isNil then "nilsel" else if selectorError s then "selerr" else if s.ml.isEmpty && s.exprs.isEmpty then "emptysel"
    else if s.exprs.isEmpty then "ml" else if s.ml.isEmpty then "exprs" else "ml+exprs"
  let as := if c.w.asts.isSome then "pre" else "new"
  let outs := rs.map (·.2)
  let worst := if outs.contains .panic then "panic" else if outs.contains .crash then (if outs.any (fun o => match o with | .err _ => true | _ => false) then "crash+err" else "crash")
    else if outs.any (fun o => match o with | .err _ => true | _ => false) then "err" else "clean"
  let deleted := rs.any fun r => r.1.any Spec.isDeleteSts
  s!"{shape}.{as}.{worst}{if deleted then "" else ".nodelete"}"

def stepUpgrade (cas obs : String) : String :=
  match parseUpCase cas with
  | none => "bad-case\tok\tbad"
  | some c =>
    let (final, rs) := runs c.p c.w (c.plan.map planAt)
    let refRun := run c.p noInj c.w
    let model := s!"runs={";".intercalate (rs.map (showRun c.p))} final={showWorld c.p final} pods=same claims=same ref={showWorld c.p refRun.w} refout={showUpOut refRun.out}"
    let obs' := match obs.splitOn " site=" with | o :: _ => o | [] => obs
    s!"{model}\t{monitorUp c obs'}\t{upTag c rs}"

end Asts.Driver
