import Asts.Model.Watch
import Asts.Spec.Watch
import Asts.Driver.Util
namespace Asts.Driver
open Asts.Watch

def parseEvType : Char → Option EvType
  | 'A' => some .added | 'M' => some .modified | 'D' => some .deleted | 'B' => some .bookmark | 'E' => some .error | _ => none

def showEvType : EvType → String
  | .added => "A" | .modified => "M" | .deleted => "D" | .bookmark => "B" | .error => "E"

/-- payload letters of a case line: what the source offers -/
def parseSrcPayload : Char → Option Payload
  | 's' => some .asSet | 't' => some .status | 'o' => some .other | _ => none

/-- payload letters of an observation: what the consumer got (`s` = the expected built-in set) -/
def parseGotPayload : Char → Payload
  | 's' => .builtin | 'a' => .asSet | 't' => .status | 'o' => .other | _ => .bad

def showGotPayload : Payload → String
  | .builtin => "s" | .asSet => "a" | .status => "t" | .other => "o" | .bad => "x"

def parseSAct (t : String) : Option SAct :=
  match t.toList with
  | ['C'] => some .close
  | ['R'] => some .recv
  | ['S'] => some .stop
  | [a, b] => do
    let ty ← parseEvType a
    let p ← parseSrcPayload b
    pure (.send ty p)
  | _ => none

def parseScript (cas : String) : Option (List SAct) :=
  if cas == "-" then some [] else (cas.splitOn ",").mapM parseSAct

def showRes : Res → String
  | .taken => "taken" | .offered => "offered" | .dropped => "dropped" | .done => "done"
  | .got e => s!"got:{showEvType e.typ}{showGotPayload e.pay}{e.id}"
  | .closed => "closed" | .blocked => "blocked" | .panic => "panic"

def showSRes (r : SRes) : String := showRes r.res ++ (if r.took then "+t" else "")

def parseRes (t : String) : Option Res :=
  match t with
  | "taken" => some .taken | "offered" => some .offered | "dropped" => some .dropped | "done" => some .done
  | "closed" => some .closed | "blocked" => some .blocked | "panic" => some .panic
  | _ =>
    if t.startsWith "got:" then
      match (t.drop 4).toString.toList with
      | a :: b :: rest =>
        match parseEvType a, (String.ofList rest).toNat? with
        | some ty, some n => some (.got { typ := ty, pay := parseGotPayload b, id := n })
        | some ty, none => some (.got { typ := ty, pay := .bad, id := 0 })
        | none, _ => some (.got { typ := .error, pay := .bad, id := 0 })
      | _ => none
    else none

def parseSRes (t : String) : Option SRes :=
  if t.endsWith "+t" then (parseRes (t.dropEnd 2).toString).map fun r => { res := r, took := true }
  else (parseRes t).map fun r => { res := r }

/-- the implementation's observation; `none` when it is not well formed -/
def parseObs (obs : String) : Option Obs := do
  let resS ← field obs "res"
  let res ← if resS == "" then some [] else (resS.splitOn ",").mapM parseSRes
  let relay ← field obs "relay"
  let final ← (field obs "final").bind parseRes
  let pan ← field obs "panic"
  if (relay != "alive" && relay != "gone") || (pan != "0" && pan != "1") || (field obs "unsettled").isSome then none
  else some { res := res, relayAlive := relay == "alive", final := final, panicked := pan == "1" }

def showObs (o : Obs) : String :=
  let b (x : Bool) := if x then "1" else "0"
  s!"res={",".intercalate (o.res.map showSRes)} relay={if o.relayAlive then "alive" else "gone"} final={showRes o.final} closed={b (o.final == .closed)} panic={b o.panicked}"

def watchVerdict (script : List SAct) (o : Option Obs) : String :=
  match o with
  | none => "C20.obs"
  | some o =>
    let v := Spec.monitor script o
    verdict [("C20.relay", v.relay), ("C20.progress", v.progress), ("C20.nopanic", v.nopanic), ("C20.stop", v.stop),
             ("C20.cleanup", v.cleanup), ("C20.obs", v.obs)]

/-- branch tag: which paths of the relay the script drove (computed on the fixed model) -/
def watchTag (script : List SAct) : String :=
  let rec go (w : W) (id : Nat) (nonset release delivered : Bool) : List SAct → (W × Bool × Bool × Bool)
    | [] => (w, nonset, release, delivered)
    | a :: as =>
      let (w', r) := sstep .fixed w id a
      let nonset' := nonset || (match a with | .send _ p => p != .asSet && r.res != .dropped | _ => false)
      let release' := release || (a == .stop && !w.stopped && (match w.pc with | .sendWait _ => true | _ => false))
      let delivered' := delivered || (match r.res with | .got _ => true | _ => false)
      go w' (if isSend a then id + 1 else id) nonset' release' delivered' as
  let (w, nonset, release, delivered) := go (settle .fixed {}) 0 false false false script
  let ending := if w.stopped && w.pc == .exited && !script.contains .stop then "srcend" else if w.stopped then "stop" else
    if w.srcClosed then "srcend-undrained" else "open"
  if w.sent.isEmpty then s!"idle.{ending}"
  else
    let path := (if nonset then "nonset" else "set") ++ (if release then "+release" else "") ++ (if delivered then "" else "+norecv")
    s!"{path}.{ending}"

def stepWatchV (v : Variant) (cas obs : String) : String :=
  match parseScript cas with
  | none => "bad-case\tok\tbad"
  | some script =>
    let model := showObs (observe v script)
    s!"{model}\t{watchVerdict script (parseObs obs)}\t{watchTag script}"

/-- engine `watch`: the model of the repaired relay -/
def stepWatch (cas obs : String) : String := stepWatchV .fixed cas obs

/-- engine `watchpinned`: the model of the relay as it is in the pinned tree (same monitor) -/
def stepWatchPinned (cas obs : String) : String := stepWatchV .pinned cas obs

end Asts.Driver
