namespace Asts.Driver

def parseIntList (s : String) : List Int :=
  if s == "" then [] else (s.splitOn ",").map String.toInt!

def showIntList (l : List Int) : String := ",".intercalate (l.map toString)

def hexVal (c : Char) : Nat :=
  if '0' ≤ c && c ≤ '9' then c.toNat - 48 else if 'a' ≤ c && c ≤ 'f' then c.toNat - 87 else 0

/-- decode a lower-case hex string into one `Char` per byte -/
def hexDecode : List Char → List Char
  | a :: b :: rest => Char.ofNat (hexVal a * 16 + hexVal b) :: hexDecode rest
  | _ => []

/-- value of `key=` in a space-separated observation -/
def field (obs : String) (key : String) : Option String :=
  (obs.splitOn " ").findSome? fun t =>
    if t.startsWith (key ++ "=") then some (t.drop (key.length + 1)).toString else none

def fieldD (obs key : String) : String := (field obs key).getD ""

/-- failed monitor clauses, as a comma separated list (`ok` when none) -/
def verdict (clauses : List (String × Bool)) : String :=
  let bad := clauses.filterMap fun (n, ok) => if ok then none else some n
  if bad.isEmpty then "ok" else ",".intercalate bad

end Asts.Driver
