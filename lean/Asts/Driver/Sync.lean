import Asts.Spec.Sync
import Asts.Spec.Glue2
import Asts.Driver.Reconcile
namespace Asts.Driver
open Asts

/-- `S`, `O`, `N`: the same ownership with a non-controller owner reference next to it (ownership is the controller reference alone) -/
def parseOwner : String → Owner | "s" => .self | "S" => .self | "o" => .other | "O" => .other | _ => .none
def showOwner : Owner → String | .self => "s" | .other => "o" | .none => "n"
def csv (s : String) (sep : String) : List String := if s == "" then [] else s.splitOn sep

def parseHashNum (s : String) : Option Int :=
  if s == "-" then none else
  match s.toInt? with
  | some v => if -2147483648 ≤ v && v ≤ 2147483647 then some v else none
  | none => none

def parseRev (t : String) : Rev :=
  match t.splitOn ":" with
  | [nm, num, ct, data, hl, ow, sel, mk] =>
    { name := nm, number := num.toInt!, ctime := ct.toInt!, data := data, hashNum := parseHashNum hl,
      owner := parseOwner ow, selMatch := sel == "1", marker := mk == "1" }
  | _ => { name := "?", number := 0, ctime := 0, data := "", hashNum := none, owner := .none, selMatch := false, marker := false }

def parseCPod (idx : Nat) (t : String) : CPod :=
  match t.splitOn ":" with
  | [nm, o, mem, ph, rd, tm, rv, io, ow, sel] =>
    { name := nm,
      pod := { id := idx, ord := o.toInt!, phase := parsePhase ph, ready := rd == "1", terminating := tm == "1", rev := rv,
               idOk := io == "1", stOk := true },
      owner := parseOwner ow, selMatch := sel == "1", member := mem == "1" }
  | _ => { name := "?", pod := { id := idx, ord := -1, phase := .none, ready := false, terminating := false, rev := "", idOk := true, stOk := true },
           owner := .none, selMatch := false, member := false }

def parseKind : String → ErrKind
  | "conflict" => .conflict | "conflictgone" => .conflict | "conflictrest" => .conflict | "notfound" => .notFound | "exists" => .alreadyExists | "invalid" => .invalid | _ => .other

structure SyCase where
  i : SyncIn
  h : Hashing
  plan : List Fault
  claims : Bool := false     -- claims mode (20th field): judged by the monitors only

def parseSyCase (line : String) : Option SyCase :=
  let fs := line.splitOn "|"
  match fs.take 19 with
  | [paused, selOk, r, sl, pol, strat, ru, del, gen, stored, cc, lim, tmpl, fuid, fdel, store, pods, names, faults] =>
    let ruv : Option (Option Int) := if ru == "none" then none else if ru == "nil" then some none else some (some ru.toInt!)
    let stratV : StratType := if strat == "R" then .rolling else if strat == "D" then .onDelete else .other
    let st := (parseStatus stored).getD {}
    let v : SetView := {
      replicas := some r.toInt!
      slots := parseIntList sl
      parallel := (pol == "P")
      strat := stratV
      ru := ruv
      deleting := (del == "1")
      generation := gen.toInt!
      stCurrentReplicas := st.current }
    let table : List ((String × Int) × (String × Option Int)) := (csv names ",").filterMap fun t =>
      match t.splitOn "=" with
      | [k, val] => match k.splitOn ":", val.splitOn ":" with
        | [d, c], [nm, hn] => some ((d, c.toInt!), (nm, if hn == "-" then none else some hn.toInt!))
        | _, _ => none
      | _ => none
    let h : Hashing := {
      nameOf := fun d c => ((table.find? (fun e => e.1 == (d, c))).map (·.2.1)).getD s!"?{d}:{c}"
      hashNumOf := fun d c => ((table.find? (fun e => e.1 == (d, c))).bind (·.2.2)) }
    let i : SyncIn := {
      setName := "web"
      paused := (paused == "1")
      selectorOk := (selOk != "0")
      view := v
      stored := st
      collisionCount := (if cc == "nil" then none else some cc.toInt!)
      historyLimit := some lim.toInt!
      template := tmpl
      fresh := { gone := fuid == "2", uidOk := fuid == "1", deleting := fdel == "1" }
      store := ((csv store ";").map parseRev).foldl (fun acc r => insertByName r acc) []
      pods := ((csv pods ";").zipIdx).map (fun (t, k) => parseCPod k t) }
    let plan : List Fault := (csv faults ";").filterMap fun t =>
      match t.splitOn "@" with
      | [k, occ, kind] => some { key := k, occ := occ.toNat!, kind := parseKind kind }
      | _ => none
    some { i := i, h := h, plan := plan, claims := fs.length == 20 }
  | _ => none

def showRevD (d : RevD) : String :=
  s!"{d.name}:{d.number}:{showOwner d.owner}:{if d.sel then "1" else "0"}:{if d.marker then "1" else "0"}:{d.data}"

def parseRevD (t : String) : Option RevD :=
  match t.splitOn ":" with
  | [nm, num, ow, sel, mk, data] => some { name := nm, number := num.toInt!, owner := parseOwner ow, sel := sel == "1", marker := mk == "1", data := data }
  | _ => none

def parseSyncObs (obs : String) : SyncObs :=
  { log := csv (fieldD obs "log") ",", status := parseStatus (fieldD obs "status"),
    revs := (csv (fieldD obs "revs") ";").filterMap parseRevD, out := fieldD obs "out", mutated := fieldD obs "mut" == "1" }

def syTag (c : SyCase) (o : SyncOut) : String :=
  if c.i.paused then "paused" else if !c.i.selectorOk then "badselector" else
  let es := o.log.map parseEntry
  let has (p : Entry → Bool) := es.any p
  let base := match o.outcome with | .ok => "ok" | .err => "err" | .panic _ => "panic"
  base ++ (if c.i.view.deleting then "+deleting" else "") ++
    (if has (fun e => e.verb == "patch" && e.res == "rev") then "+adoptrev" else "") ++
    (if has (fun e => e.verb == "patch" && e.res == "pod") then "+claim" else "") ++
    (if has (fun e => e.verb == "create" && e.res == "rev") then "+newrev" else "") ++
    (if (es.filter (fun e => e.verb == "create" && e.res == "rev")).length > 1 then "+collision" else "") ++
    (if has (fun e => e.verb == "delete" && e.res == "rev") then "+truncate" else "") ++
    (if has (fun e => isPodWrite e && e.verb != "patch") then "+podwrite" else "") ++
    (if o.status.isSome then "+status" else "") ++
    (if !c.plan.isEmpty then "+faulted" else "")

def monitorSync (c : SyCase) (obs : String) : String :=
  let o := parseSyncObs obs
  let i := c.i
  -- the reconcile-level predicates, re-checked on the calls of the real pod control
  let m := syncF c.h c.i c.plan
  let reached := m.upd != ""
  let pods := m.claimed.map (·.pod)
  let acts := podActs i o.log (csv (fieldD obs "creates") ",")
  let wf := wfSnapshot pods
  let v := i.view
  let podFaulted := c.plan.any (fun f => (f.key.splitOn ":").getD 1 "" == "pod")
  -- what the writes CARRY (patch bodies and types, owner references and identity of created objects, delete options, the
  -- status subresource): judged by the harness call by call, each failed check arrives as a clause name
  verdict <| ((csv (fieldD obs "wbad") ",").map (fun t => (t, false))) ++ [
    ("C01.creates", !reached || C01creates v acts),
    ("C03.justified", !reached || C03 v m.upd pods acts (o.out == "ok")),
    ("C04.vacant", !reached || !wf || C04 v pods acts),
    ("C04.removed", C04removedSync c.plan o.log),
    -- the completion rule, judged on the status a whole sync wrote and on the calls of the real pod control
    ("C12.completion", C12completionSync i m o (csv (fieldD obs "creates") ",")),
    ("C02.cache", C10cache o),
    ("C16.requeued", C09reported i c.plan o),
    ("C05.ordered", !reached || v.parallel || !wf || C05 v pods acts),
    ("C07.rolling", !reached || !wf || C07 v m.cur m.upd pods acts),
    ("C14.burst", !reached || !v.parallel || !wf || v.deleting || !c.plan.isEmpty || podFaulted || o.out != "ok" || C14 v pods acts),
    ("C12.cache", C10cache o),
    ("C07.template", fieldD obs "tplbad" == "0" || fieldD obs "tplbad" == ""),
    ("C02.template", fieldD obs "tplbad" == "0" || fieldD obs "tplbad" == ""),
    ("C15.nopanic", o.out != "panic"),
    ("C11.paused", C11paused i o),
    ("C11.deleting", C11deleting i o),
    -- recorded upstream quirk, outside the clause: the identity fix renames its copy of a non-canonically named pod (`web-03`)
    -- and addresses the Update to the canonical name; if somebody else's pod holds that name the call names a foreign pod
    -- (a real API server rejects it on UID / resourceVersion)
    ("C10.pods", i.pods.any (fun c => c.member && c.owner == .self && c.name != canonicalName i.setName c.pod.ord &&
                   i.pods.any (fun q => q.name == canonicalName i.setName c.pod.ord && q.owner != .self)) || C10pods i c.plan o),
    ("C10.revs", C10revs i o),
    ("C10.revadopt", C10revAdopt i c.plan o),
    ("C11.freshdeleting", C11freshDeleting i o),
    -- adoption by ANY verb: when adoption is not allowed (the set is gone, re-created or being deleted in the API, or deleting
    -- in the cache) no revision that was not the set's own ends up controlled by it, whichever call did it
    ("C11.revowner", C11revowner i o),
    -- migration: after a successful sync of a live, confirmed set every orphan revision it can see (selector labels or its
    -- upgrade marker) that still exists is controlled by it
    ("C18.adopted", C18adopted i c.plan o),
    ("C10.set", C10set o),
    ("C10.cache", C10cache o),
    ("C13.history", C13 i c.plan o),
    ("C08.store", C08 c.h i o),
    -- migration: a stored revision that records the template is re-used, nothing is created (the same predicate, read for C18)
    ("C18.reuse", C08 c.h i o),
    ("C09.reported", C09reported i c.plan o),
    -- every attempt of a retried status write carries the same status; nothing the sync left undone is hidden in the cache
    ("C09.retrysame", fieldD obs "stvar" != "1"),
    ("C09.cache", C10cache o),
    ("C12.bounds", match o.status with | some st => C12bounds st | none => true),
    ("C12.generation", match o.status with | some st => C12gen i.view i.stored st | none => true)]

def stepSync (cas obs : String) : String :=
  match parseSyCase cas with
  | none => "bad-case\tok\tbad"
  | some c =>
    let o := syncF c.h c.i c.plan
    let ob := o.observe
    let stS := match o.status with | some s => showStatus s | none => "-"
    let ccS := match o.status, o.cc with | some _, some n => toString n | _, _ => "-"
    let model := s!"log={",".intercalate ob.log} status={stS} cc={ccS} revs={";".intercalate (ob.revs.map showRevD)} out={ob.out} mut=0 creates={",".intercalate ((o.acts.take (if o.outcome == .ok || o.log.isEmpty then o.acts.length else o.acts.length)).filterMap (fun a => match a with | .create od rv => some s!"{canonicalName c.i.setName od}@{rv}" | _ => none))} stvar=0 tplbad=0 wbad="
    let obs' := match obs.splitOn " site=" with | o :: _ => o | [] => obs
    -- a history holding a revision whose data cannot be applied (JSON, but not a StatefulSet once patched): the model has
    -- no such revisions; the case is judged on the real code only: no panic, and when the stored current revision is such a
    -- revision and the reconcile gets as far as resolving it, the sync reports an error
    -- a Conflict on a revision Update answered the way the REST client does (an EMPTY object next to the error, where the fake
    -- clientset of the other cases gives nil): `updateControllerRevision` adopts that object, every further attempt is nameless
    -- and never leaves the client; the model describes the fake's behaviour (the retry succeeds), so this variant is judged on
    -- the real code only: the failure is reported, nothing panics, the caches stay untouched
    if (cas.splitOn "@conflictrest").length > 1 then
      -- did the faulted call happen at all (an earlier fault of the same plan may have ended the sync before it)?
      let fs := ((cas.splitOn "|").getD 18 "").splitOn ";"
      let restHit : Bool := (List.range fs.length).any (fun k =>
        match (fs.getD k "").splitOn "@" with
        | [key, occ, "conflictrest"] =>
          -- the first entry for a (call, occurrence) is the one the harness applies
          !((fs.take k).any (fun g => match g.splitOn "@" with | [k2, o2, _] => k2 == key && o2 == occ | _ => false)) &&
          ((csv (fieldD obs' "log") ",").filter (· == key)).length > occ.toNat!
        | _ => false)
      let mon := verdict [
        ("C15.nopanic", fieldD obs' "out" != "panic"),
        ("C09.reported", !restHit || fieldD obs' "out" == "err"),
        ("C10.cache", fieldD obs' "mut" != "1")]
      s!"{obs'}\t{mon}\trestclient" else
    let unappliable (d : String) : Bool := d == "R" || d == "S"
    if c.i.store.any (fun r => unappliable r.data) then
      let hit := c.i.store.any (fun r => r.name == c.i.stored.currentRev && unappliable r.data && (r.selMatch || r.marker) && r.owner != .other)
      let mon := verdict [
        ("C15.nopanic", fieldD obs' "out" != "panic"),
        ("C09.unappliable", c.i.paused || !c.i.selectorOk || !hit || fieldD obs' "out" == "err"),
        ("C10.cache", fieldD obs' "mut" != "1")]
      s!"{obs'}\t{mon}\tunappliable" else
    -- claims mode: the sync model has no claim templates; the case is judged by the monitors on the real code only
    if c.claims then s!"{obs'}\t{monitorSync c obs'}\tclaims" else
    s!"{model}\t{monitorSync c obs'}\t{syTag c o}"

end Asts.Driver
