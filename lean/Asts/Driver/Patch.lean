import Asts.Model.Patch
import Asts.Spec.Patch
import Asts.Driver.Util
namespace Asts.Driver
open Asts.Patch

/-! driver of the `patch` engine. The encoded set (`enc=`, and `encb=` for the second template) is the model's INPUT (the struct → JSON codec is
    sampled, not modelled); from its tree the model predicts the exact patch bytes, their FNV digest, the five hashes, the revision name and, for a
    case with a second template, the re-encoded restored set. The trees are echoed through the model's own parser and serialiser, so a line also
    checks `ser (parse bytes) = bytes` on real data. -/

namespace PT

def kv (t : String) : Option (String × String) :=
  match t.splitOn "=" with
  | k :: v :: rest => some (k, "=".intercalate (v :: rest))
  | _ => none

def fields (obs : String) : List (String × String) := (obs.splitOn " ").filterMap kv

def get (f : List (String × String)) (k : String) : String := (f.lookup k).getD ""

def utf8 (cs : List Char) : List Nat := (String.ofList cs).toUTF8.toList.map UInt8.toNat

def hexOfBytes (bs : List Nat) : String := String.ofList (bs.flatMap fun b => [hexDigit (b / 16), hexDigit (b % 16)])

/-- hex → bytes → characters (UTF-8 decoding done by `String.fromUTF8?`) -/
def charsOfHex (h : String) : Option (List Char) :=
  let bs := (hexDecode h.toList).map fun c => c.toNat.toUInt8
  (String.fromUTF8? (ByteArray.mk bs.toArray)).map String.toList

def strMember (k : String) (j : Json) : List Char :=
  match Spec.member k j with
  | some (.str s) => s.toList
  | _ => []

def hashes (data : List Nat) : String :=
  ",".intercalate ((([0, 1, 2, 3] : List Int).map fun p => String.ofList (hashRevision data (some p))) ++ [String.ofList (hashRevision data none)])

def obsTree (j : Json) : String := String.ofList (ser obsEscape j)

def monitor (pair : Bool) (f : List (String × String)) : String :=
  let g := get f
  let enc := parse (g "enc").toList
  let data := (charsOfHex (g "patch")).bind parse
  verdict [
    ("C18.bytes", g "out" == "ok" && g "same" == "1" && g "matchref" == "1"),
    ("C18.hash", g "hash" != "" && g "hash" == g "hashref" && g "name" != "" && g "name" == g "nameref" && g "adopt" == "1" && g "revmeta" == "1"),
    ("C08.nontemplate", g "edits" == "0"),
    ("C08.data", match enc, data with | some e, some d => Spec.recordsTemplate (canon e) (canon d) | _, _ => false),
    ("C08.match", g "match" == "1" && (!pair || g "tdiff" == "0" || g "matchb" == "0")),
    ("C18.restore", !pair || g "restoreref" == "1"),
    ("C08.restore", !pair || (g "restore" == "1" && g "rest" == "1" &&
      (match enc, parse (g "encb").toList, parse (g "rs").toList with | some a, some b, some r => Spec.restores (canon a) (canon b) (canon r) | _, _, _ => false)))]

end PT

def stepPatch (cas obs : String) : String :=
  if obs == "bad-case" then "bad-case\tok\tbad" else
  let f := PT.fields obs
  let g := PT.get f
  let mon := PT.monitor (match cas.splitOn "|" with | [_, _, b, _, _, _] => b != "-" | _ => false) f
  -- an integer above 2^53 in the encoded set: Go's getPatch rounds it through float64, the model's numbers are exact;
  -- such cases are judged by the monitors only
  if g "bigint" == "1" then s!"{obs}\t{mon}\tbigint" else
  match cas.splitOn "|" with
  | [_, _, b, _, cc, _] =>
    match parse (g "enc").toList with
    | none => s!"out=ok\t{mon}\tnoenc"
    | some enc =>
      match getPatch (canon enc) with
      | none => s!"out=panic\t{mon}\tnotemplate"
      | some p =>
        let bytes := PT.utf8 (ser goEscape p)
        let probe : Option Int := if cc == "-" then none else some cc.toInt!
        let hs := PT.hashes bytes
        let name := PT.hexOfBytes (PT.utf8 (revisionName (PT.strMember "name" ((Spec.member "metadata" enc).getD .null)) (hashRevision bytes probe)))
        let base := s!"out=ok enc={PT.obsTree (canon enc)} patch={PT.hexOfBytes bytes} same=1 refd={fnv32 bytes} edits=0 match=1 matchref=1 adopt=1 hash={hs} hashref={hs} name={name} nameref={name} revmeta=1"
        if b == "-" then s!"{base}\t{mon}\tsingle" else
        match parse (g "encb").toList with
        | none => s!"{base} encb=?\t{mon}\tnoencb"
        | some encb =>
          let same := match getPatch (canon encb) with
            | some pb => PT.utf8 (ser goEscape pb) == bytes
            | none => false
          let rs := match applyReplacePatch (canon encb) p with
            | some r => PT.obsTree (canon r)
            | none => "?"
          s!"{base} tdiff={g "tdiff"} encb={PT.obsTree (canon encb)} rs={rs} restore=1 restoreref=1 rest=1 matchb={if same then 1 else 0}\t{mon}\t{if same then "pair.equal" else "pair.differ"}"
  | _ => s!"bad-case\t{mon}\tbad"

end Asts.Driver
