import Asts.Model.Json
import Asts.Model.Codec
import Asts.Gen.Schema
import Asts.Spec.Codec
import Asts.Spec.Defaults
import Asts.Driver.Util
import Asts.Driver.Defaults
namespace Asts.Driver.CodecDrv
open Asts Asts.Driver Asts.Codec

/-! Driver of the `codec` engine. The JSON level is modelled in full: the case's JSON is decoded at the extracted built-in
    schema, converted with the schema-indexed codec and printed canonically (`asj`). The remaining tokens are the
    outcomes of comparisons the harness makes on the Go values; the model predicts them from the theorems (all hold),
    and `lost`, which it derives from the defaulting model (hijack `Create` defaults what it writes; defaulting keeps every set value). -/

def boolS (b : Bool) : String := if b then "1" else "0"

def monitorCodec (obs : String) : String :=
  let av := (fieldD obs "av").splitOn ":"
  let hav := (fieldD obs "hav").splitOn ":"
  let lav := (fieldD obs "lav").splitOn ":"
  let len := (fieldD obs "len").splitOn ":"
  let lost := fieldD obs "lost"
  let o : Spec.Obs := {
    conv := fieldD obs "conv" == "1", conv2 := fieldD obs "conv2" == "1",
    av := av.headD "", hav := hav.headD "", asav := fieldD obs "asav",
    lost := if lost == "" then [] else lost.splitOn ",",
    crt := fieldD obs "crt" == "1", upd := fieldD obs "upd" == "1", ust := fieldD obs "ust" == "1",
    served := (len.headD "0").toNat!, returned := ((len.drop 1).headD "-1").toInt!,
    order := fieldD obs "order" == "1", items := fieldD obs "items" == "1", lmeta := fieldD obs "lmeta" == "1",
    dlist := fieldD obs "dlist" == "1", lav := lav.headD "", lavItems := (lav.drop 1).headD "",
    noErr := fieldD obs "err" == "none", noPanic := field obs "out" != some "panic" }
  verdict (Spec.clauses o)

def stepCodec (cas obs : String) : String :=
  match cas.splitOn "|" with
  | empS :: first :: more =>
    match Json.parse first with
    | none => "bad-case\tok\tbad"
    | some j =>
      let emp := empS.toInt!
      let w := decode Gen.builtinSchema j
      let a := convert Gen.builtinSchema Gen.asSchema "apps.pingcap.com/v1" w
      let aj := encode Gen.asSchema a
      let kind := Json.strD (j.field? "kind")
      let n := if more.isEmpty && emp % 3 == 1 then 0 else more.length + 1
      -- the list served to hijack List: the Advanced conversions of all objects of the case, in order
      let others := more.filterMap Json.parse
      let itemsA := (j :: others).map fun x => convert Gen.builtinSchema Gen.asSchema "apps.pingcap.com/v1" (decode Gen.builtinSchema x)
      let srcList : GoVal := .struct [("kind", .str "StatefulSetList"), ("apiVersion", .str "apps.pingcap.com/v1"),
        ("metadata", .leaf (.obj [("resourceVersion", .str "42"), ("continue", .str "tok")])),
        ("items", .slice (if n == 0 then none else some itemsA))]
      let lj := encode Gen.builtinListSchema (convertList Gen.asListSchema Gen.builtinListSchema "apps/v1" srcList)
      -- hijack Create applies client-side defaulting: the only way a set value changes
      let v0 := DefaultsDrv.viewOf aj
      let v1 := Defaults.defaults v0
      let lost := if Defaults.Spec.keptView v0 v1 then "" else "view"
      let blockNoType := v0.stratType == "" && (match v0.rollingUpdate with | some (some p) => p != 0 | _ => false)
      let lav := if n == 0 then "apps/v1:" else "apps/v1:apps/v1"
      let model := s!"asj={(Json.canon aj).render} lj={(Json.canon lj).render} conv=1 conv2=1 av=apps/v1:{kind} asav=apps.pingcap.com/v1 lost={lost} crt=1 upd=1 ust=1 " ++
        s!"hav=apps/v1:{kind} len={n}:{n} order=1 items=1 lav={lav} lmeta=1 dlist=1 err=none"
      let obs' := match obs.splitOn " site=" with | o :: _ => o | [] => obs
      let accepted := accepts Gen.asSchema j && accepts Gen.builtinSchema aj
      let tag :=
        if !accepted then "unaccepted"
        else if blockNoType then "strategy.block-without-type"
        else if n == 0 then "list.empty"
        else if n > 1 then "list.many"
        else if emp != 0 then "nil-vs-empty"
        else if DefaultsDrv.changedPaths v0 v1 == [] then "defaulted"
        else "undefaulted"
      s!"{model}\t{monitorCodec obs'}\t{tag}"
  | _ => "bad-case\tok\tbad"

end Asts.Driver.CodecDrv
