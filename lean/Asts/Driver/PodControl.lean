import Asts.Model.PodControl
import Asts.Spec.PodControl
import Asts.Driver.Util
namespace Asts.Driver
open Asts Asts.PodControl

/-! driver of the `podcontrol` engine: parse the case line, run `PodControl.run`, print the observation in the engine's
    format, evaluate `PodControl.Spec.clauses` on the implementation's observation. -/

namespace PC

def hexStr (s : String) : Str := hexDecode s.toList

def hexDigit (n : Nat) : Char := if n < 10 then Char.ofNat (48 + n) else Char.ofNat (87 + n)

def hexEnc (s : Str) : String :=
  String.ofList (s.flatMap fun c => [hexDigit (c.toNat / 16), hexDigit (c.toNat % 16)])

/-- label map: `~` nil, `` empty, else `k=v,k=v`; built the way the harness fills the Go map (the last binding of a key wins) -/
def parseMap (s : String) : Labels :=
  if s == "~" || s == "" then []
  else (s.splitOn ",").foldl (fun m t =>
    match t.splitOn "=" with
    | [k, v] => setL m (hexStr k) (hexStr v)
    | _ => m) []

def parseVol (t : String) : Option Vol :=
  match t.splitOn "=" with
  | [n, s] =>
    if s == "e" then some { name := hexStr n, claim := none }
    else if s.startsWith "p" then some { name := hexStr n, claim := some (hexStr (s.drop 1).toString) }
    else none
  | _ => none

def parseVols (s : String) : List Vol :=
  if s == "" || s == "-" then [] else (s.splitOn ",").filterMap parseVol

def parsePod (s : String) : Option Pod :=
  match s.splitOn ":" with
  | [n, ns, l, vs] =>
    some { name := hexStr n, ns := hexStr ns, genName := [], host := [], sub := [], labels := parseMap l, owners := [], vols := parseVols vs }
  | _ => none

def parseStep : String → Option Step
  | "C" => some .C | "U" => some .U | "D" => some .D | "S" => some .S | _ => none

def parseVerb : String → Verb
  | "get" => .get | "create" => .create | "update" => .update | "delete" => .delete | _ => .other

def parseRes : String → Res
  | "pvc" => .pvc | "pod" => .pod | _ => .other

def parseResult : String → Option Result
  | "ok" => some .ok | "exists" => some .exists | "notfound" => some .notfound | "internal" => some .internal
  | "timeout" => some .timeout | "conflict" => some .conflict | _ => none

def parseFault (t : String) : Option Fault :=
  match t.splitOn ":" with
  | [vb, rs, n, occ, k] =>
    match parseResult k, occ.toNat? with
    | some .ok, _ => none
    | some k, some o => some { verb := parseVerb vb, res := parseRes rs, name := hexStr n, occ := o, kind := k }
    | _, _ => none
  | _ => none

def parsePair (sep : String) (t : String) : Option (Str × Str) :=
  match t.splitOn sep with
  | [a, b] => some (hexStr a, hexStr b)
  | _ => none

def splitList (s sep : String) : List String := if s == "" then [] else s.splitOn sep

def markerLabel : Str := builtLabel

def parseCase (line : String) : Option Case :=
  match line.splitOn "|" with
  | [steps, set, sel, tmpls, ptmpl, ord, revs, cache, api, faults, pod, fresh] =>
    match steps.splitOn ".", set.splitOn ":", ptmpl.splitOn ":", revs.splitOn ":", ord.toInt? with
    | stepL, [name, ns, svc, uid], [ptl, ptv, pth, pts], [strat, ru, cr, curRev, updRev], some ordV =>
      let stepsV := stepL.filterMap parseStep
      if stepsV.length != stepL.length then none else
      let tm : List Tmpl := (splitList tmpls ";").filterMap fun t =>
        match t.splitOn ":" with
        | [n, l] => some { name := hexStr n, labels := parseMap l }
        | _ => none
      let base : SetV := {
        name := hexStr name, ns := hexStr ns, svc := hexStr svc, uid := hexStr uid
        sel := if sel == "!" then none else some (parseMap sel)
        tmpls := tm
        ptLabels := parseMap ptl, ptVols := parseVols ptv, ptHost := hexStr pth, ptSub := hexStr pts }
      let ruV : Option (Option Int) := if ru == "none" then none else if ru == "nil" then some none else some (some ru.toInt!)
      let rs : RevSel := { rolling := strat == "R", ru := ruV, curReplicas := cr.toInt!, curRev := hexStr curRev, updRev := hexStr updRev }
      let apiL := splitList api ","
      let claims := apiL.filterMap fun t => match t.splitOn ":" with | ["c", a, b] => some (hexStr a, hexStr b) | _ => none
      let pods := apiL.filterMap fun t => match t.splitOn ":" with | ["p", a, b] => some (hexStr a, hexStr b) | _ => none
      let w : World := {
        claims := claims, pods := pods, cache := (splitList cache ",").filterMap (parsePair "=")
        counts := [], faults := (splitList faults ",").filterMap parseFault
        fresh := if fresh == "" then none else parsePod fresh }
      some (mkCase stepsV base rs ordV w (if pod == "" then none else parsePod pod))
    | _, _, _, _, _ => none
  | _ => none

/-! printing -/

def showVerb : Verb → String
  | .get => "get" | .create => "create" | .update => "update" | .delete => "delete" | .other => "other"
def showRes : Res → String
  | .pvc => "pvc" | .pod => "pod" | .other => "other"
def showResult : Result → String
  | .ok => "ok" | .exists => "exists" | .notfound => "notfound" | .internal => "internal" | .timeout => "timeout" | .conflict => "conflict"
def showOut : Out → String
  | .ok => "ok" | .err => "err" | .panic => "panic" | .sync => "sync"

def dash (s : String) : String := if s == "" then "-" else s

def hexLe (a b : Str) : Bool := !(decide (hexEnc b < hexEnc a))

def showLabels (l : Labels) : String :=
  ";".intercalate ((l.mergeSort (fun a b => hexLe a.1 b.1)).map fun kv => hexEnc kv.1 ++ "=" ++ hexEnc kv.2)

def showEntry (e : Entry) : String :=
  let s := s!"{showVerb e.verb}:{showRes e.res}:{hexEnc e.ns}:{hexEnc e.name}:{showResult e.result}"
  match e.labels with
  | some l => s ++ ":" ++ showLabels l
  | none => s

/-- sort each contiguous run of claim entries by claim name (stable) -/
partial def sortRuns (log : List Entry) : List Entry :=
  match log with
  | [] => []
  | e :: rest =>
    if e.res == .pvc then
      let run := log.takeWhile (·.res == .pvc)
      let after := log.dropWhile (·.res == .pvc)
      run.mergeSort (fun a b => hexLe a.name b.name) ++ sortRuns after
    else e :: sortRuns rest

def showLog (log : List Entry) : String := dash (",".intercalate ((sortRuns log).map showEntry))

def optLabel (l : Labels) (k : Str) : String := match getL l k with | some v => hexEnc v | none => "~"

def tri : Option Bool → String | none => "n" | some true => "1" | some false => "0"
def b2s (b : Bool) : String := if b then "1" else "0"

def showOwner (o : OwnerRef) : String :=
  s!"{hexEnc o.kind}/{hexEnc o.name}/{hexEnc o.uid}/{tri o.controller}/{tri o.block}/{hexEnc o.apiVersion}"

def showVol (x : Vol) : String :=
  hexEnc x.name ++ "=" ++ (match x.claim with | some c => "p" ++ hexEnc c | none => "e")

def showPod (k : Nat) (v : SetV) (p : Pod) : String :=
  let vols := p.vols.mergeSort (fun a b => hexLe a.name b.name)
  let pr := parseName p.name
  let built := match getL p.labels markerLabel with | some b => String.ofList b | none => "~"
  s!" {k}.name={hexEnc p.name} {k}.ns={hexEnc p.ns} {k}.host={hexEnc p.host} {k}.sub={hexEnc p.sub}" ++
  s!" {k}.lpod={optLabel p.labels podNameLabel} {k}.lrev={optLabel p.labels revLabel} {k}.built={built}" ++
  s!" {k}.own={dash (";".intercalate (p.owners.map showOwner))} {k}.vols={dash (",".intercalate (vols.map showVol))}" ++
  s!" {k}.parse={hexEnc pr.1}/{pr.2} {k}.idm={b2s (identityMatches v p)} {k}.stm={b2s (storageMatches v p)}"

def showSteps (v : SetV) : Nat → List StepObs → List String
  | _, [] => []
  | k, o :: rest =>
    let head := s!"{k}.out={showOut o.out}"
    let body :=
      if o.out == .panic || o.step == .S then head
      else
        head ++ s!" {k}.log={showLog o.log}" ++ (match o.pod with | some p => showPod k v p | none => "")
    body :: showSteps v (k + 1) rest

/-! reading the implementation's observation back -/

def parseEntry (t : String) : Option Entry :=
  match t.splitOn ":" with
  | [vb, rs, ns, n, r] =>
    (parseResult r).map fun r => { verb := parseVerb vb, res := parseRes rs, ns := hexStr ns, name := hexStr n, result := r, labels := none }
  | [vb, rs, ns, n, r, l] =>
    (parseResult r).map fun r =>
      { verb := parseVerb vb, res := parseRes rs, ns := hexStr ns, name := hexStr n, result := r,
        labels := some ((splitList l ";").filterMap (parsePair "=")) }
  | _ => none

def parseLog (s : String) : List Entry :=
  if s == "-" || s == "" then [] else (s.splitOn ",").filterMap parseEntry

def parseTri : String → Option Bool | "1" => some true | "0" => some false | _ => none

def parseOwner (t : String) : Option OwnerRef :=
  match t.splitOn "/" with
  | [k, n, u, c, b, a] => some { kind := hexStr k, name := hexStr n, uid := hexStr u, controller := parseTri c, block := parseTri b, apiVersion := hexStr a }
  | _ => none

def parseOut : String → Out
  | "ok" => .ok | "err" => .err | "panic" => .panic | _ => .sync

def optTok (obs key : String) (k : Str) : Labels :=
  match field obs key with
  | some "~" => []
  | some v => [(k, hexStr v)]
  | none => []

def obsPod (obs : String) (k : Nat) : Option Pod :=
  match field obs s!"{k}.name" with
  | none => none
  | some n =>
    let built : Labels := match field obs s!"{k}.built" with | some "~" => [] | some b => [(markerLabel, b.toList)] | none => []
    let own := fieldD obs s!"{k}.own"
    some {
      name := hexStr n, ns := hexStr (fieldD obs s!"{k}.ns"), genName := []
      host := hexStr (fieldD obs s!"{k}.host"), sub := hexStr (fieldD obs s!"{k}.sub")
      labels := optTok obs s!"{k}.lpod" podNameLabel ++ optTok obs s!"{k}.lrev" revLabel ++ built
      owners := if own == "-" then [] else (own.splitOn ";").filterMap parseOwner
      vols := parseVols (fieldD obs s!"{k}.vols") }

def obsSteps (obs : String) : Nat → List Step → List StepObs
  | _, [] => []
  | k, st :: rest =>
    match field obs s!"{k}.out" with
    | none => []
    | some o =>
      { step := st, out := parseOut o, log := parseLog (fieldD obs s!"{k}.log"), pod := obsPod obs k } :: obsSteps obs (k + 1) rest

def stepTag (o : StepObs) : String :=
  match o.step with
  | .S => ""
  | .D => "D"
  | .C =>
    if o.out == .panic then "C.panic"
    else if o.log.any Spec.claimFailure then "C.claimerr"
    else if o.out == .err then "C.poderr"
    else if o.log.any Spec.isClaimCreate then "C.created"
    else if o.log.isEmpty then "C.noclaims" else if o.log.length == 1 then "C.noclaims" else "C.cached"
  | .U =>
    if o.out == .panic then "U.panic"
    else if o.log.any (·.result == .conflict) then "U.conflict"
    else if o.out == .err then "U.err"
    else if o.log.isEmpty then "U.noop" else "U.write"

def tagOf (c : Case) (steps : List StepObs) : String :=
  let t := "+".intercalate ((steps.map stepTag).filter (· != ""))
  if Spec.inDomain c.ord then t else "x:" ++ t

end PC

def stepPodControl (cas obs : String) : String :=
  match PC.parseCase cas with
  | none => "bad-case\tok\tbad"
  | some c =>
    match run c with
    | none => "bad-case\tok\tbad"
    | some steps =>
      let model := " ".intercalate (PC.showSteps c.base 1 steps)
      let obs' := match obs.splitOn " site=" with | o :: _ => o | [] => obs
      let implSteps := PC.obsSteps obs' 1 c.steps
      -- a panic anywhere in the pod control / pod construction (the harness recovers it and says so)
      -- (a set without a selector panics in the model too: the CRD requires the selector, such a set is not admitted)
      let crashed := (obs'.startsWith "harness-panic" || (obs'.splitOn "out=panic").length > 1) && (model.splitOn "out=panic").length ≤ 1
      s!"{model}\t{verdict ((Spec.clauses c.base c.rs c.ord implSteps) ++ [("C15.nopanic", !crashed)])}\t{PC.tagOf c steps}"

end Asts.Driver
