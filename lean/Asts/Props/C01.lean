import Asts.Proofs.Desired
import Asts.Proofs.L1_a_Final

/-! # C01 — desired ordinals = the first `replicas` non-negative integers not in delete-slots

Property theorems only; the lemmas live in `Asts/Proofs`. `podOrdinals`, `maxReplicaAndSlots`, `maxOrd`, `minOrd`
are the model of `client/apis/apps/v1/helper/helper.go`, tied to the Go code by the `ordinals` engine; `desired` is the
specification the monitors evaluate; `IsDesired` is its `Prop` reading. -/
namespace Asts.C01

/-- For every `r ≥ 0` and every slot list (whatever the annotation parsed to), the helper's ordinal set has exactly
    `r` members, contains no slot and no negative number, is strictly increasing and is downward closed among
    non-slots (each member is the least free non-negative integer not already taken). -/
theorem helper_meets_spec (r : Int) (S : List Int) (hr : 0 ≤ r) : IsDesired r.toNat S (podOrdinals r S) :=
  helper_isDesired r S hr

/-- The specification determines the set: any two lists meeting it are equal. -/
theorem spec_unique {r : Nat} {S O₁ O₂ : List Int} (h₁ : IsDesired r S O₁) (h₂ : IsDesired r S O₂) : O₁ = O₂ :=
  isDesired_unique h₁ h₂

/-- The executable specification used by every monitor meets the specification. -/
theorem desired_meets_spec (r : Int) (S : List Int) : IsDesired r.toNat S (desired r S) :=
  desired_isDesired r S

/-- The helper agrees with the executable specification, for all `r ≥ 0` and all slot lists
    (duplicates, negatives, int32 extremes, below / inside / above the range). -/
theorem helper_eq_desired (r : Int) (S : List Int) (hr : 0 ≤ r) : podOrdinals r S = desired r S :=
  podOrdinals_eq_desired r S hr

/-- Cardinality, spelled out. -/
theorem card (r : Int) (S : List Int) (hr : 0 ≤ r) : (podOrdinals r S).length = r.toNat :=
  (helper_isDesired r S hr).len

/-- No member is a delete slot, spelled out. -/
theorem no_slot (r : Int) (S : List Int) (hr : 0 ≤ r) : ∀ o ∈ podOrdinals r S, o ∉ S :=
  (helper_isDesired r S hr).noSlot

/-- non-vacuity: a concrete instance with slots below, inside and above the range, a duplicate and a negative -/
example : podOrdinals 3 [1, 7, 1, -4, 0] = [2, 3, 4] ∧ desired 3 [1, 7, 1, -4, 0] = [2, 3, 4] := by decide

end Asts.C01

/-! # C01 clause (d) — the controller creates pods at exactly the desired ordinals and nowhere else

To be merged into `Props/C01.lean`. No hypothesis on the spec, the snapshot or the fault plan is needed for "nowhere else";
"exactly" is an equality on the empty cluster under the Parallel policy. -/
namespace Asts.C01d

/-- **C01 (d)**: the monitor is true on the model's output for EVERY spec, pod list and fault plan. -/
theorem C01creates_holds (v : SetView) (cur upd : String) (pods : List Pod) (f : Faults) :
    C01creates v (observe (updateStatefulSet v cur upd pods f).1.acts) = true :=
  C01creates_holds_gen v cur upd pods f

/-- The same in the shape used by the other headline theorems (`replicasOf v = r`). -/
theorem C01creates_holds_r (v : SetView) (cur upd : String) (pods : List Pod) (f : Faults) (r : Int)
    (hr : v.replicas = some r) {o : Int} {rev : String}
    (h : Action.create o rev ∈ (updateStatefulSet v cur upd pods f).1.acts) : o ∈ desired r v.slots := by
  have := creates_only_desired_prop v cur upd pods f h
  simpa [replicasOf, hr] using this

/-- `Prop` reading: every create action of the model is at a desired ordinal. -/
theorem creates_only_desired (v : SetView) (cur upd : String) (pods : List Pod) (f : Faults) {o : Int} {rev : String}
    (h : Action.create o rev ∈ (updateStatefulSet v cur upd pods f).1.acts) : o ∈ desired (replicasOf v) v.slots :=
  creates_only_desired_prop v cur upd pods f h

/-- **Exactly**: on an empty cluster, Parallel policy, no fault, set not being deleted, the created ordinals are the
    desired set, in ascending order — for every replica count and slot list (no int32 bound: the first-unhealthy scan was
    repaired, see C15). -/
theorem empty_cluster_exact (v : SetView) (cur upd : String) (r : Int) (hr : v.replicas = some r)
    (hpar : v.parallel = true) (hdel : v.deleting = false) :
    createOrds (observe (updateStatefulSet v cur upd [] []).1.acts) = desired r v.slots :=
  C01d_exact_gen v cur upd [] r hr hpar hdel (by intro o; rfl)

/-- The same for any fault plan that does not fail a create. -/
theorem empty_cluster_exact_faults (v : SetView) (cur upd : String) (f : Faults) (r : Int) (hr : v.replicas = some r)
    (hpar : v.parallel = true) (hdel : v.deleting = false) (hf : ∀ o, f.hit 0 o = false) :
    createOrds (observe (updateStatefulSet v cur upd [] f).1.acts) = desired r v.slots :=
  C01d_exact_gen v cur upd f r hr hpar hdel hf

/-! non-vacuity -/
private def exV : SetView :=
  { replicas := some 3
    slots := [1, 7, 1, -4, 0]
    parallel := true
    strat := .rolling
    ru := none
    deleting := false
    generation := 1
    stCurrentReplicas := 0 }

example : exV.replicas = some 3 ∧ exV.parallel = true ∧ exV.deleting = false := by decide
example : createOrds (observe (updateStatefulSet exV "a" "b" [] []).1.acts) = [2, 3, 4] := by decide

end Asts.C01d
