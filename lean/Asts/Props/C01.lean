import Asts.Proofs.Desired

/-! # C01 — desired ordinals = the first `replicas` non-negative integers not in delete-slots

Property theorems only; the lemmas live in `Asts/Proofs`. `podOrdinals`, `maxReplicaAndSlots`, `maxOrd`, `minOrd`
are the model of `client/apis/apps/v1/helper/helper.go`, tied to the Go code by the `ordinals` engine; `desired` is the
specification the monitors evaluate; `IsDesired` is its `Prop` reading. -/
namespace Asts.C01

/-- For every `r ≥ 0` and every slot list (whatever the annotation parsed to), the helper's ordinal set has exactly
    `r` members, contains no slot and no negative number, is strictly increasing and is downward closed among
    non-slots (each member is the least free non-negative integer not already taken). -/
theorem helper_meets_spec (r : Int) (S : List Int) (hr : 0 ≤ r) : IsDesired r.toNat S (podOrdinals r S) :=
  helper_isDesired r S hr

/-- The specification determines the set: any two lists meeting it are equal. -/
theorem spec_unique {r : Nat} {S O₁ O₂ : List Int} (h₁ : IsDesired r S O₁) (h₂ : IsDesired r S O₂) : O₁ = O₂ :=
  isDesired_unique h₁ h₂

/-- The executable specification used by every monitor meets the specification. -/
theorem desired_meets_spec (r : Int) (S : List Int) : IsDesired r.toNat S (desired r S) :=
  desired_isDesired r S

/-- The helper agrees with the executable specification, for all `r ≥ 0` and all slot lists
    (duplicates, negatives, int32 extremes, below / inside / above the range). -/
theorem helper_eq_desired (r : Int) (S : List Int) (hr : 0 ≤ r) : podOrdinals r S = desired r S :=
  podOrdinals_eq_desired r S hr

/-- Cardinality, spelled out. -/
theorem card (r : Int) (S : List Int) (hr : 0 ≤ r) : (podOrdinals r S).length = r.toNat :=
  (helper_isDesired r S hr).len

/-- No member is a delete slot, spelled out. -/
theorem no_slot (r : Int) (S : List Int) (hr : 0 ≤ r) : ∀ o ∈ podOrdinals r S, o ∉ S :=
  (helper_isDesired r S hr).noSlot

/-- non-vacuity: a concrete instance with slots below, inside and above the range, a duplicate and a negative -/
example : podOrdinals 3 [1, 7, 1, -4, 0] = [2, 3, 4] ∧ desired 3 [1, 7, 1, -4, 0] = [2, 3, 4] := by decide

end Asts.C01
