import Asts.Proofs.L1_a_Final

/-! # C03 — only pods that must go are ever deleted; scale-in at slot k removes only pod k

Property theorems only; the lemmas live in `Asts/Proofs/L1_a_*.lean`. All theorems hold for every spec (replicas absent,
negative, any slot list), every pod list (no `wfSnapshot`: duplicate ordinals, unparsable names and phase-less pods
included) and every fault plan. The only hypothesis of the headline is `IdsOk pods`: the identities by which a recorded
delete names its pod are pairwise distinct and below `freshId` (the harness numbers pods by position) — without it the
monitor cannot tell which pod a delete was given. The code treats every strategy other than `OnDelete` as RollingUpdate,
and a negative partition as 0; so do the theorems. -/
namespace Asts.C03

/-- **C03**: the monitor is true on the model's output for every spec, snapshot and fault plan. -/
theorem C03_holds (v : SetView) (cur upd : String) (pods : List Pod) (f : Faults) (hids : IdsOk pods) :
    C03 v upd pods (observe (updateStatefulSet v cur upd pods f).1.acts)
      ((updateStatefulSet v cur upd pods f).2 == .ok) = true :=
  C03_holds_gen v cur upd pods f hids

/-- C03 under exactly the preconditions of the run-time monitor: pod ids are positions, fewer than `freshId` pods. -/
theorem C03_holds_monitor (v : SetView) (cur upd : String) (pods : List Pod) (f : Faults)
    (hpos : pods.map Pod.id = List.range pods.length) (hlen : pods.length ≤ freshId) :
    C03 v upd pods (observe (updateStatefulSet v cur upd pods f).1.acts)
      ((updateStatefulSet v cur upd pods f).2 == .ok) = true :=
  Asts.C03_holds_monitor v cur upd pods f hpos hlen

/-- `Prop` reading on the model's own action list (delete reason visible), no hypothesis: every delete targets
    (a) a pod of the snapshot outside the desired set, (b) a Failed/Succeeded pod of the snapshot, (c) strategy ≠ OnDelete,
    a non-terminating pod of the snapshot at or above the partition whose revision is not the update revision — or the
    object this same reconcile created at that ordinal with a revision other than the update revision. -/
theorem C03_prop (v : SetView) (cur upd : String) (pods : List Pod) (f : Faults) {o : Int} {id : Nat} {why : Why}
    (h : Action.delete o id why ∈ (updateStatefulSet v cur upd pods f).1.acts) :
    (∃ p ∈ pods, p.id = id ∧ p.ord = o ∧
        ((why = .scaleDown ∧ o ∉ desired (replicasOf v) v.slots) ∨
         (why = .replaceFailed ∧ (p.failed = true ∨ p.succeeded = true)) ∨
         (why = .update ∧ v.strat ≠ .onDelete ∧ partOf v ≤ o ∧ p.rev ≠ upd ∧ p.terminating = false))) ∨
    (why = .update ∧ id = freshId + o.toNat ∧ v.strat ≠ .onDelete ∧ partOf v ≤ o ∧
        ∃ rev, rev ≠ upd ∧ Action.create o rev ∈ (updateStatefulSet v cur upd pods f).1.acts) :=
  C03_reading v cur upd pods f h

/-- Clause (b), "that it immediately replaces": the action after the deletion of a Failed/Succeeded pod is the create at
    the same ordinal — or the deletion is the last action and the reconcile did not end ok. -/
theorem replace_is_immediate (v : SetView) (cur upd : String) (pods : List Pod) (f : Faults) {pre post : List Action}
    {o : Int} {id : Nat}
    (h : (updateStatefulSet v cur upd pods f).1.acts = pre ++ .delete o id .replaceFailed :: post) :
    (∃ rev post', post = .create o rev :: post') ∨ (post = [] ∧ (updateStatefulSet v cur upd pods f).2 ≠ .ok) :=
  replace_followed v cur upd pods f h

/-- **A live pod of the desired set that is up to date is never deleted, whatever else is going on.** -/
theorem live_uptodate_never_deleted (v : SetView) (cur upd : String) (pods : List Pod) (f : Faults) (hids : IdsOk pods)
    {p : Pod} (hp : p ∈ pods) (hD : p.ord ∈ desired (replicasOf v) v.slots)
    (hlive : p.failed = false ∧ p.succeeded = false)
    (hup : p.rev = upd ∨ v.strat = .onDelete ∨ p.ord < partOf v) (o : Int) (why : Why) :
    Action.delete o p.id why ∉ (updateStatefulSet v cur upd pods f).1.acts :=
  Asts.live_uptodate_never_deleted v cur upd pods f hids hp hD hlive hup o why

/-- **slot_k_only**: every ordinal of `desired r S` holds exactly one pod — healthy, at the update revision, identity and
    storage in order — there are no other pods, and `k` is one of these ordinals. Reconciling the spec with slots `k :: S`
    and replicas `r - 1` (the desired set becomes `(desired r S).erase k`, see `slot_k_desired`) yields exactly
    `[delete k]`, given the pod at `k` — under both policies (`v.parallel` is free), every strategy and every fault plan;
    the reconcile ends ok unless that very delete is made to fail. -/
theorem slot_k_only (v : SetView) (cur upd : String) (pods : List Pod) (f : Faults) (r k : Int) (S : List Int)
    (hr : v.replicas = some (r - 1)) (h1 : 1 ≤ r) (hs : v.slots = k :: S) (hk : k ∈ desired r S)
    (hdel : v.deleting = false) (hperm : (pods.map Pod.ord).Perm (desired r S))
    (hgood : ∀ p ∈ pods, p.healthy = true ∧ p.rev = upd ∧ p.idOk = true ∧ p.stOk = true) (hids : IdsOk pods) :
    ∃ pk ∈ pods, pk.ord = k ∧
      observe (updateStatefulSet v cur upd pods f).1.acts = [.delete k (some pk.id)] ∧
      (f.hit 1 k = false → (updateStatefulSet v cur upd pods f).2 = .ok) :=
  slot_k_only_observed v cur upd pods f r k S hr h1 hs hk hdel hperm hgood hids

/-- Listing a desired ordinal and decrementing replicas removes exactly that ordinal from the desired set. -/
theorem slot_k_desired (r : Int) (S : List Int) (k : Int) (h1 : 1 ≤ r) (hk : k ∈ desired r S) :
    desired (r - 1) (k :: S) = (desired r S).erase k :=
  desired_cons_erase r S k h1 hk

/-- `slot_k_only` on the model's action list, in its general form: `k ≥ 0` is a listed slot (wherever it lies: inside
    the range or beyond it) and the pods are exactly one per ordinal of `desired ∪ {k}`. -/
theorem slot_k_only_general (v : SetView) (cur upd : String) (pods : List Pod) (f : Faults) (r' k : Int)
    (hr : v.replicas = some r') (h0 : 0 ≤ r') (hk : k ∈ v.slots) (hk0 : 0 ≤ k) (hdel : v.deleting = false)
    (hperm : (pods.map Pod.ord).Perm (k :: desired r' v.slots))
    (hgood : ∀ p ∈ pods, p.healthy = true ∧ p.rev = upd ∧ p.idOk = true ∧ p.stOk = true) :
    ∃ pk ∈ pods, pk.ord = k ∧
      (updateStatefulSet v cur upd pods f).1.acts = [.delete k pk.id .scaleDown] ∧
      (f.hit 1 k = false → (updateStatefulSet v cur upd pods f).2 = .ok) :=
  slot_k_only_gen v cur upd pods f r' k hr h0 hk hk0 hdel hperm hgood

/-! non-vacuity of `C03_holds`: one delete of each kind in a single reconcile (replace 0, scale-in 1, update 3) -/
private def exV : SetView :=
  { replicas := some 3
    slots := [1]
    parallel := true
    strat := .rolling
    ru := some (some 0)
    deleting := false
    generation := 1
    stCurrentReplicas := 0 }
private def exPods : List Pod := [
  { id := 0, ord := 0, phase := .failed, ready := false, terminating := false, rev := "b", idOk := true, stOk := true },
  { id := 1, ord := 1, phase := .running, ready := true, terminating := false, rev := "b", idOk := true, stOk := true },
  { id := 2, ord := 3, phase := .running, ready := true, terminating := false, rev := "a", idOk := true, stOk := true }]

example : IdsOk exPods := idsOk_of_positions (by decide) (by decide)
example : (updateStatefulSet exV "a" "b" exPods []).1.acts =
    [.delete 0 0 .replaceFailed, .create 0 "b", .create 2 "b", .delete 1 1 .scaleDown, .delete 3 2 .update] := by decide

/-! non-vacuity of `slot_k_only`: r = 3, S = [], k = 1; pods 0,1,2 healthy at "b"; spec now has replicas 2, slots [1] -/
private def exV2 : SetView := { exV with replicas := some (3 - 1), slots := 1 :: [], parallel := false }
private def exPods2 : List Pod := [
  { id := 0, ord := 2, phase := .running, ready := true, terminating := false, rev := "b", idOk := true, stOk := true },
  { id := 1, ord := 0, phase := .running, ready := true, terminating := false, rev := "b", idOk := true, stOk := true },
  { id := 2, ord := 1, phase := .running, ready := true, terminating := false, rev := "b", idOk := true, stOk := true }]

example : exV2.replicas = some (3 - 1) ∧ exV2.slots = 1 :: [] ∧ (1 : Int) ∈ desired 3 [] ∧ exV2.deleting = false ∧
    (exPods2.map Pod.ord).Perm (desired 3 []) ∧
    (∀ p ∈ exPods2, p.healthy = true ∧ p.rev = "b" ∧ p.idOk = true ∧ p.stOk = true) := by decide
example : observe (updateStatefulSet exV2 "a" "b" exPods2 []).1.acts = [.delete 1 (some 2)] := by decide

end Asts.C03
