import Asts.Spec.Reconcile

/-! # C03 — property theorems (under construction) -/
namespace Asts.C03

end Asts.C03
