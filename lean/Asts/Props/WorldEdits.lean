import Asts.Proofs.WE_Edits
import Asts.Proofs.WE_Pause
import Asts.Proofs.WE_History
import Asts.Proofs.WE_Monitor
import Asts.Proofs.WE_Traj
import Asts.Props.C08
import Asts.Props.C02

/-! # Histories in which the user edits the set (engine `worldedit`): C08 / C11 / C02 read on `applyEdit` and `runHistory`

Property theorems only; lemmas live in `Asts/Proofs/WE_*.lean`. `applyEdit` / `runHistory` (`Model/WorldEdits.lean`) are tied to
the Go code by the `worldedit` engine (the observation carries, for every round with edits, what the set in the API looks like
after them); `round`, `settle`, `runRounds` are the round semantics of `Model/World.lean`, `syncF` the model of one sync.

Hypotheses that appear: `ViewInStep` (the world's copy of `status.currentReplicas` is the stored one — true of every world a case
describes and of every world a round leaves) and distinct pod names (API objects of one namespace); both only for the
statements that identify a world with its settled form. -/
namespace Asts.WorldEdits
open Asts Asts.WE Asts.C02p

/-! ## (b) C08: scaling edits cannot change the update revision -/

/-- no edit touches anything but the set's spec and annotations: revisions, pods, stored status, collision count, identity
    of the set are as before -/
theorem edit_frame (e : Edit) (i : SyncIn) :
    (applyEdit e i).store = i.store ∧ (applyEdit e i).pods = i.pods ∧ (applyEdit e i).stored = i.stored ∧
    (applyEdit e i).collisionCount = i.collisionCount ∧ (applyEdit e i).fresh = i.fresh ∧
    (applyEdit e i).view.deleting = i.view.deleting ∧ (applyEdit e i).setName = i.setName ∧
    (applyEdit e i).selectorOk = i.selectorOk ∧ (applyEdit e i).historyLimit = i.historyLimit :=
  applyEdit_frame e i

/-- an edit of replicas, delete-slots, the pause annotation, other metadata (or the partition) does not change the template -/
theorem edit_keeps_template (e : Edit) (i : SyncIn) (he : keepsTemplate e = true) : (applyEdit e i).template = i.template :=
  applyEdit_template e i he

/-- … hence leaves everything the resolution of revisions reads (C08's `SameRevisionInputs`) as it is; so does a whole batch
    of such edits, and the `settle` that starts the round -/
theorem edits_keep_revision_inputs (es : List Edit) (i : SyncIn) (hes : ∀ e ∈ es, keepsTemplate e = true) :
    SYb.SameRevisionInputs (settle i) (settle (applyEdits es i)) :=
  settle_sameInputs (applyEdits_sameInputs es i hes)

/-- **C08, no restart**: the sync of the round that follows a batch of replicas / delete-slots / pause / metadata edits
    resolves, when it runs and succeeds, the very update revision the sync of the unedited world resolves (and reports it in
    the status): a scaling edit cannot start a rolling restart. For every hashing, store, pod list and fault plan. -/
theorem scaling_edits_keep_update_revision (h : Hashing) (i : SyncIn) (es : List Edit) (plan : List Fault)
    (hes : ∀ e ∈ es, scalingOnly e = true)
    (hrun : ((settle i).paused || !(settle i).selectorOk) = false)
    (hrun' : ((settle (applyEdits es i)).paused || !(settle (applyEdits es i)).selectorOk) = false)
    (hok : (syncF h (settle i) plan).outcome = .ok) (hok' : (syncF h (settle (applyEdits es i)) plan).outcome = .ok) :
    (syncF h (settle (applyEdits es i)) plan).upd = (syncF h (settle i) plan).upd ∧
    SYb.reportedUpd (settle (applyEdits es i)) (syncF h (settle (applyEdits es i)) plan) =
      SYb.reportedUpd (settle i) (syncF h (settle i) plan) :=
  SYb.scaling_same_update_revision h (settle i) (settle (applyEdits es i)) plan
    (settle_sameInputs (applyEdits_sameInputs es i (fun e he => scalingOnly_keepsTemplate (hes e he)))) hrun hrun' hok hok'

/-- the template edit is the one that reaches the revision resolution: the world records the new template -/
theorem template_edit_sets_template (t : String) (i : SyncIn) : (applyEdit (.template t) i).template = t :=
  applyEdit_template_edit t i

/-- **C08, revert**: the sync of the round that follows an edit of the template to `t`, when some revision the set lists equals
    the fresh revision of `t` (`EqualRevision`: same data, hash labels not contradicting), creates no revision whatever else
    happens; and when it runs and succeeds, the revision it reports records `t`, is stored under that name with a number no
    listed revision exceeds — it is a listed revision itself or a listed one renumbered to `nextRevision` — and every other
    stored revision is as adoption left it -/
theorem revert_reuses_and_renumbers (h : Hashing) (i : SyncIn) (t : String) (plan : List Fault) (r0 : Rev)
    (hr : r0 ∈ SYb.syncListing plan (settle (applyEdit (.template t) i)))
    (heq : equalRev r0 (SYb.freshOf h t ((settle (applyEdit (.template t) i)).collisionCount.getD 0)
      (SYb.syncListing plan (settle (applyEdit (.template t) i)))) = true) :
    (syncF h (settle (applyEdit (.template t) i)) plan).log.filter (SYb.pre "create:rev:") = [] ∧
    (((settle (applyEdit (.template t) i)).paused || !(settle (applyEdit (.template t) i)).selectorOk) = false →
     (syncF h (settle (applyEdit (.template t) i)) plan).outcome = .ok →
     ∃ u ∈ (syncF h (settle (applyEdit (.template t) i)) plan).store,
       u.name = (syncF h (settle (applyEdit (.template t) i)) plan).upd ∧ u.data = t ∧
       (∀ r ∈ SYb.syncListing plan (settle (applyEdit (.template t) i)), r.number ≤ u.number) ∧
       (u ∈ SYb.syncListing plan (settle (applyEdit (.template t) i)) ∨
         (u.number = nextRevision (SYb.syncListing plan (settle (applyEdit (.template t) i))) ∧
          ∃ e ∈ SYb.syncListing plan (settle (applyEdit (.template t) i)), e.name = u.name ∧ e.data = t))) := by
  have ht : (settle (applyEdit (.template t) i)).template = t := applyEdit_template_edit t i
  refine ⟨?_, ?_⟩
  · apply Asts.C08.sync_equal_revision_no_create h _ plan r0 hr
    rw [ht]; exact heq
  · intro hrun hok
    obtain ⟨u, hu, a, b, c, d, _⟩ := Asts.C08.sync_revert_renumbered_above_all h _ plan hrun hok r0 hr (by rw [ht]; exact heq)
    rw [ht] at b d
    exact ⟨u, hu, a, b, c, d⟩

/-! ## (a) C11: a pause interval is lossless -/

/-- a round of a paused world is the environment's `settle` and nothing else: no write, success, revisions and status as
    they were, and the world afterwards is the settled world -/
theorem paused_round_only_settles (h : Hashing) (i : SyncIn) (plan : List Fault) (hp : i.paused = true)
    (hv : ViewInStep i) (hn : (i.pods.map (·.name)).Nodup) :
    (round h i plan).1 = settle i ∧ (round h i plan).2.writes = 0 ∧ (round h i plan).2.out = "ok" ∧
    (round h i plan).2.revs = i.store ∧ (round h i plan).2.status = i.stored :=
  paused_round_is_settle h i plan hp hv hn

/-- every round of a pause — the first one under any fault plan — is silent and shows the revisions and the status of the
    world that was paused -/
theorem pause_rounds_silent (h : Hashing) (plan p : List Fault) (i : SyncIn) (hv : ViewInStep i)
    (hn : (i.pods.map (·.name)).Nodup) (n : Nat) :
    (round h (pausedFor h plan n i) p).2.writes = 0 ∧ (round h (pausedFor h plan n i) p).2.out = "ok" ∧
    (round h (pausedFor h plan n i) p).2.revs = i.store ∧ (round h (pausedFor h plan n i) p).2.status = i.stored :=
  pausedFor_round_silent h plan i hv hn n p

/-- however long the pause, the world it leaves is the settled world with the flag up -/
theorem pause_world (h : Hashing) (plan : List Fault) (i : SyncIn) (hv : ViewInStep i) (hn : (i.pods.map (·.name)).Nodup)
    (n : Nat) : pausedFor h plan (n + 1) i = settle (applyEdit (.pause true) i) :=
  pausedFor_eq h plan i hv hn n

/-- **C11, lossless (one round)**: the round that follows the un-pause, after `n + 1` rounds of pause, is the round the world
    would have run had it never been paused — the same observation (outcome, writes, pods, revisions, status) and the same
    next world -/
theorem unpause_resumes (h : Hashing) (plan p : List Fault) (i : SyncIn) (hv : ViewInStep i)
    (hn : (i.pods.map (·.name)).Nodup) (n : Nat) :
    round h (applyEdit (.pause false) (pausedFor h plan (n + 1) i)) p = round h (applyEdit (.pause false) i) p :=
  unpause_round_eq h plan p i hv hn n

/-- **C11, lossless (the run)**: `m + 1` rounds after the un-pause the world is the world `m + 1` rounds of the never-paused
    run reach; in particular it converges to the same `Final` state, in the same number of rounds counted from the un-pause -/
theorem pause_interval_lossless (h : Hashing) (plan : List Fault) (i : SyncIn) (hnp : i.paused = false) (hv : ViewInStep i)
    (hn : (i.pods.map (·.name)).Nodup) (n m : Nat) :
    roundsN h (m + 1) (applyEdit (.pause false) (pausedFor h plan (n + 1) i)) = roundsN h (m + 1) i := by
  have hi : applyEdit (.pause false) i = i := by
    show ({ i with paused := false } : SyncIn) = i
    rw [← hnp]
  show roundsN h m (round h (applyEdit (.pause false) (pausedFor h plan (n + 1) i)) []).1 = roundsN h m (round h i []).1
  rw [unpause_round_eq h plan [] i hv hn n, hi]

theorem pause_interval_same_final (h : Hashing) (plan : List Fault) (i : SyncIn) (hnp : i.paused = false) (hv : ViewInStep i)
    (hn : (i.pods.map (·.name)).Nodup) (n m : Nat) (hf : Final h (roundsN h (m + 1) i)) :
    Final h (roundsN h (m + 1) (applyEdit (.pause false) (pausedFor h plan (n + 1) i))) := by
  rw [pause_interval_lossless h plan i hnp hv hn n m]; exact hf

/-! ### the pause interval on whole histories

`histRoundAt h script 1 plan i n` is round `n + 1` of the history of `script` that never stops; `runHistory` (which stops after
two silent rounds) is a prefix of it. `pauseScript a d` pauses before round `a + 2` and un-pauses before round `a + d + 3`:
exactly the scripts the monitor `C11lossless` judges. -/

/-- `runHistory` is a prefix of the never-stopping history: its `n`-th round, when it has one, is `histRoundAt … n` -/
theorem history_is_prefix_of_trajectory (h : Hashing) (script : Script) (fuel : Nat) (i : SyncIn) (plan : List Fault) (n : Nat)
    (hr : HistRound) (hg : (runHistory h script fuel 1 0 i plan)[n]? = some hr) : hr = histRoundAt h script 1 plan i n :=
  runHistory_get h script fuel 1 0 i plan n hr hg

theorem pauseScript_is_interval (a d : Nat) : pauseInterval (pauseScript a d) = some (a + 2, a + d + 3) :=
  pauseScript_interval a d

/-- **C11, lossless, on whole histories**: a history with one pause interval IS the never-paused history with `d + 1` idle
    rounds spliced in — (1) up to the pause its worlds are those of the never-paused run; (2) every round of the pause is
    silent and shows the revisions and the status the never-paused run had at that point; (3) from the un-pause on, round for
    round, the observation (outcome, writes, pods, revisions, status) and the next world are those of the never-paused run
    from the round in which the pause began. Hence the same final state, reached after the same number of working rounds.
    Hypotheses: the set is not paused to begin with; pod names are distinct in the world the pause finds. -/
theorem pause_interval_trajectory (h : Hashing) (plan : List Fault) (i : SyncIn) (a d : Nat) (hnp : i.paused = false)
    (hn : ((worldFrom h [] 1 plan i (a + 1)).pods.map (·.name)).Nodup) :
    (∀ n, n ≤ a + 1 → worldFrom h (pauseScript a d) 1 plan i n = worldFrom h [] 1 plan i n) ∧
    (∀ k, k ≤ d →
      (histRoundAt h (pauseScript a d) 1 plan i (a + 1 + k)).obs.writes = 0 ∧
      (histRoundAt h (pauseScript a d) 1 plan i (a + 1 + k)).obs.out = "ok" ∧
      (histRoundAt h (pauseScript a d) 1 plan i (a + 1 + k)).obs.revs = (worldFrom h [] 1 plan i (a + 1)).store ∧
      (histRoundAt h (pauseScript a d) 1 plan i (a + 1 + k)).obs.status = (worldFrom h [] 1 plan i (a + 1)).stored) ∧
    (∀ m, (histRoundAt h (pauseScript a d) 1 plan i (a + d + 2 + m)).obs = (histRoundAt h [] 1 plan i (a + 1 + m)).obs ∧
          worldFrom h (pauseScript a d) 1 plan i (a + d + 2 + m + 1) = worldFrom h [] 1 plan i (a + 1 + m + 1)) :=
  ⟨pause_before h plan i a d, fun k hk => pause_rounds h plan i a d hn k hk, pause_after h plan i a d hnp hn⟩

/-- **C11.pausedsilent, the monitor, is true on the model** — for every hashing, script, budget, initial world and fault
    plan: `observeHist` is what the driver prints of a history (the edits, the spec state after them, the round
    observation); the predicate is the one the driver evaluates on the real code's observation -/
theorem C11_pausedsilent_monitor_true_on_model (h : Hashing) (script : Script) (fuel : Nat) (i : SyncIn) (plan : List Fault) :
    C11pausedSilent i (observeHist (runHistory h script fuel 1 0 i plan)) = true :=
  C11pausedSilent_model h script fuel i plan

/-! ## (c) C02: convergence from the world the last edit produced -/

/-- once the script is exhausted a history is a plain run: the observations of `runHistory` from a round after the last
    edit are those of `runRounds` -/
theorem history_after_script (h : Hashing) (script : Script) (fuel j silent : Nat) (i : SyncIn) (plan : List Fault)
    (hs : ∀ e ∈ script, e.1 < j) :
    (runHistory h script fuel j silent i plan).map (·.obs) = runRounds h fuel silent i plan :=
  runHistory_past h script fuel j silent i plan hs

/-- without a script the `worldedit` model is the `world` model -/
theorem history_without_edits (h : Hashing) (fuel : Nat) (i : SyncIn) (plan : List Fault) :
    (runHistory h [] fuel 1 0 i plan).map (·.obs) = runRounds h fuel 0 i plan :=
  runHistory_nil h fuel 1 0 i plan

/-- **C02 after the last edit**: in the round `j` of the last edits (no edit of the script lies after it) the history becomes
    the plain run of the world `W` those edits produced, and if `W` is inside the premises of C02 (`wfWorld`, the monitor's
    premise, and `extraMB`, see `Props/C02.lean`) that run reaches `Final` — the desired ordinals, each Running and Ready at
    the revision its ordinal calls for, after which nothing is written — within `roundBound W` rounds -/
theorem C02_after_last_edit (h : Hashing) (script : Script) (fuel j silent : Nat) (i : SyncIn) (plan : List Fault)
    (hs : ∀ e ∈ script, e.1 ≤ j)
    (hw : wfWorld h (applyEdits (editsAt script j) i) = true) (hx : extraMB h (applyEdits (editsAt script j) i) = true) :
    (runHistory h script fuel j silent i plan).map (·.obs) =
      runRounds h fuel (if (editsAt script j).isEmpty then silent else 0) (applyEdits (editsAt script j) i) plan ∧
    ∃ n ≤ roundBound (applyEdits (editsAt script j) i), Final h (roundsN h n (applyEdits (editsAt script j) i)) :=
  ⟨runHistory_last h script fuel j silent i plan hs, Asts.C02.C02_converges h _ hw hx⟩

/-! ## non-vacuity -/

private def exH : Hashing := { nameOf := fun d c => s!"web-{d}{c}", hashNumOf := fun _ _ => none }
private def exPod (id : Nat) (ord : Int) (rev : String) : CPod :=
  { name := s!"web-{ord}", owner := .self, selMatch := true, member := true,
    pod := { id := id, ord := ord, phase := .running, ready := true, terminating := false, rev := rev, idOk := true, stOk := true } }
/-- replicas 2 with one pod at an old revision: work is pending when the pause begins -/
private def exW : SyncIn :=
  { setName := "web", paused := false, selectorOk := true
    view := { replicas := some 2, slots := [], parallel := false, strat := .rolling, ru := some (some 0), deleting := false,
              generation := 2, stCurrentReplicas := 1 }
    stored := { replicas := 1, ready := 1, current := 1, updated := 0, currentRev := "web-a0", updateRev := "web-a0", observedGen := 1 }
    collisionCount := none, historyLimit := some 2, template := "b"
    fresh := { gone := false, uidOk := true, deleting := false }
    store := [{ name := "web-a0", number := 1, ctime := 0, data := "a", hashNum := none, owner := .self, selMatch := true, marker := false }]
    pods := [exPod 0 0 "web-a0"] }

example : ViewInStep exW ∧ (exW.pods.map (·.name)).Nodup ∧ exW.paused = false := ⟨rfl, by decide, rfl⟩
/-- the paused rounds write nothing although a revision, a pod and a status are due … -/
example : (round exH (pausedFor exH [] 1 exW) []).2.writes = 0 := by decide +kernel
/-- … and the round after the un-pause does that work -/
example : (round exH (applyEdit (.pause false) (pausedFor exH [] 2 exW)) []).2.writes = 3 := by decide +kernel
/-- the script of `pause_interval_trajectory` is one the monitor `C11lossless` judges (pause before round 2, un-pause before 4) -/
example : pauseInterval (pauseScript 0 1) = some (2, 4) := by decide
/-- a scaling edit and a template edit, told apart -/
example : scalingOnly (.replicas 3) = true ∧ scalingOnly (.slots (some [1])) = true ∧ scalingOnly (.template "c") = false := by decide
end Asts.WorldEdits
