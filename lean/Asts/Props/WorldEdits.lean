import Asts.Proofs.WE_Edits
import Asts.Proofs.WE_Pause
import Asts.Proofs.WE_History
import Asts.Proofs.WE_Monitor
import Asts.Proofs.WE_Traj
import Asts.Proofs.WE_Revert
import Asts.Proofs.WE_NoRestartModel
import Asts.Proofs.WE_Lossless
import Asts.Proofs.WE_AfterEdits
import Asts.Proofs.WE_Names2
import Asts.Props.C08
import Asts.Props.C02

/-! # Histories in which the user edits the set (engine `worldedit`): C08 / C11 / C02 read on `applyEdit` and `runHistory`

Property theorems only; lemmas live in `Asts/Proofs/WE_*.lean`. `applyEdit` / `runHistory` (`Model/WorldEdits.lean`) are tied to
the Go code by the `worldedit` engine (the observation carries, for every round with edits, what the set in the API looks like
after them); `round`, `settle`, `runRounds` are the round semantics of `Model/World.lean`, `syncF` the model of one sync.

Hypotheses that appear: `ViewInStep` (the world's copy of `status.currentReplicas` is the stored one — true of every world a case
describes and of every world a round leaves) and distinct pod names (API objects of one namespace); both only for the
statements that identify a world with its settled form. -/
namespace Asts.WorldEdits
open Asts Asts.WE Asts.C02p

/-! ## (b) C08: scaling edits cannot change the update revision -/

/-- no edit touches anything but the set's spec and annotations: revisions, pods, stored status, collision count, identity
    of the set are as before -/
theorem edit_frame (e : Edit) (i : SyncIn) :
    (applyEdit e i).store = i.store ∧ (applyEdit e i).pods = i.pods ∧ (applyEdit e i).stored = i.stored ∧
    (applyEdit e i).collisionCount = i.collisionCount ∧ (applyEdit e i).fresh = i.fresh ∧
    (applyEdit e i).view.deleting = i.view.deleting ∧ (applyEdit e i).setName = i.setName ∧
    (applyEdit e i).selectorOk = i.selectorOk ∧ (applyEdit e i).historyLimit = i.historyLimit :=
  applyEdit_frame e i

/-- an edit of replicas, delete-slots, the pause annotation, other metadata (or the partition) does not change the template -/
theorem edit_keeps_template (e : Edit) (i : SyncIn) (he : keepsTemplate e = true) : (applyEdit e i).template = i.template :=
  applyEdit_template e i he

/-- … hence leaves everything the resolution of revisions reads (C08's `SameRevisionInputs`) as it is; so does a whole batch
    of such edits, and the `settle` that starts the round -/
theorem edits_keep_revision_inputs (es : List Edit) (i : SyncIn) (hes : ∀ e ∈ es, keepsTemplate e = true) :
    SYb.SameRevisionInputs (settle i) (settle (applyEdits es i)) :=
  settle_sameInputs (applyEdits_sameInputs es i hes)

/-- **C08, no restart**: the sync of the round that follows a batch of replicas / delete-slots / pause / metadata edits
    resolves, when it runs and succeeds, the very update revision the sync of the unedited world resolves (and reports it in
    the status): a scaling edit cannot start a rolling restart. For every hashing, store, pod list and fault plan. -/
theorem scaling_edits_keep_update_revision (h : Hashing) (i : SyncIn) (es : List Edit) (plan : List Fault)
    (hes : ∀ e ∈ es, scalingOnly e = true)
    (hrun : ((settle i).paused || !(settle i).selectorOk) = false)
    (hrun' : ((settle (applyEdits es i)).paused || !(settle (applyEdits es i)).selectorOk) = false)
    (hok : (syncF h (settle i) plan).outcome = .ok) (hok' : (syncF h (settle (applyEdits es i)) plan).outcome = .ok) :
    (syncF h (settle (applyEdits es i)) plan).upd = (syncF h (settle i) plan).upd ∧
    SYb.reportedUpd (settle (applyEdits es i)) (syncF h (settle (applyEdits es i)) plan) =
      SYb.reportedUpd (settle i) (syncF h (settle i) plan) :=
  SYb.scaling_same_update_revision h (settle i) (settle (applyEdits es i)) plan
    (settle_sameInputs (applyEdits_sameInputs es i (fun e he => scalingOnly_keepsTemplate (hes e he)))) hrun hrun' hok hok'

/-- the template edit is the one that reaches the revision resolution: the world records the new template -/
theorem template_edit_sets_template (t : String) (i : SyncIn) : (applyEdit (.template t) i).template = t :=
  applyEdit_template_edit t i

/-- **C08, revert**: the sync of the round that follows an edit of the template to `t`, when some revision the set lists equals
    the fresh revision of `t` (`EqualRevision`: same data, hash labels not contradicting), creates no revision whatever else
    happens; and when it runs and succeeds, the revision it reports records `t`, is stored under that name with a number no
    listed revision exceeds — it is a listed revision itself or a listed one renumbered to `nextRevision` — and every other
    stored revision is as adoption left it -/
theorem revert_reuses_and_renumbers (h : Hashing) (i : SyncIn) (t : String) (plan : List Fault) (r0 : Rev)
    (hr : r0 ∈ SYb.syncListing plan (settle (applyEdit (.template t) i)))
    (heq : equalRev r0 (SYb.freshOf h t ((settle (applyEdit (.template t) i)).collisionCount.getD 0)
      (SYb.syncListing plan (settle (applyEdit (.template t) i)))) = true) :
    (syncF h (settle (applyEdit (.template t) i)) plan).log.filter (SYb.pre "create:rev:") = [] ∧
    (((settle (applyEdit (.template t) i)).paused || !(settle (applyEdit (.template t) i)).selectorOk) = false →
     (syncF h (settle (applyEdit (.template t) i)) plan).outcome = .ok →
     ∃ u ∈ (syncF h (settle (applyEdit (.template t) i)) plan).store,
       u.name = (syncF h (settle (applyEdit (.template t) i)) plan).upd ∧ u.data = t ∧
       (∀ r ∈ SYb.syncListing plan (settle (applyEdit (.template t) i)), r.number ≤ u.number) ∧
       (u ∈ SYb.syncListing plan (settle (applyEdit (.template t) i)) ∨
         (u.number = nextRevision (SYb.syncListing plan (settle (applyEdit (.template t) i))) ∧
          ∃ e ∈ SYb.syncListing plan (settle (applyEdit (.template t) i)), e.name = u.name ∧ e.data = t))) := by
  have ht : (settle (applyEdit (.template t) i)).template = t := applyEdit_template_edit t i
  refine ⟨?_, ?_⟩
  · apply Asts.C08.sync_equal_revision_no_create h _ plan r0 hr
    rw [ht]; exact heq
  · intro hrun hok
    obtain ⟨u, hu, a, b, c, d, _⟩ := Asts.C08.sync_revert_renumbered_above_all h _ plan hrun hok r0 hr (by rw [ht]; exact heq)
    rw [ht] at b d
    exact ⟨u, hu, a, b, c, d⟩

/-! ## (a) C11: a pause interval is lossless -/

/-- a round of a paused world is the environment's `settle` and nothing else: no write, success, revisions and status as
    they were, and the world afterwards is the settled world -/
theorem paused_round_only_settles (h : Hashing) (i : SyncIn) (plan : List Fault) (hp : i.paused = true)
    (hv : ViewInStep i) (hn : (i.pods.map (·.name)).Nodup) :
    (round h i plan).1 = settle i ∧ (round h i plan).2.writes = 0 ∧ (round h i plan).2.out = "ok" ∧
    (round h i plan).2.revs = i.store ∧ (round h i plan).2.status = i.stored :=
  paused_round_is_settle h i plan hp hv hn

/-- every round of a pause — the first one under any fault plan — is silent and shows the revisions and the status of the
    world that was paused -/
theorem pause_rounds_silent (h : Hashing) (plan p : List Fault) (i : SyncIn) (hv : ViewInStep i)
    (hn : (i.pods.map (·.name)).Nodup) (n : Nat) :
    (round h (pausedFor h plan n i) p).2.writes = 0 ∧ (round h (pausedFor h plan n i) p).2.out = "ok" ∧
    (round h (pausedFor h plan n i) p).2.revs = i.store ∧ (round h (pausedFor h plan n i) p).2.status = i.stored :=
  pausedFor_round_silent h plan i hv hn n p

/-- however long the pause, the world it leaves is the settled world with the flag up -/
theorem pause_world (h : Hashing) (plan : List Fault) (i : SyncIn) (hv : ViewInStep i) (hn : (i.pods.map (·.name)).Nodup)
    (n : Nat) : pausedFor h plan (n + 1) i = settle (applyEdit (.pause true) i) :=
  pausedFor_eq h plan i hv hn n

/-- **C11, lossless (one round)**: the round that follows the un-pause, after `n + 1` rounds of pause, is the round the world
    would have run had it never been paused — the same observation (outcome, writes, pods, revisions, status) and the same
    next world -/
theorem unpause_resumes (h : Hashing) (plan p : List Fault) (i : SyncIn) (hv : ViewInStep i)
    (hn : (i.pods.map (·.name)).Nodup) (n : Nat) :
    round h (applyEdit (.pause false) (pausedFor h plan (n + 1) i)) p = round h (applyEdit (.pause false) i) p :=
  unpause_round_eq h plan p i hv hn n

/-- **C11, lossless (the run)**: `m + 1` rounds after the un-pause the world is the world `m + 1` rounds of the never-paused
    run reach; in particular it converges to the same `Final` state, in the same number of rounds counted from the un-pause -/
theorem pause_interval_lossless (h : Hashing) (plan : List Fault) (i : SyncIn) (hnp : i.paused = false) (hv : ViewInStep i)
    (hn : (i.pods.map (·.name)).Nodup) (n m : Nat) :
    roundsN h (m + 1) (applyEdit (.pause false) (pausedFor h plan (n + 1) i)) = roundsN h (m + 1) i := by
  have hi : applyEdit (.pause false) i = i := by
    show ({ i with paused := false } : SyncIn) = i
    rw [← hnp]
  show roundsN h m (round h (applyEdit (.pause false) (pausedFor h plan (n + 1) i)) []).1 = roundsN h m (round h i []).1
  rw [unpause_round_eq h plan [] i hv hn n, hi]

theorem pause_interval_same_final (h : Hashing) (plan : List Fault) (i : SyncIn) (hnp : i.paused = false) (hv : ViewInStep i)
    (hn : (i.pods.map (·.name)).Nodup) (n m : Nat) (hf : Final h (roundsN h (m + 1) i)) :
    Final h (roundsN h (m + 1) (applyEdit (.pause false) (pausedFor h plan (n + 1) i))) := by
  rw [pause_interval_lossless h plan i hnp hv hn n m]; exact hf

/-! ### the pause interval on whole histories

`histRoundAt h script 1 plan i n` is round `n + 1` of the history of `script` that never stops; `runHistory` (which stops after
two silent rounds) is a prefix of it. `pauseScript a d` pauses before round `a + 2` and un-pauses before round `a + d + 3`:
exactly the scripts the monitor `C11lossless` judges. -/

/-- `runHistory` is a prefix of the never-stopping history: its `n`-th round, when it has one, is `histRoundAt … n` -/
theorem history_is_prefix_of_trajectory (h : Hashing) (script : Script) (fuel : Nat) (i : SyncIn) (plan : List Fault) (n : Nat)
    (hr : HistRound) (hg : (runHistory h script fuel 1 0 i plan)[n]? = some hr) : hr = histRoundAt h script 1 plan i n :=
  runHistory_get h script fuel 1 0 i plan n hr hg

theorem pauseScript_is_interval (a d : Nat) : pauseInterval (pauseScript a d) = some (a + 2, a + d + 3) :=
  pauseScript_interval a d

/-- **C11, lossless, on whole histories**: a history with one pause interval IS the never-paused history with `d + 1` idle
    rounds spliced in — (1) up to the pause its worlds are those of the never-paused run; (2) every round of the pause is
    silent and shows the revisions and the status the never-paused run had at that point; (3) from the un-pause on, round for
    round, the observation (outcome, writes, pods, revisions, status) and the next world are those of the never-paused run
    from the round in which the pause began. Hence the same final state, reached after the same number of working rounds.
    Hypotheses: the set is not paused to begin with; pod names are distinct in the world the pause finds. -/
theorem pause_interval_trajectory (h : Hashing) (plan : List Fault) (i : SyncIn) (a d : Nat) (hnp : i.paused = false)
    (hn : ((worldFrom h [] 1 plan i (a + 1)).pods.map (·.name)).Nodup) :
    (∀ n, n ≤ a + 1 → worldFrom h (pauseScript a d) 1 plan i n = worldFrom h [] 1 plan i n) ∧
    (∀ k, k ≤ d →
      (histRoundAt h (pauseScript a d) 1 plan i (a + 1 + k)).obs.writes = 0 ∧
      (histRoundAt h (pauseScript a d) 1 plan i (a + 1 + k)).obs.out = "ok" ∧
      (histRoundAt h (pauseScript a d) 1 plan i (a + 1 + k)).obs.revs = (worldFrom h [] 1 plan i (a + 1)).store ∧
      (histRoundAt h (pauseScript a d) 1 plan i (a + 1 + k)).obs.status = (worldFrom h [] 1 plan i (a + 1)).stored) ∧
    (∀ m, (histRoundAt h (pauseScript a d) 1 plan i (a + d + 2 + m)).obs = (histRoundAt h [] 1 plan i (a + 1 + m)).obs ∧
          worldFrom h (pauseScript a d) 1 plan i (a + d + 2 + m + 1) = worldFrom h [] 1 plan i (a + 1 + m + 1)) :=
  ⟨pause_before h plan i a d, fun k hk => pause_rounds h plan i a d hn k hk, pause_after h plan i a d hnp hn⟩

/-- **C11.pausedsilent, the monitor, is true on the model** — for every hashing, script, budget, initial world and fault
    plan: `observeHist` is what the driver prints of a history (the edits, the spec state after them, the round
    observation); the predicate is the one the driver evaluates on the real code's observation -/
theorem C11_pausedsilent_monitor_true_on_model (h : Hashing) (script : Script) (fuel : Nat) (i : SyncIn) (plan : List Fault) :
    C11pausedSilent i (observeHist (runHistory h script fuel 1 0 i plan)) = true :=
  C11pausedSilent_model h script fuel i plan

/-! ## (c) C02: convergence from the world the last edit produced -/

/-- once the script is exhausted a history is a plain run: the observations of `runHistory` from a round after the last
    edit are those of `runRounds` -/
theorem history_after_script (h : Hashing) (script : Script) (fuel j silent : Nat) (i : SyncIn) (plan : List Fault)
    (hs : ∀ e ∈ script, e.1 < j) :
    (runHistory h script fuel j silent i plan).map (·.obs) = runRounds h fuel silent i plan :=
  runHistory_past h script fuel j silent i plan hs

/-- without a script the `worldedit` model is the `world` model -/
theorem history_without_edits (h : Hashing) (fuel : Nat) (i : SyncIn) (plan : List Fault) :
    (runHistory h [] fuel 1 0 i plan).map (·.obs) = runRounds h fuel 0 i plan :=
  runHistory_nil h fuel 1 0 i plan

/-- **C02 after the last edit**: in the round `j` of the last edits (no edit of the script lies after it) the history becomes
    the plain run of the world `W` those edits produced, and if `W` is inside the premises of C02 (`wfWorld`, the monitor's
    premise, and `extraMB`, see `Props/C02.lean`) that run reaches `Final` — the desired ordinals, each Running and Ready at
    the revision its ordinal calls for, after which nothing is written — within `roundBound W` rounds -/
theorem C02_after_last_edit (h : Hashing) (script : Script) (fuel j silent : Nat) (i : SyncIn) (plan : List Fault)
    (hs : ∀ e ∈ script, e.1 ≤ j)
    (hw : wfWorld h (applyEdits (editsAt script j) i) = true) (hx : extraMB h (applyEdits (editsAt script j) i) = true) :
    (runHistory h script fuel j silent i plan).map (·.obs) =
      runRounds h fuel (if (editsAt script j).isEmpty then silent else 0) (applyEdits (editsAt script j) i) plan ∧
    ∃ n ≤ roundBound (applyEdits (editsAt script j) i), Final h (roundsN h n (applyEdits (editsAt script j) i)) :=
  ⟨runHistory_last h script fuel j silent i plan hs, Asts.C02.C02_converges h _ hw hx⟩

/-! ## the monitors of the `worldedit` engine, true on the model

`observeHist (runHistory h script fuel 1 0 i plan)` is what the driver prints of the model's history; each predicate below is
the one the driver evaluates on the real code's observation. Hypotheses are spelled out at each theorem; where a hypothesis
is an invariant of the model's run that is true but not proved here (pod names stay distinct along a run, fewer than
`freshId` pod objects) the theorem is named `…_partial`. -/

/-! ### C08.revert -/

/-- **C08.revert, the monitor, is true on the model** — every hashing, script, budget, fault plan and every initial world
    whose stored revisions have distinct names (the monitor looks revisions up by name; one API namespace) -/
theorem C08_revert_monitor_true_on_model (h : Hashing) (script : Script) (fuel : Nat) (i : SyncIn) (plan : List Fault)
    (hn : (i.store.map (·.name)).Nodup) :
    C08revert h i (observeHist (runHistory h script fuel 1 0 i plan)) = true :=
  C08revert_model h script fuel i plan hn

/-- the clause on one round: world `W` after a template edit, not paused, selector in order, a visible stored revision
    records the template under a compatible hash label, the round succeeds -/
theorem C08_revert_round (h : Hashing) (W : SyncIn) (p : List Fault) (hn : (W.store.map (·.name)).Nodup)
    (hnp : W.paused = false) (hsel : W.selectorOk = true) (hok : (round h W p).2.out = "ok")
    (held : W.store.any (fun q => visibleRev q && q.data == W.template &&
      hashCompat q.hashNum (h.hashNumOf W.template (W.collisionCount.getD 0))) = true) :
    ((round h W p).2.revs.all (fun x => W.store.any (·.name == x.name)) &&
     (round h W p).2.revs.any (fun u => u.name == (round h W p).2.status.updateRev && u.data == W.template &&
       ((round h W p).2.revs.filter visibleRev).all (fun v => v.number ≤ u.number) &&
       (W.store.any (fun q => q.name == u.name && q.number == u.number) ||
        ((round h W p).2.revs.filter visibleRev).all (fun v => v.name == u.name || v.number < u.number)))) = true :=
  revert_step h W p hn hnp hsel hok held

/-! ### C08.norestart

The invariant `Inv W` (`Proofs/WE_Inv.lean`): stored revisions have distinct names and are all visible to the set, and the
revision `status.updateRevision` names records the template and is the newest of the store. -/

/-- a successful reconcile of the un-paused set establishes the invariant, whatever was edited before it -/
theorem C08_invariant_established {h : Hashing} (hnum : ∀ d c, h.hashNumOf d c = none) (W : SyncIn) (p : List Fault)
    (hn : (W.store.map (·.name)).Nodup) (hv : AllVis W.store)
    (hrun : (W.paused || !W.selectorOk) = false) (hok : (round h W p).2.out = "ok") : Inv (round h W p).1 :=
  inv_established hnum W p hn hv hrun hok

/-- a round that follows edits other than a template edit preserves it, whatever its outcome -/
theorem C08_invariant_preserved {h : Hashing} (hnum : ∀ d c, h.hashNumOf d c = none) (W : SyncIn) (es : List Edit)
    (p : List Fault) (hes : ∀ e ∈ es, keepsTemplate e = true) (hI : Inv W) : Inv (round h (applyEdits es W) p).1 :=
  inv_preserved hnum W es p hes hI

/-- the status half on one round, from a pinned world (no hypothesis on the hashing): whatever the pods, the fault plan and
    the outcome, `status.updateRevision` stays -/
theorem C08_norestart_status_round (h : Hashing) (W : SyncIn) (es : List Edit) (p : List Fault)
    (hes : ∀ e ∈ es, keepsTemplate e = true) (hpin : Pinned h p W) :
    (round h (applyEdits es W) p).2.status.updateRev = W.stored.updateRev :=
  norestart_status_step h W es p hes hpin

/-- the pods half on one round: a live pod of the (new) desired set at the revision `status.updateRevision` names is still
    there, not terminating, after the round -/
theorem C08_norestart_pods_round {h : Hashing} (hnum : ∀ d c, h.hashNumOf d c = none) (W : SyncIn) (es : List Edit)
    (p : List Fault) (hes : ∀ e ∈ es, keepsTemplate e = true) (hI : Inv W) (hlen : W.pods.length ≤ freshId)
    (c : CPod) (hc : c ∈ W.pods) (hterm : c.pod.terminating = false) (hf : c.pod.failed = false)
    (hs : c.pod.succeeded = false) (hrev : c.pod.rev = W.stored.updateRev)
    (hD : c.pod.ord ∈ desired ((applyEdits es W).view.replicas.getD 0) (applyEdits es W).view.slots) :
    ∃ q ∈ (round h (applyEdits es W) p).1.pods, q.name = c.name ∧ q.pod.terminating = false :=
  norestart_pods_step hnum W es p hes hI hlen c hc hterm hf hs hrev hD

/-- **C08.norestart, the monitor, is true on the model.** `_partial`: the statement for every input is false (a stored
    revision whose hash label contradicts the computed one makes the update revision move without any edit:
    `Props/C02.lean`, `equalRevision_not_transitive_quiet_not_final`), so a premise on the labels is needed; the one used
    here, `hnum` (labels never parse as numbers: the real label is ten characters of a vowel-free alphanumeric alphabet),
    is sufficient, not the weakest. Also assumed: stored revisions have distinct names and are ALL visible to the set
    (no revision of another controller, none without selector labels and marker — such a revision can squat on a probed
    name), and no world of the history holds more than `freshId` = 10^6 pod objects (ids are positions). -/
theorem C08_norestart_monitor_true_on_model_partial (h : Hashing) (script : Script) (fuel : Nat) (i : SyncIn)
    (plan : List Fault) (hnum : ∀ d c, h.hashNumOf d c = none) (hn : (i.store.map (·.name)).Nodup)
    (hv : AllVis i.store) (hsize : ∀ k, (worldFrom h script 1 plan i k).pods.length ≤ freshId) :
    C08noRestart i (observeHist (runHistory h script fuel 1 0 i plan)) = true :=
  C08noRestart_model h script fuel i plan hnum hn hv hsize

/-! ### a silent reconcile changes nothing -/

/-- a sync under the empty fault plan whose log holds no write and that ends `.ok` leaves the revision store as it was,
    writes no status and records no pod-control call -/
theorem silent_sync_changes_nothing (h : Hashing) (i : SyncIn) (hg : i.fresh.gone = false)
    (hok : (syncF h i []).outcome = .ok) (hq : ∀ e ∈ (syncF h i []).log, isWrite e = false) :
    (syncF h i []).store = i.store ∧ (syncF h i []).status = none ∧ (syncF h i []).acts = [] :=
  silent_sync h i hg hok hq

/-- **a silent successful round is a fixed point**: the world after it is the settled world, and every later round shows
    the same observation and leaves the same world -/
theorem silent_round_is_fixed_point (h : Hashing) (W : SyncIn) (hv : ViewInStep W) (hn : (W.pods.map (·.name)).Nodup)
    (hs : silentOk (round h W []).2 = true) :
    (round h W []).1 = settle W ∧ round h (round h W []).1 [] = round h W [] :=
  ⟨silent_round_fix h W hv hn hs, silent_round_repeats h W hv hn hs⟩

/-! ### C11.lossless -/

/-- **C11.lossless, the monitor, is true on the model** for every script (`ref` is the model's own never-paused run, as in
    the driver). When the script is one pause interval, `pauseInterval script = some (a, b)`, the premises are `2 ≤ a` (the
    case format; a pause before round 1 would swallow the fault plan of round 1) and a budget that reaches round `b` (if the
    budget ends inside the pause the predicate is false on the model too). `_partial`: the hypothesis that pod names are
    distinct in every world of the never-paused run is an invariant of the model that is not proved here. -/
theorem C11_lossless_monitor_true_on_model_partial (h : Hashing) (plan : List Fault) (i : SyncIn) (script : Script)
    (fuel : Nat) (hnp : i.paused = false) (hnod : ∀ n, ((plainWorld h i plan n).pods.map (·.name)).Nodup)
    (hpi : ∀ a b, pauseInterval script = some (a, b) → 2 ≤ a ∧ b ≤ fuel) :
    C11lossless i script (observeHist (runHistory h script fuel 1 0 i plan)) (runRounds h fuel 0 i plan) = true :=
  C11lossless_model_any h plan i script fuel hnp hnod hpi

/-- what the proof rests on: the observations of a history with one pause interval are the rounds up to the un-pause
    followed by the plain run of the world the pause found -/
theorem pause_history_is_spliced_run (h : Hashing) (plan : List Fault) (i : SyncIn) (a d fuel : Nat) (hnp : i.paused = false)
    (hnod : ∀ n, ((plainWorld h i plan n).pods.map (·.name)).Nodup) (hfuel : a + d + 2 ≤ fuel) :
    (runHistory h (pauseScript a d) fuel 1 0 i plan).map (·.obs) =
      ((List.range (a + d + 2)).map (histRoundAt h (pauseScript a d) 1 plan i)).map (·.obs) ++
        runRounds h (fuel - (a + d + 2)) 0 (plainWorld h i plan (a + 1)) [] :=
  pause_history_obs h plan i a d fuel hnp hnod hfuel

/-! ### C02: from `Final` within the bound to the Boolean monitor, and C02.afteredits -/

/-- **the monitor `C02converges` is true on the model's run** (the clause `C02.converges` of the `world` engine, empty fault
    plan): world inside `wfWorld` and `extraMB`, budget at least `roundBound + 2`. This is the step from `C02_converges`
    (`∃ n ≤ roundBound, Final`) to the Boolean the driver evaluates on the list `runRounds` returns; it needs that a run
    which has gone quiet is in its final state, which follows from `silent_round_is_fixed_point`. `_partial`: pod names
    distinct along the run is assumed, not derived from `extraMB`. -/
theorem C02converges_monitor_true_on_model_partial (h : Hashing) (W : SyncIn) (fuel : Nat)
    (hw : wfWorld h W = true) (hx : extraMB h W = true) (hv : ViewInStep W)
    (hnod : ∀ n, ((roundsN h n W).pods.map (·.name)).Nodup) (hfuel : roundBound W + 2 ≤ fuel) :
    C02converges h W (runRounds h fuel 0 W []) = true :=
  C02converges_run h W fuel hv hnod (Asts.C02.C02_converges h W hw hx) hfuel

/-- **C02.afteredits, the monitor, is true on the model — histories with edits.** The last edits of the script are made
    before round `k + 2`; `W` is the world they produce; `settle W` is inside `wfWorld` and `extraMB`; the budget covers the
    `k + 1` rounds before, `roundBound (settle W)` and 2 more. `_partial`: distinct pod names in `W` and along the run from
    `settle W` are assumed. -/
theorem C02_afteredits_monitor_true_on_model_partial (h : Hashing) (script : Script) (fuel : Nat) (i : SyncIn)
    (plan : List Fault) (k : Nat) (hlast : ∀ e ∈ script, e.1 ≤ k + 2) (hed : (editsAt script (k + 2)).isEmpty = false)
    (hw : wfWorld h (settle (wAt h script plan i (k + 1))) = true)
    (hx : extraMB h (settle (wAt h script plan i (k + 1))) = true)
    (hnW : ((wAt h script plan i (k + 1)).pods.map (·.name)).Nodup)
    (hnod : ∀ n, ((roundsN h n (settle (wAt h script plan i (k + 1)))).pods.map (·.name)).Nodup)
    (hfuel : k + 1 + roundBound (settle (wAt h script plan i (k + 1))) + 2 ≤ fuel) :
    C02afterEdits h i (observeHist (runHistory h script fuel 1 0 i plan)) = true :=
  C02afterEdits_model_edits h script fuel i plan k hlast hed hnW hnod (Asts.C02.C02_converges h _ hw hx) hfuel

/-- … and histories without edits (empty script, empty fault plan) -/
theorem C02_afteredits_monitor_true_on_model_noedits_partial (h : Hashing) (fuel : Nat) (i : SyncIn)
    (hw : wfWorld h i = true) (hx : extraMB h i = true) (hv : ViewInStep i)
    (hnod : ∀ n, ((roundsN h n i).pods.map (·.name)).Nodup) (hfuel : roundBound i + 2 ≤ fuel) :
    C02afterEdits h i (observeHist (runHistory h [] fuel 1 0 i [])) = true :=
  C02afterEdits_model_noedits h fuel i hv hnod (Asts.C02.C02_converges h i hw hx) hfuel

/-- the world the monitor rebuilds from the observation at a round with edits IS the model's world of that round -/
theorem monitor_world_is_model_world (h : Hashing) (script : Script) (plan : List Fault) (i : SyncIn) (fuel k : Nat)
    (hk : k + 1 < (runHistory h script fuel 1 0 i plan).length)
    (hed : (histRoundAt h script 1 plan i (k + 1)).edits.isEmpty = false) :
    worldAtEdit i (observeHist (runHistory h script fuel 1 0 i plan)) (k + 1) = wAt h script plan i (k + 1) :=
  worldAtEdit_eq h script plan i fuel k hk hed

/-! ## pod names stay distinct along a run, and the monitor theorems without that hypothesis

A round reads a world only through `settle`; the invariant is about the settled form of every world of the run, which is all
the proofs need (`Proofs/WE_Names.lean`: the lemmas that used distinct names of a world are re-derived from distinct names of
its settled form). The earlier `…_partial` theorems are kept. -/

/-- **pod names are pairwise distinct in every (settled) world of the run**, from `wfWorld` and `extraMB` of the initial world
    alone — members canonically named, one member per ordinal, no non-member under the canonical name of a desired ordinal,
    distinct names to begin with: creates happen only at vacant desired ordinals, deletes and `settle` only remove, adoption,
    release and identity updates keep names. (The convergence proof of `Props/C02.lean` carries exactly this through every
    round: `Stg.pre.podNames` under `stg_rounds`.) -/
theorem pod_names_distinct_along_run (h : Hashing) (i : SyncIn) (hw : wfWorld h i = true) (hx : extraMB h i = true) :
    ∀ n, ((settle (roundsN h n i)).pods.map (·.name)).Nodup :=
  Asts.WE.pod_names_distinct_along_run h i hw hx

/-- edits of the set never touch a pod object: the worlds of a history have the pod objects the rounds left -/
theorem edits_keep_pods (es : List Edit) (i : SyncIn) : (applyEdits es i).pods = i.pods := applyEdits_pods' es i

/-- **a silent successful round leaves the settled world** — whatever the world's derived field was; distinct names of the
    settled form only -/
theorem silent_round_leaves_settled_world (h : Hashing) (W : SyncIn) (hn : ((settle W).pods.map (·.name)).Nodup)
    (hs : silentOk (round h W []).2 = true) : (round h W []).1 = nrm W ∧ settle (nrm W) = nrm W :=
  ⟨silent_round_world h W hn hs, settle_nrm W hn⟩

/-- **`C02converges`, the monitor of the `world` engine, is true on the model's run**: world inside `wfWorld` and `extraMB`,
    budget at least `roundBound + 2`. No other hypothesis. -/
theorem C02converges_monitor_true_on_model (h : Hashing) (W : SyncIn) (fuel : Nat)
    (hw : wfWorld h W = true) (hx : extraMB h W = true) (hfuel : roundBound W + 2 ≤ fuel) :
    C02converges h W (runRounds h fuel 0 W []) = true :=
  C02converges_run' h W fuel (Asts.WE.pod_names_distinct_along_run h W hw hx) (Asts.C02.C02_converges h W hw hx) hfuel

/-- **C02.afteredits, the monitor, is true on the model — histories with edits**: the last edits of the script are made
    before round `k + 2`; the world they produce, settled, is inside `wfWorld` and `extraMB`; the budget covers the `k + 1`
    rounds before, the bound of that world and 2 more. No other hypothesis. -/
theorem C02_afteredits_monitor_true_on_model (h : Hashing) (script : Script) (fuel : Nat) (i : SyncIn)
    (plan : List Fault) (k : Nat) (hlast : ∀ e ∈ script, e.1 ≤ k + 2) (hed : (editsAt script (k + 2)).isEmpty = false)
    (hw : wfWorld h (settle (wAt h script plan i (k + 1))) = true)
    (hx : extraMB h (settle (wAt h script plan i (k + 1))) = true)
    (hfuel : k + 1 + roundBound (settle (wAt h script plan i (k + 1))) + 2 ≤ fuel) :
    C02afterEdits h i (observeHist (runHistory h script fuel 1 0 i plan)) = true :=
  C02afterEdits_model_edits' h script fuel i plan k hlast hed (extraMB_podNames hx)
    (Asts.WE.pod_names_distinct_along_run h _ hw hx) (Asts.C02.C02_converges h _ hw hx) hfuel

/-- … and histories without edits (empty script, empty fault plan) -/
theorem C02_afteredits_monitor_true_on_model_noedits (h : Hashing) (fuel : Nat) (i : SyncIn)
    (hw : wfWorld h i = true) (hx : extraMB h i = true) (hfuel : roundBound i + 2 ≤ fuel) :
    C02afterEdits h i (observeHist (runHistory h [] fuel 1 0 i [])) = true :=
  C02afterEdits_model_noedits' h fuel i (Asts.WE.pod_names_distinct_along_run h i hw hx) (Asts.C02.C02_converges h i hw hx) hfuel

/-- **C11.lossless, the monitor, is true on the model** (empty fault plan): initial world inside `wfWorld` and `extraMB`;
    when the script is one pause interval `(a, b)`: `2 ≤ a` (the case format) and a budget that reaches round `b`. No other
    hypothesis. -/
theorem C11_lossless_monitor_true_on_model (h : Hashing) (i : SyncIn) (script : Script) (fuel : Nat)
    (hw : wfWorld h i = true) (hx : extraMB h i = true)
    (hpi : ∀ a b, pauseInterval script = some (a, b) → 2 ≤ a ∧ b ≤ fuel) :
    C11lossless i script (observeHist (runHistory h script fuel 1 0 i [])) (runRounds h fuel 0 i []) = true :=
  C11lossless_model_any' h [] i script fuel (wfWorld_not_paused hw) (plainWorld_names h i hw hx) hpi

/-- the same with a fault plan in round 1 (where `wfWorld` / `extraMB` say nothing about the worlds a faulted round leaves):
    `_partial` — distinct pod names in the settled worlds of the never-paused run are assumed -/
theorem C11_lossless_monitor_true_on_model_faulted_partial (h : Hashing) (plan : List Fault) (i : SyncIn) (script : Script)
    (fuel : Nat) (hnp : i.paused = false) (hnod : ∀ n, ((settle (plainWorld h i plan n)).pods.map (·.name)).Nodup)
    (hpi : ∀ a b, pauseInterval script = some (a, b) → 2 ≤ a ∧ b ≤ fuel) :
    C11lossless i script (observeHist (runHistory h script fuel 1 0 i plan)) (runRounds h fuel 0 i plan) = true :=
  C11lossless_model_any' h plan i script fuel hnp hnod hpi

/-! ## non-vacuity -/

private def exH : Hashing := { nameOf := fun d c => s!"web-{d}{c}", hashNumOf := fun _ _ => none }
private def exPod (id : Nat) (ord : Int) (rev : String) : CPod :=
  { name := s!"web-{ord}", owner := .self, selMatch := true, member := true,
    pod := { id := id, ord := ord, phase := .running, ready := true, terminating := false, rev := rev, idOk := true, stOk := true } }
/-- replicas 2 with one pod at an old revision: work is pending when the pause begins -/
private def exW : SyncIn :=
  { setName := "web", paused := false, selectorOk := true
    view := { replicas := some 2, slots := [], parallel := false, strat := .rolling, ru := some (some 0), deleting := false,
              generation := 2, stCurrentReplicas := 1 }
    stored := { replicas := 1, ready := 1, current := 1, updated := 0, currentRev := "web-a0", updateRev := "web-a0", observedGen := 1 }
    collisionCount := none, historyLimit := some 2, template := "b"
    fresh := { gone := false, uidOk := true, deleting := false }
    store := [{ name := "web-a0", number := 1, ctime := 0, data := "a", hashNum := none, owner := .self, selMatch := true, marker := false }]
    pods := [exPod 0 0 "web-a0"] }

example : ViewInStep exW ∧ (exW.pods.map (·.name)).Nodup ∧ exW.paused = false := ⟨rfl, by decide, rfl⟩
/-- the paused rounds write nothing although a revision, a pod and a status are due … -/
example : (round exH (pausedFor exH [] 1 exW) []).2.writes = 0 := by decide +kernel
/-- … and the round after the un-pause does that work -/
example : (round exH (applyEdit (.pause false) (pausedFor exH [] 2 exW)) []).2.writes = 3 := by decide +kernel
/-- the script of `pause_interval_trajectory` is one the monitor `C11lossless` judges (pause before round 2, un-pause before 4) -/
example : pauseInterval (pauseScript 0 1) = some (2, 4) := by decide
/-- the premises of `C08_norestart_monitor_true_on_model_partial` and `C08_revert_monitor_true_on_model` hold of the example
    world: no numeric labels, distinct names, every revision visible -/
example : (∀ d c, exH.hashNumOf d c = none) ∧ (exW.store.map (·.name)).Nodup ∧ AllVis exW.store :=
  ⟨fun _ _ => rfl, by decide, by unfold AllVis; decide⟩
/-- a scaling edit and a template edit, told apart -/
example : scalingOnly (.replicas 3) = true ∧ scalingOnly (.slots (some [1])) = true ∧ scalingOnly (.template "c") = false := by decide
end Asts.WorldEdits
