import Asts.Spec.Reconcile

/-! # C04 — property theorems (under construction) -/
namespace Asts.C04

end Asts.C04
