import Asts.Proofs.L1_a_Final

/-! # C04 — pods are created only at vacant desired ordinals

Property theorems only; the lemmas live in `Asts/Proofs/L1_a_*.lean`. `updateStatefulSet` is the model of the reconcile
function (tied to the Go code by the `reconcile` engine), `observe` is what a recording pod control sees of its actions,
`C04` is the monitor of `Asts/Spec/Reconcile.lean`. All theorems hold for every spec (replicas absent, negative, any slot
list), every pod list and every fault plan: there is no hypothesis on `v.replicas`.

Hypotheses, and why each is needed:
* `pods.all Pod.created` — every pod object of the snapshot carries a phase (the API server stamps `Pending`); a pod object
  with an empty phase is re-created by the real code (the excluded point of DESIGN §6 C04). It is the half of `wfSnapshot`
  that C04 needs; distinct ordinals are NOT needed.
* `IdsOk pods` — the identities by which a recorded delete names its pod are pairwise distinct and below `freshId`
  (the harness numbers pods by position). Without it the monitor cannot tell which pod a delete was given. -/
namespace Asts.C04

/-- **C04**: the monitor is true on the model's output for every spec, snapshot and fault plan. -/
theorem C04_holds (v : SetView) (cur upd : String) (pods : List Pod) (f : Faults)
    (hcr : pods.all Pod.created = true) (hids : IdsOk pods) :
    C04 v pods (observe (updateStatefulSet v cur upd pods f).1.acts) = true :=
  C04_holds_gen v cur upd pods f hcr hids

/-- C04 under exactly the preconditions the run-time monitor (`monitorRc`) evaluates it with: `wfSnapshot`, pod ids are
    their positions, fewer than `freshId` pods. -/
theorem C04_holds_monitor (v : SetView) (cur upd : String) (pods : List Pod) (f : Faults)
    (hwf : wfSnapshot pods = true) (hpos : pods.map Pod.id = List.range pods.length) (hlen : pods.length ≤ freshId) :
    C04 v pods (observe (updateStatefulSet v cur upd pods f).1.acts) = true :=
  Asts.C04_holds_monitor v cur upd pods f hwf hpos hlen

/-- `Prop` reading, on the model's own action list: a create at `o`, wherever it stands, is for a desired ordinal that is
    not a listed slot, of a set that is not being deleted, and `o` is vacant in the snapshot or held a Failed/Succeeded pod
    whose deletion stands earlier in the same list. -/
theorem C04_prop (v : SetView) (cur upd : String) (pods : List Pod) (f : Faults)
    (hcr : pods.all Pod.created = true) {pre post : List Action} {o : Int} {rev : String}
    (h : (updateStatefulSet v cur upd pods f).1.acts = pre ++ .create o rev :: post) :
    o ∈ desired (replicasOf v) v.slots ∧ o ∉ v.slots ∧ v.deleting = false ∧
      ((∀ q ∈ pods, q.ord ≠ o) ∨
       ∃ p ∈ pods, p.ord = o ∧ (p.failed = true ∨ p.succeeded = true) ∧ Action.delete o p.id .replaceFailed ∈ pre) :=
  C04_reading v cur upd pods f hcr h

/-- A delete slot is never (re-)populated while it stays listed — no hypothesis at all. -/
theorem slot_never_populated (v : SetView) (cur upd : String) (pods : List Pod) (f : Faults) {o : Int}
    (ho : o ∈ v.slots) (rev : String) : Action.create o rev ∉ (updateStatefulSet v cur upd pods f).1.acts :=
  slot_not_repopulated v cur upd pods f ho rev

/-- Nothing is created (or deleted) for a set that is being deleted. -/
theorem deleting_set_untouched (v : SetView) (cur upd : String) (pods : List Pod) (f : Faults) (hdel : v.deleting = true) :
    (updateStatefulSet v cur upd pods f).1.acts = [] :=
  uss_deleting_acts v cur upd pods f hdel

/-! non-vacuity: replicas 3, slot 1 listed; ordinal 0 holds a Failed pod, 1 (a slot) and 3 (beyond) hold live pods, 2 is
    vacant. The hypotheses hold and the reconcile replaces 0, fills 2, and deletes 1 and 3. -/
private def exV : SetView :=
  { replicas := some 3
    slots := [1]
    parallel := true
    strat := .rolling
    ru := some (some 0)
    deleting := false
    generation := 1
    stCurrentReplicas := 0 }
private def exPods : List Pod := [
  { id := 0, ord := 0, phase := .failed, ready := false, terminating := false, rev := "b", idOk := true, stOk := true },
  { id := 1, ord := 1, phase := .running, ready := true, terminating := false, rev := "b", idOk := true, stOk := true },
  { id := 2, ord := 3, phase := .running, ready := true, terminating := false, rev := "a", idOk := true, stOk := true }]

example : exPods.all Pod.created = true ∧ wfSnapshot exPods = true ∧
    exPods.map Pod.id = List.range exPods.length ∧ exPods.length ≤ freshId := by decide
example : IdsOk exPods := idsOk_of_positions (by decide) (by decide)
example : observe (updateStatefulSet exV "a" "b" exPods []).1.acts =
    [.delete 0 (some 0), .create 0 "b", .create 2 "b", .delete 1 (some 1), .delete 3 (some 2)] := by decide

end Asts.C04
