import Asts.Proofs.L1_c_C12
import Asts.Gen.Crd

/-! # C15 (reconcile part) — no admitted object can crash the controller

`updateStatefulSet` (the model of `stateful_set_control.go:289-594`) has two panic outcomes: the nil `*Spec.Replicas`
dereference, excluded by the CRD (`replicas` is required, minimum 0), and the `firstUnhealthyPod.Name` dereference when the
first-unhealthy scan counts an unhealthy pod without recording one. The theorems below show that neither is reachable for
an admitted object: every strategy / partition / policy shape (including `ru = some none`, i.e. `rollingUpdate: {}`, and
negative partitions), **every pod list** and every fault plan.

History: on the pinned tree the scan compared ordinals strictly against its `math.MaxInt32` sentinel, so one unhealthy pod
named `<set>-2147483647` was counted but not recorded and the reconcile panicked (found as the hypothesis "ordinals below
MaxInt32" the proof forced; confirmed on the real code; repaired by the `fix:` commit 53b1b2a; the failing inputs are in
`corpus/reconcile/defects-found-on-pinned-tree.txt`). The theorems no longer carry that hypothesis, nor a bound on
`replicas + #slots`. -/
namespace Asts.C15
open Asts.L1c

/-- **C15, reconcile part.** No panic for any admitted set, any pod list and any fault plan. -/
theorem C15_holds (v : SetView) (cur upd : String) (pods : List Pod) (f : Faults) (r : Int)
    (hr : v.replicas = some r) :
    ∀ site, (updateStatefulSet v cur upd pods f).2 ≠ .panic site :=
  fun site => Outcome.calm_ne_panic (updateStatefulSet_calm' v cur upd pods f r hr) site

/-- `Prop` reading: the outcome is `.ok` or `.err`. -/
theorem C15_ok_or_err (v : SetView) (cur upd : String) (pods : List Pod) (f : Faults) (r : Int)
    (hr : v.replicas = some r) :
    (updateStatefulSet v cur upd pods f).2 = .ok ∨ (updateStatefulSet v cur upd pods f).2 = .err :=
  updateStatefulSet_calm' v cur upd pods f r hr

/-- The scan: if it counted an unhealthy pod it recorded one, whatever the ordinals. -/
theorem scan_records_a_pod (ps : List Pod) (hpos : (firstUnhealthy ps).2 > 0) :
    (firstUnhealthy ps).1.isSome = true :=
  firstUnhealthy_some' ps hpos

/-- The three loops never produce a panic, whatever `prepare` returned. -/
theorem loops_never_panic (v : SetView) (cur upd : String) (f : Faults) (p : Prepared) :
    ∀ site, (runLoops v cur upd f p).2 ≠ .panic site :=
  fun site => Outcome.calm_ne_panic (runLoops_calm v cur upd f p) site

/-- non-vacuity: `rollingUpdate: {}`, a negative partition and an OnDelete set, with unhealthy pods -/
example :
    let v : SetView := { replicas := some 2, slots := [0, 7, -1], parallel := false, strat := .rolling, ru := some none,
                         deleting := false, generation := 1, stCurrentReplicas := 0 }
    let pods : List Pod := [{ id := 0, ord := 1, phase := .pending, ready := false, terminating := false, rev := "a",
                              idOk := true, stOk := true }]
    v.replicas = some 2 ∧
    (updateStatefulSet v "a" "b" pods [(0, 2)]).2 = .ok ∧
    (updateStatefulSet { v with ru := some (some (-3)) } "a" "b" pods []).2 = .ok := by decide

/-- the repaired scan: an unhealthy pod named `…-2147483647` (the old sentinel) no longer defeats it; the pod is outside the
    desired set and is the one scaled in -/
example :
    (updateStatefulSet { replicas := some 1, slots := [], parallel := false, strat := .rolling, ru := none,
                         deleting := false, generation := 1, stCurrentReplicas := 0 } "a" "b"
      [{ id := 0, ord := 0, phase := .running, ready := true, terminating := false, rev := "a", idOk := true, stOk := true },
       { id := 1, ord := 2147483647, phase := .pending, ready := false, terminating := false, rev := "a", idOk := true,
         stOk := true }] []).2
    = .ok := by decide

/-! ### The admission facts, read off the shipped CRD (`lean/Asts/Gen/Crd.lean` is regenerated from
    `/repo/manifests/crd.v1.yaml` on every check run, so these are re-checked against the file as it is now). -/

/-- every served version of the CRD requires `spec.replicas`, types it as an integer and bounds it below by 0 -/
theorem crd_replicas_required_nonneg :
    Asts.Gen.crdVersions.all (fun v =>
      v.2.2.1.contains "replicas" &&
      v.2.2.2.1.any (fun f => f.1 == "replicas" && f.2.1 == "integer" && f.2.2.1 == some 0)) = true := by decide

/-- every served version defaults `spec.revisionHistoryLimit` (so `*set.Spec.RevisionHistoryLimit` is never nil for an object
    the API server stored) and bounds it below by 0 -/
theorem crd_history_limit_defaulted_nonneg :
    Asts.Gen.crdVersions.all (fun v =>
      v.2.2.2.1.any (fun f => f.1 == "revisionHistoryLimit" && f.2.2.1 == some 0 &&
        (match f.2.2.2.1 with | some d => decide (0 ≤ d) | none => false))) = true := by decide

/-- the schema keeps `updateStrategy`, `selector`, `template` and `status` opaque: nothing about partitions, strategy or
    policy strings is validated — which is why the theorems above quantify over all of them -/
theorem crd_update_strategy_opaque :
    Asts.Gen.crdVersions.all (fun v =>
      v.2.2.2.1.any (fun f => f.1 == "updateStrategy" && f.2.2.2.2 == true) && v.2.2.2.2 == true) = true := by decide

end Asts.C15
