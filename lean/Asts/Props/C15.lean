import Asts.Spec.Reconcile

/-! # C15 — property theorems (under construction) -/
namespace Asts.C15

end Asts.C15
