import Asts.Proofs.Hijack
import Asts.Model.HijackGen
import Asts.Props.C19

/-! # C19, verb level — every verb of the hijack client is the Advanced client's verb wrapped in the two conversions

Property theorems only; lemmas live in `Asts/Proofs/Hijack`. Model: `Model/Hijack` (`hijack st inner`: what a verb of
`hijackStatefulSet` hands back, given what the inner client's verb answered), tied to client/apis/apps/v1/helper/hijack.go by
the `hijack` engine, which records the inner client's answers around a fake Advanced clientset with injected API errors.
The conversions are those of `Model/Codec` at the schemas extracted from the Go types; that they lose nothing is
`Props/C19` (`to_builtin_keeps`, `list_to_builtin_keeps`, `converted_is_typed`), reused here, not re-proved. -/
namespace Asts.C19h
open Asts Asts.Codec Asts.Hijack

/-- The extracted schemas have the shape the verb theorems need: both list types are structs with an `items` slice (not
    `omitempty` on the Advanced side) and an `apiVersion`; the built-in object type and the built-in item type have an
    `apiVersion`. Evaluated on `Gen/Schema`, which is regenerated from the Go types on every check. -/
theorem gen_schemas_shaped : WellShaped genSchemas :=
  ⟨_, _, _, _, _, _, rfl, rfl, rfl, by decide, rfl, rfl, rfl, rfl, rfl⟩

/-- SUCCESS, object verbs (Create, Update, UpdateStatus, Get, Patch in its four forms, Apply, ApplyStatus): whatever object
    the inner client answers, the verb hands back an object — never nil — and it is `ToBuiltinStatefulSet` of that answer. -/
theorem success_returns_converted (st : Step) (a : GoVal) :
    hijack genSchemas st (.ok (.obj a)) = .ok (.obj (toBuiltin genSchemas a)) :=
  hijack_ok genSchemas st (.obj a)

/-- SUCCESS, List: the list the inner client answers comes back as `ToBuiltinStetefulsetList` of it; Delete,
    DeleteCollection and Watch hand back what they are: nothing, and a stream. -/
theorem success_returns_converted_list (st : Step) (l : GoVal) :
    hijack genSchemas st (.ok (.list l)) = .ok (.list (toBuiltinList genSchemas l)) ∧
    hijack genSchemas st (.ok .done) = .ok .done ∧ hijack genSchemas st (.ok .stream) = .ok .stream :=
  ⟨hijack_ok genSchemas st (.list l), rfl, rfl⟩

/-- What comes back is typed apps/v1, for EVERY object the inner client may answer (no typing hypothesis). -/
theorem success_is_typed (a : GoVal) : Spec.apiVersionOf (toBuiltin genSchemas a) = "apps/v1" := by
  obtain ⟨_, _, _, bs, _, _, _, _, hb, _, _, _, _, _, apiO⟩ := gen_schemas_shaped
  exact apiVersionOf_toBuiltin genSchemas hb apiO a

/-- A list comes back typed apps/v1, every item typed apps/v1, with as many items as the inner client answered — for
    EVERY value the inner client may answer (a list without `items`, or one that is not even a struct, included). -/
theorem success_list_is_typed (l : GoVal) :
    topField "apiVersion" (toBuiltinList genSchemas l) = some (.str "apps/v1") ∧
    (∀ x ∈ Spec.itemsOf (toBuiltinList genSchemas l), topField "apiVersion" x = some (.str "apps/v1")) ∧
    (Spec.itemsOf (toBuiltinList genSchemas l)).length = (Spec.itemsOf l).length :=
  convertList_spec (fa := _) (fb := _) (gs := _) (ta := _) (ob := _) "apps/v1" (by decide) rfl rfl rfl rfl l

/-- The object handed back is the inner client's answer in every field the Advanced API models: apart from the stamped
    apiVersion it is `Unmarshal ∘ Marshal` of the answer, which `C19.to_builtin_keeps` shows to be lossless (nil and empty
    collections identified, slices position by position). -/
theorem success_is_lossless (a : GoVal) (h : HasTy Gen.asSchema a) :
    Equiv Gen.asSchema (decode Gen.builtinSchema (encode Gen.asSchema a)) a ∧
    ∀ k, k ≠ "apiVersion" →
      topField k (toBuiltin genSchemas a) = topField k (decode Gen.builtinSchema (encode Gen.asSchema a)) := by
  refine ⟨C19.to_builtin_keeps a h, fun k hk => ?_⟩
  obtain ⟨_, _, _, bs, _, _, _, _, hb, _⟩ := gen_schemas_shaped
  have hb' : Gen.builtinSchema = .struct bs := hb
  unfold toBuiltin
  show topField k (convert Gen.asSchema Gen.builtinSchema "apps/v1" a) = _
  rw [hb']
  exact (C19.converted_is_typed Gen.asSchema "apps/v1" a).2.2 bs k hk

/-- The same for lists: nothing of the Advanced list is lost, `items` keeps its length and order (`Equiv` on a slice is
    position by position). -/
theorem success_list_is_lossless (l : GoVal) (h : HasTy Gen.asListSchema l) :
    Equiv Gen.asListSchema (decode Gen.builtinListSchema (encode Gen.asListSchema l)) l :=
  C19.list_to_builtin_keeps l h

/-- FAILURE: an error of the inner client comes out of every verb as that very error, and (`Res.err` carries no object)
    with no object. -/
theorem error_passes_through (st : Step) (k : ErrKind) : hijack genSchemas st (.err k) = .err k :=
  hijack_err genSchemas st k

/-- An error comes out exactly when the inner client answered one, and it is the same one: no error is swallowed, none is
    invented, none changes its class. -/
theorem error_iff (st : Step) (inner : Res Out) (k : ErrKind) : hijack genSchemas st inner = .err k ↔ inner = .err k :=
  hijack_eq_err_iff genSchemas st inner k

/-- A result comes out exactly when the inner client answered one, and it is the converted one. -/
theorem result_iff (st : Step) (inner : Res Out) (b : Out) :
    hijack genSchemas st inner = .ok b ↔ ∃ o, inner = .ok o ∧ b = wrapOut genSchemas o :=
  hijack_eq_ok_iff genSchemas st inner b

/-- The monitor of the `hijack` engine is true on the model's observation of every step: every verb, every answer of the
    inner client — any object, any list, any of the six error classes — provided the answer is of the verb's kind (an
    object for Get, a list for List, …). -/
theorem step_monitor_on_model (st : Step) (inner : Res Out) (h : ShapeOk st inner) :
    Spec.stepOk (Spec.observe st inner (hijack genSchemas st inner)) = true :=
  observe_stepOk genSchemas gen_schemas_shaped st inner h

/-- … and on the model's run of every case of the engine: any stored object, any number of other sets, any script of
    verbs with any errors injected — every clause (`C19.sent.*`, `C19.ret.*`, `C19.err.*`, `C19.apply.*`) holds. -/
theorem monitor_on_model (a : GoVal) (s : Store) (ops : List (Step × Option ErrKind)) :
    ∀ c ∈ Spec.clauses { conv := Spec.convGood, convExtra := Spec.convGood, steps := Spec.observeRun genSchemas a s ops }, c.2 = true :=
  clauses_of_runOk _ (observeRun_ok genSchemas gen_schemas_shaped a s ops)

/-- non-vacuity: `ShapeOk` is satisfiable for every verb and every kind of answer -/
example : ShapeOk .get (.ok (.obj C19.exampleBuiltin)) ∧ ShapeOk .list (.ok (.list (listOf C19.exampleBuiltin 2))) ∧
    ShapeOk .delete (.ok .done) ∧ ShapeOk .watch (.ok .stream) ∧ ShapeOk .patchJson (.err .conflict) := by
  refine ⟨?_, ?_, ?_, ?_, ?_⟩ <;> intro o ho <;> cases ho <;> rfl

/-- non-vacuity: a script on an empty store — Get of the missing object, Create, a second Create, an Update that the API
    refuses with a conflict, Delete, Delete again — as the model's inner client answers it -/
example : (Spec.observeRun genSchemas C19.exampleBuiltin { present := false, others := 1 }
      [(.get, none), (.create, none), (.create, none), (.update, some .conflict), (.delete, none), (.delete, none)]).map (·.inner) =
    [.err .notFound, .ok, .err .alreadyExists, .err .conflict, .ok, .err .notFound] := by
  decide

/-- … and the errors come out as they went in -/
example : (Spec.observeRun genSchemas C19.exampleBuiltin { present := false, others := 0 }
      [(.get, none), (.update, some .conflict), (.list, some .timeout)]).map (·.err) =
    [some (.notFound, true), some (.conflict, true), some (.timeout, true)] := by
  decide

end Asts.C19h
