import Asts.Spec.Sync

/-! # C10 — property theorems (under construction) -/
namespace Asts.C10

end Asts.C10
