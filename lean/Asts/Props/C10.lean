import Asts.Proofs.SY_a_C10pods
import Asts.Proofs.SY_a_Headlines
import Asts.Gen.Sites

/-! # C10 — the controller touches only what it owns; adoption needs a fresh confirmation

Property theorems only; the lemmas live in `Asts/Proofs/SY_a_*.lean`. `syncF` (`Model/Sync.lean`) is the model of one whole
`StatefulSetController.sync` + `UpdateStatefulSet`, tied to the Go code by the `sync` engine; `C10pods`, `C10revs`, `C10set`
are the monitors of `Spec/Sync.lean` that the engine evaluates on the real code's call log. All theorems hold for every
hashing function, every revision store, every pod list and every fault plan; there is no size bound.

The monitors read the call log as strings (`verb:resource:name`, parsed by `parseEntry` = `String.splitOn ":"`). The bridge
is `Asts.SYa.splitOn_colon` (`Proofs/SY_a_Strings.lean`): `splitOn ":"` is `List.splitOnP (· == ':')` on the characters, so
`parseEntry ("<verb>:<res>:" ++ name)` is `(verb, res, name)` when the name contains no colon and the degenerate entry
`(whole string, "", "")` when it does — no hypothesis on names is needed.

Hypotheses, and why each is needed (each excluded point was evaluated on the model: the monitor is false there):
* `StoreNamesOk i` — names are unique in the revision store (one namespace of the API). `C10revs` looks a written revision
  up by name in the input store; with two stored revisions of one name (a foreign one first) it finds the wrong one.
* `PodsWf i` for `C10pods`:
  `names` — pod names are unique (the monitor looks a patched pod up by name);
  `ordOfName` — the ordinal recorded for a pod is the one its name shows (the model carries both; a foreign pod named
  `web-2` whose ordinal field says 7 does not block the create of `web-2`);
  `canonical` — a pod the set may claim has its canonical name. This one excludes a real behaviour of the code
  (`exQuirk` below, confirmed on the Go code by the engine): a claimed pod with a zero-padded name `web-03` makes
  `updateIdentity` rename its copy and the controller issues `Update` for `web-3`, which may be a pod controlled by
  somebody else (a real API server rejects that Update on uid / resourceVersion; the fake clientset accepts it).

"Objects read from caches are left unmodified" is Go aliasing, which a pure model cannot exhibit: the `sync` engine
deep-compares every cache object before and after each sync (`C10cache`, field `mut`); it is monitored, not proved. -/
namespace Asts.C10
open Asts Asts.SYa

/-! ## (1) the decision table of `claimDecision` (`ClaimObject`) -/

theorem keep_iff (setDeleting : Bool) (c : CPod) :
    claimDecision setDeleting c = .keep ↔ c.owner = .self ∧ c.selMatch = true ∧ c.member = true :=
  claimDecision_keep_iff setDeleting c

theorem adopt_iff (setDeleting : Bool) (c : CPod) :
    claimDecision setDeleting c = .adopt ↔
      c.owner = .none ∧ c.selMatch = true ∧ c.member = true ∧ c.pod.terminating = false ∧ setDeleting = false :=
  claimDecision_adopt_iff setDeleting c

theorem release_iff (setDeleting : Bool) (c : CPod) :
    claimDecision setDeleting c = .release ↔
      c.owner = .self ∧ ¬(c.selMatch = true ∧ c.member = true) ∧ setDeleting = false :=
  claimDecision_release_iff setDeleting c

/-- `ignore` in every other case -/
theorem ignore_iff (setDeleting : Bool) (c : CPod) :
    claimDecision setDeleting c = .ignore ↔
      ¬(c.owner = .self ∧ c.selMatch = true ∧ c.member = true) ∧
      ¬(c.owner = .none ∧ c.selMatch = true ∧ c.member = true ∧ c.pod.terminating = false ∧ setDeleting = false) ∧
      ¬(c.owner = .self ∧ ¬(c.selMatch = true ∧ c.member = true) ∧ setDeleting = false) :=
  claimDecision_ignore_iff setDeleting c

/-- a pod controlled by another owner is ignored whatever else is true of it -/
theorem foreign_pod_ignored (setDeleting : Bool) (c : CPod) (h : c.owner = .other) :
    claimDecision setDeleting c = .ignore :=
  claimDecision_other setDeleting c h

/-! ## (2) who is treated as part of the set -/

/-- every pod on the claimed list of `claimPodsF` is a pod of the input whose labels match and whose name is `S-<ordinal>`,
    and either it is already controlled by the set, or it was unowned, not terminating, the set not being deleted, and
    its adoption patch went through: an unfaulted `patch:pod:<name>` stands in the part of the log this pass appended.
    Never a pod controlled by another owner. -/
theorem claimed_only_own_or_adopted (plan : List Fault) (setDeleting : Bool) (fresh : Fresh) (pods : List CPod) (tr : Tr) :
    ∀ c ∈ (claimPodsF plan setDeleting fresh pods tr).claimed,
      c ∈ pods ∧ c.owner ≠ .other ∧ c.selMatch = true ∧ c.member = true ∧
      (c.owner = .self ∨
        (c.owner = .none ∧ c.pod.terminating = false ∧ setDeleting = false ∧
          ∃ pre post, (claimPodsF plan setDeleting fresh pods tr).tr.log = tr.log ++ pre ++ s!"patch:pod:{c.name}" :: post ∧
            look plan s!"patch:pod:{c.name}" (occIn (tr.log ++ pre) s!"patch:pod:{c.name}") = none)) :=
  claimPodsF_claimed plan setDeleting fresh pods tr

/-! ## (3) adoption needs a fresh confirmation; (4) a release is a patch -/

/-- the calls of the claim pass are the rendering (`CEv.key`) of an event list in which
    * every event is the uncached read of the set (`get:set`) or the owner-reference patch (`patch:pod:<name>`) of a pod of
      the input whose decision was release or adopt,
    * the uncached read is issued at most once,
    * every patch of an unowned pod stands after that read, the read was not faulted, and it found the set present, with
      the cached uid, and without a deletion timestamp. -/
theorem adoption_confirmed (plan : List Fault) (setDeleting : Bool) (fresh : Fresh) (pods : List CPod) (tr : Tr) :
    ∃ evs : List CEv,
      (claimPodsF plan setDeleting fresh pods tr).tr.log = tr.log ++ evs.map CEv.key ∧
      (∀ e ∈ evs, e = .getSet ∨
        ∃ c ∈ pods, e = .patch c ∧ (claimDecision setDeleting c = .release ∨ claimDecision setDeleting c = .adopt)) ∧
      evs.count .getSet ≤ 1 ∧
      ∀ pre c post, evs = pre ++ .patch c :: post → c.owner = .none →
        ∃ p1 p2, pre = p1 ++ .getSet :: p2 ∧
          look plan "get:set" (occIn (tr.log ++ p1.map CEv.key) "get:set") = none ∧
          fresh.gone = false ∧ fresh.uidOk = true ∧ fresh.deleting = false :=
  claimPodsF_calls plan setDeleting fresh pods tr

/-- a release is a patch, never a delete: everything the claim pass appends to the log is `get:set` or
    `patch:pod:<name of an input pod that is not controlled by another owner>` -/
theorem release_is_a_patch (plan : List Fault) (setDeleting : Bool) (fresh : Fresh) (pods : List CPod) (tr : Tr) :
    ∃ ext, (claimPodsF plan setDeleting fresh pods tr).tr.log = tr.log ++ ext ∧
      ∀ e ∈ ext, e = "get:set" ∨ ∃ c ∈ pods, e = s!"patch:pod:{c.name}" ∧ c.owner ≠ .other ∧
        (claimDecision setDeleting c = .release ∨ claimDecision setDeleting c = .adopt) :=
  claimPodsF_appends plan setDeleting fresh pods tr

/-- the same confirmation guards the adoption of ControllerRevisions: the calls of the adoption phase are, in this order,
    listing and label-sync updates of listed marker-carrying revisions, then the uncached read of the set, then adoption
    patches of listed orphans; a patch is issued only if that read was not faulted and found the set present, with the
    cached uid and without a deletion timestamp, and the cached set is not being deleted -/
theorem revision_adoption_confirmed (plan : List Fault) (setDeleting : Bool) (fresh : Fresh) (s : RevSt) :
    ∃ L1 L2 : List String,
      (adoptOrphanRevisionsF plan setDeleting fresh s).1.tr.log = s.tr.log ++ L1 ++ L2 ∧
      (∀ e ∈ L1, e = "list:revs" ∨ ∃ r ∈ listRevisions s.store, r.marker = true ∧ e = s!"update:rev:{r.name}") ∧
      (L2 = [] ∨ ∃ L2', L2 = "get:set" :: L2' ∧
        (∀ e ∈ L2', ∃ r ∈ listRevisions s.store, r.owner = .none ∧ e = s!"patch:rev:{r.name}") ∧
        (L2' ≠ [] → look plan "get:set" (occIn (s.tr.log ++ L1) "get:set") = none ∧
          fresh.gone = false ∧ fresh.uidOk = true ∧ fresh.deleting = false ∧ setDeleting = false)) :=
  adoptF_confirmed plan setDeleting fresh s

/-! ## (5) ControllerRevisions of another owner are not on the working list -/

theorem listed_not_foreign (store : List Rev) : ∀ r ∈ listRevisions store, r.owner ≠ .other :=
  listRevisions_not_other store

theorem listed_names_distinct (store : List Rev) : ((listRevisions store).map (·.name)).Nodup :=
  listRevisions_nodup store

/-- the list the reconcile works with (`sortRevs (listRevisions store)`): stored revisions that match the selector or carry
    the upgrade marker, none controlled by another owner, each name once -/
theorem working_list (store : List Rev) :
    (∀ r ∈ sortRevs (listRevisions store), r.owner ≠ .other ∧ r ∈ store ∧ (r.selMatch = true ∨ r.marker = true)) ∧
    ((sortRevs (listRevisions store)).map (·.name)).Nodup :=
  sorted_listing_spec store

/-- `nextRevision` counts only revisions of the list it is given -/
theorem nextRevision_counts_listed (sorted : List Rev) :
    nextRevision sorted = 1 ∨ ∃ r ∈ sorted, nextRevision sorted = r.number + 1 :=
  nextRevision_mem sorted

/-- `getRevisionsF` renumbers only a revision of the list it is given, and leaves owner, labels, data of every stored
    revision alone (the store afterwards: numbers changed, or one fresh revision of this set added under a free name) -/
theorem getRevisions_touches_listed (h : Hashing) (plan : List Fault) (template cur : String) (cc0 : Int)
    (revs : List Rev) (s : RevSt) :
    Resolved s.store (getRevisionsF h plan template cur cc0 revs s).1.store ∧
    Ext (GetRevEntry revs) s.tr.log (getRevisionsF h plan template cur cc0 revs s).1.tr.log :=
  getRevisionsF_spec h plan template cur cc0 revs s

/-- `truncateF` deletes only revisions of the list it is given that this set controls -/
theorem truncate_deletes_own_listed (plan : List Fault) (limit : Option Int) (podRevs : List String) (revs : List Rev)
    (cur upd : Rev) (s : RevSt) :
    (∀ x ∈ (truncateF plan limit podRevs revs cur upd s).1.store, x ∈ s.store) ∧
    Ext (fun e => ∃ r ∈ revs, r.owner = .self ∧ e = s!"delete:rev:{r.name}") s.tr.log
      (truncateF plan limit podRevs revs cur upd s).1.tr.log :=
  truncateF_spec plan limit podRevs revs cur upd s

/-- every entry of the call log of a whole sync, classified; `st1` is the revision store after the adoption phase (the
    input store with some orphans adopted and some marker-carrying revisions label-synced) -/
theorem sync_log_classified (h : Hashing) (i : SyncIn) (plan : List Fault) :
    ∃ st1 : List Rev,
      (∃ g : Rev → Rev, (∀ x, AdoptG (listRevisions i.store) x (g x)) ∧ st1 = i.store.map g) ∧
      (i.view.deleting = true → st1 = i.store) ∧
      (∃ st2, Resolved st1 st2 ∧ ∀ x ∈ (syncF h i plan).store, x ∈ st2) ∧
      ∀ e ∈ (syncF h i plan).log,
        PreEntry i st1 e ∨ ActEntry i plan (syncF h i plan).claimed (syncF h i plan).acts e :=
  (syncF_shape h i plan).main

/-! ## (6) the monitors are true on the model -/

/-- **C10, pods**: the monitor `C10pods` holds on the model's output for every hashing, store, pod list and fault plan.
    `Prop` reading: an adoption patch targets an unowned, matching, member, non-terminating pod of a set that is not being
    deleted, after an unfaulted uncached read that found the same uid and no deletion timestamp; a release patch targets a
    pod this set controls that no longer matches; every pod delete / update that names a pod of the snapshot names a pod
    this set controls or adopted earlier in this sync by an unfaulted patch. -/
theorem C10_pods (h : Hashing) (i : SyncIn) (plan : List Fault) (wf : PodsWf i) :
    C10pods i plan (syncF h i plan).observe = true :=
  C10pods_holds h i plan wf

/-- **C10, revisions**: no write (other than a create) names a stored revision controlled by another owner -/
theorem C10_revs (h : Hashing) (i : SyncIn) (plan : List Fault) (hnd : StoreNamesOk i) :
    C10revs i (syncF h i plan).observe = true :=
  C10revs_holds h i plan hnd

/-- **C10, the set**: the only call on the set itself, apart from the status update, is the uncached read -/
theorem C10_set (h : Hashing) (i : SyncIn) (plan : List Fault) :
    C10set (syncF h i plan).observe = true :=
  C10set_holds h i plan

/-! ## (7) the write sites of the Go sources (inventory regenerated from /repo on every check) -/

def inPkg (pkg file : String) : Bool := (pkg.toList ++ ['/']).isPrefixOf file.toList

/-- in the controller packages the only write verb on `StatefulSets` is `UpdateStatus` -/
theorem set_written_only_through_status :
    ∀ s ∈ Asts.Gen.writeSites,
      (inPkg "pkg/controller/statefulset" s.1 || inPkg "pkg/third_party/k8s" s.1) = true →
      s.2.2.1 = "StatefulSets" → s.2.2.2 = "UpdateStatus" := by decide

/-- non-vacuity of the above: there is such a site -/
example : ∃ s ∈ Asts.Gen.writeSites,
    (inPkg "pkg/controller/statefulset" s.1 || inPkg "pkg/third_party/k8s" s.1) = true ∧
    s.2.2.1 = "StatefulSets" ∧ s.2.2.2 = "UpdateStatus" := by decide

/-! ## non-vacuity

`exW`: set `web`, 4 replicas. Pods: `web-0` controlled and matching (kept), `web-1` an orphan (adopted), `web-5`
controlled but no longer matching (released), `web-3` controlled by another owner (ignored — and so `create:pod:web-3`
answers AlreadyExists and the sync ends there). Revisions: `web-a` own, `web-b` an orphan (adopted), `web-c` another owner's. -/
private def exH : Hashing := { nameOf := fun d c => s!"web-{d}{c}", hashNumOf := fun _ _ => none }
private def exPod (id : Nat) (ord : Int) : Pod :=
  { id := id, ord := ord, phase := .running, ready := true, terminating := false, rev := "web-a", idOk := true, stOk := true }
private def exW : SyncIn :=
  { setName := "web", paused := false, selectorOk := true
    view := { replicas := some 4, slots := [], parallel := true, strat := .rolling, ru := some (some 0), deleting := false,
              generation := 1, stCurrentReplicas := 4 }
    stored := {}, collisionCount := none, historyLimit := some 10, template := "a"
    fresh := { gone := false, uidOk := true, deleting := false }
    store := [{ name := "web-a", number := 2, ctime := 0, data := "a", hashNum := none, owner := .self, selMatch := true, marker := false },
              { name := "web-b", number := 1, ctime := 0, data := "b", hashNum := none, owner := .none, selMatch := true, marker := false },
              { name := "web-c", number := 3, ctime := 0, data := "c", hashNum := none, owner := .other, selMatch := true, marker := false }]
    pods := [ { name := "web-0", pod := exPod 0 0, owner := .self, selMatch := true, member := true },
              { name := "web-1", pod := exPod 1 1, owner := .none, selMatch := true, member := true },
              { name := "web-5", pod := exPod 2 5, owner := .self, selMatch := false, member := true },
              { name := "web-3", pod := exPod 3 3, owner := .other, selMatch := true, member := true } ] }

example : StoreNamesOk exW := by unfold StoreNamesOk; decide
example : PodsWf exW := PodsWf.of_canonical (by decide) (by decide)
example : (syncF exH exW []).log =
    ["list:revs", "list:revs", "get:set", "patch:rev:web-b", "get:set", "patch:pod:web-1", "patch:pod:web-5",
     "list:revs", "list:revs", "create:pod:web-2", "create:pod:web-3"] := by decide
example : (syncF exH exW []).claimed.map (·.name) = ["web-0", "web-1"] := by decide

/-! the hypothesis `PodsWf.canonical` is necessary — the upstream quirk, confirmed on the Go code with the `sync` engine
    (case line
    `0|1|4||P|R|0|0|1|0,0,0,0,,,0|nil|10|A|1|0|web-698d87cb6f:1:0:A:698d87cb6f:s:1:0|web-0:0:1:R:1:0:web-698d87cb6f:1:s:1;web-03:3:1:R:1:0:web-698d87cb6f:0:s:1;web-3:3:1:R:1:0:web-698d87cb6f:1:o:1|A:0=web-698d87cb6f:-,A:1=web-698d87cb6d:-,A:2=web-698d87cb75:-,A:3=web-698d87cb74:-,A:4=web-698d87cb69:-,A:5=web-698d87cb68:-|`,
    `diff 0`, `mon C10.pods`): `web-03` is controlled by the set and parses to ordinal 3, `web-3` is controlled by another
    owner; the identity fix renames the copy of `web-03` and the Update call is addressed to `web-3`. -/
private def exQuirk : SyncIn :=
  { exW with
    store := [{ name := "web-a", number := 1, ctime := 0, data := "a", hashNum := none, owner := .self, selMatch := true, marker := false }]
    pods := [ { name := "web-0", pod := exPod 0 0, owner := .self, selMatch := true, member := true },
              { name := "web-03", pod := { exPod 1 3 with idOk := false }, owner := .self, selMatch := true, member := true },
              { name := "web-3", pod := exPod 2 3, owner := .other, selMatch := true, member := true } ] }

example : C10pods exQuirk [] (syncF exH exQuirk []).observe = false := by
  have hlog : (syncF exH exQuirk []).log =
      ["list:revs", "list:revs", "list:revs", "list:revs", "create:pod:web-1", "create:pod:web-2"] ++
        "update:pod:web-3" :: ["updatestatus"] := by decide
  cases hc : C10pods exQuirk [] (syncF exH exQuirk []).observe with
  | false => rfl
  | true =>
    exfalso
    rw [C10pods_eq, List.all_eq_true] at hc
    have hmem := (mem_annotate [] (syncF exH exQuirk []).observe.log _).2 ⟨_, _, _, hlog, rfl⟩
    have hbad := hc _ hmem
    rw [show "update:pod:web-3" = "update:pod:" ++ "web-3" by decide,
      parseEntry_pre3 pre_update_pod "web-3" (by decide)] at hbad
    simp [podCheck, exQuirk, exW] at hbad

/-! `StoreNamesOk` is necessary for `C10revs`: two stored revisions named `a`, the first controlled by another owner and
    listed only by its marker, the second an orphan matching the selector. The orphan is listed and adopted
    (`patch:rev:a`), and the monitor, looking `a` up by name, finds the foreign one. (Evaluated: `C10revs` is `false`.) -/

end Asts.C10
