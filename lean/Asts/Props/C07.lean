import Asts.Spec.Reconcile

/-! # C07 — property theorems (under construction) -/
namespace Asts.C07

end Asts.C07
