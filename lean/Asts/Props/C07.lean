import Asts.Proofs.L1_b_C07

/-! # C07 — rolling update honours the partition and goes highest-first; OnDelete never restarts

Property theorems only; the lemmas live in `Asts/Proofs/L1_b_*.lean`. `updateStatefulSet` is the model of the core
reconcile function (tied to the Go code by the `reconcile` engine), `C07` is the monitor of `Spec/Reconcile.lean`,
`observe` is what a recording pod control sees of the model's actions. All statements hold for both pod management
policies.

Hypotheses, and why each is there:
* `v.replicas = some r`, `0 ≤ r` — the CRD makes `replicas` required with minimum 0 (`C07_holds_total` folds both into
  `0 ≤ replicasOf v`);
* `wfSnapshot pods = true` — the precondition under which `monitorRc` evaluates the clause (`C07.rolling`): every pod
  object carries a phase (so an object that is "not created" is one this reconcile built, with the revision it chose)
  and no two pods parse to the same ordinal;
* `IdsOk pods` — the monitor recognises the pod handed to a delete by its id (see `Props/C05.lean`); the engine numbers
  pods by position (`idsOk_of_positions`). The clause theorems on the model's own actions do not need it.

`partitionOf` (spec) is the raw partition, `partOf` (model, `getRollingUpdatePartition`) clamps it at 0:
`partOf_eq_max`. -/
namespace Asts.C07
open Asts Asts.L1b

/-- **Headline.** The monitor `C07` is true on the model's output for every spec (both strategies, both policies, any
    partition), every snapshot with phases and distinct ordinals and every fault plan. `Prop` reading: the clause theorems
    below, with `updateDeletes_eq` relating the monitor's update-class deletes to the deletes of the model's update walk. -/
theorem C07_holds (v : SetView) (cur upd : String) (pods : List Pod) (f : Faults) (r : Int)
    (hr : v.replicas = some r) (h0 : 0 ≤ r) (hwf : wfSnapshot pods = true) (hids : IdsOk pods) :
    C07 v cur upd pods (observe (updateStatefulSet v cur upd pods f).1.acts) = true :=
  Asts.L1b.C07_holds v cur upd pods f r hr h0 hwf hids

/-- The headline with the replica count read as the monitor reads it (`replicasOf v`, 0 for a nil pointer). -/
theorem C07_holds_total (v : SetView) (cur upd : String) (pods : List Pod) (f : Faults)
    (h0 : 0 ≤ replicasOf v) (hwf : wfSnapshot pods = true) (hids : IdsOk pods) :
    C07 v cur upd pods (observe (updateStatefulSet v cur upd pods f).1.acts) = true :=
  Asts.L1b.C07_holds_total v cur upd pods f h0 hwf hids

/-- The headline with pod ids given as positions in the snapshot, as the engine and the driver number them. -/
theorem C07_holds_positions (v : SetView) (cur upd : String) (pods : List Pod) (f : Faults) (r : Int)
    (hr : v.replicas = some r) (h0 : 0 ≤ r) (hwf : wfSnapshot pods = true)
    (hpos : ∀ (i : Nat) (p : Pod), pods[i]? = some p → p.id = i) (hlen : pods.length < freshId) :
    C07 v cur upd pods (observe (updateStatefulSet v cur upd pods f).1.acts) = true :=
  Asts.L1b.C07_holds v cur upd pods f r hr h0 hwf (idsOk_of_positions hpos hlen)

/-- **OnDelete never restarts**: under OnDelete the update walk deletes nothing — any spec, snapshot, fault plan. -/
theorem onDelete_no_update_delete (v : SetView) (cur upd : String) (pods : List Pod) (f : Faults)
    (hod : v.strat = .onDelete) (o : Int) (id : Nat) :
    Action.delete o id .update ∉ (updateStatefulSet v cur upd pods f).1.acts :=
  C07_onDelete v cur upd pods f hod o id

/-- The same on the monitor's side: under OnDelete no observed delete is of class `update`. -/
theorem onDelete_no_update_class_delete (v : SetView) (cur upd : String) (pods : List Pod) (f : Faults) (r : Int)
    (hr : v.replicas = some r) (h0 : 0 ≤ r) (hids : IdsOk pods) (hod : v.strat = .onDelete) :
    updateDeletes (desired r v.slots) pods (observe (updateStatefulSet v cur upd pods f).1.acts) = [] :=
  C07_onDelete_observed v cur upd pods f r hr h0 hids hod

/-- **At most one pod is taken down for update per reconcile** (both policies) — any spec, snapshot, fault plan. -/
theorem at_most_one_update_delete (v : SetView) (cur upd : String) (pods : List Pod) (f : Faults) :
    ((updateStatefulSet v cur upd pods f).1.acts.filter Action.isUpdDel).length ≤ 1 :=
  C07_one_update_delete v cur upd pods f

/-- The same on the monitor's side. -/
theorem at_most_one_update_class_delete (v : SetView) (cur upd : String) (pods : List Pod) (f : Faults) (r : Int)
    (hr : v.replicas = some r) (h0 : 0 ≤ r) (hids : IdsOk pods) :
    (updateDeletes (desired r v.slots) pods (observe (updateStatefulSet v cur upd pods f).1.acts)).length ≤ 1 :=
  C07_one_update_delete_observed v cur upd pods f r hr h0 hids

/-- **Partition and order**: a delete by the update walk at `o` is not under OnDelete, has `partitionOf v ≤ o` (and
    `partOf v ≤ o`), and every desired ordinal above `o` holds a pod of the snapshot that is Running, Ready, not
    terminating and at the update revision — so the walk goes from the top and one pod is down at a time. -/
theorem update_delete_above_partition_highest_first (v : SetView) (cur upd : String) (pods : List Pod) (f : Faults)
    (r : Int) (hr : v.replicas = some r) (h0 : 0 ≤ r) {o : Int} {id : Nat}
    (h : Action.delete o id .update ∈ (updateStatefulSet v cur upd pods f).1.acts) :
    v.strat ≠ .onDelete ∧ partitionOf v ≤ o ∧ partOf v ≤ o ∧
    ∀ i ∈ desired r v.slots, o < i → HealthyAtRev pods upd i :=
  C07_update_delete v cur upd pods f r hr h0 h

/-- the monitor's update-class deletes of a model run are exactly the deletes of the model's update walk -/
theorem updateDeletes_eq (v : SetView) (cur upd : String) (pods : List Pod) (f : Faults) (r : Int)
    (hr : v.replicas = some r) (h0 : 0 ≤ r) (hids : IdsOk pods) :
    updateDeletes (desired r v.slots) pods (observe (updateStatefulSet v cur upd pods f).1.acts)
      = (updateStatefulSet v cur upd pods f).1.acts.filterMap updOrd :=
  C07_updateDeletes_eq v cur upd pods f r hr h0 hids

/-- Every create is at a desired ordinal and carries the revision `newVersionedStatefulSetPod` (`newPodRev`) chooses. -/
theorem create_revision (v : SetView) (cur upd : String) (pods : List Pod) (f : Faults) (r : Int)
    (hr : v.replicas = some r) (h0 : 0 ≤ r) (hwf : wfSnapshot pods = true) {o : Int} {rev : String}
    (h : Action.create o rev ∈ (updateStatefulSet v cur upd pods f).1.acts) :
    o ∈ desired r v.slots ∧ rev = newPodRev v cur upd o :=
  C07_create_rev v cur upd pods f r hr h0 hwf h

/-- **Partition present**: pods (re)created below the partition are built from the current revision, those at or above
    it from the update revision. -/
theorem create_revision_partition (v : SetView) (cur upd : String) (pods : List Pod) (f : Faults) (r : Int)
    (hr : v.replicas = some r) (h0 : 0 ≤ r) (hwf : wfSnapshot pods = true) {p : Int} (hru : v.ru = some (some p))
    {o : Int} {rev : String} (h : Action.create o rev ∈ (updateStatefulSet v cur upd pods f).1.acts) :
    rev = if o < p then cur else upd :=
  C07_create_partition v cur upd pods f r hr h0 hwf hru h

/-- **Legacy rule**, stated separately: with RollingUpdate and no `rollingUpdate` block the boundary for creations is
    `status.currentReplicas`, not "partition 0". -/
theorem C07_legacy_boundary (v : SetView) (cur upd : String) (pods : List Pod) (f : Faults) (r : Int)
    (hr : v.replicas = some r) (h0 : 0 ≤ r) (hwf : wfSnapshot pods = true) (hst : v.strat = .rolling)
    (hru : v.ru = none) {o : Int} {rev : String}
    (h : Action.create o rev ∈ (updateStatefulSet v cur upd pods f).1.acts) :
    rev = if o < v.stCurrentReplicas then cur else upd :=
  Asts.L1b.C07_legacy_boundary v cur upd pods f r hr h0 hwf hst hru h

/-- The legacy rule as an equivalence (the two revisions differ): a create at `o` carries `cur` iff
    `o < status.currentReplicas`. -/
theorem C07_legacy_boundary_iff (v : SetView) (cur upd : String) (pods : List Pod) (f : Faults) (r : Int)
    (hr : v.replicas = some r) (h0 : 0 ≤ r) (hwf : wfSnapshot pods = true) (hst : v.strat = .rolling)
    (hru : v.ru = none) (hne : cur ≠ upd) {o : Int} {rev : String}
    (h : Action.create o rev ∈ (updateStatefulSet v cur upd pods f).1.acts) :
    rev = cur ↔ o < v.stCurrentReplicas :=
  Asts.L1b.C07_legacy_boundary_iff v cur upd pods f r hr h0 hwf hst hru hne h

/-- A block without partition value, or no block under a strategy other than RollingUpdate (OnDelete or an unknown
    string): every created pod is built from the update revision. -/
theorem create_revision_no_partition (v : SetView) (cur upd : String) (pods : List Pod) (f : Faults) (r : Int)
    (hr : v.replicas = some r) (h0 : 0 ≤ r) (hwf : wfSnapshot pods = true)
    (hru : v.ru = some none ∨ (v.ru = none ∧ v.strat ≠ .rolling)) {o : Int} {rev : String}
    (h : Action.create o rev ∈ (updateStatefulSet v cur upd pods f).1.acts) : rev = upd :=
  C07_create_no_partition v cur upd pods f r hr h0 hwf hru h

/-- the model's partition is the spec's raw partition clamped at 0 -/
theorem partOf_eq_max (v : SetView) : partOf v = max 0 (partitionOf v) := Asts.L1b.partOf_eq_max v

/-- hence the raw partition never exceeds the one the model walks down to -/
theorem partitionOf_le_partOf (v : SetView) : partitionOf v ≤ partOf v := Asts.L1b.partitionOf_le_partOf v

/-! ### non-vacuity: `D = [0, 2, 3]` (slot 1), partition 2, revisions "a" → "b" -/

private def pod (n : Nat) (o : Int) (rv : String) : Pod :=
  { id := n, ord := o, phase := .running, ready := true, terminating := false, rev := rv, idOk := true, stOk := true }

private def v0 : SetView :=
  { replicas := some 3, slots := [1], parallel := true, strat := .rolling, ru := some (some 2),
    deleting := false, generation := 1, stCurrentReplicas := 0 }

/-- the hypotheses hold on a concrete snapshot, and the walk deletes from the top: ordinal 3 first; once 3 is updated,
    ordinal 2 (the partition); then nothing, ordinal 0 being below the partition -/
example : v0.replicas = some 3 ∧ wfSnapshot [pod 0 0 "a", pod 1 2 "a", pod 2 3 "a"] = true ∧
    (updateStatefulSet v0 "a" "b" [pod 0 0 "a", pod 1 2 "a", pod 2 3 "a"] []).1.acts = [.delete 3 2 .update] ∧
    (updateStatefulSet v0 "a" "b" [pod 0 0 "a", pod 1 2 "a", pod 2 3 "b"] []).1.acts = [.delete 2 1 .update] ∧
    (updateStatefulSet v0 "a" "b" [pod 0 0 "a", pod 1 2 "b", pod 2 3 "b"] []).1.acts = [] := by decide

/-- creates on both sides of the partition, in one Parallel reconcile -/
example : (updateStatefulSet v0 "a" "b" [pod 0 7 "a"] []).1.acts
    = [.create 0 "a", .create 2 "b", .create 3 "b", .delete 7 0 .scaleDown] := by decide

/-- OnDelete: nothing is deleted for its revision -/
example : (updateStatefulSet { v0 with strat := .onDelete } "a" "b" [pod 0 0 "a", pod 1 2 "a", pod 2 3 "a"] []).1.acts
    = [] := by decide

/-- the legacy boundary: no block, `status.currentReplicas = 2` -/
example : (updateStatefulSet { v0 with ru := none, stCurrentReplicas := 2 } "a" "b" [] []).1.acts
    = [.create 0 "a", .create 2 "b", .create 3 "b"] := by decide

end Asts.C07
