import Asts.Spec.Sync

/-! # C08 — property theorems (under construction) -/
namespace Asts.C08

end Asts.C08
