import Asts.Proofs.SY_b_C08Monitor

/-! # C08 (store half) — the update revision mirrors the template; scaling edits never cause a restart

Property theorems only; lemmas are in `Asts/Proofs/SY_b_Revs.lean`, `SY_b_GetRevs.lean`, `SY_b_Log.lean`, `SY_b_Sync.lean`,
`SY_b_SyncThms.lean`, `SY_b_Scaling.lean`, `SY_b_Strings.lean` (sya-prover's `parseEntry` bridge), `SY_b_C08Monitor.lean`.

`getRevisionsF h plan template statusCurrentRev cc0 revs s` is the model (`Model/Sync`) of `getStatefulSetRevisions`
(stateful_set_control.go): `revs` is the sorted listing, `s` the API store + call log, `plan` the injected faults, `h` the
hash function (a parameter: EVERY statement below holds for every `Hashing`, colliding ones included).
`SYb.pickF` is `getRevisionsF` without the lookup of the current revision (`getRevisions_is_pick`), `SYb.freshOf` the revision
built from the template (`newRevision`), `SYb.pickCalls` the structured twin of its call log (`RevCall.create/update/get`),
`SYb.candidate h fresh cc` the revision `createControllerRevision` tries to create at collision count `cc`.
The API calls are logged as strings; `pick_log_is_rendering` says the string log is the rendering of the structured one,
and the whole-sync statements about `create:rev:` entries use the character-level prefix test `SYb.pre`. -/
namespace Asts.C08
open Asts Asts.SYb

/-- `getRevisionsF` is `pickF` followed by the lookup of `status.currentRevision` among the listed revisions -/
theorem getRevisions_is_pick (h : Hashing) (plan : List Fault) (template cur : String) (cc0 : Int) (revs : List Rev) (s : RevSt) :
    getRevisionsF h plan template cur cc0 revs s =
      ((pickF h plan template cc0 revs s).1,
       (pickF h plan template cc0 revs s).2.map (fun p => ((revs.find? (·.name == cur)).getD p.1, p.1, p.2))) :=
  getRevisionsF_eq h plan template cur cc0 revs s

/-- the string log of the resolution is the old log followed by the rendering of the structured calls -/
theorem pick_log_is_rendering (h : Hashing) (plan : List Fault) (template cur : String) (cc0 : Int) (revs : List Rev) (s : RevSt) :
    (getRevisionsF h plan template cur cc0 revs s).1.tr.log =
      s.tr.log ++ (pickCalls h plan template cc0 revs s).map RevCall.key := by
  rw [getRevisionsF_eq]; exact pickF_log h plan template cc0 revs s

/-! ## (1) the update revision mirrors the template -/

/-- **(1)** if `getRevisionsF` returns `(cur, upd, cc)` then `upd` records the template and `upd` itself is in the
    resulting store (so a revision named `upd.name` with `data = template` is stored); the collision count never
    decreases. Hypothesis: the listing is the listing of the store (`revs = sortRevs (listRevisions s.store)`). -/
theorem update_revision_mirrors_template (h : Hashing) (plan : List Fault) (template stCur : String) (cc0 : Int) (s : RevSt)
    (cur upd : Rev) (cc : Int)
    (hres : (getRevisionsF h plan template stCur cc0 (sortRevs (listRevisions s.store)) s).2 = some (cur, upd, cc)) :
    upd.data = template ∧
    upd ∈ (getRevisionsF h plan template stCur cc0 (sortRevs (listRevisions s.store)) s).1.store ∧ cc0 ≤ cc := by
  rw [getRevisionsF_eq] at hres ⊢
  simp only at hres ⊢
  cases hp : (pickF h plan template cc0 (sortRevs (listRevisions s.store)) s).2 with
  | none => rw [hp] at hres; simp at hres
  | some p =>
    obtain ⟨u, c⟩ := p
    rw [hp] at hres
    simp only [Option.map_some, Option.some.injEq, Prod.mk.injEq] at hres
    obtain ⟨_, rfl, rfl⟩ := hres
    exact pickF_sound h plan template cc0 _ s (fun r hr => (mem_listRevisions (mem_sortRevs.mp hr)).1) hp

/-- the current revision is the listed revision named by `status.currentRevision`, else the update revision -/
theorem current_revision (h : Hashing) (plan : List Fault) (template stCur : String) (cc0 : Int) (revs : List Rev) (s : RevSt)
    (cur upd : Rev) (cc : Int) (hres : (getRevisionsF h plan template stCur cc0 revs s).2 = some (cur, upd, cc)) :
    cur = (revs.find? (·.name == stCur)).getD upd := by
  rw [getRevisionsF_eq] at hres
  simp only at hres
  cases hp : (pickF h plan template cc0 revs s).2 with
  | none => rw [hp] at hres; simp at hres
  | some p =>
    rw [hp] at hres
    simp only [Option.map_some, Option.some.injEq, Prod.mk.injEq] at hres
    obtain ⟨h1, h2, _⟩ := hres
    rw [← h1, ← h2]

/-- **(1) for a whole sync**: after a successful reconcile, for every store, pods, fault plan and hashing, the update
    revision the sync reports (in the status it wrote, else the cached status) is the one it resolved, and a revision
    of that name recording exactly the current template is in the final store -/
theorem sync_ok_update_revision_stored (h : Hashing) (i : SyncIn) (plan : List Fault)
    (hrun : (i.paused || !i.selectorOk) = false) (hok : (syncF h i plan).outcome = .ok) :
    ∃ u ∈ (syncF h i plan).store, u.name = (syncF h i plan).upd ∧ u.name = reportedUpd i (syncF h i plan) ∧
      u.data = i.template :=
  sync_ok_upd_stored h i plan hrun hok

/-- … and with one object per name in the API it is what a lookup by that name finds -/
theorem sync_ok_update_revision_found (h : Hashing) (i : SyncIn) (plan : List Fault)
    (hrun : (i.paused || !i.selectorOk) = false) (hok : (syncF h i plan).outcome = .ok)
    (hn : (i.store.map (·.name)).Nodup) :
    ∃ u, (syncF h i plan).store.find? (·.name == reportedUpd i (syncF h i plan)) = some u ∧ u.data = i.template := by
  obtain ⟨u, hu, _, h2, h3⟩ := sync_ok_upd_stored h i plan hrun hok
  exact ⟨u, h2 ▸ find?_of_names_nodup (sync_names_nodup h i plan hn) hu, h3⟩

/-! ## (2) scaling edits never change the update revision

`getRevisionsF` has no access to the set at all: its arguments are the template, `status.currentRevision` (used only to
look up the *current* revision), the collision count, the listing and the store + log. What an edit of replicas,
delete-slots, pause or other metadata can change before it runs is the claim stage's part of the log (which pods are
adopted / released), and that cannot matter because faults are addressed by call key. -/

/-- the resolution of the update revision depends on the call log only through how often each ControllerRevision call
    key occurred: with the same store and the same counts it returns the same revision, count and store -/
theorem resolution_reads_only_revision_calls (h : Hashing) (plan : List Fault) (template : String) (cc0 : Int) (revs : List Rev)
    (s s' : RevSt) (hst : s.store = s'.store) (ht : ∀ c : RevCall, cnt c.key s.tr.log = cnt c.key s'.tr.log) :
    (pickF h plan template cc0 revs s).2 = (pickF h plan template cc0 revs s').2 ∧
    (pickF h plan template cc0 revs s).1.store = (pickF h plan template cc0 revs s').1.store :=
  pickF_congr h plan template cc0 revs s s' hst ht

/-- **(2)** two sets with the same template, collision count, stored revisions, API identity and deletion state — and
    arbitrary, different replicas, delete-slots, pods, cached status, history limit, name — that are both reconciled
    successfully under the same fault plan report the same update revision: a scaling edit cannot trigger a rolling
    restart. (Pause: a paused set is not reconciled at all, C11.) -/
theorem scaling_edits_keep_update_revision (h : Hashing) (i i' : SyncIn) (plan : List Fault)
    (hsame : SameRevisionInputs i i')
    (hrun : (i.paused || !i.selectorOk) = false) (hrun' : (i'.paused || !i'.selectorOk) = false)
    (hok : (syncF h i plan).outcome = .ok) (hok' : (syncF h i' plan).outcome = .ok) :
    (syncF h i' plan).upd = (syncF h i plan).upd ∧
    reportedUpd i' (syncF h i' plan) = reportedUpd i (syncF h i plan) :=
  scaling_same_update_revision h i i' plan hsame hrun hrun' hok hok'

/-! ## (3) an unchanged template adds no revision -/

/-- **(3)** if the newest listed revision equals the fresh one (`EqualRevision`), it is the update revision, no call at all
    is made — no Create, no Update — the store is untouched and the collision count is unchanged -/
theorem unchanged_template_adds_nothing (h : Hashing) (plan : List Fault) (template : String) (cc0 : Int) (revs : List Rev)
    (s : RevSt) (l : Rev) (hl : revs.getLast? = some l) (heq : equalRev l (freshOf h template cc0 revs) = true) :
    pickF h plan template cc0 revs s = (s, some (l, cc0)) ∧ pickCalls h plan template cc0 revs s = [] :=
  pickF_unchanged h plan template cc0 revs s hl heq

/-- (3)/(4) for a whole sync: if some listed revision equals the fresh one — the newest (unchanged template) or an older
    one (revert) — the whole sync logs no `create:rev:` entry, whatever else happens -/
theorem sync_equal_revision_no_create (h : Hashing) (i : SyncIn) (plan : List Fault) (r : Rev) (hr : r ∈ syncListing plan i)
    (heq : equalRev r (freshOf h i.template (i.collisionCount.getD 0) (syncListing plan i)) = true) :
    (syncF h i plan).log.filter (pre "create:rev:") = [] :=
  sync_no_create_of_equal h i plan hr heq

/-- every `create:rev:` entry of a sync is a probe of the name derived from the current template at a collision count
    not below the stored one -/
theorem sync_creates_are_template_probes (h : Hashing) (i : SyncIn) (plan : List Fault) (e : String)
    (he : e ∈ (syncF h i plan).log) (hp : pre "create:rev:" e = true) :
    ∃ j, (i.collisionCount.getD 0) ≤ j ∧ e = s!"create:rev:{h.nameOf i.template j}" :=
  sync_create_entries h i plan e he hp

/-! ## (4) reverting re-uses the earlier revision, renumbered above all others -/

/-- **(4)** if some listed revision equals the fresh one, nothing is created: every call is an Update or a Get of the last
    equal revision `e`. With a sorted listing, a successful resolution keeps the collision count and either uses the
    newest revision as it is (it records the same data as `e`; no call) or uses `e` renumbered to `nextRevision revs`,
    which is greater than every listed number, and stores it so. -/
theorem revert_reuses_and_renumbers (h : Hashing) (plan : List Fault) (template : String) (cc0 : Int) (revs : List Rev)
    (s : RevSt) (hne : ∃ r ∈ revs, equalRev r (freshOf h template cc0 revs) = true) :
    ∃ e l, (equalsOf h template cc0 revs).getLast? = some e ∧ revs.getLast? = some l ∧
      (∀ c ∈ pickCalls h plan template cc0 revs s, c = .update e.name ∨ c = .get e.name) ∧
      (revs.Pairwise (fun a b => revLt b a = false) → ∀ upd cc, (pickF h plan template cc0 revs s).2 = some (upd, cc) →
        cc = cc0 ∧
        ((upd = l ∧ equalRev l e = true ∧ (pickF h plan template cc0 revs s).1.store = s.store ∧
            pickCalls h plan template cc0 revs s = []) ∨
         (upd = { e with number := nextRevision revs } ∧ equalRev l e = false ∧
            (pickF h plan template cc0 revs s).1.store = s.store.map (setNumber e.name (nextRevision revs)) ∧
            ∀ r ∈ revs, r.number < upd.number))) := by
  apply pickF_revert
  obtain ⟨r, hr, heq⟩ := hne
  intro hnil
  have : r ∈ equalsOf h template cc0 revs := by unfold equalsOf; rw [List.mem_filter]; exact ⟨hr, heq⟩
  rw [hnil] at this; simp at this

/-- `nextRevision` of a sorted listing exceeds every listed number (`SortControllerRevisions` puts the largest last) -/
theorem nextRevision_above_all (l : List Rev) : ∀ r ∈ sortRevs l, r.number < nextRevision (sortRevs l) :=
  nextRevision_gt (sortRevs_sorted l)

/-- (4) for a whole sync: reverting and succeeding leaves, under the reported name, a stored revision that records the
    template and whose number is ≥ every listed number; it is a listed revision itself, or a listed one renumbered to
    `nextRevision`; every other stored
    revision is as adoption left it -/
theorem sync_revert_renumbered_above_all (h : Hashing) (i : SyncIn) (plan : List Fault)
    (hrun : (i.paused || !i.selectorOk) = false) (hok : (syncF h i plan).outcome = .ok) (r0 : Rev)
    (hr : r0 ∈ syncListing plan i)
    (heq : equalRev r0 (freshOf h i.template (i.collisionCount.getD 0) (syncListing plan i)) = true) :
    ∃ u ∈ (syncF h i plan).store, u.name = (syncF h i plan).upd ∧ u.data = i.template ∧
      (∀ r ∈ syncListing plan i, r.number ≤ u.number) ∧
      (u ∈ syncListing plan i ∨
        (u.number = nextRevision (syncListing plan i) ∧ ∃ e ∈ syncListing plan i, e.name = u.name ∧ e.data = i.template)) ∧
      (∀ q ∈ (syncF h i plan).store, q.name ≠ (syncF h i plan).upd → q ∈ adoptedStore plan i) :=
  sync_revert_number h i plan hrun hok hr heq

/-! ## (5) a name collision never overwrites -/

/-- **(5)** `createRevLoopF` changes the store only by inserting one revision under a name that was absent (then it
    returns exactly that revision); a returned revision is stored, records the wanted data and carries the name derived at
    the returned collision count, which is not below the initial one -/
theorem create_loop_only_inserts_absent (h : Hashing) (plan : List Fault) (fresh : Rev) (fuel : Nat) (cc : Int) (s : RevSt) :
    ((createRevLoopF h plan fresh fuel cc s).1.store = s.store ∨
      ∃ cc', cc ≤ cc' ∧ (createRevLoopF h plan fresh fuel cc s).2 = some (candidate h fresh cc', cc') ∧
        (∀ x ∈ s.store, x.name ≠ h.nameOf fresh.data cc') ∧
        (createRevLoopF h plan fresh fuel cc s).1.store = insertByName (candidate h fresh cc') s.store) ∧
    (∀ r cc', (createRevLoopF h plan fresh fuel cc s).2 = some (r, cc') →
        r ∈ (createRevLoopF h plan fresh fuel cc s).1.store ∧ r.data = fresh.data ∧ r.name = h.nameOf fresh.data cc' ∧
        cc ≤ cc' ∧ (r ∈ s.store ∨ r = candidate h fresh cc')) :=
  ⟨(createRevLoopF_spec h plan fresh fuel cc s).2.1, (createRevLoopF_spec h plan fresh fuel cc s).2.2.1⟩

/-- every pre-existing revision is still there, unchanged, after the create loop -/
theorem create_loop_keeps_existing (h : Hashing) (plan : List Fault) (fresh : Rev) (fuel : Nat) (cc : Int) (s : RevSt)
    (x : Rev) (hx : x ∈ s.store) : x ∈ (createRevLoopF h plan fresh fuel cc s).1.store := by
  rcases (createRevLoopF_spec h plan fresh fuel cc s).2.1 with h1 | ⟨cc', _, _, _, h1⟩
  · rw [h1]; exact hx
  · rw [h1]; exact mem_insertByName.mpr (Or.inr hx)

/-- AlreadyExists on a name held by a revision with different data: nothing is written, the collision count increases by
    one and the next name is probed (the log gains the failed Create and the Get) -/
theorem collision_bumps_count (h : Hashing) (plan : List Fault) (fresh : Rev) (fuel : Nat) (cc : Int) (s : RevSt) (ex : Rev)
    (hk : createKind h plan fresh cc s = some .alreadyExists)
    (hg : ((afterCreate h plan fresh cc s).tr.call plan (RevCall.get (h.nameOf fresh.data cc)).key).2 = none)
    (hf : s.store.find? (·.name == h.nameOf fresh.data cc) = some ex) (hd : ex.data ≠ fresh.data) :
    createRevLoopF h plan fresh (fuel + 1) cc s = createRevLoopF h plan fresh fuel (cc + 1) (afterGet h plan fresh cc s) ∧
    (afterGet h plan fresh cc s).store = s.store ∧
    (afterGet h plan fresh cc s).tr.log =
      s.tr.log ++ [(RevCall.create (h.nameOf fresh.data cc)).key, (RevCall.get (h.nameOf fresh.data cc)).key] :=
  createRevLoopF_collision h plan fresh fuel cc s hk hg hf hd

/-- the whole resolution: the store is left alone, or one revision gets a new number, or one revision is inserted under
    a name that was absent (and is the one returned) -/
theorem resolution_store (h : Hashing) (plan : List Fault) (template : String) (cc0 : Int) (revs : List Rev) (s : RevSt) :
    (pickF h plan template cc0 revs s).1.store = s.store ∨
    (∃ e n, (pickF h plan template cc0 revs s).1.store = s.store.map (setNumber e n)) ∨
    (∃ cc, cc0 ≤ cc ∧ (∀ x ∈ s.store, x.name ≠ h.nameOf template cc) ∧
       (pickF h plan template cc0 revs s).1.store = insertByName (candidate h (freshOf h template cc0 revs) cc) s.store ∧
       (pickF h plan template cc0 revs s).2 = some (candidate h (freshOf h template cc0 revs) cc, cc)) :=
  pickF_store h plan template cc0 revs s

/-- every stored revision keeps its name, data, owner, labels, hash label and creation time through the resolution -/
theorem resolution_preserves (h : Hashing) (plan : List Fault) (template : String) (cc0 : Int) (revs : List Rev) (s : RevSt)
    (x : Rev) (hx : x ∈ s.store) :
    ∃ y ∈ (pickF h plan template cc0 revs s).1.store,
      y.name = x.name ∧ y.data = x.data ∧ y.owner = x.owner ∧ y.selMatch = x.selMatch ∧ y.marker = x.marker ∧
      y.hashNum = x.hashNum ∧ y.ctime = x.ctime :=
  pickF_preserves h plan template cc0 revs s hx

/-- (5) for a whole sync, every outcome: each revision of the final store is a revision of the initial store under the
    same name with the same data (creation time, hash label, marker too; the owner unchanged or now this set) — or a new
    one under a name that was free, recording the current template. Nothing is overwritten. -/
theorem sync_never_overwrites (h : Hashing) (i : SyncIn) (plan : List Fault) (y : Rev) (hy : y ∈ (syncF h i plan).store) :
    (∃ x ∈ i.store, y.name = x.name ∧ y.data = x.data ∧ y.ctime = x.ctime ∧ y.hashNum = x.hashNum ∧ y.marker = x.marker ∧
        (y.owner = x.owner ∨ y.owner = .self)) ∨
    (y.name ∉ i.store.map (·.name) ∧ y.data = i.template ∧ y.owner = .self) :=
  sync_store_evolved h i plan y hy

/-- … in the monitor's form: with one object per name, whatever is still stored under an old name records what it
    recorded before -/
theorem sync_data_preserved (h : Hashing) (i : SyncIn) (plan : List Fault) (hn : (i.store.map (·.name)).Nodup)
    (x : Rev) (hx : x ∈ i.store) (y : Rev) (hy : y ∈ (syncF h i plan).store) (hname : y.name = x.name) : y.data = x.data := by
  rcases sync_store_evolved h i plan y hy with ⟨x', hx', h1, h2, _⟩ | ⟨h1, _⟩
  · have : x' = x := List.inj_on_of_nodup_map hn hx' hx (h1.symm.trans hname)
    rw [h2, this]
  · exact absurd (hname ▸ List.mem_map_of_mem (f := (·.name)) hx) h1

/-! ## (6) termination of the collision loop -/

/-- **(6)** if the hash-derived name is injective in the collision count on the `|store| + 1` values from `cc0` on, the
    fuel is never exhausted: every fuel ≥ `|store| + 1` — in particular the model's `|store| + 8`, and any larger one —
    yields the same state, log and answer, so the unbounded loop of the Go code stops within `|store| + 1` probes.
    Without the assumption the Go loop could spin for ever on names that all exist with other data (a hash that ignores
    the collision count): that is why it is a hypothesis and not a theorem about every `Hashing`. -/
theorem fuel_never_exhausted (h : Hashing) (plan : List Fault) (fresh : Rev) (cc0 : Int) (s : RevSt)
    (hinj : ∀ a b : Nat, a ≤ s.store.length → b ≤ s.store.length →
      h.nameOf fresh.data (cc0 + a) = h.nameOf fresh.data (cc0 + b) → a = b)
    (fuel : Nat) (hf : s.store.length + 1 ≤ fuel) :
    createRevLoopF h plan fresh fuel cc0 s = createRevLoopF h plan fresh (s.store.length + 1) cc0 s :=
  createRevLoopF_fuel h plan fresh cc0 s hinj fuel hf

/-- in particular the fuel the model uses is as good as any larger one -/
theorem model_fuel_suffices (h : Hashing) (plan : List Fault) (fresh : Rev) (cc0 : Int) (s : RevSt)
    (hinj : ∀ a b : Nat, a ≤ s.store.length → b ≤ s.store.length →
      h.nameOf fresh.data (cc0 + a) = h.nameOf fresh.data (cc0 + b) → a = b) (extra : Nat) :
    createRevLoopF h plan fresh (s.store.length + 8 + extra) cc0 s = createRevLoopF h plan fresh (s.store.length + 8) cc0 s := by
  rw [createRevLoopF_fuel h plan fresh cc0 s hinj _ (by omega), createRevLoopF_fuel h plan fresh cc0 s hinj (s.store.length + 8) (by omega)]

/-! ## (7) the hash-label quirk of `EqualRevision` -/

/-- equal revisions record the same data, whatever their hash labels -/
theorem equalRev_implies_same_data (a b : Rev) (h : equalRev a b = true) : a.data = b.data := equalRev_data h

/-- when either hash label is not a base-10 int32 the labels are ignored: equality is equality of the data -/
theorem equalRev_nonnumeric_label (a b : Rev) (h : a.hashNum = none ∨ b.hashNum = none) :
    equalRev a b = true ↔ a.data = b.data :=
  equalRev_iff_of_nonnumeric h

/-- in general: same data, and the labels agree whenever both are numeric -/
theorem equalRev_characterisation (a b : Rev) :
    equalRev a b = true ↔ a.data = b.data ∧ ∀ x y, a.hashNum = some x → b.hashNum = some y → x = y :=
  equalRev_iff a b

/-! ## (8) the monitor on the model

`Spec.C08` is the conjunction of four clauses (`SYb.C08_split`, by `rfl`): `C08stored` (after a successful reconcile the
reported update revision is stored and records the template), `C08kept` (whatever is still stored under an old name
records what it recorded), `C08unchanged` (newest listed revision equal ⇒ no `create:rev` entry parses out of the log),
`C08revert` (some listed revision equal ⇒ no `create:rev` entry, and on success the update revision's number is ≥ every
other listed revision's). The only hypothesis is that the API store holds one object per name; it is needed: the monitor
looks revisions up by name (`find?`), and on a store with two objects of one name and different data `C08kept` is false
for the second one even on a sync that does nothing (`#eval` on `store := [x/"1", x/"2"]`, paused: `false`). Names may
contain ':' — an entry whose name does is parsed as "no call" by the monitor, which only makes "no Create" easier. -/

/-- **C08 headline**: the monitor is true on the model for every hashing (colliding ones included), every input whose
    store keeps one object per name, every pod list, every fault plan -/
theorem C08_monitor_true_on_model (h : Hashing) (i : SyncIn) (plan : List Fault) (hn : (i.store.map (·.name)).Nodup) :
    C08 h i (syncF h i plan).observe = true :=
  C08_model h i plan hn

/-- the clauses, separately -/
theorem C08_clauses (h : Hashing) (i : SyncIn) (plan : List Fault) (hn : (i.store.map (·.name)).Nodup) :
    C08stored i (syncF h i plan).observe = true ∧ C08kept i (syncF h i plan).observe = true ∧
    C08unchanged h i (syncF h i plan).observe = true ∧ C08revert h i (syncF h i plan).observe = true :=
  ⟨C08stored_model h i plan hn, C08kept_model h i plan hn, C08unchanged_model h i plan hn, C08revert_model h i plan hn⟩

/-- `Spec.C08` is literally the conjunction of the four clauses -/
theorem C08_is_its_clauses (h : Hashing) (i : SyncIn) (o : SyncObs) :
    C08 h i o = (C08stored i o && C08kept i o && C08unchanged h i o && C08revert h i o) :=
  C08_split h i o

/-! ## the hypotheses are satisfiable: a concrete world -/

def exH : Hashing := { nameOf := fun d c => s!"web-{d}-{c}", hashNumOf := fun _ _ => none }
/-- a hashing that collides: at collision count 0 every template is named `web-a-0` -/
def exHcoll : Hashing := { exH with nameOf := fun d c => if c == 0 then "web-a-0" else s!"web-{d}-{c}" }
def exRev (nm : String) (n : Int) (d : String) : Rev :=
  { name := nm, number := n, ctime := n, data := d, hashNum := none, owner := .self, selMatch := true, marker := false }
def exStore : List Rev := [exRev "web-a-0" 1 "a", exRev "web-b-0" 2 "b", exRev "web-c-0" 3 "c", exRev "web-d-0" 4 "d"]
def exPod (k : Nat) (rev : String) : CPod :=
  { name := s!"web-{k}",
    pod := { id := k, ord := k, phase := .running, ready := true, terminating := false, rev := rev, idOk := true, stOk := true },
    owner := .self, selMatch := true, member := true }
/-- a set at template `d` (revision 4) with two healthy pods, history limit 10 -/
def exIn : SyncIn :=
  { setName := "web", paused := false, selectorOk := true,
    view := { replicas := some 2, slots := [], parallel := false, strat := .rolling, ru := some (some 0), deleting := false,
              generation := 3, stCurrentReplicas := 2 },
    stored := { replicas := 2, ready := 2, current := 2, updated := 2, currentRev := "web-d-0", updateRev := "web-d-0",
                observedGen := 3 },
    collisionCount := some 0, historyLimit := some 10, template := "d",
    fresh := { gone := false, uidOk := true, deleting := false },
    store := exStore, pods := [exPod 0 "web-d-0", exPod 1 "web-d-0"] }

/-- unchanged template: success, no revision call at all, the update revision is the newest -/
example : (syncF exH exIn []).outcome = .ok ∧ (syncF exH exIn []).upd = "web-d-0" ∧
    (syncF exH exIn []).log = ["list:revs", "list:revs", "list:revs", "list:revs"] := by decide

/-- revert to template `b`: revision `web-b-0` is re-used, renumbered 5 = above all others; nothing is created -/
example : (syncF exH { exIn with template := "b" } []).outcome = .ok ∧ (syncF exH { exIn with template := "b" } []).upd = "web-b-0" ∧
    (syncF exH { exIn with template := "b" } []).log.filter (pre "create:rev:") = [] ∧
    (syncF exH { exIn with template := "b" } []).store.map (fun r => (r.name, r.number)) =
      [("web-a-0", 1), ("web-b-0", 5), ("web-c-0", 3), ("web-d-0", 4)] := by decide

/-- a new template under a colliding hash: the first name is taken by other data, nothing is overwritten, the collision
    count goes to 1 and `web-e-1` is created -/
example : (syncF exHcoll { exIn with template := "e" } []).outcome = .ok ∧
    (syncF exHcoll { exIn with template := "e" } []).upd = "web-e-1" ∧ (syncF exHcoll { exIn with template := "e" } []).cc = some 1 ∧
    (syncF exHcoll { exIn with template := "e" } []).log.filter (pre "create:rev:") = ["create:rev:web-a-0", "create:rev:web-e-1"] ∧
    (syncF exHcoll { exIn with template := "e" } []).store.map (fun r => (r.name, r.data)) =
      [("web-a-0", "a"), ("web-b-0", "b"), ("web-c-0", "c"), ("web-d-0", "d"), ("web-e-1", "e")] := by decide

/-- scaling edit (replicas 2 → 5, a delete-slot, one pod fewer): hypotheses of (2) hold, and indeed the same update revision -/
example : SameRevisionInputs exIn { exIn with view := { exIn.view with replicas := some 5, slots := [1] }, pods := [exPod 0 "web-d-0"] } :=
  ⟨rfl, rfl, rfl, rfl, rfl⟩

/-- the hypothesis of the headline holds in the example world -/
example : (exIn.store.map (·.name)).Nodup := by decide

/-- without injectivity the loop can exhaust any fuel: a hash that ignores the collision count, one stored revision of
    that name with other data -/
example : (createRevLoopF { nameOf := fun _ _ => "x", hashNumOf := fun _ _ => none } [] (exRev "x" 1 "new") 50 0
    { store := [exRev "x" 1 "old"] }).2 = none := by decide

end Asts.C08
